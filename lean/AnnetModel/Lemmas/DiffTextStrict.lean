/-
The strict reader of `formatter.diff` (Spec/DiffTextStrict.lean) also reads the text back: the block-end lines that
`_diff_lines` prints are exactly where the bracket discipline expects them, with the sign of the block's entry.
An example shows that the strict reader rejects a text whose block-end line carries a wrong sign, which the lenient
reader `parseSigned` accepts.

Core Lean only.
-/
import AnnetModel.Spec.DiffTextStrict
import AnnetModel.Lemmas.DiffText

namespace Annet.DiffText

/-! ### the line reader -/

theorem readLineS_row (f : Fmt) (hf : FmtOK f) (s : Sign) (lvl : Nat) (row : Txt) (b : Bool)
    (h : RowOK f b row) :
    readLineS f (fline f s lvl (row ++ suffixOf f b)) = some (.entry ⟨s, lvl, row⟩) := by
  obtain ⟨h1, h2, h3⟩ := h
  simp only [fline, readLineS, ofChar_char, stripIndent_rep f.indent _ hf.1 h1 lvl, h3]
  by_cases he : f.blockEnd = []
  · simp [he]
  · have := h2 he
    simp [this]

theorem readLineS_closing (f : Fmt) (hf : FmtOK f) (s : Sign) (lvl : Nat) (hne : f.blockEnd ≠ []) :
    readLineS f (fline f s lvl f.blockEnd) = some (.close s lvl) := by
  simp only [fline, readLineS, ofChar_char, stripIndent_rep f.indent _ hf.1 hf.2 lvl]
  simp [hne]

theorem readLinesS_append {f : Fmt} : ∀ {a b : List Txt} {x y : List RLine},
    readLinesS f a = some x → readLinesS f b = some y → readLinesS f (a ++ b) = some (x ++ y)
  | [], b, x, y, ha, hb => by
    simp only [readLinesS, Option.some.injEq] at ha
    subst ha
    simpa using hb
  | l :: a, b, x, y, ha, hb => by
    simp only [readLinesS] at ha
    simp only [List.cons_append, readLinesS]
    cases h1 : readLineS f l with
    | none => simp [h1] at ha
    | some p =>
      cases h2 : readLinesS f a with
      | none => simp [h1, h2] at ha
      | some ps =>
        have ih := readLinesS_append h2 hb
        simp only [h1, h2, Option.some.injEq] at ha
        subst ha
        simp [ih]

/-! ### preorder listing of a forest, block-end lines kept -/

/-- the block-end line after the children `ch` of an entry -/
def closeS (he : Bool) (s : Sign) (lvl : Nat) (ch : List SItem) : List RLine :=
  if he && !ch.isEmpty then [.close s lvl] else []

mutual
  /-- the lines of an entry and of its nested entries in preorder, with the block-end lines -/
  def flatSItem (he : Bool) (lvl : Nat) : SItem → List RLine
    | .mk s row ch => .entry ⟨s, lvl, row⟩ :: (flatSList he (lvl + 1) ch ++ closeS he s lvl ch)
  def flatSList (he : Bool) (lvl : Nat) : List SItem → List RLine
    | [] => []
    | i :: rest => flatSItem he lvl i ++ flatSList he lvl rest
end

mutual
  theorem readLinesS_linesItem (f : Fmt) (hf : FmtOK f) :
      ∀ (lvl : Nat) (i : SItem), RowsOKItem f i →
        readLinesS f (linesItem f lvl i) = some (flatSItem (!f.blockEnd.isEmpty) lvl i)
    | lvl, .mk s row [], h => by
      simp only [RowsOKItem] at h
      have := readLineS_row f hf s lvl row false (by simpa using h.1)
      simp only [suffixOf, Bool.false_eq_true, if_false] at this
      simp [linesItem, flatSItem, flatSList, closeS, readLinesS, this]
    | lvl, .mk s row (c :: cs), h => by
      simp only [RowsOKItem] at h
      have ih := readLinesS_linesList f hf (lvl + 1) (c :: cs) h.2
      have h1 := readLineS_row f hf s lvl row true (by simpa using h.1)
      simp only [suffixOf, if_true] at h1
      have hc : readLinesS f (closing f s lvl) = some (closeS (!f.blockEnd.isEmpty) s lvl (c :: cs)) := by
        unfold closing closeS
        by_cases he : f.blockEnd = []
        · simp [he, readLinesS]
        · have := readLineS_closing f hf s lvl he
          simp [he, readLinesS, this]
      have := readLinesS_append ih hc
      simp only [linesItem, flatSItem, readLinesS, h1, this]
  theorem readLinesS_linesList (f : Fmt) (hf : FmtOK f) :
      ∀ (lvl : Nat) (l : List SItem), RowsOK f l →
        readLinesS f (linesList f lvl l) = some (flatSList (!f.blockEnd.isEmpty) lvl l)
    | lvl, [], _ => by simp [linesList, flatSList, readLinesS]
    | lvl, i :: rest, h => by
      simp only [RowsOK] at h
      have h1 := readLinesS_linesItem f hf lvl i h.1
      have h2 := readLinesS_linesList f hf lvl rest h.2
      simp only [linesList, flatSList]
      exact readLinesS_append h1 h2
end

/-! ### `buildS` inverts `flatSList` -/

/-- the lines after a forest at level `lvl`: nothing, or a line (entry or block end) that is less deep -/
def StopS (lvl : Nat) (rest : List RLine) : Prop := ∀ l, rest.head? = some l → l.level < lvl

theorem buildS_stop (he : Bool) {lvl : Nat} {rest : List RLine} (h : StopS lvl rest) (fuel : Nat) :
    buildS he (fuel + 1) lvl rest = some ([], rest) := by
  cases rest with
  | nil => simp [buildS]
  | cons l ls =>
    have := h l (by simp)
    cases l with
    | entry p => simp only [RLine.level] at this; simp [buildS, this]
    | close s l => simp only [RLine.level] at this; simp [buildS, this]

theorem stopS_nil (lvl : Nat) : StopS lvl [] := by intro l h; simp at h

theorem stopS_flat (he : Bool) {lvl : Nat} {rest : List RLine} (h : StopS lvl rest) :
    ∀ (l : List SItem), StopS (lvl + 1) (flatSList he lvl l ++ rest)
  | [] => by
    intro x hx
    have := h x (by simpa [flatSList] using hx)
    omega
  | .mk s row ch :: l' => by
    intro x hx
    simp [flatSList, flatSItem] at hx
    subst hx
    simp [RLine.level]

theorem stopS_close (he : Bool) (s : Sign) {lvl : Nat} (ch : List SItem) {tail : List RLine}
    (h : StopS (lvl + 1) tail) : StopS (lvl + 1) (closeS he s lvl ch ++ tail) := by
  unfold closeS
  split
  · intro x hx
    simp at hx
    subst hx
    simp [RLine.level]
  · simpa using h

theorem takeClose_closeS (he : Bool) (s : Sign) (lvl : Nat) (ch : List SItem) (tail : List RLine) :
    takeClose he s lvl ch (closeS he s lvl ch ++ tail) = some tail := by
  unfold takeClose closeS
  split <;> simp

theorem flatSItem_length_pos (he : Bool) (lvl : Nat) (i : SItem) : 0 < (flatSItem he lvl i).length := by
  cases i; simp [flatSItem]

mutual
  theorem buildS_flatItem (he : Bool) : ∀ (i : SItem) (lvl fuel : Nat) (tail : List RLine)
      (sibs : List SItem) (r : List RLine),
      (flatSItem he lvl i ++ tail).length ≤ fuel → StopS (lvl + 1) tail →
      buildS he fuel lvl tail = some (sibs, r) →
      buildS he (fuel + 1) lvl (flatSItem he lvl i ++ tail) = some (i :: sibs, r)
    | .mk s row ch, lvl, fuel, tail, sibs, r, hl, hs, hb => by
      simp only [flatSItem, List.cons_append, List.length_cons, List.append_assoc] at hl
      have ih := buildS_flatList he ch (lvl + 1) fuel (closeS he s lvl ch ++ tail) (by omega)
        (stopS_close he s ch hs)
      simp [flatSItem, buildS, ih, takeClose_closeS, hb]
  theorem buildS_flatList (he : Bool) : ∀ (l : List SItem) (lvl fuel : Nat) (rest : List RLine),
      (flatSList he lvl l ++ rest).length < fuel → StopS lvl rest →
      buildS he fuel lvl (flatSList he lvl l ++ rest) = some (l, rest)
    | [], lvl, 0, rest, hl, hs => by omega
    | [], lvl, fuel + 1, rest, _, hs => by simpa [flatSList] using buildS_stop he hs fuel
    | i :: l', lvl, 0, rest, hl, hs => by omega
    | i :: l', lvl, fuel + 1, rest, hl, hs => by
      simp only [flatSList, List.append_assoc] at hl ⊢
      have hp := flatSItem_length_pos he lvl i
      have h2 := buildS_flatList he l' lvl fuel rest (by
        simp only [List.length_append] at hl ⊢; omega) hs
      exact buildS_flatItem he i lvl fuel (flatSList he lvl l' ++ rest) l' rest (by
        simp only [List.length_append] at hl ⊢; omega) (stopS_flat he hs l') h2
end

theorem buildS_flat (he : Bool) (l : List SItem) :
    buildS he ((flatSList he 0 l).length + 1) 0 (flatSList he 0 l) = some (l, []) := by
  have := buildS_flatList he l 0 ((flatSList he 0 l).length + 1) [] (by simp) (stopS_nil 0)
  simpa only [List.append_nil] using this

/-- reading `formatter.diff(d)` back with the strict reader gives `d`: every block-end line is where the bracket
discipline expects it and carries the sign of its block -/
theorem diff_text_roundtrip_strict (f : Fmt) (d : List SItem) (hf : FmtOK f) (hd : RowsOK f d) :
    parseSignedStrict f (diffText f d) = some d := by
  simp only [parseSignedStrict, diffText, readLinesS_linesList f hf 0 d hd, buildS_flat]

/-! ### the strict reader sees what the lenient one does not -/

/-- an AFFECTED block with one ADDED child -/
def exSmall : List SItem := [ .mk .space "system".toList [ .mk .plus "host-name r1".toList [] ] ]

/-- its text under the Junos-like formatter -/
def exGood : List Txt := [ "  system {".toList, "+     host-name r1;".toList, "  }".toList ]

/-- the same text, the block-end line printed with the sign of the child -/
def exBad : List Txt := [ "  system {".toList, "+     host-name r1;".toList, "+ }".toList ]

example : diffText junosFmt exSmall = exGood := by decide

example : parseSignedStrict junosFmt exGood = some exSmall := by rfl

/-- the lenient reader drops the block-end line and so accepts the text, with the same reading -/
example : (parseSigned junosFmt exBad).isSome = true := by decide +kernel

example : parseSigned junosFmt exBad = some exSmall := by rfl

/-- the strict reader rejects it -/
example : parseSignedStrict junosFmt exBad = none := by decide +kernel

/-- likewise a block-end line after a leaf, or a missing block-end line -/
example : parseSignedStrict junosFmt [ "+ host-name r1;".toList, "+ }".toList ] = none := by decide +kernel

example : parseSignedStrict junosFmt [ "  system {".toList, "+     host-name r1;".toList ] = none := by
  decide +kernel

/-- the nested forest of Lemmas/DiffText.lean (depth 3, three block-end lines, signs `' '` and `>`) -/
example : parseSignedStrict junosFmt (diffText junosFmt exForest) = some exForest :=
  diff_text_roundtrip_strict junosFmt exForest fmtOK_junos (by
    simp only [exForest, RowsOK, RowsOKItem, RowOK, and_true]; decide)

end Annet.DiffText
