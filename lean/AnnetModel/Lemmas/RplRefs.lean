/-
Helper lemmas for C14: every named list a Huawei policy row refers to is defined by the matching list generator.
-/
import AnnetModel.Lemmas.RplAcl

namespace Annet.Rpl.Lemmas
open Annet Annet.Rpl.Spec

theorem append_beq_false (x y v : Str) (h : y.take x.length ≠ x) : (x ++ v == y) = false := by
  simp only [beq_eq_false_iff_ne, ne_eq]
  intro heq
  apply h
  rw [← heq]; simp

theorem isPrefixOf_append_false (pre x v : Str) (hl : x.length ≤ pre.length) (h : pre.take x.length ≠ x) :
    pre.isPrefixOf (x ++ v) = false := by
  apply Bool.eq_false_iff.mpr
  intro hp
  rw [List.isPrefixOf_iff_prefix] at hp
  obtain ⟨t, ht⟩ := hp
  apply h
  have := congrArg (List.take x.length) ht
  simp at this
  rw [List.take_append_of_le_length hl] at this
  exact this

theorem dropPrefix_self (pre v : Str) : dropPrefix pre (pre ++ v) = some v := by
  unfold dropPrefix
  have : pre.isPrefixOf (pre ++ v) = true := by
    rw [List.isPrefixOf_iff_prefix]; exact List.prefix_append _ _
  simp [this]

theorem dropPrefix_other (pre x v : Str) (hl : x.length ≤ pre.length) (h : pre.take x.length ≠ x) :
    dropPrefix pre (x ++ v) = none := by
  unfold dropPrefix
  simp [isPrefixOf_append_false pre x v hl h]

/-- a two-item `if-match` row -/
theorem refs_ifmatch2 (tok : Str) (h1 : (tok == s "ip-prefix") = false)
    (h2 : (tok == s "ipv6 address prefix-list") = false) :
    refsOfRowH [s "if-match", tok] = named .asPathFilter (dropPrefix (s "as-path-filter ") tok) := by
  simp [refsOfRowH, s, named] at h1 h2 ⊢
  simp [h1, h2]



theorem refs_ifmatch_aspath (v : Str) : refsOfRowH [s "if-match", s "as-path-filter " ++ v] = [(.asPathFilter, v)] := by
  rw [refs_ifmatch2 _ (append_beq_false _ _ _ (by decide)) (append_beq_false _ _ _ (by decide)), dropPrefix_self]
  rfl

theorem refs_ifmatch_cost (v : Str) : refsOfRowH [s "if-match", s "cost " ++ v] = [] := by
  rw [refs_ifmatch2 _ (append_beq_false _ _ _ (by decide)) (append_beq_false _ _ _ (by decide)),
    dropPrefix_other _ _ _ (by decide) (by decide)]
  rfl

theorem refs_ifmatch_protocol (v : Str) : refsOfRowH [s "if-match", s "protocol " ++ v] = [] := by
  rw [refs_ifmatch2 _ (append_beq_false _ _ _ (by decide)) (append_beq_false _ _ _ (by decide)),
    dropPrefix_other _ _ _ (by decide) (by decide)]
  rfl

theorem refs_ifmatch_interface (v : Str) : refsOfRowH [s "if-match", s "interface " ++ v] = [] := by
  rw [refs_ifmatch2 _ (append_beq_false _ _ _ (by decide)) (append_beq_false _ _ _ (by decide)),
    dropPrefix_other _ _ _ (by decide) (by decide)]
  rfl

theorem refs_aspathlen (n : Str) (rest : List Str) (h1 : (n == s "ip-prefix") = false)
    (h2 : (n == s "ipv6 address prefix-list") = false) (h3 : dropPrefix (s "as-path-filter ") n = none) :
    refsOfRowH (s "if-match" :: n :: rest) = [] := by
  simp [refsOfRowH, s, named] at h1 h2 h3 ⊢
  simp [h1, h2, h3]

theorem refs_asPathLenH (c : Cond) (row : List Str) (hrow : row ∈ (asPathLenH c).1) : refsOfRowH row = [] := by
  unfold asPathLenH at hrow
  split at hrow <;> simp at hrow <;> subst hrow
  · exact refs_aspathlen _ _ (by decide) (by decide) (by decide)
  · exact refs_aspathlen _ _ (by decide) (by decide) (by decide)
  · exact refs_aspathlen _ _ (by decide) (by decide) (by decide)
  · exact refs_aspathlen _ _ (by decide) (by decide) (by decide)



/-- where a reference in a Huawei policy row comes from: a condition of the program -/
def CondRefH (inp : Input) (c : Cond) (r : RefKind × Str) : Prop :=
  match c.field, c.val with
  | .community, .names l => r.1 = .communityFilter ∧ r.2 ∈ l
  | .largeCommunity, .names l => r.1 = .largeCommunityFilter ∧ r.2 ∈ l
  | .extcommunityRt, .names l => r.1 = .extcommunityFilter ∧ r.2 ∈ l
  | .extcommunitySoo, .names l => r.1 = .extcommunityListSoo ∧ r.2 ∈ l
  | .rd, .names l => r.1 = .rdFilter ∧ ∃ nm ∈ l, ∃ f, getRd inp.rds nm = some f ∧ f.number = r.2
  | .ipPrefix, .pfx names a b => r.1 = .prefixList ∧ ∃ nm ∈ names, ∃ pl, getPrefix inp.plists nm a b = .ok pl ∧ pl.name = r.2
  | .ipv6Prefix, .pfx names a b => r.1 = .prefixList ∧ ∃ nm ∈ names, ∃ pl, getPrefix inp.plists nm a b = .ok pl ∧ pl.name = r.2
  | .asPathFilter, .scalar v => r.1 = .asPathFilter ∧ r.2 = v
  | _, _ => False

theorem refs_rowsFor (head : Str) (k : RefKind) (l : List Str) (hk : ∀ n, refsOfRowH [head, n] = [(k, n)])
    (row : List Str) (hrow : row ∈ rowsFor head l) (r : RefKind × Str) (hr : r ∈ refsOfRowH row) :
    r.1 = k ∧ r.2 ∈ l := by
  simp only [rowsFor, List.mem_map] at hrow
  obtain ⟨n, hn, rfl⟩ := hrow
  rw [hk] at hr
  simp at hr; subst hr
  exact ⟨rfl, hn⟩

theorem refs_pfxRows (pls : List PrefixList) (mk : Str → List Str) (hmk : ∀ n, refsOfRowH (mk n) = [(.prefixList, n)])
    (a b : Option Str) (names : List Str) (row : List Str) (hrow : row ∈ (pfxRows pls mk a b names).1)
    (r : RefKind × Str) (hr : r ∈ refsOfRowH row) :
    r.1 = .prefixList ∧ ∃ nm ∈ names, ∃ pl, getPrefix pls nm a b = .ok pl ∧ pl.name = r.2 := by
  induction names with
  | nil => simp [pfxRows] at hrow
  | cons n ns ih =>
    unfold pfxRows at hrow
    split at hrow
    · simp at hrow
    · rename_i pl hpl
      rcases seq_rows_mem _ _ _ hrow with h | h
      · simp at h; subst h
        rw [hmk] at hr; simp at hr; subst hr
        exact ⟨rfl, n, by simp, pl, hpl, rfl⟩
      · obtain ⟨h1, nm, hnm, h2⟩ := ih h
        exact ⟨h1, nm, by simp [hnm], h2⟩

theorem refs_matchH (inp : Input) (c : Cond) (row : List Str) (hrow : row ∈ (matchH inp c).1)
    (r : RefKind × Str) (hr : r ∈ refsOfRowH row) : CondRefH inp c r := by
  unfold matchH at hrow
  unfold CondRefH
  cases hf : c.field <;> cases hv : c.val <;> simp only [hf, hv] at hrow ⊢
  all_goals (try (simp at hrow; done))
  case community.names l =>
    (repeat' split at hrow) <;> (try (simp at hrow; done)) <;>
      exact refs_rowsFor _ _ _ (fun n => by simp [refsOfRowH, named, s]) row hrow r hr
  case largeCommunity.names l =>
    (repeat' split at hrow) <;> (try (simp at hrow; done)) <;>
      exact refs_rowsFor _ _ _ (fun n => by simp [refsOfRowH, named, s]) row hrow r hr
  case extcommunitySoo.names l =>
    (repeat' split at hrow) <;> (try (simp at hrow; done)) <;>
      exact refs_rowsFor _ _ _ (fun n => by simp [refsOfRowH, named, s]) row hrow r hr
  case ipPrefix.pfx names a b =>
    exact refs_pfxRows _ _ (fun n => by simp [refsOfRowH, named, s]) a b names row hrow r hr
  case ipv6Prefix.pfx names a b =>
    exact refs_pfxRows _ _ (fun n => by simp [refsOfRowH, named, s]) a b names row hrow r hr
  case extcommunityRt.names l =>
    (repeat' split at hrow) <;> (try (simp at hrow; done))
    obtain ⟨o, ho, hro⟩ := seqAll_rows_mem _ _ hrow
    simp only [List.mem_map] at ho
    obtain ⟨n, hn, rfl⟩ := ho
    unfold extRtRowH at hro
    (repeat' split at hro) <;> simp at hro <;> subst hro <;> simp [refsOfRowH, named, s] at hr <;> subst hr <;>
      exact ⟨rfl, hn⟩
  case rd.names l =>
    split at hrow
    · simp at hrow
    · split at hrow
      · simp at hrow
      · split at hrow
        · simp at hrow
        · rename_i f hf
          simp at hrow; subst hrow
          simp [refsOfRowH, named, s] at hr; subst hr
          exact ⟨rfl, _, List.mem_cons_self, f, hf, rfl⟩
  case asPathFilter.scalar v =>
    split at hrow
    · simp at hrow
    · simp [huaweiMatchCmd] at hrow; subst hrow
      rw [refs_ifmatch_aspath] at hr
      simp at hr; subst hr; exact ⟨rfl, rfl⟩
  case asPathLength.names | asPathLength.pfx | asPathLength.pair | asPathLength.scalar =>
    rw [refs_asPathLenH c row hrow] at hr; cases hr
  case metric.scalar v =>
    split at hrow
    · simp at hrow
    · simp [huaweiMatchCmd] at hrow; subst hrow
      rw [refs_ifmatch_cost] at hr; cases hr
  case protocol.scalar v =>
    split at hrow
    · simp at hrow
    · simp [huaweiMatchCmd] at hrow; subst hrow
      rw [refs_ifmatch_protocol] at hr; cases hr
  case interface.scalar v =>
    split at hrow
    · simp at hrow
    · simp [huaweiMatchCmd] at hrow; subst hrow
      rw [refs_ifmatch_interface] at hr; cases hr
  all_goals (
    (repeat' split at hrow) <;> (try (simp at hrow; done)) <;> (rename_i heq; simp [huaweiMatchCmd] at heq))



theorem refs_apply (rest : List Str) : refsOfRowH (s "apply" :: rest) = [] := by
  simp [refsOfRowH, s]
theorem refs_apply_large (rest : List Str) : refsOfRowH (s "apply large-community" :: rest) = [] := by
  simp [refsOfRowH, s]
theorem refs_apply_aspath (rest : List Str) : refsOfRowH (s "apply as-path" :: rest) = [] := by
  simp [refsOfRowH, s]
theorem refs_goto : refsOfRowH [s "goto next-node"] = [] := by
  simp [refsOfRowH, s]
theorem refs_comm_filter (n : Str) (rest : List Str) :
    refsOfRowH (s "apply comm-filter" :: n :: rest) = [(.communityFilter, n)] := by
  simp [refsOfRowH, s, named]
theorem refs_ext_filter (n : Str) (rest : List Str) :
    refsOfRowH (s "apply extcommunity-filter rt" :: n :: rest) = [(.extcommunityFilter, n)] := by
  simp [refsOfRowH, s, named]

/-- rows that refer to no named list -/
def NoRefs (o : Out (List Str)) : Prop := ∀ row ∈ o.1, refsOfRowH row = []

theorem norefs_fail (e : Err) : NoRefs (fail e) := by intro r h; simp at h
theorem norefs_emit_nil : NoRefs (emit []) := by intro r h; simp at h
theorem norefs_seq (a b : Out (List Str)) (ha : NoRefs a) (hb : NoRefs b) : NoRefs (a.seq b) := by
  intro r h
  rcases seq_rows_mem _ _ _ h with h | h
  · exact ha r h
  · exact hb r h
theorem norefs_seqAll (os : List (Out (List Str))) (h : ∀ o ∈ os, NoRefs o) : NoRefs (seqAll os) := by
  intro r hr
  obtain ⟨o, ho, hro⟩ := seqAll_rows_mem _ _ hr
  exact h o ho r hro
theorem norefs_raiseIf (b : Bool) (e : Err) : NoRefs (raiseIf b e) := by
  cases b
  · exact norefs_emit_nil
  · exact norefs_fail e
theorem norefs_emit (rows : List (List Str)) (h : ∀ r ∈ rows, refsOfRowH r = []) : NoRefs (emit rows) := by
  intro r hr; exact h r (by simpa using hr)
theorem norefs_emit_map {β : Type} (f : β → List Str) (l : List β) (h : ∀ x, refsOfRowH (f x) = []) :
    NoRefs (emit (l.map f)) := by
  intro r hr
  simp only [emit_fst, List.mem_map] at hr
  obtain ⟨x, _, rfl⟩ := hr
  exact h x

macro "norefs_row" : tactic => `(tactic| (
  (try simp only [List.cons_append, List.nil_append])
  first | exact refs_apply _ | exact refs_apply_large _ | exact refs_apply_aspath _))

macro "norefs_parts" : tactic => `(tactic| (
  repeat' (first
    | apply norefs_seq
    | exact norefs_fail _
    | exact norefs_emit_nil
    | exact norefs_raiseIf _ _
    | (apply norefs_emit_map; intro x; norefs_row)
    | (apply norefs_emit; intro r hr; simp only [List.mem_singleton] at hr; subst hr; norefs_row)
    | split)))

theorem norefs_thenLargeH (cl : List CommList) (c : CommAct) : NoRefs (thenLargeH cl c) := by
  unfold thenLargeH; norefs_parts
theorem norefs_thenExtSooH (cl : List CommList) (c : CommAct) : NoRefs (thenExtSooH cl c) := by
  unfold thenExtSooH; norefs_parts
theorem norefs_extReplacedGroupH (g : CType × List Str) : NoRefs (extReplacedGroupH g) := by
  unfold extReplacedGroupH; norefs_parts
theorem norefs_extAddedGroupH (g : CType × List Str) : NoRefs (extAddedGroupH g) := by
  unfold extAddedGroupH; norefs_parts
theorem norefs_allOrNothing (o : Out (List Str)) (h : NoRefs o) : NoRefs (allOrNothing o) := by
  unfold allOrNothing
  split
  · exact norefs_fail _
  · exact h

theorem norefs_thenExtH (cl : List CommList) (c : CommAct) : NoRefs (thenExtH cl c) := by
  unfold thenExtH
  repeat' (first
    | apply norefs_allOrNothing
    | apply norefs_seq
    | exact norefs_fail _
    | exact norefs_emit_nil
    | exact norefs_raiseIf _ _
    | (apply norefs_seqAll; intro o ho; simp only [List.mem_map] at ho; obtain ⟨g, _, rfl⟩ := ho;
       first | exact norefs_extReplacedGroupH g | exact norefs_extAddedGroupH g)
    | split)
theorem norefs_thenAsPathH (p : AsPathAct) : NoRefs (thenAsPathH p) := by
  unfold thenAsPathH; norefs_parts
theorem norefs_thenGenericH (a : Action) : NoRefs (thenGenericH a) := by
  unfold thenGenericH; norefs_parts
theorem norefs_thenNextHopRowsH (n : NextHop) : NoRefs (thenNextHopRowsH n) := by
  unfold thenNextHopRowsH; norefs_parts



/-- where a reference in a Huawei policy row comes from: an action of the program -/
def ActRefH (a : Action) (r : RefKind × Str) : Prop :=
  match a.field, a.val with
  | .community, .comm c => r.1 = .communityFilter ∧ r.2 ∈ c.removed
  | .extcommunityRt, .comm c => r.1 = .extcommunityFilter ∧ r.2 ∈ c.removed
  | _, _ => False

theorem refs_thenCommunityH (cl : List CommList) (c : CommAct) (row : List Str) (hrow : row ∈ (thenCommunityH cl c).1)
    (r : RefKind × Str) (hr : r ∈ refsOfRowH row) : r.1 = .communityFilter ∧ r.2 ∈ c.removed := by
  unfold thenCommunityH at hrow
  rcases seq_rows_mem _ _ _ hrow with h | h
  · have : NoRefs (match c.replaced with
        | some r =>
          if (!c.added.isEmpty || !c.removed.isEmpty) = true then fail Err.notImplemented
          else
            match membersOf cl r with
            | Except.error e => fail e
            | Except.ok ms =>
              if (!ms.isEmpty) = true then emit [[s "apply", s "community"] ++ ms]
              else emit [[s "apply", s "community", s "none"]]
        | none => emit []) := by norefs_parts
    rw [this row h] at hr; cases hr
  · rcases seq_rows_mem _ _ _ h with h | h
    · have : NoRefs (if (!c.added.isEmpty) = true then
          match membersOf cl c.added with
          | Except.error e => fail e
          | Except.ok ms => emit [[s "apply", s "community"] ++ ms ++ [s "additive"]]
        else emit []) := by norefs_parts
      rw [this row h] at hr; cases hr
    · simp only [emit_fst, List.mem_map] at h
      obtain ⟨n, hn, rfl⟩ := h
      rw [refs_comm_filter] at hr
      simp at hr; subst hr
      exact ⟨rfl, hn⟩

theorem refs_thenExtRtH (cl : List CommList) (c : CommAct) (row : List Str) (hrow : row ∈ (thenExtRtH cl c).1)
    (r : RefKind × Str) (hr : r ∈ refsOfRowH row) : r.1 = .extcommunityFilter ∧ r.2 ∈ c.removed := by
  unfold thenExtRtH at hrow
  split at hrow
  · simp at hrow
  · rcases seq_rows_mem _ _ _ hrow with h | h
    · have : NoRefs (if (!c.added.isEmpty) = true then
          match membersOf cl c.added with
          | Except.error e => fail e
          | Except.ok ms => emit [[s "apply", s "extcommunity"] ++ ms.map (s "rt " ++ ·) ++ [s "additive"]]
        else emit []) := by norefs_parts
      rw [this row h] at hr; cases hr
    · simp only [emit_fst, List.mem_map] at h
      obtain ⟨n, hn, rfl⟩ := h
      rw [refs_ext_filter] at hr
      simp at hr; subst hr
      exact ⟨rfl, hn⟩

theorem refs_thenH (cl : List CommList) (a : Action) (row : List Str) (hrow : row ∈ (thenH cl a).1)
    (r : RefKind × Str) (hr : r ∈ refsOfRowH row) : ActRefH a r := by
  unfold thenH at hrow
  unfold ActRefH
  cases hf : a.field <;> cases hv : a.val <;> simp only [hf, hv] at hrow ⊢
  all_goals (try (simp at hrow; done))
  case community.comm c => exact refs_thenCommunityH cl c row hrow r hr
  case extcommunityRt.comm c => exact refs_thenExtRtH cl c row hrow r hr
  case largeCommunity.comm c => rw [norefs_thenLargeH cl c row hrow] at hr; cases hr
  case extcommunity.comm c => rw [norefs_thenExtH cl c row hrow] at hr; cases hr
  case extcommunitySoo.comm c => rw [norefs_thenExtSooH cl c row hrow] at hr; cases hr
  case asPath.asPath p => rw [norefs_thenAsPathH p row hrow] at hr; cases hr
  case nextHop.nextHop n =>
    rw [norefs_thenNextHopRowsH n row hrow] at hr; cases hr
  case metric.scalar v =>
    have : NoRefs (match scalarOf (AVal.scalar v) with
      | none => fail Err.unmodelled
      | some v =>
        if (a.type == AType.add) = true then emit [[s "apply", s "cost + " ++ v]]
        else if (a.type == AType.set) = true then emit [[s "apply", s "cost " ++ v]] else fail Err.notImplemented) := by
      simp only [scalarOf]; norefs_parts
    rw [this row hrow] at hr; cases hr
  all_goals first
    | (rw [norefs_thenGenericH a row hrow] at hr; cases hr)
    | (simp [scalarOf] at hrow)


/-- every reference of the Huawei policy stream comes from a condition or an action of the program -/
theorem refsH_origin (inp : Input) (r : RefKind × Str) (h : r ∈ refsH (runPolicyH inp).1) :
    ∃ p ∈ inp.policies, ∃ st ∈ p.stmts, (∃ c ∈ st.conds, CondRefH inp c r) ∨ (∃ a ∈ st.acts, ActRefH a r) := by
  unfold refsH at h
  simp only [List.mem_flatMap, List.mem_filter] at h
  obtain ⟨l, ⟨hl, hpath⟩, hr⟩ := h
  unfold runPolicyH at hl
  obtain ⟨o, ho, hlo⟩ := seqAll_rows_mem _ _ hl
  simp only [List.mem_flatMap, List.mem_map] at ho
  obtain ⟨p, hp, st, hst, rfl⟩ := ho
  refine ⟨p, hp, st, hst, ?_⟩
  unfold statementH at hlo
  split at hlo
  · simp at hlo
  · split at hlo
    · simp at hlo
    · rw [inBlock_eq] at hlo
      simp only [List.mem_cons, List.mem_map] at hlo
      rcases hlo with rfl | ⟨toks, htoks, rfl⟩
      · simp at hpath
      · simp only at hr
        rcases seq_rows_mem _ _ _ htoks with h1 | h1
        · obtain ⟨o, ho, hro⟩ := seqAll_rows_mem _ _ h1
          simp only [List.mem_map] at ho
          obtain ⟨c, hc, rfl⟩ := ho
          exact .inl ⟨c, hc, refs_matchH inp c toks hro r hr⟩
        · rcases seq_rows_mem _ _ _ h1 with h2 | h2
          · obtain ⟨o, ho, hro⟩ := seqAll_rows_mem _ _ h2
            simp only [List.mem_map] at ho
            obtain ⟨a, ha, rfl⟩ := ho
            exact .inr ⟨a, ha, refs_thenH _ a toks hro r hr⟩
          · split at h2
            · simp at h2; subst h2
              rw [refs_goto] at hr; cases hr
            · simp at h2



theorem mem_insertSorted (x y : Str) (l : List Str) : y ∈ insertSorted x l ↔ y = x ∨ y ∈ l := by
  induction l with
  | nil => simp [insertSorted]
  | cons z zs ih =>
    unfold insertSorted
    split
    · rename_i h
      have : x = z := by simpa using h
      subst this
      simp
    · split
      · simp
      · simp only [List.mem_cons, ih]
        constructor
        · rintro (h | h | h) <;> simp [h]
        · rintro (h | h | h) <;> simp [h]

theorem mem_sortedSet (l : List Str) (y : Str) : y ∈ sortedSet l ↔ y ∈ l := by
  unfold sortedSet
  have key : ∀ (l acc : List Str), y ∈ l.foldl (fun acc n => insertSorted n acc) acc ↔ y ∈ acc ∨ y ∈ l := by
    intro l
    induction l with
    | nil => intro acc; simp
    | cons z zs ih =>
      intro acc
      rw [List.foldl_cons, ih, mem_insertSorted]
      simp only [List.mem_cons]
      constructor
      · rintro ((h | h) | h) <;> simp [h]
      · rintro (h | h | h) <;> simp [h]
  simpa using key l []

theorem lookupNames_ok {α : Type} (get : Str → Option α) (ns : List Str) (l : List α) (h : lookupNames get ns = .ok l) :
    ∀ n ∈ ns, ∃ c ∈ l, get n = some c := by
  induction ns generalizing l with
  | nil => intro n hn; cases hn
  | cons m ms ih =>
    unfold lookupNames at h
    split at h
    · cases h
    · rename_i c hc
      split at h
      · cases h
      · rename_i l' hl'
        cases h
        intro n hn
        simp only [List.mem_cons] at hn
        rcases hn with rfl | hn
        · exact ⟨c, by simp, hc⟩
        · obtain ⟨c', hc', hg⟩ := ih l' hl' n hn
          exact ⟨c', by simp [hc'], hg⟩

theorem mapM_some_mem {α β : Type} (f : α → Option β) (l : List α) (ys : List β) (h : l.mapM f = some ys) :
    ∀ x ∈ l, ∃ y ∈ ys, f x = some y := by
  induction l generalizing ys with
  | nil => intro x hx; cases hx
  | cons z zs ih =>
    rw [List.mapM_cons] at h
    cases hz : f z with
    | none => simp [hz] at h
    | some y =>
      cases hzs : zs.mapM f with
      | none => simp [hz, hzs] at h
      | some ys' =>
        simp [hz, hzs] at h
        subst h
        intro x hx
        simp only [List.mem_cons] at hx
        rcases hx with rfl | hx
        · exact ⟨y, by simp, hz⟩
        · obtain ⟨y', hy', hf⟩ := ih ys' hzs x hx
          exact ⟨y', by simp [hy'], hf⟩

/-- the statement names the community list `n` (in a community-like condition or action) -/
def StmtUsesComm (st : Stmt) (n : Str) : Prop :=
  (∃ c ∈ st.conds, c.field ∈ commMatchFields ∧ ∃ l, c.val = .names l ∧ n ∈ l) ∨
  (∃ a ∈ st.acts, a.field ∈ commThenFields ∧ ∃ ca, a.val = .comm ca ∧ n ∈ CommAct.names ca)

theorem stmtCommNames_mem (st : Stmt) (ns : List Str) (h : stmtCommNames st = some ns) (n : Str)
    (hu : StmtUsesComm st n) : n ∈ ns := by
  unfold stmtCommNames at h
  split at h
  · rename_i m t hm ht
    cases h
    rcases hu with ⟨c, hc, hf, l, hv, hn⟩ | ⟨a, ha, hf, ca, hv, hn⟩
    · have hcc : c ∈ commConds st := by
        unfold commConds
        simp only [List.mem_flatMap, List.mem_filter]
        exact ⟨c.field, hf, hc, by simp⟩
      obtain ⟨y, hy, hfy⟩ := mapM_some_mem _ _ _ hm c hcc
      simp [condNameRefs, hv] at hfy
      subst hfy
      simp only [List.mem_append, List.mem_flatten]
      exact .inl ⟨l, hy, hn⟩
    · have hcc : a ∈ commActs st := by
        unfold commActs
        simp only [List.mem_flatMap, List.mem_filter]
        exact ⟨a.field, hf, ha, by simp⟩
      obtain ⟨y, hy, hfy⟩ := mapM_some_mem _ _ _ ht a hcc
      simp [actNameRefs, hv] at hfy
      subst hfy
      simp only [List.mem_append, List.mem_flatten]
      exact .inr ⟨_, hy, by simpa [CommAct.names, List.append_assoc] using hn⟩
  · cases h

theorem usedCommunityLists_mem (inp : Input) (ls : List CommList) (h : usedCommunityLists inp = .ok ls)
    (p : Policy) (hp : p ∈ inp.policies) (st : Stmt) (hst : st ∈ p.stmts) (n : Str) (hu : StmtUsesComm st n) :
    ∃ c ∈ ls, getComm inp.clists n = some c := by
  unfold usedCommunityLists at h
  split at h
  · cases h
  · rename_i nss hnss
    have hst' : st ∈ inp.policies.flatMap (·.stmts) := by
      simp only [List.mem_flatMap]; exact ⟨p, hp, hst⟩
    obtain ⟨ns, hns, hf⟩ := mapM_some_mem _ _ _ hnss st hst'
    have hn : n ∈ sortedSet nss.flatten := by
      rw [mem_sortedSet]
      simp only [List.mem_flatten]
      exact ⟨ns, hns, stmtCommNames_mem st ns hf n hu⟩
    exact lookupNames_ok _ _ _ h n hn


def kindOfType : CType → Option RefKind
  | .basic => some .communityFilter
  | .rt => some .extcommunityFilter
  | .soo => some .extcommunityListSoo
  | .large => some .largeCommunityFilter
  | .cost => none

theorem commFilterRowH_def (i : Nat) (c : CommList) (m : Str) (l : Line) (h : commFilterRowH i c m = .ok l)
    (k : RefKind) (hk : kindOfType c.type = some k) : (k, c.name) ∈ defsOfRowH l.toks := by
  unfold commFilterRowH at h
  cases ht : c.type <;> simp only [ht] at h hk <;> cases h <;> simp [kindOfType] at hk <;> subst hk <;>
    simp [defsOfRowH, s, named]

theorem ofExcept_single_ok {α : Type} (x : Except Err α) (h : (ofExcept (x.map ([·]))).2 = none) :
    ∃ l, x = .ok l ∧ (ofExcept (x.map ([·]))).1 = [l] := by
  cases x with
  | error e => simp [ofExcept, Except.map] at h
  | ok y => exact ⟨y, rfl, by simp [ofExcept, Except.map]⟩

theorem commListH_defs (c : CommList) (hok : (commListH c).2 = none) (hne : c.members ≠ []) (k : RefKind)
    (hk : kindOfType c.type = some k) : (k, c.name) ∈ defsH (commListH c).1 := by
  unfold commListH at hok ⊢
  split at hok
  · simp at hok
  · rename_i hrx
    rw [if_neg hrx]
    cases hl : c.logic <;> simp only [hl] at hok ⊢
    · obtain ⟨l, hl1, hl2⟩ := ofExcept_single_ok _ hok
      rw [hl2]
      simp only [defsH, List.flatMap_cons, List.flatMap_nil, List.append_nil]
      exact commFilterRowH_def _ _ _ l hl1 k hk
    · -- OR logic: the row of the first member
      have hrows := seqAll_ok_rows _ hok
      have hall := seqAll_ok_all _ hok
      rw [hrows]
      obtain ⟨m0, ms, hm⟩ := List.exists_cons_of_ne_nil hne
      · have hz : ∃ m0' rest, ((List.range (if c.type == CType.rt then c.members.map (s "rt " ++ ·) else c.members).length).zip
            (if c.type == CType.rt then c.members.map (s "rt " ++ ·) else c.members)) = (0, m0') :: rest := by
          rw [hm]
          split <;> simp [List.range_succ_eq_map, List.zip]
        obtain ⟨m0', rest, hz⟩ := hz
        rw [hz] at hall ⊢
        have h0 := hall (commMemberRowH c (0, m0')) (by simp)
        unfold commMemberRowH at h0
        obtain ⟨l, hl1, hl2⟩ := ofExcept_single_ok _ h0
        simp only [List.map_cons, List.flatMap_cons, defsH, List.mem_append, List.mem_flatMap]
        refine ⟨l, .inl ?_, commFilterRowH_def _ _ _ l hl1 k hk⟩
        unfold commMemberRowH
        rw [hl2]; simp



theorem findLast_pred {α : Type} (p : α → Bool) (l : List α) (x : α) (h : findLast p l = some x) : p x = true := by
  induction l with
  | nil => simp [findLast] at h
  | cons y ys ih =>
    unfold findLast at h
    split at h
    · rename_i z hz; cases h; exact ih hz
    · split at h
      · rename_i hp; cases h; exact hp
      · cases h

theorem getComm_name (cl : List CommList) (n : Str) (c : CommList) (h : getComm cl n = some c) : c.name = n := by
  have := findLast_pred _ _ _ h
  simpa using this

theorem defsH_mem_of_rows (ls ls' : List Line) (r : RefKind × Str) (h : r ∈ defsH ls') (hsub : ∀ l ∈ ls', l ∈ ls) :
    r ∈ defsH ls := by
  unfold defsH at h ⊢
  simp only [List.mem_flatMap] at h ⊢
  obtain ⟨l, hl, hr⟩ := h
  exact ⟨l, hsub l hl, hr⟩

theorem typesIn_single (cl : List CommList) (t : CType) (l : List Str) (h : typesIn cl [t] l = true) (n : Str) (hn : n ∈ l) :
    ∃ c, getComm cl n = some c ∧ c.type = t := by
  unfold typesIn at h
  have := List.all_eq_true.mp h n hn
  cases hg : getComm cl n with
  | none => simp [hg] at this
  | some c => simp [hg] at this; exact ⟨c, rfl, this⟩

/-- a community list that a statement names and that has members is defined by the Huawei community generator,
under the command of its type -/
theorem community_defined (inp : Input) (hok : (runCommunityH inp).2 = none) (hne : ∀ c ∈ inp.clists, c.members ≠ [])
    (p : Policy) (hp : p ∈ inp.policies) (st : Stmt) (hst : st ∈ p.stmts) (n : Str) (hu : StmtUsesComm st n)
    (t : CType) (k : RefKind) (hk : kindOfType t = some k) (c : CommList) (hc : getComm inp.clists n = some c)
    (hct : c.type = t) : (k, n) ∈ defsH (runCommunityH inp).1 := by
  unfold runCommunityH at hok ⊢
  split at hok
  · simp at hok
  · rename_i ls hls
    obtain ⟨c', hc', hg⟩ := usedCommunityLists_mem inp ls hls p hp st hst n hu
    rw [hc] at hg; cases hg
    have hall := seqAll_ok_all _ hok
    have hcok := hall (commListH c) (by simp only [List.mem_map]; exact ⟨c, hc', rfl⟩)
    have := commListH_defs c hcok (hne c (getComm_mem _ _ _ hc)) k (by rw [hct]; exact hk)
    rw [getComm_name _ _ _ hc] at this
    apply defsH_mem_of_rows _ _ _ this
    intro l hl
    rw [seqAll_ok_rows _ hok]
    simp only [List.mem_flatMap, List.mem_map]
    exact ⟨_, ⟨c, hc', rfl⟩, hl⟩



theorem aspath_defined (inp : Input) (hok : (runAsPathH inp).2 = none) (p : Policy) (hp : p ∈ inp.policies)
    (st : Stmt) (hst : st ∈ p.stmts) (c : Cond) (hc : c ∈ st.conds) (hf : c.field = .asPathFilter) (v : Str)
    (hv : c.val = .scalar v) : (RefKind.asPathFilter, v) ∈ defsH (runAsPathH inp).1 := by
  unfold runAsPathH at hok ⊢
  split at hok
  · simp at hok
  · rename_i fs hfs
    unfold usedAsPath at hfs
    split at hfs
    · cases hfs
    · rename_i ns hns
      have hcm : c ∈ (inp.policies.flatMap (·.stmts)).flatMap fun st => st.conds.filter (·.field == .asPathFilter) := by
        simp only [List.mem_flatMap, List.mem_filter]
        exact ⟨st, ⟨p, hp, hst⟩, hc, by simp [hf]⟩
      obtain ⟨y, hy, hfy⟩ := mapM_some_mem _ _ _ hns c hcm
      simp [asPathCondName, hv] at hfy; subst hfy
      obtain ⟨f, hfm, hg⟩ := lookupNames_ok _ _ _ hfs v ((mem_sortedSet _ _).2 hy)
      have hname : f.name = v := by
        have := findLast_pred _ _ _ hg
        simpa using this
      simp only [defsH, emit_fst, List.mem_flatMap, List.mem_map]
      refine ⟨_, ⟨f, hfm, rfl⟩, ?_⟩
      simp [defsOfRowH, s, named, hname]

theorem rd_defined (inp : Input) (hok : (runRdH inp).2 = none) (hne : ∀ f ∈ inp.rds, f.members ≠ [])
    (p : Policy) (hp : p ∈ inp.policies) (st : Stmt) (hst : st ∈ p.stmts) (c : Cond) (hc : c ∈ st.conds)
    (hf : c.field = .rd) (l : List Str) (hv : c.val = .names l) (nm : Str) (hnm : nm ∈ l) (f : RdFilter)
    (hg : getRd inp.rds nm = some f) : (RefKind.rdFilter, f.number) ∈ defsH (runRdH inp).1 := by
  unfold runRdH at hok ⊢
  split at hok
  · simp at hok
  · rename_i fs hfs
    unfold usedRd at hfs
    split at hfs
    · cases hfs
    · rename_i nss hnss
      have hcm : c ∈ (inp.policies.flatMap (·.stmts)).flatMap fun st => st.conds.filter (·.field == .rd) := by
        simp only [List.mem_flatMap, List.mem_filter]
        exact ⟨st, ⟨p, hp, hst⟩, hc, by simp [hf]⟩
      obtain ⟨y, hy, hfy⟩ := mapM_some_mem _ _ _ hnss c hcm
      simp [condNameRefs, hv] at hfy; subst hfy
      obtain ⟨f', hfm, hg'⟩ := lookupNames_ok _ _ _ hfs nm
        ((mem_sortedSet _ _).2 (List.mem_flatten.mpr ⟨l, hy, hnm⟩))
      rw [hg] at hg'; cases hg'
      obtain ⟨m0, ms, hm⟩ := List.exists_cons_of_ne_nil (hne f (findLast_mem _ _ _ hg))
      simp only [defsH, emit_fst, List.mem_flatMap, List.mem_map]
      refine ⟨Line.mk [] [s "ip rd-filter", f.number, s "index " ++ natStr ((0 + 1) * 10 + 5), s "permit", m0],
        ⟨f, hfm, (0, m0), ?_, rfl⟩, ?_⟩
      · rw [hm]; simp [List.range_succ_eq_map, List.zip]
      · simp [defsOfRowH, s, named]



/-- the prefix list `x` is defined by the rows `out` -/
def PD (out : List Line) (x : Str) : Prop := (RefKind.prefixList, x) ∈ defsH out

theorem pd_append_left (a b : List Line) (x : Str) (h : PD a x) : PD (a ++ b) x := by
  unfold PD defsH at *; simp only [List.flatMap_append, List.mem_append]; exact .inl h
theorem pd_append_right (a b : List Line) (x : Str) (h : PD b x) : PD (a ++ b) x := by
  unfold PD defsH at *; simp only [List.flatMap_append, List.mem_append]; exact .inr h

theorem seq_ok_left {α : Type} (a b : Out α) (h : (a.seq b).2 = none) : a.2 = none := by
  cases ha : a.2 with
  | none => rfl
  | some e => rw [seq_of_some _ _ e ha, ha] at h; cases h

theorem seq_ok_right {α : Type} (a b : Out α) (h : (a.seq b).2 = none) : b.2 = none := by
  have ha := seq_ok_left a b h
  rw [seq_of_none _ _ ha] at h; exact h

theorem seq_ok_rows {α : Type} (a b : Out α) (h : (a.seq b).2 = none) : (a.seq b).1 = a.1 ++ b.1 := by
  rw [seq_of_none _ _ (seq_ok_left a b h)]

theorem getPl_mem (pls : List PrefixList) (n : Str) (pl : PrefixList) (h : getPl pls n = some pl) : pl ∈ pls :=
  findLast_mem _ _ _ h

theorem getPrefix_members (pls : List PrefixList) (hne : ∀ pl ∈ pls, pl.members ≠ []) (n : Str) (a b : Option Str)
    (pl : PrefixList) (h : getPrefix pls n a b = .ok pl) : pl.members ≠ [] := by
  unfold getPrefix at h
  split at h
  · cases h
  · rename_i orig ho
    have := hne orig (getPl_mem _ _ _ ho)
    split at h <;> cases h <;> simpa using this

theorem prefixNames_spec (pls : List PrefixList) (hne : ∀ pl ∈ pls, pl.members ≠ [])
    (D : List Line → Str → Prop) (dl : ∀ a b x, D a x → D (a ++ b) x) (dr : ∀ a b x, D b x → D (a ++ b) x)
    (rows : PrefixList → List Line) (hrows : ∀ pl, pl.members ≠ [] → D (rows pl) pl.name) (a b : Option Str) :
    ∀ (ns seen : List Str), (prefixNames pls rows a b ns seen).1.2 = none →
      (∀ x ∈ seen, x ∈ (prefixNames pls rows a b ns seen).2) ∧
      (∀ nm ∈ ns, ∃ pl, getPrefix pls nm a b = .ok pl ∧ pl.name ∈ (prefixNames pls rows a b ns seen).2) ∧
      (∀ x ∈ (prefixNames pls rows a b ns seen).2, x ∈ seen ∨ D (prefixNames pls rows a b ns seen).1.1 x) := by
  intro ns
  induction ns with
  | nil => intro seen _; simp only [prefixNames]; exact ⟨fun x hx => hx, by simp, fun x hx => .inl hx⟩
  | cons n ns ih =>
    intro seen hok
    unfold prefixNames at hok ⊢
    cases hg : getPrefix pls n a b with
    | error e => simp [hg] at hok
    | ok pl =>
      simp only [hg] at hok ⊢
      by_cases hs : seen.contains pl.name = true
      · simp only [hs, if_true] at hok ⊢
        obtain ⟨h1, h2, h3⟩ := ih seen hok
        refine ⟨h1, ?_, h3⟩
        intro nm hnm
        simp only [List.mem_cons] at hnm
        rcases hnm with rfl | hnm
        · exact ⟨pl, hg, h1 _ (by simpa using hs)⟩
        · exact h2 nm hnm
      · simp only [hs, if_false] at hok ⊢
        have hok' : (prefixNames pls rows a b ns (pl.name :: seen)).1.2 = none := by
          simpa using hok
        obtain ⟨h1, h2, h3⟩ := ih (pl.name :: seen) hok'
        refine ⟨fun x hx => h1 x (by simp [hx]), ?_, ?_⟩
        · intro nm hnm
          simp only [List.mem_cons] at hnm
          rcases hnm with rfl | hnm
          · exact ⟨pl, hg, h1 _ (by simp)⟩
          · exact h2 nm hnm
        · intro x hx
          simp only [emit_seq]
          rcases h3 x hx with h | h
          · simp only [List.mem_cons] at h
            rcases h with rfl | h
            · exact .inr (dl _ _ _ (hrows pl (getPrefix_members pls hne n a b pl hg)))
            · exact .inl h
          · exact .inr (dr _ _ _ h)



/-- the prefix lists the conditions of field `f` in `cs` derive -/
def CondsDerive (pls : List PrefixList) (f : MField) (cs : List Cond) (S : List Str) : Prop :=
  ∀ c ∈ cs, c.field = f → ∀ names a b, c.val = .pfx names a b →
    ∀ nm ∈ names, ∃ pl, getPrefix pls nm a b = .ok pl ∧ pl.name ∈ S

theorem prefixConds_spec (pls : List PrefixList) (hne : ∀ pl ∈ pls, pl.members ≠ [])
    (D : List Line → Str → Prop) (dl : ∀ a b x, D a x → D (a ++ b) x) (dr : ∀ a b x, D b x → D (a ++ b) x)
    (rows : PrefixList → List Line) (hrows : ∀ pl, pl.members ≠ [] → D (rows pl) pl.name) (f : MField) :
    ∀ (cs : List Cond) (seen : List Str), (prefixConds pls rows f cs seen).1.2 = none →
      (∀ x ∈ seen, x ∈ (prefixConds pls rows f cs seen).2) ∧
      CondsDerive pls f cs (prefixConds pls rows f cs seen).2 ∧
      (∀ x ∈ (prefixConds pls rows f cs seen).2, x ∈ seen ∨ D (prefixConds pls rows f cs seen).1.1 x) := by
  intro cs
  induction cs with
  | nil =>
    intro seen _
    simp only [prefixConds]
    refine ⟨fun x hx => hx, ?_, fun x hx => .inl hx⟩
    intro c hc; cases hc
  | cons c cs ih =>
    intro seen hok
    unfold prefixConds at hok ⊢
    by_cases hcf : (c.field == f) = true
    · simp only [hcf, if_true] at hok ⊢
      cases hv : c.val with
      | pfx names a b =>
        simp only [hv] at hok ⊢
        cases he : (prefixNames pls rows a b names seen).1.2 with
        | some e => simp [he] at hok
        | none =>
          simp only [he] at hok ⊢
          obtain ⟨n1, n2, n3⟩ := prefixNames_spec pls hne D dl dr rows hrows a b names seen he
          have hok2 : (prefixConds pls rows f cs (prefixNames pls rows a b names seen).2).1.2 = none :=
            seq_ok_right _ _ hok
          obtain ⟨c1, c2, c3⟩ := ih _ hok2
          refine ⟨fun x hx => c1 x (n1 x hx), ?_, ?_⟩
          · intro c' hc' hf' names' a' b' hv' nm hnm
            simp only [List.mem_cons] at hc'
            rcases hc' with rfl | hc'
            · rw [hv] at hv'; cases hv'
              obtain ⟨pl, hpl, hmem⟩ := n2 nm hnm
              exact ⟨pl, hpl, c1 _ hmem⟩
            · exact c2 c' hc' hf' names' a' b' hv' nm hnm
          · intro x hx
            rw [seq_ok_rows _ _ hok]
            rcases c3 x hx with h | h
            · rcases n3 x h with h' | h'
              · exact .inl h'
              · exact .inr (dl _ _ _ h')
            · exact .inr (dr _ _ _ h)
      | names l => simp [hv] at hok
      | pair a b => simp [hv] at hok
      | scalar v => simp [hv] at hok
    · simp only [hcf, if_false] at hok ⊢
      obtain ⟨c1, c2, c3⟩ := ih seen hok
      refine ⟨c1, ?_, c3⟩
      intro c' hc' hf' names' a' b' hv' nm hnm
      simp only [List.mem_cons] at hc'
      rcases hc' with rfl | hc'
      · simp [hf'] at hcf
      · exact c2 c' hc' hf' names' a' b' hv' nm hnm

theorem prefixStmts_spec (pls : List PrefixList) (hne : ∀ pl ∈ pls, pl.members ≠ [])
    (D : List Line → Str → Prop) (dl : ∀ a b x, D a x → D (a ++ b) x) (dr : ∀ a b x, D b x → D (a ++ b) x)
    (rows4 rows6 : PrefixList → List Line) (h4 : ∀ pl, pl.members ≠ [] → D (rows4 pl) pl.name)
    (h6 : ∀ pl, pl.members ≠ [] → D (rows6 pl) pl.name) :
    ∀ (sts : List Stmt) (seen : List Str), (prefixStmts pls rows4 rows6 sts seen).1.2 = none →
      (∀ x ∈ seen, x ∈ (prefixStmts pls rows4 rows6 sts seen).2) ∧
      (∀ st ∈ sts, CondsDerive pls .ipPrefix st.conds (prefixStmts pls rows4 rows6 sts seen).2 ∧
                   CondsDerive pls .ipv6Prefix st.conds (prefixStmts pls rows4 rows6 sts seen).2) ∧
      (∀ x ∈ (prefixStmts pls rows4 rows6 sts seen).2, x ∈ seen ∨ D (prefixStmts pls rows4 rows6 sts seen).1.1 x) := by
  intro sts
  induction sts with
  | nil =>
    intro seen _
    simp only [prefixStmts]
    refine ⟨fun x hx => hx, ?_, fun x hx => .inl hx⟩
    intro st hst; cases hst
  | cons st sts ih =>
    intro seen hok
    unfold prefixStmts at hok ⊢
    simp only at hok ⊢
    cases he4 : (prefixConds pls rows4 .ipPrefix st.conds seen).1.2 with
    | some e => simp [he4] at hok
    | none =>
      simp only [he4] at hok ⊢
      obtain ⟨a1, a2, a3⟩ := prefixConds_spec pls hne D dl dr rows4 h4 .ipPrefix st.conds seen he4
      cases he6 : (prefixConds pls rows6 .ipv6Prefix st.conds (prefixConds pls rows4 .ipPrefix st.conds seen).2).1.2 with
      | some e =>
        simp only [he6] at hok
        have := seq_ok_right _ _ hok
        rw [he6] at this; cases this
      | none =>
        simp only [he6] at hok ⊢
        obtain ⟨b1, b2, b3⟩ := prefixConds_spec pls hne D dl dr rows6 h6 .ipv6Prefix st.conds _ he6
        have hok3 := seq_ok_right _ _ hok
        obtain ⟨c1, c2, c3⟩ := ih _ hok3
        refine ⟨fun x hx => c1 x (b1 x (a1 x hx)), ?_, ?_⟩
        · intro st' hst'
          simp only [List.mem_cons] at hst'
          rcases hst' with rfl | hst'
          · constructor
            · intro c hc hf names a b hv nm hnm
              obtain ⟨pl, hpl, hm⟩ := a2 c hc hf names a b hv nm hnm
              exact ⟨pl, hpl, c1 _ (b1 _ hm)⟩
            · intro c hc hf names a b hv nm hnm
              obtain ⟨pl, hpl, hm⟩ := b2 c hc hf names a b hv nm hnm
              exact ⟨pl, hpl, c1 _ hm⟩
          · exact c2 st' hst'
        · intro x hx
          rw [seq_ok_rows _ _ hok, seq_ok_rows _ _ (seq_ok_left _ _ hok)]
          rcases c3 x hx with h | h
          · rcases b3 x h with h' | h'
            · rcases a3 x h' with h'' | h''
              · exact .inl h''
              · exact .inr (dl _ _ _ (dl _ _ _ h''))
            · exact .inr (dl _ _ _ (dr _ _ _ h'))
          · exact .inr (dr _ _ _ h)



theorem prefixRowsH_pd (ptype : Str) (hp : ptype = s "ip-prefix" ∨ ptype = s "ipv6-prefix") (pl : PrefixList)
    (hne : pl.members ≠ []) : PD (prefixRowsH ptype pl) pl.name := by
  obtain ⟨m0, ms, hm⟩ := List.exists_cons_of_ne_nil hne
  unfold PD defsH prefixRowsH
  rw [hm]
  simp only [List.length_cons, List.range_succ_eq_map, List.map_cons, List.zip_cons_cons, List.flatMap_cons,
    List.mem_append]
  left
  rcases hp with rfl | rfl <;> simp [defsOfRowH, s, named]

/-- every prefix list a Huawei policy condition derives is defined by the prefix-list generator -/
theorem prefix_defined (inp : Input) (hok : (runPrefixH inp).2 = none) (hne : ∀ pl ∈ inp.plists, pl.members ≠ [])
    (p : Policy) (hp : p ∈ inp.policies) (st : Stmt) (hst : st ∈ p.stmts) (c : Cond) (hc : c ∈ st.conds)
    (hf : c.field = .ipPrefix ∨ c.field = .ipv6Prefix) (names : List Str) (a b : Option Str)
    (hv : c.val = .pfx names a b) (nm : Str) (hnm : nm ∈ names) (pl : PrefixList)
    (hg : getPrefix inp.plists nm a b = .ok pl) : (RefKind.prefixList, pl.name) ∈ defsH (runPrefixH inp).1 := by
  unfold runPrefixH runPrefix at hok ⊢
  obtain ⟨_, h2, h3⟩ := prefixStmts_spec inp.plists hne PD pd_append_left pd_append_right _ _
    (prefixRowsH_pd _ (.inl rfl)) (prefixRowsH_pd _ (.inr rfl)) (inp.policies.flatMap (·.stmts)) [] hok
  have hst' : st ∈ inp.policies.flatMap (·.stmts) := by
    simp only [List.mem_flatMap]; exact ⟨p, hp, hst⟩
  obtain ⟨d4, d6⟩ := h2 st hst'
  have : ∃ pl', getPrefix inp.plists nm a b = .ok pl' ∧
      pl'.name ∈ (prefixStmts inp.plists (prefixRowsH (s "ip-prefix")) (prefixRowsH (s "ipv6-prefix"))
        (inp.policies.flatMap (·.stmts)) []).2 := by
    rcases hf with hf | hf
    · exact d4 c hc hf names a b hv nm hnm
    · exact d6 c hc hf names a b hv nm hnm
  obtain ⟨pl', hg', hmem⟩ := this
  rw [hg] at hg'; cases hg'
  rcases h3 _ hmem with h | h
  · cases h
  · exact h



/-- Huawei: every named list a policy row refers to is defined, under the same name and by the command of the
matching kind, by the list generators fed the same inputs -/
theorem refs_defined_huawei (inp : Input)
    (hc : (runCommunityH inp).2 = none) (hpl : (runPrefixH inp).2 = none) (ha : (runAsPathH inp).2 = none)
    (hr : (runRdH inp).2 = none) (hty : TypeConsistent inp) (hne : NonEmptyLists inp)
    (r : RefKind × Str) (h : r ∈ refsH (runPolicyH inp).1) :
    r ∈ defsH ((runCommunityH inp).1 ++ (runPrefixH inp).1 ++ (runAsPathH inp).1 ++ (runRdH inp).1) := by
  obtain ⟨p, hp, st, hst, horig⟩ := refsH_origin inp r h
  obtain ⟨hnc, hnp, hnr⟩ := hne
  obtain ⟨htc, hta⟩ := hty p hp st hst
  have inC : r ∈ defsH (runCommunityH inp).1 → r ∈ defsH ((runCommunityH inp).1 ++ (runPrefixH inp).1 ++
      (runAsPathH inp).1 ++ (runRdH inp).1) := fun h => defsH_mem_of_rows _ _ _ h (by intro l hl; simp [hl])
  have inP : r ∈ defsH (runPrefixH inp).1 → r ∈ defsH ((runCommunityH inp).1 ++ (runPrefixH inp).1 ++
      (runAsPathH inp).1 ++ (runRdH inp).1) := fun h => defsH_mem_of_rows _ _ _ h (by intro l hl; simp [hl])
  have inA : r ∈ defsH (runAsPathH inp).1 → r ∈ defsH ((runCommunityH inp).1 ++ (runPrefixH inp).1 ++
      (runAsPathH inp).1 ++ (runRdH inp).1) := fun h => defsH_mem_of_rows _ _ _ h (by intro l hl; simp [hl])
  have inR : r ∈ defsH (runRdH inp).1 → r ∈ defsH ((runCommunityH inp).1 ++ (runPrefixH inp).1 ++
      (runAsPathH inp).1 ++ (runRdH inp).1) := fun h => defsH_mem_of_rows _ _ _ h (by intro l hl; simp [hl])
  obtain ⟨k, n⟩ := r
  rcases horig with ⟨c, hcm, hcr⟩ | ⟨a, ham, har⟩
  · have htyc := htc c hcm
    unfold CondRefH at hcr
    unfold condTyped at htyc
    cases hf : c.field <;> cases hv : c.val <;> simp only [hf, hv] at hcr htyc <;> try (exact absurd hcr id)
    case community.names l =>
      obtain ⟨rfl, hn⟩ := hcr
      obtain ⟨cl, hg, hct⟩ := typesIn_single _ _ _ htyc n hn
      exact inC (community_defined inp hc hnc p hp st hst n
        (.inl ⟨c, hcm, by simp [hf, commMatchFields], l, hv, hn⟩) .basic _ rfl cl hg hct)
    case largeCommunity.names l =>
      obtain ⟨rfl, hn⟩ := hcr
      obtain ⟨cl, hg, hct⟩ := typesIn_single _ _ _ htyc n hn
      exact inC (community_defined inp hc hnc p hp st hst n
        (.inl ⟨c, hcm, by simp [hf, commMatchFields], l, hv, hn⟩) .large _ rfl cl hg hct)
    case extcommunityRt.names l =>
      obtain ⟨rfl, hn⟩ := hcr
      obtain ⟨cl, hg, hct⟩ := typesIn_single _ _ _ htyc n hn
      exact inC (community_defined inp hc hnc p hp st hst n
        (.inl ⟨c, hcm, by simp [hf, commMatchFields], l, hv, hn⟩) .rt _ rfl cl hg hct)
    case extcommunitySoo.names l =>
      obtain ⟨rfl, hn⟩ := hcr
      obtain ⟨cl, hg, hct⟩ := typesIn_single _ _ _ htyc n hn
      exact inC (community_defined inp hc hnc p hp st hst n
        (.inl ⟨c, hcm, by simp [hf, commMatchFields], l, hv, hn⟩) .soo _ rfl cl hg hct)
    case rd.names l =>
      obtain ⟨rfl, nm, hnm, f, hg, rfl⟩ := hcr
      exact inR (rd_defined inp hr hnr p hp st hst c hcm hf l hv nm hnm f hg)
    case ipPrefix.pfx names a b =>
      obtain ⟨rfl, nm, hnm, pl, hg, rfl⟩ := hcr
      exact inP (prefix_defined inp hpl hnp p hp st hst c hcm (.inl hf) names a b hv nm hnm pl hg)
    case ipv6Prefix.pfx names a b =>
      obtain ⟨rfl, nm, hnm, pl, hg, rfl⟩ := hcr
      exact inP (prefix_defined inp hpl hnp p hp st hst c hcm (.inr hf) names a b hv nm hnm pl hg)
    case asPathFilter.scalar v =>
      obtain ⟨rfl, rfl⟩ := hcr
      exact inA (aspath_defined inp ha p hp st hst c hcm hf _ hv)
  · have htya := hta a ham
    unfold ActRefH at har
    unfold actTyped at htya
    cases hf : a.field <;> cases hv : a.val <;> simp only [hf, hv] at har htya <;> try (exact absurd har id)
    case community.comm ca =>
      obtain ⟨rfl, hn⟩ := har
      have hn' : n ∈ CommAct.names ca := by simp [CommAct.names, hn]
      obtain ⟨cl, hg, hct⟩ := typesIn_single _ _ _ htya n hn'
      exact inC (community_defined inp hc hnc p hp st hst n
        (.inr ⟨a, ham, by simp [hf, commThenFields], ca, hv, hn'⟩) .basic _ rfl cl hg hct)
    case extcommunityRt.comm ca =>
      obtain ⟨rfl, hn⟩ := har
      have hn' : n ∈ CommAct.names ca := by simp [CommAct.names, hn]
      obtain ⟨cl, hg, hct⟩ := typesIn_single _ _ _ htya n hn'
      exact inC (community_defined inp hc hnc p hp st hst n
        (.inr ⟨a, ham, by simp [hf, commThenFields], ca, hv, hn'⟩) .rt _ rfl cl hg hct)

end Annet.Rpl.Lemmas
