/-
Lemmas about `Model/Multiline.lean` (`common.multiline_diff`): which rows get an entry, with which op, and what the
children of an entry are.  Everything is derived from one membership characterisation (`mem_spec`).
-/
import AnnetModel.Model.Multiline

namespace Annet.Multiline
open Annet
open Annet.Diff (Op)

/-! ### `Cfg.beq` is equality -/

mutual
  theorem beq_eq : ∀ (a b : Cfg), Cfg.beq a b = true → a = b
    | .mk x, .mk y, h => by
      rw [Cfg.beq] at h
      rw [beqList_eq x y h]
  theorem beqList_eq : ∀ (a b : List (String × Cfg)), Cfg.beqList a b = true → a = b
    | [], [], _ => rfl
    | [], _ :: _, h => by simp [Cfg.beqList] at h
    | _ :: _, [], h => by simp [Cfg.beqList] at h
    | (k, c) :: as, (k', c') :: bs, h => by
      simp only [Cfg.beqList, Bool.and_eq_true, beq_iff_eq] at h
      obtain ⟨⟨h1, h2⟩, h3⟩ := h
      rw [h1, beq_eq c c' h2, beqList_eq as bs h3]
end

mutual
  theorem beq_refl : ∀ a : Cfg, Cfg.beq a a = true
    | .mk x => by rw [Cfg.beq]; exact beqList_refl x
  theorem beqList_refl : ∀ a : List (String × Cfg), Cfg.beqList a a = true
    | [] => by simp [Cfg.beqList]
    | (k, c) :: as => by simp [Cfg.beqList, beq_refl c, beqList_refl as]
end

theorem beq_iff (a b : Cfg) : Cfg.beq a b = true ↔ a = b := ⟨beq_eq a b, fun h => h ▸ beq_refl a⟩

theorem beq_false_iff (a b : Cfg) : Cfg.beq a b = false ↔ a ≠ b := by
  constructor
  · intro h he; rw [(beq_iff a b).2 he] at h; cases h
  · intro h
    cases hb : Cfg.beq a b
    · rfl
    · exact absurd ((beq_iff a b).1 hb) h

/-- `d.get(row, {})` -/
def sub (l : Level) (row : String) : Cfg := (Cfg.lookup l row).getD Cfg.empty

/-! ### `dict` access -/

theorem lookup_isSome (l : Level) (row : String) : (Cfg.lookup l row).isSome = Cfg.hasKey l row := by
  induction l with
  | nil => simp [Cfg.lookup, Cfg.hasKey]
  | cons p ps ih =>
    simp only [Cfg.lookup, Cfg.hasKey, List.find?_cons, List.any_cons] at ih ⊢
    cases hp : (p.1 == row) <;> simp [ih]

theorem lookup_of_hasKey {l : Level} {row : String} (h : Cfg.hasKey l row = true) : ∃ t, Cfg.lookup l row = some t := by
  rw [← lookup_isSome] at h
  exact Option.isSome_iff_exists.1 h

theorem hasKey_of_lookup {l : Level} {row : String} {t : Cfg} (h : Cfg.lookup l row = some t) : Cfg.hasKey l row = true := by
  rw [← lookup_isSome, h]; rfl

theorem lookup_none_of_not_hasKey {l : Level} {row : String} (h : Cfg.hasKey l row = false) : Cfg.lookup l row = none := by
  rw [← lookup_isSome] at h
  cases hl : Cfg.lookup l row with
  | none => rfl
  | some t => rw [hl] at h; simp at h

/-! ### the skeleton of `default_diff` -/

theorem mem_insertIdx (x a : Nat × Op × String) (l : List (Nat × Op × String)) :
    a ∈ insertIdx x l ↔ a = x ∨ a ∈ l := by
  induction l with
  | nil => simp [insertIdx]
  | cons y ys ih =>
    simp only [insertIdx]
    split
    · simp
    · simp only [List.mem_cons, ih]
      constructor
      · rintro (h | h | h)
        · exact Or.inr (Or.inl h)
        · exact Or.inl h
        · exact Or.inr (Or.inr h)
      · rintro (h | h | h)
        · exact Or.inr (Or.inl h)
        · exact Or.inl h
        · exact Or.inr (Or.inr h)

theorem mem_foldl_insertIdx (a : Nat × Op × String) (l acc : List (Nat × Op × String)) :
    a ∈ l.foldl (fun acc x => insertIdx x acc) acc ↔ a ∈ acc ∨ a ∈ l := by
  induction l generalizing acc with
  | nil => simp
  | cons x xs ih =>
    rw [List.foldl_cons, ih, mem_insertIdx, List.mem_cons]
    constructor
    · rintro ((h | h) | h)
      · exact Or.inr (Or.inl h)
      · exact Or.inl h
      · exact Or.inr (Or.inr h)
    · rintro (h | h | h)
      · exact Or.inl (Or.inr h)
      · exact Or.inl (Or.inl h)
      · exact Or.inr h

theorem mem_sortIdx (a : Nat × Op × String) (l : List (Nat × Op × String)) : a ∈ sortIdx l ↔ a ∈ l := by
  simp [sortIdx, mem_foldl_insertIdx]

theorem mem_removedRows (new : Level) (op : Op) (row : String) (l : Level) (k : Nat) :
    (∃ i, (i, op, row) ∈ removedRows new k l) ↔
      (op = .removed ∧ Cfg.hasKey l row = true ∧ Cfg.hasKey new row = false) := by
  induction l generalizing k with
  | nil => simp [removedRows, Cfg.hasKey]
  | cons p ps ih =>
    obtain ⟨r, c⟩ := p
    simp only [removedRows]
    have hk : Cfg.hasKey ((r, c) :: ps) row = ((r == row) || Cfg.hasKey ps row) := by simp [Cfg.hasKey]
    rw [hk]
    split
    · rename_i hn
      rw [ih]
      constructor
      · rintro ⟨h1, h2, h3⟩; exact ⟨h1, by simp [h2], h3⟩
      · rintro ⟨h1, h2, h3⟩
        refine ⟨h1, ?_, h3⟩
        cases hr : (r == row)
        · simpa [hr] using h2
        · rw [beq_iff_eq] at hr; subst hr; rw [hn] at h3; cases h3
    · rename_i hn
      simp only [List.mem_cons, Prod.mk.injEq, exists_or, ih]
      constructor
      · rintro (⟨_, _, h1, h2⟩ | ⟨h1, h2, h3⟩)
        · subst h1 h2; exact ⟨rfl, by simp, by simpa using hn⟩
        · exact ⟨h1, by simp [h2], h3⟩
      · rintro ⟨h1, h2, h3⟩
        cases hr : (r == row)
        · right; exact ⟨h1, by simpa [hr] using h2, h3⟩
        · left; rw [beq_iff_eq] at hr; exact ⟨k, rfl, h1, hr.symm⟩

theorem mem_newRows (old : Level) (op : Op) (row : String) (l : Level) (k : Nat) :
    (∃ i, (i, op, row) ∈ newRows old k l) ↔
      (Cfg.hasKey l row = true ∧ op = (if Cfg.hasKey old row then Op.affected else Op.added)) := by
  induction l generalizing k with
  | nil => simp [newRows, Cfg.hasKey]
  | cons p ps ih =>
    obtain ⟨r, c⟩ := p
    simp only [newRows]
    have hk : Cfg.hasKey ((r, c) :: ps) row = ((r == row) || Cfg.hasKey ps row) := by simp [Cfg.hasKey]
    rw [hk]
    simp only [List.mem_cons, Prod.mk.injEq, exists_or, ih]
    constructor
    · rintro (⟨_, _, h1, h2⟩ | ⟨h1, h2⟩)
      · subst h2; exact ⟨by simp, h1⟩
      · exact ⟨by simp [h1], h2⟩
    · rintro ⟨h1, h2⟩
      cases hr : (r == row)
      · right; exact ⟨by simpa [hr] using h1, h2⟩
      · left; rw [beq_iff_eq] at hr; subst hr; exact ⟨k, rfl, h2, rfl⟩

/-- the items `default_diff` hands to the loop: one REMOVED item per row only in `old`, one item per row of `new` -/
theorem mem_defaultDiffRows (old new : Level) (op : Op) (row : String) :
    (op, row) ∈ defaultDiffRows old new ↔
      (op = .removed ∧ Cfg.hasKey old row = true ∧ Cfg.hasKey new row = false) ∨
      (Cfg.hasKey new row = true ∧ op = (if Cfg.hasKey old row then Op.affected else Op.added)) := by
  rw [← mem_removedRows new op row old 0, ← mem_newRows old op row new 0]
  simp only [defaultDiffRows, List.mem_map]
  constructor
  · rintro ⟨⟨i, o, r⟩, hm, he⟩
    simp only [Prod.mk.injEq] at he
    obtain ⟨rfl, rfl⟩ := he
    rw [mem_sortIdx, List.mem_append] at hm
    rcases hm with hm | hm
    · exact Or.inl ⟨i, hm⟩
    · exact Or.inr ⟨i, hm⟩
  · rintro (⟨i, hm⟩ | ⟨i, hm⟩)
    · exact ⟨(i, op, row), by rw [mem_sortIdx, List.mem_append]; exact Or.inl hm, rfl⟩
    · exact ⟨(i, op, row), by rw [mem_sortIdx, List.mem_append]; exact Or.inr hm, rfl⟩

/-! ### the loop -/

theorem buildItems_spec (rule : Rule) (old new : Level) (rows : List (Op × String))
    (hwf : ∀ op row, (op, row) ∈ rows → Cfg.hasKey (sideOf op old new) row = true) :
    ∃ d, buildItems rule old new rows = some d ∧
      ∀ i, i ∈ d ↔ ∃ op row t, (op, row) ∈ rows ∧ skip rule old new row = false ∧
        Cfg.lookup (sideOf op old new) row = some t ∧ i = .mk op row (processMultiline (childOp op) t) := by
  induction rows with
  | nil => exact ⟨[], rfl, by simp⟩
  | cons x xs ih =>
    obtain ⟨op, row⟩ := x
    obtain ⟨d, hd, hspec⟩ := ih (fun o r h => hwf o r (List.mem_cons_of_mem _ h))
    simp only [buildItems]
    cases hs : skip rule old new row
    · obtain ⟨t, ht⟩ := lookup_of_hasKey (hwf op row (List.mem_cons_self ..))
      simp only [Bool.false_eq_true, if_false, ht, hd]
      refine ⟨_, rfl, fun i => ?_⟩
      rw [List.mem_cons, hspec]
      constructor
      · rintro (h | ⟨o, r, t', hm, h1, h2, h3⟩)
        · exact ⟨op, row, t, List.mem_cons_self .., hs, ht, h⟩
        · exact ⟨o, r, t', List.mem_cons_of_mem _ hm, h1, h2, h3⟩
      · rintro ⟨o, r, t', hm, h1, h2, h3⟩
        rw [List.mem_cons] at hm
        rcases hm with hm | hm
        · simp only [Prod.mk.injEq] at hm
          obtain ⟨rfl, rfl⟩ := hm
          rw [ht] at h2; cases h2
          exact Or.inl h3
        · exact Or.inr ⟨o, r, t', hm, h1, h2, h3⟩
    · simp only [if_true]
      refine ⟨d, hd, fun i => ?_⟩
      rw [hspec]
      constructor
      · rintro ⟨o, r, t', hm, h1, h2, h3⟩
        exact ⟨o, r, t', List.mem_cons_of_mem _ hm, h1, h2, h3⟩
      · rintro ⟨o, r, t', hm, h1, h2, h3⟩
        rw [List.mem_cons] at hm
        rcases hm with hm | hm
        · simp only [Prod.mk.injEq] at hm
          obtain ⟨rfl, rfl⟩ := hm
          rw [hs] at h1; cases h1
        · exact ⟨o, r, t', hm, h1, h2, h3⟩

theorem sideOf_wf (old new : Level) (op : Op) (row : String) (h : (op, row) ∈ defaultDiffRows old new) :
    Cfg.hasKey (sideOf op old new) row = true := by
  rw [mem_defaultDiffRows] at h
  rcases h with ⟨h1, h2, _⟩ | ⟨h1, h2⟩
  · subst h1; simpa [sideOf] using h2
  · have : (op == Op.removed) = false := by
      subst h2; split <;> rfl
    simpa [sideOf, this] using h1

/-- `tree[item.row]` never raises, and the entries are exactly the not-skipped items of `default_diff`, each with the
whole subtree of its side under one op -/
theorem mem_spec (rule : Rule) (old new : Level) :
    ∃ d, multilineDiffWith rule old new = some d ∧
      ∀ i, i ∈ d ↔ ∃ op row t, (op, row) ∈ defaultDiffRows old new ∧ skip rule old new row = false ∧
        Cfg.lookup (sideOf op old new) row = some t ∧ i = .mk op row (processMultiline (childOp op) t) :=
  buildItems_spec rule old new _ (sideOf_wf old new)

theorem skip_head (old new : Level) (row : String) :
    skip .head old new row = false ↔ sub old row ≠ sub new row := by
  simp only [skip, sub]; exact beq_false_iff _ _

theorem skip_fixed (old new : Level) (row : String) :
    skip .fixed old new row = false ↔
      ¬ (∃ a b, Cfg.lookup old row = some a ∧ Cfg.lookup new row = some b ∧ a = b) := by
  simp only [skip]
  split
  · rename_i a b ha hb
    rw [beq_false_iff]
    constructor
    · rintro h ⟨a', b', h1, h2, h3⟩
      rw [ha] at h1; rw [hb] at h2; cases h1; cases h2; exact h h3
    · intro h hab; exact h ⟨a, b, ha, hb, hab⟩
  · rename_i hno
    constructor
    · rintro _ ⟨a', b', h1, h2, _⟩; exact hno a' b' h1 h2
    · intro _; rfl

/-! ### `process_multiline` keeps the subtree and gives every entry the one op -/

mutual
  theorem mpaths_process (op : Op) : ∀ t : Cfg, mpaths (processMultiline op t) = Cfg.paths t
    | .mk ks => by rw [processMultiline, Cfg.paths]; exact mpaths_processList op ks
  theorem mpaths_processList (op : Op) : ∀ ks : List (String × Cfg),
      mpaths (processMultilineList op ks) = Cfg.pathsList ks
    | [] => by simp [processMultilineList, mpaths, Cfg.pathsList]
    | (k, c) :: rest => by
      simp only [processMultilineList, mpaths, mpathsItem, Cfg.pathsList]
      rw [mpaths_process op c, mpaths_processList op rest]
end

mutual
  theorem allOp_process (op : Op) : ∀ t : Cfg, allOp op (processMultiline op t) = true
    | .mk ks => by rw [processMultiline]; exact allOp_processList op ks
  theorem allOp_processList (op : Op) : ∀ ks : List (String × Cfg), allOp op (processMultilineList op ks) = true
    | [] => by simp [processMultilineList, allOp]
    | (k, c) :: rest => by
      simp only [processMultilineList, allOp, allOpItem]
      rw [allOp_process op c, allOp_processList op rest]; simp
end

/-! ### the statements behind `Props/C03.lean` -/

theorem total (rule : Rule) (old new : Level) : ∃ d, multilineDiffWith rule old new = some d :=
  let ⟨d, h, _⟩ := mem_spec rule old new; ⟨d, h⟩

theorem rows_cover (old new : Level) (r : String) :
    (∃ op, (op, r) ∈ defaultDiffRows old new) ↔ (Cfg.hasKey old r = true ∨ Cfg.hasKey new r = true) := by
  constructor
  · rintro ⟨op, h⟩
    rw [mem_defaultDiffRows] at h
    rcases h with ⟨_, h, _⟩ | ⟨h, _⟩
    · exact Or.inl h
    · exact Or.inr h
  · intro h
    cases hn : Cfg.hasKey new r
    · rcases h with h | h
      · exact ⟨.removed, (mem_defaultDiffRows ..).2 (Or.inl ⟨rfl, h, hn⟩)⟩
      · rw [hn] at h; cases h
    · exact ⟨_, (mem_defaultDiffRows ..).2 (Or.inr ⟨hn, rfl⟩)⟩

theorem entry_iff_with (rule : Rule) (old new : Level) (d : List MItem)
    (h : multilineDiffWith rule old new = some d) (r : String) :
    (∃ i ∈ d, i.row = r) ↔
      ((Cfg.hasKey old r = true ∨ Cfg.hasKey new r = true) ∧ skip rule old new r = false) := by
  obtain ⟨d', hd', hspec⟩ := mem_spec rule old new
  rw [h] at hd'; cases hd'
  constructor
  · rintro ⟨i, hi, hr⟩
    obtain ⟨op, row, t, hm, hs, _, rfl⟩ := (hspec i).1 hi
    simp only [MItem.row] at hr; subst hr
    exact ⟨(rows_cover old new row).1 ⟨op, hm⟩, hs⟩
  · rintro ⟨hc, hs⟩
    obtain ⟨op, hm⟩ := (rows_cover old new r).2 hc
    obtain ⟨t, ht⟩ := lookup_of_hasKey (sideOf_wf old new op r hm)
    exact ⟨_, (hspec _).2 ⟨op, r, t, hm, hs, ht, rfl⟩, rfl⟩

theorem entry_op (rule : Rule) (old new : Level) (d : List MItem)
    (h : multilineDiffWith rule old new = some d) (i : MItem) (hi : i ∈ d) :
    (i.op = .removed ↔ Cfg.hasKey new i.row = false) ∧
    (i.op = .added ↔ Cfg.hasKey old i.row = false) ∧
    (i.op = .affected ↔ (Cfg.hasKey old i.row = true ∧ Cfg.hasKey new i.row = true)) ∧
    (Cfg.hasKey old i.row = true ∨ Cfg.hasKey new i.row = true) := by
  obtain ⟨d', hd', hspec⟩ := mem_spec rule old new
  rw [h] at hd'; cases hd'
  obtain ⟨op, row, t, hm, _, _, rfl⟩ := (hspec i).1 hi
  simp only [MItem.op, MItem.row]
  rw [mem_defaultDiffRows] at hm
  rcases hm with ⟨rfl, h1, h2⟩ | ⟨h1, rfl⟩
  · simp [h1, h2]
  · cases ho : Cfg.hasKey old row <;> simp [h1]

theorem entry_children (rule : Rule) (old new : Level) (d : List MItem)
    (h : multilineDiffWith rule old new = some d) (i : MItem) (hi : i ∈ d) :
    (i.op = .removed → ∃ t, Cfg.lookup old i.row = some t ∧ i.children = processMultiline .removed t) ∧
    (i.op ≠ .removed → ∃ t, Cfg.lookup new i.row = some t ∧ i.children = processMultiline .added t) := by
  obtain ⟨d', hd', hspec⟩ := mem_spec rule old new
  rw [h] at hd'; cases hd'
  obtain ⟨op, row, t, _, _, ht, rfl⟩ := (hspec i).1 hi
  simp only [MItem.op, MItem.row, MItem.children]
  constructor
  · rintro rfl; exact ⟨t, by simpa [sideOf] using ht, rfl⟩
  · intro hne
    have hb : (op == Op.removed) = false := by simpa using hne
    exact ⟨t, by simpa [sideOf, hb] using ht, by simp [childOp, hb]⟩

theorem self_empty (rule : Rule) (t : Level) : multilineDiffWith rule t t = some [] := by
  obtain ⟨d, hd, hspec⟩ := mem_spec rule t t
  rw [hd]
  congr 1
  rw [List.eq_nil_iff_forall_not_mem]
  intro i hi
  obtain ⟨op, row, s, hm, hs, _, _⟩ := (hspec i).1 hi
  cases rule
  · exact (skip_head t t row).1 hs rfl
  · have hk := (rows_cover t t row).1 ⟨op, hm⟩
    obtain ⟨a, ha⟩ := lookup_of_hasKey (hk.elim id id)
    exact (skip_fixed t t row).1 hs ⟨a, a, ha, ha, rfl⟩

end Annet.Multiline
