/-
From the generators to the patch: `_old_new_per_device` (`Model/Gen.lean`, `oldNewFull`) followed by `_diff_and_patch`
with an ACL (`Model/AclDiff.lean`, `deviceModeAcl`).
-/
import AnnetModel.Lemmas.GenFull
import AnnetModel.Model.AclDiff

namespace Annet.Pipeline
open Annet Annet.Gen Annet.Acl

/-! ### every stage on empty input -/

theorem applyAcl_nil (av : Acl.Vendor) (fatal exclusive : Bool) (acl : Acl.Rules) (path : List String) :
    Acl.applyAcl av fatal exclusive acl path (.mk []) = .ok (.mk []) := by
  simp [Acl.applyAcl, Acl.applyAclList, Except.map]

theorem annotate_nil (rules : Rules.PRules) : Diff.annotate rules (.mk []) = .ok (.mk []) := by
  simp [Diff.annotate, Diff.annotateList, Except.map]

/-- no row on either side: no diff logic is consulted, whatever the fuel -/
theorem callDiffLogic_nil (fuel : Nat) (pops : List Diff.Pop) : Diff.callDiffLogic fuel pops [] [] = .ok [] := by
  cases fuel <;> simp [Diff.callDiffLogic, Diff.logicsOf, Diff.runLogics, List.eraseDups]

theorem makeDiffAcl_nil (av : Acl.Vendor) (acl : Acl.Rules) (rules : Rules.PRules) :
    AclDiff.makeDiffAcl av acl rules (.mk []) (.mk []) = .ok [] := by
  simp [AclDiff.makeDiffAcl, annotate_nil, Diff.ACfg.kids, callDiffLogic_nil, AclDiff.applyAclDiff,
    Diff.markUnchanged]

theorem makePre_nil : Patch.makePre [] = .mk [] := by
  simp [Patch.makePre, Patch.makePreAcc]

theorem sortTree_nil : Patch.sortTree (.mk []) = .mk [] := by
  simp [Patch.sortTree, Patch.sortItems, Patch.stableSort]

theorem makePatchWith_nil (lg : Patch.LogicFn) (pv : Rules.Vendor) (ordering : List Rules.ORule) (doCommit : Bool) :
    Patch.makePatchWith lg pv ordering doCommit (Patch.makePre []) = .ok (.mk []) := by
  simp [Patch.makePatchWith, makePre_nil, Patch.preDepth, Patch.preDepthR, Patch.makePatchUnsorted,
    Patch.Pre.rules, Patch.itemsOfPre, Patch.buildTree, Except.map, sortTree_nil]

/-- the value of `_diff_and_patch` on two empty configurations -/
theorem deviceModeAcl_nil (lg : Patch.LogicFn) (pv : Rules.Vendor) (av : Acl.Vendor) (acl : Acl.Rules)
    (rules : Rules.PRules) (ordering : List Rules.ORule) :
    AclDiff.deviceModeAcl lg pv av acl rules ordering (.mk []) (.mk []) = .ok { diff := [], patch := .mk [] } := by
  simp [AclDiff.deviceModeAcl, applyAcl_nil, makeDiffAcl_nil, makePatchWith_nil, Diff.stripUnchanged]

/-- nothing in, nothing out: with an empty old and an empty new configuration `_diff_and_patch` reports no diff entry and
builds an empty patch, whatever the ACL, the rulebook and the logic table -/
theorem deviceModeAcl_empty (lg : Patch.LogicFn) (pv : Rules.Vendor) (av : Acl.Vendor) (acl : Acl.Rules)
    (rules : Rules.PRules) (ordering : List Rules.ORule) (res : Api.Result)
    (h : AclDiff.deviceModeAcl lg pv av acl rules ordering (.mk []) (.mk []) = .ok res) :
    res.diff = [] ∧ res.patch.items = [] := by
  rw [deviceModeAcl_nil] at h
  cases h
  exact ⟨rfl, rfl⟩

/-- … and it does not fail either -/
theorem deviceModeAcl_empty_ok (lg : Patch.LogicFn) (pv : Rules.Vendor) (av : Acl.Vendor) (acl : Acl.Rules)
    (rules : Rules.PRules) (ordering : List Rules.ORule) :
    ∃ res, AclDiff.deviceModeAcl lg pv av acl rules ordering (.mk []) (.mk []) = .ok res := by
  exact ⟨_, deviceModeAcl_nil lg pv av acl rules ordering⟩

/-- NO OWNER, NO COMMAND (the whole pipeline): when no selected generator provides an ACL rule for the device (and
`--no-acl` is off), whatever the device holds and whatever the generators would yield, the patch is empty and no diff is
shown. -/
theorem no_generator_acl_no_patch (v : Vendor) (sp : Splitter) (gens : List GenDef) (exclusive : Bool)
    (filter : Option (List RawRule)) (old : Cfg) (r : OldNew) (hg : ∀ g ∈ gens, g.acl = [])
    (h : oldNewFull v sp gens false exclusive filter old = .ok r)
    (lg : Patch.LogicFn) (pv : Rules.Vendor) (acl : Acl.Rules) (rules : Rules.PRules) (ordering : List Rules.ORule)
    (res : Api.Result) (hres : AclDiff.deviceModeAcl lg pv v acl rules ordering r.old r.new = .ok res) :
    res.diff = [] ∧ res.patch.items = [] := by
  obtain ⟨ho, hn⟩ := oldNewFull_no_acl_rules v sp gens exclusive filter old r hg h
  rw [ho, hn] at hres
  exact deviceModeAcl_empty lg pv v acl rules ordering res hres

/-- the same for a requested filter that has no rule -/
theorem empty_filter_no_patch (v : Vendor) (sp : Splitter) (gens : List GenDef) (noAcl exclusive : Bool)
    (old : Cfg) (r : OldNew) (h : oldNewFull v sp gens noAcl exclusive (some []) old = .ok r)
    (lg : Patch.LogicFn) (pv : Rules.Vendor) (acl : Acl.Rules) (rules : Rules.PRules) (ordering : List Rules.ORule)
    (res : Api.Result) (hres : AclDiff.deviceModeAcl lg pv v acl rules ordering r.old r.new = .ok res) :
    res.diff = [] ∧ res.patch.items = [] := by
  obtain ⟨ho, hn⟩ := oldNewFull_empty_filter v sp gens noAcl exclusive old r h
  rw [ho, hn] at hres
  exact deviceModeAcl_empty lg pv v acl rules ordering res hres

end Annet.Pipeline
