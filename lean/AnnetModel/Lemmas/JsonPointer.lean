/-
C13 helper lemmas, part A: RFC 6901 escaping.  `JsonPointer(p.path).parts == p.parts`,
i.e. the pointers `_resolve_json_pointers` rebuilds from matched keys denote those keys.
-/
import AnnetModel.Model.Json

namespace Annet.Json.Lemmas
open Annet.Json

theorem replace2_cons_ne (a b r c : Char) (l : List Char) (h : c ≠ a) :
    replace2 a b r (c :: l) = c :: replace2 a b r l := by
  cases l with
  | nil => simp [replace2]
  | cons d cs => simp [replace2, h]

/-- `~` → `~0` only: what is left of `escape` after undoing `~1`. -/
def esc0 : List Char → List Char
  | [] => []
  | c :: cs => if c = '~' then '~' :: '0' :: esc0 cs else c :: esc0 cs

theorem replace2_escapeL (s : List Char) : replace2 '~' '1' '/' (escapeL s) = esc0 s := by
  induction s with
  | nil => simp [escapeL, replace2, esc0]
  | cons c cs ih =>
    by_cases h1 : c = '~'
    · subst h1
      simp only [escapeL, esc0, if_true]
      rw [replace2]
      rw [if_neg (by decide)]
      rw [replace2_cons_ne _ _ _ _ _ (by decide), ih]
    · by_cases h2 : c = '/'
      · subst h2
        simp only [escapeL, esc0, h1, if_false, if_true]
        rw [replace2]
        simp [ih]
      · simp only [escapeL, esc0, h1, h2, if_false]
        rw [replace2_cons_ne _ _ _ _ _ h1, ih]

theorem replace2_esc0 (s : List Char) : replace2 '~' '0' '~' (esc0 s) = s := by
  induction s with
  | nil => simp [esc0, replace2]
  | cons c cs ih =>
    by_cases h1 : c = '~'
    · subst h1
      simp only [esc0, if_true]
      rw [replace2]
      simp [ih]
    · simp only [esc0, h1, if_false]
      rw [replace2_cons_ne _ _ _ _ _ h1, ih]

/-- `unescape(escape(s)) == s` -/
theorem unescapeL_escapeL (s : List Char) : unescapeL (escapeL s) = s := by
  simp [unescapeL, replace2_escapeL, replace2_esc0]

theorem invalidEscape_cons_ne (c : Char) (l : List Char) (h : c ≠ '~') :
    invalidEscape (c :: l) = invalidEscape l := by
  cases l with
  | nil => simp [invalidEscape, h]
  | cons d cs => simp [invalidEscape, h]

theorem invalidEscape_escapeL_append (p rest : List Char) :
    invalidEscape (escapeL p ++ rest) = invalidEscape rest := by
  induction p with
  | nil => simp [escapeL]
  | cons c cs ih =>
    by_cases h1 : c = '~'
    · subst h1
      simp only [escapeL, if_true, List.cons_append]
      rw [invalidEscape]
      simp only [ne_eq, not_true_eq_false, false_and, and_false, decide_false, Bool.false_or]
      rw [invalidEscape_cons_ne _ _ (by decide), ih]
    · by_cases h2 : c = '/'
      · subst h2
        simp only [escapeL, h1, if_false, if_true, List.cons_append]
        rw [invalidEscape]
        simp only [ne_eq, not_true_eq_false, and_false, decide_false, Bool.false_or]
        rw [invalidEscape_cons_ne _ _ (by decide), ih]
      · simp only [escapeL, h1, h2, if_false, List.cons_append]
        rw [invalidEscape_cons_ne _ _ h1, ih]

theorem invalidEscape_pathL (parts : List (List Char)) : invalidEscape (pathL parts) = false := by
  induction parts with
  | nil => simp [pathL, invalidEscape]
  | cons p ps ih =>
    simp only [pathL]
    rw [invalidEscape_cons_ne _ _ (by decide), invalidEscape_escapeL_append, ih]

theorem splitSlash_ne_nil (s : List Char) : splitSlash s ≠ [] := by
  induction s with
  | nil => simp [splitSlash]
  | cons c cs ih =>
    simp only [splitSlash]
    split
    · simp
    · split <;> simp

theorem escapeL_no_slash (p : List Char) : ∀ c ∈ escapeL p, c ≠ '/' := by
  induction p with
  | nil => simp [escapeL]
  | cons c cs ih =>
    intro x hx
    by_cases h1 : c = '~'
    · subst h1
      simp only [escapeL, if_true, List.mem_cons] at hx
      rcases hx with rfl | rfl | hx
      · decide
      · decide
      · exact ih x hx
    · by_cases h2 : c = '/'
      · subst h2
        simp only [escapeL, h1, if_false, if_true, List.mem_cons] at hx
        rcases hx with rfl | rfl | hx
        · decide
        · decide
        · exact ih x hx
      · simp only [escapeL, h1, h2, if_false, List.mem_cons] at hx
        rcases hx with rfl | hx
        · exact h2
        · exact ih x hx

theorem splitSlash_append (l m : List Char) (h : ∀ c ∈ l, c ≠ '/') (hd : List Char) (tl : List (List Char))
    (hm : splitSlash m = hd :: tl) : splitSlash (l ++ m) = (l ++ hd) :: tl := by
  induction l with
  | nil => simpa using hm
  | cons c cs ih =>
    have hc : c ≠ '/' := h c (by simp)
    have := ih (fun x hx => h x (by simp [hx]))
    simp only [List.cons_append, splitSlash, this, hc, if_false]

theorem splitSlash_pathL (parts : List (List Char)) :
    splitSlash (pathL parts) = [] :: parts.map escapeL := by
  induction parts with
  | nil => simp [pathL, splitSlash]
  | cons p ps ih =>
    simp only [pathL, List.map_cons]
    rw [splitSlash]
    rw [splitSlash_append (escapeL p) (pathL ps) (escapeL_no_slash p) [] (ps.map escapeL) ih]
    simp

/-- `JsonPointer(JsonPointer.from_parts(parts).path).parts == parts` on characters -/
theorem parsePointerL_pathL (parts : List (List Char)) : parsePointerL (pathL parts) = .ok parts := by
  simp only [parsePointerL, invalidEscape_pathL, splitSlash_pathL]
  have : List.map unescapeL (List.map escapeL parts) = parts := by
    induction parts with
    | nil => rfl
    | cons p ps ih => simp [unescapeL_escapeL, ih]
  simp [this]

theorem map_ofList_toList (p : Ptr) : (p.map String.toList).map String.ofList = p := by
  induction p with
  | nil => rfl
  | cons k ks ih => simp [String.ofList_toList]

/-- `path` is a right inverse of `parsePointer` (so `.path` is injective on parts). -/
theorem parsePointer_path (p : Ptr) : parsePointer (path p) = .ok p := by
  simp only [parsePointer, path, String.toList_ofList, parsePointerL_pathL]
  simp [Except.map]

/-- jsontools.py:183 after commit 18103e9: the rebuilt pointer has exactly the matched parts -/
theorem rebuild_eq (mp : Ptr) (h : mp ≠ []) : rebuild mp = .ok mp := by
  cases mp with
  | nil => exact absurd rfl h
  | cons k ks =>
    simp only [rebuild, joinedL, List.map_cons]
    rw [← List.map_cons, parsePointerL_pathL]
    simp [Except.map]

/-- …and for an empty list of parts the text `"/"` is built, which denotes the key `""`. -/
theorem rebuild_nil : rebuild [] = .ok [""] := by
  simp [rebuild, joinedL, parsePointerL, invalidEscape, splitSlash, unescapeL, replace2, Except.map]

end Annet.Json.Lemmas
