/-
Helpers for `Lemmas/DiffWhole.lean` (C03 for the whole `make_diff`), part 1: what does not mention the projections.

* `F2`: two lists related element by element.
* `AnnL` / `Coh`: what `annotate` guarantees — the match of a row is a function of the row and of the rules reached
  along its path, so a row present on both sides carries the same match (hence the same diff logic) and its children
  were annotated with the same child rules.
* `removedItems_full`, `newItems_full`, `baseDiff_shape`: the two loops of `base_diff`, with the recursive calls.
* `Sub`: a diff-logic group `(old.filter …, new.filter …)` of a coherent level sees the same rows and children as the
  whole level.
* depth, `logicsOf`, the groups partition a level.

Core Lean only.
-/
import AnnetModel.Spec.DiffWhole
import AnnetModel.Lemmas.Diff

namespace Annet.Diff.Lemmas
open Annet Annet.Rules Annet.Diff Annet.Diff.Spec

/-! ### lists related element by element -/

theorem find?_congr' {α : Type} {p q : α → Bool} : ∀ {l : List α}, (∀ x ∈ l, p x = q x) → l.find? p = l.find? q
  | [], _ => rfl
  | a :: l, h => by
    rw [List.find?_cons, List.find?_cons, h a List.mem_cons_self,
      find?_congr' (fun x hx => h x (List.mem_cons_of_mem _ hx))]

theorem flatMap_congr' {α β : Type} {f g : α → List β} : ∀ {l : List α}, (∀ x ∈ l, f x = g x) →
    l.flatMap f = l.flatMap g
  | [], _ => rfl
  | a :: l, h => by
    rw [List.flatMap_cons, List.flatMap_cons, h a List.mem_cons_self,
      flatMap_congr' (fun x hx => h x (List.mem_cons_of_mem _ hx))]

inductive F2 {α β : Type} (R : α → β → Prop) : List α → List β → Prop
  | nil : F2 R [] []
  | cons {a : α} {b : β} {l1 : List α} {l2 : List β} : R a b → F2 R l1 l2 → F2 R (a :: l1) (b :: l2)

theorem F2.imp_mem {α β : Type} {R S : α → β → Prop} {l1 : List α} {l2 : List β} (h : F2 R l1 l2)
    (himp : ∀ a b, a ∈ l1 → b ∈ l2 → R a b → S a b) : F2 S l1 l2 := by
  induction h with
  | nil => exact .nil
  | cons hab _ ih =>
    refine .cons (himp _ _ List.mem_cons_self List.mem_cons_self hab) (ih ?_)
    intro a b ha hb
    exact himp a b (List.mem_cons_of_mem _ ha) (List.mem_cons_of_mem _ hb)

theorem F2.mem_left {α β : Type} {R : α → β → Prop} {l1 : List α} {l2 : List β} (h : F2 R l1 l2)
    {a : α} (ha : a ∈ l1) : ∃ b ∈ l2, R a b := by
  induction h with
  | nil => cases ha
  | cons hab _ ih =>
    rcases List.mem_cons.1 ha with rfl | ha
    · exact ⟨_, List.mem_cons_self, hab⟩
    · obtain ⟨b, hb, hr⟩ := ih ha
      exact ⟨b, List.mem_cons_of_mem _ hb, hr⟩

/-! ### what `annotate` guarantees -/

mutual
  /-- every row carries the match `matchRow` gives it under the rules of its level, children under the child rules -/
  def AnnC : PRules → ACfg → Prop
    | rules, .mk ks => AnnL rules ks
  def AnnL : PRules → List (String × PMatch × ACfg) → Prop
    | _, [] => True
    | rules, (r, m, c) :: rest => (∃ cr, matchRow r rules = .found m cr ∧ AnnC cr c) ∧ AnnL rules rest
end

theorem annC_iff (rules : PRules) (c : ACfg) : AnnC rules c ↔ AnnL rules c.kids := by
  obtain ⟨ks⟩ := c
  rw [AnnC]; rfl

theorem annL_iff (rules : PRules) (l : Level) :
    AnnL rules l ↔ ∀ e ∈ l, ∃ cr, matchRow e.1 rules = .found e.2.1 cr ∧ AnnL cr e.2.2.kids := by
  induction l with
  | nil => simp [AnnL]
  | cons e rest ih =>
    obtain ⟨r, m, c⟩ := e
    simp only [AnnL, ih, List.mem_cons, forall_eq_or_imp, annC_iff]

mutual
  theorem annotate_annC : ∀ (rules : PRules) (c : Cfg) (a : ACfg), annotate rules c = .ok a → AnnC rules a
    | rules, .mk ks, a, h => by
      rw [annotate] at h
      cases hl : annotateList rules ks with
      | error e => rw [hl] at h; cases h
      | ok l =>
        rw [hl] at h
        cases h
        rw [AnnC]
        exact annotateList_annL rules ks l hl
  theorem annotateList_annL : ∀ (rules : PRules) (ks : List (String × Cfg)) (l : Level),
      annotateList rules ks = .ok l → AnnL rules l
    | rules, [], l, h => by
      rw [annotateList] at h
      cases h
      rw [AnnL]; trivial
    | rules, (row, ch) :: rest, l, h => by
      rw [annotateList] at h
      split at h
      · cases h
      · exact annotateList_annL rules rest l h
      · rename_i m cr hm
        split at h
        · cases h
        · rename_i ch' hch
          split at h
          · cases h
          · rename_i rest' hrest
            cases h
            rw [AnnL]
            exact ⟨⟨cr, hm, annotate_annC cr ch ch' hch⟩, annotateList_annL rules rest rest' hrest⟩
end

/-- the two sides were annotated with the same rules -/
def Coh (old new : Level) : Prop := ∃ rules, AnnL rules old ∧ AnnL rules new

theorem coh_of_annotate {rules : PRules} {old new : Cfg} {ao an : ACfg}
    (ha : annotate rules old = .ok ao) (hn : annotate rules new = .ok an) : Coh ao.kids an.kids :=
  ⟨rules, (annC_iff _ _).1 (annotate_annC _ _ _ ha), (annC_iff _ _).1 (annotate_annC _ _ _ hn)⟩

theorem annL_nil (rules : PRules) : AnnL rules [] := by rw [AnnL]; trivial

theorem Coh.match_eq {old new : Level} (h : Coh old new) {e e' : String × PMatch × ACfg}
    (he : e ∈ old) (he' : e' ∈ new) (hr : e.1 = e'.1) : e.2.1 = e'.2.1 ∧ Coh e.2.2.kids e'.2.2.kids := by
  obtain ⟨rules, ho, hn⟩ := h
  obtain ⟨cr, h1, h2⟩ := (annL_iff _ _).1 ho e he
  obtain ⟨cr', h1', h2'⟩ := (annL_iff _ _).1 hn e' he'
  rw [hr, h1'] at h1
  injection h1 with hm hc
  subst hc
  exact ⟨hm.symm, cr', h2, h2'⟩

theorem Coh.kids_left {old new : Level} (h : Coh old new) {e : String × PMatch × ACfg} (he : e ∈ old) :
    Coh e.2.2.kids [] := by
  obtain ⟨rules, ho, _⟩ := h
  obtain ⟨cr, _, h2⟩ := (annL_iff _ _).1 ho e he
  exact ⟨cr, h2, annL_nil _⟩

theorem Coh.kids_right {old new : Level} (h : Coh old new) {e : String × PMatch × ACfg} (he : e ∈ new) :
    Coh [] e.2.2.kids := by
  obtain ⟨rules, _, hn⟩ := h
  obtain ⟨cr, _, h2⟩ := (annL_iff _ _).1 hn e he
  exact ⟨cr, annL_nil _, h2⟩

/-! ### rows of a level -/

theorem hasRow_of_mem {l : Level} {e : String × PMatch × ACfg} (he : e ∈ l) : hasRow l e.1 = true :=
  hasRow_iff.2 (List.mem_map.2 ⟨e, he, rfl⟩)

theorem mem_of_hasRow {l : Level} {r : String} (h : hasRow l r = true) : ∃ e ∈ l, e.1 = r := by
  obtain ⟨e, he, hr⟩ := List.mem_map.1 (hasRow_iff.1 h)
  exact ⟨e, he, hr⟩

theorem lookupA_of_mem {l : Level} (hn : (rowsOf l).Nodup) {e : String × PMatch × ACfg} (he : e ∈ l) :
    lookupA l e.1 = some e.2 := by
  obtain ⟨pre, rest, rfl⟩ := List.append_of_mem he
  refine lookupA_append pre e rest ?_
  simp only [rowsOf, List.map_append, List.map_cons] at hn
  intro hmem
  exact (List.nodup_append.1 hn).2.2 e.1 hmem e.1 List.mem_cons_self rfl

theorem oldKids_of_mem {l : Level} (hn : (rowsOf l).Nodup) {e : String × PMatch × ACfg} (he : e ∈ l) :
    oldKids l e.1 = e.2.2.kids := by
  simp [oldKids, lookupA_of_mem hn he]

theorem oldKids_of_not_hasRow {l : Level} {r : String} (h : hasRow l r = false) : oldKids l r = [] := by
  have : lookupA l r = none := by
    simp only [lookupA, Option.map_eq_none_iff, List.find?_eq_none]
    intro e he hb
    have := hasRow_of_mem he
    rw [beq_iff_eq.1 hb, h] at this
    cases this
  simp [oldKids, this]

/-- `oldKids` is `[]` or the children of an entry of the level -/
theorem oldKids_cases (l : Level) (r : String) :
    oldKids l r = [] ∨ ∃ e ∈ l, e.1 = r ∧ oldKids l r = e.2.2.kids := by
  unfold oldKids lookupA
  cases hf : l.find? (·.1 == r) with
  | none => left; rfl
  | some e =>
    right
    refine ⟨e, List.mem_of_find?_eq_some hf, ?_, rfl⟩
    have := List.find?_some hf
    exact beq_iff_eq.1 this

theorem kidsOf_eq_oldKids (l : Level) (r : String) : kidsOf l r = oldKids l r := rfl

/-! ### the two loops of `base_diff`, with the recursive calls -/

/-- a REMOVED item and the entry of `old` it reports -/
def RemRel (rec : Rec) (pops : List Pop) (x : Nat × DItem) (e : String × PMatch × ACfg) : Prop :=
  x.2.op = .removed ∧ x.2.row = e.1 ∧ rec (pops ++ [.op .removed]) e.2.2.kids [] = .ok x.2.children

/-- an item of the second loop and the entry of `new` it reports -/
def NewRel (rec : Rec) (pops : List Pop) (old : Level) (x : Nat × DItem) (e : String × PMatch × ACfg) : Prop :=
  x.2.row = e.1 ∧ rec (pops ++ [.op x.2.op]) (oldKids old e.1) e.2.2.kids = .ok x.2.children ∧
  ((x.2.op = .added ∧ hasRow old e.1 = false) ∨
    (hasRow old e.1 = true ∧ (x.2.op = .moved ∨ x.2.op = lastOp pops)))

theorem removedItems_full (rec : Rec) (pops : List Pop) (new : Level) :
    ∀ (old : Level) (idx : Nat) (rs : List (Nat × DItem)),
      removedItems rec pops new idx old = .ok rs →
      F2 (RemRel rec pops) rs (old.filter (fun e => !hasRow new e.1)) := by
  intro old
  induction old with
  | nil =>
    intro idx rs h
    simp only [removedItems, Except.ok.injEq] at h
    subst h; exact .nil
  | cons e rest ih =>
    obtain ⟨row, m, ch⟩ := e
    intro idx rs h
    rw [removedItems] at h
    split at h
    · rename_i hr
      rw [List.filter_cons]
      simp only [hr, Bool.not_true, Bool.false_eq_true, if_false]
      exact ih _ _ h
    · rename_i hr
      split at h
      · cases h
      · rename_i cs hcs
        split at h
        · cases h
        · rename_i more hmore
          cases h
          rw [List.filter_cons]
          simp only [hr, Bool.not_false, if_true]
          exact .cons ⟨rfl, rfl, hcs⟩ (ih _ _ hmore)

theorem newItems_full (rec : Rec) (pops : List Pop) (m2a : Bool) (old : Level) :
    ∀ (new : Level) (idx : Nat) (dis : Bool) (ns : List (Nat × DItem)),
      newItems rec pops m2a old idx dis new = .ok ns → F2 (NewRel rec pops old) ns new := by
  intro new
  induction new with
  | nil =>
    intro idx dis ns h
    simp only [newItems, Except.ok.injEq] at h
    subst h; exact .nil
  | cons e rest ih =>
    obtain ⟨row, m, ch⟩ := e
    intro idx dis ns h
    rw [newItems_cons] at h
    split at h
    · cases h
    · rename_i cs hcs
      split at h
      · cases h
      · rename_i more hmore
        cases h
        refine .cons ⟨rfl, hcs, ?_⟩ (ih _ _ _ hmore)
        rcases opOf_cases pops m2a old idx dis row with ⟨h1, h2⟩ | ⟨h1, h2⟩
        · exact Or.inl ⟨h1, h2⟩
        · exact Or.inr ⟨h1, h2⟩

/-- one call of `base_diff`: the items are those of the two loops, up to the order -/
theorem baseDiff_shape {rec : Rec} {pops : List Pop} {m2a : Bool} {old new : Level} {d : List DItem}
    (h : baseDiff rec pops m2a old new = .ok d) :
    ∃ rs ns, d.Perm ((rs ++ ns).map (·.2)) ∧
      F2 (RemRel rec pops) rs (old.filter (fun e => !hasRow new e.1)) ∧
      F2 (NewRel rec pops old) ns new := by
  obtain ⟨rs, ns, hr, hn, rfl⟩ := baseDiff_inv h
  exact ⟨rs, ns, (sortIdx_perm _).map _, removedItems_full _ _ _ _ _ _ hr, newItems_full _ _ _ _ _ _ _ _ hn⟩

/-! ### a diff-logic group of a coherent level -/

/-- `(o, n)` is a part of `(old, new)` that sees the same rows and children -/
structure Sub (o n old new : Level) : Prop where
  so : ∀ e ∈ o, e ∈ old
  sn : ∀ e ∈ n, e ∈ new
  ho : ∀ e ∈ o, hasRow n e.1 = hasRow new e.1
  hn : ∀ e ∈ n, hasRow o e.1 = hasRow old e.1
  kn : ∀ e ∈ n, oldKids o e.1 = oldKids old e.1

def keyOf (e : String × PMatch × ACfg) : String := e.2.1.attrs.diffLogic

theorem hasRow_filter_of_coh {a b : Level} (hsame : ∀ e ∈ a, ∀ e' ∈ b, e.1 = e'.1 → e.2.1 = e'.2.1)
    (l : String) {e : String × PMatch × ACfg} (he : e ∈ a) (hk : keyOf e = l) :
    hasRow (b.filter (fun x => x.2.1.attrs.diffLogic == l)) e.1 = hasRow b e.1 := by
  rw [Bool.eq_iff_iff]
  constructor
  · intro h
    obtain ⟨x, hx, hr⟩ := mem_of_hasRow h
    rw [← hr]
    exact hasRow_of_mem (List.mem_filter.1 hx).1
  · intro h
    obtain ⟨x, hx, hr⟩ := mem_of_hasRow h
    rw [← hr]
    refine hasRow_of_mem (List.mem_filter.2 ⟨hx, ?_⟩)
    have := hsame e he x hx hr.symm
    simp only [beq_iff_eq]
    rw [← this]; exact hk

theorem sub_filter {old new : Level} (h : Coh old new) (l : String) :
    Sub (old.filter (fun x => x.2.1.attrs.diffLogic == l)) (new.filter (fun x => x.2.1.attrs.diffLogic == l))
      old new := by
  have hsame : ∀ e ∈ old, ∀ e' ∈ new, e.1 = e'.1 → e.2.1 = e'.2.1 :=
    fun e he e' he' hr => (h.match_eq he he' hr).1
  refine ⟨fun e he => (List.mem_filter.1 he).1, fun e he => (List.mem_filter.1 he).1, ?_, ?_, ?_⟩
  · intro e he
    have := List.mem_filter.1 he
    exact hasRow_filter_of_coh hsame l this.1 (by simpa [keyOf] using this.2)
  · intro e he
    have := List.mem_filter.1 he
    exact hasRow_filter_of_coh (fun a ha b hb hr => (hsame b hb a ha hr.symm).symm) l this.1
      (by simpa [keyOf] using this.2)
  · intro e he
    have hm := List.mem_filter.1 he
    unfold oldKids lookupA
    rw [List.find?_filter]
    congr 2
    apply find?_congr'
    intro x hx
    by_cases hr : x.1 = e.1
    · have := hsame x hx e hm.1 hr
      have hk : x.2.1.attrs.diffLogic = l := by rw [this]; simpa using hm.2
      simp [hr, hk]
    · simp [hr]

/-! ### depth -/

theorem adepthL_nil' : adepthL [] = 0 := by rw [adepthL]

theorem adepth_eq_kids (c : ACfg) : adepth c = adepthL c.kids := by
  obtain ⟨ks⟩ := c
  rw [adepth]; rfl

theorem adepthL_mem {l : Level} {e : String × PMatch × ACfg} (he : e ∈ l) :
    adepthL e.2.2.kids + 1 ≤ adepthL l := by
  induction l with
  | nil => cases he
  | cons x rest ih =>
    obtain ⟨r, m, c⟩ := x
    rw [adepthL]
    rcases List.mem_cons.1 he with rfl | he
    · rw [adepth_eq_kids]
      simp only
      omega
    · have := ih he
      omega

theorem adepthL_oldKids (l : Level) (r : String) : adepthL (oldKids l r) ≤ adepthL l := by
  rcases oldKids_cases l r with h | ⟨e, he, _, h⟩
  · rw [h, adepthL_nil']; omega
  · rw [h]
    have := adepthL_mem he
    omega

/-! ### the groups partition a level -/

theorem nodup_eraseDups (l : List String) : l.eraseDups.Nodup := by
  generalize hn : l.length = n
  induction n using Nat.strongRecOn generalizing l with
  | _ n ih =>
    cases l with
    | nil => simp
    | cons a as =>
      rw [List.eraseDups_cons, List.nodup_cons]
      constructor
      · rw [List.mem_eraseDups, List.mem_filter]
        simp
      · have hlen : (as.filter fun b => !b == a).length < n := by
          have := List.length_filter_le (fun b => !b == a) as
          simp only [List.length_cons] at hn
          omega
        exact ih _ hlen _ rfl

theorem flatMap_filter_perm {α : Type} (key : α → String) :
    ∀ (ls : List String), ls.Nodup → ∀ (l : List α), (∀ x ∈ l, key x ∈ ls) →
      (ls.flatMap fun k => l.filter (fun x => key x == k)).Perm l := by
  intro ls
  induction ls with
  | nil =>
    intro _ l h
    cases l with
    | nil => simp
    | cons x xs => exact absurd (h x List.mem_cons_self) (by simp)
  | cons k ks ih =>
    intro hnd l h
    rw [List.nodup_cons] at hnd
    rw [List.flatMap_cons]
    have hrest : (ks.flatMap fun k' => l.filter (fun x => key x == k')) =
        (ks.flatMap fun k' => (l.filter (fun x => !(key x == k))).filter (fun x => key x == k')) := by
      apply flatMap_congr'
      intro k' hk'
      rw [List.filter_filter]
      apply List.filter_congr
      intro x _
      by_cases hx : key x = k'
      · have : k' ≠ k := by intro hh; exact hnd.1 (hh ▸ hk')
        simp [hx, this]
      · simp [hx]
    rw [hrest]
    have h2 := ih hnd.2 (l.filter (fun x => !(key x == k))) (by
      intro x hx
      have hm := List.mem_filter.1 hx
      have := h x hm.1
      rcases List.mem_cons.1 this with hk | hk
      · simp [hk] at hm
      · exact hk)
    exact (List.Perm.append_left _ h2).trans (List.filter_append_perm _ l)

theorem mem_logicsOf {old new : Level} {k : String} :
    k ∈ logicsOf old new ↔ ∃ e, (e ∈ old ∨ e ∈ new) ∧ keyOf e = k := by
  unfold logicsOf
  rw [List.mem_eraseDups, List.mem_map]
  simp only [List.mem_append, keyOf]

theorem groups_perm_left (old new : Level) :
    ((logicsOf old new).flatMap fun k => old.filter (fun x => x.2.1.attrs.diffLogic == k)).Perm old :=
  flatMap_filter_perm (fun x : String × PMatch × ACfg => x.2.1.attrs.diffLogic) _ (nodup_eraseDups _) old
    (fun x hx => mem_logicsOf.2 ⟨x, Or.inl hx, rfl⟩)

theorem groups_perm_right (old new : Level) :
    ((logicsOf old new).flatMap fun k => new.filter (fun x => x.2.1.attrs.diffLogic == k)).Perm new :=
  flatMap_filter_perm (fun x : String × PMatch × ACfg => x.2.1.attrs.diffLogic) _ (nodup_eraseDups _) new
    (fun x hx => mem_logicsOf.2 ⟨x, Or.inr hx, rfl⟩)

end Annet.Diff.Lemmas
