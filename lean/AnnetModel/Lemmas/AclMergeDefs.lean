/-
Vocabulary of `merge_monotone_partial` (C06, third clause, positive part).
-/
import AnnetModel.Spec.Acl

namespace Annet.Acl.Spec
open Annet Annet.Acl Annet.Pattern Annet.Offside

mutual
  /-- no `%global` and no ignore rule anywhere in a raw ACL tree -/
  def PlainRaw : RawRule → Bool
    | .mk _ ignore isGlobal _ _ _ children => !ignore && !isGlobal && PlainRawL children
  def PlainRawL : List RawRule → Bool
    | [] => true
    | r :: rest => PlainRaw r && PlainRawL rest
end

mutual
  /-- no rule row begins with the vendor's negation word -/
  def NoNegRule (v : Vendor) : RawRule → Bool
    | .mk row _ _ _ _ _ children => !((v.reverse ++ " ").toList.isPrefixOf row.toList) && NoNegRuleL v children
  def NoNegRuleL (v : Vendor) : List RawRule → Bool
    | [] => true
    | r :: rest => NoNegRule v r && NoNegRuleL v rest
end

/-- the vendor's negation word is an ordinary literal word of the rule language: non-empty, no blank,
no pattern / regex metacharacter (so it is neither `*` nor `~` and carries no `(?i)` flag) -/
def plainWord (w : List Char) : Bool := !w.isEmpty && !w.any isMeta && !w.any pyIsSpace

/-- a configuration row is in *negated form*: as the matcher sees it (after `jun_activate` for Juniper),
it begins with the negation word — compared as a `(?i)` rule would, ignoring ASCII case — followed by
a whitespace character -/
def negForm (v : Vendor) (row : String) : Bool :=
  match stripLit true v.reverse.toList (if v.juniper then junActivate row else row).toList with
  | some (c :: _) => pyIsSpace c
  | _ => false

mutual
  /-- no configuration row is in negated form -/
  def NoNegRow (v : Vendor) : Cfg → Bool
    | .mk ks => NoNegRowL v ks
  def NoNegRowL (v : Vendor) : List (String × Cfg) → Bool
    | [] => true
    | (row, ch) :: rest => !negForm v row && NoNegRow v ch && NoNegRowL v rest
end

end Annet.Acl.Spec
