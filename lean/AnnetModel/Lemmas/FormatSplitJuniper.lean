/-
C04 helper lemmas, part 4: the Juniper family.  `split` (the five `sub_regexs`, the comment test, the
Nokia `configure {}` bounds) undoes `_formatted_blocks` line by line.
-/
import AnnetModel.Lemmas.FormatSplitBase
namespace Annet.FormatSplit.Lemmas
open Annet Annet.Offside Annet.FormatSplit

theorem cutAtFirst_id (m : Str → Bool) : ∀ (a : Str),
    (∀ x, x <:+ a → x ≠ [] → m x = false) → cutAtFirst m a = a
  | [], _ => rfl
  | c :: cs, h => by
    have h1 : m (c :: cs) = false := h _ (List.suffix_refl _) (by simp)
    have h2 := cutAtFirst_id m cs (fun x hx hne => h x (List.IsSuffix.trans hx (List.suffix_cons c cs)) hne)
    simp [cutAtFirst, h1, h2]

theorem cutAtFirst_all (m : Str → Bool) (a : Str) (h : m a = true) : cutAtFirst m a = [] := by
  cases a with
  | nil => rfl
  | cons c cs => simp [cutAtFirst, h]

theorem cutAtFirst_hit (m : Str → Bool) (b : Str) (hb : m b = true) : ∀ (a : Str),
    (∀ x, x <:+ a → x ≠ [] → m (x ++ b) = false) → cutAtFirst m (a ++ b) = a
  | [], _ => by simpa using cutAtFirst_all m b hb
  | c :: cs, h => by
    have h1 : m (c :: (cs ++ b)) = false := h _ (List.suffix_refl _) (by simp)
    have h2 := cutAtFirst_hit m b hb cs (fun x hx hne => h x (List.IsSuffix.trans hx (List.suffix_cons c cs)) hne)
    simp [cutAtFirst, h1, h2]

theorem suffix_getLast? {x s : Str} (hx : x <:+ s) (hne : x ≠ []) : x.getLast? = s.getLast? := by
  obtain ⟨t, rfl⟩ := hx
  rw [List.getLast?_append]
  cases h : x.getLast? with
  | none => simp [List.getLast?_eq_none_iff] at h; exact absurd h hne
  | some c => simp

theorem suffix_mem {x s : Str} (hx : x <:+ s) {c : Char} (hc : c ∈ x) : c ∈ s := hx.subset hc

/-! matchers -/

theorem reEmptyBlock_last {x : Str} (h : reEmptyBlock x = true) : x.getLast? = some '}' := by
  unfold reEmptyBlock at h
  split at h
  · rename_i u
    split at h
    · rename_i v hv
      have : u = v.reverse ++ ['}'] := by
        have := congrArg List.reverse hv
        simpa using this
      subst this
      rw [show ' ' :: '{' :: (v.reverse ++ ['}']) = ([' ', '{'] ++ v.reverse) ++ ['}'] by simp]
      exact List.getLast?_concat
    · cases h
  · cases h

theorem optTabComment_cases {u : Str} (h : optTabComment u = true) : u = [] ∨ '\t' ∈ u := by
  unfold optTabComment at h
  cases u with
  | nil => exact .inl rfl
  | cons c cs =>
    right
    simp at h
    split at h
    · rename_i heq
      simp at heq
      simp [heq.1]
    · cases h

theorem reBlockBegin_cases {x : Str} (h : reBlockBegin x = true) : x = [' ', '{'] ∨ '\t' ∈ x := by
  unfold reBlockBegin at h
  split at h
  · rename_i u
    rcases optTabComment_cases h with rfl | ht
    · exact .inl rfl
    · right; simp [ht]
  · cases h

theorem reStatementEnd_eq {x : Str} (h : reStatementEnd [';'] x = true) : x = [';'] := by
  simpa [reStatementEnd] using h

theorem reBlockEnd_cases {x : Str} (h : reBlockEnd x = true) : x.getLast? = some '}' ∨ '\t' ∈ x := by
  unfold reBlockEnd at h
  split at h
  · rename_i u hu
    have hs : ('}' :: u) <:+ x := hu ▸ List.dropWhile_suffix _
    rcases optTabComment_cases h with rfl | ht
    · left; rw [← suffix_getLast? hs (by simp)]; rfl
    · right; exact suffix_mem hs (by simp [ht])
  · cases h

theorem hasInfix_of_suffix (e : Str) : ∀ (s x : Str), x <:+ s → e.isPrefixOf x = true → hasInfix e s = true
  | [], x, hx, he => by
    have : x = [] := by simpa using hx
    subst this
    cases e with
    | nil => rfl
    | cons a b => simp at he
  | c :: cs, x, hx, he => by
    rw [List.suffix_cons_iff] at hx
    rcases hx with rfl | hx
    · simp [hasInfix, he]
    · simp [hasInfix, hasInfix_of_suffix e cs x hx he]

/-! the five substitutions on a line -/

theorem re1_id (s : Str) (h : s.getLast? ≠ some '}') : cutAtFirst reEmptyBlock s = s := by
  apply cutAtFirst_id
  intro x hx hne
  cases hm : reEmptyBlock x with
  | false => rfl
  | true => exact absurd ((suffix_getLast? hx hne).symm.trans (reEmptyBlock_last hm)) h

theorem re2_id (s : Str) (ht : '\t' ∉ s) (h : s.getLast? ≠ some '{') :
    cutAtFirst reBlockBegin s = s := by
  apply cutAtFirst_id
  intro x hx hne
  cases hm : reBlockBegin x with
  | false => rfl
  | true =>
    rcases reBlockBegin_cases hm with rfl | hm
    · exact absurd (suffix_getLast? hx hne).symm h
    · exact absurd (suffix_mem hx hm) ht

theorem re2_hit (s : Str) (ht : '\t' ∉ s) : cutAtFirst reBlockBegin (s ++ [' ', '{']) = s := by
  apply cutAtFirst_hit _ _ rfl
  intro x hx hne
  cases hm : reBlockBegin (x ++ [' ', '{']) with
  | false => rfl
  | true =>
    rcases reBlockBegin_cases hm with h | hm
    · have := congrArg List.length h
      simp at this
      exact absurd this hne
    · simp at hm
      exact absurd (suffix_mem hx hm) ht

theorem re3_id (s : Str) (h : s.getLast? ≠ some ';') :
    cutAtFirst (reStatementEnd [';']) s = s := by
  apply cutAtFirst_id
  intro x hx hne
  cases hm : reStatementEnd [';'] x with
  | false => rfl
  | true =>
    have := reStatementEnd_eq hm
    subst this
    exact absurd (suffix_getLast? hx hne).symm h

theorem re3_hit (s : Str) : cutAtFirst (reStatementEnd [';']) (s ++ [';']) = s := by
  apply cutAtFirst_hit _ _ (by simp [reStatementEnd])
  intro x hx hne
  cases hm : reStatementEnd [';'] (x ++ [';']) with
  | false => rfl
  | true =>
    have := congrArg List.length (reStatementEnd_eq hm)
    simp at this
    exact absurd this hne

theorem re4_id (s : Str) (ht : '\t' ∉ s) (h : s.getLast? ≠ some '}') :
    cutAtFirst reBlockEnd s = s := by
  apply cutAtFirst_id
  intro x hx hne
  cases hm : reBlockEnd x with
  | false => rfl
  | true =>
    rcases reBlockEnd_cases hm with hm | hm
    · exact absurd ((suffix_getLast? hx hne).symm.trans hm) h
    · exact absurd (suffix_mem hx hm) ht

theorem re5_id (e s : Str) (h : hasInfix e s = false) : cutAtFirst (reEolComment e) s = s := by
  apply cutAtFirst_id
  intro x hx _
  cases hm : reEolComment e x with
  | false => rfl
  | true =>
    have := hasInfix_of_suffix e s x hx hm
    simp [h] at this

theorem jf_fields (jf : JunFmt) (hjf : jf = juniperFmt ∨ jf = ribbonFmt ∨ jf = nokiaFmt) :
    jf.reStatementEnd = [';'] ∧ jf.reEolComment = [';', ' ', '#', '#'] ∧
      (jf.statementEnd = [';'] ∨ jf.statementEnd = []) := by
  rcases hjf with rfl | rfl | rfl
  · exact ⟨rfl, rfl, .inl rfl⟩
  · exact ⟨rfl, rfl, .inl rfl⟩
  · exact ⟨rfl, rfl, .inr rfl⟩

/-- what the substitutions need to know about an indented row -/
structure LineOK (s : Str) : Prop where
  tab : '\t' ∉ s
  last : ∃ c, s.getLast? = some c ∧ c ≠ ';' ∧ c ≠ '{' ∧ c ≠ '}'
  eol : hasInfix [';', ' ', '#', '#'] s = false

theorem subRegexs_lineOK (jf : JunFmt) (hjf : jf = juniperFmt ∨ jf = ribbonFmt ∨ jf = nokiaFmt)
    (s : Str) (hs : LineOK s) (e : Str) (he : e = [] ∨ e = blockBegin ∨ e = [';']) :
    subRegexs jf (s ++ e) = s := by
  obtain ⟨h3, h5, _⟩ := jf_fields jf hjf
  obtain ⟨c, hc, c1, c2, c3⟩ := hs.last
  have l1 : s.getLast? ≠ some ';' := by rw [hc]; simpa using c1
  have l2 : s.getLast? ≠ some '{' := by rw [hc]; simpa using c2
  have l3 : s.getLast? ≠ some '}' := by rw [hc]; simpa using c3
  unfold subRegexs
  rw [h3, h5]
  rcases he with rfl | rfl | rfl
  · rw [List.append_nil, re1_id s l3, re2_id s hs.tab l2, re3_id s l1, re4_id s hs.tab l3,
      re5_id _ s hs.eol]
  · rw [show blockBegin = [' ', '{'] from rfl,
      re1_id _ (by rw [List.getLast?_append]; simp), re2_hit s hs.tab,
      re3_id s l1, re4_id s hs.tab l3, re5_id _ s hs.eol]
  · rw [re1_id _ (by rw [List.getLast?_concat]; decide),
      re2_id _ (by simp [hs.tab]) (by rw [List.getLast?_concat]; decide), re3_hit s,
      re4_id s hs.tab l3, re5_id _ s hs.eol]

theorem mem_blanks {c : Char} {n : Nat} (h : c ∈ blanks n) : c = ' ' := by
  unfold blanks at h; exact (List.mem_replicate.1 h).2

theorem hasInfix_blanks (pat : Str) (c : Char) (hc : c ≠ ' ') (r : Str) :
    ∀ n, hasInfix (c :: pat) (blanks n ++ r) = hasInfix (c :: pat) r
  | 0 => by simp [blanks]
  | n + 1 => by
    have : blanks (n + 1) ++ r = ' ' :: (blanks n ++ r) := by simp [blanks, List.replicate_succ]
    rw [this, hasInfix, hasInfix_blanks pat c hc r n]
    simp [hc]


theorem rowBase_facts {r : Str} (hb : rowBase r = true) :
    ∃ c cs, r = c :: cs ∧ pyIsSpace c = false ∧ '\n' ∉ r := by
  unfold rowBase at hb
  cases r with
  | nil => cases hb
  | cons c cs =>
    simp only [Bool.and_eq_true, Bool.not_eq_true', List.contains_eq_mem, decide_eq_false_iff_not] at hb
    exact ⟨c, cs, rfl, hb.1.1.1.1, hb.2⟩

theorem junRowOk_facts {r : Str} (hj : junRowOk r = true) :
    '\t' ∉ r ∧ (∀ c, r.getLast? = some c → c ≠ ';' ∧ c ≠ '{' ∧ c ≠ '}') ∧
      hasInfix [';', ' ', '#', '#'] r = false ∧ commentBegin.isPrefixOf r = false := by
  unfold junRowOk at hj
  simp only [Bool.and_eq_true, Bool.not_eq_true', List.contains_eq_mem, decide_eq_false_iff_not] at hj
  refine ⟨hj.1.1.1, ?_, hj.1.2, hj.2⟩
  intro c hc
  have := hj.1.1.2
  rw [hc] at this
  simpa [and_assoc] using this

theorem lineOK_of_row (n : Nat) (r : Str) (hb : rowBase r = true) (hj : junRowOk r = true) :
    LineOK (blanks n ++ r) := by
  obtain ⟨c, cs, hr, _, _⟩ := rowBase_facts hb
  obtain ⟨h1, h2, h3, _⟩ := junRowOk_facts hj
  refine ⟨?_, ?_, ?_⟩
  · intro h
    rcases List.mem_append.1 h with h | h
    · exact absurd (mem_blanks h) (by decide)
    · exact h1 h
  · have hne : r ≠ [] := by simp [hr]
    refine ⟨r.getLast hne, ?_, h2 _ (List.getLast?_eq_some_getLast hne)⟩
    rw [List.getLast?_append, List.getLast?_eq_some_getLast hne]; rfl
  · rw [hasInfix_blanks _ _ (by decide)]; exact h3

/-- a decorated row line (`row {`, `row;`, or bare `row`) is stripped back to the indented row -/
theorem subRegexs_line (jf : JunFmt) (hjf : jf = juniperFmt ∨ jf = ribbonFmt ∨ jf = nokiaFmt)
    (n : Nat) (r : Str) (hb : rowBase r = true) (hj : junRowOk r = true)
    (e : Str) (he : e = [] ∨ e = blockBegin ∨ e = [';']) :
    subRegexs jf (blanks n ++ r ++ e) = blanks n ++ r :=
  subRegexs_lineOK jf hjf _ (lineOK_of_row n r hb hj) e he

theorem dropWhile_blanks (n : Nat) (r : Str) (h : ∀ c cs, r = c :: cs → pyIsSpace c = false) :
    (blanks n ++ r).dropWhile pyIsSpace = r := by
  induction n with
  | zero =>
    simp only [blanks, List.replicate_zero, List.nil_append]
    cases r with
    | nil => rfl
    | cons c cs => simp [h c cs rfl]
  | succ n ih =>
    have : blanks (n + 1) ++ r = ' ' :: (blanks n ++ r) := by simp [blanks, List.replicate_succ]
    rw [this, List.dropWhile_cons, if_pos (by decide), ih]

/-- a block-end line disappears -/
theorem subRegexs_blockEnd (jf : JunFmt) (hjf : jf = juniperFmt ∨ jf = ribbonFmt ∨ jf = nokiaFmt)
    (n : Nat) : subRegexs jf (blanks n ++ blockEnd) = [] := by
  obtain ⟨h3, h5, _⟩ := jf_fields jf hjf
  have ht : '\t' ∉ blanks n ++ blockEnd := by
    intro h
    rcases List.mem_append.1 h with h | h
    · exact absurd (mem_blanks h) (by decide)
    · exact absurd h (by decide)
  have hl : (blanks n ++ blockEnd).getLast? = some '}' := by
    rw [show blockEnd = ['}'] from rfl, List.getLast?_concat]
  have h4 : reBlockEnd (blanks n ++ blockEnd) = true := by
    unfold reBlockEnd
    rw [dropWhile_blanks n blockEnd (by intro c cs h; cases h; decide)]
    rfl
  unfold subRegexs
  have h1 : cutAtFirst reEmptyBlock (blanks n ++ blockEnd) = blanks n ++ blockEnd := by
    apply cutAtFirst_id
    intro x hx _
    cases hm : reEmptyBlock x with
    | false => rfl
    | true =>
      have hmem : '{' ∈ x := by
        unfold reEmptyBlock at hm
        split at hm
        · simp
        · cases hm
      rcases List.mem_append.1 (suffix_mem hx hmem) with h | h
      · exact absurd (mem_blanks h) (by decide)
      · exact absurd h (by decide)
  rw [h3, h5, h1, re2_id _ ht (by rw [hl]; decide), re3_id _ (by rw [hl]; decide),
    cutAtFirst_all _ _ h4]
  rfl

/-! `_formatted_blocks` line by line -/

/-- an indented well-formed row -/
def Good (s : Str) : Prop := ∃ n r, s = blanks n ++ r ∧ rowBase r = true ∧ junRowOk r = true

/-- what the `split` loop needs from one line of the text -/
def LineP (jf : JunFmt) (l : Str) : Prop := '\n' ∉ l ∧ commentMatch (subRegexs jf l) = false

theorem commentMatch_nil : commentMatch [] = false := rfl

theorem good_comment {s : Str} (hs : Good s) : commentMatch s = false := by
  obtain ⟨n, r, rfl, hb, hj⟩ := hs
  obtain ⟨c, cs, hr, hc, _⟩ := rowBase_facts hb
  obtain ⟨_, _, _, h4⟩ := junRowOk_facts hj
  unfold commentMatch
  simp only []
  rw [dropWhile_blanks n r (by intro c' cs' h; rw [hr] at h; cases h; exact hc), h4]
  simp

theorem dec_line (jf : JunFmt) (hjf : jf = juniperFmt ∨ jf = ribbonFmt ∨ jf = nokiaFmt)
    {s : Str} (hs : Good s) (e : Str) (he : e = [] ∨ e = blockBegin ∨ e = [';']) :
    LineP jf (s ++ e) ∧ subRegexs jf (s ++ e) = s ∧ s ≠ [] := by
  have hc := good_comment hs
  obtain ⟨n, r, rfl, hb, hj⟩ := hs
  have hsub := subRegexs_line jf hjf n r hb hj e he
  obtain ⟨c, cs, hr, _, hnl⟩ := rowBase_facts hb
  refine ⟨⟨?_, ?_⟩, hsub, by simp [hr]⟩
  · intro h
    rcases List.mem_append.1 h with h | h
    · rcases List.mem_append.1 h with h | h
      · exact absurd (mem_blanks h) (by decide)
      · exact hnl h
    · rcases he with rfl | rfl | rfl
      · cases h
      · exact absurd h (by decide)
      · exact absurd h (by decide)
  · rw [hsub]; exact hc

theorem be_line (jf : JunFmt) (hjf : jf = juniperFmt ∨ jf = ribbonFmt ∨ jf = nokiaFmt) (k : Nat) :
    LineP jf (blanks k ++ blockEnd) ∧ subRegexs jf (blanks k ++ blockEnd) = [] := by
  have hsub := subRegexs_blockEnd jf hjf k
  refine ⟨⟨?_, ?_⟩, hsub⟩
  · intro h
    rcases List.mem_append.1 h with h | h
    · exact absurd (mem_blanks h) (by decide)
    · exact absurd h (by decide)
  · rw [hsub]; rfl

theorem stmt_dec (jf : JunFmt) (hjf : jf = juniperFmt ∨ jf = ribbonFmt ∨ jf = nokiaFmt) (b : Bool) :
    let e := (if b then [] else jf.statementEnd)
    e = [] ∨ e = blockBegin ∨ e = [';'] := by
  obtain ⟨_, _, h⟩ := jf_fields jf hjf
  cases b
  · rcases h with h | h <;> simp [h]
  · simp

theorem nonEmpty_nil : nonEmpty [] = [] := rfl
theorem nonEmpty_cons_nil (ls : List Str) : nonEmpty ([] :: ls) = nonEmpty ls := rfl
theorem nonEmpty_cons_ne {l : Str} (h : l ≠ []) (ls : List Str) :
    nonEmpty (l :: ls) = l :: nonEmpty ls := by
  cases l with
  | nil => exact absurd rfl h
  | cons c cs => rfl

theorem junFormatted_spec (jf : JunFmt) (hjf : jf = juniperFmt ∨ jf = ribbonFmt ∨ jf = nokiaFmt)
    (w : Nat) : ∀ (toks : List Tok) (lvl : Int) (pend : Option Str),
    (∀ s, Tok.row s ∈ toks → Good s) → (∀ s, pend = some s → Good s) →
    (∀ l ∈ junFormatted jf (blanks w) lvl pend toks, LineP jf l) ∧
    nonEmpty ((junFormatted jf (blanks w) lvl pend toks).map (subRegexs jf))
      = pend.toList ++ rowsOf toks
  | [], lvl, pend, _, hp => by
    cases pend with
    | none => simp [junFormatted, nonEmpty_nil, rowsOf]
    | some s =>
      obtain ⟨h1, h2, h3⟩ := dec_line jf hjf (hp s rfl) jf.statementEnd (by simpa using stmt_dec jf hjf false)
      simp [junFormatted, rowsOf, h1, h2, nonEmpty_cons_ne h3, nonEmpty_nil]
  | .bb :: r, lvl, pend, ht, hp => by
    have ih := junFormatted_spec jf hjf w r (lvl + 1) none
      (fun s h => ht s (List.mem_cons_of_mem _ h)) (by simp)
    cases pend with
    | none => simpa [junFormatted, rowsOf] using ih
    | some s =>
      obtain ⟨h1, h2, h3⟩ := dec_line jf hjf (hp s rfl) blockBegin (.inr (.inl rfl))
      simp only [junFormatted, rowsOf, List.cons_append, List.nil_append, List.map_cons,
        List.mem_cons, forall_eq_or_imp, h2, nonEmpty_cons_ne h3, Option.toList_some]
      exact ⟨⟨h1, ih.1⟩, by simpa using ih.2⟩
  | .be :: r, lvl, pend, ht, hp => by
    have ih := junFormatted_spec jf hjf w r (lvl - 1) none
      (fun s h => ht s (List.mem_cons_of_mem _ h)) (by simp)
    obtain ⟨b1, b2⟩ := be_line jf hjf (w * (lvl - 1).toNat)
    cases pend with
    | none =>
      simp only [junFormatted, rowsOf, List.nil_append, List.map_cons,
        List.mem_cons, forall_eq_or_imp, strMul_blanks, b2, nonEmpty_cons_nil]
      exact ⟨⟨b1, ih.1⟩, ih.2⟩
    | some s =>
      obtain ⟨h1, h2, h3⟩ := dec_line jf hjf (hp s rfl) _ (stmt_dec jf hjf (commentEnd.isSuffixOf s))
      simp only [junFormatted, rowsOf, List.cons_append, List.nil_append, List.map_cons,
        List.mem_cons, forall_eq_or_imp, strMul_blanks, b2, nonEmpty_cons_nil, h2,
        nonEmpty_cons_ne h3, Option.toList_some]
      exact ⟨⟨h1, b1, ih.1⟩, by simpa using ih.2⟩
  | .row n :: r, lvl, pend, ht, hp => by
    have ih := junFormatted_spec jf hjf w r lvl (some n)
      (fun s h => ht s (List.mem_cons_of_mem _ h))
      (by intro s h; cases h; exact ht _ (List.mem_cons_self ..))
    cases pend with
    | none => simpa [junFormatted, rowsOf] using ih
    | some s =>
      obtain ⟨h1, h2, h3⟩ := dec_line jf hjf (hp s rfl) _ (stmt_dec jf hjf (commentEnd.isSuffixOf s))
      simp only [junFormatted, rowsOf, List.cons_append, List.nil_append, List.map_cons,
        List.mem_cons, forall_eq_or_imp, h2, nonEmpty_cons_ne h3, Option.toList_some]
      exact ⟨⟨h1, ih.1⟩, by simpa using ih.2⟩


/-! the whole text -/

mutual
theorem hasCommentRow_wf : (t : Cfg) → wf (rowOk .juniper) t = true → hasCommentRow t = false
  | .mk ks => by simp only [wf, hasCommentRow]; exact hasCommentRowL_wf ks
theorem hasCommentRowL_wf : (ks : List (String × Cfg)) → wfL (rowOk .juniper) ks = true →
    hasCommentRowL ks = false
  | [] => by simp [hasCommentRowL]
  | (k, c) :: rest => by
    intro h
    simp only [wfL, Bool.and_eq_true] at h
    obtain ⟨⟨⟨h1, _⟩, h3⟩, h4⟩ := h
    have hk : commentBegin.isPrefixOf k.toList = false := by
      simp only [rowOk, Bool.and_eq_true] at h1
      exact (junRowOk_facts h1.2).2.2.2
    simp [hasCommentRowL, hk, hasCommentRow_wf c h3, hasCommentRowL_wf rest h4]
end

theorem junSplitLoop_ok (jf : JunFmt) : ∀ (ls : List Str),
    (∀ l ∈ ls, commentMatch (subRegexs jf l) = false) →
    junSplitLoop jf ls = some (ls.map (subRegexs jf))
  | [], _ => rfl
  | l :: rest, h => by
    have h1 := h l (List.mem_cons_self ..)
    have h2 := junSplitLoop_ok jf rest (fun x hx => h x (List.mem_cons_of_mem _ hx))
    simp [junSplitLoop, h1, h2]

theorem row_mem_rowsOf : ∀ (toks : List Tok) (s : Str), Tok.row s ∈ toks → s ∈ rowsOf toks
  | [], _, h => by cases h
  | .row s' :: r, s, h => by
    rcases List.mem_cons.1 h with h | h
    · cases h; simp [rowsOf]
    · simp [rowsOf, row_mem_rowsOf r s h]
  | .bb :: r, s, h => by
    rcases List.mem_cons.1 h with h | h
    · cases h
    · simpa [rowsOf] using row_mem_rowsOf r s h
  | .be :: r, s, h => by
    rcases List.mem_cons.1 h with h | h
    · cases h
    · simpa [rowsOf] using row_mem_rowsOf r s h

/-- Juniper, Ribbon and Nokia (before the `configure` bounds): `split(join(t))` is the reference rendering -/
theorem jun_split_join (jf : JunFmt) (hjf : jf = juniperFmt ∨ jf = ribbonFmt ∨ jf = nokiaFmt)
    (w : Nat) (hw : 0 < w) (t : Cfg) (h : wf (rowOk .juniper) t = true) :
    ∃ s, junJoin jf (blanks w) t = some s ∧ junSplit jf s = some (render w 0 t) := by
  have _ := hw
  have hrows : rowsOf (indentBlocks (blanks w) 0 (blocks t)) = render w 0 t :=
    rowsOf_indentBlocks_blocks w 0 t
  have hgood : ∀ s, Tok.row s ∈ indentBlocks (blanks w) 0 (blocks t) → Good s := by
    intro s hs
    have hm := row_mem_rowsOf _ s hs
    rw [hrows] at hm
    obtain ⟨n, r, rfl, hr⟩ := mem_render (rowOk .juniper) w 0 t h s hm
    simp only [rowOk, Bool.and_eq_true] at hr
    exact ⟨n, r.toList, rfl, hr.1, hr.2⟩
  obtain ⟨hl, hne⟩ := junFormatted_spec jf hjf w _ 0 none hgood (by simp)
  rw [hrows] at hne
  refine ⟨joinNl (junFormatted jf (blanks w) 0 none (indentBlocks (blanks w) 0 (blocks t))),
    by simp [junJoin, hasCommentRow_wf t h], ?_⟩
  generalize junFormatted jf (blanks w) 0 none (indentBlocks (blanks w) 0 (blocks t)) = L at hl hne
  unfold junSplit
  by_cases hL : L = []
  · subst hL
    simp only [List.map_nil, nonEmpty_nil, Option.toList_none, List.nil_append] at hne
    rw [← hne]
    simp [joinNl, splitNl, junSplitLoop, nonEmpty_cons_nil, nonEmpty_nil, show subRegexs jf [] = [] from rfl]
  · rw [splitNl_joinNl L hL (fun l hl' => (hl l hl').1),
      junSplitLoop_ok jf L (fun l hl' => (hl l hl').2)]
    simpa using hne


/-! Nokia -/

theorem nokiaBounds_none : ∀ (ls : List Str) (i : Nat), (∀ l ∈ ls, l ≠ "configure".toList) →
    nokiaBounds ls i none none = (none, none)
  | [], _, _ => rfl
  | l :: rest, i, h => by
    have h1 : (l == "configure".toList) = false :=
      beq_eq_false_iff_ne.2 (h l (List.mem_cons_self ..))
    have h2 := fun j => nokiaBounds_none rest j (fun x hx => h x (List.mem_cons_of_mem _ hx))
    rw [nokiaBounds]
    simp only [h1, h2, Option.isSome_none, Bool.false_and, Bool.false_eq_true, if_false, ite_self]

mutual
theorem render_deep (w : Nat) (hw : 0 < w) : (d : Nat) → (t : Cfg) → ∀ l ∈ render w (d + 1) t,
    l.head? = some ' '
  | d, .mk ks => by simp only [render]; exact renderL_deep w hw d ks
theorem renderL_deep (w : Nat) (hw : 0 < w) : (d : Nat) → (ks : List (String × Cfg)) →
    ∀ l ∈ renderL w (d + 1) ks, l.head? = some ' '
  | _, [] => by simp [renderL]
  | d, (k, c) :: rest => by
    intro l hl
    simp only [renderL, List.mem_cons, List.mem_append] at hl
    rcases hl with rfl | hl | hl
    · obtain ⟨m, hm⟩ : ∃ m, w * (d + 1) = m + 1 := ⟨w * (d + 1) - 1, by
        have : 0 < w * (d + 1) := Nat.mul_pos hw (Nat.succ_pos d)
        omega⟩
      rw [hm]; simp [blanks, List.replicate_succ]
    · exact render_deep w hw (d + 1) c l hl
    · exact renderL_deep w hw d rest l hl
end

theorem renderL_top (w : Nat) (hw : 0 < w) : ∀ (ks : List (String × Cfg)), ∀ l ∈ renderL w 0 ks,
    (∃ e ∈ ks, l = e.1.toList) ∨ l.head? = some ' '
  | [], l, hl => by simp [renderL] at hl
  | (k, c) :: rest, l, hl => by
    simp only [renderL, List.mem_cons, List.mem_append] at hl
    rcases hl with rfl | hl | hl
    · left; exact ⟨(k, c), List.mem_cons_self .., by simp [blanks]⟩
    · right; exact render_deep w hw 0 c l hl
    · rcases renderL_top w hw rest l hl with ⟨e, he, rfl⟩ | h
      · left; exact ⟨e, List.mem_cons_of_mem _ he, rfl⟩
      · right; exact h

/-- Nokia: without a top-level `configure` row the bounds are the whole list -/
theorem nokia_split_join (w : Nat) (hw : 0 < w) (t : Cfg) (h : WF .nokia t = true) :
    ∃ s, junJoin nokiaFmt (blanks w) t = some s ∧ nokiaSplit nokiaFmt s = some (render w 0 t) := by
  simp only [WF, Bool.and_eq_true, Bool.not_eq_true'] at h
  obtain ⟨h1, h2⟩ := h
  have hwf : wf (rowOk .juniper) t = true := h1
  obtain ⟨s, hs1, hs2⟩ := jun_split_join nokiaFmt (.inr (.inr rfl)) w hw t hwf
  refine ⟨s, hs1, ?_⟩
  have hb : nokiaBounds (render w 0 t) 0 none none = (none, none) := by
    apply nokiaBounds_none
    intro l hl hc
    cases t with
    | mk ks =>
      simp only [render] at hl
      rcases renderL_top w hw ks l hl with ⟨e, he, rfl⟩ | hh
      · have : e.1 = "configure" := String.toList_inj.1 hc
        have : (ks.any fun e => e.1 == "configure") = true :=
          List.any_eq_true.2 ⟨e, he, by simp [this]⟩
        simp [Cfg.kids, this] at h2
      · rw [hc] at hh; revert hh; decide
  simp [nokiaSplit, hs2, hb]

end Annet.FormatSplit.Lemmas
