/-
Helpers for `merge_monotone_partial` (C06): the reverse form of a rule whose row does not begin with the
negation word is `<negation word> <row>`; it can only match a configuration row in negated form.
-/
import AnnetModel.Lemmas.AclMergeDefs
import AnnetModel.Lemmas.Pattern

namespace Annet.Acl.Lemmas
open Annet Annet.Acl Annet.Acl.Spec Annet.Pattern Annet.Offside Annet.Pattern.Lemmas

theorem splitBlank_ne_nil (l : List Char) : splitBlank l ≠ [] := by
  cases l with
  | nil => simp [splitBlank]
  | cons c cs =>
    rw [splitBlank]
    split
    · simp
    · split <;> simp

theorem splitBlank_two {l w w2 : List Char} {ws : List (List Char)} (h : splitBlank l = w :: w2 :: ws) :
    ∃ tl, l = w ++ ' ' :: tl := by
  induction l generalizing w w2 ws with
  | nil => simp [splitBlank] at h
  | cons c cs ih =>
    rw [splitBlank] at h
    split at h
    · rename_i hc
      simp only [List.cons.injEq] at h
      have : c = ' ' := by simpa using hc
      subst this
      exact ⟨cs, by rw [← h.1]; rfl⟩
    · split at h
      · simp at h
      · rename_i w' ws' hs
        simp only [List.cons.injEq] at h
        obtain ⟨rfl, rfl⟩ := h
        obtain ⟨tl, rfl⟩ := ih hs
        exact ⟨tl, rfl⟩

theorem splitBlank_word (pre rest : List Char) (hpre : ∀ c ∈ pre, c ≠ ' ') :
    splitBlank (pre ++ ' ' :: rest) = pre :: splitBlank rest := by
  induction pre with
  | nil => simp [splitBlank]
  | cons c cs ih =>
    have hc : (c == ' ') = false := by simpa using hpre c (List.mem_cons_self ..)
    rw [List.cons_append, splitBlank, hc, ih (fun d hd => hpre d (List.mem_cons_of_mem _ hd))]
    simp

theorem negate_of_noPrefix (pre row : List Char) (h : (pre ++ [' ']).isPrefixOf row = false) :
    joinWords (negate pre (splitBlank row)) = pre ++ ' ' :: joinWords (splitBlank row) := by
  have hs : startsWithPrefix pre (splitBlank row) = false := by
    cases hsp : startsWithPrefix pre (splitBlank row) with
    | false => rfl
    | true =>
      exfalso
      unfold startsWithPrefix at hsp
      split at hsp
      · rename_i w w2 ws hw
        obtain ⟨tl, rfl⟩ := splitBlank_two hw
        have : w = pre := by simpa using hsp
        subst this
        have : (w ++ [' ']).isPrefixOf (w ++ ' ' :: tl) = true := by
          rw [List.isPrefixOf_iff_prefix]
          exact ⟨tl, by simp⟩
        rw [this] at h; cases h
      · cases hsp
  rw [negate, hs]
  simp only [Bool.false_eq_true, if_false]
  exact joinWords_cons_ne pre (splitBlank_ne_nil row)

theorem removeIcaseAux_word (pre rest : List Char) (hpre : ∀ c ∈ pre, c ≠ '(') :
    removeIcaseAux 0 (pre ++ ' ' :: rest) = pre ++ ' ' :: removeIcaseAux 0 rest := by
  induction pre with
  | nil =>
    simp only [List.nil_append]
    rw [removeIcaseAux]
    simp [List.isPrefixOf]
  | cons c cs ih =>
    have hc : c ≠ '(' := hpre c (List.mem_cons_self ..)
    rw [List.cons_append, removeIcaseAux]
    have : "(?i)".toList.isPrefixOf (c :: (cs ++ ' ' :: rest)) = false := by
      show ['(', '?', 'i', ')'].isPrefixOf (c :: (cs ++ ' ' :: rest)) = false
      simp [List.isPrefixOf, Ne.symm hc]
    rw [this]
    simp only [Bool.false_eq_true, if_false]
    rw [ih (fun d hd => hpre d (List.mem_cons_of_mem _ hd))]
    rfl

theorem dropLast3_word (pre rest : List Char) (h : "...".toList.isSuffixOf (pre ++ ' ' :: rest) = true) :
    ∃ rest', dropLast3 (pre ++ ' ' :: rest) = pre ++ ' ' :: rest' := by
  rw [List.isSuffixOf_iff_suffix] at h
  obtain ⟨s, hs⟩ := h
  have hd : dropLast3 (pre ++ ' ' :: rest) = s := by
    unfold dropLast3
    rw [← hs]
    simp
  rw [hd]
  rcases List.append_eq_append_iff.1 hs with ⟨a', h1, h2⟩ | ⟨c', h1, h2⟩
  · exfalso
    have : ' ' ∈ "...".toList := by
      rw [h2]; simp
    exact absurd this (by decide)
  · cases c' with
    | nil =>
      exfalso
      have : ' ' ∈ "...".toList := by
        simp only [List.nil_append] at h2; rw [← h2]; exact List.mem_cons_self ..
      exact absurd this (by decide)
    | cons d c'' =>
      simp only [List.cons_append, List.cons.injEq] at h2
      exact ⟨c'', by rw [h1, ← h2.1]⟩

theorem parseRow_toks {row : List Char} {p : Pat} (hp : parseRow false row = some p) :
    ∃ row2, (row2 = removeIcase row ∨
        ("...".toList.isSuffixOf (removeIcase row) = true ∧ row2 = dropLast3 (removeIcase row))) ∧
      wordsToToks (splitBlank row2) = some p.toks := by
  unfold parseRow at hp
  simp only [Bool.false_eq_true, if_false] at hp
  by_cases hell : "...".toList.isSuffixOf (removeIcase row) = true
  · simp only [hell, if_true] at hp
    split at hp
    · cases hp
    · rw [Option.map_eq_some_iff] at hp
      obtain ⟨ts, hts, rfl⟩ := hp
      exact ⟨_, .inr ⟨hell, rfl⟩, hts⟩
  · simp only [hell, Bool.false_eq_true, if_false] at hp
    split at hp
    · cases hp
    · rw [Option.map_eq_some_iff] at hp
      obtain ⟨ts, hts, rfl⟩ := hp
      exact ⟨_, .inl rfl, hts⟩

theorem wordToTok_plain {pre : List Char} (hw : plainWord pre = true) (b : Bool) :
    wordToTok b pre = some (.lit pre) := by
  simp only [plainWord, Bool.and_eq_true, Bool.not_eq_true', List.any_eq_false] at hw
  obtain ⟨⟨hne, hmeta⟩, _⟩ := hw
  unfold wordToTok
  have h1 : (pre == ['*']) = false := by
    apply Bool.eq_false_iff.2
    intro he
    have : pre = ['*'] := by simpa using he
    subst this
    exact absurd (hmeta '*' (List.mem_cons_self ..)) (by decide)
  have h2 : (pre == ['~']) = false := by
    apply Bool.eq_false_iff.2
    intro he
    have : pre = ['~'] := by simpa using he
    subst this
    exact absurd (hmeta '~' (List.mem_cons_self ..)) (by decide)
  have h3 : (pre.isEmpty || pre.any isMeta) = false := by
    rw [hne]; simp only [Bool.false_or, List.any_eq_false]
    intro c hc; simp [hmeta c hc]
  simp [h1, h2, h3]

theorem wordsToToks_ne_nil {w : List Char} {ws : List (List Char)} {ts : List Tok}
    (h : wordsToToks (w :: ws) = some ts) : ts ≠ [] := by
  cases ws with
  | nil =>
    rw [wordsToToks] at h
    cases hh : wordToTok true w <;> simp [hh] at h
    subst h; simp
  | cons w2 ws2 =>
    rw [wordsToToks.eq_3 _ _ (by simp)] at h
    cases hh : wordToTok false w <;> simp [hh] at h
    cases hh2 : wordsToToks (w2 :: ws2) <;> simp [hh2] at h
    subst h; simp

/-- the tokens of `<word> <rest>` for a plain literal word: the literal, then at least one more token -/
theorem parseRow_word (pre rest : List Char) (hw : plainWord pre = true) (p : Pat)
    (hp : parseRow false (pre ++ ' ' :: rest) = some p) : ∃ t ts, p.toks = .lit pre :: t :: ts := by
  have hw' := hw
  simp only [plainWord, Bool.and_eq_true, Bool.not_eq_true', List.any_eq_false] at hw'
  obtain ⟨⟨hne, hmeta⟩, hsp⟩ := hw'
  have hparen : ∀ c ∈ pre, c ≠ '(' := by
    intro c hc heq; subst heq
    exact absurd (hmeta _ hc) (by decide)
  have hblank : ∀ c ∈ pre, c ≠ ' ' := by
    intro c hc heq; subst heq
    exact absurd (hsp _ hc) (by decide)
  obtain ⟨row2, hrow2, hts⟩ := parseRow_toks hp
  have h2 : ∃ rest2, row2 = pre ++ ' ' :: rest2 := by
    unfold removeIcase at hrow2
    rw [removeIcaseAux_word pre rest hparen] at hrow2
    rcases hrow2 with h | ⟨hs, h⟩
    · exact ⟨_, h⟩
    · rw [h]; exact dropLast3_word pre _ hs
  obtain ⟨rest2, rfl⟩ := h2
  rw [splitBlank_word pre rest2 hblank] at hts
  cases hs : splitBlank rest2 with
  | nil => exact absurd hs (splitBlank_ne_nil _)
  | cons w ws =>
    rw [hs, wordsToToks.eq_3 _ _ (by simp), wordToTok_plain hw] at hts
    cases hts' : wordsToToks (w :: ws) with
    | none => rw [hts'] at hts; simp at hts
    | some ts' =>
      rw [hts'] at hts
      have hne' := wordsToToks_ne_nil hts'
      cases ts' with
      | nil => exact absurd rfl hne'
      | cons t ts =>
        refine ⟨t, ts, ?_⟩
        have : some (Tok.lit pre :: t :: ts) = some p.toks := by simpa using hts
        exact (Option.some.inj this).symm

/-- a pattern `lit pre :: t :: ts` matches only rows that begin with `pre` followed by whitespace -/
theorem match_lit_first {ic ell : Bool} {pre : List Char} {t : Tok} {ts : List Tok} {row : List Char}
    (h : (matchToks ic ell (.lit pre :: t :: ts) row).isSome = true) :
    ∃ c rest, stripLit true pre row = some (c :: rest) ∧ pyIsSpace c = true := by
  rw [matchToks] at h
  simp only [matchOne] at h
  cases hs : stripLit ic pre row with
  | none => simp [hs] at h
  | some r =>
    simp only [hs, Option.map_some] at h
    cases hsep : sep r with
    | none => simp [hsep] at h
    | some r2 =>
      have hs' : stripLit true pre row = some r := by
        cases ic with
        | true => exact hs
        | false => exact stripLit_false_true hs
      unfold sep at hsep
      cases r with
      | nil => simp at hsep
      | cons c rest =>
        simp only at hsep
        split at hsep
        · rename_i hc; exact ⟨c, rest, hs', hc⟩
        · cases hsep

/-- the reverse form of a rule whose row does not begin with the negation word matches only
configuration rows in negated form -/
theorem reversePat_match (v : Vendor) (hw : plainWord v.reverse.toList = true) (x : Rule)
    (hn : (v.reverse ++ " ").toList.isPrefixOf x.row.toList = false) (p : Pat)
    (hp : reversePat v x = some p) (row : List Char) (hm : (p.match? row).isSome = true) :
    ∃ c rest, stripLit true v.reverse.toList row = some (c :: rest) ∧ pyIsSpace c = true := by
  unfold reversePat at hp
  have hn' : (v.reverse.toList ++ [' ']).isPrefixOf x.row.toList = false := by
    rw [← hn, String.toList_append]; rfl
  rw [negate_of_noPrefix _ _ hn'] at hp
  obtain ⟨t, ts, htoks⟩ := parseRow_word _ _ hw p hp
  unfold Pat.match? at hm
  rw [htoks] at hm
  exact match_lit_first hm

end Annet.Acl.Lemmas
