/-
Helper lemmas for C10, part 6: the lines of the parsed tree (`insertPath`, `treeOfStacks`), empty rows, and the
layout theorem for generator programs.
-/
import AnnetModel.Lemmas.GenText
import AnnetModel.Lemmas.GenMerge

namespace Annet.Gen.Lemmas
open Annet Annet.Offside Annet.Offside.Lemmas Annet.Gen.Spec

/-! ### paths of `insertPath` -/

theorem prefix_cons_iff {k : String} {rest : List String} {k' : String} {q' : List String} :
    (k' :: q') <+: (k :: rest) ↔ k' = k ∧ q' <+: rest := by
  constructor
  · rintro ⟨t, ht⟩
    simp only [List.cons_append, List.cons.injEq] at ht
    exact ⟨ht.1, ⟨t, ht.2⟩⟩
  · rintro ⟨rfl, ⟨t, ht⟩⟩
    exact ⟨t, by simp [ht]⟩

theorem mem_paths_insertPath : (p : List String) → (t : Cfg) → ∀ q,
    q ∈ (Cfg.insertPath p t).paths ↔ q ∈ t.paths ∨ (q ≠ [] ∧ q <+: p)
  | [], t, q => by
    rw [Cfg.insertPath]
    constructor
    · exact .inl
    · rintro (h | ⟨h1, h2⟩)
      · exact h
      · exact (h1 (List.prefix_nil.1 h2)).elim
  | k :: rest, .mk ks, q => by
    rw [Cfg.insertPath]
    by_cases hk : Cfg.hasKey ks k = true
    · rw [if_pos hk]
      simp only [Cfg.paths, mem_pathsList, List.mem_map]
      obtain ⟨e0, he0, hke0⟩ := List.any_eq_true.1 hk
      simp only [beq_iff_eq] at hke0
      constructor
      · rintro ⟨k', c', ⟨e, he, heq⟩, hq⟩
        by_cases hek : (e.1 == k) = true
        · rw [if_pos hek] at heq
          simp only [beq_iff_eq] at hek
          obtain ⟨h1, h2⟩ := Prod.mk.inj heq
          subst h1 h2
          rcases hq with rfl | ⟨q', hq', rfl⟩
          · exact .inl ⟨e.1, e.2, he, .inl rfl⟩
          · rcases (mem_paths_insertPath rest e.2 q').1 hq' with h | ⟨h1, h2⟩
            · exact .inl ⟨e.1, e.2, he, .inr ⟨q', h, rfl⟩⟩
            · exact .inr ⟨by simp, prefix_cons_iff.2 ⟨hek, h2⟩⟩
        · rw [if_neg hek] at heq
          subst heq
          exact .inl ⟨k', c', he, hq⟩
      · rintro (⟨k', c', hm, hq⟩ | ⟨h1, h2⟩)
        · by_cases hek : (k' == k) = true
          · refine ⟨k', Cfg.insertPath rest c', ⟨(k', c'), hm, by simp only [hek, if_true]⟩, ?_⟩
            rcases hq with rfl | ⟨q', hq', rfl⟩
            · exact .inl rfl
            · exact .inr ⟨q', (mem_paths_insertPath rest c' q').2 (.inl hq'), rfl⟩
          · exact ⟨k', c', ⟨(k', c'), hm, by simp only [hek, Bool.false_eq_true, if_false]⟩, hq⟩
        · cases q with
          | nil => exact (h1 rfl).elim
          | cons k' q' =>
            obtain ⟨rfl, hp⟩ := prefix_cons_iff.1 h2
            refine ⟨e0.1, Cfg.insertPath rest e0.2, ⟨e0, he0, by simp [hke0]⟩, ?_⟩
            by_cases hq' : q' = []
            · subst hq'; exact .inl (by rw [hke0])
            · exact .inr ⟨q', (mem_paths_insertPath rest e0.2 q').2 (.inr ⟨hq', hp⟩), by rw [hke0]⟩
    · rw [if_neg hk]
      simp only [Cfg.paths, pathsList_append, List.mem_append, mem_pathsList, List.mem_singleton]
      constructor
      · rintro (h | ⟨k', c', heq, hq⟩)
        · exact .inl h
        · obtain ⟨h1, h2⟩ := Prod.mk.inj heq
          subst h1 h2
          rcases hq with rfl | ⟨q', hq', rfl⟩
          · exact .inr ⟨by simp, prefix_cons_iff.2 ⟨rfl, List.nil_prefix⟩⟩
          · rcases (mem_paths_insertPath rest Cfg.empty q').1 hq' with h | ⟨h1, h2⟩
            · simp [Cfg.empty, Cfg.paths, Cfg.pathsList] at h
            · exact .inr ⟨by simp, prefix_cons_iff.2 ⟨rfl, h2⟩⟩
      · rintro (h | ⟨h1, h2⟩)
        · exact .inl h
        · cases q with
          | nil => exact (h1 rfl).elim
          | cons k' q' =>
            obtain ⟨rfl, hp⟩ := prefix_cons_iff.1 h2
            refine .inr ⟨k', Cfg.insertPath rest Cfg.empty, rfl, ?_⟩
            by_cases hq' : q' = []
            · subst hq'; exact .inl rfl
            · exact .inr ⟨q', (mem_paths_insertPath rest Cfg.empty q').2 (.inr ⟨hq', hp⟩), rfl⟩

/-- the lines of the parsed tree are the non-empty prefixes of the parser's stacks -/
theorem mem_paths_treeOfStacks (ss : List (List String)) (q : List String) :
    q ∈ (treeOfStacks ss).paths ↔ q ≠ [] ∧ ∃ s ∈ ss, q <+: s := by
  have : ∀ (ss : List (List String)) (t : Cfg),
      q ∈ (ss.foldl (fun t p => Cfg.insertPath p t) t).paths ↔ q ∈ t.paths ∨ (q ≠ [] ∧ ∃ s ∈ ss, q <+: s) := by
    intro ss
    induction ss with
    | nil => intro t; simp
    | cons p rest ih =>
      intro t
      rw [List.foldl_cons, ih, mem_paths_insertPath]
      constructor
      · rintro ((h | ⟨h1, h2⟩) | ⟨h1, s, hs, h2⟩)
        · exact .inl h
        · exact .inr ⟨h1, p, List.mem_cons_self, h2⟩
        · exact .inr ⟨h1, s, List.mem_cons_of_mem _ hs, h2⟩
      · rintro (h | ⟨h1, s, hs, h2⟩)
        · exact .inl (.inl h)
        · rcases List.mem_cons.1 hs with rfl | hs
          · exact .inl (.inr ⟨h1, h2⟩)
          · exact .inr ⟨h1, s, hs, h2⟩
  rw [treeOfStacks, this ss Cfg.empty]
  simp [Cfg.empty, Cfg.paths, Cfg.pathsList]

/-! ### empty rows are dropped by the splitter and ignored by the parser -/

theorem classify_empty : classify comments "" = .blank := by
  simp [classify, String.toList_empty, startsWith, strip, lstrip]

theorem filter_map_filter {α β : Type} (p : α → Bool) (f : α → β) (q : β → Bool) (l : List α)
    (h : ∀ x ∈ l, p x = false → q (f x) = false) :
    ((l.filter p).map f).filter q = (l.map f).filter q := by
  induction l with
  | nil => rfl
  | cons x xs ih =>
    have ih' := ih (fun y hy => h y (List.mem_cons_of_mem _ hy))
    cases hp : p x with
    | true => simp only [List.filter_cons, hp, if_true, List.map_cons]; rw [ih']
    | false =>
      have := h x List.mem_cons_self hp
      simp only [List.filter_cons, hp, Bool.false_eq_true, if_false, List.map_cons, this, ih']

theorem stacks_split_common (rows : List String) :
    (stacks ((split .common rows).map (classify comments))).toOption =
      (stacks (rows.map (classify comments))).toOption := by
  rw [← blank_ignored, ← blank_ignored (rows.map (classify comments)), split]
  congr 2
  apply filter_map_filter
  intro r _ hr
  simp only [Bool.not_eq_eq_eq_not, Bool.not_false] at hr
  rw [String.isEmpty_iff.1 hr, classify_empty]
  simp

theorem parseToTree_toOption (lines : List String) :
    (parseToTree comments lines).toOption = ((stacks (lines.map (classify comments))).toOption).map treeOfStacks := by
  rw [parseToTree, parseItems]
  cases stacks (lines.map (classify comments)) <;> rfl

/-- **C10, where lines go.**  A program whose layout is well formed runs without raising, and its output parses to
the tree of its specified paths (or is refused iff some yield is inconsistently indented in itself). -/
theorem yield_paths (ops : List Op) (prog : List LOp) (hl : toLayoutL ops = some prog) (hw : WFL prog = true) :
    ∃ rows, runGen ops = some rows ∧
      (parseToTree comments (split .common rows)).toOption = (specPathsL [] prog).map treeOfStacks := by
  obtain ⟨rows, hr, hrows⟩ := run_layout_ops ops [] prog hl hw indsOk_nil
  refine ⟨rows, hr, ?_⟩
  rw [parseToTree_toOption, stacks_split_common, hrows]
  have : width [] = 0 := by simp [width, concatStr]
  rw [this, layout_stacks prog hw]

end Annet.Gen.Lemmas
