/-
Linearisation link for C01 stage 2: executing a patch tree structurally (`applyTree`, Spec/ConvergeNested.lean)
is the same as sending the device (`Device.applyCmds` / `Device.execPath`, Spec/Device.lean) the command paths a
block-exit formatter produces for the tree.

`treePaths exit t` is the reference linearisation: for each item in order the path `[row]`; for a block item then
the paths of the child tree, each prefixed with `row`, then `[row, exit]` — the shape
`CommonFormatter.cmd_paths` yields for a `BlockExitFormatter` whose exit statement is `exit`
(`Format.cmdPathsAux` on `row, bb, …children…, be, bb, exit, be`) when no path repeats.

Main results
* `applyCmds_treePaths`: under `PathOKT env exit rules t` (no command of the tree is a line of a `%rewrite` rule
  at its level, the row of every block item is a proper line — not an exit word, not the negation of a known row —
  and the same recursively with the child rules) and `exit ∈ env.exits`:
  `applyCmds env rules (treePaths exit t) dev = .mk (applyTree env rules t dev.kids)` — equality of device states.
* `pipeline_pathOK`: under the hypotheses of `nested_converges`, the patch tree of the pipeline satisfies `PathOKT`.
* `nested_converges_paths`: `nested_converges` restated for the path-based device.
-/
import AnnetModel.Lemmas.ConvergeNested

namespace Annet.ConvergeNested.Lemmas

section
open Annet Annet.Rules Annet.Device Annet.Device.Abs Annet.Converge Annet.ConvergeNested
open Annet.Converge.Lemmas Annet.Device.Lemmas
open Annet.Patch

/-! ### the reference linearisation -/

-- `treePaths` / `itemsPaths` are defined in Spec/ConvergeNested.lean (the driver evaluates them for the tie)

mutual
  /-- what the link needs of a tree at a rules level -/
  def PathOKT (env : Env) (exit : String) : PRules → PTree → Prop
    | rules, .mk items => PathOKL env exit rules items
  def PathOKL (env : Env) (exit : String) : PRules → List (String × Option PTree × SortKey) → Prop
    | _, [] => True
    | rules, (row, none, _) :: rest => isRewriteCmd rules row = false ∧ PathOKL env exit rules rest
    | rules, (row, some t, _) :: rest =>
      (isRewriteCmd rules row = false ∧ ¬ env.exits.contains row = true ∧
        ((stripReverse env row).bind fun r' => slotOf rules r') = none ∧
        (match classify rules row with
          | some (_, cr) => isRewriteCmd cr exit = false ∧ PathOKT env exit cr t
          | none => True)) ∧
      PathOKL env exit rules rest
end

theorem itemsPaths_ne_nil (exit : String) : ∀ (items : List (String × Option PTree × SortKey)),
    ∀ p ∈ itemsPaths exit items, p ≠ []
  | [], p, h => by rw [itemsPaths] at h; cases h
  | (row, none, k) :: rest, p, h => by
    rw [itemsPaths] at h
    rcases List.mem_cons.1 h with rfl | h
    · simp
    · exact itemsPaths_ne_nil exit rest p h
  | (row, some t, k) :: rest, p, h => by
    rw [itemsPaths] at h
    rcases List.mem_cons.1 h with rfl | h
    · simp
    · rcases List.mem_append.1 h with h | h
      · obtain ⟨q, -, rfl⟩ := List.mem_map.1 h
        simp
      · rcases List.mem_cons.1 h with rfl | h
        · simp
        · exact itemsPaths_ne_nil exit rest p h

theorem treePaths_ne_nil (exit : String) (t : PTree) : ∀ p ∈ treePaths exit t, p ≠ [] := by
  obtain ⟨items⟩ := t
  rw [treePaths]
  exact itemsPaths_ne_nil exit items

/-! ### `descend` -/

theorem descend_pure (f : List (String × Cfg) → List (String × Cfg)) (c : String) :
    ∀ (l : List (String × Cfg)) (v : Visited),
    descend (fun v ch => (f ch, v)) c l v = (inBlock f c l, v)
  | [], v => rfl
  | (row, .mk ch) :: more, v => by
    rw [descend, inBlock]
    by_cases h : (row == c) = true
    · rw [if_pos h, if_pos h]
    · rw [if_neg h, if_neg h, descend_pure f c more v]

theorem inBlock_id (c : String) : ∀ (l : List (String × Cfg)), inBlock (fun ch => ch) c l = l
  | [] => rfl
  | (row, .mk ch) :: more => by
    rw [inBlock]
    split
    · rfl
    · rw [inBlock_id c more]

theorem inBlock_comp (f g : List (String × Cfg) → List (String × Cfg)) (c : String) :
    ∀ (l : List (String × Cfg)), inBlock g c (inBlock f c l) = inBlock (fun ch => g (f ch)) c l
  | [] => rfl
  | (row, .mk ch) :: more => by
    rw [inBlock, inBlock]
    by_cases h : (row == c) = true
    · rw [if_pos h, if_pos h, inBlock, if_pos h]
    · rw [if_neg h, if_neg h, inBlock, if_neg h, inBlock_comp f g c more]

/-! ### `putLine` on a level that already holds the line -/

/-- the level holds the line `c` and no other line of its slot -/
def Settled (rules : PRules) (m : PMatch) (c : String) (rows : List String) : Prop :=
  c ∈ rows ∧ ∀ r ∈ rows, r = c ∨ sameSlot rules m r = false

theorem putLine_settled (rules : PRules) (m : PMatch) (c : String) (kids : List (String × Cfg))
    (h : Settled rules m c (kids.map (·.1))) : putLine rules m c kids = kids := by
  obtain ⟨h1, h2⟩ := h
  unfold putLine
  have hany : kids.any (fun e => e.1 == c) = true := by
    obtain ⟨e, he, hc⟩ := List.mem_map.1 h1
    exact List.any_eq_true.2 ⟨e, he, by simp [hc]⟩
  rw [if_pos hany, List.filter_eq_self]
  intro e he
  rcases h2 e.1 (List.mem_map_of_mem he) with h | h
  · simp [h]
  · simp [h]

theorem rf_rows (rules : PRules) (m : PMatch) (c : String) : ∀ (done : Bool) (l : List (String × Cfg)),
    ∀ r ∈ (replaceFirst rules m c done l).map (·.1), r = c ∨ sameSlot rules m r = false
  | _, [], r, h => by simp [replaceFirst] at h
  | done, e :: rest, r, h => by
    rw [replaceFirst] at h
    cases hs : sameSlot rules m e.1 with
    | true =>
      rw [hs] at h
      simp only [if_true] at h
      cases done with
      | true => exact rf_rows rules m c true rest r (by simpa using h)
      | false =>
        simp only [Bool.false_eq_true, if_false, List.map_cons, List.mem_cons] at h
        rcases h with h | h
        · exact Or.inl h
        · exact rf_rows rules m c true rest r h
    | false =>
      rw [hs] at h
      simp only [Bool.false_eq_true, if_false, List.map_cons, List.mem_cons] at h
      rcases h with h | h
      · rw [h]; exact Or.inr hs
      · exact rf_rows rules m c done rest r h

theorem rf_has (rules : PRules) (m : PMatch) (c : String) : ∀ (l : List (String × Cfg)),
    l.any (fun e => sameSlot rules m e.1) = true → c ∈ (replaceFirst rules m c false l).map (·.1)
  | [], h => by simp at h
  | e :: rest, h => by
    rw [replaceFirst]
    cases hs : sameSlot rules m e.1 with
    | true => simp
    | false =>
      simp only [Bool.false_eq_true, if_false, List.map_cons, List.mem_cons]
      right
      apply rf_has rules m c rest
      simpa [hs] using h

theorem putLine_settles (rules : PRules) (m : PMatch) (c : String) (kids : List (String × Cfg)) :
    Settled rules m c ((putLine rules m c kids).map (·.1)) := by
  unfold putLine
  by_cases h1 : kids.any (fun e => e.1 == c) = true
  · rw [if_pos h1]
    obtain ⟨e0, he0, hec⟩ := List.any_eq_true.1 h1
    rw [beq_iff_eq] at hec
    constructor
    · apply List.mem_map.2
      exact ⟨e0, List.mem_filter.2 ⟨he0, by simp [hec]⟩, hec⟩
    · intro r hr
      obtain ⟨e, he, rfl⟩ := List.mem_map.1 hr
      have := (List.mem_filter.1 he).2
      simp only [Bool.or_eq_true, beq_iff_eq, Bool.not_eq_true'] at this
      exact this
  · rw [if_neg h1]
    by_cases h2 : kids.any (fun e => sameSlot rules m e.1) = true
    · rw [if_pos h2]
      exact ⟨rf_has rules m c kids h2, rf_rows rules m c false kids⟩
    · rw [if_neg h2]
      constructor
      · simp
      · intro r hr
        simp only [List.map_append, List.map_cons, List.map_nil, List.mem_append, List.mem_singleton] at hr
        rcases hr with hr | hr
        · obtain ⟨e, he, rfl⟩ := List.mem_map.1 hr
          right
          cases hs : sameSlot rules m e.1 with
          | false => rfl
          | true => exact (h2 (List.any_eq_true.2 ⟨e, he, hs⟩)).elim
        · exact Or.inl hr


theorem descend_rows (inner : Visited → List (String × Cfg) → List (String × Cfg) × Visited) (c : String) :
    ∀ (l : List (String × Cfg)) (v : Visited), (descend inner c l v).1.map (·.1) = l.map (·.1)
  | [], v => rfl
  | (row, .mk ch) :: more, v => by
    rw [descend]
    split
    · rfl
    · simp only [List.map_cons]
      rw [descend_rows inner c more v]

theorem descend_comp (f g : Visited → List (String × Cfg) → List (String × Cfg) × Visited) (c : String) :
    ∀ (l : List (String × Cfg)) (v : Visited),
    descend g c (descend f c l v).1 (descend f c l v).2 =
      descend (fun v ch => g (f v ch).2 (f v ch).1) c l v
  | [], v => rfl
  | (row, .mk ch) :: more, v => by
    by_cases h : (row == c) = true
    · simp only [descend, if_pos h]
    · have ih := descend_comp f g c more v
      simp only [descend, if_neg h]
      rw [ih]

/-! ### executing paths -/

/-- execute a list of paths at one level, threading the visited set -/
def runPaths (env : Env) (rules : PRules) (here : List String) (paths : List (List String))
    (st : List (String × Cfg) × Visited) : List (String × Cfg) × Visited :=
  paths.foldl (fun st p => execPath env p rules here st.2 st.1) st

theorem runPaths_nil (env : Env) (rules : PRules) (here : List String) (st : List (String × Cfg) × Visited) :
    runPaths env rules here [] st = st := rfl

theorem runPaths_cons (env : Env) (rules : PRules) (here : List String) (p : List String)
    (ps : List (List String)) (st : List (String × Cfg) × Visited) :
    runPaths env rules here (p :: ps) st = runPaths env rules here ps (execPath env p rules here st.2 st.1) := rfl

theorem runPaths_append (env : Env) (rules : PRules) (here : List String) (a b : List (List String))
    (st : List (String × Cfg) × Visited) :
    runPaths env rules here (a ++ b) st = runPaths env rules here b (runPaths env rules here a st) := by
  simp [runPaths, List.foldl_append]

theorem execPath_leaf (env : Env) (rules : PRules) (here : List String) (vis : Visited)
    (kids : List (String × Cfg)) (c : String) (h : isRewriteCmd rules c = false) :
    execPath env [c] rules here vis kids = (execLeaf env rules c kids, vis) := by
  simp [execPath, h]

theorem execPath_block (env : Env) (rules : PRules) (here : List String) (vis : Visited)
    (kids : List (String × Cfg)) (c : String) (p : List String) (hp : p ≠ []) {m : PMatch} {cr : PRules}
    (hcl : classify rules c = some (m, cr)) (h : isRewriteCmd rules c = false) :
    execPath env (c :: p) rules here vis kids =
      descend (fun v ch => execPath env p cr (here ++ [c]) v ch) c (putLine rules m c kids) vis := by
  cases p with
  | nil => exact (hp rfl).elim
  | cons c2 rest =>
    have hl : (m.attrs.logic == "common.rewrite") = false := by
      simpa [isRewriteCmd, hcl] using h
    simp [execPath, hcl, hl]

theorem execPath_none (env : Env) (rules : PRules) (here : List String) (vis : Visited)
    (kids : List (String × Cfg)) (c : String) (p : List String) (hp : p ≠ [])
    (hcl : classify rules c = none) : execPath env (c :: p) rules here vis kids = (kids, vis) := by
  cases p with
  | nil => exact (hp rfl).elim
  | cons c2 rest => simp [execPath, hcl]

theorem runPaths_none (env : Env) (rules : PRules) (here : List String) (c : String)
    (hcl : classify rules c = none) : ∀ (ps : List (List String)), (∀ p ∈ ps, p ≠ []) →
    ∀ st, runPaths env rules here (ps.map (c :: ·)) st = st
  | [], _, st => rfl
  | p :: ps, h, st => by
    rw [List.map_cons, runPaths_cons, execPath_none env rules here _ _ c p (h p List.mem_cons_self) hcl]
    exact runPaths_none env rules here c hcl ps (fun q hq => h q (List.mem_cons_of_mem _ hq)) _

/-- the paths below a block, executed one by one, are the paths executed inside the block -/
theorem runPaths_block (env : Env) (rules : PRules) (here : List String) (c : String) {m : PMatch} {cr : PRules}
    (hcl : classify rules c = some (m, cr)) (hrw : isRewriteCmd rules c = false) :
    ∀ (ps : List (List String)), (∀ p ∈ ps, p ≠ []) → ∀ (K : List (String × Cfg)) (vis : Visited),
    Settled rules m c (K.map (·.1)) →
    runPaths env rules here (ps.map (c :: ·)) (K, vis) =
      descend (fun v ch => runPaths env cr (here ++ [c]) ps (ch, v)) c K vis
  | [], _, K, vis, _ => by
    have : (fun (v : Visited) (ch : List (String × Cfg)) => runPaths env cr (here ++ [c]) [] (ch, v)) =
        fun v ch => ((fun x => x) ch, v) := rfl
    rw [List.map_nil, runPaths_nil, this, descend_pure, inBlock_id]
  | p :: ps, h, K, vis, hK => by
    rw [List.map_cons, runPaths_cons]
    simp only
    rw [execPath_block env rules here vis K c p (h p List.mem_cons_self) hcl hrw, putLine_settled rules m c K hK]
    have hK' : Settled rules m c ((descend (fun v ch => execPath env p cr (here ++ [c]) v ch) c K vis).1.map (·.1)) := by
      rw [descend_rows]; exact hK
    have ih := runPaths_block env rules here c hcl hrw ps (fun q hq => h q (List.mem_cons_of_mem _ hq))
      (descend (fun v ch => execPath env p cr (here ++ [c]) v ch) c K vis).1
      (descend (fun v ch => execPath env p cr (here ++ [c]) v ch) c K vis).2 hK'
    rw [ih, descend_comp]
    rfl


/-! ### the link -/

theorem execLeaf_unknown (env : Env) (rules : PRules) (c : String) (kids : List (String × Cfg))
    (hne : ¬ env.exits.contains c = true)
    (hnr : ((stripReverse env c).bind fun r' => slotOf rules r') = none)
    (hcl : classify rules c = none) : execLeaf env rules c kids = kids := by
  have h : ((stripReverse env c).bind fun r' => (classify rules r').map fun mc => mc.1) = none := by
    cases hs : stripReverse env c with
    | none => rfl
    | some r' =>
      rw [hs] at hnr
      simp [slotOf] at hnr ⊢
      exact hnr
  unfold execLeaf
  rw [if_neg hne, h]
  simp only [hcl]

mutual
  theorem runTree (env : Env) (exit : String) (hex : env.exits.contains exit = true) :
      ∀ (rules : PRules) (t : PTree) (here : List String) (vis : Visited) (kids : List (String × Cfg)),
      PathOKT env exit rules t →
      runPaths env rules here (treePaths exit t) (kids, vis) = (applyTree env rules t kids, vis)
    | rules, .mk items, here, vis, kids, h => by
      rw [PathOKT] at h
      rw [treePaths, applyTree]
      exact runItems env exit hex rules items here vis kids h
  theorem runItems (env : Env) (exit : String) (hex : env.exits.contains exit = true) :
      ∀ (rules : PRules) (items : List (String × Option PTree × SortKey)) (here : List String) (vis : Visited)
        (kids : List (String × Cfg)),
      PathOKL env exit rules items →
      runPaths env rules here (itemsPaths exit items) (kids, vis) = (applyItems env rules items kids, vis)
    | rules, [], here, vis, kids, _ => by
      rw [itemsPaths, applyItems]; rfl
    | rules, (row, none, k) :: rest, here, vis, kids, h => by
      rw [PathOKL] at h
      rw [itemsPaths, applyItems, runPaths_cons]
      simp only
      rw [execPath_leaf env rules here vis kids row h.1]
      exact runItems env exit hex rules rest here vis _ h.2
    | rules, (row, some t, k) :: rest, here, vis, kids, h => by
      rw [PathOKL] at h
      obtain ⟨⟨hrw, hne, hnr, hsub⟩, hrest⟩ := h
      rw [itemsPaths, applyItems, runPaths_cons]
      simp only
      rw [execPath_leaf env rules here vis kids row hrw, runPaths_append, runPaths_cons]
      cases hcl : classify rules row with
      | none =>
        rw [execLeaf_unknown env rules row kids hne hnr hcl,
          runPaths_none env rules here row hcl _ (treePaths_ne_nil exit t)]
        simp only
        rw [execPath_none env rules here vis kids row [exit] (by simp) hcl]
        exact runItems env exit hex rules rest here vis kids hrest
      | some mc =>
        obtain ⟨m, cr⟩ := mc
        rw [hcl] at hsub
        obtain ⟨hrwx, hokt⟩ := hsub
        simp only
        rw [execLeaf_put env rules row kids hcl hne hnr]
        have hset := putLine_settles rules m row kids
        rw [runPaths_block env rules here row hcl hrw _ (treePaths_ne_nil exit t) _ vis hset]
        have hin : (fun (v : Visited) (ch : List (String × Cfg)) =>
            runPaths env cr (here ++ [row]) (treePaths exit t) (ch, v)) =
            fun v ch => (applyTree env cr t ch, v) := by
          funext v ch
          exact runTree env exit hex cr t (here ++ [row]) v ch hokt
        rw [hin, descend_pure]
        simp only
        have hset' : Settled rules m row ((inBlock (applyTree env cr t) row (putLine rules m row kids)).map (·.1)) := by
          rw [inBlock_rows]; exact hset
        rw [execPath_block env rules here vis _ row [exit] (by simp) hcl hrw, putLine_settled rules m row _ hset']
        have hexit : (fun (v : Visited) (ch : List (String × Cfg)) => execPath env [exit] cr (here ++ [row]) v ch) =
            fun v ch => ((fun x => x) ch, v) := by
          funext v ch
          rw [execPath_leaf env cr (here ++ [row]) v ch exit hrwx, exit_noop env cr exit ch hex]
        rw [hexit, descend_pure, inBlock_id]
        exact runItems env exit hex rules rest here vis _ hrest
end

/-- Executing the reference linearisation of a patch tree on the path-based device is executing the tree
structurally. -/
theorem applyCmds_treePaths (env : Env) (exit : String) (rules : PRules) (t : PTree) (dev : Cfg)
    (hex : env.exits.contains exit = true) (h : PathOKT env exit rules t) :
    applyCmds env rules (treePaths exit t) dev = .mk (applyTree env rules t dev.kids) := by
  unfold applyCmds
  have := runTree env exit hex rules t [] [] dev.kids h
  unfold runPaths at this
  rw [this]


/-! ### the patch tree of the pipeline satisfies `PathOKT` -/

/-- `PathOKL`, item by item -/
def ItemPathOK (env : Env) (exit : String) (rules : PRules) : TItem → Prop
  | (row, none, _) => isRewriteCmd rules row = false
  | (row, some t, _) =>
    isRewriteCmd rules row = false ∧ ¬ env.exits.contains row = true ∧
    ((stripReverse env row).bind fun r' => slotOf rules r') = none ∧
    (match classify rules row with
      | some (_, cr) => isRewriteCmd cr exit = false ∧ PathOKT env exit cr t
      | none => True)

theorem pathOKL_iff {env : Env} {exit : String} {rules : PRules} : ∀ {items : List TItem},
    PathOKL env exit rules items ↔ ∀ t ∈ items, ItemPathOK env exit rules t
  | [] => by rw [PathOKL]; simp
  | (row, none, k) :: rest => by
    rw [PathOKL, pathOKL_iff (items := rest)]
    simp [ItemPathOK]
  | (row, some t, k) :: rest => by
    rw [PathOKL, pathOKL_iff (items := rest)]
    simp [ItemPathOK]

theorem pathOKT_iff {env : Env} {exit : String} {rules : PRules} {t : PTree} :
    PathOKT env exit rules t ↔ PathOKL env exit rules t.items := by
  obtain ⟨items⟩ := t
  rw [PathOKT]; rfl

theorem nested_not_rewrite {rules : PRules} (hnr : NestedRules rules) (c : String) : isRewriteCmd rules c = false := by
  unfold isRewriteCmd
  split
  · rename_i m cr hcl
    rcases (nested_match hnr hcl).2.1 with h | h <;> rw [h] <;> simp
  · rfl

/-- a direct yield of a slot is the (re)creation of the row of an ADDED/AFFECTED item -/
theorem yshape_put {v : Vendor} {attrs : PAttrs} {key : List String} {a b : Option String} {d : List Diff.DItem}
    {ys : List Yield} (hsh : YShape v attrs key a b d ys) {y : Yield} (hy : y ∈ ys) (hdir : y.direct = true) :
    ∃ i ∈ d, (i.op = .added ∨ i.op = .affected) ∧ y = putY i := by
  cases a with
  | none =>
    cases b with
    | none => simp only [YShape] at hsh; subst hsh; cases hy
    | some rb =>
      simp only [YShape] at hsh
      obtain ⟨i, hi, -, hop, rfl⟩ := hsh
      simp only [List.mem_singleton] at hy
      exact ⟨i, hi, Or.inl hop, hy⟩
  | some ra =>
    cases b with
    | none =>
      simp only [YShape] at hsh
      obtain ⟨c, -, rfl⟩ := hsh
      simp only [List.mem_singleton] at hy
      subst hy
      cases hdir
    | some rb =>
      simp only [YShape] at hsh
      split at hsh
      · obtain ⟨i, hi, -, h | h⟩ := hsh
        · rw [h.2] at hy; cases hy
        · rw [h.2] at hy
          simp only [List.mem_singleton] at hy
          exact ⟨i, hi, Or.inr h.1, hy⟩
      · obtain ⟨i, hi, -, hop, rfl | ⟨c, -, rfl⟩⟩ := hsh
        · simp only [List.mem_singleton] at hy
          exact ⟨i, hi, Or.inl hop, hy⟩
        · simp only [List.mem_cons, List.not_mem_nil, or_false] at hy
          rcases hy with rfl | rfl
          · cases hdir
          · exact ⟨i, hi, Or.inl hop, rfl⟩

theorem pipeline_level (env : Env) (v : Vendor) (exit : String) : ∀ (n : Nat) (rules : PRules) (ord : List ORule)
    (old new : List (String × Cfg)) (d : List Diff.DItem) (out : List RawItem),
    NestedRules rules → CmdsOKAll v env rules → GoodL rules old → GoodL rules new →
    Lvl rules old new d → DOKL rules old new d → preDepth (makePre d) ≤ n →
    itemsOfPre Patch.runLogic (makePatchUnsorted Patch.runLogic n v true) v ord true (makePre d).rules = .ok out →
    PathOKL env exit rules (sortTree (buildTree out)).items := by
  intro n
  induction n with
  | zero =>
    intro rules ord old new d out hnr hc hgo hgn hl hdok hdep hout
    have hP := makePre_inv d
    have hfc : ∀ x ∈ out, x.forceCommit = false := by
      intro x hx
      obtain ⟨R, hR, it, hit, chunk, hb, hxc⟩ := itemsOfPre_mem _ _ _ _ _ _ _ hout x hx
      obtain ⟨ys, -, -, hcf⟩ := bucket_fact_n hnr hl hP v _ ord hR hit hb
      exact (hcf x hxc).2.1
    rw [tree_sorted out hfc, pathOKL_iff]
    intro t ht
    rw [(Patch.Lemmas.sort_perm Patch.Lemmas.itemLt _).mem_iff] at ht
    obtain ⟨x, hx, rfl⟩ := List.mem_map.1 ht
    obtain ⟨R, hR, it, hit, chunk, hb, hxc⟩ := itemsOfPre_mem _ _ _ _ _ _ _ hout x hx
    obtain ⟨ys, hsh, hrel, hcf⟩ := bucket_fact_n hnr hl hP v _ ord hR hit hb
    cases hlf : isLeaf x with
    | true => rw [finalOf_leaf hlf]; exact nested_not_rewrite hnr _
    | false =>
      exfalso
      have hd : x.direct = true := by
        unfold isLeaf at hlf
        simp only [Bool.or_eq_false_iff, Bool.not_eq_false'] at hlf
        exact hlf.2
      obtain ⟨y, hy, hxy⟩ := nrel_mem hrel x hxc
      obtain ⟨i, hi, -, -⟩ := yshape_put hsh hy (by rw [← hxy.2.2.2.1]; exact hd)
      have := preDepth_child hi
      omega
  | succ m ih =>
    intro rules ord old new d out hnr hc hgo hgn hl hdok hdep hout
    have hP := makePre_inv d
    have hfc : ∀ x ∈ out, x.forceCommit = false := by
      intro x hx
      obtain ⟨R, hR, it, hit, chunk, hb, hxc⟩ := itemsOfPre_mem _ _ _ _ _ _ _ hout x hx
      obtain ⟨ys, -, -, hcf⟩ := bucket_fact_n hnr hl hP v _ ord hR hit hb
      exact (hcf x hxc).2.1
    rw [tree_sorted out hfc, pathOKL_iff]
    intro t ht
    rw [(Patch.Lemmas.sort_perm Patch.Lemmas.itemLt _).mem_iff] at ht
    obtain ⟨x, hx, rfl⟩ := List.mem_map.1 ht
    obtain ⟨R, hR, it, hit, chunk, hb, hxc⟩ := itemsOfPre_mem _ _ _ _ _ _ _ hout x hx
    obtain ⟨ys, hsh, hrel, hcf⟩ := bucket_fact_n hnr hl hP v _ ord hR hit hb
    cases hlf : isLeaf x with
    | true => rw [finalOf_leaf hlf]; exact nested_not_rewrite hnr _
    | false =>
      rw [finalOf_block hlf]
      have hd : x.direct = true := by
        unfold isLeaf at hlf
        simp only [Bool.or_eq_false_iff, Bool.not_eq_false'] at hlf
        exact hlf.2
      obtain ⟨y, hy, hxy⟩ := nrel_mem hrel x hxc
      obtain ⟨hxrow, -, -, hxdir, -, o, ho, -, -, hsub⟩ := hxy
      obtain ⟨i, hi, hop, rfl⟩ := yshape_put hsh hy (by rw [← hxdir]; exact hd)
      have hxr : x.row = i.row := hxrow
      have hslot := (hcf x hxc).2.2 hd
      have hk : (slotOf rules x.row).isSome := by simp [hslot]
      obtain ⟨h1, h2⟩ := hc.1.line x.row hk
      refine ⟨nested_not_rewrite hnr _, h1, h2, ?_⟩
      have hrow := lvl_put_row hl hi hop
      obtain ⟨m', hcl, hu⟩ := goodL_rows hgn hrow
      obtain ⟨hnr', hc'⟩ := child_rules hnr hu hcl
      rw [hxr, hcl]
      simp only
      refine ⟨nested_not_rewrite hnr' _, ?_⟩
      have hd1 := preDepth_child hi
      obtain ⟨out', hout', hT⟩ := subTree_inv hsub
      obtain ⟨-, hgo'⟩ := goodC_mk.1 (good_sub hgo i.row)
      obtain ⟨-, hgn'⟩ := goodC_mk.1 (good_sub hgn i.row)
      obtain ⟨hl', hdok'⟩ := dokI_sub (dokL_iff.1 hdok i hi) hop
      have := ih (crOf rules i.row) o.children (subOf old i.row) (subOf new i.row) i.children out' hnr'
        (hc' v env hc) hgo' hgn' hl' hdok' (by omega) hout'
      rw [pathOKT_iff, hT]
      exact this

/-- under the hypotheses of `nested_converges`, the patch tree of the pipeline can be linearised -/
theorem pipeline_pathOK (v : Vendor) (env : Env) (exit : String) (rules : PRules) (ordering : List ORule)
    (old new : Cfg) (r : Api.Result)
    (hr : NestedRules rules) (hgo : GoodC rules old) (hgn : GoodC rules new) (hc : CmdsOKAll v env rules)
    (hres : Api.deviceMode Patch.runLogic v rules ordering true old new = .ok r) :
    PathOKT env exit rules r.patch := by
  obtain ⟨d, out, hmd, hout, hpatch⟩ := deviceMode_inv' hres
  obtain ⟨hl, hdok⟩ := makeDiff_nested hr hgo hgn hmd
  obtain ⟨ko⟩ := old
  obtain ⟨kn⟩ := new
  obtain ⟨-, hglo⟩ := goodC_mk.1 hgo
  obtain ⟨-, hgln⟩ := goodC_mk.1 hgn
  rw [hpatch, pathOKT_iff]
  exact pipeline_level env v exit _ rules ordering ko kn d out hr hc hglo hgln hl hdok (by omega) hout

/-- `nested_converges` for the path-based device: sending the device the command paths of the patch tree
(block-exit linearisation with an exit word the device knows) turns `old` into `new`, slot by slot at every level. -/
theorem nested_converges_paths (v : Vendor) (env : Env) (exit : String) (rules : PRules) (ordering : List ORule)
    (old new : Cfg) (r : Api.Result)
    (hr : NestedRules rules) (hgo : GoodC rules old) (hgn : GoodC rules new)
    (hc : CmdsOKAll v env rules) (hp : NoPin ordering) (hex : env.exits.contains exit = true)
    (hres : Api.deviceMode Patch.runLogic v rules ordering true old new = .ok r) :
    SameC rules (applyCmds env rules (treePaths exit r.patch) old) new := by
  rw [applyCmds_treePaths env exit rules r.patch old hex
    (pipeline_pathOK v env exit rules ordering old new r hr hgo hgn hc hres)]
  exact nested_converges v env rules ordering old new r hr hgo hgn hc hp hres

end

end Annet.ConvergeNested.Lemmas
