/-
Helper lemmas for C05 (offside parser vs. declarative rule).
-/
import AnnetModel.Spec.Offside

namespace Annet.Offside.Lemmas
open Annet.Offside Annet.Offside.Spec

/-! ### Unfolding lemmas phrased with `Except.map` -/

theorem runItems_text_none {k : Nat} {s : String} {rest : List Item} {st : St}
    {stack : List String} {n : Nat} (h : stepText st k = none) :
    runItems (.text k s :: rest) st stack n = .error n := by
  simp only [runItems, h]

theorem runItems_text_some {k : Nat} {s : String} {rest : List Item} {st st' : St}
    {depth : Nat} {stack : List String} {n : Nat} (h : stepText st k = some (st', depth)) :
    runItems (.text k s :: rest) st stack n
      = (runItems rest st' (restack stack depth s) (n + 1)).map (restack stack depth s :: ·) := by
  simp only [runItems, h]
  cases runItems rest st' (restack stack depth s) (n + 1) <;> rfl

theorem run_text_false {k : Nat} {s : String} {rest : List Item} {prev : List (Nat × String)}
    {n : Nat} (h : consistent prev k = false) :
    Spec.run (.text k s :: rest) prev n = .error n := by
  simp [Spec.run, h]

theorem run_text_true {k : Nat} {s : String} {rest : List Item} {prev : List (Nat × String)}
    {n : Nat} (h : consistent prev k = true) :
    Spec.run (.text k s :: rest) prev n
      = (Spec.run rest ((k, s) :: prev) (n + 1)).map (path prev k s :: ·) := by
  simp only [Spec.run, h, if_true]
  cases Spec.run rest ((k, s) :: prev) (n + 1) <;> rfl

theorem toOption_map {ε α β : Type} (f : α → β) (r : Except ε α) :
    (r.map f).toOption = r.toOption.map f := by
  cases r <;> rfl

/-! ### Spec-side facts about `chain` -/

theorem chain_dropWhile (l : List (Nat × String)) (b b' : Nat) (h : b ≤ b') :
    chain l b = (chain l b').dropWhile (fun p => decide (b ≤ p.1)) := by
  induction l generalizing b b' with
  | nil => simp [chain]
  | cons p rest ih =>
    obtain ⟨k, s⟩ := p
    simp only [chain]
    by_cases h1 : k < b
    · have h2 : k < b' := by omega
      have h3 : ¬ b ≤ k := by omega
      simp [h1, h2, h3]
    · by_cases h2 : k < b'
      · have h3 : b ≤ k := by omega
        simp only [h1, h2, if_true, if_false, List.dropWhile_cons, h3, decide_true]
        exact ih b k h3
      · simp only [h1, h2, if_false]
        exact ih b b' h

theorem chain_eq_openChain_dropWhile (k0 : Nat) (s0 : String) (rest : List (Nat × String))
    (k : Nat) :
    chain ((k0, s0) :: rest) k
      = (openChain ((k0, s0) :: rest)).dropWhile (fun p => decide (k ≤ p.1)) := by
  simp only [chain, openChain]
  by_cases h : k0 < k
  · have h3 : ¬ k ≤ k0 := by omega
    simp [h, h3]
  · have h3 : k ≤ k0 := by omega
    simp only [h, if_false, List.dropWhile_cons, h3, decide_true, if_true]
    exact chain_dropWhile rest k k0 h3

/-! ### The column invariant -/

/-- `Cols g indents curr cs`: `cs` are the absolute columns of the open blocks
(innermost first), `indents` the differences between consecutive columns,
`curr` the innermost column relative to the section's base column `g`. -/
def Cols (g : Nat) : List Nat → Int → List Nat → Prop
  | [], curr, cs => curr = 0 ∧ cs = [g]
  | d :: ds, curr, cs =>
    ∃ c cs', cs = c :: cs' ∧ 0 < d ∧ (c : Int) = g + curr ∧ Cols g ds (curr - d) cs'

theorem Cols_length {g : Nat} {inds : List Nat} {curr : Int} {cs : List Nat}
    (h : Cols g inds curr cs) : cs.length = inds.length + 1 := by
  induction inds generalizing curr cs with
  | nil => obtain ⟨_, rfl⟩ := h; rfl
  | cons d ds ih =>
    obtain ⟨c, cs', rfl, _, _, h'⟩ := h
    simp [ih h']

theorem Cols_head {g : Nat} {inds : List Nat} {curr : Int} {cs : List Nat}
    (h : Cols g inds curr cs) : ∃ c cs', cs = c :: cs' ∧ (c : Int) = g + curr := by
  cases inds with
  | nil => obtain ⟨h0, rfl⟩ := h; exact ⟨g, [], rfl, by omega⟩
  | cons d ds =>
    obtain ⟨c, cs', rfl, _, hc, _⟩ := h
    exact ⟨c, cs', rfl, hc⟩

theorem Cols_le {g : Nat} {inds : List Nat} {curr : Int} {cs : List Nat}
    (h : Cols g inds curr cs) : ∀ c ∈ cs, (c : Int) ≤ g + curr := by
  induction inds generalizing curr cs with
  | nil =>
    obtain ⟨h0, rfl⟩ := h
    intro c hc
    simp at hc
    omega
  | cons d ds ih =>
    obtain ⟨c, cs', rfl, hd, hc, h'⟩ := h
    intro x hx
    simp at hx
    rcases hx with rfl | hx
    · omega
    · have := ih h' x hx
      omega

theorem popLoop_cols {g k : Nat} (hgk : g ≤ k) {inds : List Nat} {curr : Int} {cs : List Nat}
    (h : Cols g inds curr cs) :
    Cols g (popLoop ((k : Int) - (g : Int)) inds curr).1 (popLoop ((k : Int) - (g : Int)) inds curr).2
      (cs.dropWhile (fun c => decide (k < c))) := by
  induction inds generalizing curr cs with
  | nil =>
    obtain ⟨h0, rfl⟩ := h
    have : ¬ k < g := by omega
    simp [popLoop, Cols, h0, this]
  | cons d ds ih =>
    obtain ⟨c, cs', rfl, hd, hc, h'⟩ := h
    simp only [popLoop]
    by_cases hlt : curr > (k : Int) - (g : Int)
    · have : k < c := by omega
      simp only [hlt, if_true, List.dropWhile_cons, this, decide_true]
      exact ih h'
    · have : ¬ k < c := by omega
      simp only [hlt, if_false, List.dropWhile_cons, this, decide_false]
      exact ⟨c, cs', rfl, hd, hc, h'⟩

/-! ### Small list facts -/

theorem dropWhile_dropWhile_of_imp {α : Type} (p q : α → Bool) (hpq : ∀ x, p x = true → q x = true)
    (l : List α) : (l.dropWhile p).dropWhile q = l.dropWhile q := by
  induction l with
  | nil => rfl
  | cons a l ih =>
    by_cases hp : p a = true
    · simp [hp, hpq a hp, ih]
    · simp [List.dropWhile_cons, hp]

theorem mem_dropWhile_of_false {α : Type} (p : α → Bool) (l : List α) (x : α)
    (hx : x ∈ l) (hp : p x = false) : x ∈ l.dropWhile p := by
  induction l with
  | nil => cases hx
  | cons a l ih =>
    by_cases hpa : p a = true
    · simp only [List.dropWhile_cons, hpa, if_true]
      rcases List.mem_cons.mp hx with rfl | h
      · simp [hp] at hpa
      · exact ih h
    · simp only [List.dropWhile_cons, hpa]
      exact hx

theorem dropWhile_head_false {α : Type} (p : α → Bool) (l : List α) (c : α) (t : List α)
    (h : l.dropWhile p = c :: t) : p c = false := by
  induction l with
  | nil => cases h
  | cons a l ih =>
    by_cases hpa : p a = true
    · simp only [List.dropWhile_cons, hpa, if_true] at h
      exact ih h
    · simp only [List.dropWhile_cons, hpa] at h
      injection h with h1 h2
      subst h1
      simpa using hpa

theorem Cols_tail_dropWhile {g : Nat} {inds : List Nat} {curr : Int} {c : Nat} {cs' : List Nat}
    (h : Cols g inds curr (c :: cs')) :
    cs'.dropWhile (fun x => decide (c ≤ x)) = cs' := by
  cases inds with
  | nil =>
    obtain ⟨_, h2⟩ := h
    simp at h2
    simp [h2.2]
  | cons d ds =>
    obtain ⟨c1, cs1, h1, hd, hc, h'⟩ := h
    simp at h1
    obtain ⟨rfl, rfl⟩ := h1
    obtain ⟨c2, cs2, rfl, hc2⟩ := Cols_head h'
    have : ¬ c ≤ c2 := by omega
    simp [this]

theorem pop_cols {g k : Nat} {inds' : List Nat} {curr' : Int} {cs : List Nat}
    (h' : Cols g inds' curr' (cs.dropWhile (fun c => decide (k < c))))
    (hk : (g : Int) + curr' = k) :
    Cols g inds' curr' (k :: cs.dropWhile (fun c => decide (k ≤ c))) := by
  obtain ⟨c, cs', hcs, hc⟩ := Cols_head h'
  have hck : c = k := by omega
  subst hck
  have e : cs.dropWhile (fun x => decide (c ≤ x)) = cs' := by
    rw [← dropWhile_dropWhile_of_imp (fun x => decide (c < x)) (fun x => decide (c ≤ x))
      (by intro x hx; simp at hx ⊢; omega) cs, hcs]
    rw [hcs] at h'
    simp only [List.dropWhile_cons, Nat.le_refl, decide_true, if_true]
    exact Cols_tail_dropWhile h'
  rw [e, ← hcs]
  exact h'

theorem restack_eq (stack : List String) (depth : Nat) (s : String) :
    restack stack depth s = stack.take depth ++ [s] := by
  unfold restack
  simp only
  split
  · rw [List.take_of_length_le (by omega)]
  · split
    · rename_i h
      have : depth = stack.length - 1 := by simp at h; omega
      rw [List.dropLast_eq_take, this]
    · simp

/-! ### The simulation invariant -/

def Inv (prev : List (Nat × String)) (st : St) (stack : List String) : Prop :=
  match prev with
  | [] => st = St.init
  | _ :: _ => ∃ g gs, prev.getLast? = some (g, gs) ∧ st.g = some g ∧
      stack = ((openChain prev).map (·.2)).reverse ∧
      Cols g st.indents st.curr ((openChain prev).map (·.1))

theorem consistent_cons {k0 : Nat} {s0 : String} {rest : List (Nat × String)} {g : Nat}
    {gs : String} (k : Nat) (h : ((k0, s0) :: rest).getLast? = some (g, gs)) :
    consistent ((k0, s0) :: rest) k
      = (decide (g ≤ k) && (decide (k0 ≤ k) ||
          (openChain ((k0, s0) :: rest)).any (fun p => p.1 == k))) := by
  simp only [consistent, h]

theorem stepText_lt {inds : List Nat} {curr : Int} {g k : Nat} (h : k < g) :
    stepText ⟨inds, curr, some g⟩ k = none := by
  have : (k : Int) - (g : Int) < 0 := by omega
  simp [stepText, this]

theorem stepText_push {inds : List Nat} {curr : Int} {g k : Nat} (h1 : g ≤ k)
    (h2 : curr < (k : Int) - (g : Int)) :
    stepText ⟨inds, curr, some g⟩ k
      = some (⟨((k : Int) - (g : Int) - curr).toNat :: inds, (k : Int) - (g : Int), some g⟩,
          inds.length + 1) := by
  have h0 : ¬ (k : Int) - (g : Int) < 0 := by omega
  simp [stepText, h0, h2]

theorem stepText_same {inds : List Nat} {curr : Int} {g k : Nat} (h1 : g ≤ k)
    (h2 : curr = (k : Int) - (g : Int)) :
    stepText ⟨inds, curr, some g⟩ k = some (⟨inds, curr, some g⟩, inds.length) := by
  have h0 : ¬ (k : Int) - (g : Int) < 0 := by omega
  subst h2
  simp [stepText, h0]

theorem stepText_pop {inds : List Nat} {curr : Int} {g k : Nat} (h1 : g ≤ k)
    (h2 : (k : Int) - (g : Int) < curr) :
    stepText ⟨inds, curr, some g⟩ k
      = if (popLoop ((k : Int) - (g : Int)) inds curr).2 = (k : Int) - (g : Int) then
          some (⟨(popLoop ((k : Int) - (g : Int)) inds curr).1,
                 (popLoop ((k : Int) - (g : Int)) inds curr).2, some g⟩,
                (popLoop ((k : Int) - (g : Int)) inds curr).1.length)
        else none := by
  have h0 : ¬ (k : Int) - (g : Int) < 0 := by omega
  have h3 : ¬ (k : Int) - (g : Int) > curr := by omega
  simp only [stepText, Option.getD_some, h0, h3, h2, if_true, if_false]
  by_cases h : (popLoop ((k : Int) - (g : Int)) inds curr).2 = (k : Int) - (g : Int)
  · simp [h]
  · simp [h]

theorem step_finish {k0 : Nat} {s0 : String} {rest : List (Nat × String)} {g : Nat} {gs : String}
    (hlast : ((k0, s0) :: rest).getLast? = some (g, gs)) {stack : List String}
    (hstack : stack = ((openChain ((k0, s0) :: rest)).map (·.2)).reverse)
    {inds' : List Nat} {curr' : Int} (k : Nat) (s : String)
    (hcols : Cols g inds' curr' (k :: (chain ((k0, s0) :: rest) k).map (·.1))) :
    restack stack inds'.length s = path ((k0, s0) :: rest) k s ∧
      Inv ((k, s) :: (k0, s0) :: rest) ⟨inds', curr', some g⟩ (path ((k0, s0) :: rest) k s) := by
  have hlen : (chain ((k0, s0) :: rest) k).length = inds'.length := by
    have := Cols_length hcols
    simpa using this
  have hsuf : chain ((k0, s0) :: rest) k <:+ openChain ((k0, s0) :: rest) := by
    rw [chain_eq_openChain_dropWhile]
    exact List.dropWhile_suffix _
  obtain ⟨T, hT⟩ := hsuf
  constructor
  · rw [restack_eq, hstack, ← hT, ← hlen]
    simp [path]
  · refine ⟨g, gs, ?_, rfl, ?_, ?_⟩
    · rw [List.getLast?_cons_cons]; exact hlast
    · simp [path, openChain]
    · simpa [openChain] using hcols

theorem step_spec {prev : List (Nat × String)} {st : St} {stack : List String} (k : Nat)
    (s : String) (h : Inv prev st stack) :
    (stepText st k = none ∧ consistent prev k = false) ∨
    (∃ st' depth, stepText st k = some (st', depth) ∧ consistent prev k = true ∧
       restack stack depth s = path prev k s ∧ Inv ((k, s) :: prev) st' (path prev k s)) := by
  cases prev with
  | nil =>
    have h' : st = St.init := h
    subst h'
    right
    refine ⟨⟨[], 0, some k⟩, 0, ?_, rfl, ?_, ?_⟩
    · simp [stepText, St.init]
    · simp [restack_eq, path, chain]
    · exact ⟨k, s, rfl, rfl, by simp [path, chain, openChain], by simp [openChain, chain, Cols]⟩
  | cons p rest =>
    obtain ⟨k0, s0⟩ := p
    obtain ⟨inds, curr, og⟩ := st
    obtain ⟨g, gs, hlast, hg, hstack, hcols⟩ := h
    simp only at hg hcols
    subst hg
    obtain ⟨c, cs', hcs, hc⟩ := Cols_head hcols
    simp only [openChain, List.map_cons, List.cons.injEq] at hcs
    obtain ⟨rfl, -⟩ := hcs
    rw [consistent_cons k hlast]
    by_cases h1 : k < g
    · left
      exact ⟨stepText_lt h1, by simp; omega⟩
    have h1' : g ≤ k := by omega
    by_cases h2 : k0 < k
    · -- indent
      right
      have hchain : chain ((k0, s0) :: rest) k = openChain ((k0, s0) :: rest) := by
        simp [chain, openChain, h2]
      have hc' : Cols g (((k : Int) - (g : Int) - curr).toNat :: inds) ((k : Int) - (g : Int))
          (k :: (chain ((k0, s0) :: rest) k).map (·.1)) := by
        rw [hchain]
        refine ⟨k, _, rfl, by omega, by omega, ?_⟩
        have e : (k : Int) - (g : Int) - (((k : Int) - (g : Int) - curr).toNat : Int) = curr := by
          omega
        rw [e]
        exact hcols
      obtain ⟨hr, hi⟩ := step_finish hlast hstack k s hc'
      refine ⟨_, _, stepText_push h1' (by omega), ?_, hr, hi⟩
      have : k0 ≤ k := by omega
      simp [h1', this]
    by_cases h3 : k0 = k
    · -- same level
      right
      subst h3
      have hchain : chain ((k0, s0) :: rest) k0 = chain rest k0 := by
        simp [chain]
      have hc' : Cols g inds curr (k0 :: (chain ((k0, s0) :: rest) k0).map (·.1)) := by
        rw [hchain]
        simpa [openChain] using hcols
      obtain ⟨hr, hi⟩ := step_finish hlast hstack k0 s hc'
      refine ⟨_, _, stepText_same h1' (by omega), ?_, hr, hi⟩
      simp [h1']
    · -- dedent
      have h4 : k < k0 := by omega
      have hpop := popLoop_cols h1' hcols
      rw [stepText_pop h1' (by omega)]
      by_cases h5 : (popLoop ((k : Int) - (g : Int)) inds curr).2 = (k : Int) - (g : Int)
      · have hc' : Cols g (popLoop ((k : Int) - (g : Int)) inds curr).1
            (popLoop ((k : Int) - (g : Int)) inds curr).2
            (k :: (chain ((k0, s0) :: rest) k).map (·.1)) := by
          rw [chain_eq_openChain_dropWhile]
          have := pop_cols hpop (by omega)
          rw [List.dropWhile_map] at this
          exact this
        obtain ⟨hr, hi⟩ := step_finish hlast hstack k s hc'
        rw [if_pos h5]
        right
        refine ⟨_, _, rfl, ?_, hr, hi⟩
        obtain ⟨c, cs'', hcs, hck⟩ := Cols_head hpop
        have hck' : c = k := by omega
        subst hck'
        have hmem : c ∈ (openChain ((k0, s0) :: rest)).map (·.1) := by
          apply (List.dropWhile_suffix (fun x => decide (c < x))).subset
          rw [hcs]
          exact List.mem_cons_self
        obtain ⟨p, hp, hpc⟩ := List.mem_map.mp hmem
        have hany : (openChain ((k0, s0) :: rest)).any (fun p => p.1 == c) = true :=
          List.any_eq_true.mpr ⟨p, hp, by simpa using hpc⟩
        simp [h1', hany]
      · rw [if_neg h5]
        left
        refine ⟨rfl, ?_⟩
        have hnk : ¬ k0 ≤ k := by omega
        have hany : (openChain ((k0, s0) :: rest)).any (fun p => p.1 == k) = false := by
          apply Bool.eq_false_iff.mpr
          intro hany
          obtain ⟨p, hp, hpk⟩ := List.any_eq_true.mp hany
          have hpk' : p.1 = k := by simpa using hpk
          have hmem : k ∈ (openChain ((k0, s0) :: rest)).map (·.1) :=
            List.mem_map.mpr ⟨p, hp, hpk'⟩
          have hmem' := mem_dropWhile_of_false (fun x => decide (k < x)) _ k hmem (by simp)
          have hle := Cols_le hpop k hmem'
          obtain ⟨c, cs'', hcs, hck⟩ := Cols_head hpop
          have hf := dropWhile_head_false _ _ _ _ hcs
          simp at hf
          omega
        simp [hnk, hany]

theorem run_eq (items : List Item) (prev : List (Nat × String)) (st : St) (stack : List String)
    (n : Nat) (h : Inv prev st stack) : runItems items st stack n = Spec.run items prev n := by
  induction items generalizing prev st stack n with
  | nil => simp [runItems, Spec.run]
  | cons it rest ih =>
    cases it with
    | blank => simpa [runItems, Spec.run] using ih prev st stack (n + 1) h
    | sectionEnd =>
      simpa [runItems, Spec.run] using ih [] St.init stack (n + 1) rfl
    | text k s =>
      rcases step_spec k s h with ⟨h1, h2⟩ | ⟨st', depth, h1, h2, h3, h4⟩
      · rw [runItems_text_none h1, run_text_false h2]
      · rw [runItems_text_some h1, run_text_true h2, h3, ih _ _ _ _ h4]

theorem impl_eq_spec (items : List Item) : stacks items = Spec.stacks items :=
  run_eq items [] St.init [] 1 rfl

theorem chain_nearest (prev : List (Nat × String)) (k j : Nat) (t : String)
    (anc : List (Nat × String)) (h : chain prev k = (j, t) :: anc) :
    ∃ pre post, prev = pre ++ (j, t) :: post ∧ (∀ p ∈ pre, k ≤ p.1) ∧ j < k ∧
      anc = chain post j := by
  induction prev with
  | nil => simp [chain] at h
  | cons p rest ih =>
    obtain ⟨k', s'⟩ := p
    simp only [chain] at h
    by_cases hk : k' < k
    · simp only [hk, if_true] at h
      injection h with h1 h2
      injection h1 with h3 h4
      subst h3; subst h4
      exact ⟨[], rest, rfl, by simp, hk, h2.symm⟩
    · simp only [hk, if_false] at h
      obtain ⟨pre, post, hp, hall, hj, hanc⟩ := ih h
      refine ⟨(k', s') :: pre, post, by simp [hp], ?_, hj, hanc⟩
      intro p hp
      simp at hp
      rcases hp with rfl | hp
      · simp; omega
      · exact hall p hp

/-! ### Width independence -/

theorem mono_lt_iff {f : Nat → Nat} (hf : ∀ a b, a < b → f a < f b) (a b : Nat) :
    f a < f b ↔ a < b := by
  constructor
  · intro h
    by_cases hab : a < b
    · exact hab
    · rcases Nat.lt_or_eq_of_le (Nat.le_of_not_lt hab) with h' | h'
      · have := hf b a h'; omega
      · subst h'; omega
  · exact hf a b

theorem mono_le_iff {f : Nat → Nat} (hf : ∀ a b, a < b → f a < f b) (a b : Nat) :
    f a ≤ f b ↔ a ≤ b := by
  have := mono_lt_iff hf b a
  omega

theorem mono_eq_iff {f : Nat → Nat} (hf : ∀ a b, a < b → f a < f b) (a b : Nat) :
    f a = f b ↔ a = b := by
  have h1 := mono_le_iff hf a b
  have h2 := mono_le_iff hf b a
  omega

/-- relabel the indents of a list of preceding lines -/
def mapPrev (f : Nat → Nat) (l : List (Nat × String)) : List (Nat × String) :=
  l.map (fun p => (f p.1, p.2))

theorem chain_mapPrev {f : Nat → Nat} (hf : ∀ a b, a < b → f a < f b)
    (l : List (Nat × String)) (b : Nat) :
    chain (mapPrev f l) (f b) = mapPrev f (chain l b) := by
  induction l generalizing b with
  | nil => simp [mapPrev, chain]
  | cons p rest ih =>
    obtain ⟨k, s⟩ := p
    have ih' := ih
    simp only [mapPrev] at ih' ⊢
    simp only [List.map_cons, chain, mono_lt_iff hf]
    by_cases h : k < b
    · simp [h, ih' k]
    · simp [h, ih' b]

theorem openChain_mapPrev {f : Nat → Nat} (hf : ∀ a b, a < b → f a < f b)
    (l : List (Nat × String)) :
    openChain (mapPrev f l) = mapPrev f (openChain l) := by
  cases l with
  | nil => simp [mapPrev, openChain]
  | cons p rest =>
    obtain ⟨k, s⟩ := p
    have := chain_mapPrev hf rest k
    simp only [mapPrev] at this ⊢
    simp [openChain, this]

theorem consistent_mapPrev {f : Nat → Nat} (hf : ∀ a b, a < b → f a < f b)
    (l : List (Nat × String)) (k : Nat) :
    consistent (mapPrev f l) (f k) = consistent l k := by
  cases l with
  | nil => simp [mapPrev, consistent]
  | cons p rest =>
    obtain ⟨k0, s0⟩ := p
    have hoc := openChain_mapPrev hf ((k0, s0) :: rest)
    have hlast : (mapPrev f ((k0, s0) :: rest)).getLast?
        = (((k0, s0) :: rest).getLast?).map (fun p => (f p.1, p.2)) := by
      unfold mapPrev
      exact List.getLast?_map ..
    have hcons : mapPrev f ((k0, s0) :: rest) = (f k0, s0) :: mapPrev f rest := by
      simp [mapPrev]
    rw [hcons] at hoc hlast
    simp only [hcons, consistent, hoc, hlast]
    congr 1
    · cases ((k0, s0) :: rest).getLast? with
      | none => rfl
      | some q => simp [mono_le_iff hf]
    · congr 1
      · simp [mono_le_iff hf]
      · simp only [mapPrev, List.any_map]
        congr 1
        funext x
        rw [Bool.eq_iff_iff]
        simp [mono_eq_iff hf]

theorem path_mapPrev {f : Nat → Nat} (hf : ∀ a b, a < b → f a < f b)
    (l : List (Nat × String)) (k : Nat) (s : String) :
    path (mapPrev f l) (f k) s = path l k s := by
  unfold path
  rw [chain_mapPrev hf]
  simp [mapPrev, Function.comp_def]

theorem run_mapIndent {f : Nat → Nat} (hf : ∀ a b, a < b → f a < f b)
    (items : List Item) (prev : List (Nat × String)) (n : Nat) :
    Spec.run (items.map (mapIndent f)) (mapPrev f prev) n = Spec.run items prev n := by
  induction items generalizing prev n with
  | nil => simp [Spec.run]
  | cons it rest ih =>
    cases it with
    | blank => simpa [mapIndent, Spec.run] using ih prev (n + 1)
    | sectionEnd => simpa [mapIndent, Spec.run, mapPrev] using ih [] (n + 1)
    | text k s =>
      have ih' := ih ((k, s) :: prev) (n + 1)
      have hcons : mapPrev f ((k, s) :: prev) = (f k, s) :: mapPrev f prev := by
        simp [mapPrev]
      rw [hcons] at ih'
      simp only [List.map_cons, mapIndent, Spec.run, consistent_mapPrev hf, path_mapPrev hf, ih']

theorem spec_width_independent (f : Nat → Nat) (hf : ∀ a b, a < b → f a < f b)
    (items : List Item) :
    Spec.stacks (items.map (mapIndent f)) = Spec.stacks items := by
  have := run_mapIndent hf items [] 1
  simpa [Spec.stacks, mapPrev] using this

/-! ### Blank lines -/

theorem runItems_blank_ignored (items : List Item) (st : St) (stack : List String) (n m : Nat) :
    (runItems (items.filter (· ≠ .blank)) st stack n).toOption
      = (runItems items st stack m).toOption := by
  induction items generalizing st stack n m with
  | nil => simp [runItems]
  | cons it rest ih =>
    cases it with
    | blank => simpa [runItems] using ih st stack n (m + 1)
    | sectionEnd => simpa [runItems] using ih St.init stack (n + 1) (m + 1)
    | text k s =>
      have hne : (Item.text k s ≠ Item.blank) := by intro h; cases h
      have hd : decide (Item.text k s ≠ Item.blank) = true := decide_eq_true hne
      rw [List.filter_cons, if_pos hd]
      cases hst : stepText st k with
      | none => rw [runItems_text_none hst, runItems_text_none hst]; rfl
      | some r =>
        obtain ⟨st', depth⟩ := r
        rw [runItems_text_some hst, runItems_text_some hst, toOption_map, toOption_map,
          ih st' (restack stack depth s) (n + 1) (m + 1)]

theorem blank_ignored (items : List Item) :
    (stacks (items.filter (· ≠ .blank))).toOption = (stacks items).toOption := by
  exact runItems_blank_ignored items St.init [] 1 1

/-! ### Idempotence of `insertPath` -/

theorem insertPath_idem (p : List String) (t : Cfg) :
    Cfg.insertPath p (Cfg.insertPath p t) = Cfg.insertPath p t := by
  induction p generalizing t with
  | nil => cases t; simp [Cfg.insertPath]
  | cons k rest ih =>
    obtain ⟨ks⟩ := t
    by_cases hk : Cfg.hasKey ks k = true
    · have hk' : Cfg.hasKey
          (ks.map fun p => if p.1 == k then (p.1, Cfg.insertPath rest p.2) else p) k = true := by
        simp only [Cfg.hasKey, List.any_map] at hk ⊢
        rw [← hk]
        congr 1
        funext p
        simp only [Function.comp]
        split <;> rfl
      simp only [Cfg.insertPath, hk, if_true, hk', List.map_map]
      congr 1
      apply List.map_congr_left
      intro p _
      simp only [Function.comp]
      by_cases hp : (p.1 == k) = true
      · simp [hp, ih]
      · simp [hp]
    · have hk' : Cfg.hasKey (ks ++ [(k, Cfg.insertPath rest Cfg.empty)]) k = true := by
        simp [Cfg.hasKey]
      have hall : ∀ p ∈ ks, (p.1 == k) = false := by
        intro p hp
        simp only [Cfg.hasKey, List.any_eq_true, not_exists, not_and] at hk
        simpa using hk p hp
      have hkf : Cfg.hasKey ks k = false := by simpa using hk
      simp only [Cfg.insertPath, hkf, Bool.false_eq_true, if_false]
      simp only [hk', if_true, List.map_append, List.map_cons, List.map_nil]
      have h1 : ks.map (fun p => if (p.1 == k) = true then (p.1, Cfg.insertPath rest p.2) else p)
          = ks := by
        calc _ = ks.map id := by
              apply List.map_congr_left
              intro p hp
              simp [hall p hp]
          _ = ks := by simp
      rw [h1]
      simp [ih]

/-! ### Rejection -/

theorem run_text_append (ls : List (Nat × String)) (rest : List Item)
    (prev : List (Nat × String)) (n : Nat) :
    (Spec.run (ls.map (fun p => Item.text p.1 p.2) ++ rest) prev n).toOption.isSome
      = ((Spec.run (ls.map (fun p => Item.text p.1 p.2)) prev n).toOption.isSome &&
         (Spec.run rest (ls.reverse ++ prev) (n + ls.length)).toOption.isSome) := by
  induction ls generalizing prev n with
  | nil => simp [Spec.run, Except.toOption]
  | cons p ls ih =>
    obtain ⟨k, s⟩ := p
    simp only [List.map_cons, List.cons_append]
    by_cases hc : consistent prev k = true
    · rw [run_text_true hc, run_text_true hc, toOption_map, toOption_map, Option.isSome_map,
        Option.isSome_map, ih ((k, s) :: prev) (n + 1)]
      have e1 : ((k, s) :: ls).reverse ++ prev = ls.reverse ++ (k, s) :: prev := by simp
      have e2 : n + ((k, s) :: ls).length = n + 1 + ls.length := by simp; omega
      rw [e1, e2]
    · have hc' : consistent prev k = false := by simpa using hc
      rw [run_text_false hc', run_text_false hc']
      rfl

theorem reject_iff (ls : List (Nat × String)) (k : Nat) (s : String)
    (hok : (stacks (ls.map fun p => Item.text p.1 p.2)).toOption.isSome) :
    (stacks ((ls ++ [(k, s)]).map fun p => Item.text p.1 p.2)).toOption.isNone
      ↔ consistent ls.reverse k = false := by
  rw [impl_eq_spec] at hok ⊢
  have h := run_text_append ls [Item.text k s] [] 1
  simp only [Spec.stacks] at hok ⊢
  rw [hok] at h
  simp only [List.map_append, List.map_cons, List.map_nil]
  rw [← Option.not_isSome, h]
  simp only [Spec.run, List.append_nil, Bool.true_and]
  by_cases hc : consistent ls.reverse k = true
  · simp [hc, Except.toOption]
  · simp [hc, Except.toOption]

end Annet.Offside.Lemmas
