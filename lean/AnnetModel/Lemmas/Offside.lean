/-
Helper lemmas for C05 (offside parser vs. declarative rule).
-/
import AnnetModel.Spec.Offside

namespace Annet.Offside.Lemmas
open Annet.Offside Annet.Offside.Spec

theorem impl_eq_spec (items : List Item) : stacks items = Spec.stacks items := by
  sorry

theorem chain_nearest (prev : List (Nat × String)) (k j : Nat) (t : String)
    (anc : List (Nat × String)) (h : chain prev k = (j, t) :: anc) :
    ∃ pre post, prev = pre ++ (j, t) :: post ∧ (∀ p ∈ pre, k ≤ p.1) ∧ j < k ∧
      anc = chain post j := by
  sorry

theorem spec_width_independent (f : Nat → Nat) (hf : ∀ a b, a < b → f a < f b)
    (items : List Item) :
    Spec.stacks (items.map (mapIndent f)) = Spec.stacks items := by
  sorry

theorem blank_ignored (items : List Item) :
    (stacks (items.filter (· ≠ .blank))).toOption = (stacks items).toOption := by
  sorry

theorem insertPath_idem (p : List String) (t : Cfg) :
    Cfg.insertPath p (Cfg.insertPath p t) = Cfg.insertPath p t := by
  sorry

theorem reject_iff (ls : List (Nat × String)) (k : Nat) (s : String)
    (hok : (stacks (ls.map fun p => Item.text p.1 p.2)).toOption.isSome) :
    (stacks ((ls ++ [(k, s)]).map fun p => Item.text p.1 p.2)).toOption.isNone
      ↔ consistent ls.reverse k = false := by
  sorry

end Annet.Offside.Lemmas
