/-
Lemmas for C09 (deploy side): `groupby` only cuts the command list into runs, every run is
wrapped by the session commands of its first element, `match_deploy_rule` follows the unique rule
chain when sibling rules are disjoint, and the apply-logic table has no commit command when
committing is disabled.
-/
import AnnetModel.Spec.Format

namespace Annet.Deploy.Lemmas
open Annet.Deploy Annet.Deploy.Spec
open Annet.Format (Ctx)

/-! ### itertools.groupby -/

theorem groupRuns_nonempty {α κ : Type} [BEq κ] (key : α → κ) (l : List α) : ∀ g ∈ groupRuns key l, g ≠ [] := by
  induction l with
  | nil => simp [groupRuns]
  | cons x xs ih =>
    rw [groupRuns]
    split
    · rename_i y g gs heq
      rw [heq] at ih
      split
      · intro g' hg'
        rcases List.mem_cons.mp hg' with h | h
        · subst h; simp
        · exact ih g' (List.mem_cons_of_mem _ h)
      · intro g' hg'
        rcases List.mem_cons.mp hg' with h | h
        · subst h; simp
        · exact ih g' h
    · intro g' hg'
      simp at hg'
      subst hg'; simp

theorem groupRuns_flatten {α κ : Type} [BEq κ] (key : α → κ) (l : List α) : (groupRuns key l).flatten = l := by
  induction l with
  | nil => simp [groupRuns]
  | cons x xs ih =>
    rw [groupRuns]
    split
    · rename_i y g gs heq
      rw [heq] at ih
      split <;> simp_all
    · rename_i hne
      cases hg : groupRuns key xs with
      | nil => rw [hg] at ih; simp at ih; simp [ih]
      | cons g gs =>
        cases g with
        | nil => exact absurd rfl (groupRuns_nonempty key xs [] (by rw [hg]; exact List.mem_cons_self))
        | cons y g => exact absurd hg (hne y g gs)

/-- when all keys are equal `groupby` yields one run: the whole list -/
theorem groupRuns_single {α κ : Type} [BEq κ] (key : α → κ) (l : List α) (hne : l ≠ [])
    (h : ∀ x ∈ l, ∀ y ∈ l, (key x == key y) = true) : groupRuns key l = [l] := by
  induction l with
  | nil => exact absurd rfl hne
  | cons x xs ih =>
    cases xs with
    | nil => simp [groupRuns]
    | cons y ys =>
      have ih' := ih (by simp) (fun a ha b hb => h a (List.mem_cons_of_mem _ ha) b (List.mem_cons_of_mem _ hb))
      rw [groupRuns, ih']
      simp only
      rw [if_pos (h x (List.mem_cons_self) y (List.mem_cons_of_mem _ List.mem_cons_self))]

/-! ### the first loop -/

/-- element-wise relation between two lists of equal length -/
inductive Forall2 {α β : Type} (R : α → β → Prop) : List α → List β → Prop
  | nil : Forall2 R [] []
  | cons {a : α} {b : β} {as : List α} {bs : List β} : R a b → Forall2 R as bs → Forall2 R (a :: as) (b :: bs)

/-- `(cmd, level)` of a command path -/
def pathCmd (p : List String × Ctx) : String × Nat := (p.1.getLast?.getD "", p.1.length - 1)

theorem forall2_mem_right {α β : Type} {R : α → β → Prop} {as : List α} {bs : List β} (h : Forall2 R as bs) :
    ∀ b ∈ bs, ∃ a ∈ as, R a b := by
  induction h with
  | nil => intro b hb; cases hb
  | cons hab _ ih =>
    intro b hb
    rcases List.mem_cons.mp hb with e | e
    · subst e; exact ⟨_, List.mem_cons_self, hab⟩
    · obtain ⟨a, ha, hr⟩ := ih b e
      exact ⟨a, List.mem_cons_of_mem _ ha, hr⟩

theorem forall2_imp {α β : Type} {R S : α → β → Prop} {as : List α} {bs : List β} (h : Forall2 R as bs)
    (hi : ∀ a b, R a b → S a b) : Forall2 S as bs := by
  induction h with
  | nil => exact Forall2.nil
  | cons hab _ ih => exact Forall2.cons (hi _ _ hab) ih

theorem forall2_ne_nil {α β : Type} {R : α → β → Prop} {as : List α} {bs : List β} (h : Forall2 R as bs)
    (hne : as ≠ []) : bs ≠ [] := by
  cases h with
  | nil => exact absurd rfl hne
  | cons _ _ => simp

theorem cmdOf_cmd {rx : Rx} {tab : ApplyTab} {hw : String} {rules : List DRule} {df dc : Bool}
    {p : List String × Ctx} {w : WithApply} (h : cmdOf rx tab hw rules df dc p = .ok w) :
    (w.cmd.cmd, w.cmd.level) = pathCmd p := by
  unfold cmdOf at h
  split at h
  · cases h
  · split at h
    · cases h
    · split at h
      · cases h
      · split at h
        · cases h
        · rename_i last hl
          cases h
          simp [pathCmd, hl]

theorem cmdsWithApply_forall {rx : Rx} {tab : ApplyTab} {hw : String} {rules : List DRule} {df dc : Bool} :
    ∀ {paths : List (List String × Ctx)} {cwa : List WithApply},
      cmdsWithApply rx tab hw rules df dc paths = .ok cwa →
      Forall2 (fun p w => cmdOf rx tab hw rules df dc p = .ok w) paths cwa := by
  intro paths
  induction paths with
  | nil => intro cwa h; simp [cmdsWithApply] at h; cases h; exact Forall2.nil
  | cons p ps ih =>
    intro cwa h
    rw [cmdsWithApply] at h
    split at h
    · cases h
    · rename_i c hc
      split at h
      · cases h
      · rename_i cs hcs
        cases h
        exact Forall2.cons hc (ih hcs)

theorem forall2_map_cmd {rx : Rx} {tab : ApplyTab} {hw : String} {rules : List DRule} {df dc : Bool}
    {paths : List (List String × Ctx)} {cwa : List WithApply}
    (h : Forall2 (fun p w => cmdOf rx tab hw rules df dc p = .ok w) paths cwa) :
    cwa.map (fun w => (w.cmd.cmd, w.cmd.level)) = paths.map pathCmd := by
  induction h with
  | nil => rfl
  | cons hpw _ ih => simp [ih, cmdOf_cmd hpw]

/-! ### wrapping -/

theorem fillCmds_spec {rx : Rx} {rules : List DRule} :
    ∀ {cs : List TabCmd} {xs : List Cmd}, fillCmds rx rules cs = .ok xs →
      xs.map (·.cmd) = cs.map (·.cmd) ∧ ∀ x ∈ xs, x.level = 0 := by
  intro cs
  induction cs with
  | nil => intro xs h; simp [fillCmds] at h; cases h; simp
  | cons c cs ih =>
    intro xs h
    rw [fillCmds] at h
    split at h
    · cases h
    · rename_i x hx
      split at h
      · cases h
      · rename_i xs' hxs
        cases h
        obtain ⟨h1, h2⟩ := ih hxs
        have hxc : x.cmd = c.cmd ∧ x.level = 0 := by
          unfold fillCmd at hx
          split at hx
          · cases hx
          · split at hx
            · cases hx
            · cases hx; exact ⟨rfl, rfl⟩
        refine ⟨by simp [h1, hxc.1], ?_⟩
        intro y hy
        rcases List.mem_cons.mp hy with hy | hy
        · subst hy; exact hxc.2
        · exact h2 y hy

/-- the shape of the command list: every run between the filled `before`/`after` of its first element -/
inductive Wrapped (rx : Rx) (rules : List DRule) : List (List WithApply) → List Cmd → Prop
  | nil : Wrapped rx rules [] []
  | cons {w : WithApply} {ws : List WithApply} {gs : List (List WithApply)} {b a out : List Cmd} :
      fillCmds rx rules w.before = .ok b → fillCmds rx rules w.after = .ok a → Wrapped rx rules gs out →
      Wrapped rx rules ((w :: ws) :: gs) (b ++ (w :: ws).map (·.cmd) ++ a ++ out)

theorem wrapGroups_wrapped {rx : Rx} {rules : List DRule} :
    ∀ {gs : List (List WithApply)} {out : List Cmd}, (∀ g ∈ gs, g ≠ []) →
      wrapGroups rx rules gs = .ok out → Wrapped rx rules gs out := by
  intro gs
  induction gs with
  | nil => intro out _ h; simp [wrapGroups] at h; cases h; exact Wrapped.nil
  | cons g gs ih =>
    intro out hne h
    rw [wrapGroups] at h
    split at h
    · cases h
    · rename_i x hx
      split at h
      · cases h
      · rename_i xs hxs
        cases h
        cases g with
        | nil => exact absurd rfl (hne [] List.mem_cons_self)
        | cons w ws =>
          rw [wrapGroup] at hx
          split at hx
          · cases hx
          · rename_i b hb
            split at hx
            · cases hx
            · rename_i a ha
              cases hx
              exact Wrapped.cons hb ha (ih (fun g hg => hne g (List.mem_cons_of_mem _ hg)) hxs)

/-- the commands of the patch are a subsequence of the command list (nothing lost, nothing reordered) -/
theorem wrapped_sublist {rx : Rx} {rules : List DRule} {gs : List (List WithApply)} {out : List Cmd}
    (h : Wrapped rx rules gs out) : (gs.flatten.map (·.cmd)).Sublist out := by
  induction h with
  | nil => simp
  | @cons w ws gs b a out _ _ _ ih =>
    simp only [List.flatten_cons, List.map_append]
    have h1 : ((w :: ws).map (·.cmd)).Sublist (b ++ (w :: ws).map (·.cmd) ++ a) :=
      (List.sublist_append_right _ _).trans (List.sublist_append_left _ _)
    exact List.Sublist.append h1 ih

/-- every command of the list is a patch command or a filled wrapper command of some run's first element -/
theorem wrapped_mem {rx : Rx} {rules : List DRule} {gs : List (List WithApply)} {out : List Cmd}
    (h : Wrapped rx rules gs out) :
    ∀ c ∈ out, c ∈ gs.flatten.map (·.cmd) ∨
      ∃ w ∈ gs.flatten, c.level = 0 ∧ (c.cmd ∈ w.before.map (·.cmd) ∨ c.cmd ∈ w.after.map (·.cmd)) := by
  induction h with
  | nil => simp
  | @cons w ws gs b a out hb ha _ ih =>
    intro c hc
    simp only [List.flatten_cons, List.map_append, List.mem_append] at hc ⊢
    have hw : w ∈ (w :: ws) ∨ w ∈ gs.flatten := Or.inl List.mem_cons_self
    rcases hc with ((hc | hc) | hc) | hc
    · obtain ⟨h1, h2⟩ := fillCmds_spec hb
      right
      refine ⟨w, hw, h2 c hc, Or.inl ?_⟩
      rw [← h1]; exact List.mem_map.mpr ⟨c, hc, rfl⟩
    · left; left; exact hc
    · obtain ⟨h1, h2⟩ := fillCmds_spec ha
      right
      refine ⟨w, hw, h2 c hc, Or.inr ?_⟩
      rw [← h1]; exact List.mem_map.mpr ⟨c, hc, rfl⟩
    · rcases ih c hc with h | ⟨w', hw', h⟩
      · left; right; exact h
      · right; exact ⟨w', Or.inr hw', h⟩

/-- decomposition of `apply_deploy_rulebook` -/
theorem apply_decompose {rx : Rx} {tab : ApplyTab} {hw : String} {rules : List DRule}
    {paths : List (List String × Ctx)} {df dc : Bool} {out : List Cmd}
    (h : applyDeployRulebook rx tab hw rules paths df dc = .ok out) :
    ∃ cwa gs, Forall2 (fun p w => cmdOf rx tab hw rules df dc p = .ok w) paths cwa ∧
      gs.flatten = cwa ∧ gs = groupRuns groupKey cwa ∧ Wrapped rx rules gs out := by
  unfold applyDeployRulebook at h
  split at h
  · cases h
  · rename_i cwa hcwa
    exact ⟨cwa, groupRuns groupKey cwa, cmdsWithApply_forall hcwa, groupRuns_flatten _ _, rfl,
      wrapGroups_wrapped (groupRuns_nonempty _ _) h⟩

/-! ### the apply-logic table -/

/-- no entry of the table with `do_commit = false` contains a commit command -/
def tabNoCommit (tab : ApplyTab) : Bool :=
  tab.all fun e => e.doCommit || match e.result with
    | none => true
    | some (b, a) => (b ++ a).all fun c => !isCommitCmd c.cmd

theorem applyLogic_noCommit {tab : ApplyTab} (ht : tabNoCommit tab = true) {logic hw : String} {df : Bool}
    {b a : List TabCmd} (h : applyLogic tab logic hw false df = .ok (b, a)) :
    ∀ c ∈ b ++ a, isCommitCmd c.cmd = false := by
  unfold applyLogic at h
  split at h
  · rename_i e he
    split at h
    · rename_i r hr
      cases h
      have hmem := List.mem_of_find?_eq_some he
      have hp := List.find?_some he
      have hall := (List.all_eq_true.mp ht) e hmem
      have hdc : e.doCommit = false := by
        simp only [Bool.and_eq_true, beq_iff_eq] at hp
        exact hp.1.2
      rw [hdc, hr] at hall
      simp only [Bool.false_or] at hall
      intro c hc
      have := (List.all_eq_true.mp hall) c hc
      simpa using this
    · cases h
  · cases h

theorem cmdOf_before_after {rx : Rx} {tab : ApplyTab} {hw : String} {rules : List DRule} {df dc : Bool}
    {p : List String × Ctx} {w : WithApply} (h : cmdOf rx tab hw rules df dc p = .ok w) :
    ∃ r, matchDeployRule rx rules p.1 p.2 = .ok r ∧ applyLogic tab r.applyLogic hw dc df = .ok (w.before, w.after) ∧
      makeCmdParams r = .ok (w.cmd.questions, w.cmd.timeout) := by
  unfold cmdOf at h
  split at h
  · cases h
  · rename_i rule hr
    split at h
    · cases h
    · rename_i qs t hq
      split at h
      · cases h
      · rename_i b a ha
        split at h
        · cases h
        · cases h
          exact ⟨rule, hr, ha, hq⟩

/-! ### make_patch with do_commit = False -/

theorem yieldsToItems_noForceCommit (rec : Patch.PRec) (v : Rules.Vendor) (ordering : List Rules.ORule) (raw : String)
    (attrs : Rules.PAttrs) (ys : List Patch.Yield) :
    ∀ (items : List Patch.RawItem),
      Patch.yieldsToItems rec v ordering false raw attrs ys = .ok items → ∀ it ∈ items, it.forceCommit = false := by
  fun_induction Patch.yieldsToItems rec v ordering false raw attrs ys
  all_goals intro items h
  · cases h; simp
  · cases h
  · rename_i ih; exact ih items h
  · cases h
  · cases h
  · rename_i hfc sub ch hsub more hmore ih
    cases h
    intro it hit
    rcases List.mem_cons.mp hit with e | e
    · subst e; simpa using hfc
    · exact ih more hmore it e

/-! ### match_deploy_rule under disjoint sibling languages -/

theorem scanLevel_nomatch (rx : Rx) (ctx : Ctx) (isLast : Bool) (row : String) :
    ∀ (rules cur : List DRule), (∀ r ∈ rules, rx r.row row = false) →
      scanLevel rx ctx isLast row rules cur = .ok (.cont cur) := by
  intro rules
  induction rules with
  | nil => intro cur _; rfl
  | cons r rest ih =>
    intro cur h
    rw [scanLevel, if_neg (by simp [h r List.mem_cons_self])]
    exact ih cur (fun r' hr' => h r' (List.mem_cons_of_mem _ hr'))

/-- the inner loop when at most one rule of the level matches the row -/
theorem scanLevel_disjoint (rx : Rx) (ctx : Ctx) (isLast : Bool) (row : String) :
    ∀ (rules cur : List DRule) (st : Step),
      rules.Pairwise (fun a b => ¬ (rx a.row row = true ∧ rx b.row row = true)) →
      scanLevel rx ctx isLast row rules cur = .ok st →
      st = match rules.find? (fun r => rx r.row row && ctxHolds ctx r) with
        | none => .cont cur
        | some r => if isLast then .ret r else .cont r.children := by
  intro rules
  induction rules with
  | nil => intro cur st _ h; simp [scanLevel] at h; simp [← h]
  | cons r rest ih =>
    intro cur st hp h
    rw [List.pairwise_cons] at hp
    rw [scanLevel] at h
    by_cases hrx : rx r.row row = true
    · have hrest : ∀ r' ∈ rest, rx r'.row row = false := by
        intro r' hr'
        cases hh : rx r'.row row
        · rfl
        · exact absurd ⟨hrx, hh⟩ (hp.1 r' hr')
      rw [if_pos hrx] at h
      have hfind_rest : rest.find? (fun r => rx r.row row && ctxHolds ctx r) = none := by
        rw [List.find?_eq_none]
        intro r' hr'
        simp [hrest r' hr']
      cases hm : matchContext r.ifcontext ctx with
      | error e => rw [hm] at h; cases h
      | ok bmatch =>
        rw [hm] at h
        cases bmatch with
        | true =>
          have hh : ctxHolds ctx r = true := by simp [ctxHolds, hm]
          simp only [List.find?_cons, hrx, hh, Bool.and_self]
          simp only at h
          by_cases hl : isLast = true
          · rw [if_pos hl] at h; cases h; simp [hl]
          · rw [if_neg hl] at h
            simp only [hl]
            by_cases hch : r.children.isEmpty = true
            · rw [if_pos hch] at h; cases h
              have : r.children = [] := by simpa using hch
              simp [this]
            · rw [if_neg hch, scanLevel_nomatch rx ctx isLast row rest r.children hrest] at h
              cases h; simp
        | false =>
          have hh : ctxHolds ctx r = false := by simp [ctxHolds, hm]
          simp only [List.find?_cons, hrx, hh, Bool.and_false, hfind_rest]
          simp only at h
          rw [scanLevel_nomatch rx ctx isLast row rest cur hrest] at h
          cases h; rfl
    · rw [if_neg hrx] at h
      have hrx' : rx r.row row = false := by simpa using hrx
      simp only [List.find?_cons, hrx', Bool.false_and]
      exact ih cur st hp.2 h

theorem disjointL_mem {rx : Rx} : ∀ {rules : List DRule}, DisjointL rx rules → ∀ r ∈ rules, DisjointR rx r := by
  intro rules
  induction rules with
  | nil => intro _ r hr; cases hr
  | cons a rest ih =>
    intro h r hr
    rw [DisjointL] at h
    rcases List.mem_cons.mp hr with h1 | h1
    · subst h1; exact h.1
    · exact ih h.2 r h1

theorem disjointR_children {rx : Rx} {r : DRule} (h : DisjointR rx r) : Disjoint rx r.children := by
  cases r with
  | mk row t a d i ch =>
    rw [DisjointR] at h
    exact h

/-- under disjoint sibling languages `match_deploy_rule` returns the rule of the unique chain -/
theorem matchDeployRule_spec (rx : Rx) (ctx : Ctx) :
    ∀ (path : List String) (rules : List DRule) (r : DRule), Disjoint rx rules →
      matchDeployRule rx rules path ctx = .ok r → r = specChain rx ctx rules path := by
  intro path
  induction path with
  | nil => intro rules r _ h; simp [matchDeployRule] at h; simp [specChain, h]
  | cons row more ih =>
    intro rules r hd h
    rw [matchDeployRule] at h
    rw [specChain]
    cases hs : scanLevel rx ctx more.isEmpty row rules rules with
    | error e => rw [hs] at h; cases h
    | ok st =>
      rw [hs] at h
      have hst := scanLevel_disjoint rx ctx more.isEmpty row rules rules st (hd.1 row) hs
      cases hf : rules.find? (fun r => rx r.row row && ctxHolds ctx r) with
      | none =>
        rw [hf] at hst
        subst hst
        simp only at h ⊢
        exact ih rules r hd h
      | some r0 =>
        rw [hf] at hst
        simp only at hst ⊢
        by_cases hl : more.isEmpty = true
        · rw [if_pos hl] at hst ⊢
          subst hst
          simp only at h
          cases h; rfl
        · rw [if_neg hl] at hst ⊢
          subst hst
          simp only at h
          have hmem := List.mem_of_find?_eq_some hf
          exact ih r0.children r (disjointR_children (disjointL_mem hd.2 r0 hmem)) h

end Annet.Deploy.Lemmas
