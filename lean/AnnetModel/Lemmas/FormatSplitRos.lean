/-
C04 helper lemmas, part 5: RouterOS with sections of depth one (`rosFlat`): `split(join(t))` is the
reference rendering.
-/
import AnnetModel.Lemmas.FormatSplitText

namespace Annet.FormatSplit.Lemmas
open Annet Annet.Offside Annet.FormatSplit

/-- a list of children all of which are leaves -/
def AllLeaves (ls : List (String × Cfg)) : Prop := ∀ e ∈ ls, e.2.kids.isEmpty = true

/-- inside a section, a run of leaves is printed as is (no `prev_prow` at this depth) -/
theorem rosBlocksL_leaves (ctx : List Str) (ls : List (String × Cfg)) (h : AllLeaves ls) (b : Bool) :
    rosBlocksL ctx none b ls = ls.map fun e => Tok.row e.1.toList := by
  induction ls generalizing b with
  | nil => simp [rosBlocksL]
  | cons e rest ih =>
    obtain ⟨k, c⟩ := e
    have hc : c.kids.isEmpty = true := h (k, c) (by simp)
    have hr : AllLeaves rest := fun e he => h e (by simp [he])
    simp only [rosBlocksL, hc, if_true, Option.any_none, Bool.and_false, Bool.false_eq_true, if_false,
      List.nil_append, List.map_cons]
    rw [ih hr]

/-- `(k, c) ∈ ks` with `c` a non-empty list of leaves, for every entry -/
def FlatSections (ks : List (String × Cfg)) : Prop :=
  ∀ e ∈ ks, e.2.kids.isEmpty = false ∧ AllLeaves e.2.kids

/-- the token stream of a flat tree -/
def flatToks : List (String × Cfg) → List Tok
  | [] => []
  | (k, c) :: rest =>
    Tok.row k.toList :: Tok.bb :: ((c.kids.map fun e => Tok.row e.1.toList) ++ Tok.be :: flatToks rest)

theorem rosBlocksL_flat (ks : List (String × Cfg)) (h : FlatSections ks) :
    rosBlocksL [] none false ks = flatToks ks := by
  induction ks with
  | nil => simp [rosBlocksL, flatToks]
  | cons e rest ih =>
    obtain ⟨k, c⟩ := e
    obtain ⟨hc, hl⟩ := h (k, c) (by simp)
    have hr : FlatSections rest := fun e he => h e (by simp [he])
    simp only [rosBlocksL, hc, Bool.false_eq_true, if_false, Option.any_none, Bool.and_false, List.nil_append]
    obtain ⟨cs⟩ := c
    simp only [rosBlocks, flatToks, Cfg.kids] at hl ⊢
    rw [rosBlocksL_leaves _ cs hl, ih hr]
    simp

/-- what `_formatted_blocks` prints for the token stream of a flat tree -/
def flatLines (w : Nat) : List (String × Cfg) → List Str
  | [] => []
  | (k, c) :: rest =>
    ('/' :: strip k.toList) :: ((c.kids.map fun e => blanks w ++ e.1.toList) ++ flatLines w rest)

theorem rosFormatted_rows (ind : Str) (ls : List Str) (pend : Option Tok) (lvl : Int) (rest : List Tok) :
    rosFormatted pend (indentBlocks ind lvl ((ls.map Tok.row) ++ Tok.be :: rest))
      = (match pend with | some (.row s) => [s] | _ => []) ++ ls.map (strMul ind lvl.toNat ++ ·)
        ++ rosFormatted (some .be) (indentBlocks ind (lvl - 1) rest) := by
  induction ls generalizing pend with
  | nil =>
    simp only [List.map_nil, List.nil_append, indentBlocks, List.append_nil]
    cases pend with
    | none => simp [rosFormatted]
    | some t => cases t <;> simp [rosFormatted]
  | cons l ls ih =>
    simp only [List.map_cons, List.cons_append, indentBlocks, rosFormatted]
    rw [ih]
    cases pend with
    | none => simp
    | some t => cases t <;> simp

theorem rosFormatted_flat (w : Nat) (ks : List (String × Cfg)) (pend : Option Tok)
    (hp : pend = none ∨ pend = some .be) :
    rosFormatted pend (indentBlocks (blanks w) 0 (flatToks ks)) = flatLines w ks := by
  induction ks generalizing pend with
  | nil => simp [flatToks, indentBlocks, rosFormatted, flatLines]
  | cons e rest ih =>
    obtain ⟨k, c⟩ := e
    simp only [flatToks, flatLines, indentBlocks]
    have h0 : strMul (blanks w) (0 : Int).toNat = [] := by simp [strMul]
    rw [h0, List.nil_append]
    have e1 : rosFormatted pend (Tok.row k.toList :: Tok.bb ::
          indentBlocks (blanks w) (0 + 1) (List.map (fun e => Tok.row e.1.toList) c.kids ++ Tok.be :: flatToks rest))
        = rosFormatted (some (Tok.row k.toList)) (Tok.bb ::
          indentBlocks (blanks w) (0 + 1) (List.map (fun e => Tok.row e.1.toList) c.kids ++ Tok.be :: flatToks rest)) := by
      rcases hp with rfl | rfl <;> simp [rosFormatted]
    rw [e1]
    simp only [rosFormatted]
    have e2 : List.map (fun e : String × Cfg => Tok.row e.1.toList) c.kids
        = (c.kids.map fun e => e.1.toList).map Tok.row := by simp
    rw [e2, rosFormatted_rows]
    have h1 : strMul (blanks w) ((0 : Int) + 1).toNat = blanks w := by
      rw [strMul_blanks]; simp
    rw [h1]
    have h2 : ((0 : Int) + 1 - 1) = 0 := by omega
    rw [h2, ih (some .be) (Or.inr rfl)]
    simp

/-! ## split -/

theorem splitWsAux_word (w : Str) (h : w.any pyIsSpace = false) (cur : Str) (hne : cur ≠ [] ∨ w ≠ []) :
    splitWsAux cur w = [cur.reverse ++ w] := by
  induction w generalizing cur with
  | nil =>
    have : cur ≠ [] := by rcases hne with h | h; exact h; exact absurd rfl h
    simp [splitWsAux, this]
  | cons c cs ih =>
    simp only [List.any_cons, Bool.or_eq_false_iff] at h
    simp only [splitWsAux, h.1, Bool.false_eq_true, if_false]
    rw [ih h.2 (c :: cur) (Or.inl (by simp))]
    simp

theorem replaceChar_none (old : Char) (new : Str) (s : Str) (h : s.any (· == old) = false) :
    replaceChar old new s = s := by
  induction s with
  | nil => simp [replaceChar]
  | cons c cs ih =>
    simp only [List.any_cons, Bool.or_eq_false_iff] at h
    simp only [replaceChar, List.map_cons, h.1, Bool.false_eq_true, if_false, List.flatten_cons] at ih ⊢
    rw [ih h.2]
    simp

/-- the facts about a section word that `split` needs -/
theorem rosSection_facts (k : String) (h : rosSection k = true) :
    rowBase k.toList = true ∧ k.toList.any pyIsSpace = false ∧ k.toList.any (· == '/') = false ∧
      rosHasSplitter ('/' :: k.toList) = false := by
  simp only [rosSection, Bool.and_eq_true, Bool.not_eq_true', List.any_eq_false, Bool.or_eq_true,
    not_or] at h
  refine ⟨h.1.1, ?_, ?_, h.2⟩
  · simp only [List.any_eq_false]
    intro c hc
    simpa using (h.1.2 c hc).1
  · simp only [List.any_eq_false]
    intro c hc
    simpa using (h.1.2 c hc).2

/-- the lines `split` builds from the printed lines of a flat tree: the reference rendering -/
theorem rosSplitLoop_flat (w : Nat) (hw : 0 < w) (ks : List (String × Cfg))
    (hs : ∀ e ∈ ks, rosSection e.1 = true ∧ ∀ e' ∈ e.2.kids, rowBase e'.1.toList = true ∧ e'.2.kids.isEmpty = true)
    (level : Nat) :
    rosSplitLoop (blanks w) level (flatLines w ks) = some (renderL w 0 ks) := by
  induction ks generalizing level with
  | nil => simp [flatLines, rosSplitLoop, renderL]
  | cons e rest ih =>
    obtain ⟨k, c⟩ := e
    obtain ⟨hk, hl⟩ := hs (k, c) (by simp)
    have hr := fun e he => hs e (List.mem_cons_of_mem _ he)
    obtain ⟨hb, hsp, hsl, hsplit⟩ := rosSection_facts k hk
    simp only [flatLines, renderL]
    have hst : strip k.toList = k.toList := by simpa [blanks] using strip_line 0 k.toList hb
    rw [hst]
    rw [rosSplitLoop]
    simp only [List.isPrefixOf_cons_cons, beq_self_eq_true, List.isPrefixOf_nil_left, Bool.and_self,
      if_true, hsplit, Bool.false_eq_true, if_false]
    have hws : splitWs ('/' :: k.toList) = ['/' :: k.toList] := by
      have hsp' : ('/' :: k.toList).any pyIsSpace = false := by
        simp only [List.any_cons, hsp, Bool.or_false]; decide
      have := splitWsAux_word ('/' :: k.toList) hsp' [] (Or.inr (by simp))
      simpa [splitWs] using this
    rw [hws]
    have hg : rosGroups (blanks w) 0 ['/' :: k.toList] = [k.toList] := by
      simp only [rosGroups, strMul, List.replicate_zero, List.flatten_nil, List.nil_append]
      have : replaceChar '/' [] ('/' :: k.toList) = replaceChar '/' [] k.toList := by
        simp [replaceChar]
      rw [this, replaceChar_none _ _ _ hsl]
    rw [hg]
    simp only [List.length_cons, List.length_nil, Nat.zero_add]
    -- the leaves, at level 1
    obtain ⟨cs⟩ := c
    simp only [Cfg.kids] at hl ⊢
    have leaves : ∀ (ls : List (String × Cfg)),
        (∀ e' ∈ ls, rowBase e'.1.toList = true ∧ e'.2.kids.isEmpty = true) → ∀ tail out,
        rosSplitLoop (blanks w) 1 tail = some out →
        rosSplitLoop (blanks w) 1 ((ls.map fun e => blanks w ++ e.1.toList) ++ tail)
          = some (renderL w 1 ls ++ out) := by
      intro ls
      induction ls with
      | nil => intro _ tail out h; simpa [renderL] using h
      | cons e' ls' ih' =>
        intro hls tail out h
        obtain ⟨r, c'⟩ := e'
        obtain ⟨hrb, hc'⟩ := hls (r, c') (by simp)
        obtain ⟨cs'⟩ := c'
        simp only [Cfg.kids, List.isEmpty_iff] at hc'
        subst hc'
        simp only [List.map_cons, List.cons_append, renderL, render]
        rw [rosSplitLoop]
        have hnp : List.isPrefixOf ['/'] (blanks w ++ r.toList) = false := by
          obtain ⟨w', rfl⟩ : ∃ w', w = w' + 1 := ⟨w - 1, by omega⟩
          simp only [blanks, List.replicate_succ, List.cons_append, List.isPrefixOf_cons_cons]
          have : ('/' == ' ') = false := by decide
          simp [this]
        simp only [hnp, Bool.false_eq_true, if_false, Nat.zero_lt_one, if_true]
        rw [strip_line w r.toList hrb, ih' (fun e he => hls e (List.mem_cons_of_mem _ he)) tail out h,
          strMul_blanks]
        simp
    rw [leaves cs hl _ _ (ih hr 1)]
    simp [blanks, render]

/-! ## what `rosFlat` says -/

/-- a run of leaves accepted by `rosBodyL`: base rows, pairwise distinct -/
theorem rosBodyL_leaves (cs : List (String × Cfg)) (hl : AllLeaves cs) (b : Bool)
    (h : rosBodyL b cs = true) :
    (∀ e ∈ cs, rowBase e.1.toList = true) ∧ wfL (fun r => rowBase r.toList) cs = true := by
  induction cs with
  | nil => simp [wfL]
  | cons e rest ih =>
    obtain ⟨k, c⟩ := e
    have hc : c.kids.isEmpty = true := hl (k, c) (by simp)
    have hr : AllLeaves rest := fun e he => hl e (by simp [he])
    simp only [rosBodyL, hc, if_true, Bool.and_eq_true] at h
    obtain ⟨hd, ⟨_, hk⟩, hrest⟩ := h
    obtain ⟨ih1, ih2⟩ := ih hr hrest
    obtain ⟨cs'⟩ := c
    simp only [Cfg.kids, List.isEmpty_iff] at hc
    subst hc
    refine ⟨?_, ?_⟩
    · intro e he
      simp only [List.mem_cons] at he
      rcases he with rfl | he
      · exact hk
      · exact ih1 e he
    · simp only [wfL, wf, Bool.and_eq_true]
      exact ⟨⟨⟨hk, hd⟩, trivial⟩, ih2⟩

/-- a run of depth-one sections accepted by `rosBodyL` -/
theorem rosBodyL_sections (ks : List (String × Cfg)) (hf : FlatSections ks) (b : Bool)
    (h : rosBodyL b ks = true) :
    (∀ e ∈ ks, rosSection e.1 = true ∧
        ∀ e' ∈ e.2.kids, rowBase e'.1.toList = true ∧ e'.2.kids.isEmpty = true) ∧
      wfL (fun r => rowBase r.toList) ks = true := by
  induction ks generalizing b with
  | nil => simp [wfL]
  | cons e rest ih =>
    obtain ⟨k, c⟩ := e
    obtain ⟨hc, hl⟩ := hf (k, c) (by simp)
    have hr : FlatSections rest := fun e he => hf e (by simp [he])
    simp only [rosBodyL, hc, Bool.false_eq_true, if_false, Bool.and_eq_true] at h
    obtain ⟨hd, ⟨hk, hbody⟩, hrest⟩ := h
    obtain ⟨ih1, ih2⟩ := ih hr true hrest
    obtain ⟨cs⟩ := c
    simp only [rosBody] at hbody
    simp only [Cfg.kids] at hl
    obtain ⟨l1, l2⟩ := rosBodyL_leaves cs hl false hbody
    refine ⟨?_, ?_⟩
    · intro e he
      simp only [List.mem_cons] at he
      rcases he with rfl | he
      · refine ⟨hk, ?_⟩
        intro e' he'
        exact ⟨l1 e' he', hl e' he'⟩
      · exact ih1 e he
    · simp only [wfL, wf, Bool.and_eq_true]
      exact ⟨⟨⟨(rosSection_facts k hk).1, hd⟩, l2⟩, ih2⟩

theorem rosFlat_facts (ks : List (String × Cfg)) (h : rosFlat (.mk ks) = true) :
    FlatSections ks ∧ rosBodyL false ks = true := by
  simp only [rosFlat, rosTop, rosBody, Cfg.kids, Bool.and_eq_true, List.all_eq_true,
    Bool.not_eq_true'] at h
  obtain ⟨⟨h1, h2⟩, h3⟩ := h
  refine ⟨?_, h2⟩
  intro e he
  refine ⟨h1 e he, ?_⟩
  intro e' he'
  exact h3 e he e' he'

theorem flatLines_plain (w : Nat) (ks : List (String × Cfg))
    (hs : ∀ e ∈ ks, rosSection e.1 = true ∧
      ∀ e' ∈ e.2.kids, rowBase e'.1.toList = true ∧ e'.2.kids.isEmpty = true) :
    ∀ l ∈ flatLines w ks, '\n' ∉ l := by
  induction ks with
  | nil => simp [flatLines]
  | cons e rest ih =>
    obtain ⟨k, c⟩ := e
    obtain ⟨hk, hl⟩ := hs (k, c) (by simp)
    have hr := fun e he => hs e (List.mem_cons_of_mem _ he)
    have hb := (rosSection_facts k hk).1
    intro l hmem
    simp only [flatLines, List.mem_cons, List.mem_append, List.mem_map] at hmem
    rcases hmem with rfl | ⟨e', he', rfl⟩ | hmem
    · have hst : strip k.toList = k.toList := by simpa [blanks] using strip_line 0 k.toList hb
      rw [hst]
      have := (line_plain 0 k.toList hb).2
      simp only [blanks, List.replicate_zero, List.nil_append] at this
      intro hm
      simp only [List.mem_cons] at hm
      rcases hm with hm | hm
      · exact absurd hm (by decide)
      · exact this hm
    · exact (line_plain w _ (hl e' he').1).2
    · exact ih hr l hmem

theorem renderL_nonEmpty (w d : Nat) (ks : List (String × Cfg))
    (h : wfL (fun r => rowBase r.toList) ks = true) : nonEmpty (renderL w d ks) = renderL w d ks := by
  simp only [nonEmpty]
  rw [List.filter_eq_self]
  intro l hl
  obtain ⟨n, r, rfl, hr⟩ := mem_render (fun r => rowBase r.toList) w d (.mk ks) (by simpa [wf] using h) l
    (by simpa [render] using hl)
  have := (line_plain n r.toList hr).1
  revert this
  cases blanks n ++ r.toList <;> simp

/-- RouterOS, sections of depth one: `split(join(t))` is the reference rendering -/
theorem ros_split_join (w : Nat) (hw : 0 < w) (t : Cfg) (h : rosFlat t = true) :
    rosSplit (blanks w) (rosJoin (blanks w) t) = some (render w 0 t) := by
  obtain ⟨ks⟩ := t
  obtain ⟨hf, hbody⟩ := rosFlat_facts ks h
  obtain ⟨hs, hwf⟩ := rosBodyL_sections ks hf false hbody
  simp only [rosSplit, rosJoin, rosBlocks, render]
  rw [rosBlocksL_flat ks hf, rosFormatted_flat w ks none (Or.inl rfl)]
  cases ks with
  | nil => simp [flatLines, joinNl, splitNl, rosSplitLoop, renderL, nonEmpty, strMul]
  | cons e rest =>
    have hne : flatLines w (e :: rest) ≠ [] := by
      obtain ⟨k, c⟩ := e
      simp [flatLines]
    rw [splitNl_joinNl _ hne (flatLines_plain w _ hs), rosSplitLoop_flat w hw _ hs 0]
    simp only [Option.map_some]
    rw [renderL_nonEmpty w 0 _ hwf]

/-- a flat RouterOS tree is a tree of base rows with distinct siblings -/
theorem rosFlat_wf (t : Cfg) (h : rosFlat t = true) : wf (fun r => rowBase r.toList) t = true := by
  obtain ⟨ks⟩ := t
  obtain ⟨hf, hbody⟩ := rosFlat_facts ks h
  simp only [wf]
  exact (rosBodyL_sections ks hf false hbody).2

end Annet.FormatSplit.Lemmas
