/-
C19 — helper lemmas for `Props/C19.lean`.
-/
import AnnetModel.Model.Files
import AnnetModel.Spec.Files

namespace Annet.Files.Lemmas
open Annet.Files Annet.Files.Spec

/-! ### association lists -/

theorem lookup_dictSet {β : Type} (d : List (Path × β)) (k k' : Path) (v : β) :
    lookup k' (dictSet d k v) = if k = k' then some v else lookup k' d := by
  induction d with
  | nil => simp [dictSet, lookup]
  | cons e rest ih =>
    obtain ⟨ke, ve⟩ := e
    simp only [dictSet]
    split
    · rename_i h; subst h
      simp only [lookup]; split <;> simp_all
    · rename_i h
      simp only [lookup, ih]
      split
      · rename_i h2; subst h2; simp [Ne.symm h] 
      · rfl

theorem mem_dictSet {β : Type} (d : List (Path × β)) (k : Path) (v : β) (e : Path × β)
    (h : e ∈ dictSet d k v) : e ∈ d ∨ e = (k, v) := by
  induction d with
  | nil => simp [dictSet] at h; exact Or.inr h
  | cons x rest ih =>
    obtain ⟨kx, vx⟩ := x
    simp only [dictSet] at h
    split at h
    · rename_i hk; subst hk
      rcases List.mem_cons.mp h with h | h
      · exact Or.inr h
      · exact Or.inl (List.mem_cons_of_mem _ h)
    · rcases List.mem_cons.mp h with h | h
      · exact Or.inl (h ▸ List.mem_cons_self)
      · rcases ih h with h | h
        · exact Or.inl (List.mem_cons_of_mem _ h)
        · exact Or.inr h

theorem keys_dictSet {β : Type} (d : List (Path × β)) (k : Path) (v : β) :
    keys (dictSet d k v) = if k ∈ keys d then keys d else keys d ++ [k] := by
  induction d with
  | nil => simp [dictSet, keys]
  | cons x rest ih =>
    obtain ⟨kx, vx⟩ := x
    simp only [dictSet]
    split
    · rename_i hk; subst hk; simp [keys]
    · rename_i hk
      simp only [keys, List.map_cons, List.mem_cons] at ih ⊢
      rw [ih]
      have : ¬ k = kx := fun h => hk h.symm
      by_cases hm : k ∈ List.map (fun x => x.fst) rest <;> simp [hm, this]

theorem noDupKeys_dictSet {β : Type} (d : List (Path × β)) (k : Path) (v : β)
    (h : NoDupKeys d) : NoDupKeys (dictSet d k v) := by
  unfold NoDupKeys at *
  rw [keys_dictSet]
  split
  · exact h
  · rename_i hk
    rw [List.nodup_append]
    refine ⟨h, by simp, ?_⟩
    intro a ha b hb
    simp at hb; subst hb
    intro hab; subst hab; exact hk ha

theorem lookup_eq_none_iff {β : Type} (d : List (Path × β)) (k : Path) :
    lookup k d = none ↔ k ∉ keys d := by
  induction d with
  | nil => simp [lookup, keys]
  | cons x rest ih =>
    obtain ⟨kx, vx⟩ := x
    simp only [lookup, keys, List.map_cons, List.mem_cons] at ih ⊢
    split
    · rename_i h; subst h; simp
    · rename_i h
      rw [ih]
      constructor
      · intro h1 h2; rcases h2 with h2 | h2
        · exact h h2.symm
        · exact h1 h2
      · intro h1 h2; exact h1 (Or.inr h2)

theorem lookup_mem {β : Type} (d : List (Path × β)) (k : Path) (v : β)
    (h : lookup k d = some v) : (k, v) ∈ d := by
  induction d with
  | nil => simp [lookup] at h
  | cons x rest ih =>
    obtain ⟨kx, vx⟩ := x
    simp only [lookup] at h
    split at h
    · rename_i hk; subst hk; simp at h; subst h; exact List.mem_cons_self
    · exact List.mem_cons_of_mem _ (ih h)

theorem mem_lookup {β : Type} (d : List (Path × β)) (k : Path) (v : β)
    (hn : NoDupKeys d) (h : (k, v) ∈ d) : lookup k d = some v := by
  induction d with
  | nil => simp at h
  | cons x rest ih =>
    obtain ⟨kx, vx⟩ := x
    simp only [NoDupKeys, keys, List.map_cons, List.nodup_cons] at hn
    simp only [lookup]
    rcases List.mem_cons.mp h with h | h
    · cases h; simp
    · split
      · rename_i hk; subst hk
        exact absurd (List.mem_map_of_mem (f := (·.1)) h) hn.1
      · exact ih hn.2 h

/-! ### `add_entire`: the stored result is a winner -/

/-- invariant of the `entire_results` dict while results `seen` have been added -/
structure Inv (acc : Results) (seen : List EntireResult) : Prop where
  absent : ∀ p, lookup p acc = none → ∀ r ∈ seen, r.path = p → p = []
  winner : ∀ p r, lookup p acc = some r → IsWinner seen p r
  keyed : ∀ kv ∈ acc, kv.2.path = kv.1
  nodup : NoDupKeys acc

theorem inv_nil : Inv [] [] :=
  ⟨by simp, by simp [lookup], by simp, by simp [NoDupKeys, keys]⟩

theorem addEntire_inv (acc : Results) (seen : List EntireResult) (x : EntireResult)
    (h : Inv acc seen) : Inv (addEntire acc x) (seen ++ [x]) := by
  unfold addEntire
  by_cases hx : x.path = []
  · simp only [hx, if_true]
    refine ⟨?_, ?_, h.keyed, h.nodup⟩
    · intro p hp r hr hrp
      rcases List.mem_append.mp hr with hr | hr
      · exact h.absent p hp r hr hrp
      · simp at hr; subst hr; rw [← hrp, hx]
    · intro p r hl
      obtain ⟨h1, h2, h3, h4⟩ := h.winner p r hl
      refine ⟨List.mem_append_left _ h1, h2, h3, ?_⟩
      intro r' hr' hp'
      rcases List.mem_append.mp hr' with hr' | hr'
      · exact h4 r' hr' hp'
      · simp at hr'; subst hr'; exact absurd (hp' ▸ hx) h3
  · simp only [hx, if_false]
    cases hl : lookup x.path acc with
    | none =>
      simp only
      refine ⟨?_, ?_, ?_, noDupKeys_dictSet _ _ _ h.nodup⟩
      · intro p hp r hr hrp
        rw [lookup_dictSet] at hp
        split at hp
        · simp at hp
        · rename_i hne
          rcases List.mem_append.mp hr with hr | hr
          · exact h.absent p hp r hr hrp
          · simp at hr; subst hr; exact absurd hrp hne
      · intro p r hlk
        rw [lookup_dictSet] at hlk
        split at hlk
        · rename_i hp; subst hp
          simp at hlk; subst hlk
          refine ⟨by simp, rfl, hx, ?_⟩
          intro r' hr' hp'
          rcases List.mem_append.mp hr' with hr' | hr'
          · exact absurd (h.absent _ hl r' hr' hp') hx
          · simp at hr'; subst hr'; exact Int.le_refl _
        · rename_i hne
          obtain ⟨h1, h2, h3, h4⟩ := h.winner p r hlk
          refine ⟨List.mem_append_left _ h1, h2, h3, ?_⟩
          intro r' hr' hp'
          rcases List.mem_append.mp hr' with hr' | hr'
          · exact h4 r' hr' hp'
          · simp at hr'; subst hr'; exact absurd hp' hne
      · intro kv hkv
        rcases mem_dictSet _ _ _ _ hkv with hkv | hkv
        · exact h.keyed kv hkv
        · subst hkv; rfl
    | some cur =>
      simp only
      obtain ⟨c1, c2, c3, c4⟩ := h.winner _ _ hl
      by_cases hgt : x.prio > cur.prio
      · simp only [hgt, if_true]
        refine ⟨?_, ?_, ?_, noDupKeys_dictSet _ _ _ h.nodup⟩
        · intro p hp r hr hrp
          rw [lookup_dictSet] at hp
          split at hp
          · simp at hp
          · rename_i hne
            rcases List.mem_append.mp hr with hr | hr
            · exact h.absent p hp r hr hrp
            · simp at hr; subst hr; exact absurd hrp hne
        · intro p r hlk
          rw [lookup_dictSet] at hlk
          split at hlk
          · rename_i hp; subst hp
            simp at hlk; subst hlk
            refine ⟨by simp, rfl, hx, ?_⟩
            intro r' hr' hp'
            rcases List.mem_append.mp hr' with hr' | hr'
            · have := c4 r' hr' hp'; omega
            · simp at hr'; subst hr'; exact Int.le_refl _
          · rename_i hne
            obtain ⟨h1, h2, h3, h4⟩ := h.winner p r hlk
            refine ⟨List.mem_append_left _ h1, h2, h3, ?_⟩
            intro r' hr' hp'
            rcases List.mem_append.mp hr' with hr' | hr'
            · exact h4 r' hr' hp'
            · simp at hr'; subst hr'; exact absurd hp' hne
        · intro kv hkv
          rcases mem_dictSet _ _ _ _ hkv with hkv | hkv
          · exact h.keyed kv hkv
          · subst hkv; rfl
      · simp only [hgt, if_false]
        refine ⟨?_, ?_, h.keyed, h.nodup⟩
        · intro p hp r hr hrp
          rcases List.mem_append.mp hr with hr | hr
          · exact h.absent p hp r hr hrp
          · simp at hr; subst hr; subst hrp; rw [hl] at hp; simp at hp
        · intro p r hlk
          obtain ⟨h1, h2, h3, h4⟩ := h.winner p r hlk
          refine ⟨List.mem_append_left _ h1, h2, h3, ?_⟩
          intro r' hr' hp'
          rcases List.mem_append.mp hr' with hr' | hr'
          · exact h4 r' hr' hp'
          · simp at hr'; subst hr'
            subst hp'
            rw [hl] at hlk; simp at hlk; subst hlk
            omega

theorem foldl_addEntire_inv (rs : List EntireResult) (acc : Results) (seen : List EntireResult)
    (h : Inv acc seen) : Inv (rs.foldl addEntire acc) (seen ++ rs) := by
  induction rs generalizing acc seen with
  | nil => simpa using h
  | cons x rest ih =>
    have := ih (addEntire acc x) (seen ++ [x]) (addEntire_inv acc seen x h)
    simpa using this

/-! ### uniqueness of the winner, order independence -/

theorem pairwise_mem_cases {α : Type} {R : α → α → Prop} {l : List α} (h : l.Pairwise R)
    {a b : α} (ha : a ∈ l) (hb : b ∈ l) : a = b ∨ R a b ∨ R b a := by
  induction h with
  | nil => simp at ha
  | cons hx _ ih =>
    rcases List.mem_cons.mp ha with ha' | ha' <;> rcases List.mem_cons.mp hb with hb' | hb'
    · exact Or.inl (ha'.trans hb'.symm)
    · subst ha'; exact Or.inr (Or.inl (hx _ hb'))
    · subst hb'; exact Or.inr (Or.inr (hx _ ha'))
    · exact ih ha' hb'

theorem winner_unique (rs : List EntireResult) (hd : DistinctPrio rs) (p : Path)
    (r₁ r₂ : EntireResult) (h₁ : IsWinner rs p r₁) (h₂ : IsWinner rs p r₂) : r₁ = r₂ := by
  obtain ⟨a1, a2, _, a4⟩ := h₁
  obtain ⟨b1, b2, _, b4⟩ := h₂
  have e1 := a4 r₂ b1 b2
  have e2 := b4 r₁ a1 a2
  have heq : r₁.prio = r₂.prio := by omega
  rcases pairwise_mem_cases hd a1 b1 with h | h | h
  · exact h
  · exact absurd heq (h (a2.trans b2.symm))
  · exact absurd heq.symm (h (b2.trans a2.symm))

theorem distinctPrio_perm {rs rs' : List EntireResult} (hp : rs.Perm rs') (hd : DistinctPrio rs) :
    DistinctPrio rs' := by
  unfold DistinctPrio at *
  exact (hp.pairwise_iff (fun {a b} hab hpath => (hab hpath.symm).symm)).mp hd

theorem isWinner_perm {rs rs' : List EntireResult} (hp : rs.Perm rs') (p : Path) (r : EntireResult) :
    IsWinner rs p r ↔ IsWinner rs' p r := by
  unfold IsWinner
  constructor
  · rintro ⟨h1, h2, h3, h4⟩
    exact ⟨hp.mem_iff.mp h1, h2, h3, fun r' hr' => h4 r' (hp.mem_iff.mpr hr')⟩
  · rintro ⟨h1, h2, h3, h4⟩
    exact ⟨hp.mem_iff.mpr h1, h2, h3, fun r' hr' => h4 r' (hp.mem_iff.mp hr')⟩

def entireResults (rs : List EntireResult) : Results := rs.foldl addEntire []

theorem entireResults_inv (rs : List EntireResult) : Inv (entireResults rs) rs := by
  have := foldl_addEntire_inv rs [] [] inv_nil
  simpa [entireResults] using this

/-- the stored result for a path is exactly the winner (distinct priorities) -/
theorem lookup_entireResults_iff (rs : List EntireResult) (hd : DistinctPrio rs) (p : Path)
    (r : EntireResult) : lookup p (entireResults rs) = some r ↔ IsWinner rs p r := by
  have inv := entireResults_inv rs
  constructor
  · exact inv.winner p r
  · intro hw
    cases hl : lookup p (entireResults rs) with
    | none => exact absurd (inv.absent p hl r hw.1 hw.2.1) hw.2.2.1
    | some r₀ => rw [winner_unique rs hd p r₀ r (inv.winner p r₀ hl) hw]

theorem lookup_entireResults_perm {rs rs' : List EntireResult} (hp : rs.Perm rs')
    (hd : DistinctPrio rs) (p : Path) :
    lookup p (entireResults rs') = lookup p (entireResults rs) := by
  have hd' := distinctPrio_perm hp hd
  cases h : lookup p (entireResults rs) with
  | none =>
    cases h' : lookup p (entireResults rs') with
    | none => rfl
    | some r =>
      have := (lookup_entireResults_iff rs hd p r).mpr
        ((isWinner_perm hp p r).mpr ((lookup_entireResults_iff rs' hd' p r).mp h'))
      rw [h] at this; simp at this
  | some r =>
    exact (lookup_entireResults_iff rs' hd' p r).mpr
      ((isWinner_perm hp p r).mp ((lookup_entireResults_iff rs hd p r).mp h))

/-! ### `run_file_generators` is the fold of `add_entire` over what the generators produce -/

theorem runFrom_ok (dev : Dev) (gens : List Gen) (acc res : Results)
    (h : runFileGeneratorsFrom dev gens acc = .ok res) :
    res = (produced dev gens).foldl addEntire acc := by
  induction gens generalizing acc with
  | nil => simp [runFileGeneratorsFrom] at h; simp [produced, h]
  | cons g gs ih =>
    simp only [runFileGeneratorsFrom] at h
    simp only [produced, List.filterMap_cons]
    split at h
    · rename_i he; simp only [he]; exact ih acc h
    · simp at h
    · rename_i he; simp only [he]; exact ih acc h
    · rename_i r he; simp only [he, List.foldl_cons]; exact ih _ h

/-- a generator "raises" when running it alone ends in an exception other than `NotSupportedDevice` -/
def raises (dev : Dev) (g : Gen) : Prop :=
  ∃ e, runEntireGenerator dev g = .error e ∧ e ≠ .notSupported

theorem runFrom_ok_iff (dev : Dev) (gens : List Gen) (acc : Results) :
    (∃ res, runFileGeneratorsFrom dev gens acc = .ok res) ↔ ∀ g ∈ gens, ¬ raises dev g := by
  induction gens generalizing acc with
  | nil => simp [runFileGeneratorsFrom]
  | cons g gs ih =>
    simp only [runFileGeneratorsFrom, List.mem_cons, forall_eq_or_imp]
    split
    · rename_i he
      rw [ih]
      simp [raises, he]
    · rename_i e hne he
      simp only [raises]
      constructor
      · rintro ⟨res, h⟩; simp at h
      · rintro ⟨h, _⟩
        exact absurd ⟨e, he, hne⟩ h
    · rename_i he
      rw [ih]
      simp [raises, he]
    · rename_i r he
      rw [ih]
      simp [raises, he]

theorem produced_perm {dev : Dev} {gens gens' : List Gen} (hp : gens.Perm gens') :
    (produced dev gens).Perm (produced dev gens') := by
  unfold produced
  exact hp.filterMap _

theorem mem_produced (dev : Dev) (gens : List Gen) (r : EntireResult) :
    r ∈ produced dev gens ↔ ∃ g ∈ gens, runEntireGenerator dev g = .ok (some r) := by
  unfold produced
  simp only [List.mem_filterMap]
  constructor
  · rintro ⟨g, hg, h⟩
    refine ⟨g, hg, ?_⟩
    split at h
    · rename_i r' he; simp at h; subst h; exact he
    · simp at h
  · rintro ⟨g, hg, h⟩
    exact ⟨g, hg, by simp [h]⟩

/-! ### conditional dict-building folds -/

/-- `for k, a in l.items(): if cond: acc[k] = f(...)` over a dict `l` -/
theorem lookup_foldl_cond {α β : Type} (cond : Path × α → Bool) (f : Path × α → β)
    (l : List (Path × α)) (acc : List (Path × β)) (hn : NoDupKeys l) (p : Path) :
    lookup p (l.foldl (fun acc kv => if cond kv then dictSet acc kv.1 (f kv) else acc) acc) =
      match lookup p l with
      | some a => if cond (p, a) then some (f (p, a)) else lookup p acc
      | none => lookup p acc := by
  induction l generalizing acc with
  | nil => simp [lookup]
  | cons kv rest ih =>
    obtain ⟨k, a⟩ := kv
    simp only [NoDupKeys, keys, List.map_cons, List.nodup_cons] at hn
    simp only [List.foldl_cons]
    rw [ih _ hn.2]
    simp only [lookup]
    by_cases hk : k = p
    · subst hk
      have : lookup k rest = none := (lookup_eq_none_iff rest k).mpr hn.1
      simp only [this, if_true]
      by_cases hc : cond (k, a) = true
      · simp [hc, lookup_dictSet]
      · simp [hc]
    · simp only [hk, if_false]
      by_cases hc : cond (k, a) = true
      · simp [hc, lookup_dictSet, hk]
      · simp [hc]

theorem noDupKeys_foldl_cond {α β : Type} (cond : Path × α → Bool) (key : Path × α → Path)
    (f : Path × α → β) (l : List (Path × α)) (acc : List (Path × β)) (hn : NoDupKeys acc) :
    NoDupKeys (l.foldl (fun acc kv => if cond kv then dictSet acc (key kv) (f kv) else acc) acc) := by
  induction l generalizing acc with
  | nil => simpa using hn
  | cons kv rest ih =>
    simp only [List.foldl_cons]
    apply ih
    split
    · exact noDupKeys_dictSet _ _ _ hn
    · exact hn

/-! ### `new_files(safe)` -/

theorem newFiles_eq (safe : Bool) (res : Results) (hk : ∀ kv ∈ res, kv.2.path = kv.1) :
    newFiles safe res =
      res.foldl (fun files kv => if (!safe || kv.2.isSafe) then
        dictSet files kv.1 (kv.2.output, kv.2.reload) else files) [] := by
  unfold newFiles
  generalize ([] : NewFiles) = acc
  induction res generalizing acc with
  | nil => rfl
  | cons kv rest ih =>
    simp only [List.foldl_cons]
    rw [hk kv List.mem_cons_self]
    exact ih (fun kv' h' => hk kv' (List.mem_cons_of_mem _ h')) _

theorem lookup_newFiles (safe : Bool) (res : Results) (hk : ∀ kv ∈ res, kv.2.path = kv.1)
    (hn : NoDupKeys res) (p : Path) :
    lookup p (newFiles safe res) = (lookup p res).bind (planned safe) := by
  rw [newFiles_eq safe res hk,
    lookup_foldl_cond (fun kv => !safe || kv.2.isSafe) (fun kv => (kv.2.output, kv.2.reload)) res [] hn p]
  cases lookup p res with
  | none => simp [lookup]
  | some r => simp only [Option.bind, planned, lookup]

theorem noDupKeys_newFiles (safe : Bool) (res : Results) : NoDupKeys (newFiles safe res) := by
  unfold newFiles
  exact noDupKeys_foldl_cond (fun kv => !safe || kv.2.isSafe) (fun kv => kv.2.path)
    (fun kv => (kv.2.output, kv.2.reload)) res [] (by simp [NoDupKeys, keys])

/-! ### `parse_result`: projections of the upload loop -/

/-- the `if diff_content or force_reload:` test, as a Boolean -/
def uploadsB (ud : UDiff) (inp : JobIn) (kv : Path × (Text × Text)) : Bool :=
  decide (joinNl (diffFile ud (lookup kv.1 inp.oldFiles) kv.2.1) ≠ []) || inp.reload.isForce

theorem uploadsB_iff (ud : UDiff) (inp : JobIn) (p : Path) (c rl : Text) :
    uploadsB ud inp (p, (c, rl)) = true ↔ uploads ud inp p c := by
  simp [uploadsB, uploads, Reload.isForce]

theorem foldl_upload_files (ud : UDiff) (inp : JobIn) (nf : NewFiles) (st : JobOut) :
    (nf.foldl (uploadStep ud inp) st).files =
      nf.foldl (fun files kv => if uploadsB ud inp kv then dictSet files kv.1 kv.2.1 else files) st.files := by
  induction nf generalizing st with
  | nil => rfl
  | cons kv rest ih =>
    simp only [List.foldl_cons]
    rw [ih]
    congr 1
    simp only [uploadStep, uploadsB]
    split <;> (try split) <;> simp_all

theorem foldl_upload_cmds (ud : UDiff) (inp : JobIn) (nf : NewFiles) (st : JobOut) :
    (nf.foldl (uploadStep ud inp) st).cmds =
      nf.foldl (fun cmds kv => if (uploadsB ud inp kv && inp.reload.enable) then
        dictSet cmds kv.1 kv.2.2 else cmds) st.cmds := by
  induction nf generalizing st with
  | nil => rfl
  | cons kv rest ih =>
    simp only [List.foldl_cons]
    rw [ih]
    congr 1
    simp only [uploadStep, uploadsB]
    split <;> (try split) <;> simp_all

theorem foldl_upload_hasDiff (ud : UDiff) (inp : JobIn) (nf : NewFiles) (st : JobOut) :
    (nf.foldl (uploadStep ud inp) st).hasDiff = (st.hasDiff || nf.any (uploadsB ud inp)) := by
  induction nf generalizing st with
  | nil => simp
  | cons kv rest ih =>
    simp only [List.foldl_cons, List.any_cons]
    rw [ih]
    simp only [uploadStep, uploadsB]
    split <;> (try split) <;> simp_all

/-! ### the closing loop over the uploaded files -/

theorem finishFiles_cmds (before after : Text) (files cmds pre cmds' pre' : List (Path × Text))
    (hn : NoDupKeys files)
    (h : finishFiles before after files cmds pre = some (cmds', pre')) (p : Path) :
    lookup p cmds' = (lookup p cmds).map (fun c =>
      if after ≠ [] ∧ p ∈ keys files then c ++ ['\n'] ++ after else c) := by
  induction files generalizing cmds pre with
  | nil =>
    simp [finishFiles] at h
    simp [h.1, keys]
  | cons kv rest ih =>
    obtain ⟨k, v⟩ := kv
    have hk_notin : k ∉ keys rest := by
      simp only [NoDupKeys, keys, List.map_cons, List.nodup_cons] at hn; exact hn.1
    have hn2 : NoDupKeys rest := by
      simp only [NoDupKeys, keys, List.map_cons, List.nodup_cons] at hn; exact hn.2
    have hkeys : ∀ q, q ∈ keys ((k, v) :: rest) ↔ q = k ∨ q ∈ keys rest := by
      intro q; simp [keys]
    simp only [finishFiles] at h
    by_cases ha : after = []
    · subst ha
      simp at h
      rw [ih _ _ hn2 h]; simp
    · simp only [ne_eq, ha, not_false_eq_true, if_true] at h
      cases hc : lookup k cmds with
      | none => simp [hc] at h
      | some c =>
        simp only [hc] at h
        rw [ih _ _ hn2 h, lookup_dictSet]
        by_cases hkp : k = p
        · subst hkp
          simp only [if_true, hc, Option.map_some]
          rw [if_neg (fun hh => hk_notin hh.2), if_pos ⟨ha, (hkeys k).mpr (Or.inl rfl)⟩]
        · simp only [hkp, if_false]
          have hiff : (p ∈ keys ((k, v) :: rest)) ↔ p ∈ keys rest := by
            rw [hkeys]
            constructor
            · rintro (h | h)
              · exact absurd h.symm hkp
              · exact h
            · exact Or.inr
          simp only [hiff]

theorem finishFiles_some_iff (before after : Text) (files cmds pre : List (Path × Text)) :
    (finishFiles before after files cmds pre).isSome ↔
      (after = [] ∨ ∀ k ∈ keys files, (lookup k cmds).isSome) := by
  induction files generalizing cmds pre with
  | nil => simp [finishFiles, keys]
  | cons kv rest ih =>
    obtain ⟨k, v⟩ := kv
    simp only [finishFiles, keys, List.map_cons, List.mem_cons, forall_eq_or_imp]
    split
    · rename_i ha
      split
      · rename_i hc
        simp [hc, ha]
      · rename_i c hc
        rw [ih]
        simp only [ha, false_or, hc, Option.isSome_some, true_and, keys]
        constructor
        · intro h k' hk'
          have := h k' hk'
          rw [lookup_dictSet] at this
          split at this
          · rename_i hkk; subst hkk; simp [hc]
          · exact this
        · intro h k' hk'
          rw [lookup_dictSet]
          split
          · simp
          · exact h k' hk'
    · rename_i ha
      have ha' : after = [] := by simpa using ha
      rw [ih]; simp [ha']

/-! ### `parse_result`: what ends up in `files` and `cmds` -/

/-- state after the upload loop -/
def afterLoop (ud : UDiff) (inp : JobIn) : JobOut := inp.newFiles.foldl (uploadStep ud inp) {}

theorem afterLoop_files (ud : UDiff) (inp : JobIn) (hn : NoDupKeys inp.newFiles) (p : Path) :
    lookup p (afterLoop ud inp).files =
      (lookup p inp.newFiles).bind (fun cr => if uploadsB ud inp (p, cr) then some cr.1 else none) := by
  unfold afterLoop
  rw [foldl_upload_files, lookup_foldl_cond (uploadsB ud inp) (fun kv => kv.2.1) _ _ hn p]
  cases lookup p inp.newFiles <;> simp [lookup]

theorem afterLoop_cmds (ud : UDiff) (inp : JobIn) (hn : NoDupKeys inp.newFiles) (p : Path) :
    lookup p (afterLoop ud inp).cmds =
      (lookup p inp.newFiles).bind (fun cr =>
        if uploadsB ud inp (p, cr) && inp.reload.enable then some cr.2 else none) := by
  unfold afterLoop
  rw [foldl_upload_cmds,
    lookup_foldl_cond (fun kv => uploadsB ud inp kv && inp.reload.enable) (fun kv => kv.2.2) _ _ hn p]
  cases lookup p inp.newFiles <;> simp [lookup]

theorem afterLoop_noDup_files (ud : UDiff) (inp : JobIn) : NoDupKeys (afterLoop ud inp).files := by
  unfold afterLoop
  rw [foldl_upload_files]
  exact noDupKeys_foldl_cond (uploadsB ud inp) (fun kv => kv.1) (fun kv => kv.2.1) _ _
    (by simp [NoDupKeys, keys])

theorem afterLoop_hasDiff_false (ud : UDiff) (inp : JobIn) (h : (afterLoop ud inp).hasDiff = false)
    (p : Path) (cr : Text × Text) (hl : lookup p inp.newFiles = some cr) :
    uploadsB ud inp (p, cr) = false := by
  unfold afterLoop at h
  rw [foldl_upload_hasDiff] at h
  simp only [Bool.false_or, List.any_eq_false] at h
  have := h (p, cr) (lookup_mem _ _ _ hl)
  simpa using this

/-- shape of a successful `parse_result` on a result without error -/
theorem parseResult_ok_cases (ud : UDiff) (inp : JobIn) (out : JobOut) (he : inp.err = false)
    (h : parseResult ud inp = .ok out) :
    (out.files = (afterLoop ud inp).files ∧
      ((afterLoop ud inp).hasDiff = false ∧ out.cmds = (afterLoop ud inp).cmds ∨
       (afterLoop ud inp).hasDiff = true ∧ ∃ pre,
          finishFiles (joinNl inp.drv.before) (joinNl (inp.drv.after ++ inp.drv.exit))
            (afterLoop ud inp).files (afterLoop ud inp).cmds [] = some (out.cmds, pre))) := by
  unfold parseResult at h
  simp only [he, Bool.false_eq_true, if_false] at h
  split at h
  · rename_i hnil
    simp at h; subst h
    simp [afterLoop, hnil]
  · split at h
    · rename_i hd
      split at h
      · simp at h
      · rename_i cmds pre hf
        simp at h; subst h
        exact ⟨rfl, Or.inr ⟨hd, pre, hf⟩⟩
    · rename_i hd
      simp at h; subst h
      exact ⟨rfl, Or.inl ⟨by simpa [afterLoop] using hd, rfl⟩⟩

theorem parseResult_files (ud : UDiff) (inp : JobIn) (out : JobOut) (he : inp.err = false)
    (hn : NoDupKeys inp.newFiles) (h : parseResult ud inp = .ok out) (p : Path) :
    lookup p out.files =
      (lookup p inp.newFiles).bind (fun cr => if uploadsB ud inp (p, cr) then some cr.1 else none) := by
  rw [(parseResult_ok_cases ud inp out he h).1, afterLoop_files ud inp hn p]

theorem parseResult_cmds (ud : UDiff) (inp : JobIn) (out : JobOut) (he : inp.err = false)
    (hn : NoDupKeys inp.newFiles) (h : parseResult ud inp = .ok out) (p : Path) :
    lookup p out.cmds =
      (lookup p inp.newFiles).bind (fun cr =>
        if uploadsB ud inp (p, cr) && inp.reload.enable then some (cr.2 ++ driverTail inp.drv) else none) := by
  obtain ⟨_, hc⟩ := parseResult_ok_cases ud inp out he h
  rcases hc with ⟨hd, hc⟩ | ⟨hd, pre, hf⟩
  · rw [hc, afterLoop_cmds ud inp hn p]
    cases hl : lookup p inp.newFiles with
    | none => simp
    | some cr => simp [afterLoop_hasDiff_false ud inp hd p cr hl]
  · rw [finishFiles_cmds _ _ _ _ _ _ _ (afterLoop_noDup_files ud inp) hf p, afterLoop_cmds ud inp hn p]
    cases hl : lookup p inp.newFiles with
    | none => simp
    | some cr =>
      simp only [Option.bind]
      by_cases hu : uploadsB ud inp (p, cr) = true
      · by_cases hen : inp.reload.enable = true
        · have hmem : p ∈ keys (afterLoop ud inp).files := by
            have hne : lookup p (afterLoop ud inp).files ≠ none := by
              rw [afterLoop_files ud inp hn p, hl]; simp [hu]
            exact Classical.not_not.mp (fun hh => hne ((lookup_eq_none_iff _ _).mpr hh))
          simp only [hu, hen, Bool.and_self, if_true, Option.map_some, driverTail]
          by_cases ha : joinNl (inp.drv.after ++ inp.drv.exit) = []
          · simp [ha]
          · simp [ha, hmem]
        · simp [hu, hen]
      · simp [hu]

/-! ### the differ under `UdSpec` -/

theorem joinNl_nil : joinNl [] = [] := rfl

theorem diffFile_join_ne_nil_iff (ud : UDiff) (hud : UdSpec ud) (old : Option Text) (c : Text) :
    joinNl (diffFile ud old c) ≠ [] ↔ linesOf old ≠ linesOf (some c) := by
  unfold diffFile
  constructor
  · intro h heq
    rw [(hud _ _).1 heq] at h
    exact h rfl
  · intro h; exact (hud _ _).2 h

theorem diffFile_ne_nil_iff (ud : UDiff) (hud : UdSpec ud) (old : Option Text) (c : Text) :
    diffFile ud old c ≠ [] ↔ linesOf old ≠ linesOf (some c) := by
  unfold diffFile
  constructor
  · intro h heq
    exact h ((hud _ _).1 heq)
  · intro h hnil
    have := (hud _ _).2 h
    rw [hnil] at this
    exact this rfl

/-! ### `pc_diff` -/

theorem mem_insertByPath {β : Type} (x e : Path × β) (l : List (Path × β)) :
    e ∈ insertByPath x l ↔ e = x ∨ e ∈ l := by
  induction l with
  | nil => simp [insertByPath]
  | cons y ys ih =>
    simp only [insertByPath]
    split
    · simp
    · simp only [List.mem_cons, ih]
      constructor
      · rintro (h | h | h)
        · exact Or.inr (Or.inl h)
        · exact Or.inl h
        · exact Or.inr (Or.inr h)
      · rintro (h | h | h)
        · exact Or.inr (Or.inl h)
        · exact Or.inl h
        · exact Or.inr (Or.inr h)

theorem mem_sortByPath {β : Type} (e : Path × β) (l : List (Path × β)) :
    e ∈ sortByPath l ↔ e ∈ l := by
  induction l with
  | nil => simp [sortByPath]
  | cons y ys ih =>
    simp only [sortByPath, List.foldr_cons] at ih ⊢
    rw [mem_insertByPath, ih]; simp

theorem diffFiles_eq (ud : UDiff) (old : List (Path × Text)) (new : NewFiles) :
    diffFiles ud old new =
      new.foldl (fun ret kv => if true then dictSet ret kv.1
        (diffFile ud (lookup kv.1 old) kv.2.1, (lookup kv.1 old).isNone) else ret) [] := by
  simp [diffFiles]

theorem lookup_diffFiles (ud : UDiff) (old : List (Path × Text)) (new : NewFiles)
    (hn : NoDupKeys new) (p : Path) :
    lookup p (diffFiles ud old new) =
      (lookup p new).map (fun cr => (diffFile ud (lookup p old) cr.1, (lookup p old).isNone)) := by
  rw [diffFiles_eq,
    lookup_foldl_cond (fun _ => true)
      (fun kv => (diffFile ud (lookup kv.1 old) kv.2.1, (lookup kv.1 old).isNone)) new [] hn p]
  cases lookup p new <;> simp [lookup]

theorem noDupKeys_diffFiles (ud : UDiff) (old : List (Path × Text)) (new : NewFiles) :
    NoDupKeys (diffFiles ud old new) := by
  rw [diffFiles_eq]
  exact noDupKeys_foldl_cond (fun _ => true) (fun kv => kv.1) _ new [] (by simp [NoDupKeys, keys])

/-- a planned file is shown by `pc_diff` iff its diff is not empty -/
theorem shown_iff (ud : UDiff) (old : List (Path × Text)) (new : NewFiles) (hn : NoDupKeys new)
    (p : Path) (c rl : Text) (hl : lookup p new = some (c, rl)) :
    (∃ e ∈ pcDiffEntries ud old new, e.1 = p) ↔ diffFile ud (lookup p old) c ≠ [] := by
  have hlk := lookup_diffFiles ud old new hn p
  rw [hl] at hlk
  simp only [Option.map_some] at hlk
  unfold pcDiffEntries
  constructor
  · rintro ⟨e, he, hep⟩
    rw [List.mem_filter, mem_sortByPath] at he
    obtain ⟨k, v⟩ := e
    simp only at hep; subst hep
    have := mem_lookup _ _ _ (noDupKeys_diffFiles ud old new) he.1
    rw [hlk] at this
    simp at this
    have h2 := he.2
    simp only [decide_eq_true_eq] at h2
    rw [← this] at h2
    exact h2
  · intro hne
    refine ⟨(p, (diffFile ud (lookup p old) c, (lookup p old).isNone)), ?_, rfl⟩
    rw [List.mem_filter, mem_sortByPath]
    exact ⟨lookup_mem _ _ _ hlk, by simpa using hne⟩

/-! ### `splitlines` on canonical texts -/

theorem endsNl_tail (c : Char) (rest : Text) (h : endsNlOrEmpty (c :: rest) = true)
    (hr : rest ≠ []) : endsNlOrEmpty rest = true := by
  cases rest with
  | nil => exact absurd rfl hr
  | cons c' r => simpa [endsNlOrEmpty] using h

theorem unlines_splitAux (t cur : Text) (hsep : ∀ c ∈ t, isSep c = true → c = '\n')
    (hend : endsNlOrEmpty t = true) (hcur : t = [] → cur = []) :
    unlines (splitAux false t cur) = cur.reverse ++ t := by
  induction t generalizing cur with
  | nil => simp [hcur rfl, splitAux, unlines]
  | cons c rest ih =>
    have hsep' : ∀ c' ∈ rest, isSep c' = true → c' = '\n' :=
      fun c' hc' => hsep c' (List.mem_cons_of_mem _ hc')
    simp only [splitAux, Bool.false_and, Bool.false_eq_true, if_false]
    by_cases hs : isSep c = true
    · have hc : c = '\n' := hsep c List.mem_cons_self hs
      subst hc
      simp only [hs, if_true]
      have hcr : ('\n' == '\r') = false := by decide
      rw [hcr]
      have hend' : endsNlOrEmpty rest = true := by
        cases rest with
        | nil => rfl
        | cons c' r => simpa [endsNlOrEmpty] using hend
      have := ih [] hsep' hend' (fun _ => rfl)
      simp only [unlines, List.flatMap_cons] at this ⊢
      rw [this]; simp
    · have hs' : isSep c = false := by simpa using hs
      simp only [hs', Bool.false_eq_true, if_false]
      have hne : rest ≠ [] := by
        intro h; subst h
        simp only [endsNlOrEmpty, beq_iff_eq] at hend
        subst hend
        exact hs (by decide)
      have := ih (c :: cur) hsep' (endsNl_tail c rest hend hne) (fun h => absurd h hne)
      rw [this]; simp

theorem unlines_splitlines (t : Text) (h : Canonical t) : unlines (splitlines t) = t := by
  have := unlines_splitAux t [] h.1 h.2 (fun _ => rfl)
  simpa [splitlines] using this

theorem splitlines_nil : splitlines [] = [] := by simp [splitlines, splitAux]

theorem linesOf_some (t : Text) : linesOf (some t) = splitlines t := by
  simp only [linesOf]
  split
  · rename_i h; rw [h, splitlines_nil]
  · rfl

/-- on canonical Unix texts the lines determine the text -/
theorem splitlines_injective (a b : Text) (ha : Canonical a) (hb : Canonical b)
    (h : splitlines a = splitlines b) : a = b := by
  rw [← unlines_splitlines a ha, ← unlines_splitlines b hb, h]

theorem linesOf_eq_iff_canonical (old : Option Text) (c : Text)
    (hold : ∀ o, old = some o → Canonical o) (hc : Canonical c) (hmiss : old = none → c ≠ []) :
    linesOf old = linesOf (some c) ↔ old = some c := by
  cases old with
  | none =>
    simp only [reduceCtorEq, iff_false]
    intro h
    rw [linesOf_some] at h
    have := unlines_splitlines c hc
    rw [← h] at this
    exact hmiss rfl (by simpa [linesOf, unlines] using this.symm)
  | some o =>
    rw [linesOf_some, linesOf_some]
    constructor
    · intro h; rw [splitlines_injective o c (hold o rfl) hc h]
    · intro h; cases h; rfl

theorem udToy_spec : UdSpec udToy := by
  intro a b
  constructor
  · intro h; simp [udToy, h]
  · intro h; simp [udToy, h, joinNl, joinWith]

end Annet.Files.Lemmas
