/-
Nested convergence (C01 stage 2), part 4: one level of the patch tree executed on one level of the device,
given that the child trees converge (`level_converges`).
-/
import AnnetModel.Lemmas.ConvergeNestedPatch

namespace Annet.ConvergeNested.Lemmas

section
open Annet Annet.Rules Annet.Device Annet.Device.Abs Annet.Converge Annet.ConvergeNested
open Annet.Converge.Lemmas Annet.Device.Lemmas
open Annet.Diff Annet.Patch Annet.Patch.Lemmas

/-! ### what the items of a slot do to its entry -/

/-- two entries of a slot hold the same line with the same sub-block, slot by slot -/
def EntSame (rules : PRules) : Option (String × Cfg) → Option (String × Cfg) → Prop
  | none, none => True
  | some (ra, ca), some (rb, cb) => ra = rb ∧ SameC (crOf rules rb) ca cb
  | _, _ => False

theorem sortTree_nil : sortTree (.mk []) = .mk [] := by
  rw [sortTree, sortItems]; rfl

theorem applyTree_nil (env : Env) (rules : PRules) (kids : List (String × Cfg)) :
    applyTree env rules (.mk []) kids = kids := by
  rw [applyTree, applyItems]

theorem rem_act {env : Env} {rules : PRules} {x : RawItem} {r' : String} (hdir : x.direct = false)
    (hden : den env rules x.row = .del r') (a : Option (String × Cfg)) :
    itemAct env rules (finalOf x) a = none := by
  have hlf : isLeaf x = true := by simp [isLeaf, hdir]
  rw [finalOf_leaf hlf]
  simp only [itemAct, hden]

theorem put_act {env : Env} {rules : PRules} {x : RawItem} {m : PMatch} {cr : PRules} (hdir : x.direct = true)
    (hcl : classify rules x.row = some (m, cr)) (hden : den env rules x.row = .put x.row)
    (a : Option (String × Cfg)) :
    itemAct env rules (finalOf x) a =
      some (x.row, .mk (applyTree env cr (sortTree x.children) (keepOrNew x.row a).2.kids)) := by
  cases hlf : isLeaf x with
  | true =>
    rw [finalOf_leaf hlf]
    simp only [itemAct, hden]
    have hch : x.children = .mk [] := by
      unfold isLeaf at hlf
      simp only [hdir, Bool.not_true, Bool.or_false, Bool.and_eq_true, List.isEmpty_iff] at hlf
      generalize x.children = t at hlf
      obtain ⟨items⟩ := t
      simp only [PTree.items] at hlf
      rw [hlf.1]
    rw [hch, sortTree_nil, applyTree_nil, cfg_eta]
    congr 1
    have := keepOrNew_fst x.row a
    generalize keepOrNew x.row a = e at this
    obtain ⟨e1, e2⟩ := e
    simp only at this
    rw [this]
  | false =>
    rw [finalOf_block hlf]
    simp only [itemAct, hcl]

theorem keepOrNew_kids {rules : PRules} {old : List (String × Cfg)} (hwo : WF rules old) {s : Slot} {rb : String}
    (hs : slotOf rules rb = some s) : (keepOrNew rb (entryAt rules old s)).2.kids = subOf old rb := by
  have hnot : (∀ c, (rb, c) ∉ old) → subOf old rb = [] := by
    intro h
    apply subOf_of_not_mem
    intro hm
    obtain ⟨e, he, heq⟩ := List.mem_map.1 hm
    obtain ⟨r, c⟩ := e
    simp only at heq
    subst heq
    exact h c he
  cases ha : entryAt rules old s with
  | none =>
    rw [hnot]
    · rfl
    · intro c hc
      have := entryAt_of_mem hwo hc hs
      rw [ha] at this; cases this
  | some e =>
    obtain ⟨ra, ca⟩ := e
    by_cases hab : ra = rb
    · subst hab
      simp only [keepOrNew, if_true]
      rw [subOf_of_mem (rows_nodup hwo) (entryAt_some ha).1]
    · simp only [keepOrNew, hab, if_false]
      rw [hnot]
      · rfl
      · intro c hc
        have := entryAt_of_mem hwo hc hs
        rw [ha] at this
        simp only [Option.some.injEq, Prod.mk.injEq] at this
        exact hab this.1

/-- the hypothesis on the recursion of `make_patch`: the child tree of every ADDED/AFFECTED row converges -/
def RecOK (env : Env) (v : Vendor) (rules : PRules) (ord : List ORule) (rec : PRec)
    (old new : List (String × Cfg)) (d : List DItem) : Prop :=
  ∀ i ∈ d, (i.op = .added ∨ i.op = .affected) → ∀ o T,
    (∃ row dir, getOrder v ord row dir (some "patch") = some o) →
    subTree rec o.children (some (makePre i.children)) = .ok T →
    SameC (crOf rules i.row) (.mk (applyTree env (crOf rules i.row) (sortTree T) (subOf old i.row)))
      (.mk (subOf new i.row))

theorem put_result {env : Env} {v : Vendor} {rules : PRules} {ord : List ORule} {rec : PRec}
    {old new : List (String × Cfg)} {d : List DItem} (hc : CmdsOK v env rules) (hwn : WF rules new)
    (hrec : RecOK env v rules ord rec old new d) {s : Slot} {raw : String} {attrs : PAttrs}
    {i : DItem} (hi : i ∈ d) (hop : i.op = .added ∨ i.op = .affected) {rb : String} (hrow : i.row = rb)
    (hb : holder rules new s = some rb) {x : RawItem} (hx : NItemOf rec v ord raw attrs (putY i) x)
    (a' : Option (String × Cfg)) (ha' : (keepOrNew rb a').2.kids = subOf old rb) :
    EntSame rules (itemAct env rules (finalOf x) a') (entryAt rules new s) := by
  obtain ⟨h1, -, -, h4, -, o, ho, -, -, hsub⟩ := hx
  have hxrow : x.row = rb := by rw [h1]; exact hrow
  have hxdir : x.direct = true := h4
  have hslot := (holder_some hb).2
  have hk : (slotOf rules rb).isSome := by simp [hslot]
  obtain ⟨cr, hcl⟩ := classify_matchOf hk
  have hden := (den_line hc (c := rb) hk).1
  rw [put_act hxdir (by rw [hxrow]; exact hcl) (by rw [hxrow]; exact hden), hxrow, ha']
  rw [holder_entryAt] at hb
  cases hnb : entryAt rules new s with
  | none => rw [hnb] at hb; cases hb
  | some e =>
    obtain ⟨rb', cb⟩ := e
    rw [hnb] at hb
    simp only [Option.map_some, Option.some.injEq] at hb
    subst hb
    refine ⟨rfl, ?_⟩
    have := hrec i hi hop o x.children ⟨_, _, ho⟩ hsub
    rw [hrow, subOf_of_mem (rows_nodup hwn) (entryAt_some hnb).1, cfg_eta, crOf_eq hcl] at this
    rw [crOf_eq hcl]
    exact this


theorem holder_none_iff {rules : PRules} {kids : List (String × Cfg)} {s : Slot} :
    holder rules kids s = none ↔ entryAt rules kids s = none := by
  rw [holder_entryAt]; simp

theorem sort_single (t : TItem) : stableSort itemLt [t] = [t] := by
  simp [stableSort, insertBy]

/-- the items of one slot, executed in the sorted order, turn the old entry of the slot into the new one -/
theorem slot_final_n {env : Env} {v : Vendor} {rules : PRules} {ord : List ORule} {rec : PRec}
    {old new : List (String × Cfg)} {d : List DItem} (hc : CmdsOK v env rules)
    (hrb : ∀ r ∈ ord, r.orderReverse = false) (hwo : WF rules old) (hwn : WF rules new)
    (hdok : DOKL rules old new d) (hrec : RecOK env v rules ord rec old new d)
    (s : Slot) (attrs : PAttrs) (ys : List Yield) (chunk : List RawItem)
    (hsh : YShape v attrs s.2 (holder rules old s) (holder rules new s) d ys)
    (hrel : NRel rec v ord s.1 attrs ys chunk)
    (hattrs : ∀ r, slotOf rules r = some s → (matchOf rules r).attrs = attrs) :
    EntSame rules ((stableSort itemLt (chunk.map finalOf)).foldl (fun x t => itemAct env rules t x)
      (entryAt rules old s)) (entryAt rules new s) := by
  -- the removal command
  have hrem : ∀ ra c, holder rules old s = some ra → reverseCmd v attrs s.2 = some c →
      (∃ r', den env rules c = .del r') ∧ (v.exit = "" ∨ v.exit ≠ c) := by
    intro ra c ha hcmd
    have hs := (holder_some ha).2
    have hk : (slotOf rules ra).isSome := by simp [hs]
    obtain ⟨cr, hcl⟩ := classify_matchOf hk
    have hsm := slotOf_matchOf hk
    rw [hs] at hsm
    simp only [Option.some.injEq] at hsm
    have hrev : reverseCmd v (matchOf rules ra).attrs (matchOf rules ra).key = some c := by
      rw [hattrs ra hs]
      have : (matchOf rules ra).key = s.2 := by rw [hsm]
      rw [this]; exact hcmd
    obtain ⟨r', h1, -, h3⟩ := den_removal hc hcl hrev
    refine ⟨⟨r', h1⟩, ?_⟩
    rcases hc.exitKnown with he | he
    · exact Or.inl he
    · right
      intro heq
      exact (hc.removal ra _ cr hcl c hrev).1 (heq ▸ he)
  have hnotold : ∀ ra rb, holder rules old s = some ra → ra ≠ rb → slotOf rules rb = some s →
      subOf old rb = [] := by
    intro ra rb ha hab hsl
    apply subOf_of_not_mem
    intro hm
    have := holder_of_row hwo hm hsl
    rw [ha] at this
    exact hab (Option.some.inj this)
  cases ha : holder rules old s with
  | none =>
    have hea := holder_none_iff.1 ha
    cases hb : holder rules new s with
    | none =>
      rw [ha, hb] at hsh; simp only [YShape] at hsh; subst hsh
      rw [nrel_nil hrel, hea, holder_none_iff.1 hb]
      trivial
    | some rb =>
      rw [ha, hb] at hsh; simp only [YShape] at hsh
      obtain ⟨i, hi, hrow, hop, rfl⟩ := hsh
      obtain ⟨x, rfl, hx⟩ := nrel_one hrel
      simp only [List.map_cons, List.map_nil, sort_single, List.foldl_cons, List.foldl_nil]
      refine put_result hc hwn hrec hi (Or.inl hop) hrow hb hx _ ?_
      exact keepOrNew_kids hwo (holder_some hb).2
  | some ra =>
    cases hb : holder rules new s with
    | none =>
      rw [ha, hb] at hsh; simp only [YShape] at hsh
      obtain ⟨c, hcmd, rfl⟩ := hsh
      obtain ⟨x, rfl, hx⟩ := nrel_one hrel
      obtain ⟨⟨r', h1⟩, -⟩ := hrem ra c ha hcmd
      obtain ⟨hx1, -, -, hx4, -⟩ := hx
      simp only [List.map_cons, List.map_nil, sort_single, List.foldl_cons, List.foldl_nil]
      rw [rem_act (r' := r') hx4 (by rw [hx1]; exact h1), holder_none_iff.1 hb]
      trivial
    | some rb =>
      rw [ha, hb] at hsh; simp only [YShape] at hsh
      have hslb := (holder_some hb).2
      split at hsh
      · rename_i hab
        obtain ⟨i, hi, hrow, h | h⟩ := hsh
        · obtain ⟨hop, rfl⟩ := h
          rw [nrel_nil hrel]
          simp only [List.map_nil, stableSort, List.foldl_nil]
          have hsame := dokI_unchanged (dokL_iff.1 hdok i hi) hop
          rw [holder_entryAt] at ha hb
          cases hea : entryAt rules old s with
          | none => rw [hea] at ha; cases ha
          | some ea =>
            cases heb : entryAt rules new s with
            | none => rw [heb] at hb; cases hb
            | some eb =>
              obtain ⟨ra', ca⟩ := ea
              obtain ⟨rb', cb⟩ := eb
              rw [hea] at ha; rw [heb] at hb
              simp only [Option.map_some, Option.some.injEq] at ha hb
              subst ha hb
              refine ⟨hab, ?_⟩
              rw [hrow, subOf_of_mem (rows_nodup hwn) (entryAt_some heb).1, cfg_eta] at hsame
              have hmo : (rb', ca) ∈ old := by
                have := (entryAt_some hea).1
                rw [hab] at this; exact this
              rw [subOf_of_mem (rows_nodup hwo) hmo, cfg_eta] at hsame
              exact hsame
        · obtain ⟨hop, rfl⟩ := h
          obtain ⟨x, rfl, hx⟩ := nrel_one hrel
          simp only [List.map_cons, List.map_nil, sort_single, List.foldl_cons, List.foldl_nil]
          refine put_result hc hwn hrec hi (Or.inr hop) hrow hb hx _ ?_
          exact keepOrNew_kids hwo hslb
      · rename_i hab
        obtain ⟨i, hi, hrow, hop, h | ⟨c, hcmd, h⟩⟩ := hsh
        · subst h
          obtain ⟨x, rfl, hx⟩ := nrel_one hrel
          simp only [List.map_cons, List.map_nil, sort_single, List.foldl_cons, List.foldl_nil]
          refine put_result hc hwn hrec hi (Or.inl hop) hrow hb hx _ ?_
          exact keepOrNew_kids hwo hslb
        · subst h
          obtain ⟨x1, x2, rfl, hx1, hx2⟩ := nrel_two hrel
          obtain ⟨⟨r', h1⟩, hex⟩ := hrem ra c ha hcmd
          have hx2' := hx2
          obtain ⟨hx1row, hr1, -, hx1dir, -, o1, ho1, ho1a, ho1b, -⟩ := hx1
          obtain ⟨hx2row, hr2, -, -, -, o2, ho2, ho2a, ho2b, -⟩ := hx2
          simp only [putY] at hx2row ho2
          simp only at hx1row ho1 hx1dir
          have hk : itemLt (finalOf x2) (finalOf x1) = false := by
            show (finalOf x2).2.2.lt (finalOf x1).2.2 = false
            rw [finalOf_key, finalOf_key, keyOf, keyOf, hr1, hr2, ho1a, ho1b, ho2a, ho2b]
            exact put_not_before_removal s.1 o1 o2 (getOrder_removal v ord c _ o1 hrb hex ho1)
              (getOrder_direct v ord _ _ o2 ho2)
          have hsort : stableSort itemLt ([x1, x2].map finalOf) = [finalOf x1, finalOf x2] :=
            sort_pair itemLt itemLt_strictWeak _ _ hk
          rw [hsort]
          simp only [List.foldl_cons, List.foldl_nil]
          rw [rem_act (r' := r') hx1dir (by rw [hx1row]; exact h1)]
          refine put_result hc hwn hrec hi (Or.inl hop) hrow hb hx2' none ?_
          rw [hnotold ra rb ha hab hslb]
          rfl


/-! ### one level -/

theorem tree_sorted (out : List RawItem) (h : ∀ x ∈ out, x.forceCommit = false) :
    (sortTree (buildTree out)).items = stableSort itemLt (out.map finalOf) := by
  rw [buildTree_flat out h, sortTree, sortItems_eq_map, List.map_map]
  rfl

theorem sameC_of_entries {rules : PRules} {a b : List (String × Cfg)} (hwa : WF rules a) (hwb : WF rules b)
    (h : ∀ s, EntSame rules (entryAt rules a s) (entryAt rules b s)) : SameC rules (.mk a) (.mk b) := by
  rw [sameC_mk]
  constructor
  · intro s
    have := h s
    rw [holder_entryAt, holder_entryAt]
    cases ha : entryAt rules a s with
    | none =>
      cases hb : entryAt rules b s with
      | none => rfl
      | some eb => rw [ha, hb] at this; exact this.elim
    | some ea =>
      cases hb : entryAt rules b s with
      | none => rw [ha, hb] at this; obtain ⟨_, _⟩ := ea; exact this.elim
      | some eb =>
        rw [ha, hb] at this
        obtain ⟨ra, ca⟩ := ea
        obtain ⟨rb, cb⟩ := eb
        simp only [Option.map_some, this.1]
  · apply sameL_of
    intro row ca hca cb hcb m cr hcl
    have hslot := slotOf_of_classify hcl
    have := h (m.rawRule, m.key)
    rw [entryAt_of_mem hwa hca hslot, entryAt_of_mem hwb hcb hslot] at this
    have h2 := this.2
    rw [crOf_eq hcl] at h2
    exact h2

/-- One level: if the child tree of every ADDED/AFFECTED row converges (`RecOK`), the items of the level,
sorted and executed on `old`, give `new` slot by slot, with converged sub-blocks. -/
theorem level_converges {env : Env} {v : Vendor} {rules : PRules} {ord : List ORule} {rec : PRec}
    {old new : List (String × Cfg)} {d : List DItem} {out : List RawItem}
    (hnr : NestedRules rules) (hc : CmdsOK v env rules) (hrb : ∀ r ∈ ord, r.orderReverse = false)
    (hwo : WF rules old) (hwn : WF rules new) (hl : Lvl rules old new d) (hdok : DOKL rules old new d)
    (hout : itemsOfPre Patch.runLogic rec v ord true (makePre d).rules = .ok out)
    (hrec : RecOK env v rules ord rec old new d) :
    SameC rules (.mk (applyItems env rules (sortTree (buildTree out)).items old)) (.mk new) := by
  have hP := makePre_inv d
  have hall : ∀ x ∈ out, ItemOK env rules (finalOf x) ∧ x.forceCommit = false := by
    intro x hx
    obtain ⟨R, hR, it, hit, chunk, hb, hxc⟩ := itemsOfPre_mem _ _ _ _ _ _ _ hout x hx
    obtain ⟨ys, -, -, hcf⟩ := bucket_fact_n hnr hl hP v rec ord hR hit hb
    obtain ⟨h1, h2, h3⟩ := hcf x hxc
    exact ⟨(finalOf_slot hc h1 h3).2, h2⟩
  rw [tree_sorted out (fun x hx => (hall x hx).2)]
  have hok : ∀ t ∈ stableSort itemLt (out.map finalOf), ItemOK env rules t := by
    intro t ht
    rw [(sort_perm itemLt _).mem_iff] at ht
    obtain ⟨x, hx, rfl⟩ := List.mem_map.1 ht
    exact (hall x hx).1
  obtain ⟨hwf, hent⟩ := applyItems_entries env rules _ old hwo hok
  apply sameC_of_entries hwf hwn
  intro s
  rw [hent s, ← sort_filter_comm itemLt itemLt_strictWeak, List.filter_map]
  have hq : (fun t => itemSlot env rules t == some s) ∘ finalOf =
      fun x => itemSlot env rules (finalOf x) == some s := rfl
  rw [hq]
  rcases slot_cmds_n hnr hl hP hc rec ord hout s with ⟨ha, hb, hnil⟩ | ⟨attrs, ys, chunk, hsh, hrel, hch, hattrs, -⟩
  · rw [hnil, holder_none_iff.1 ha, holder_none_iff.1 hb]
    trivial
  · rw [hch]
    exact slot_final_n hc hrb hwo hwn hdok hrec s attrs ys chunk hsh hrel hattrs

end

end Annet.ConvergeNested.Lemmas
