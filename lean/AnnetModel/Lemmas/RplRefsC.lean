/-
Helper lemmas for C14: every named list a Cumulus route-map row refers to is defined by the list sections of the
same `generate_cumulus_rpl` stream.
-/
import AnnetModel.Lemmas.RplRefsA
import AnnetModel.Spec.RplCumulus

namespace Annet.Rpl.Lemmas
open Annet Annet.Rpl.Spec

/-! ### the references of the route-map rows -/

theorem refsC_comm (n : Str) : refsOfRowC (indentRow [s "match community", n]) = [(.communityList, n)] := by
  simp [refsOfRowC, indentRow, s, namedA]
theorem refsC_large (n : Str) : refsOfRowC (indentRow [s "match large-community-list", n]) = [(.largeCommunityList, n)] := by
  simp [refsOfRowC, indentRow, s, namedA]
theorem refsC_ext (n : Str) : refsOfRowC (indentRow [s "match extcommunity", n]) = [(.extcommunityList, n)] := by
  simp [refsOfRowC, indentRow, s, namedA]
theorem refsC_pfx4 (n : Str) : refsOfRowC (indentRow [s "match", s "ip address prefix-list", n]) = [(.prefixList, n)] := by
  simp [refsOfRowC, indentRow, s, namedA]
theorem refsC_pfx6 (n : Str) : refsOfRowC (indentRow [s "match", s "ipv6 address prefix-list", n]) = [(.prefixList, n)] := by
  simp [refsOfRowC, indentRow, s, namedA]
theorem refsC_commlist (n : Str) (rest : List Str) :
    refsOfRowC (indentRow (s "set comm-list" :: n :: rest)) = [(.communityList, n)] := by
  simp [refsOfRowC, indentRow, s, namedA]
theorem refsC_set (rest : List Str) : refsOfRowC (indentRow (s "set" :: rest)) = [] := by
  simp [refsOfRowC, indentRow, s]
theorem refsC_onmatch : refsOfRowC (indentRow [s "on-match next"]) = [] := by
  simp [refsOfRowC, indentRow, s]

theorem refsC_match2 (tok : Str) (h4 : (tok == s "ip address prefix-list") = false)
    (h5 : (tok == s "ipv6 address prefix-list") = false) :
    refsOfRowC (indentRow [s "match", tok]) = namedA .asPathList (dropPrefix (s "as-path ") tok) := by
  simp [refsOfRowC, indentRow, s, namedA] at h4 h5 ⊢
  simp [h4, h5]

theorem refsC_match_aspath (v : Str) : refsOfRowC (indentRow [s "match", s "as-path " ++ v]) = [(.asPathList, v)] := by
  rw [refsC_match2 _ (append_beq_false _ _ _ (by decide)) (append_beq_false _ _ _ (by decide)), dropPrefix_self]
  rfl

theorem refsC_match_short (cmd v : Str) (h4 : (s "ip address prefix-list").take cmd.length ≠ cmd)
    (h5 : (s "ipv6 address prefix-list").take cmd.length ≠ cmd)
    (hl : cmd.length ≤ (s "as-path ").length) (h6 : (s "as-path ").take cmd.length ≠ cmd) :
    refsOfRowC (indentRow [s "match", cmd ++ v]) = [] := by
  rw [refsC_match2 _ (append_beq_false _ _ _ h4) (append_beq_false _ _ _ h5), dropPrefix_other _ _ _ hl h6]
  rfl

theorem refsC_match_long (cmd v : Str) (h4 : (s "ip address prefix-list").take cmd.length ≠ cmd)
    (h5 : (s "ipv6 address prefix-list").take cmd.length ≠ cmd)
    (hl : (s "as-path ").length ≤ cmd.length) (h6 : cmd.take (s "as-path ").length ≠ s "as-path ") :
    refsOfRowC (indentRow [s "match", cmd ++ v]) = [] := by
  rw [refsC_match2 _ (append_beq_false _ _ _ h4) (append_beq_false _ _ _ h5), dropPrefix_other' _ _ _ hl h6]
  rfl

/-- the community-like branches of `_cumulus_policy_match` -/
theorem refs_cumMatchComm (head : Str) (K : RefKindC) (hK : ∀ n, refsOfRowC (indentRow [head, n]) = [(K, n)])
    (c : Cond) (l : List Str) (hv : c.val = .names l) (row : List Str) (hrow : row ∈ (cumMatchComm head c).1)
    (r : RefKindC × Str) (hr : r ∈ refsOfRowC (indentRow row)) :
    r.1 = K ∧ (if c.op == .hasAny then r.2 = mangle l else r.2 ∈ l) := by
  unfold cumMatchComm at hrow
  simp only [hv, emit_fst, rowsFor, List.mem_map] at hrow
  obtain ⟨n, hn, rfl⟩ := hrow
  rw [hK] at hr
  simp at hr; subst hr
  split at hn
  · rename_i hop
    simp at hn; subst hn
    simp [hop]
  · rename_i hop
    simp [hop, hn]

theorem refsC_pfxRows (pls : List PrefixList) (mk : Str → List Str)
    (hmk : ∀ n, refsOfRowC (indentRow (mk n)) = [(.prefixList, n)])
    (a b : Option Str) (names : List Str) (row : List Str) (hrow : row ∈ (pfxRows pls mk a b names).1)
    (r : RefKindC × Str) (hr : r ∈ refsOfRowC (indentRow row)) :
    r.1 = .prefixList ∧ ∃ nm ∈ names, ∃ pl, getPrefix pls nm a b = .ok pl ∧ pl.name = r.2 := by
  induction names with
  | nil => simp [pfxRows] at hrow
  | cons n ns ih =>
    unfold pfxRows at hrow
    split at hrow
    · simp at hrow
    · rename_i pl hpl
      rcases seq_rows_mem _ _ _ hrow with h | h
      · simp at h; subst h
        rw [hmk] at hr; simp at hr; subst hr
        exact ⟨rfl, n, by simp, pl, hpl, rfl⟩
      · obtain ⟨h1, nm, hnm, h2⟩ := ih h
        exact ⟨h1, nm, by simp [hnm], h2⟩

/-- `_cumulus_policy_match`: the references of a condition's rows are those of `CondRefA` (the kinds and names are
the Arista ones: united names for `has_any`, derived prefix-list names, the as-path filter name) -/
theorem refs_cumMatch (inp : Input) (c : Cond) (row : List Str) (hrow : row ∈ (cumMatch inp c).1)
    (r : RefKindC × Str) (hr : r ∈ refsOfRowC (indentRow row)) : CondRefA inp c r := by
  unfold cumMatch at hrow
  unfold CondRefA
  cases hf : c.field <;> cases hv : c.val <;> simp only [hf, hv] at hrow ⊢
  all_goals (try (simp [cumMatchComm, hv] at hrow; done))
  case community.names l => exact refs_cumMatchComm _ _ refsC_comm c l hv row hrow r hr
  case largeCommunity.names l => exact refs_cumMatchComm _ _ refsC_large c l hv row hrow r hr
  case extcommunityRt.names l => exact refs_cumMatchComm _ _ refsC_ext c l hv row hrow r hr
  case extcommunitySoo.names l => exact refs_cumMatchComm _ _ refsC_ext c l hv row hrow r hr
  case ipPrefix.pfx names a b => exact refsC_pfxRows _ _ refsC_pfx4 a b names row hrow r hr
  case ipv6Prefix.pfx names a b => exact refsC_pfxRows _ _ refsC_pfx6 a b names row hrow r hr
  case asPathFilter.scalar v =>
    split at hrow
    · simp at hrow
    · simp [frrMatchCmd] at hrow; subst hrow
      rw [refsC_match_aspath] at hr
      simp at hr; subst hr; exact ⟨rfl, rfl⟩
  case metric.scalar v =>
    split at hrow
    · simp at hrow
    · simp [frrMatchCmd] at hrow; subst hrow
      rw [refsC_match_short _ _ (by decide) (by decide) (by decide) (by decide)] at hr; cases hr
  case protocol.scalar v =>
    split at hrow
    · simp at hrow
    · simp [frrMatchCmd] at hrow; subst hrow
      rw [refsC_match_long _ _ (by decide) (by decide) (by decide) (by decide)] at hr; cases hr
  case interface.scalar v =>
    split at hrow
    · simp at hrow
    · simp [frrMatchCmd] at hrow; subst hrow
      rw [refsC_match_long _ _ (by decide) (by decide) (by decide) (by decide)] at hr; cases hr
  all_goals (
    (repeat' split at hrow) <;> (try (simp at hrow; done)) <;> (rename_i heq; simp [frrMatchCmd] at heq))



/-- rows whose first item is the word `set` (they refer to no named list) -/
def SetRows (o : Out (List Str)) : Prop := ∀ row ∈ o.1, ∃ rest, row = s "set" :: rest

theorem setRows_fail (e : Err) : SetRows (fail e) := by intro r h; simp at h
theorem setRows_emit_nil : SetRows (emit []) := by intro r h; simp at h
theorem setRows_seq (a b : Out (List Str)) (ha : SetRows a) (hb : SetRows b) : SetRows (a.seq b) := by
  intro r h
  rcases seq_rows_mem _ _ _ h with h | h
  · exact ha r h
  · exact hb r h
theorem setRows_seqAll (os : List (Out (List Str))) (h : ∀ o ∈ os, SetRows o) : SetRows (seqAll os) := by
  intro r hr
  obtain ⟨o, ho, hro⟩ := seqAll_rows_mem _ _ hr
  exact h o ho r hro
theorem setRows_raiseIf (b : Bool) (e : Err) : SetRows (raiseIf b e) := by
  cases b
  · exact setRows_emit_nil
  · exact setRows_fail e
theorem setRows_emit (rows : List (List Str)) (h : ∀ r ∈ rows, ∃ rest, r = s "set" :: rest) : SetRows (emit rows) := by
  intro r hr; exact h r (by simpa using hr)
theorem setRows_emit_map {β : Type} (f : β → List Str) (l : List β) (h : ∀ x, ∃ rest, f x = s "set" :: rest) :
    SetRows (emit (l.map f)) := by
  intro r hr
  simp only [emit_fst, List.mem_map] at hr
  obtain ⟨x, _, rfl⟩ := hr
  exact h x

theorem setRows_emit_cons_map {β : Type} (x : List Str) (f : β → List Str) (l : List β)
    (hx : ∃ rest, x = s "set" :: rest) (h : ∀ y, ∃ rest, f y = s "set" :: rest) : SetRows (emit (x :: l.map f)) := by
  intro r hr
  simp only [emit_fst, List.mem_cons, List.mem_map] at hr
  rcases hr with rfl | ⟨y, _, rfl⟩
  · exact hx
  · exact h y

macro "setRows_parts" : tactic => `(tactic| (
  repeat' (first
    | apply setRows_seq
    | exact setRows_fail _
    | exact setRows_emit_nil
    | exact setRows_raiseIf _ _
    | (apply setRows_emit_map; intro x; exact ⟨_, rfl⟩)
    | (apply setRows_emit_cons_map _ _ _ ⟨_, rfl⟩; intro y; exact ⟨_, rfl⟩)
    | (apply setRows_emit; intro r hr; simp only [List.mem_singleton] at hr; subst hr; exact ⟨_, rfl⟩)
    | split)))

theorem setRows_cumThenAddOnly (kind : Str) (c : CommAct) : SetRows (cumThenAddOnly kind c) := by
  unfold cumThenAddOnly; setRows_parts
theorem setRows_cumExtGroup (g : CType × List Str) : SetRows (cumExtGroup g) := by
  unfold cumExtGroup; setRows_parts
theorem setRows_cumThenExt (cl : List CommList) (c : CommAct) : SetRows (cumThenExt cl c) := by
  unfold cumThenExt
  repeat' (first
    | apply setRows_seq
    | exact setRows_fail _
    | exact setRows_emit_nil
    | exact setRows_raiseIf _ _
    | (apply setRows_seqAll; intro o ho; simp only [List.mem_map] at ho; obtain ⟨g, _, rfl⟩ := ho;
       exact setRows_cumExtGroup g)
    | (apply setRows_emit; intro r hr; simp only [List.mem_singleton] at hr; subst hr; exact ⟨_, rfl⟩)
    | split)
theorem setRows_cumThenAsPath (p : AsPathAct) : SetRows (cumThenAsPath p) := by
  unfold cumThenAsPath; setRows_parts
theorem setRows_cumThenNextHop (n : NextHop) : SetRows (cumThenNextHop n) := by
  unfold cumThenNextHop; setRows_parts

theorem norefs_of_setRows (o : Out (List Str)) (h : SetRows o) (row : List Str) (hrow : row ∈ o.1) :
    refsOfRowC (indentRow row) = [] := by
  obtain ⟨rest, rfl⟩ := h row hrow
  exact refsC_set rest

/-- where a reference in a Cumulus route-map row comes from: an action of the program -/
def ActRefC (a : Action) (r : RefKindC × Str) : Prop :=
  match a.field, a.val with
  | .community, .comm c => r.1 = .communityList ∧ r.2 ∈ c.removed
  | _, _ => False

theorem refs_cumThenCommunity (cl : List CommList) (c : CommAct) (row : List Str)
    (hrow : row ∈ (cumThenCommunity cl c).1) (r : RefKindC × Str) (hr : r ∈ refsOfRowC (indentRow row)) :
    r.1 = .communityList ∧ r.2 ∈ c.removed := by
  unfold cumThenCommunity at hrow
  rcases seq_rows_mem _ _ _ hrow with h | h
  · have : SetRows (match c.replaced with
        | some r =>
          if (!c.added.isEmpty || !c.removed.isEmpty) = true then fail Err.notImplemented
          else
            match membersOf cl r with
            | Except.error e => fail e
            | Except.ok ms =>
              if (!ms.isEmpty) = true then emit [[s "set", s "community"] ++ ms]
              else emit [[s "set", s "community", s "none"]]
        | none => emit []) := by setRows_parts
    rw [norefs_of_setRows _ this row h] at hr; cases hr
  · rcases seq_rows_mem _ _ _ h with h | h
    · have : SetRows (if (!c.added.isEmpty) = true then
          match membersOf cl c.added with
          | Except.error e => fail e
          | Except.ok ms => emit [[s "set", s "community"] ++ ms ++ [s "additive"]]
        else emit []) := by setRows_parts
      rw [norefs_of_setRows _ this row h] at hr; cases hr
    · simp only [emit_fst, List.mem_map] at h
      obtain ⟨n, hn, rfl⟩ := h
      rw [refsC_commlist] at hr
      simp at hr; subst hr
      exact ⟨rfl, hn⟩

theorem refs_cumThen (cl : List CommList) (a : Action) (row : List Str) (hrow : row ∈ (cumThen cl a).1)
    (r : RefKindC × Str) (hr : r ∈ refsOfRowC (indentRow row)) : ActRefC a r := by
  unfold cumThen at hrow
  unfold ActRefC
  cases hf : a.field <;> cases hv : a.val <;> simp only [hf, hv] at hrow ⊢
  all_goals (try (simp at hrow; done))
  case community.comm c => exact refs_cumThenCommunity cl c row hrow r hr
  case largeCommunity.comm c => rw [norefs_of_setRows _ (setRows_cumThenAddOnly _ c) row hrow] at hr; cases hr
  case extcommunityRt.comm c => rw [norefs_of_setRows _ (setRows_cumThenAddOnly _ c) row hrow] at hr; cases hr
  case extcommunitySoo.comm c => rw [norefs_of_setRows _ (setRows_cumThenAddOnly _ c) row hrow] at hr; cases hr
  case extcommunity.comm c => rw [norefs_of_setRows _ (setRows_cumThenExt cl c) row hrow] at hr; cases hr
  case asPath.asPath p => rw [norefs_of_setRows _ (setRows_cumThenAsPath p) row hrow] at hr; cases hr
  case nextHop.nextHop n => rw [norefs_of_setRows _ (setRows_cumThenNextHop n) row hrow] at hr; cases hr
  all_goals (
    simp only [scalarOf] at hrow
    (repeat' split at hrow) <;> (try (simp at hrow; done))
    all_goals (
      simp at hrow; subst hrow
      rw [refsC_set] at hr; cases hr))



theorem refsC_header (name res num : Str) : refsOfRowC [s "route-map", name, res, num] = [] := by
  simp [refsOfRowC, s]
theorem refsC_bang : refsOfRowC [s "!"] = [] := rfl

theorem mapRows_mem {α β : Type} (f : α → β) (o : Out α) (y : β) (h : y ∈ (o.mapRows f).1) : ∃ x ∈ o.1, y = f x := by
  simp only [Out.mapRows, List.mem_map] at h
  obtain ⟨x, hx, rfl⟩ := h
  exact ⟨x, hx, rfl⟩

theorem cumStmts_mem (inp : Input) (p : Policy) (row : List Str) :
    ∀ (sts : List Stmt) (applied : List Str), row ∈ (cumStmts inp p sts applied).1 →
      ∃ st ∈ sts, ∃ num, row ∈ (cumStatement inp p st num).1 := by
  intro sts
  induction sts with
  | nil => intro applied h; simp [cumStmts] at h
  | cons st sts ih =>
    intro applied h
    unfold cumStmts at h
    split at h
    · simp at h
    · rename_i num _
      split at h
      · simp at h
      · rcases seq_rows_mem _ _ _ h with h | h
        · exact ⟨st, by simp, num, h⟩
        · obtain ⟨st', hst', num', h'⟩ := ih _ h
          exact ⟨st', by simp [hst'], num', h'⟩

/-- every reference of the Cumulus route-map section comes from a condition or an action of the program -/
theorem refsC_origin (inp : Input) (r : RefKindC × Str) (h : r ∈ refsC (cumPolicyConfig inp).1) :
    ∃ p ∈ inp.policies, ∃ st ∈ p.stmts, (∃ c ∈ st.conds, CondRefA inp c r) ∨ (∃ a ∈ st.acts, ActRefC a r) := by
  unfold refsC at h
  simp only [List.mem_flatMap] at h
  obtain ⟨row, hrow, hr⟩ := h
  unfold cumPolicyConfig at hrow
  obtain ⟨o, ho, hro⟩ := seqAll_rows_mem _ _ hrow
  simp only [List.mem_map] at ho
  obtain ⟨p, hp, rfl⟩ := ho
  obtain ⟨st, hst, num, hrs⟩ := cumStmts_mem inp p row _ _ hro
  refine ⟨p, hp, st, hst, ?_⟩
  unfold cumStatement at hrs
  split at hrs
  · simp at hrs
  · rcases seq_rows_mem _ _ _ hrs with h1 | h1
    · simp at h1; subst h1
      rw [refsC_header] at hr; cases hr
    · rcases seq_rows_mem _ _ _ h1 with h2 | h2
      · obtain ⟨x, hx, rfl⟩ := mapRows_mem _ _ _ h2
        obtain ⟨o, ho, hxo⟩ := seqAll_rows_mem _ _ hx
        simp only [List.mem_map] at ho
        obtain ⟨c, hc, rfl⟩ := ho
        exact .inl ⟨c, hc, refs_cumMatch inp c x hxo r hr⟩
      · rcases seq_rows_mem _ _ _ h2 with h3 | h3
        · obtain ⟨x, hx, rfl⟩ := mapRows_mem _ _ _ h3
          obtain ⟨o, ho, hxo⟩ := seqAll_rows_mem _ _ hx
          simp only [List.mem_map] at ho
          obtain ⟨a, ha, rfl⟩ := ho
          exact .inr ⟨a, ha, refs_cumThen _ a x hxo r hr⟩
        · rcases seq_rows_mem _ _ _ h3 with h4 | h4
          · split at h4
            · simp at h4; subst h4
              rw [refsC_onmatch] at hr; cases hr
            · simp at h4
          · simp at h4; subst h4
            rw [refsC_bang] at hr; cases hr



theorem defsC_mem_of_rows (rows rows' : List (List Str)) (r : RefKindC × Str) (h : r ∈ defsC rows')
    (hsub : ∀ l ∈ rows', l ∈ rows) : r ∈ defsC rows := by
  unfold defsC at h ⊢
  simp only [List.mem_flatMap] at h ⊢
  obtain ⟨l, hl, hr⟩ := h
  exact ⟨l, hsub l hl, hr⟩

theorem defsC_head (row : List Str) (rest : List (List Str)) (r : RefKindC × Str) (h : r ∈ defsOfRowC row) :
    r ∈ defsC (row :: rest) := by
  unfold defsC; simp only [List.flatMap_cons, List.mem_append]; exact .inl h

theorem cumRow_def_basic (name m : Str) (rx : Bool) (q : Nat) :
    (RefKindA.communityList, name) ∈ defsOfRowC (cumCommunityRow name (s "bgp community-list") m rx q) := by
  simp [defsOfRowC, cumCommunityRow, s, namedA]
theorem cumRow_def_ext (name m : Str) (rx : Bool) (q : Nat) :
    (RefKindA.extcommunityList, name) ∈ defsOfRowC (cumCommunityRow name (s "bgp extcommunity") m rx q) := by
  simp [defsOfRowC, cumCommunityRow, s, namedA]
theorem cumRow_def_large (name m : Str) (rx : Bool) (q : Nat) :
    (RefKindA.largeCommunityList, name) ∈ defsOfRowC (cumCommunityRow name (s "bgp large-community-list") m rx q) := by
  simp [defsOfRowC, cumCommunityRow, s, namedA]

macro "cum_or" hm:ident lem:ident : tactic => `(tactic| (
  simp only [$hm:ident, emit_seq, List.length_cons, List.range_succ_eq_map, List.map_cons, List.zip_cons_cons,
    List.cons_append]
  exact defsC_head _ _ _ ($lem _ _ _ _)))

macro "cum_and" u:ident m0:ident ms:ident hm:ident hok:ident lem:ident : tactic => `(tactic| (
  by_cases hrx : ($u).useRegex = true
  · simp only [hrx, if_true, $hm:ident] at $hok:ident ⊢
    by_cases hlen : ($m0 :: $ms).length > 1
    · simp only [hlen, if_true] at $hok:ident
      simp [fail] at $hok:ident
    · simp only [hlen, if_false, emit_seq, List.cons_append, List.nil_append]
      exact defsC_head _ _ _ ($lem _ _ _ _)
  · simp only [if_neg hrx, emit_seq, List.cons_append, List.nil_append]
    exact defsC_head _ _ _ ($lem _ _ _ _)))

theorem cumUnion_head_def (name : Str) (u0 : CommList) (us : List CommList) (n : Nat)
    (hok : (cumUnion name (u0 :: us) n).2 = none) (hne : u0.members ≠ []) (K : RefKindC)
    (hk : kindA u0.type = some K) : (K, name) ∈ defsC (cumUnion name (u0 :: us) n).1 := by
  obtain ⟨m0, ms, hm⟩ := List.exists_cons_of_ne_nil hne
  unfold cumUnion at hok ⊢
  cases ht : u0.type <;> simp only [ht, kindA] at hk hok ⊢ <;> (try (cases hk; done)) <;>
    simp only [Option.some.injEq] at hk <;> subst hk <;>
    cases hl : u0.logic <;> simp only [hl] at hok ⊢
  case basic.or => cum_or hm cumRow_def_basic
  case rt.or => cum_or hm cumRow_def_ext
  case soo.or => cum_or hm cumRow_def_ext
  case large.or => cum_or hm cumRow_def_large
  case basic.and => cum_and u0 m0 ms hm hok cumRow_def_basic
  case rt.and => cum_and u0 m0 ms hm hok cumRow_def_ext
  case soo.and => cum_and u0 m0 ms hm hok cumRow_def_ext
  case large.and => cum_and u0 m0 ms hm hok cumRow_def_large


/-- the union a key list of the program names is defined by the community section under its mangled name -/
theorem community_defined_C (inp : Input) (hok : (cumCommunities inp).2 = none)
    (hne : ∀ c ∈ inp.clists, c.members ≠ []) (hinj : MangleInj inp) (ns : List Str) (hns : ns ∈ keyLists inp)
    (hnn : ns ≠ []) (t : CType) (K : RefKindC) (hk : kindA t = some K) (hty : typesIn inp.clists [t] ns = true) :
    (K, mangle ns) ∈ defsC (cumCommunities inp).1 := by
  unfold cumCommunities at hok ⊢
  cases hud : usedUnited inp with
  | error e => simp [hud] at hok
  | ok ud =>
    simp only [hud] at hok ⊢
    obtain ⟨hinv, hkeys⟩ := usedUnited_spec inp ud hud
    obtain ⟨e, he, hek⟩ := hkeys ns hns
    obtain ⟨ns', hns', _, hek', hl⟩ := hinv e he
    have : ns' = ns := hinj ns' hns' ns hns (by rw [← hek', hek])
    subst this
    obtain ⟨hnames, hmem, hnonempty⟩ := lookupAll_spec _ _ _ hl
    obtain ⟨u0, us, hus⟩ := List.exists_cons_of_ne_nil (hnonempty hnn)
    have hu0 : u0 ∈ e.2 := by rw [hus]; simp
    obtain ⟨n0, hn0, hg0⟩ := hmem u0 hu0
    obtain ⟨c0, hgc, hct⟩ := typesIn_single _ _ _ hty n0 hn0
    rw [hg0] at hgc; cases hgc
    have hnonempty' : ud.isEmpty = false := by
      cases ud with
      | nil => cases he
      | cons _ _ => rfl
    simp only [hnonempty', Bool.false_eq_true, if_false] at hok ⊢
    have hok1 := seq_ok_left _ _ hok
    rw [seq_ok_rows _ _ hok]
    have hall := seqAll_ok_all _ hok1
    have heok := hall (cumUnion (mangle (e.2.map (·.name))) e.2 0) (by simp only [List.mem_map]; exact ⟨e, he, rfl⟩)
    rw [hnames, hus] at heok
    have hdef := cumUnion_head_def (mangle ns') u0 us 0 heok (hne u0 (getComm_mem _ _ _ hg0)) K (by rw [hct]; exact hk)
    apply defsC_mem_of_rows _ _ _ hdef
    intro l hl'
    rw [seqAll_ok_rows _ hok1]
    simp only [List.mem_append, List.mem_flatMap, List.mem_map]
    exact .inl ⟨_, ⟨e, he, rfl⟩, by rw [hnames, hus]; exact hl'⟩

/-- the prefix list `x` is defined by the (token) rows `out` -/
def PDC (out : List Line) (x : Str) : Prop := (RefKindA.prefixList, x) ∈ defsC (out.map (·.toks))

theorem pdc_append_left (a b : List Line) (x : Str) (h : PDC a x) : PDC (a ++ b) x := by
  unfold PDC defsC at *; simp only [List.map_append, List.flatMap_append, List.mem_append]; exact .inl h
theorem pdc_append_right (a b : List Line) (x : Str) (h : PDC b x) : PDC (a ++ b) x := by
  unfold PDC defsC at *; simp only [List.map_append, List.flatMap_append, List.mem_append]; exact .inr h

theorem cumPrefixRows_pd (ptype : Str) (hp : ptype = s "ip" ∨ ptype = s "ipv6") (pl : PrefixList)
    (hne : pl.members ≠ []) : PDC (cumPrefixRows ptype pl) pl.name := by
  obtain ⟨m0, ms, hm⟩ := List.exists_cons_of_ne_nil hne
  unfold PDC defsC cumPrefixRows
  rw [hm]
  simp only [List.length_cons, List.range_succ_eq_map, List.map_cons, List.zip_cons_cons, List.flatMap_cons,
    List.mem_append]
  left
  rcases hp with rfl | rfl <;> simp [defsOfRowC, s, namedA]

theorem prefix_defined_C (inp : Input) (hok : (cumPrefixLists inp).2 = none) (hne : ∀ pl ∈ inp.plists, pl.members ≠ [])
    (p : Policy) (hp : p ∈ inp.policies) (st : Stmt) (hst : st ∈ p.stmts) (c : Cond) (hc : c ∈ st.conds)
    (hf : c.field = .ipPrefix ∨ c.field = .ipv6Prefix) (names : List Str) (a b : Option Str)
    (hv : c.val = .pfx names a b) (nm : Str) (hnm : nm ∈ names) (pl : PrefixList)
    (hg : getPrefix inp.plists nm a b = .ok pl) : (RefKindA.prefixList, pl.name) ∈ defsC (cumPrefixLists inp).1 := by
  unfold cumPrefixLists at hok ⊢
  have hok1 := seq_ok_left _ _ hok
  have hok1' : (runPrefix inp (cumPrefixRows (s "ip")) (cumPrefixRows (s "ipv6"))).2 = none := hok1
  rw [seq_ok_rows _ _ hok]
  unfold runPrefix at hok1' ⊢
  obtain ⟨_, h2, h3⟩ := prefixStmts_spec inp.plists hne PDC pdc_append_left pdc_append_right _ _
    (cumPrefixRows_pd _ (.inl rfl)) (cumPrefixRows_pd _ (.inr rfl)) (inp.policies.flatMap (·.stmts)) [] hok1'
  have hst' : st ∈ inp.policies.flatMap (·.stmts) := by
    simp only [List.mem_flatMap]; exact ⟨p, hp, hst⟩
  obtain ⟨d4, d6⟩ := h2 st hst'
  have : ∃ pl', getPrefix inp.plists nm a b = .ok pl' ∧
      pl'.name ∈ (prefixStmts inp.plists (cumPrefixRows (s "ip")) (cumPrefixRows (s "ipv6"))
        (inp.policies.flatMap (·.stmts)) []).2 := by
    rcases hf with hf | hf
    · exact d4 c hc hf names a b hv nm hnm
    · exact d6 c hc hf names a b hv nm hnm
  obtain ⟨pl', hg', hmem⟩ := this
  rw [hg] at hg'; cases hg'
  rcases h3 _ hmem with h | h
  · cases h
  · unfold PDC at h
    apply defsC_mem_of_rows _ _ _ h
    intro l hl
    simp only [Out.mapRows, List.mem_append]
    exact .inl hl

theorem aspath_defined_C (inp : Input) (hok : (cumAsPath inp).2 = none) (p : Policy) (hp : p ∈ inp.policies)
    (st : Stmt) (hst : st ∈ p.stmts) (c : Cond) (hc : c ∈ st.conds) (hf : c.field = .asPathFilter) (v : Str)
    (hv : c.val = .scalar v) : (RefKindA.asPathList, v) ∈ defsC (cumAsPath inp).1 := by
  unfold cumAsPath at hok ⊢
  split at hok
  · simp at hok
  · rename_i fs hfs
    unfold usedAsPath at hfs
    split at hfs
    · cases hfs
    · rename_i ns hns
      have hcm : c ∈ (inp.policies.flatMap (·.stmts)).flatMap fun st => st.conds.filter (·.field == .asPathFilter) := by
        simp only [List.mem_flatMap, List.mem_filter]
        exact ⟨st, ⟨p, hp, hst⟩, hc, by simp [hf]⟩
      obtain ⟨y, hy, hfy⟩ := mapM_some_mem _ _ _ hns c hcm
      simp [asPathCondName, hv] at hfy; subst hfy
      obtain ⟨f, hfm, hg⟩ := lookupNames_ok _ _ _ hfs v ((mem_sortedSet _ _).2 hy)
      have hname : f.name = v := by
        have := findLast_pred _ _ _ hg
        simpa using this
      simp only [defsC, emit_fst, List.mem_flatMap, List.mem_map]
      refine ⟨_, ⟨f, hfm, rfl⟩, ?_⟩
      simp [defsOfRowC, s, namedA, hname]



/-- rows that are not behind `FRR_INDENT` refer to nothing -/
def TopRows (o : Out (List Str)) : Prop := ∀ row ∈ o.1, row.head? ≠ some [' ']

theorem refsC_top (row : List Str) (h : row.head? ≠ some [' ']) : refsOfRowC row = [] := by
  match row with
  | [] => rfl
  | [_] => rfl
  | ind :: h' :: rest =>
    simp only [List.head?_cons, ne_eq, Option.some.injEq] at h
    simp [refsOfRowC, h]

theorem topRows_fail (e : Err) : TopRows (fail e) := by intro r h; simp at h
theorem topRows_seq (a b : Out (List Str)) (ha : TopRows a) (hb : TopRows b) : TopRows (a.seq b) := by
  intro r h
  rcases seq_rows_mem _ _ _ h with h | h
  · exact ha r h
  · exact hb r h
theorem topRows_seqAll (os : List (Out (List Str))) (h : ∀ o ∈ os, TopRows o) : TopRows (seqAll os) := by
  intro r hr
  obtain ⟨o, ho, hro⟩ := seqAll_rows_mem _ _ hr
  exact h o ho r hro
theorem topRows_emit (rows : List (List Str)) (h : ∀ r ∈ rows, r.head? ≠ some [' ']) : TopRows (emit rows) := by
  intro r hr; exact h r (by simpa using hr)

theorem topRows_cumAsPath (inp : Input) : TopRows (cumAsPath inp) := by
  unfold cumAsPath
  split
  · exact topRows_fail _
  · apply topRows_emit
    intro r hr
    simp only [List.mem_map] at hr
    obtain ⟨f, _, rfl⟩ := hr
    simp [s]

theorem bang_top : ([s "!"] : List Str).head? ≠ some [' '] := by simp [s]

theorem topRows_cumUnion (name : Str) (us : List CommList) : ∀ n, TopRows (cumUnion name us n) := by
  induction us with
  | nil => intro n r h; simp [cumUnion] at h
  | cons c cs ih =>
    intro n
    unfold cumUnion
    cases ht : c.type <;> simp only <;> (try exact topRows_fail _) <;> cases hl : c.logic <;> simp only
    all_goals first
      | (-- AND
         split
         · exact topRows_fail _
         · apply topRows_seq _ _ _ (ih _)
           apply topRows_emit
           intro r hr
           simp only [List.mem_singleton] at hr
           subst hr
           simp [cumCommunityRow, s])
      | (-- OR
         apply topRows_seq _ _ _ (ih _)
         apply topRows_emit
         intro r hr
         simp only [List.mem_map] at hr
         obtain ⟨im, _, rfl⟩ := hr
         simp [cumCommunityRow, s])

theorem topRows_cumCommunities (inp : Input) : TopRows (cumCommunities inp) := by
  unfold cumCommunities
  split
  · exact topRows_fail _
  · split
    · intro r h; simp at h
    · apply topRows_seq
      · apply topRows_seqAll
        intro o ho
        simp only [List.mem_map] at ho
        obtain ⟨u, _, rfl⟩ := ho
        exact topRows_cumUnion _ _ _
      · apply topRows_emit
        intro r hr
        simp only [List.mem_singleton] at hr
        subst hr; exact bang_top

theorem topRows_cumPrefixLists (inp : Input) : TopRows (cumPrefixLists inp) := by
  unfold cumPrefixLists
  apply topRows_seq
  · intro row hrow
    obtain ⟨l, hl, rfl⟩ := mapRows_mem _ _ _ hrow
    unfold runPrefix at hl
    obtain ⟨pl, hpl⟩ := prefixStmts_mem _ _ _ l _ _ hl
    rcases hpl with hpl | hpl <;>
      (unfold cumPrefixRows at hpl
       simp only [List.mem_map] at hpl
       obtain ⟨im, _, rfl⟩ := hpl
       simp [s])
  · apply topRows_emit
    intro r hr
    simp only [List.mem_singleton] at hr
    subst hr; exact bang_top



/-! ### the theorem -/

/-- Cumulus: every named list a route-map row refers to — united names `A_OR_B`, derived prefix-list names, as-path
filters, `set comm-list N delete` — is defined, under the same name and by the command of the matching kind, by the
list sections of the same stream -/
theorem refs_defined_cumulus (inp : Input)
    (ha : (cumAsPath inp).2 = none) (hc : (cumCommunities inp).2 = none) (hpl : (cumPrefixLists inp).2 = none)
    (hty : TypeConsistent inp) (hne : NonEmptyLists inp) (hcn : CondsNamed inp) (hinj : MangleInj inp)
    (r : RefKindC × Str) (h : r ∈ refsC (cumPolicyConfig inp).1) :
    r ∈ defsC ((cumAsPath inp).1 ++ (cumCommunities inp).1 ++ (cumPrefixLists inp).1) := by
  obtain ⟨p, hp, st, hst, horig⟩ := refsC_origin inp r h
  obtain ⟨hnc, hnp, _⟩ := hne
  obtain ⟨htc, hta⟩ := hty p hp st hst
  have inA : r ∈ defsC (cumAsPath inp).1 → r ∈ defsC ((cumAsPath inp).1 ++ (cumCommunities inp).1 ++
      (cumPrefixLists inp).1) := fun h => defsC_mem_of_rows _ _ _ h (by intro l hl; simp [hl])
  have inC : r ∈ defsC (cumCommunities inp).1 → r ∈ defsC ((cumAsPath inp).1 ++ (cumCommunities inp).1 ++
      (cumPrefixLists inp).1) := fun h => defsC_mem_of_rows _ _ _ h (by intro l hl; simp [hl])
  have inP : r ∈ defsC (cumPrefixLists inp).1 → r ∈ defsC ((cumAsPath inp).1 ++ (cumCommunities inp).1 ++
      (cumPrefixLists inp).1) := fun h => defsC_mem_of_rows _ _ _ h (by intro l hl; simp [hl])
  have commCase : ∀ (c : Cond) (hcm : c ∈ st.conds) (hf : c.field ∈ commMatchFields) (l : List Str)
      (hv : c.val = .names l) (t : CType) (K : RefKindC) (hk : kindA t = some K)
      (htyl : typesIn inp.clists [t] l = true) (x : Str) (hx : if c.op == .hasAny then x = mangle l else x ∈ l),
      (K, x) ∈ defsC (cumCommunities inp).1 := by
    intro c hcm hf l hv t K hk htyl x hx
    obtain ⟨ns, hns, hnn, hm, hsub⟩ := cond_ref_key c l hv (hcn p hp st hst c hcm l hv) x hx
    have htyn : typesIn inp.clists [t] ns = true := by
      unfold typesIn
      apply List.all_eq_true.mpr
      intro n hn
      unfold typesIn at htyl
      exact List.all_eq_true.mp htyl n (hsub n hn)
    rw [← hm]
    exact community_defined_C inp hc hnc hinj ns (condKey_mem inp p hp st hst c hcm hf ns hns) hnn t K hk htyn
  obtain ⟨k, n⟩ := r
  rcases horig with ⟨c, hcm, hcr⟩ | ⟨a, ham, har⟩
  · have htyc := htc c hcm
    unfold CondRefA at hcr
    unfold condTyped at htyc
    cases hf : c.field <;> cases hv : c.val <;> simp only [hf, hv] at hcr htyc <;> try (exact absurd hcr id)
    case community.names l =>
      obtain ⟨rfl, hx⟩ := hcr
      exact inC (commCase c hcm (by simp [hf, commMatchFields]) l hv .basic _ rfl htyc n hx)
    case largeCommunity.names l =>
      obtain ⟨rfl, hx⟩ := hcr
      exact inC (commCase c hcm (by simp [hf, commMatchFields]) l hv .large _ rfl htyc n hx)
    case extcommunityRt.names l =>
      obtain ⟨rfl, hx⟩ := hcr
      exact inC (commCase c hcm (by simp [hf, commMatchFields]) l hv .rt _ rfl htyc n hx)
    case extcommunitySoo.names l =>
      obtain ⟨rfl, hx⟩ := hcr
      exact inC (commCase c hcm (by simp [hf, commMatchFields]) l hv .soo _ rfl htyc n hx)
    case ipPrefix.pfx names a b =>
      obtain ⟨rfl, nm, hnm, pl, hg, rfl⟩ := hcr
      exact inP (prefix_defined_C inp hpl hnp p hp st hst c hcm (.inl hf) names a b hv nm hnm pl hg)
    case ipv6Prefix.pfx names a b =>
      obtain ⟨rfl, nm, hnm, pl, hg, rfl⟩ := hcr
      exact inP (prefix_defined_C inp hpl hnp p hp st hst c hcm (.inr hf) names a b hv nm hnm pl hg)
    case asPathFilter.scalar v =>
      obtain ⟨rfl, rfl⟩ := hcr
      exact inA (aspath_defined_C inp ha p hp st hst c hcm hf _ hv)
  · have htya := hta a ham
    unfold ActRefC at har
    unfold actTyped at htya
    cases hf : a.field <;> cases hv : a.val <;> simp only [hf, hv] at har htya <;> try (exact absurd har id)
    case community.comm ca =>
      obtain ⟨rfl, hn⟩ := har
      have hn' : n ∈ CommAct.names ca := by simp [CommAct.names, hn]
      have := community_defined_C inp hc hnc hinj [n]
        (actKey_mem inp p hp st hst a ham (by simp [hf, commThenFields]) [n] (by simp [actKeys, hv, hn'])) (by simp)
        .basic _ rfl (typesIn_sub _ _ _ htya n hn')
      rw [mangle_single] at this
      exact inC this

/-- the same on the whole text: if `generate_cumulus_rpl` completes, every reference its rows make is defined by
its rows -/
theorem refs_defined_cumulus_run (inp : Input) (hrun : (runCumulus inp).2 = none)
    (hty : TypeConsistent inp) (hne : NonEmptyLists inp) (hcn : CondsNamed inp) (hinj : MangleInj inp)
    (r : RefKindC × Str) (h : r ∈ refsC (runCumulus inp).1) : r ∈ defsC (runCumulus inp).1 := by
  unfold runCumulus at hrun h ⊢
  have ha := seq_ok_left _ _ hrun
  have h2 := seq_ok_right _ _ hrun
  have hc := seq_ok_left _ _ h2
  have h3 := seq_ok_right _ _ h2
  have hpl := seq_ok_left _ _ h3
  rw [seq_ok_rows _ _ hrun, seq_ok_rows _ _ h2, seq_ok_rows _ _ h3] at h ⊢
  -- only the route-map section makes references
  have hpol : r ∈ refsC (cumPolicyConfig inp).1 := by
    unfold refsC at h ⊢
    simp only [List.mem_flatMap, List.mem_append] at h ⊢
    obtain ⟨row, hrow, hr⟩ := h
    rcases hrow with hrow | hrow | hrow | hrow
    · rw [refsC_top row (topRows_cumAsPath inp row hrow)] at hr; cases hr
    · rw [refsC_top row (topRows_cumCommunities inp row hrow)] at hr; cases hr
    · rw [refsC_top row (topRows_cumPrefixLists inp row hrow)] at hr; cases hr
    · exact ⟨row, hrow, hr⟩
  have := refs_defined_cumulus inp ha hc hpl hty hne hcn hinj r hpol
  apply defsC_mem_of_rows _ _ _ this
  intro l hl
  simp only [List.mem_append] at hl ⊢
  rcases hl with (hl | hl) | hl
  · exact .inl hl
  · exact .inr (.inl hl)
  · exact .inr (.inr (.inl hl))

end Annet.Rpl.Lemmas
