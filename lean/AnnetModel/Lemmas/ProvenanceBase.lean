/-
Helper lemmas for the provenance of patch commands (C02 clause (a)):
  * where the entries of `make_pre(d)` come from (`makePreAcc_inv`),
  * what the six common logic functions can yield (`runLogic_ok`),
  * membership inversions of `yieldsToItems` / `itemsOfRule` / `itemsOfPre`,
  * `ProvL` as a membership statement, `buildTree` and `sortTree` keep provenance.

Core Lean only.
-/
import AnnetModel.Spec.Provenance
import AnnetModel.Lemmas.Sort

namespace Annet.Patch.Prov
open Annet.Rules Annet.Diff Annet.Patch

/-! ### `ProvL` / `ProvT` as membership statements -/

theorem provL_iff {v : Vendor} {d : List DItem} {items : List (String × Option PTree × SortKey)} :
    ProvL v d items ↔ ∀ it ∈ items, ProvI v d it := by
  induction items with
  | nil => exact ⟨fun _ _ h => (nomatch h), fun _ => ProvL.nil⟩
  | cons a rest ih =>
    constructor
    · intro h
      cases h with
      | cons h1 h2 =>
        intro it hit
        rcases List.mem_cons.1 hit with rfl | hit
        · exact h1
        · exact ih.1 h2 it hit
    · intro h
      exact .cons (h a List.mem_cons_self) (ih.2 fun it hit => h it (List.mem_cons_of_mem _ hit))

theorem provT_iff {v : Vendor} {d : List DItem} {items : List (String × Option PTree × SortKey)} :
    ProvT v d (.mk items) ↔ ∀ it ∈ items, ProvI v d it := by
  constructor
  · intro h
    cases h with
    | mk h => exact provL_iff.1 h
  · intro h
    exact .mk (provL_iff.2 h)

theorem provT_nil (v : Vendor) (d : List DItem) : ProvT v d (.mk []) := .mk .nil

/-! ### `make_pre`: where the entries come from -/

/-- the bucket of an op -/
def bucket : Op → PreItem → List PreEntry
  | .added, .mk _ a _ _ _ _ => a
  | .removed, .mk _ _ r _ _ _ => r
  | .moved, .mk _ _ _ m _ _ => m
  | .affected, .mk _ _ _ _ f _ => f
  | .unchanged, .mk _ _ _ _ _ u => u

theorem bucket_push (op op' : Op) (e x : PreEntry) (it : PreItem) :
    x ∈ bucket op' (it.push op e) ↔ x ∈ bucket op' it ∨ (op' = op ∧ x = e) := by
  obtain ⟨k, a, r, m, f, u⟩ := it
  cases op <;> cases op' <;> simp [bucket, PreItem.push]

theorem push_key (op : Op) (e : PreEntry) (it : PreItem) : (it.push op e).key = it.key := by
  cases it; cases op <;> rfl

/-- every entry of every bucket of the item is `entryOf e` for some `e` with `P e`, of the bucket's op, the rule `raw`
and the item's key -/
def ItemInv (P : DItem → Prop) (raw : String) (it : PreItem) : Prop :=
  ∀ op x, x ∈ bucket op it → ∃ e, P e ∧ e.op = op ∧ e.m.rawRule = raw ∧ e.m.key = it.key ∧ x = entryOf e

def RuleInv (P : DItem → Prop) : PreRule → Prop
  | .mk raw attrs items => (∃ e, P e ∧ e.m.rawRule = raw ∧ e.m.attrs = attrs) ∧ ∀ it ∈ items, ItemInv P raw it

def PreInv (P : DItem → Prop) (rules : List PreRule) : Prop := ∀ r ∈ rules, RuleInv P r

theorem itemInv_push {P : DItem → Prop} {raw : String} {it : PreItem} {i : DItem} (h : ItemInv P raw it)
    (hp : P i) (hraw : i.m.rawRule = raw) (hk : i.m.key = it.key) : ItemInv P raw (it.push i.op (entryOf i)) := by
  intro op x hx
  rw [push_key]
  rcases (bucket_push _ _ _ _ _).1 hx with hx | ⟨rfl, rfl⟩
  · exact h op x hx
  · exact ⟨i, hp, rfl, hraw, hk, rfl⟩

theorem pushItem_inv {P : DItem → Prop} {raw : String} {items : List PreItem} {i : DItem}
    (h : ∀ it ∈ items, ItemInv P raw it) (hp : P i) (hraw : i.m.rawRule = raw) :
    ∀ it ∈ pushItem i.m.key i.op (entryOf i) items, ItemInv P raw it := by
  intro it hit
  unfold pushItem at hit
  split at hit
  · obtain ⟨it0, h0, rfl⟩ := List.mem_map.1 hit
    split
    · next hk =>
      rw [beq_iff_eq] at hk
      exact itemInv_push (h it0 h0) hp hraw hk.symm
    · exact h it0 h0
  · rcases List.mem_append.1 hit with hit | hit
    · exact h it hit
    · rw [List.mem_singleton] at hit
      subst hit
      refine itemInv_push ?_ hp hraw rfl
      intro op x hx
      cases op <;> simp [bucket] at hx

theorem pushRule_inv {P : DItem → Prop} {rules : List PreRule} {i : DItem} (h : PreInv P rules) (hp : P i) :
    PreInv P (pushRule i.m i.op (entryOf i) rules) := by
  intro r hr
  unfold pushRule at hr
  split at hr
  · obtain ⟨r0, h0, rfl⟩ := List.mem_map.1 hr
    obtain ⟨raw, attrs, items⟩ := r0
    have := h _ h0
    simp only
    split
    · next hk =>
      rw [beq_iff_eq] at hk
      exact ⟨this.1, pushItem_inv this.2 hp hk.symm⟩
    · exact this
  · rcases List.mem_append.1 hr with hr | hr
    · exact h r hr
    · rw [List.mem_singleton] at hr
      subst hr
      exact ⟨⟨i, hp, rfl, rfl⟩, pushItem_inv (fun _ h => by cases h) hp rfl⟩

theorem makePreAcc_inv {P : DItem → Prop} : ∀ (ds : List DItem) (acc : List PreRule), PreInv P acc →
    (∀ e ∈ ds, P e) → PreInv P (makePreAcc ds acc)
  | [], acc, h, _ => by rw [makePreAcc]; exact h
  | i :: rest, acc, h, hp => by
    rw [makePreAcc]
    exact makePreAcc_inv rest _ (pushRule_inv h (hp i List.mem_cons_self))
      (fun e he => hp e (List.mem_cons_of_mem _ he))

theorem makePre_inv (d : List DItem) : PreInv (· ∈ d) (makePre d).rules :=
  makePreAcc_inv d [] (fun _ h => by cases h) (fun _ h => h)

theorem entryOf_children (i : DItem) : (entryOf i).children = makePre i.children := by
  cases i; rw [entryOf]; rfl

theorem entryOf_row (i : DItem) : (entryOf i).row = i.row := by
  cases i; rw [entryOf]; rfl

/-! ### what the logic functions yield -/

/-- the entries of the ADDED / REMOVED / MOVED / AFFECTED buckets -/
def changed : PreItem → List PreEntry
  | .mk _ a r m f _ => a ++ r ++ m ++ f

/-- the entries of the REMOVED / MOVED buckets -/
def remOrMoved : PreItem → List PreEntry
  | .mk _ _ r m _ _ => r ++ m

theorem mem_changed {it : PreItem} {x : PreEntry} (h : x ∈ changed it) : ∃ op, op ≠ .unchanged ∧ x ∈ bucket op it := by
  obtain ⟨k, a, r, m, f, u⟩ := it
  simp only [changed, List.mem_append] at h
  rcases h with ((h | h) | h) | h
  · exact ⟨.added, by decide, h⟩
  · exact ⟨.removed, by decide, h⟩
  · exact ⟨.moved, by decide, h⟩
  · exact ⟨.affected, by decide, h⟩

theorem mem_remOrMoved {it : PreItem} {x : PreEntry} (h : x ∈ remOrMoved it) :
    ∃ op, (op = .removed ∨ op = .moved) ∧ x ∈ bucket op it := by
  obtain ⟨k, a, r, m, f, u⟩ := it
  simp only [remOrMoved, List.mem_append] at h
  rcases h with h | h
  · exact ⟨.removed, .inl rfl, h⟩
  · exact ⟨.moved, .inr rfl, h⟩

/-- a yield is the row of a changed entry with its sub-pre (direct), or the reverse command of the (rule, key) while the
REMOVED or MOVED bucket is not empty -/
def YieldOK (v : Vendor) (attrs : PAttrs) (it : PreItem) (y : Yield) : Prop :=
  (y.direct = true ∧ ∃ x ∈ changed it, y.row = x.row ∧ y.sub = some x.children) ∨
  (y.direct = false ∧ y.sub = none ∧ reverseCmd v attrs it.key = some y.row ∧ ∃ x, x ∈ remOrMoved it)

theorem YieldOK.mono {v : Vendor} {attrs : PAttrs} {it it' : PreItem} {y : Yield} (h : YieldOK v attrs it' y)
    (hk : it'.key = it.key) (hc : ∀ x ∈ changed it', x ∈ changed it) (hr : ∀ x ∈ remOrMoved it', x ∈ remOrMoved it) :
    YieldOK v attrs it y := by
  rcases h with ⟨hd, x, hx, h1, h2⟩ | ⟨hd, hs, hrev, x, hx⟩
  · exact .inl ⟨hd, x, hc x hx, h1, h2⟩
  · exact .inr ⟨hd, hs, hk ▸ hrev, x, hr x hx⟩

theorem logicDefault_ok (v : Vendor) (attrs : PAttrs) (it : PreItem) (ys : List Yield)
    (h : logicDefault v attrs it = .ok ys) : ∀ y ∈ ys, YieldOK v attrs it y := by
  obtain ⟨k, a, r, m, f, u⟩ := it
  unfold logicDefault at h
  simp only at h
  split at h
  · cases h
  · split at h
    · cases h
      intro y hy
      rw [List.mem_singleton] at hy
      subst hy
      exact .inl ⟨rfl, _, by simp [changed], rfl, rfl⟩
    · cases h
      intro y hy
      rw [List.mem_singleton] at hy
      subst hy
      exact .inl ⟨rfl, _, by simp [changed], rfl, rfl⟩
    · cases h
      intro y hy
      rw [List.mem_singleton] at hy
      subst hy
      exact .inl ⟨rfl, _, by simp [changed], rfl, rfl⟩
    · split at h
      · next c hc =>
        cases h
        intro y hy
        rw [List.mem_singleton] at hy
        subst hy
        exact .inr ⟨rfl, rfl, hc, _, List.mem_append_left _ List.mem_cons_self⟩
      · cases h
    · cases h
      intro y hy
      cases hy

theorem logicOrdered_ok (v : Vendor) (attrs : PAttrs) (it : PreItem) (ys : List Yield)
    (h : logicOrdered v attrs it = .ok ys) : ∀ y ∈ ys, YieldOK v attrs it y := by
  obtain ⟨k, a, r, m, f, u⟩ := it
  unfold logicOrdered at h
  simp only at h
  split at h
  · cases h
  · cases h
  · next x y hx hy =>
    cases h
    intro z hz
    rcases List.mem_append.1 hz with hz | hz
    · split at hx
      · cases hx; cases hz
      · next hne =>
        split at hx
        · next c hc =>
          cases hx
          rw [List.mem_singleton] at hz
          subst hz
          cases m with
          | nil => simp at hne
          | cons e _ => exact .inr ⟨rfl, rfl, hc, e, by simp [remOrMoved]⟩
        · cases hx
    · exact logicDefault_ok v attrs _ y hy z hz

theorem logicRewrite_ok (v : Vendor) (attrs : PAttrs) (it : PreItem) (ys : List Yield)
    (h : logicRewrite v attrs it = .ok ys) : ∀ y ∈ ys, YieldOK v attrs it y := by
  obtain ⟨k, a, r, m, f, u⟩ := it
  unfold logicRewrite at h
  simp only at h
  split at h
  · exact logicDefault_ok v attrs _ ys h
  · cases h
    intro y hy
    cases hy

theorem logicPermanent_ok (v : Vendor) (attrs : PAttrs) (it : PreItem) (ys : List Yield)
    (h : logicPermanent v attrs it = .ok ys) : ∀ y ∈ ys, YieldOK v attrs it y := by
  obtain ⟨k, a, r, m, f, u⟩ := it
  unfold logicPermanent at h
  simp only at h
  split at h
  · exact logicDefault_ok v attrs _ ys h
  · split at h
    · cases h
      intro y hy
      cases hy
    · intro y hy
      refine (logicDefault_ok v attrs _ ys h y hy).mono rfl ?_ ?_
      · intro x hx
        simp only [changed, List.mem_append, List.append_nil] at hx ⊢
        grind
      · intro x hx
        simp only [remOrMoved, List.mem_append, List.nil_append] at hx ⊢
        exact .inr hx

theorem logicIgnoreChanges_ok (v : Vendor) (attrs : PAttrs) (it : PreItem) (ys : List Yield)
    (h : logicIgnoreChanges v attrs it = .ok ys) : ∀ y ∈ ys, YieldOK v attrs it y := by
  obtain ⟨k, a, r, m, f, u⟩ := it
  unfold logicIgnoreChanges at h
  simp only at h
  split at h
  · cases h
    intro y hy
    cases hy
  · exact logicDefault_ok v attrs _ ys h

theorem logicUndoRedo_ok (v : Vendor) (attrs : PAttrs) (it : PreItem) (ys : List Yield)
    (h : logicUndoRedo v attrs it = .ok ys) : ∀ y ∈ ys, YieldOK v attrs it y := by
  obtain ⟨k, a, r, m, f, u⟩ := it
  unfold logicUndoRedo at h
  simp only at h
  split at h
  · exact logicDefault_ok v attrs _ ys h
  · split at h
    · cases h
    · cases h
    · next x y hx hy =>
      cases h
      intro z hz
      rcases List.mem_append.1 hz with hz | hz
      · refine (logicDefault_ok v attrs _ x hx z hz).mono rfl ?_ ?_
        · intro e he
          simp only [changed, List.mem_append, List.append_nil, List.nil_append] at he ⊢
          grind
        · intro e he
          simp only [remOrMoved, List.mem_append, List.append_nil] at he ⊢
          exact .inl he
      · refine (logicDefault_ok v attrs _ y hy z hz).mono rfl ?_ ?_
        · intro e he
          simp only [changed, List.mem_append, List.append_nil] at he ⊢
          grind
        · intro e he
          simp [remOrMoved] at he

theorem runLogic_ok (v : Vendor) (attrs : PAttrs) (it : PreItem) (ys : List Yield)
    (h : runLogic v attrs it = .ok ys) : ∀ y ∈ ys, YieldOK v attrs it y := by
  unfold runLogic at h
  split at h
  · exact logicDefault_ok v attrs it ys h
  split at h
  · exact logicOrdered_ok v attrs it ys h
  split at h
  · exact logicRewrite_ok v attrs it ys h
  split at h
  · exact logicPermanent_ok v attrs it ys h
  split at h
  · exact logicIgnoreChanges_ok v attrs it ys h
  split at h
  · exact logicUndoRedo_ok v attrs it ys h
  · cases h

/-! ### membership inversions of the item collectors -/

/-- the raw item `x` was built from the yield `y` -/
def RawOf (rec : PRec) (raw : String) (attrs : PAttrs) (y : Yield) (x : RawItem) : Prop :=
  x.row = y.row ∧ x.direct = y.direct ∧ x.rawRule = raw ∧ x.forceCommit = attrs.forceCommit ∧
    (y.sub = none → x.children = .mk []) ∧
    (∀ p, y.sub = some p → x.children = .mk [] ∨ ∃ o, rec o p = .ok x.children)

theorem yieldsToItems_mem (rec : PRec) (v : Vendor) (ordering : List ORule) (doCommit : Bool) (raw : String)
    (attrs : PAttrs) : ∀ (ys : List Yield) (items : List RawItem),
    yieldsToItems rec v ordering doCommit raw attrs ys = .ok items →
    ∀ x ∈ items, ∃ y ∈ ys, RawOf rec raw attrs y x
  | [], items, h => by
    simp only [yieldsToItems] at h
    cases h
    intro x hx
    cases hx
  | y :: ys, items, h => by
    simp only [yieldsToItems] at h
    split at h
    · cases h
    · next o ho =>
      split at h
      · intro x hx
        obtain ⟨y', hy', hr⟩ := yieldsToItems_mem rec v ordering doCommit raw attrs ys items h x hx
        exact ⟨y', List.mem_cons_of_mem _ hy', hr⟩
      · split at h
        · cases h
        · next ch hch =>
          split at h
          · cases h
          · next more hmore =>
            cases h
            intro x hx
            rcases List.mem_cons.1 hx with rfl | hx
            · refine ⟨y, List.mem_cons_self, rfl, rfl, rfl, rfl, ?_, ?_⟩
              · intro hs
                rw [hs] at hch
                simp only at hch
                cases hch
                rfl
              · intro p hs
                rw [hs] at hch
                simp only at hch
                split at hch
                · cases hch
                  exact .inl rfl
                · exact .inr ⟨_, hch⟩
            · obtain ⟨y', hy', hr⟩ := yieldsToItems_mem rec v ordering doCommit raw attrs ys more hmore x hx
              exact ⟨y', List.mem_cons_of_mem _ hy', hr⟩

theorem itemsOfRule_mem (lg : LogicFn) (rec : PRec) (v : Vendor) (ordering : List ORule) (doCommit : Bool)
    (raw : String) (attrs : PAttrs) : ∀ (pitems : List PreItem) (items : List RawItem),
    itemsOfRule lg rec v ordering doCommit raw attrs pitems = .ok items →
    ∀ x ∈ items, ∃ it ∈ pitems, ∃ ys, lg v attrs it = .ok ys ∧ ∃ y ∈ ys, RawOf rec raw attrs y x
  | [], items, h => by
    simp only [itemsOfRule] at h
    cases h
    intro x hx
    cases hx
  | it :: rest, items, h => by
    simp only [itemsOfRule] at h
    split at h
    · cases h
    · next ys hys =>
      split at h
      · cases h
      · next a ha =>
        split at h
        · cases h
        · next b hb =>
          cases h
          intro x hx
          rcases List.mem_append.1 hx with hx | hx
          · exact ⟨it, List.mem_cons_self, ys, hys, yieldsToItems_mem rec v ordering doCommit raw attrs ys a ha x hx⟩
          · obtain ⟨it', hit', r⟩ := itemsOfRule_mem lg rec v ordering doCommit raw attrs rest b hb x hx
            exact ⟨it', List.mem_cons_of_mem _ hit', r⟩

theorem itemsOfPre_mem (lg : LogicFn) (rec : PRec) (v : Vendor) (ordering : List ORule) (doCommit : Bool) :
    ∀ (rules : List PreRule) (items : List RawItem),
    itemsOfPre lg rec v ordering doCommit rules = .ok items →
    ∀ x ∈ items, ∃ raw attrs pitems, PreRule.mk raw attrs pitems ∈ rules ∧
      ∃ it ∈ pitems, ∃ ys, lg v attrs it = .ok ys ∧ ∃ y ∈ ys, RawOf rec raw attrs y x
  | [], items, h => by
    simp only [itemsOfPre] at h
    cases h
    intro x hx
    cases hx
  | .mk raw attrs pitems :: rest, items, h => by
    simp only [itemsOfPre] at h
    split at h
    · cases h
    · next a ha =>
      split at h
      · cases h
      · next b hb =>
        cases h
        intro x hx
        rcases List.mem_append.1 hx with hx | hx
        · exact ⟨raw, attrs, pitems, List.mem_cons_self,
            itemsOfRule_mem lg rec v ordering doCommit raw attrs pitems a ha x hx⟩
        · obtain ⟨raw', attrs', pitems', hm, r⟩ := itemsOfPre_mem lg rec v ordering doCommit rest b hb x hx
          exact ⟨raw', attrs', pitems', List.mem_cons_of_mem _ hm, r⟩

/-! ### `buildTree` -/

/-- what a collected item stems from -/
def RawProv (v : Vendor) (d : List DItem) (x : RawItem) : Prop :=
  (x.forceCommit = true → ∃ e' ∈ d, e'.m.attrs.forceCommit = true) ∧
  ((x.direct = true ∧ ∃ e ∈ d, e.op ≠ .unchanged ∧ x.row = e.row ∧ ProvT v e.children x.children) ∨
   (x.direct = false ∧ ∃ e e', e ∈ d ∧ (e.op = .removed ∨ e.op = .moved) ∧ e' ∈ d ∧ e'.m.rawRule = e.m.rawRule ∧
      reverseCmd v e'.m.attrs e.m.key = some x.row))

theorem buildTree_prov (v : Vendor) (d : List DItem) (items : List RawItem) (h : ∀ x ∈ items, RawProv v d x) :
    ProvT v d (buildTree items) := by
  unfold buildTree
  rw [provT_iff]
  intro it hit
  obtain ⟨x, hx, hit⟩ := List.mem_flatMap.1 hit
  obtain ⟨hc, hm⟩ := h x hx
  have hmain : ProvI v d
      (if (x.children.items.isEmpty && !x.parent) || !x.direct then
        (x.row, none, ({ ord := signed x.order x.orderDirect, rawRule := x.rawRule, direct := x.orderDirect } : SortKey))
      else (x.row, some x.children, { ord := signed x.order x.orderDirect, rawRule := x.rawRule, direct := x.orderDirect })) := by
    rcases hm with ⟨hd, e, he, hop, hrow, hch⟩ | ⟨hd, e, e', he, hop, he', hraw, hrev⟩
    · split
      · rw [hrow]; exact .leaf he hop
      · rw [hrow]; exact .block he hop hch
    · simp only [hd, Bool.not_false, Bool.or_true, if_true]
      exact .reverse he hop he' hraw hrev
  simp only at hit
  split at hit
  · next hfc =>
    simp only [List.mem_cons, List.not_mem_nil, or_false] at hit
    rcases hit with rfl | rfl
    · exact hmain
    · obtain ⟨e', he', hf⟩ := hc hfc
      exact .commit he' hf
  · rw [List.mem_singleton] at hit
    subst hit
    exact hmain

/-! ### `sortTree` -/

mutual
  theorem sortTree_prov (v : Vendor) : (t : PTree) → ∀ (d : List DItem), ProvT v d t → ProvT v d (sortTree t)
    | .mk items, d, h => by
      simp only [sortTree]
      rw [provT_iff] at h ⊢
      intro it hit
      exact sortItems_prov v items d h it ((Lemmas.sort_perm _ _).mem_iff.1 hit)
  theorem sortItems_prov (v : Vendor) : (items : List (String × Option PTree × SortKey)) → ∀ (d : List DItem),
      (∀ it ∈ items, ProvI v d it) → ∀ it ∈ sortItems items, ProvI v d it
    | [], d, h => by simp [sortItems]
    | (row, none, k) :: rest, d, h => by
      simp only [sortItems]
      intro it hit
      rcases List.mem_cons.1 hit with rfl | hit
      · exact h _ List.mem_cons_self
      · exact sortItems_prov v rest d (fun it hit => h it (List.mem_cons_of_mem _ hit)) it hit
    | (row, some c, k) :: rest, d, h => by
      simp only [sortItems]
      intro it hit
      rcases List.mem_cons.1 hit with rfl | hit
      · have h0 := h _ List.mem_cons_self
        cases h0 with
        | block he hop hch => exact .block he hop (sortTree_prov v c _ hch)
      · exact sortItems_prov v rest d (fun it hit => h it (List.mem_cons_of_mem _ hit)) it hit
end

/-! ### a boolean equality test for patch trees (for closed examples: `PTree` has no `DecidableEq`) -/

mutual
  def beqT : PTree → PTree → Bool
    | .mk a, .mk b => beqL a b
  def beqL : List (String × Option PTree × SortKey) → List (String × Option PTree × SortKey) → Bool
    | [], [] => true
    | (r, none, k) :: as, (r', none, k') :: bs => r == r' && k == k' && beqL as bs
    | (r, some c, k) :: as, (r', some c', k') :: bs => r == r' && k == k' && beqT c c' && beqL as bs
    | _, _ => false
end

mutual
  theorem beqT_sound : ∀ (a b : PTree), beqT a b = true → a = b
    | .mk a, .mk b, h => by
      rw [beqT] at h
      rw [beqL_sound a b h]
  theorem beqL_sound : ∀ (a b : List (String × Option PTree × SortKey)), beqL a b = true → a = b
    | [], [], _ => rfl
    | [], _ :: _, h => by simp [beqL] at h
    | (r, none, k) :: as, [], h => by simp [beqL] at h
    | (r, some c, k) :: as, [], h => by simp [beqL] at h
    | (r, none, k) :: as, (r', some c', k') :: bs, h => by simp [beqL] at h
    | (r, some c, k) :: as, (r', none, k') :: bs, h => by simp [beqL] at h
    | (r, none, k) :: as, (r', none, k') :: bs, h => by
      simp only [beqL, Bool.and_eq_true, beq_iff_eq] at h
      obtain ⟨⟨rfl, rfl⟩, h3⟩ := h
      rw [beqL_sound as bs h3]
    | (r, some c, k) :: as, (r', some c', k') :: bs, h => by
      simp only [beqL, Bool.and_eq_true, beq_iff_eq] at h
      obtain ⟨⟨⟨rfl, rfl⟩, h2⟩, h3⟩ := h
      rw [beqL_sound as bs h3, beqT_sound c c' h2]
end

/-- the result is `.ok` of (a tree equal to) `p` -/
def okIs (r : Except Patch.Err PTree) (p : PTree) : Bool :=
  match r with
  | .ok q => beqT q p
  | .error _ => false

theorem okIs_sound {r : Except Patch.Err PTree} {p : PTree} (h : okIs r p = true) : r = .ok p := by
  unfold okIs at h
  split at h
  · rw [beqT_sound _ _ h]
  · cases h

end Annet.Patch.Prov
