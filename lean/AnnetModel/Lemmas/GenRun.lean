/-
Helper lemmas for C10, part 3: `_run_partial_generator`, `run_partial_generators`, `config_tree` and
`_old_new_per_device` composed from the parser, the ACL filter and `merge`.
-/
import AnnetModel.Lemmas.GenMerge
import AnnetModel.Lemmas.GenAcl

namespace Annet.Gen.Lemmas
open Annet Annet.Acl Annet.Acl.Spec Annet.Acl.Lemmas Annet.Gen.Spec Annet.Offside
open Annet.Implicit (merge)
open Annet.Implicit.Spec (NoDupKeys NoDupKeysL)

/-! ### one generator -/

theorem runPartial_spec (v : Vendor) (sp : Splitter) (g : GenDef) (rows : List String) (cfg t0 : Cfg)
    (hrun : runGen g.ops = some rows) (hparse : parseToTree comments (split sp rows) = .ok cfg)
    (hlen : applyAcl v false false (compileAcl [g.acl]) [] cfg = .ok t0) :
    runPartial v sp g =
      (match firstUnmatched v (compileAcl [g.acl]) [] cfg with
       | some q => .error (.acl g.name q)
       | none => .ok t0) := by
  rw [runPartial, hrun]
  simp only [hparse]
  rw [fatal_iff v _ [] cfg t0 hlen]
  cases firstUnmatched v (compileAcl [g.acl]) [] cfg <;> rfl

theorem parseToTree_nodup (cm : List String) (lines : List String) (cfg : Cfg)
    (h : parseToTree cm lines = .ok cfg) : NoDupKeys cfg := by
  rw [parseToTree, parseItems] at h
  split at h
  · cases h
  · cases h
    exact nodup_treeOfStacks _

/-- a generator's result has no repeated sibling keys -/
theorem runPartial_nodup (v : Vendor) (sp : Splitter) (g : GenDef) (c : Cfg)
    (h : runPartial v sp g = .ok c) : NoDupKeys c := by
  rw [runPartial] at h
  split at h
  · cases h
  · split at h
    · cases h
    · rename_i cfg hp
      split at h
      · cases h
      · cases h
      · cases h
      · rename_i c' ha
        cases h
        exact nodup_sub _ _ (subtree_ordered _ _ _ _ _ _ _ ha) (parseToTree_nodup _ _ _ hp)

/-! ### the loop over the generators -/

theorem addPartial_new (rs : List Result) (r : Result) (h : r.name ∉ rs.map (·.name)) :
    addPartial rs r = rs ++ [r] := by
  rw [addPartial]
  split
  · rename_i ha
    obtain ⟨x, hx, hxe⟩ := List.any_eq_true.1 ha
    simp only [beq_iff_eq] at hxe
    exact (h (List.mem_map.2 ⟨x, hx, hxe⟩)).elim
  · rfl

theorem runPartials_ok (v : Vendor) (sp : Splitter) :
    (gens : List GenDef) → (cs : List Cfg) → (acc : List Result) →
    AllOk v sp gens cs →
    (acc.map (·.name) ++ gens.map (·.name)).Nodup →
    runPartials v sp gens acc = .ok (acc ++ resultsOf gens cs)
  | [], [], acc, _, _ => by simp [runPartials, resultsOf]
  | [], _ :: _, _, h, _ => by simp [AllOk] at h
  | _ :: _, [], _, h, _ => by simp [AllOk] at h
  | g :: gens, c :: cs, acc, h, hn => by
    obtain ⟨h1, h2⟩ := h
    rw [runPartials, h1]
    simp only
    have hnew : g.name ∉ acc.map (·.name) := by
      intro hm
      rw [List.nodup_append] at hn
      exact hn.2.2 _ hm _ (by simp) rfl
    rw [addPartial_new acc _ hnew]
    have := runPartials_ok v sp gens cs (acc ++ [⟨g.name, g.acl, c⟩]) h2
      (by simpa [List.append_assoc] using hn)
    rw [this]
    simp [resultsOf, List.append_assoc]

/-- the first failing generator ends the run with its error -/
theorem runPartials_err (v : Vendor) (sp : Splitter) (e : RunErr) :
    (pre : List GenDef) → (g : GenDef) → (post : List GenDef) → (acc : List Result) →
    (∀ x ∈ pre, ∃ c, runPartial v sp x = .ok c) → runPartial v sp g = .error e →
    runPartials v sp (pre ++ g :: post) acc = .error e
  | [], g, post, acc, _, hg => by
    rw [List.nil_append, runPartials, hg]
  | x :: pre, g, post, acc, hpre, hg => by
    obtain ⟨c, hc⟩ := hpre x List.mem_cons_self
    rw [List.cons_append, runPartials, hc]
    exact runPartials_err v sp e pre g post _ (fun y hy => hpre y (List.mem_cons_of_mem _ hy)) hg

/-! ### `config_tree`: the union of the generators' trees -/

theorem foldl_merge_paths (rs : List Result) :
    ∀ (t : Cfg), NoDupKeys t → (∀ r ∈ rs, NoDupKeys r.config) →
      NoDupKeys (rs.foldl (fun t r => merge t r.config) t) ∧
      ∀ p, p ∈ (rs.foldl (fun t r => merge t r.config) t).paths ↔ p ∈ t.paths ∨ ∃ r ∈ rs, p ∈ r.config.paths := by
  induction rs with
  | nil => intro t ht _; exact ⟨ht, fun p => by simp⟩
  | cons r rest ih =>
    intro t ht hr
    have hr0 := hr r List.mem_cons_self
    have hm := nodup_merge t r.config ht hr0
    obtain ⟨h1, h2⟩ := ih (merge t r.config) hm (fun x hx => hr x (List.mem_cons_of_mem _ hx))
    refine ⟨h1, fun p => ?_⟩
    rw [List.foldl_cons, h2 p, paths_merge t r.config ht hr0 p]
    constructor
    · rintro ((h | h) | ⟨x, hx, h⟩)
      · exact .inl h
      · exact .inr ⟨r, List.mem_cons_self, h⟩
      · exact .inr ⟨x, List.mem_cons_of_mem _ hx, h⟩
    · rintro (h | ⟨x, hx, h⟩)
      · exact .inl (.inl h)
      · rcases List.mem_cons.1 hx with rfl | hx
        · exact .inl (.inr h)
        · exact .inr ⟨x, hx, h⟩

theorem empty_nodup : NoDupKeys Cfg.empty := by rw [Cfg.empty, NoDupKeys, NoDupKeysL]; trivial

theorem configTree_paths (rs : List Result) (h : ∀ r ∈ rs, NoDupKeys r.config) (p : List String) :
    p ∈ (configTree rs).paths ↔ ∃ r ∈ rs, p ∈ r.config.paths := by
  rw [configTree, (foldl_merge_paths rs Cfg.empty empty_nodup h).2 p]
  simp [Cfg.empty, Cfg.paths, Cfg.pathsList]

theorem configTree_nodup (rs : List Result) (h : ∀ r ∈ rs, NoDupKeys r.config) : NoDupKeys (configTree rs) :=
  (foldl_merge_paths rs Cfg.empty empty_nodup h).1

theorem resultsOf_configs : (gens : List GenDef) → (cs : List Cfg) → gens.length = cs.length → ∀ c,
    (∃ r ∈ resultsOf gens cs, r.config = c) ↔ c ∈ cs
  | [], [], _, c => by simp [resultsOf]
  | [], _ :: _, h, _ => by simp at h
  | _ :: _, [], h, _ => by simp at h
  | g :: gens, c0 :: cs, h, c => by
    simp only [resultsOf, List.mem_cons, exists_eq_or_imp]
    rw [resultsOf_configs gens cs (by simpa using h) c]
    constructor
    · rintro (h | h)
      · exact .inl h.symm
      · exact .inr h
    · rintro (h | h)
      · exact .inl h.symm
      · exact .inr h

theorem allOk_length (v : Vendor) (sp : Splitter) : (gens : List GenDef) → (cs : List Cfg) → AllOk v sp gens cs →
    gens.length = cs.length
  | [], [], _ => rfl
  | [], _ :: _, h => by simp [AllOk] at h
  | _ :: _, [], h => by simp [AllOk] at h
  | g :: gens, c :: cs, h => by simp [allOk_length v sp gens cs h.2]

theorem allOk_nodup (v : Vendor) (sp : Splitter) : (gens : List GenDef) → (cs : List Cfg) → AllOk v sp gens cs →
    ∀ r ∈ resultsOf gens cs, NoDupKeys r.config
  | [], [], _, r, hr => by simp [resultsOf] at hr
  | [], _ :: _, h, _, _ => by simp [AllOk] at h
  | _ :: _, [], h, _, _ => by simp [AllOk] at h
  | g :: gens, c :: cs, h, r, hr => by
    simp only [resultsOf, List.mem_cons] at hr
    rcases hr with rfl | hr
    · exact runPartial_nodup v sp g c h.1
    · exact allOk_nodup v sp gens cs h.2 r hr

/-! ### `_old_new_per_device` -/

theorem oldNew_failure (v : Vendor) (sp : Splitter) (e : RunErr) (pre : List GenDef) (g : GenDef)
    (post : List GenDef) (hpre : ∀ x ∈ pre, ∃ c, runPartial v sp x = .ok c) (hg : runPartial v sp g = .error e) :
    oldNew v sp (pre ++ g :: post) = .error e := by
  rw [oldNew, runPartials_err v sp e pre g post [] hpre hg]

theorem oldNew_ok (v : Vendor) (sp : Splitter) (gens : List GenDef) (cs : List Cfg) (t0 : Cfg)
    (hok : AllOk v sp gens cs) (hn : (gens.map (·.name)).Nodup)
    (hlen : applyAcl v false false (compileAcl [combineAcl (resultsOf gens cs)]) []
      (configTree (resultsOf gens cs)) = .ok t0) :
    oldNew v sp gens =
      (match firstConflict v (compileAcl [combineAcl (resultsOf gens cs)]) [] (configTree (resultsOf gens cs)) with
       | some (p, ns) => .error (.notExclusive p ns)
       | none => .ok t0) := by
  have hr := runPartials_ok v sp gens cs [] hok (by simpa using hn)
  rw [List.nil_append] at hr
  rw [oldNew, hr]
  simp only
  rw [excl_cfg v _ [] _ t0 hlen]
  cases firstConflict v (compileAcl [combineAcl (resultsOf gens cs)]) [] (configTree (resultsOf gens cs)) with
  | none => rfl
  | some q => rfl

theorem union_paths (v : Vendor) (sp : Splitter) (gens : List GenDef) (cs : List Cfg)
    (hok : AllOk v sp gens cs) (p : List String) :
    p ∈ (configTree (resultsOf gens cs)).paths ↔ ∃ c ∈ cs, p ∈ c.paths := by
  rw [configTree_paths _ (allOk_nodup v sp gens cs hok)]
  have hl := allOk_length v sp gens cs hok
  constructor
  · rintro ⟨r, hr, hp⟩
    exact ⟨r.config, (resultsOf_configs gens cs hl _).1 ⟨r, hr, rfl⟩, hp⟩
  · rintro ⟨c, hc, hp⟩
    obtain ⟨r, hr, rfl⟩ := (resultsOf_configs gens cs hl c).2 hc
    exact ⟨r, hr, hp⟩

theorem new_paths (v : Vendor) (sp : Splitter) (gens : List GenDef) (cs : List Cfg) (t0 : Cfg)
    (hok : AllOk v sp gens cs)
    (hlen : applyAcl v false false (compileAcl [combineAcl (resultsOf gens cs)]) []
      (configTree (resultsOf gens cs)) = .ok t0) (p : List String) :
    p ∈ t0.paths ↔ (∃ c ∈ cs, p ∈ c.paths) ∧
      (walk v (compileAcl [combineAcl (resultsOf gens cs)]) p).isSome := by
  rw [path_predicate v _ [] _ t0 hlen p, union_paths v sp gens cs hok p]

theorem new_nodup (v : Vendor) (sp : Splitter) (gens : List GenDef) (cs : List Cfg) (t0 : Cfg)
    (hok : AllOk v sp gens cs)
    (hlen : applyAcl v false false (compileAcl [combineAcl (resultsOf gens cs)]) []
      (configTree (resultsOf gens cs)) = .ok t0) : NoDupKeys t0 :=
  nodup_sub _ _ (subtree_ordered _ _ _ _ _ _ _ hlen) (configTree_nodup _ (allOk_nodup v sp gens cs hok))

end Annet.Gen.Lemmas
