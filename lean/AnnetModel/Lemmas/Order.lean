/-
`Orderer.get_order` for plain ordering rulebooks: the rank of a command is the index of the (unique) rule matching it.
Statements fixed by Props/C08.lean.
-/
import AnnetModel.Spec.Order
import AnnetModel.Lemmas.Sort

namespace Annet.Patch
open Annet.Rules Annet.Pattern

/-- one step of the loop over a plain rule that does not match leaves the state as it is -/
theorem getOrderStep_nomatch (v : Vendor) (row : String) (scope : Option String) (st : OState) (k : Nat) (r : ORule)
    (hp : PlainO v r) (hex : v.exit = "" ∨ v.exit ≠ row) (hm : oMatches v r row = false) :
    getOrderStep v row scope st k r = some st := by
  obtain ⟨h1, h2, h3, h4, h5⟩ := hp
  obtain ⟨dp, hdp⟩ := Option.isSome_iff_exists.mp h4
  obtain ⟨rp, hrp⟩ := Option.isSome_iff_exists.mp h5
  have hex' : ¬ (¬ v.exit = "" ∧ v.exit = row) := by
    rcases hex with h | h <;> simp [h]
  simp only [oMatches, hdp, hrp, Option.bind_some, Bool.or_eq_false_iff] at hm
  simp only [getOrderStep, h1, h2, h3, hdp, hrp]
  simp [hm.1, hm.2, hex']

/-- one step over a plain rule that matches, with no earlier match: the rule's index is taken whatever the weight -/
theorem getOrderStep_match (v : Vendor) (row : String) (scope : Option String) (st : OState) (k : Nat) (r : ORule)
    (hp : PlainO v r) (hm : oMatches v r row = true) (hn : st.fOrder = none) :
    ∃ w, getOrderStep v row scope st k r =
      some { fOrder := some (.fin k), fWeight := w, direct := st.direct, children := st.children ++ r.children } := by
  obtain ⟨h1, h2, h3, h4, h5⟩ := hp
  obtain ⟨dp, hdp⟩ := Option.isSome_iff_exists.mp h4
  obtain ⟨rp, hrp⟩ := Option.isSome_iff_exists.mp h5
  simp only [oMatches, hdp, hrp, Option.bind_some, Bool.or_eq_true] at hm
  refine ⟨weight row (if (dp.match? row.toList).isSome then dp else rp), ?_⟩
  simp only [getOrderStep, h1, h2, h3, hdp, hrp]
  simp [hm, hn]

/-- the loop over plain rules none of which matches returns the state it started with -/
theorem go_nomatch (v : Vendor) (row : String) (scope : Option String) (hex : v.exit = "" ∨ v.exit ≠ row) :
    ∀ (rs : List ORule) (k : Nat) (st : OState), (∀ r ∈ rs, PlainO v r) → (∀ r ∈ rs, oMatches v r row = false) →
      getOrder.go v row scope rs k st = some st
  | [], _, _, _, _ => rfl
  | r :: rs, k, st, hp, hu => by
    rw [getOrder.go, getOrderStep_nomatch v row scope st k r (hp r (by simp)) hex (hu r (by simp))]
    exact go_nomatch v row scope hex rs (k + 1) st (fun x hx => hp x (by simp [hx])) (fun x hx => hu x (by simp [hx]))

/-- the loop over plain rules of which exactly the `i`-th matches, started at index `k` with no earlier match -/
theorem go_unique (v : Vendor) (row : String) (scope : Option String) (hex : v.exit = "" ∨ v.exit ≠ row) (ri : ORule)
    (hm : oMatches v ri row = true) :
    ∀ (rs : List ORule) (i k : Nat) (st : OState), (∀ r ∈ rs, PlainO v r) → rs[i]? = some ri →
      (∀ j rj, rs[j]? = some rj → j ≠ i → oMatches v rj row = false) → st.fOrder = none →
      ∃ w, getOrder.go v row scope rs k st =
        some { fOrder := some (.fin (k + i)), fWeight := w, direct := st.direct, children := st.children ++ ri.children }
  | [], i, _, _, _, hi, _, _ => by simp at hi
  | r :: rs, 0, k, st, hp, hi, hu, hn => by
    simp only [List.getElem?_cons_zero, Option.some.injEq] at hi
    subst hi
    obtain ⟨w, hw⟩ := getOrderStep_match v row scope st k r (hp r (by simp)) hm hn
    refine ⟨w, ?_⟩
    rw [getOrder.go, hw]
    exact go_nomatch v row scope hex rs (k + 1) _ (fun x hx => hp x (by simp [hx])) (fun x hx => by
      obtain ⟨j, hj⟩ := List.getElem?_of_mem hx
      exact hu (j + 1) x (by simpa using hj) (by omega))
  | r :: rs, i + 1, k, st, hp, hi, hu, hn => by
    simp only [List.getElem?_cons_succ] at hi
    rw [getOrder.go, getOrderStep_nomatch v row scope st k r (hp r (by simp)) hex (hu 0 r (by simp) (by omega))]
    obtain ⟨w, hw⟩ := go_unique v row scope hex ri hm rs i (k + 1) st (fun x hx => hp x (by simp [hx])) hi
      (fun j rj hj hji => hu (j + 1) rj (by simpa using hj) (by omega)) hn
    exact ⟨w, by show getOrder.go v row scope rs (k + 1) st = _; rw [hw, show k + 1 + i = k + (i + 1) by omega]⟩

/-- a command matched by exactly one rule of a plain rulebook gets that rule's index as its order, keeps the direct flag
it came with, and its children are ordered by that rule's child rules -/
theorem getOrder_unique (v : Vendor) (rb : List ORule) (row : String) (cmdDirect : Bool) (scope : Option String)
    (hp : ∀ r ∈ rb, PlainO v r) (hex : v.exit = "" ∨ v.exit ≠ row)
    (i : Nat) (ri : ORule) (hi : rb[i]? = some ri) (hm : oMatches v ri row = true)
    (hu : ∀ j rj, rb[j]? = some rj → j ≠ i → oMatches v rj row = false) :
    getOrder v rb row cmdDirect scope = some { order := .fin i, direct := cmdDirect, children := dedupLast ri.children } := by
  obtain ⟨w, hw⟩ := go_unique v row scope hex ri hm rb i 0 { direct := cmdDirect } hp hi hu rfl
  simp [getOrder, hw]

/-- a command no rule matches (and that is not the block-exit word) has order 0 -/
theorem getOrder_none (v : Vendor) (rb : List ORule) (row : String) (cmdDirect : Bool) (scope : Option String)
    (hp : ∀ r ∈ rb, PlainO v r) (hex : v.exit = "" ∨ v.exit ≠ row)
    (hu : ∀ r ∈ rb, oMatches v r row = false) :
    getOrder v rb row cmdDirect scope = some { order := .fin 0, direct := cmdDirect, children := [] } := by
  simp [getOrder, go_nomatch v row scope hex rb 0 { direct := cmdDirect } hp hu, dedupLast]

/-- hence, among direct commands, the one matched by the earlier rule has the smaller key; among commands matched only in
negated form (`direct = false`) the order is mirrored -/
theorem signed_lt_direct (i j : Nat) (h : i < j) : (signed (.fin i) true).lt (signed (.fin j) true) = true := by
  simp [signed, SOrd.lt]; omega

theorem signed_lt_negated (i j : Nat) (h : i < j) : (signed (.fin j) false).lt (signed (.fin i) false) = true := by
  simp [signed, SOrd.lt]; omega

/-- and every negated-form command of a rule with index ≥ 1 precedes every direct command -/
theorem signed_negated_before_direct (i j : Nat) (hi : 0 < i) : (signed (.fin i) false).lt (signed (.fin j) true) = true := by
  simp [signed, SOrd.lt]; omega

/-! non-vacuity: a three-rule plain rulebook and a negated command matched by the third rule only -/
section NonVacuity
private def exV : Vendor := { reverse := "no", exit := "exit" }
private def exC : ORule := .mk "c *" "c *" false false none [.mk "d" "d" false false none []]
private def exRb : List ORule := [.mk "a *" "a *" false false none [], .mk "b" "b" false false none [], exC]

private instance (v : Vendor) (r : ORule) : Decidable (PlainO v r) := by unfold PlainO; infer_instance

example :
    (∀ r ∈ exRb, PlainO exV r) ∧ (exV.exit = "" ∨ exV.exit ≠ "no c 1") ∧ exRb[2]? = some exC ∧
      oMatches exV exC "no c 1" = true ∧ (∀ j rj, exRb[j]? = some rj → j ≠ 2 → oMatches exV rj "no c 1" = false) := by
  refine ⟨by decide +kernel, by decide +kernel, rfl, by decide +kernel, ?_⟩
  intro j rj hj hne
  match j, hj, hne with
  | 0, hj, _ => cases hj; decide +kernel
  | 1, hj, _ => cases hj; decide +kernel
  | 2, _, hne => exact absurd rfl hne
  | _ + 3, hj, _ => simp [exRb] at hj

example : getOrder exV exRb "no c 1" false none
    = some { order := .fin 2, direct := false, children := dedupLast exC.children } := by
  refine getOrder_unique exV exRb "no c 1" false none (by decide +kernel) (by decide +kernel) 2 exC rfl
    (by decide +kernel) ?_
  intro j rj hj hne
  match j, hj, hne with
  | 0, hj, _ => cases hj; decide +kernel
  | 1, hj, _ => cases hj; decide +kernel
  | 2, _, hne => exact absurd rfl hne
  | _ + 3, hj, _ => simp [exRb] at hj
end NonVacuity

end Annet.Patch
