/-
Helper lemmas for C02.
-/
import AnnetModel.Model.AclDiff
import AnnetModel.Lemmas.Device

namespace Annet.AclDiff.Lemmas
open Annet Annet.Diff Annet.AclDiff

mutual
  /-- every entry of an ACL-filtered diff has its row matched by the ACL at the rules reached along its path -/
  inductive Covered (v : Acl.Vendor) : Acl.Rules → List DItem → Prop
    | nil (rules : Acl.Rules) : Covered v rules []
    | cons {rules cr : Acl.Rules} {am : Acl.Match} {i : DItem} {rest : List DItem} :
        Acl.matchRowToAcl v i.row rules false = .ok (some (am, cr)) → Covered v cr i.children →
        (i.op = .removed → am.rule.cantDelete.all id = false) →
        Covered v rules rest → Covered v rules (i :: rest)
end

theorem applyAclDiff_nil (v : Acl.Vendor) (rules : Acl.Rules) : applyAclDiff v rules [] = .ok [] := by
  rw [applyAclDiff]

/-- inversion of one step of `applyAclDiff` -/
theorem applyAclDiff_cons_ok {v : Acl.Vendor} {rules : Acl.Rules} {i : DItem} {rest d' : List DItem}
    (h : applyAclDiff v rules (i :: rest) = .ok d') :
    ∃ oi r, aclDiffItem v rules i = .ok oi ∧ applyAclDiff v rules rest = .ok r ∧
      d' = (match oi with | none => r | some i' => i' :: r) := by
  rw [applyAclDiff] at h
  split at h
  · cases h
  · cases h
  · next r h1 h2 => cases h; exact ⟨none, _, h1, h2, rfl⟩
  · next i' r h1 h2 => cases h; exact ⟨some i', _, h1, h2, rfl⟩

/-- inversion of `aclDiffItem` -/
theorem aclDiffItem_ok {v : Acl.Vendor} {rules : Acl.Rules} {op : Op} {row : String} {ch : List DItem}
    {m : Rules.PMatch} {i' : DItem} (h : aclDiffItem v rules (.mk op row ch m) = .ok (some i')) :
    ∃ am cr ch', Acl.matchRowToAcl v row rules false = .ok (some (am, cr)) ∧
      applyAclDiff v cr ch = .ok ch' ∧
      i' = .mk (if op == .removed && am.rule.cantDelete.all id then .affected else op) row ch' m := by
  rw [aclDiffItem] at h
  split at h
  · cases h
  · cases h
  · next am cr hm =>
    split at h
    · cases h
    · next ch' hc =>
      cases h
      exact ⟨am, cr, ch', hm, hc, rfl⟩

mutual
  theorem covered_list (v : Acl.Vendor) : ∀ (d : List DItem) (rules : Acl.Rules) (d' : List DItem),
      applyAclDiff v rules d = .ok d' → Covered v rules d'
    | [], rules, d', h => by
      rw [applyAclDiff_nil] at h; cases h; exact .nil rules
    | i :: rest, rules, d', h => by
      obtain ⟨oi, r, h1, h2, rfl⟩ := applyAclDiff_cons_ok h
      have ihr := covered_list v rest rules r h2
      cases oi with
      | none => exact ihr
      | some i' =>
        obtain ⟨am, cr, hm, hc, hop⟩ := covered_item v i rules i' h1
        exact .cons hm hc hop ihr
  theorem covered_item (v : Acl.Vendor) : ∀ (i : DItem) (rules : Acl.Rules) (i' : DItem),
      aclDiffItem v rules i = .ok (some i') →
      ∃ am cr, Acl.matchRowToAcl v i'.row rules false = .ok (some (am, cr)) ∧ Covered v cr i'.children ∧
        (i'.op = .removed → am.rule.cantDelete.all id = false)
    | .mk op row ch m, rules, i', h => by
      obtain ⟨am, cr, ch', hm, hc, rfl⟩ := aclDiffItem_ok h
      refine ⟨am, cr, hm, covered_list v ch cr ch' hc, ?_⟩
      simp only [DItem.op]
      intro ho
      cases hcd : am.rule.cantDelete.all id with
      | false => rfl
      | true =>
        rw [hcd] at ho
        cases op <;> simp at ho
end

theorem acl_diff_covered (v : Acl.Vendor) (rules : Acl.Rules) (d d' : List DItem)
    (h : applyAclDiff v rules d = .ok d') : Covered v rules d' :=
  covered_list v d rules d' h

/-- what `aclDiffItem` does to the row and the op of an entry it keeps -/
theorem aclDiffItem_row_op {v : Acl.Vendor} {rules : Acl.Rules} {i i' : DItem}
    (h : aclDiffItem v rules i = .ok (some i')) :
    i.row = i'.row ∧ (i'.op = i.op ∨ (i.op = .removed ∧ i'.op = .affected)) := by
  obtain ⟨op, row, ch, m⟩ := i
  obtain ⟨am, cr, ch', _, _, rfl⟩ := aclDiffItem_ok h
  refine ⟨rfl, ?_⟩
  simp only [DItem.op]
  split
  · next hc =>
    rw [Bool.and_eq_true, beq_iff_eq] at hc
    exact .inr ⟨hc.1, rfl⟩
  · exact .inl rfl

theorem acl_diff_rows_sublist (v : Acl.Vendor) (rules : Acl.Rules) (d d' : List DItem)
    (h : applyAclDiff v rules d = .ok d') : List.Sublist (d'.map (·.row)) (d.map (·.row)) := by
  induction d generalizing d' with
  | nil => rw [applyAclDiff_nil] at h; cases h; exact .slnil
  | cons i rest ih =>
    obtain ⟨oi, r, h1, h2, rfl⟩ := applyAclDiff_cons_ok h
    cases oi with
    | none => exact (ih r h2).cons _
    | some i' =>
      simp only [List.map_cons]
      rw [(aclDiffItem_row_op h1).1]
      exact (ih r h2).cons_cons _

theorem acl_diff_ops (v : Acl.Vendor) (rules : Acl.Rules) (d d' : List DItem)
    (h : applyAclDiff v rules d = .ok d') (i' : DItem) (hi : i' ∈ d') :
    ∃ i ∈ d, i.row = i'.row ∧ (i'.op = i.op ∨ (i.op = .removed ∧ i'.op = .affected)) := by
  induction d generalizing d' with
  | nil => rw [applyAclDiff_nil] at h; cases h; cases hi
  | cons i rest ih =>
    obtain ⟨oi, r, h1, h2, rfl⟩ := applyAclDiff_cons_ok h
    cases oi with
    | none =>
      obtain ⟨j, hj, hr⟩ := ih r h2 hi
      exact ⟨j, List.mem_cons_of_mem _ hj, hr⟩
    | some i'' =>
      rcases List.mem_cons.1 hi with rfl | hi
      · exact ⟨i, List.mem_cons_self .., aclDiffItem_row_op h1⟩
      · obtain ⟨j, hj, hr⟩ := ih r h2 hi
        exact ⟨j, List.mem_cons_of_mem _ hj, hr⟩

/-- `logicDefault` with empty REMOVED bucket only yields direct commands -/
theorem logicDefault_direct (pv : Rules.Vendor) (attrs : Rules.PAttrs) (key : List String)
    (a m f u : List Patch.PreEntry) (ys : List Patch.Yield)
    (h : Patch.logicDefault pv attrs (.mk key a [] m f u) = .ok ys) : ∀ y ∈ ys, y.direct = true := by
  unfold Patch.logicDefault at h
  simp only at h
  split at h
  · cases h
  · split at h
    · cases h; simp
    · cases h; simp
    · cases h; simp
    · contradiction
    · cases h; simp

/-- none of the common logic functions emits a removal (`direct = false`) unless the REMOVED or MOVED bucket
of the (rule, key) is non-empty -/
theorem no_removal_without_removed_bucket (pv : Rules.Vendor) (attrs : Rules.PAttrs) (key : List String)
    (a f u : List Patch.PreEntry) (ys : List Patch.Yield)
    (h : Patch.runLogic pv attrs (.mk key a [] [] f u) = .ok ys) : ∀ y ∈ ys, y.direct = true := by
  unfold Patch.runLogic at h
  split at h
  · exact logicDefault_direct pv attrs key a [] f u ys h
  split at h
  · unfold Patch.logicOrdered at h
    simp only [List.isEmpty_nil, if_true] at h
    split at h
    · cases h
    · cases h
    · next x y hx hy =>
      cases hx; cases h
      simpa using logicDefault_direct pv attrs key a [] f u y hy
  split at h
  · unfold Patch.logicRewrite at h
    simp only [List.isEmpty_nil, if_true] at h
    exact logicDefault_direct pv attrs key a [] f u ys h
  split at h
  · unfold Patch.logicPermanent at h
    simp only at h
    exact logicDefault_direct pv attrs key a [] f u ys h
  split at h
  · unfold Patch.logicIgnoreChanges at h
    simp only [List.isEmpty_nil, Bool.not_true, Bool.and_false, Bool.false_eq_true, if_false] at h
    exact logicDefault_direct pv attrs key a [] f u ys h
  split at h
  · unfold Patch.logicUndoRedo at h
    simp only [List.isEmpty_nil, Bool.not_true, Bool.and_false, Bool.false_and, Bool.not_false, if_true] at h
    exact logicDefault_direct pv attrs key a [] f u ys h
  · cases h

open Annet.Rules Annet.Device Annet.Device.Abs in
/-- `Device.Lemmas.leaf_preserves_others` without its (unused) well-formedness hypothesis -/
theorem leaf_preserves_others' (env : Env) (rules : PRules) (c : String) (kids : List (String × Cfg)) (s : Slot)
    (hother : slotOf rules c ≠ some s)
    (hother' : ∀ r', stripReverse env c = some r' → slotOf rules r' ≠ some s) :
    (execLeaf env rules c kids).filter (fun e => slotOf rules e.1 == some s) =
      kids.filter (fun e => slotOf rules e.1 == some s) := by
  have filt : ∀ (m : PMatch), some (m.rawRule, m.key) ≠ some s → ∀ e : String × Cfg,
      (slotOf rules e.1 == some s) = true → sameSlot rules m e.1 = false := by
    intro m hm e he
    rw [beq_iff_eq] at he
    rw [Device.Lemmas.sameSlot_eq, he, beq_eq_false_iff_ne]
    exact fun h => hm h.symm
  unfold execLeaf
  split
  · rfl
  · split
    · next m heq =>
      obtain ⟨r', hr', hm⟩ := Option.bind_eq_some_iff.1 heq
      obtain ⟨mc, hmc, rfl⟩ := Option.map_eq_some_iff.1 hm
      have hm' : some (mc.1.rawRule, mc.1.key) ≠ some s := by
        have := hother' r' hr'
        rwa [Device.Lemmas.slotOf_of_classify (m := mc.1) (cr := mc.2) hmc] at this
      rw [List.filter_filter]
      apply List.filter_congr
      intro e he
      cases hp : slotOf rules e.1 == some s with
      | false => simp
      | true => simp [filt mc.1 hm' e hp]
    · split
      · next m cr hcl =>
        have hm' : some (m.rawRule, m.key) ≠ some s := by
          rwa [Device.Lemmas.slotOf_of_classify hcl] at hother
        unfold putLine
        split
        · rw [List.filter_filter]
          apply List.filter_congr
          intro e he
          cases hp : slotOf rules e.1 == some s with
          | false => simp
          | true => simp [filt m hm' e hp]
        · split
          · exact Device.Lemmas.rf_filter_other rules m c s hother hm' false kids
          · have hcf : (slotOf rules c == some s) = false := by
              rw [beq_eq_false_iff_ne]; exact hother
            simp [List.filter_append, hcf]
      · rfl

set_option linter.unusedVariables false in
/-- commands on other slots leave the lines of a slot alone, over a whole command list -/
theorem cmds_preserve_other_slot (env : Device.Env) (rules : Rules.PRules) (cs : List String)
    (kids : List (String × Cfg)) (s : Device.Abs.Slot) (hwf : Device.Abs.WF rules kids)
    (hother : ∀ c ∈ cs, Device.Abs.slotOf rules c ≠ some s ∧
      ∀ r', Device.stripReverse env c = some r' → Device.Abs.slotOf rules r' ≠ some s) :
    (cs.foldl (fun k c => Device.execLeaf env rules c k) kids).filter (fun e => Device.Abs.slotOf rules e.1 == some s) =
      kids.filter (fun e => Device.Abs.slotOf rules e.1 == some s) := by
  clear hwf
  induction cs generalizing kids with
  | nil => rfl
  | cons c cs ih =>
    rw [List.foldl_cons, ih _ (fun c' hc' => hother c' (List.mem_cons_of_mem _ hc'))]
    have := hother c (List.mem_cons_self ..)
    exact leaf_preserves_others' env rules c kids s this.1 this.2

end Annet.AclDiff.Lemmas
