/-
Helper lemmas for C02.
-/
import AnnetModel.Model.AclDiff
import AnnetModel.Lemmas.Device

namespace Annet.AclDiff.Lemmas
open Annet Annet.Diff Annet.AclDiff

mutual
  /-- every entry of an ACL-filtered diff has its row matched by the ACL at the rules reached along its path -/
  inductive Covered (v : Acl.Vendor) : Acl.Rules → List DItem → Prop
    | nil (rules : Acl.Rules) : Covered v rules []
    | cons {rules cr : Acl.Rules} {am : Acl.Match} {i : DItem} {rest : List DItem} :
        Acl.matchRowToAcl v i.row rules false = .ok (some (am, cr)) → Covered v cr i.children →
        (i.op = .removed → am.rule.cantDelete.all id = false) →
        Covered v rules rest → Covered v rules (i :: rest)
end

theorem acl_diff_covered (v : Acl.Vendor) (rules : Acl.Rules) (d d' : List DItem)
    (h : applyAclDiff v rules d = .ok d') : Covered v rules d' := by
  sorry

theorem acl_diff_rows_sublist (v : Acl.Vendor) (rules : Acl.Rules) (d d' : List DItem)
    (h : applyAclDiff v rules d = .ok d') : List.Sublist (d'.map (·.row)) (d.map (·.row)) := by
  sorry

theorem acl_diff_ops (v : Acl.Vendor) (rules : Acl.Rules) (d d' : List DItem)
    (h : applyAclDiff v rules d = .ok d') (i' : DItem) (hi : i' ∈ d') :
    ∃ i ∈ d, i.row = i'.row ∧ (i'.op = i.op ∨ (i.op = .removed ∧ i'.op = .affected)) := by
  sorry

/-- none of the common logic functions emits a removal (`direct = false`) unless the REMOVED or MOVED bucket
of the (rule, key) is non-empty -/
theorem no_removal_without_removed_bucket (pv : Rules.Vendor) (attrs : Rules.PAttrs) (key : List String)
    (a f u : List Patch.PreEntry) (ys : List Patch.Yield)
    (h : Patch.runLogic pv attrs (.mk key a [] [] f u) = .ok ys) : ∀ y ∈ ys, y.direct = true := by
  sorry

/-- commands on other slots leave the lines of a slot alone, over a whole command list -/
theorem cmds_preserve_other_slot (env : Device.Env) (rules : Rules.PRules) (cs : List String)
    (kids : List (String × Cfg)) (s : Device.Abs.Slot) (hwf : Device.Abs.WF rules kids)
    (hother : ∀ c ∈ cs, Device.Abs.slotOf rules c ≠ some s ∧
      ∀ r', Device.stripReverse env c = some r' → Device.Abs.slotOf rules r' ≠ some s) :
    (cs.foldl (fun k c => Device.execLeaf env rules c k) kids).filter (fun e => Device.Abs.slotOf rules e.1 == some s) =
      kids.filter (fun e => Device.Abs.slotOf rules e.1 == some s) := by
  sorry

end Annet.AclDiff.Lemmas
