/-
C02 clause (b), END TO END at EVERY DEPTH of the device, for the tree executor of C01 (`ConvergeNested.applyTree`).

`Lemmas/OutsideFlat.lean` proves the clause for the top level.  Here: for a path `p = [row_1, …, row_n]` of blocks of the
device and a slot `s` of the level below `row_n` (`n = 0`: the top level), if

  * at the last level no entry of the shown diff (the ACL-filtered diff, below the entries of `row_1 … row_n`) addresses
    `s`, and
  * at every level above, the entries of the shown diff that address the slot of `row_i` are entries of the line `row_i`
    itself that do not remove it (not REMOVED, not MOVED), and `row_i` is not read by the device as the removal of its own
    slot (if NO entry addresses the slot of `row_i`, nothing is asked of the levels below: nothing below is touched),

then the patch `_diff_and_patch` builds under the ACL, executed on ANY device that has the blocks `row_1 … row_n`, leaves
the lines of slot `s` below `p` exactly as they were (text, subtrees, relative order): `outside_nested`.

  `Outside env rules diff p s`   the hypothesis on the shown diff (decidable; a statement about `res.diff`, the rulebook
                                 and the negation word — not about the commands of the patch)
  `PathOK pv env rules p s`      the rulebook-level hypotheses of `outside_top` (`ReverseInSlot`, `RawDetRow`,
                                 `NoForceCommit` or `commit` harmless) at the rule sets reached along `p`; it follows
                                 from the `…All` versions over every rule set reachable through `classify`
                                 (`pathOK_of_all`)
  `slotLinesAt rules kids p s`   the lines of slot `s` below the path `p` (first line with the text `row_i` at each level)
  `subtreeAt kids p`             the subtree below the row path `p`

  `outside_nested`               the theorem (for `p = []` it is `outside_top` for `applyTree`: `outside_nested_nil`)
  `outside_nested_all`           the same from the `…All` hypotheses
  `outside_subtree`              row-path form: `subtreeAt (applyTree … dev.kids) (p ++ [r]) = subtreeAt dev.kids (p ++ [r])`
  `outside_nested_applyCmds`     on the path-based device `Device.applyCmds ∘ treePaths` (side condition `PathOKT` of
                                 `applyCmds_treePaths`: no `%rewrite` commands, proper block rows)

  `pathOK_of_nested`             `PathOK` along a uniquely matched path from the rulebook hypotheses of C01's
                                 `nested_converges` (`NestedRules`, `CmdsOKAll`)

Why the clauses of `Outside` above the last level: a diff entry of ANOTHER line of the block's slot (same rule and key,
other text) makes the device replace the block and discard its subtree (`putLine`); a REMOVED / MOVED entry sends the
removal command of the slot; a row the device reads as the removal of its own slot removes the block when sent.

Non-vacuity: `Example` (depth 2: an `interface *` block the ACL covers together with its child rule `mtu`; the child
line `description uplink` is covered by no ACL rule and stays although the new configuration lacks it; depth 3: `ip 1`
below the uncovered block `sub 1` stays; top level: `sysname foo` stays).

Not done here: an input-only form of `Outside` (on `old`, `new` and the ACL, the nested `AclSlotClosed`); instances of
the `…All` hypotheses (they quantify over every row; `pathOK_of_nested` is what the example uses).
-/
import AnnetModel.Lemmas.OutsideNestedBase
import AnnetModel.Lemmas.OutsideFlat
import AnnetModel.Lemmas.ConvergeNestedPaths

namespace Annet.AclDiff.OutsideNested
open Annet Annet.Rules Annet.Diff Annet.Device Annet.Device.Abs Annet.ConvergeNested
open Annet.AclDiff.OutsideFlat
open Annet.ConvergeNested.Lemmas (itemStep applyItems_foldl applyTree_eq TItem)

/-! ### vocabulary -/

/-- the lines of slot `s` below the block path `p` of a device level (at each level: the first line with that text) -/
def slotLinesAt : PRules → List (String × Cfg) → List String → Slot → Option (List (String × Cfg))
  | rules, kids, [], s => some (kids.filter fun e => slotOf rules e.1 == some s)
  | rules, kids, r :: p, s =>
    match classify rules r, kids.find? (fun e => e.1 == r) with
    | some (_, cr), some e => slotLinesAt cr e.2.kids p s
    | _, _ => none

/-- the subtree below the row path `p` of a device level (at each level: the first line with that text) -/
def subtreeAt : List (String × Cfg) → List String → Option Cfg
  | kids, [] => some (.mk kids)
  | kids, r :: p =>
    match kids.find? (fun e => e.1 == r) with
    | some e => subtreeAt e.2.kids p
    | none => none

/-- the diff `d` (entries of one level, with their children) stays outside slot `s` below the block path `p`:
at the last level no entry addresses `s`; above, the entries addressing the slot of the block `r` are entries of the
line `r` itself that do not remove it, whose children stay outside below -/
def Outside (env : Env) : PRules → List DItem → List String → Slot → Prop
  | rules, d, [], s => ∀ e ∈ d, addresses env rules e.row s = false
  | rules, d, r :: p, s =>
    match classify rules r with
    | none => False
    | some (m, cr) =>
      ∀ e ∈ d, addresses env rules e.row (m.rawRule, m.key) = true →
        e.row = r ∧ e.op ≠ .removed ∧ e.op ≠ .moved ∧
        (stripReverse env r).bind (slotOf rules) ≠ some (m.rawRule, m.key) ∧
        Outside env cr e.children p s

instance decOutside (env : Env) : ∀ (p : List String) (rules : PRules) (d : List DItem) (s : Slot),
    Decidable (Outside env rules d p s)
  | [], rules, d, s => by unfold Outside; infer_instance
  | r :: p, rules, d, s => by
    unfold Outside
    have := fun cr d => decOutside env p cr d s
    split <;> infer_instance

/-- the rulebook-level hypotheses of `outside_top`, at the rule sets reached along the path `p` -/
def PathOK (pv : Vendor) (env : Env) : PRules → List String → Slot → Prop
  | rules, [], s =>
    ReverseInSlot pv env rules ∧ RawDetRow rules ∧ (NoForceCommit rules ∨ addresses env rules "commit" s = false)
  | rules, r :: p, s =>
    match classify rules r with
    | none => False
    | some (m, cr) =>
      ReverseInSlot pv env rules ∧ RawDetRow rules ∧
      (NoForceCommit rules ∨ addresses env rules "commit" (m.rawRule, m.key) = false) ∧
      PathOK pv env cr p s

/-- the rule sets reachable through `classify` -/
inductive Reach : PRules → PRules → Prop
  | refl (rules : PRules) : Reach rules rules
  | step {rules cr cr' : PRules} {row : String} {m : PMatch} :
      classify rules row = some (m, cr) → Reach cr cr' → Reach rules cr'

def ReverseInSlotAll (pv : Vendor) (env : Env) (rules : PRules) : Prop := ∀ cr, Reach rules cr → ReverseInSlot pv env cr
def RawDetRowAll (rules : PRules) : Prop := ∀ cr, Reach rules cr → RawDetRow cr
def NoForceCommitAll (rules : PRules) : Prop := ∀ cr, Reach rules cr → NoForceCommit cr

/-- every block of the path is known to the rules reached along it -/
def PathKnown : PRules → List String → Prop
  | _, [] => True
  | rules, r :: p =>
    match classify rules r with
    | none => False
    | some (_, cr) => PathKnown cr p

theorem pathOK_of_all {pv : Vendor} {env : Env} : ∀ {p : List String} {rules : PRules} {s : Slot},
    ReverseInSlotAll pv env rules → RawDetRowAll rules → NoForceCommitAll rules → PathKnown rules p →
    PathOK pv env rules p s
  | [], rules, s, h1, h2, h3, _ => ⟨h1 _ (.refl _), h2 _ (.refl _), .inl (h3 _ (.refl _))⟩
  | r :: p, rules, s, h1, h2, h3, hk => by
    rw [PathKnown] at hk
    rw [PathOK]
    cases hcl : classify rules r with
    | none => rw [hcl] at hk; exact hk
    | some mc =>
      obtain ⟨m, cr⟩ := mc
      rw [hcl] at hk
      exact ⟨h1 _ (.refl _), h2 _ (.refl _), .inl (h3 _ (.refl _)),
        pathOK_of_all (fun c hc => h1 c (.step hcl hc)) (fun c hc => h2 c (.step hcl hc))
          (fun c hc => h3 c (.step hcl hc)) hk⟩

theorem known_of_lines : ∀ {p : List String} {rules : PRules} {s : Slot} {kids ls : List (String × Cfg)},
    slotLinesAt rules kids p s = some ls → PathKnown rules p
  | [], _, _, _, _, _ => trivial
  | r :: p, rules, s, kids, ls, h => by
    rw [PathKnown]
    rw [slotLinesAt] at h
    cases hcl : classify rules r with
    | none => simp [hcl] at h
    | some mc =>
      obtain ⟨m, cr⟩ := mc
      simp only [hcl] at h ⊢
      cases hf : kids.find? (fun e => e.1 == r) with
      | none => simp [hf] at h
      | some e =>
        simp only [hf] at h
        exact known_of_lines h

/-! ### one item -/

/-- a removal command of an entry outside slot `s` leaves the lines of `s` alone -/
theorem reverse_untouched {pv : Vendor} {env : Env} {rules : PRules} {d : List DItem} {s : Slot}
    (hcl : Classified rules d) (hrev : ReverseInSlot pv env rules) (hraw : RawDetRow rules)
    {e e' : DItem} {row : String} (he : e ∈ d) (he' : e' ∈ d) (hrr : e'.m.rawRule = e.m.rawRule)
    (hrc : Patch.reverseCmd pv e'.m.attrs e.m.key = some row) (hes : slotOf rules e.row ≠ some s)
    (kids : List (String × Cfg)) :
    (execLeaf env rules row kids).filter (fun x => slotOf rules x.1 == some s) =
      kids.filter (fun x => slotOf rules x.1 == some s) := by
  obtain ⟨cr, hce⟩ := hcl e he
  obtain ⟨cr', hce'⟩ := hcl e' he'
  obtain ⟨f, hf, hf1, hf2⟩ := attrs_of_classify hce
  obtain ⟨f', hf', hf1', hf2'⟩ := attrs_of_classify hce'
  have hrow : e'.m.attrs.row = e.m.attrs.row := by
    rw [hf2, hf2']
    exact hraw f' hf' f hf (by rw [← hf1, ← hf1', hrr])
  rw [reverseCmd_congr pv _ _ _ hrow] at hrc
  obtain ⟨r', hr', hsl⟩ := hrev e.row e.m cr hce row hrc
  rw [Device.Lemmas.slotOf_of_classify hce] at hes
  exact execLeaf_removal_other env rules row r' kids s _ hr' hsl (fun h => hes (by rw [h]))

/-- a block item on another slot leaves the lines of `s` alone -/
theorem block_untouched (env : Env) (rules : PRules) (row : String) (T : Patch.PTree) (k : Patch.SortKey) (s : Slot)
    (hne : slotOf rules row ≠ some s) (kids : List (String × Cfg)) :
    (itemStep env rules (row, some T, k) kids).filter (fun x => slotOf rules x.1 == some s) =
      kids.filter (fun x => slotOf rules x.1 == some s) := by
  rw [Lemmas.itemStep_block]
  cases hcl : classify rules row with
  | none => rfl
  | some mc =>
    obtain ⟨m, cr⟩ := mc
    simp only
    rw [inBlock_filter_other rules _ row s hne, putLine_filter_other rules m row s kids hne]
    rwa [Device.Lemmas.slotOf_of_classify hcl] at hne

theorem foldl_inv {α β : Type} (f : β → α → β) (P : β → Prop) :
    ∀ (l : List α), (∀ a ∈ l, ∀ b, P b → P (f b a)) → ∀ b, P b → P (l.foldl f b)
  | [], _, _, hb => hb
  | a :: l, h, b, hb =>
    foldl_inv f P l (fun a' ha' => h a' (List.mem_cons_of_mem _ ha')) (f b a) (h a List.mem_cons_self b hb)

/-- what the entries of the shown diff say about the entries of the diff -/
theorem outside_entry {env : Env} {rules : PRules} {d : List DItem} {r : String} {p : List String} {s : Slot}
    {m : PMatch} {cr : PRules} (hcl : classify rules r = some (m, cr))
    (hout : Outside env rules (stripUnchanged d) (r :: p) s) {e : DItem} (he : e ∈ d) (hop : e.op ≠ .unchanged)
    (ha : addresses env rules e.row (m.rawRule, m.key) = true) :
    e.row = r ∧ e.op ≠ .removed ∧ e.op ≠ .moved ∧
      (stripReverse env r).bind (slotOf rules) ≠ some (m.rawRule, m.key) ∧
      Outside env cr (stripUnchanged e.children) p s := by
  rw [Outside] at hout
  simp only [hcl] at hout
  have := hout (stripItem e) (stripItem_mem d e he hop) (by rw [(stripItem_row_m e).1]; exact ha)
  rwa [(stripItem_row_m e).1, Diff.Lemmas.stripItem_op, stripItem_children] at this

/-! ### the tree executor -/

/-- the items of a patch tree that stems from the diff `d`, executed in order on a device level that has the blocks of
the path `p`, leave the lines of slot `s` below `p` alone -/
theorem applyItems_outside (pv : Vendor) (env : Env) : ∀ (p : List String) (rules : PRules) (d : List DItem) (s : Slot)
    (items : List TItem) (kids ls : List (String × Cfg)),
    ClassN rules d → PathOK pv env rules p s → Outside env rules (stripUnchanged d) p s →
    (∀ it ∈ items, Patch.ProvI pv d it) →
    slotLinesAt rules kids p s = some ls → slotLinesAt rules (applyItems env rules items kids) p s = some ls
  | [], rules, d, s, items, kids, ls, hcn, hok, hout, hprov, hl => by
    rw [applyItems_foldl]
    rw [PathOK] at hok
    obtain ⟨hrev, hraw, hcommit⟩ := hok
    rw [Outside] at hout
    have hs' : ∀ e ∈ d, e.op ≠ .unchanged → addresses env rules e.row s = false := by
      intro e he hop
      have := hout (stripItem e) (stripItem_mem d e he hop)
      rwa [(stripItem_row_m e).1] at this
    refine foldl_inv (fun k t => itemStep env rules t k) (fun k => slotLinesAt rules k [] s = some ls) items ?_ kids hl
    intro it hit k hk
    rw [slotLinesAt] at hk ⊢
    rw [← hk]
    congr 1
    obtain ⟨row, o, key⟩ := it
    cases o with
    | none => exact item_untouched hcn.classified hrev hraw hcommit hs' _ (hprov _ hit) k
    | some T =>
      have hp := hprov _ hit
      cases hp with
      | block he hop _ => exact block_untouched env rules _ T key s (addresses_false (hs' _ he hop)).1 k
  | r :: p, rules, d, s, items, kids, ls, hcn, hok, hout, hprov, hl => by
    rw [applyItems_foldl]
    rw [PathOK] at hok
    cases hcl : classify rules r with
    | none => rw [hcl] at hok; exact hok.elim
    | some mc =>
      obtain ⟨m, cr⟩ := mc
      simp only [hcl] at hok
      obtain ⟨hrev, hraw, hcommit, hok'⟩ := hok
      have hsr : slotOf rules r = some (m.rawRule, m.key) := Device.Lemmas.slotOf_of_classify hcl
      have hinv : ∀ k : List (String × Cfg), slotLinesAt rules k (r :: p) s = some ls ↔
          ∃ e0, k.find? (fun e => e.1 == r) = some e0 ∧ slotLinesAt cr e0.2.kids p s = some ls := by
        intro k
        rw [slotLinesAt]
        simp only [hcl]
        cases hf : k.find? (fun e => e.1 == r) with
        | none => simp
        | some e0 => simp
      -- an item that leaves the lines of the slot of `r` alone
      have hsame : ∀ (k k' : List (String × Cfg)),
          k'.filter (fun x => slotOf rules x.1 == some (m.rawRule, m.key)) =
            k.filter (fun x => slotOf rules x.1 == some (m.rawRule, m.key)) →
          slotLinesAt rules k (r :: p) s = some ls → slotLinesAt rules k' (r :: p) s = some ls := by
        intro k k' hf hk
        rw [hinv] at hk ⊢
        rwa [find_of_filter_eq hsr hf]
      refine foldl_inv (fun k t => itemStep env rules t k) (fun k => slotLinesAt rules k (r :: p) s = some ls)
        items ?_ kids hl
      intro it hit k hk
      have hp := hprov _ hit
      cases hp with
      | @leaf _ e key he hop =>
        cases ha : addresses env rules e.row (m.rawRule, m.key) with
        | false => exact hsame k _ (execLeaf_not_addressed env rules _ _ ha k) hk
        | true =>
          obtain ⟨hrow, _, _, hnr, _⟩ := outside_entry hcl hout he hop ha
          obtain ⟨e0, hf, hl0⟩ := (hinv k).1 hk
          refine (hinv _).2 ⟨e0, ?_, hl0⟩
          rw [hrow]
          exact execLeaf_find_self env rules r m cr k e0 hcl hnr hf
      | @block _ e T key he hop hT =>
        cases ha : addresses env rules e.row (m.rawRule, m.key) with
        | false => exact hsame k _ (block_untouched env rules _ T key _ (addresses_false ha).1 k) hk
        | true =>
          obtain ⟨hrow, _, _, _, hout'⟩ := outside_entry hcl hout he hop ha
          obtain ⟨cr', hce, hcn'⟩ := classN_iff.1 hcn e he
          rw [hrow, hcl] at hce
          injection hce with hce
          injection hce with _ hcr
          subst hcr
          obtain ⟨e0, hf, hl0⟩ := (hinv k).1 hk
          rw [hrow]
          refine (hinv _).2 ⟨(e0.1, .mk (applyTree env cr T e0.2.kids)), ?_, ?_⟩
          · show (itemStep env rules (r, some T, key) k).find? (fun e => e.1 == r) = _
            rw [Lemmas.itemStep_block]
            simp only [hcl]
            exact inBlock_find_self _ r _ e0 (putLine_find_self rules m r k e0 hf)
          · simp only [Cfg.kids]
            rw [applyTree_eq]
            exact applyItems_outside pv env p cr e.children s T.items e0.2.kids ls hcn' hok' hout' (provT_items hT) hl0
      | @reverse _ e e' row key he hop he' hrr hrc =>
        have ha : addresses env rules e.row (m.rawRule, m.key) = false := by
          cases ha : addresses env rules e.row (m.rawRule, m.key) with
          | false => rfl
          | true =>
            have hne : e.op ≠ .unchanged := by
              rcases hop with h | h <;> rw [h] <;> exact fun h => nomatch h
            obtain ⟨_, h1, h2, _⟩ := outside_entry hcl hout he hne ha
            rcases hop with h | h
            · exact (h1 h).elim
            · exact (h2 h).elim
        exact hsame k _ (reverse_untouched hcn.classified hrev hraw he he' hrr hrc (addresses_false ha).1 k) hk
      | @commit _ e' key he' hfc =>
        rcases hcommit with hno | hc
        · obtain ⟨cr', hce'⟩ := hcn.classified e' he'
          obtain ⟨f', hf', _, hf2'⟩ := attrs_of_classify hce'
          rw [hf2', hno f' hf'] at hfc
          cases hfc
        · exact hsame k _ (execLeaf_not_addressed env rules _ _ hc k) hk

/-! ### the theorems -/

/-- **C02 (b), end to end, every depth.**  If `_diff_and_patch` under the ACL succeeds and the shown diff stays outside
slot `s` below the block path `p` (`Outside`), then the patch tree, executed on ANY device that has the blocks of `p`,
leaves the lines of slot `s` below `p` as they were (text, subtrees, relative order). -/
theorem outside_nested (pv : Vendor) (av : Acl.Vendor) (acl : Acl.Rules) (rules : PRules) (ordering : List ORule)
    (old new : Cfg) (res : Api.Result) (env : Env) (p : List String) (s : Slot)
    (h : deviceModeAcl Patch.runLogic pv av acl rules ordering old new = .ok res)
    (hok : PathOK pv env rules p s)
    (hs : Outside env rules res.diff p s)
    (dev : Cfg) (ls : List (String × Cfg)) (hdev : slotLinesAt rules dev.kids p s = some ls) :
    slotLinesAt rules (applyTree env rules res.patch dev.kids) p s = some ls := by
  obtain ⟨d, hdiff, hcn, hprov⟩ := deviceModeAcl_invN h
  rw [hdiff] at hs
  rw [applyTree_eq]
  exact applyItems_outside pv env p rules d s res.patch.items dev.kids ls hcn hok hs (provT_items hprov) hdev

/-- `outside_nested` for the empty path is `outside_top` (same hypotheses, same conclusion) for the tree executor:
block items enter their block instead of being sent as single words -/
theorem outside_nested_nil (pv : Vendor) (av : Acl.Vendor) (acl : Acl.Rules) (rules : PRules) (ordering : List ORule)
    (old new : Cfg) (res : Api.Result) (env : Env) (s : Slot)
    (h : deviceModeAcl Patch.runLogic pv av acl rules ordering old new = .ok res)
    (hrev : ReverseInSlot pv env rules) (hraw : RawDetRow rules)
    (hcommit : NoForceCommit rules ∨ addresses env rules "commit" s = false)
    (hs : ∀ e ∈ res.diff, addresses env rules e.row s = false)
    (kids : List (String × Cfg)) :
    (applyTree env rules res.patch kids).filter (fun e => slotOf rules e.1 == some s) =
      kids.filter (fun e => slotOf rules e.1 == some s) := by
  have := outside_nested pv av acl rules ordering old new res env [] s h ⟨hrev, hraw, hcommit⟩ hs (.mk kids) _ rfl
  exact Option.some.inj this

/-- `outside_nested` from the rulebook-level hypotheses at every rule set reachable through `classify` -/
theorem outside_nested_all (pv : Vendor) (av : Acl.Vendor) (acl : Acl.Rules) (rules : PRules) (ordering : List ORule)
    (old new : Cfg) (res : Api.Result) (env : Env) (p : List String) (s : Slot)
    (h : deviceModeAcl Patch.runLogic pv av acl rules ordering old new = .ok res)
    (hrev : ReverseInSlotAll pv env rules) (hraw : RawDetRowAll rules) (hcommit : NoForceCommitAll rules)
    (hs : Outside env rules res.diff p s)
    (dev : Cfg) (ls : List (String × Cfg)) (hdev : slotLinesAt rules dev.kids p s = some ls) :
    slotLinesAt rules (applyTree env rules res.patch dev.kids) p s = some ls :=
  outside_nested pv av acl rules ordering old new res env p s h
    (pathOK_of_all hrev hraw hcommit (known_of_lines hdev)) hs dev ls hdev

/-! ### the row-path form -/

/-- the rules reached along a block path -/
def rulesAt : PRules → List String → Option PRules
  | rules, [] => some rules
  | rules, r :: p =>
    match classify rules r with
    | some (_, cr) => rulesAt cr p
    | none => none

theorem lines_of_subtree : ∀ {p : List String} {rules : PRules} {s : Slot} {kids : List (String × Cfg)} {r : String}
    {c : Cfg}, PathKnown rules p → subtreeAt kids (p ++ [r]) = some c → ∃ ls, slotLinesAt rules kids p s = some ls
  | [], _, _, _, _, _, _, _ => ⟨_, rfl⟩
  | r0 :: p, rules, s, kids, r, c, hk, h => by
    rw [PathKnown] at hk
    rw [List.cons_append, subtreeAt] at h
    rw [slotLinesAt]
    cases hcl : classify rules r0 with
    | none => rw [hcl] at hk; exact hk.elim
    | some mc =>
      obtain ⟨m, cr⟩ := mc
      rw [hcl] at hk
      cases hf : kids.find? (fun e => e.1 == r0) with
      | none => simp [hf] at h
      | some e =>
        simp only [hf] at h ⊢
        exact lines_of_subtree hk h

theorem subtree_of_lines : ∀ {p : List String} {rules cr : PRules} {s : Slot} {kids ls : List (String × Cfg)}
    {r : String}, slotLinesAt rules kids p s = some ls → rulesAt rules p = some cr → slotOf cr r = some s →
    subtreeAt kids (p ++ [r]) = (ls.find? (fun e => e.1 == r)).map (fun e => .mk e.2.kids)
  | [], rules, cr, s, kids, ls, r, h, hr, hs => by
    rw [rulesAt] at hr
    cases hr
    rw [slotLinesAt] at h
    cases h
    have : (kids.filter fun e => slotOf rules e.1 == some s).find? (fun e => e.1 == r) =
        kids.find? (fun e => e.1 == r) := find_of_filter_eq hs (by rw [List.filter_filter]; simp)
    rw [this, List.nil_append, subtreeAt]
    cases kids.find? (fun e => e.1 == r) with
    | none => rfl
    | some e => rfl
  | r0 :: p, rules, cr, s, kids, ls, r, h, hr, hs => by
    rw [rulesAt] at hr
    rw [slotLinesAt] at h
    rw [List.cons_append, subtreeAt]
    cases hcl : classify rules r0 with
    | none => simp [hcl] at hr
    | some mc =>
      obtain ⟨m, cr0⟩ := mc
      simp only [hcl] at hr h
      cases hf : kids.find? (fun e => e.1 == r0) with
      | none => simp [hf] at h
      | some e =>
        simp only [hf] at h ⊢
        exact subtree_of_lines h hr hs

theorem pathOK_known {pv : Vendor} {env : Env} : ∀ {p : List String} {rules : PRules} {s : Slot},
    PathOK pv env rules p s → PathKnown rules p
  | [], _, _, _ => trivial
  | r :: p, rules, s, h => by
    rw [PathOK] at h
    rw [PathKnown]
    cases hcl : classify rules r with
    | none => rw [hcl] at h; exact h
    | some mc =>
      obtain ⟨m, cr⟩ := mc
      simp only [hcl] at h ⊢
      exact pathOK_known h.2.2.2

/-- **C02 (b), every depth, row-path form.**  For a row path `p ++ [r]` of the device (`r` a line of slot `s` under the
rules reached along `p`): if the shown diff stays outside `s` below `p`, the subtree of the device at `p ++ [r]` is the
same after the patch. -/
theorem outside_subtree (pv : Vendor) (av : Acl.Vendor) (acl : Acl.Rules) (rules : PRules) (ordering : List ORule)
    (old new : Cfg) (res : Api.Result) (env : Env) (p : List String) (r : String) (s : Slot)
    (h : deviceModeAcl Patch.runLogic pv av acl rules ordering old new = .ok res)
    (hok : PathOK pv env rules p s) (hs : Outside env rules res.diff p s)
    (hr : (rulesAt rules p).bind (fun cr => slotOf cr r) = some s)
    (dev c : Cfg) (hdev : subtreeAt dev.kids (p ++ [r]) = some c) :
    subtreeAt (applyTree env rules res.patch dev.kids) (p ++ [r]) = some c := by
  obtain ⟨cr, hcr, hr⟩ := Option.bind_eq_some_iff.1 hr
  obtain ⟨ls, hls⟩ := lines_of_subtree (s := s) (pathOK_known hok) hdev
  have hafter := outside_nested pv av acl rules ordering old new res env p s h hok hs dev ls hls
  rw [subtree_of_lines hafter hcr hr, ← subtree_of_lines hls hcr hr, hdev]

/-! ### the path-based device of C01 -/

/-- `outside_nested` on `Device.applyCmds` over the reference linearisation `treePaths` of the patch tree.  The side
condition `PathOKT` (no command of the tree is a line of a `%rewrite` rule at its level, block rows are proper lines)
is the hypothesis of `applyCmds_treePaths`; `pipeline_pathOK` proves it for the patches of nested rulebooks. -/
theorem outside_nested_applyCmds (pv : Vendor) (av : Acl.Vendor) (acl : Acl.Rules) (rules : PRules)
    (ordering : List ORule) (old new : Cfg) (res : Api.Result) (env : Env) (exit : String) (p : List String) (s : Slot)
    (h : deviceModeAcl Patch.runLogic pv av acl rules ordering old new = .ok res)
    (hok : PathOK pv env rules p s) (hs : Outside env rules res.diff p s)
    (hex : env.exits.contains exit = true) (hpaths : Lemmas.PathOKT env exit rules res.patch)
    (dev : Cfg) (ls : List (String × Cfg)) (hdev : slotLinesAt rules dev.kids p s = some ls) :
    slotLinesAt rules (applyCmds env rules (treePaths exit res.patch) dev).kids p s = some ls := by
  rw [Lemmas.applyCmds_treePaths env exit rules res.patch dev hex hpaths]
  exact outside_nested pv av acl rules ordering old new res env p s h hok hs dev ls hdev

/-! ### the rulebooks of C01 (`NestedRules`, `CmdsOKAll`) satisfy `PathOK` along uniquely matched paths -/

/-- every block of the path is matched by exactly one rule of its level -/
def UniquePath : PRules → List String → Prop
  | _, [] => True
  | rules, r :: p =>
    uniqueMatch rules r ∧
    match classify rules r with
    | none => False
    | some (_, cr) => UniquePath cr p

instance (rules : PRules) (row : String) : Decidable (uniqueMatch rules row) := by
  unfold uniqueMatch; infer_instance

instance decUniquePath : ∀ (p : List String) (rules : PRules), Decidable (UniquePath rules p)
  | [], rules => by unfold UniquePath; infer_instance
  | r :: p, rules => by
    unfold UniquePath
    have := fun cr => decUniquePath p cr
    exact instDecidableAnd (dq := by split <;> infer_instance)

theorem level_of_nested {pv : Vendor} {env : Env} {rules : PRules} (hn : NestedRules rules)
    (hc : CmdsOKAll pv env rules) : ReverseInSlot pv env rules ∧ RawDetRow rules ∧ NoForceCommit rules := by
  refine ⟨reverseInSlot_of_cmdsOK hc.1, ?_, ?_⟩
  · intro r hr r' hr' he
    rw [hn.1, List.append_nil] at hr hr'
    rw [Lemmas.distinctRawL_inj hn.2.2 r hr r' hr' he]
  · intro r hr
    rw [hn.1, List.append_nil] at hr
    exact (Lemmas.nestedRule_unpack (Lemmas.nestedRulesL_mem hn.2.1 r hr)).2.2.2.1

theorem pathOK_of_nested {pv : Vendor} {env : Env} : ∀ {p : List String} {rules : PRules} {s : Slot},
    NestedRules rules → CmdsOKAll pv env rules → UniquePath rules p → PathOK pv env rules p s
  | [], rules, s, hn, hc, _ => by
    obtain ⟨h1, h2, h3⟩ := level_of_nested hn hc
    exact ⟨h1, h2, .inl h3⟩
  | r :: p, rules, s, hn, hc, hu => by
    rw [UniquePath] at hu
    rw [PathOK]
    obtain ⟨h1, h2, h3⟩ := level_of_nested hn hc
    cases hcl : classify rules r with
    | none => rw [hcl] at hu; exact hu.2
    | some mc =>
      obtain ⟨m, cr⟩ := mc
      simp only [hcl] at hu ⊢
      obtain ⟨hn', hc'⟩ := Lemmas.child_rules hn hu.1 hcl
      exact ⟨h1, h2, .inl h3, pathOK_of_nested hn' (hc' pv env hc) hu.2⟩

/-! ### non-vacuity: a covered block with a covered child rule and an uncovered child line that stays -/

namespace Example
open Annet.ConvergeNested.Example (rules v env nestedRules cmdsOKAll)
open Annet.Converge.Example (isOk)

-- the rulebook of `ConvergeNestedExample`: `interface *` { `sub *` { `ip` }, `mtu`, `description` }, `sysname`
-- (vendor: negation word `undo`, exit word `quit`)

def av : Acl.Vendor := { reverse := "undo" }

/-- the ACL of the generators: the block `interface *` and, in it, the lines of `mtu` only -/
def acl : Acl.Rules :=
  Acl.compileAcl [[.mk "interface *" false false [false] 0 ["gen"] [.mk "mtu" false false [false] 0 ["gen"] []]]]

def old : Cfg := .mk [
  ("interface a", .mk [("mtu 1500", .mk []), ("description uplink", .mk []), ("sub 1", .mk [("ip 1", .mk [])])]),
  ("sysname foo", .mk [])]

/-- the new configuration has neither `description uplink`, nor `ip 1` below `sub 1`, nor `sysname foo` -/
def new : Cfg := .mk [
  ("interface a", .mk [("mtu 9000", .mk []), ("sub 1", .mk [("ip 2", .mk [])])]),
  ("sysname bar", .mk [])]

/-- the block path and the slot of the uncovered line `description uplink` below it -/
def p : List String := ["interface a"]
def s : Slot := ("description", [])

/-- depth 3: the uncovered block `sub 1` below `interface a` and the slot of its line `ip 1` -/
def p3 : List String := ["interface a", "sub 1"]
def s3 : Slot := ("ip", [])

/-- what `_diff_and_patch` computes: the shown diff is `interface a` (AFFECTED) { `mtu 9000` (ADDED), `mtu 1500`
(REMOVED) }, the patch the block `interface a` { `undo mtu`, `mtu 9000` } -/
def exRes : Api.Result :=
  match deviceModeAcl Patch.runLogic v av acl rules [] old new with
  | .ok r => r
  | .error _ => ⟨[], .mk []⟩

theorem res_ok : deviceModeAcl Patch.runLogic v av acl rules [] old new = .ok exRes := by
  have h : isOk (deviceModeAcl Patch.runLogic v av acl rules [] old new) = true := by decide +kernel
  unfold exRes
  cases hr : deviceModeAcl Patch.runLogic v av acl rules [] old new with
  | ok r => rfl
  | error e => rw [hr] at h; cases h

/-- the diff and the patch are not trivial: one AFFECTED entry `interface a` with two children; one block item with
two commands -/
theorem diff_shape : exRes.diff.map (fun e => (e.row, e.op, e.children.map fun c => (c.row, c.op))) =
      [("interface a", .affected, [("mtu 9000", .added), ("mtu 1500", .removed)])] ∧
    exRes.patch.items.map (fun it => (it.1, it.2.1.map fun t => t.items.map (·.1))) =
      [("interface a", some ["undo mtu", "mtu 9000"])] := by
  decide +kernel

/-- the hypothesis on the shown diff: the entry `interface a` addresses the slot of the block, is the line itself and
does not remove it; none of its children addresses the slot of `description` -/
theorem diff_outside : Outside env rules exRes.diff p s := by decide +kernel

theorem uniquePath : UniquePath rules p := by decide +kernel

/-- the rulebook-level hypotheses along the path, from those of C01's nested convergence theorem -/
theorem pathOK : PathOK v env rules p s := pathOK_of_nested nestedRules cmdsOKAll uniquePath

/-- the device holds `description uplink` below `interface a`; the new configuration holds no line of that slot -/
theorem line_in_slot : (slotLinesAt rules old.kids p s).map (·.map (·.1)) = some ["description uplink"] ∧
    (slotLinesAt rules new.kids p s).map (·.map (·.1)) = some [] := by
  decide +kernel

/-- the instance of `outside_nested`: the patch computed under the ACL `interface *` { `mtu` }, executed on the device
holding `old`, leaves `description uplink` below `interface a` — although the new configuration does not hold it -/
theorem outside_nested_instance :
    ∃ res, deviceModeAcl Patch.runLogic v av acl rules [] old new = .ok res ∧
      (slotLinesAt rules (applyTree env rules res.patch old.kids) p s).map (·.map (·.1)) =
        some ["description uplink"] := by
  refine ⟨exRes, res_ok, ?_⟩
  cases hls : slotLinesAt rules old.kids p s with
  | none =>
    have := line_in_slot.1
    rw [hls] at this
    cases this
  | some ls =>
    rw [outside_nested v av acl rules [] old new exRes env p s res_ok pathOK diff_outside old ls hls, ← hls]
    exact line_in_slot.1

/-- the row-path form: the subtree at `interface a` / `description uplink` is what it was -/
theorem outside_subtree_instance :
    subtreeAt (applyTree env rules exRes.patch old.kids) ["interface a", "description uplink"] = some (.mk []) :=
  outside_subtree v av acl rules [] old new exRes env p "description uplink" s res_ok pathOK diff_outside
    (by decide +kernel) old (.mk []) rfl

/-- the top level (`p = []`): `sysname foo` is covered by no ACL rule and stays, although `new` says `sysname bar` -/
theorem outside_nested_nil_instance :
    ((applyTree env rules exRes.patch old.kids).filter (fun e => slotOf rules e.1 == some ("sysname", []))).map (·.1) =
      ["sysname foo"] := by
  have hok : PathOK v env rules [] ("sysname", []) := pathOK_of_nested nestedRules cmdsOKAll trivial
  rw [outside_nested_nil v av acl rules [] old new exRes env ("sysname", []) res_ok hok.1 hok.2.1 hok.2.2
    (by
      have h : Outside env rules exRes.diff [] ("sysname", []) := by decide +kernel
      exact h) old.kids]
  decide +kernel

/-- the hypothesis is not vacuous the other way: for the covered child slot `mtu` it fails, as it must (`mtu 1500` is
replaced) … -/
example : ¬ Outside env rules exRes.diff p ("mtu", []) := by decide +kernel

/-- … and with an ACL that also covers `description` it fails for `s` (`description uplink` is removed then) -/
example :
    let acl' : Acl.Rules := Acl.compileAcl [[.mk "interface *" false false [false] 0 ["gen"]
      [.mk "mtu" false false [false] 0 ["gen"] [], .mk "description" false false [false] 0 ["gen"] []]]]
    ∀ res, deviceModeAcl Patch.runLogic v av acl' rules [] old new = .ok res → ¬ Outside env rules res.diff p s := by
  intro acl' res h
  have h' : (match deviceModeAcl Patch.runLogic v av acl' rules [] old new with
      | .ok r => decide (Outside env rules r.diff p s)
      | .error _ => false) = false := by decide +kernel
  rw [h] at h'
  simpa using h'

/-! depth 3, the early exit of `Outside`: no entry below `interface a` addresses the slot of the block `sub 1` (the ACL
does not cover it), so nothing is asked of the levels below and `ip 1` stays although `new` says `ip 2` -/

theorem diff_outside3 : Outside env rules exRes.diff p3 s3 := by decide +kernel

theorem pathOK3 : PathOK v env rules p3 s3 := pathOK_of_nested nestedRules cmdsOKAll (by decide +kernel)

theorem outside_subtree_instance3 :
    subtreeAt (applyTree env rules exRes.patch old.kids) ["interface a", "sub 1", "ip 1"] = some (.mk []) :=
  outside_subtree v av acl rules [] old new exRes env p3 "ip 1" s3 res_ok pathOK3 diff_outside3
    (by decide +kernel) old (.mk []) rfl

/-- cross-check by evaluation: the whole device after the patch -/
example : (applyTree env rules exRes.patch old.kids).map (fun e => (e.1, e.2.kids.map fun c => (c.1, c.2.kids.map (·.1)))) =
    [("interface a", [("description uplink", []), ("sub 1", ["ip 1"]), ("mtu 9000", [])]), ("sysname foo", [])] := by
  decide +kernel

end Example

end Annet.AclDiff.OutsideNested
