/-
Helper lemmas for C15, part C: the executor (`Model/MeshExec.lean`).
-/
import AnnetModel.Lemmas.MeshFold
import AnnetModel.Model.MeshExec

namespace Annet.Mesh

/-! ### small tools -/

theorem bind_ok_iff {ε α β : Type} {x : Except ε α} {g : α → Except ε β} {r : β} :
    (x >>= g) = .ok r ↔ ∃ a, x = .ok a ∧ g a = .ok r := by
  cases x <;> simp

theorem RE.intro {ε α : Type} {S : α → α → Prop} {X Y : Except ε α}
    (h1 : ∀ a, X = .ok a → ∃ b, Y = .ok b ∧ S a b) (h2 : ∀ b, Y = .ok b → ∃ a, X = .ok a) : RE S X Y := by
  cases X with
  | error e =>
    cases Y with
    | error e' => simp
    | ok b => obtain ⟨a, ha⟩ := h2 b rfl; cases ha
  | ok a =>
    obtain ⟨b, hb, hs⟩ := h1 a rfl
    subst hb
    simpa using hs

theorem RE.of_ok_iff {ε α : Type} {X Y : Except ε α} (h : ∀ r, X = .ok r ↔ Y = .ok r) : RE Eq X Y :=
  RE.intro (fun a ha => ⟨a, (h a).mp ha, rfl⟩) (fun b hb => ⟨b, (h b).mpr hb⟩)

theorem RE.ok_iff {ε α : Type} {X Y : Except ε α} (h : RE Eq X Y) (r : α) : X = .ok r ↔ Y = .ok r := by
  cases X <;> cases Y <;> simp at h ⊢
  subst h; rfl

theorem RE.ok_left {ε α : Type} {S : α → α → Prop} {X Y : Except ε α} (h : RE S X Y) {a : α} (ha : X = .ok a) :
    ∃ b, Y = .ok b ∧ S a b := by
  subst ha
  cases Y <;> simp at h
  exact ⟨_, rfl, h⟩

theorem RE.ok_right {ε α : Type} {S : α → α → Prop} {X Y : Except ε α} (h : RE S X Y) {b : α} (hb : Y = .ok b) :
    ∃ a, X = .ok a ∧ S a b := by
  subst hb
  cases X <;> simp at h
  exact ⟨_, rfl, h⟩

/-! ### field-level laws (the `Merge()` case of the value-level laws, restated on `Fields`) -/

theorem RE_map_model {t : Table} {x y : Except MergeErr Fields}
    (h : RE (Equiv (.merge t)) (x.map .model) (y.map .model)) : RE (EquivFields t) x y := by
  cases x <;> cases y <;> simp at h ⊢
  simpa [Equiv, modelEqv] using h

theorem mergeFields_cong {t : Table} (hwf : (Merger.merge t).WF) (hd : (Merger.merge t).DictFree) {a a' b b' : Fields}
    (ha : EquivFields t a a') (hb : EquivFields t b b') :
    RE (EquivFields t) (mergeFields t a b) (mergeFields t a' b') := by
  have := mergeVal_cong (.merge t) hwf hd (.model a) (.model a') (.model b) (.model b')
    (by simpa [Equiv, modelEqv] using ha) (by simpa [Equiv, modelEqv] using hb)
  simp only [mergeVal] at this
  exact RE_map_model this

theorem mergeFields_comm {t : Table} (hwf : (Merger.merge t).WF) (hs : (Merger.merge t).Sym) (a b : Fields) :
    RE (EquivFields t) (mergeFields t a b) (mergeFields t b a) := by
  have := mergeVal_comm (.merge t) hwf hs (.model a) (.model b)
  simp only [mergeVal] at this
  exact RE_map_model this

theorem mergeFields_assoc {t : Table} (hwf : (Merger.merge t).WF) (hd : (Merger.merge t).DictFree) (a b c : Fields) :
    RE Eq (mergeFields t a b >>= fun r => mergeFields t r c) (mergeFields t b c >>= fun r => mergeFields t a r) := by
  have := mergeVal_assoc (.merge t) hwf hd (.model a) (.model b) (.model c)
  simp only [mergeVal] at this
  cases hab : mergeFields t a b <;> cases hbc : mergeFields t b c <;> simp [hab, hbc, mergeVal] at this ⊢
  · rename_i r; cases h : mergeFields t a r <;> simp [h] at this ⊢
  · rename_i r _; cases h : mergeFields t r c <;> simp [h] at this ⊢
  · rename_i r r'
    cases h : mergeFields t r c <;> cases h' : mergeFields t a r' <;> simp [h, h'] at this ⊢
    exact this

/-! ### `Pair` merging is a partial commutative semigroup among pairs of one neighbour -/

def PairEqv (dto : Table) (p q : Pair) : Prop :=
  EquivFields dto p.loc q.loc ∧ EquivFields dto p.connected q.connected ∧ p.device = q.device ∧ p.ports = q.ports

theorem mergePair_ok_iff (dto : Table) (p q r : Pair) :
    mergePair dto p q = .ok r ↔
      mergeFields dto p.loc q.loc = .ok r.loc ∧ mergeFields dto p.connected q.connected = .ok r.connected ∧
      mergePorts p.ports q.ports = .ok r.ports ∧ r.device = q.device := by
  simp only [mergePair, bind_ok_iff]
  constructor
  · rintro ⟨l, hl, c, hc, ps, hp, h⟩
    cases h
    exact ⟨hl, hc, hp, rfl⟩
  · rintro ⟨hl, hc, hp, hd⟩
    refine ⟨_, hl, _, hc, _, hp, ?_⟩
    cases r
    simp at hd
    subst hd
    rfl

theorem mergePorts_comm (x y : Option (List String)) : mergePorts x y = mergePorts y x := by
  cases x <;> cases y <;> simp [mergePorts]
  rename_i a b
  by_cases h : a = b
  · subst h; simp
  · have h' : ¬ b = a := fun e => h e.symm
    simp [h, h']

theorem mergePorts_assoc (x y z : Option (List String)) :
    (mergePorts x y >>= fun r => mergePorts r z) = (mergePorts y z >>= fun r => mergePorts x r) := by
  cases x <;> cases y <;> cases z <;> simp [mergePorts]
  · rename_i a b; by_cases h : a = b <;> simp [h, mergePorts]
  · rename_i a b; by_cases h : a = b <;> simp [h, mergePorts]
  · rename_i a b c
    by_cases h : a = b
    · subst h
      by_cases h2 : a = c <;> simp [h2, mergePorts]
    · by_cases h2 : b = c
      · subst h2; simp [h, mergePorts]
      · simp [h, h2, mergePorts]


theorem PairEqv.refl (dto : Table) (p : Pair) : PairEqv dto p p :=
  ⟨EquivFields.refl _ _, EquivFields.refl _ _, rfl, rfl⟩

theorem PairEqv.symm {dto : Table} {p q : Pair} (h : PairEqv dto p q) : PairEqv dto q p :=
  ⟨h.1.symm, h.2.1.symm, h.2.2.1.symm, h.2.2.2.symm⟩

theorem PairEqv.trans {dto : Table} {p q r : Pair} (h1 : PairEqv dto p q) (h2 : PairEqv dto q r) : PairEqv dto p r :=
  ⟨h1.1.trans h2.1, h1.2.1.trans h2.2.1, h1.2.2.1.trans h2.2.2.1, h1.2.2.2.trans h2.2.2.2⟩

/-- Merging pairs that belong to the same neighbour `d` is a partial commutative semigroup up to
`PairEqv` (the `device` field uses `UseLast`, harmless among pairs of one neighbour). -/
theorem mergePair_PCS (dto : Table) (hwf : (Merger.merge dto).WF) (hs : (Merger.merge dto).Sym)
    (hd : (Merger.merge dto).DictFree) (d : String) :
    PCS (mergePair dto) (PairEqv dto) (fun p => p.device = d) where
  refl := fun a _ => PairEqv.refl dto a
  symm := fun _ _ h => h.symm
  trans := fun _ _ _ h1 h2 => h1.trans h2
  resp := fun a b h ha => by rw [← h.2.2.1]; exact ha
  closed := fun a b r _ hb h => by
    rw [mergePair_ok_iff] at h
    rw [h.2.2.2]; exact hb
  cong := fun a a' b b' _ _ haa hbb => by
    apply RE.intro
    · intro r hr
      rw [mergePair_ok_iff] at hr
      obtain ⟨l', hl', hl⟩ := (mergeFields_cong hwf hd haa.1 hbb.1).ok_left hr.1
      obtain ⟨c', hc', hc⟩ := (mergeFields_cong hwf hd haa.2.1 hbb.2.1).ok_left hr.2.1
      refine ⟨⟨l', c', b'.device, r.ports⟩, ?_, hl, hc, by rw [hr.2.2.2]; exact hbb.2.2.1, rfl⟩
      rw [mergePair_ok_iff]
      refine ⟨hl', hc', ?_, rfl⟩
      rw [← haa.2.2.2, ← hbb.2.2.2]; exact hr.2.2.1
    · intro r hr
      rw [mergePair_ok_iff] at hr
      obtain ⟨l', hl', _⟩ := (mergeFields_cong hwf hd haa.1 hbb.1).ok_right hr.1
      obtain ⟨c', hc', _⟩ := (mergeFields_cong hwf hd haa.2.1 hbb.2.1).ok_right hr.2.1
      refine ⟨⟨l', c', b.device, r.ports⟩, ?_⟩
      rw [mergePair_ok_iff]
      refine ⟨hl', hc', ?_, rfl⟩
      rw [haa.2.2.2, hbb.2.2.2]; exact hr.2.2.1
  comm := fun a b ha hb => by
    apply RE.intro
    · intro r hr
      rw [mergePair_ok_iff] at hr
      obtain ⟨l', hl', hl⟩ := (mergeFields_comm hwf hs a.loc b.loc).ok_left hr.1
      obtain ⟨c', hc', hc⟩ := (mergeFields_comm hwf hs a.connected b.connected).ok_left hr.2.1
      refine ⟨⟨l', c', a.device, r.ports⟩, ?_, hl, hc, by rw [hr.2.2.2, ha, hb], rfl⟩
      rw [mergePair_ok_iff]
      refine ⟨hl', hc', ?_, rfl⟩
      rw [mergePorts_comm]; exact hr.2.2.1
    · intro r hr
      rw [mergePair_ok_iff] at hr
      obtain ⟨l', hl', _⟩ := (mergeFields_comm hwf hs a.loc b.loc).ok_right hr.1
      obtain ⟨c', hc', _⟩ := (mergeFields_comm hwf hs a.connected b.connected).ok_right hr.2.1
      refine ⟨⟨l', c', b.device, r.ports⟩, ?_⟩
      rw [mergePair_ok_iff]
      refine ⟨hl', hc', ?_, rfl⟩
      rw [mergePorts_comm]; exact hr.2.2.1
  assoc := fun a b c _ _ _ => by
    refine RE.mono (R := Eq) (fun x y (h : x = y) => h ▸ PairEqv.refl dto x) ?_
    apply RE.of_ok_iff
    intro r
    have hL := (mergeFields_assoc hwf hd a.loc b.loc c.loc).ok_iff r.loc
    have hC := (mergeFields_assoc hwf hd a.connected b.connected c.connected).ok_iff r.connected
    have hP := mergePorts_assoc a.ports b.ports c.ports
    simp only [bind_ok_iff] at hL hC
    simp only [bind_ok_iff, mergePair_ok_iff]
    constructor
    · rintro ⟨r1, ⟨h1, h2, h3, h4⟩, ⟨h5, h6, h7, h8⟩⟩
      obtain ⟨l2, hl2, hl2'⟩ := hL.mp ⟨_, h1, h5⟩
      obtain ⟨c2, hc2, hc2'⟩ := hC.mp ⟨_, h2, h6⟩
      have hp : (mergePorts a.ports b.ports >>= fun r => mergePorts r c.ports) = .ok r.ports := by
        rw [h3]; exact h7
      rw [hP, bind_ok_iff] at hp
      obtain ⟨p2, hp2, hp2'⟩ := hp
      exact ⟨⟨l2, c2, c.device, p2⟩, ⟨hl2, hc2, hp2, rfl⟩, ⟨hl2', hc2', hp2', h8⟩⟩
    · rintro ⟨r1, ⟨h1, h2, h3, h4⟩, ⟨h5, h6, h7, h8⟩⟩
      obtain ⟨l2, hl2, hl2'⟩ := hL.mpr ⟨_, h1, h5⟩
      obtain ⟨c2, hc2, hc2'⟩ := hC.mpr ⟨_, h2, h6⟩
      have hp : (mergePorts b.ports c.ports >>= fun r => mergePorts a.ports r) = .ok r.ports := by
        rw [h3]; exact h7
      rw [← hP, bind_ok_iff] at hp
      obtain ⟨p2, hp2, hp2'⟩ := hp
      refine ⟨⟨l2, c2, b.device, p2⟩, ⟨hl2, hc2, hp2, rfl⟩, ⟨hl2', hc2', hp2', ?_⟩⟩
      rw [h8, h4]


/-! ### the executor loops: "run the handler, then file the pair under its key" -/

section StepG
variable {ι κ α : Type} [DecidableEq κ]

/-- one iteration: `run` may raise, yield nothing (handler set nothing) or yield `(key, pair)` -/
def stepG (run : ι → Except ExecErr (Option (κ × α))) (f : α → α → Except MergeErr α)
    (acc : List (κ × α)) (i : ι) : Except ExecErr (List (κ × α)) :=
  run i >>= fun o => match o with
    | none => .ok acc
    | some kp => liftMerge (upsertWith f kp.1 kp.2 acc)

def kvOf (run : ι → Except ExecErr (Option (κ × α))) (i : ι) : Option (κ × α) :=
  match run i with
  | .ok (some kp) => some kp
  | _ => none

theorem liftMerge_ok_iff {β : Type} {x : Except MergeErr β} {b : β} : liftMerge x = .ok b ↔ x = .ok b := by
  cases x <;> simp [liftMerge]

/-- The interleaved loop succeeds exactly when every handler application succeeds and the plain
"group by key and merge" of the produced pairs succeeds; the resulting dict is the same. -/
theorem foldlM_stepG_ok (run : ι → Except ExecErr (Option (κ × α))) (f : α → α → Except MergeErr α)
    (items : List ι) (s s' : List (κ × α)) :
    items.foldlM (stepG run f) s = .ok s' ↔
      (∀ i ∈ items, ∃ b, run i = .ok b) ∧ groupFold f s (items.filterMap (kvOf run)) = .ok s' := by
  induction items generalizing s with
  | nil => simp [groupFold, pure, Except.pure]
  | cons i items ih =>
    simp only [List.foldlM_cons, bind_ok_iff, List.mem_cons, forall_eq_or_imp]
    constructor
    · rintro ⟨s1, h1, h2⟩
      obtain ⟨hall, hg⟩ := (ih s1).mp h2
      simp only [stepG, bind_ok_iff] at h1
      obtain ⟨o, ho, h1⟩ := h1
      refine ⟨⟨⟨o, ho⟩, hall⟩, ?_⟩
      cases o with
      | none =>
        simp at h1; subst h1
        simpa [List.filterMap_cons, kvOf, ho] using hg
      | some kp =>
        simp only [liftMerge_ok_iff] at h1
        simp only [List.filterMap_cons, kvOf, ho, groupFold_cons, h1, ok_bind]
        exact hg
    · rintro ⟨⟨⟨o, ho⟩, hall⟩, hg⟩
      cases o with
      | none =>
        refine ⟨s, by simp [stepG, ho], (ih s).mpr ⟨hall, ?_⟩⟩
        simpa [List.filterMap_cons, kvOf, ho] using hg
      | some kp =>
        simp only [List.filterMap_cons, kvOf, ho, groupFold_cons, bind_ok_iff] at hg
        obtain ⟨s1, h1, hg⟩ := hg
        exact ⟨s1, by simp [stepG, ho, liftMerge_ok_iff, h1], (ih s1).mpr ⟨hall, hg⟩⟩

/-- Order independence of the interleaved loop: if the merge is a partial commutative semigroup among
the pairs filed under one key, a permutation of the handler applications gives a key-wise
equivalent dict, or both orders raise. -/
theorem foldlM_stepG_perm (run : ι → Except ExecErr (Option (κ × α))) (f : α → α → Except MergeErr α)
    (R : α → α → Prop) (J : κ → α → Prop) (hJ : ∀ k, PCS f R (J k))
    (hrun : ∀ i k v, run i = .ok (some (k, v)) → J k v)
    {items items' : List ι} (hp : items.Perm items') :
    RE (fun a b => ∀ k, OptRel R (lookup k a) (lookup k b))
      (items.foldlM (stepG run f) []) (items'.foldlM (stepG run f) []) := by
  have hkv : (items.filterMap (kvOf run)).Perm (items'.filterMap (kvOf run)) := hp.filterMap _
  have hrel := groupFold_rel f R (s1 := []) (s2 := []) (i1 := items.filterMap (kvOf run))
    (i2 := items'.filterMap (kvOf run)) (by
      intro k
      have hv : (valuesOf k (items.filterMap (kvOf run))).Perm (valuesOf k (items'.filterMap (kvOf run))) :=
        (hkv.filter _).map _
      refine foldKey_perm (hJ k) hv ?_ (by simp [lookup]) (by simp [lookup, OptI])
      intro v hv
      simp only [valuesOf, List.mem_map, List.mem_filter, List.mem_filterMap] at hv
      obtain ⟨⟨k', v'⟩, ⟨⟨i, _, hi⟩, hk⟩, rfl⟩ := hv
      simp at hk
      subst hk
      apply hrun i
      simp only [kvOf] at hi
      split at hi
      · rename_i kp heq; simp at hi; subst hi; exact heq
      · simp at hi)
  have hall : (∀ i ∈ items, ∃ b, run i = .ok b) ↔ (∀ i ∈ items', ∃ b, run i = .ok b) :=
    ⟨fun h i hi => h i (hp.mem_iff.mpr hi), fun h i hi => h i (hp.mem_iff.mp hi)⟩
  apply RE.intro
  · intro a ha
    obtain ⟨h1, h2⟩ := (foldlM_stepG_ok run f items [] a).mp ha
    obtain ⟨b, hb, hab⟩ := hrel.ok_left h2
    exact ⟨b, (foldlM_stepG_ok run f items' [] b).mpr ⟨hall.mp h1, hb⟩, hab⟩
  · intro b hb
    obtain ⟨h1, h2⟩ := (foldlM_stepG_ok run f items' [] b).mp hb
    obtain ⟨a, ha, _⟩ := hrel.ok_right h2
    exact ⟨a, (foldlM_stepG_ok run f items [] a).mpr ⟨hall.mpr h1, ha⟩⟩

end StepG

theorem foldlM_flatMap {ι β σ ε : Type} (g : ι → List β) (step : σ → β → Except ε σ) (l : List ι) (s : σ) :
    (l.flatMap g).foldlM step s = l.foldlM (fun acc x => (g x).foldlM step acc) s := by
  induction l generalizing s with
  | nil => simp
  | cons x l ih =>
    simp only [List.flatMap_cons, List.foldlM_append, List.foldlM_cons]
    cases (g x).foldlM step s with
    | error e => rfl
    | ok s1 => simp [ih]

theorem perm_flatMap_congr {ι β : Type} {f g : ι → List β} (l : List ι) (h : ∀ a ∈ l, (f a).Perm (g a)) :
    (l.flatMap f).Perm (l.flatMap g) := by
  induction l with
  | nil => simp
  | cons x l ih =>
    simp only [List.flatMap_cons]
    exact (h x List.mem_cons_self).append (ih fun a ha => h a (List.mem_cons_of_mem _ ha))


/-! ### `_execute_direct` / `_execute_indirect` as instances of the generic loop -/

/-- two pair dicts agree key by key up to `PairEqv` (the order of the keys = order of the peers list
is not compared) -/
def StateEqv (dto : Table) (a b : PairState) : Prop := ∀ k, OptRel (PairEqv dto) (lookup k a) (lookup k b)

def keyed (o : Option Pair) : Except ExecErr (Option (PeerKey × Pair)) :=
  match o with
  | none => .ok none
  | some pair => (peerKey pair.device pair.connected).map fun k => some (k, pair)

def runDirectItem (dto : Table) (device : String) : DirectItem → Except ExecErr (Option (PeerKey × Pair))
  | .missing => .error .valueError
  | .app rule directOrder neighbor ports allPorts =>
    executeDirectPair dto device neighbor rule directOrder ports allPorts >>= keyed

theorem addPair_eq (dto : Table) (acc : PairState) (pair : Pair) :
    addPair dto acc pair = (peerKey pair.device pair.connected >>= fun k =>
      liftMerge (upsertWith (mergePair dto) k pair acc)) := rfl

theorem directStep_eq (dto : Table) (device : String) (acc : PairState) (item : DirectItem) :
    directStep dto device acc item = stepG (runDirectItem dto device) (mergePair dto) acc item := by
  cases item with
  | missing => rfl
  | app rule directOrder neighbor ports allPorts =>
    simp only [directStep, stepG, runDirectItem]
    cases executeDirectPair dto device neighbor rule directOrder ports allPorts with
    | error e => rfl
    | ok o =>
      cases o with
      | none => rfl
      | some pair =>
        simp only [ok_bind, keyed, addPair_eq]
        cases peerKey pair.device pair.connected <;> rfl

def allDirectItems (st : Storage) (rules : List DirectRule) (device : String) : List DirectItem :=
  (lookupDirect rules device (st.neighbours device)).flatMap (directItems st device)

theorem executeDirect_eq (dto : Table) (st : Storage) (rules : List DirectRule) (device : String) :
    executeDirect dto st rules device =
      (allDirectItems st rules device).foldlM (stepG (runDirectItem dto device) (mergePair dto)) [] := by
  simp only [executeDirect, allDirectItems, foldlM_flatMap]
  congr 1
  funext acc mp
  congr 1
  funext acc item
  exact directStep_eq dto device acc item

theorem peerKey_fst {fqdn : String} {c : Fields} {k : PeerKey} (h : peerKey fqdn c = .ok k) : k.1 = fqdn := by
  simp only [peerKey] at h
  split at h <;> try (simp at h; done)
  split at h <;> try (simp at h; done)
  split at h <;> simp at h <;> subst h <;> rfl

theorem map_ok_iff {ε α β : Type} {x : Except ε α} {g : α → β} {r : β} :
    (g <$> x) = .ok r ↔ ∃ a, x = .ok a ∧ g a = r := by
  cases x <;> simp [Functor.map, Except.map]

theorem executeDirectPair_device {dto : Table} {device neighbor : String} {rule : DirectRule} {o : Bool}
    {ports allPorts : PortPairs} {p : Pair}
    (h : executeDirectPair dto device neighbor rule o ports allPorts = .ok (some p)) : p.device = neighbor := by
  simp only [executeDirectPair] at h
  repeat' split at h
  all_goals first
    | (simp at h; done)
    | (simp only [bind_ok_iff] at h
       obtain ⟨_, _, _, _, h⟩ := h
       simp only [pure, Except.pure, Except.ok.injEq, Option.some.injEq] at h
       subst h; rfl)

theorem runDirectItem_device {dto : Table} {device : String} {item : DirectItem} {k : PeerKey} {p : Pair}
    (h : runDirectItem dto device item = .ok (some (k, p))) : p.device = k.1 := by
  cases item with
  | missing => simp [runDirectItem] at h
  | app rule o neighbor ports allPorts =>
    simp only [runDirectItem, bind_ok_iff] at h
    obtain ⟨op, _, h2⟩ := h
    cases op with
    | none => simp [keyed] at h2
    | some pair =>
      simp only [keyed] at h2
      cases hk : peerKey pair.device pair.connected with
      | error e => simp [hk] at h2
      | ok k' =>
        simp [hk] at h2
        obtain ⟨rfl, rfl⟩ := h2
        exact (peerKey_fst hk).symm

theorem lookupDirect_perm {rules rules' : List DirectRule} (hp : rules.Perm rules') (device : String)
    (nbrs : List String) : (lookupDirect rules device nbrs).Perm (lookupDirect rules' device nbrs) := by
  simp only [lookupDirect]
  exact perm_flatMap_congr nbrs fun n _ => List.Perm.flatMap_right _ hp

/-- **Order independence of `_execute_direct`** -/
theorem executeDirect_perm (dto : Table) (hwf : (Merger.merge dto).WF) (hs : (Merger.merge dto).Sym)
    (hd : (Merger.merge dto).DictFree) (st : Storage) {rules rules' : List DirectRule} (hp : rules.Perm rules')
    (device : String) :
    RE (StateEqv dto) (executeDirect dto st rules device) (executeDirect dto st rules' device) := by
  rw [executeDirect_eq, executeDirect_eq]
  refine foldlM_stepG_perm _ _ (PairEqv dto) (fun k p => p.device = k.1)
    (fun k => mergePair_PCS dto hwf hs hd k.1) (fun i k v h => runDirectItem_device h) ?_
  exact List.Perm.flatMap_right _ (lookupDirect_perm hp device _)

theorem executeDirect_nodup {dto : Table} {st : Storage} {rules : List DirectRule} {device : String} {s : PairState}
    (h : executeDirect dto st rules device = .ok s) : (keys s).Nodup := by
  rw [executeDirect_eq, foldlM_stepG_ok] at h
  exact groupFold_nodup _ h.2 (by simp [keys])

/-! indirect -/

def runIndirect (dto : Table) (device : String) (mp : MatchedIndirect) : Except ExecErr (Option (PeerKey × Pair)) :=
  executeIndirectPair dto device (if mp.directOrder then mp.nameRight else mp.nameLeft) mp.rule mp.directOrder >>= keyed

theorem indirectStep_eq (dto : Table) (device : String) (acc : PairState) (mp : MatchedIndirect) :
    indirectStep dto device acc mp = stepG (runIndirect dto device) (mergePair dto) acc mp := by
  simp only [indirectStep, stepG, runIndirect]
  cases executeIndirectPair dto device (if mp.directOrder then mp.nameRight else mp.nameLeft) mp.rule mp.directOrder with
  | error e => rfl
  | ok o =>
    cases o with
    | none => rfl
    | some pair =>
      simp only [ok_bind, keyed, addPair_eq]
      cases peerKey pair.device pair.connected <;> rfl

theorem executeIndirect_eq (dto : Table) (st : Storage) (rules : List IndirectRule) (device : String) :
    executeIndirect dto st rules device =
      (lookupIndirect rules device st.allFqdns).foldlM (stepG (runIndirect dto device) (mergePair dto)) [] := by
  simp only [executeIndirect]
  congr 1
  funext acc mp
  exact indirectStep_eq dto device acc mp

theorem executeIndirectPair_device {dto : Table} {device connected : String} {rule : IndirectRule} {o : Bool} {p : Pair}
    (h : executeIndirectPair dto device connected rule o = .ok (some p)) : p.device = connected := by
  simp only [executeIndirectPair] at h
  repeat' split at h
  all_goals first
    | (simp at h; done)
    | (simp only [bind_ok_iff] at h
       obtain ⟨_, _, _, _, h⟩ := h
       simp only [pure, Except.pure, Except.ok.injEq, Option.some.injEq] at h
       subst h; rfl)

theorem runIndirect_device {dto : Table} {device : String} {mp : MatchedIndirect} {k : PeerKey} {p : Pair}
    (h : runIndirect dto device mp = .ok (some (k, p))) : p.device = k.1 := by
  simp only [runIndirect, bind_ok_iff] at h
  obtain ⟨op, _, h2⟩ := h
  cases op with
  | none => simp [keyed] at h2
  | some pair =>
    simp only [keyed] at h2
    cases hk : peerKey pair.device pair.connected with
    | error e => simp [hk] at h2
    | ok k' =>
      simp [hk] at h2
      obtain ⟨rfl, rfl⟩ := h2
      exact (peerKey_fst hk).symm

theorem lookupIndirect_perm {rules rules' : List IndirectRule} (hp : rules.Perm rules') (device : String)
    (devs : List String) : (lookupIndirect rules device devs).Perm (lookupIndirect rules' device devs) := by
  simp only [lookupIndirect]
  exact perm_flatMap_congr devs fun n _ => List.Perm.flatMap_right _ hp

/-- **Order independence of `_execute_indirect`** -/
theorem executeIndirect_perm (dto : Table) (hwf : (Merger.merge dto).WF) (hs : (Merger.merge dto).Sym)
    (hd : (Merger.merge dto).DictFree) (st : Storage) {rules rules' : List IndirectRule} (hp : rules.Perm rules')
    (device : String) :
    RE (StateEqv dto) (executeIndirect dto st rules device) (executeIndirect dto st rules' device) := by
  rw [executeIndirect_eq, executeIndirect_eq]
  exact foldlM_stepG_perm _ _ (PairEqv dto) (fun k p => p.device = k.1)
    (fun k => mergePair_PCS dto hwf hs hd k.1) (fun i k v h => runIndirect_device h)
    (lookupIndirect_perm hp device _)

theorem executeIndirect_nodup {dto : Table} {st : Storage} {rules : List IndirectRule} {device : String} {s : PairState}
    (h : executeIndirect dto st rules device = .ok s) : (keys s).Nodup := by
  rw [executeIndirect_eq, foldlM_stepG_ok] at h
  exact groupFold_nodup _ h.2 (by simp [keys])


/-! ### mirrored sessions: the two ends of a pair -/

section FoldHom
variable {α β ε : Type}

/-- a (one-directional) homomorphism maps successful folds to successful folds -/
theorem foldKey_hom_ok {f : α → α → Except ε α} {g : β → β → Except ε β} (h : α → β)
    (hh : ∀ a b r, f a b = .ok r → g (h a) (h b) = .ok (h r)) :
    ∀ (l : List α) (o o' : Option α), foldKey f o l = .ok o' → foldKey g (o.map h) (l.map h) = .ok (o'.map h) := by
  intro l
  induction l with
  | nil => intro o o' hf; simp [foldKey] at hf ⊢; subst hf; rfl
  | cons v vs ih =>
    intro o o' hf
    rw [foldKey_cons, bind_ok_iff] at hf
    obtain ⟨o1, h1, h2⟩ := hf
    simp only [List.map_cons, foldKey_cons, bind_ok_iff]
    refine ⟨o1.map h, ?_, ih o1 o' h2⟩
    cases o with
    | none => simp [stepOpt] at h1 ⊢; subst h1; rfl
    | some a =>
      simp only [stepOpt] at h1
      cases hfa : f a v with
      | error e => simp [hfa] at h1
      | ok r =>
        simp [hfa] at h1
        subst h1
        simp [stepOpt, hh a v r hfa]

theorem foldKey_isSome {f : α → α → Except ε α} :
    ∀ (l : List α) (o o' : Option α), foldKey f o l = .ok o' → (o.isSome ∨ l ≠ []) → o'.isSome := by
  intro l
  induction l with
  | nil => intro o o' hf h; simp [foldKey] at hf; subst hf; simpa using h
  | cons v vs ih =>
    intro o o' hf _
    rw [foldKey_cons, bind_ok_iff] at hf
    obtain ⟨o1, h1, h2⟩ := hf
    refine ih o1 o' h2 (Or.inl ?_)
    cases o with
    | none => simp [stepOpt] at h1; subst h1; rfl
    | some a =>
      simp only [stepOpt] at h1
      cases hfa : f a v with
      | error e => simp [hfa] at h1
      | ok r => simp [hfa] at h1; subst h1; rfl

end FoldHom

/-- forget which neighbour and which ports a pair belongs to -/
def strip (p : Pair) : Pair := ⟨p.loc, p.connected, "", none⟩
/-- the same session seen from the other end -/
def swapLC (p : Pair) : Pair := ⟨p.connected, p.loc, "", none⟩

theorem mergePair_strip {dto : Table} {p q r : Pair} (h : mergePair dto p q = .ok r) :
    mergePair dto (strip p) (strip q) = .ok (strip r) := by
  rw [mergePair_ok_iff] at h ⊢
  exact ⟨h.1, h.2.1, rfl, rfl⟩

theorem mergePair_swapLC {dto : Table} {p q r : Pair} (h : mergePair dto p q = .ok r) :
    mergePair dto (swapLC p) (swapLC q) = .ok (swapLC r) := by
  rw [mergePair_ok_iff] at h ⊢
  exact ⟨h.2.1, h.1, rfl, rfl⟩

theorem swapPorts_swapPorts (ps : PortPairs) : swapPorts (swapPorts ps) = ps := by
  simp [swapPorts, List.map_map, Function.comp_def]

theorem portGroups_swap (sep : Bool) (ps : PortPairs) :
    portGroups sep (swapPorts ps) = (portGroups sep ps).map swapPorts := by
  cases sep <;> simp [portGroups, swapPorts, List.map_map, Function.comp_def]

/-- what the two ends compute from one handler application: `none` on both, or the same two DTOs
with `local`/`connected` exchanged -/
def OptMirror : Option Pair → Option Pair → Prop
  | none, none => True
  | some p, some q => q.loc = p.connected ∧ q.connected = p.loc
  | _, _ => False

/-- `_execute_direct_pair` is symmetric: the application `(rule, left, right, ports)` evaluated at the
right end gives the pair of the left end with `local` and `connected` exchanged (the handler is called
with the same arguments from both ends). -/
theorem executeDirectPair_mirror (dto : Table) (a b : String) (rule : DirectRule) (o : Bool) (g all : PortPairs) :
    RE OptMirror (executeDirectPair dto a b rule o g all)
      (executeDirectPair dto b a rule (!o) (swapPorts g) (swapPorts all)) := by
  have hc : callDirect b a rule (!o) (swapPorts g) (swapPorts all) = callDirect a b rule o g all := by
    cases o <;> simp [callDirect, swapPorts_swapPorts]
  simp only [executeDirectPair, hc]
  generalize callDirect a b rule o g all = asg
  cases o
  all_goals simp only [Bool.not_false, Bool.not_true, if_true, if_false, Bool.false_eq_true]
  all_goals
    by_cases he : (asg.left.isEmpty && asg.right.isEmpty && asg.session.isEmpty) = true
  all_goals
    have he' : (asg.right.isEmpty && asg.left.isEmpty && asg.session.isEmpty) = (asg.left.isEmpty && asg.right.isEmpty && asg.session.isEmpty) := by
      cases asg.left.isEmpty <;> cases asg.right.isEmpty <;> rfl
  all_goals simp only [he', he, if_true, if_false]
  all_goals try (simp [OptMirror]; done)
  all_goals
    cases h1 : liftMerge (mkDto dto asg.left asg.session) <;> cases h2 : liftMerge (mkDto dto asg.right asg.session) <;>
      simp [h1, h2, OptMirror, pure, Except.pure, bind, Except.bind]


/-- the matches of one rule for `(device, n)`: the body of the loops of `lookup_direct` -/
def orient (device n : String) (r : DirectRule) : List MatchedDirect :=
  (if r.isMatch device n then [⟨r, true, device, n⟩] else []) ++
  (if r.isMatch n device then [⟨r, false, n, device⟩] else [])

/-- all handler applications of `device` towards the neighbour `n` -/
def itemsFor (st : Storage) (rules : List DirectRule) (device n : String) : List DirectItem :=
  rules.flatMap fun r => (orient device n r).flatMap (directItems st device)

theorem allDirectItems_eq (st : Storage) (rules : List DirectRule) (device : String) :
    allDirectItems st rules device = (st.neighbours device).flatMap (itemsFor st rules device) := by
  unfold allDirectItems lookupDirect itemsFor orient
  simp only [List.flatMap_assoc]

/-- the same application seen from the other end `a` -/
def mirrorItem (a : String) : DirectItem → DirectItem
  | .missing => .missing
  | .app r o _ g all => .app r (!o) a (swapPorts g) (swapPorts all)

theorem itemsFor_mirror (st : Storage) (rules : List DirectRule) (a b : String)
    (hc : st.conns b a = swapPorts (st.conns a b)) (ha : st.known a = true) (hb : st.known b = true) :
    (itemsFor st rules b a).Perm ((itemsFor st rules a b).map (mirrorItem a)) := by
  simp only [itemsFor, List.map_flatMap]
  apply perm_flatMap_congr
  intro r _
  have e1 : directItems st b ⟨r, false, a, b⟩ = (directItems st a ⟨r, true, a, b⟩).map (mirrorItem a) := by
    simp [directItems, ha, hb, hc, portGroups_swap, List.map_map, Function.comp_def, mirrorItem]
  have e2 : directItems st b ⟨r, true, b, a⟩ = (directItems st a ⟨r, false, b, a⟩).map (mirrorItem a) := by
    simp [directItems, ha, hb, hc, portGroups_swap, List.map_map, Function.comp_def, mirrorItem]
  simp only [orient]
  by_cases h1 : r.isMatch a b = true <;> by_cases h2 : r.isMatch b a = true <;>
    simp only [h1, h2, if_true, if_false, List.flatMap_append, List.flatMap_cons, List.flatMap_nil,
      List.append_nil, List.nil_append, List.map_append, List.map_nil, e1, e2, Bool.false_eq_true]
  · exact List.perm_append_comm
  · exact List.Perm.refl _
  · exact List.Perm.refl _
  · exact List.Perm.refl _

theorem mem_itemsFor_neighbor {st : Storage} {rules : List DirectRule} {device n : String} {item : DirectItem}
    (h : item ∈ itemsFor st rules device n) :
    item = .missing ∨ ∃ r o g all, item = .app r o n g all := by
  simp only [itemsFor, orient, List.mem_flatMap] at h
  obtain ⟨r, _, mp, hmp, hi⟩ := h
  simp only [List.mem_append] at hmp
  rcases hmp with hmp | hmp
  all_goals
    split at hmp
    · simp only [List.mem_singleton] at hmp
      subst hmp
      simp only [directItems, if_true, Bool.false_eq_true, if_false] at hi
      split at hi
      · simp only [List.mem_map] at hi
        obtain ⟨g, _, rfl⟩ := hi
        exact Or.inr ⟨_, _, _, _, rfl⟩
      · simp only [List.mem_singleton] at hi
        exact Or.inl hi
    · simp at hmp

/-- select the pair an application files under key `k` -/
def pick {ι : Type} (run : ι → Except ExecErr (Option (PeerKey × Pair))) (k : PeerKey) (i : ι) : Option Pair :=
  match kvOf run i with
  | some kv => if kv.1 = k then some kv.2 else none
  | none => none

theorem valuesOf_filterMap_kvOf {ι : Type} (run : ι → Except ExecErr (Option (PeerKey × Pair))) (k : PeerKey)
    (l : List ι) : valuesOf k (l.filterMap (kvOf run)) = l.filterMap (pick run k) := by
  induction l with
  | nil => rfl
  | cons i l ih =>
    simp only [List.filterMap_cons, pick]
    cases hk : kvOf run i with
    | none => simpa using ih
    | some kv =>
      obtain ⟨k0, v⟩ := kv
      by_cases h : k0 = k
      · subst h; simp [valuesOf_cons_self, ih]
      · simp [valuesOf_cons_ne h, ih, h]

theorem flatMap_eq_of_nodup {ι β : Type} [DecidableEq ι] (G : ι → List β) (n : ι) :
    ∀ (l : List ι), l.Nodup → n ∈ l → (∀ x ∈ l, x ≠ n → G x = []) → l.flatMap G = G n := by
  intro l
  induction l with
  | nil => intro _ h; cases h
  | cons x l ih =>
    intro hnd hn hG
    simp only [List.nodup_cons] at hnd
    simp only [List.flatMap_cons]
    by_cases hx : x = n
    · subst hx
      have : l.flatMap G = [] := by
        rw [List.flatMap_eq_nil_iff]
        intro y hy
        exact hG y (List.mem_cons_of_mem _ hy) (fun e => hnd.1 (e ▸ hy))
      simp [this]
    · have hn' : n ∈ l := by
        cases hn with
        | head => exact absurd rfl hx
        | tail _ h => exact h
      rw [hG x List.mem_cons_self hx, List.nil_append]
      exact ih hnd.2 hn' (fun y hy => hG y (List.mem_cons_of_mem _ hy))

/-- the pairs filed under a key of neighbour `n` come from the applications towards `n` only -/
theorem valuesOf_allDirectItems (dto : Table) (st : Storage) (rules : List DirectRule) (device n : String)
    (hnd : (st.neighbours device).Nodup) (hn : n ∈ st.neighbours device) (k : PeerKey) (hk : k.1 = n) :
    valuesOf k ((allDirectItems st rules device).filterMap (kvOf (runDirectItem dto device))) =
      (itemsFor st rules device n).filterMap (pick (runDirectItem dto device) k) := by
  rw [valuesOf_filterMap_kvOf, allDirectItems_eq, List.filterMap_flatMap]
  apply flatMap_eq_of_nodup _ n _ hnd hn
  intro x _ hx
  rw [List.filterMap_eq_nil_iff]
  intro item hitem
  simp only [pick]
  cases hkv : kvOf (runDirectItem dto device) item with
  | none => rfl
  | some kv =>
    obtain ⟨k0, v⟩ := kv
    have hrun : runDirectItem dto device item = .ok (some (k0, v)) := by
      simp only [kvOf] at hkv
      split at hkv
      · rename_i kp heq; simp at hkv; subst hkv; exact heq
      · simp at hkv
    have hdev := runDirectItem_device hrun
    rcases mem_itemsFor_neighbor hitem with rfl | ⟨r, o, g, all, rfl⟩
    · simp [runDirectItem] at hrun
    · simp only [runDirectItem, bind_ok_iff] at hrun
      obtain ⟨op, hop, hkey⟩ := hrun
      cases op with
      | none => simp [keyed] at hkey
      | some p =>
        have hpd := executeDirectPair_device hop
        simp only [keyed] at hkey
        cases hpk : peerKey p.device p.connected with
        | error e => simp [hpk] at hkey
        | ok k1 =>
          simp [hpk] at hkey
          obtain ⟨rfl, rfl⟩ := hkey
          have : k1.1 = x := by rw [peerKey_fst hpk, hpd]
          have hne : ¬ k1 = k := by
            intro e; subst e; exact hx (this.symm.trans hk)
          simp [hne]


/-- the pairs the handler applications between `a` and `b` produce at `a` (before grouping by key) -/
def directPairs (dto : Table) (st : Storage) (rules : List DirectRule) (a b : String) : List Pair :=
  (itemsFor st rules a b).filterMap fun item => match item with
    | .app r o nb g all => (match executeDirectPair dto a nb r o g all with
        | .ok (some p) => some p
        | _ => none)
    | .missing => none

/-- Both ends file the handler results of the pair under their keys in the same way: two results get
the same key at `a` (remote address and vrf) iff they get the same key at `b` (`a`'s address and vrf).
It holds, e.g., when every application gives each side one address per vrf. -/
def KeyCompat (dto : Table) (st : Storage) (rules : List DirectRule) (a b : String) : Prop :=
  ∀ p1 ∈ directPairs dto st rules a b, ∀ p2 ∈ directPairs dto st rules a b, ∀ k1 k2 k1' k2',
    peerKey b p1.connected = .ok k1 → peerKey b p2.connected = .ok k2 →
    peerKey a p1.loc = .ok k1' → peerKey a p2.loc = .ok k2' → (k1 = k2 ↔ k1' = k2')

theorem filterMap_congr' {ι β : Type} {f g : ι → Option β} {l : List ι} (h : ∀ x ∈ l, f x = g x) :
    l.filterMap f = l.filterMap g := by
  induction l with
  | nil => rfl
  | cons x l ih =>
    simp only [List.filterMap_cons, h x List.mem_cons_self]
    rw [ih fun y hy => h y (List.mem_cons_of_mem _ hy)]

theorem kvOf_eq_some {ι κ α : Type} {run : ι → Except ExecErr (Option (κ × α))} {i : ι} {kv : κ × α}
    (h : kvOf run i = some kv) : run i = .ok (some kv) := by
  simp only [kvOf] at h
  split at h
  · rename_i kp heq; simp at h; subst h; exact heq
  · simp at h

theorem kvOf_of_run {ι κ α : Type} {run : ι → Except ExecErr (Option (κ × α))} {i : ι} {o : Option (κ × α)}
    (h : run i = .ok o) : kvOf run i = o := by
  simp only [kvOf, h]
  cases o <;> rfl

/-- one application, run at both ends -/
theorem run_mirror (dto : Table) (st : Storage) (rules : List DirectRule) (a b : String) {item : DirectItem}
    (hi : item ∈ itemsFor st rules a b) {oa ob : Option (PeerKey × Pair)}
    (ha : runDirectItem dto a item = .ok oa) (hb : runDirectItem dto b (mirrorItem a item) = .ok ob) :
    (oa = none ∧ ob = none) ∨
    ∃ ka p kb q, oa = some (ka, p) ∧ ob = some (kb, q) ∧ q.loc = p.connected ∧ q.connected = p.loc ∧
      peerKey b p.connected = .ok ka ∧ peerKey a p.loc = .ok kb ∧ p ∈ directPairs dto st rules a b := by
  rcases mem_itemsFor_neighbor hi with rfl | ⟨r, o, g, all, rfl⟩
  · simp [runDirectItem] at ha
  · simp only [runDirectItem, mirrorItem, bind_ok_iff] at ha hb
    obtain ⟨xa, hxa, hka⟩ := ha
    obtain ⟨xb, hxb, hkb⟩ := hb
    have hm := executeDirectPair_mirror dto a b r o g all
    rw [hxa, hxb] at hm
    simp only [RE_ok_ok] at hm
    cases xa with
    | none =>
      cases xb with
      | none => simp [keyed] at hka hkb; exact Or.inl ⟨hka.symm, hkb.symm⟩
      | some q => simp [OptMirror] at hm
    | some p =>
      cases xb with
      | none => simp [OptMirror] at hm
      | some q =>
        simp only [OptMirror] at hm
        have hpd := executeDirectPair_device hxa
        have hqd := executeDirectPair_device hxb
        simp only [keyed, hpd, hqd] at hka hkb
        cases h1 : peerKey b p.connected with
        | error e => simp [h1] at hka
        | ok ka =>
          cases h2 : peerKey a q.connected with
          | error e => simp [h2] at hkb
          | ok kb =>
            simp [h1] at hka
            simp [h2] at hkb
            refine Or.inr ⟨ka, p, kb, q, hka.symm, hkb.symm, hm.1, hm.2, h1, by rw [← hm.2]; exact h2, ?_⟩
            simp only [directPairs, List.mem_filterMap]
            exact ⟨_, hi, by simp [hxa]⟩

/-- **Mirrored direct sessions.**  For two connected devices whose storage views agree, if both ends'
`_execute_direct` succeed and the key grouping is compatible, every pair `a` holds for `b` has a
counterpart at `b` with `local` and `connected` exchanged (up to `Equiv`: Python set equality). -/
theorem executeDirect_mirrored (dto : Table) (hwf : (Merger.merge dto).WF) (hs : (Merger.merge dto).Sym)
    (hd : (Merger.merge dto).DictFree) (st : Storage) (rules : List DirectRule) (a b : String)
    (hc : st.conns b a = swapPorts (st.conns a b)) (hka : st.known a = true) (hkb : st.known b = true)
    (hnda : (st.neighbours a).Nodup) (hndb : (st.neighbours b).Nodup)
    (hba : b ∈ st.neighbours a) (hab : a ∈ st.neighbours b)
    (hcompat : KeyCompat dto st rules a b)
    {sA sB : PairState} (hA : executeDirect dto st rules a = .ok sA) (hB : executeDirect dto st rules b = .ok sB)
    (k : PeerKey) (p : Pair) (hp : lookup k sA = some p) (hk : k.1 = b) :
    ∃ k' q, lookup k' sB = some q ∧ k'.1 = a ∧
      EquivFields dto q.loc p.connected ∧ EquivFields dto q.connected p.loc := by
  rw [executeDirect_eq, foldlM_stepG_ok] at hA hB
  obtain ⟨hallA, gA⟩ := hA
  obtain ⟨hallB, gB⟩ := hB
  -- the fold behind `p`
  have fA := groupFold_ok _ gA k
  rw [valuesOf_allDirectItems dto st rules a b hnda hba k hk, hp] at fA
  simp only [lookup] at fA
  -- a first application filed under `k`
  have hne : (itemsFor st rules a b).filterMap (pick (runDirectItem dto a) k) ≠ [] := by
    intro e; rw [e] at fA; simp [foldKey] at fA
  obtain ⟨v0, hv0⟩ := List.exists_mem_of_ne_nil _ hne
  simp only [List.mem_filterMap] at hv0
  obtain ⟨item0, hitem0, hpick0⟩ := hv0
  have hperm := itemsFor_mirror st rules a b hc hka hkb
  have memB : ∀ item ∈ itemsFor st rules a b, mirrorItem a item ∈ allDirectItems st rules b := by
    intro item hi
    rw [allDirectItems_eq]
    exact List.mem_flatMap.mpr ⟨a, hab, hperm.mem_iff.mpr (List.mem_map.mpr ⟨item, hi, rfl⟩)⟩
  have memA : ∀ item ∈ itemsFor st rules a b, item ∈ allDirectItems st rules a := by
    intro item hi
    rw [allDirectItems_eq]
    exact List.mem_flatMap.mpr ⟨b, hba, hi⟩
  -- its key at `a` is `k`; call its key at `b` `k'`
  have hrun0 : runDirectItem dto a item0 = .ok (some (k, v0)) := by
    simp only [pick] at hpick0
    cases hkv : kvOf (runDirectItem dto a) item0 with
    | none => simp [hkv] at hpick0
    | some kv =>
      simp only [hkv] at hpick0
      split at hpick0
      · rename_i hk0
        simp at hpick0
        obtain ⟨k0, v⟩ := kv
        simp at hk0 hpick0
        subst hk0; subst hpick0
        exact kvOf_eq_some hkv
      · simp at hpick0
  obtain ⟨ob0, hob0⟩ := hallB _ (memB item0 hitem0)
  rcases run_mirror dto st rules a b hitem0 hrun0 hob0 with ⟨h, _⟩ | ⟨ka0, p0, k', q0, h1, h2, _, _, hka0, hkb0, hp0mem⟩
  · simp at h
  simp only [Option.some.injEq, Prod.mk.injEq] at h1
  obtain ⟨rfl, rfl⟩ := h1
  have hk'a : k'.1 = a := peerKey_fst hkb0
  -- the fold at `b` under `k'`
  have fB := groupFold_ok _ gB k'
  rw [valuesOf_allDirectItems dto st rules b a hndb hab k' hk'a] at fB
  simp only [lookup] at fB
  -- element by element, `b` files the exchanged pair under `k'` exactly when `a` files the pair under `k`
  have helem : ∀ item ∈ itemsFor st rules a b,
      (pick (runDirectItem dto b) k' (mirrorItem a item)).map strip =
        ((pick (runDirectItem dto a) k item).map strip).map swapLC := by
    intro item hi
    obtain ⟨oa, hoa⟩ := hallA _ (memA item hi)
    obtain ⟨ob, hob⟩ := hallB _ (memB item hi)
    simp only [pick, kvOf_of_run hoa, kvOf_of_run hob]
    rcases run_mirror dto st rules a b hi hoa hob with ⟨rfl, rfl⟩ | ⟨ka, p1, kb, q1, rfl, rfl, hl, hcn, hka1, hkb1, hp1mem⟩
    · rfl
    · have hiff := hcompat p1 hp1mem v0 hp0mem ka k kb k' hka1 hka0 hkb1 hkb0
      by_cases hkk : ka = k
      · have hkk' : kb = k' := hiff.mp hkk
        simp [hkk, hkk', strip, swapLC, hl, hcn]
      · have hkk' : ¬ kb = k' := fun e => hkk (hiff.mpr e)
        simp [hkk, hkk']
  have hVB : (((itemsFor st rules b a).filterMap (pick (runDirectItem dto b) k')).map strip).Perm
      ((((itemsFor st rules a b).filterMap (pick (runDirectItem dto a) k)).map strip).map swapLC) := by
    have h1 := (hperm.filterMap (pick (runDirectItem dto b) k')).map strip
    refine h1.trans (List.Perm.of_eq ?_)
    rw [List.filterMap_map, List.map_filterMap, List.map_filterMap, List.map_filterMap]
    apply filterMap_congr'
    intro item hi
    simpa [Function.comp_def, Option.map_map] using helem item hi
  -- `b` has an entry under `k'`
  have hneB : (itemsFor st rules b a).filterMap (pick (runDirectItem dto b) k') ≠ [] := by
    intro e
    have := hVB.length_eq
    rw [e] at this
    simp only [List.map_nil, List.length_nil, List.length_map] at this
    exact hne (List.eq_nil_of_length_eq_zero this.symm)
  cases hq : lookup k' sB with
  | none =>
    rw [hq] at fB
    have := foldKey_isSome _ _ _ fB (Or.inr hneB)
    simp at this
  | some q =>
    rw [hq] at fB
    refine ⟨k', q, hq, hk'a, ?_⟩
    -- forget device/ports, exchange the sides, and compare the two folds of the same operands
    have fA1 := foldKey_hom_ok (g := mergePair dto) strip (fun _ _ _ h => mergePair_strip h) _ _ _ fA
    have fA2 := foldKey_hom_ok (g := mergePair dto) swapLC (fun _ _ _ h => mergePair_swapLC h) _ _ _ fA1
    have fB1 := foldKey_hom_ok (g := mergePair dto) strip (fun _ _ _ h => mergePair_strip h) _ _ _ fB
    have hcmp := foldKey_perm (mergePair_PCS dto hwf hs hd "") hVB
      (by intro v hv; simp only [List.mem_map] at hv; obtain ⟨_, _, rfl⟩ := hv; rfl)
      (o := none) (o' := none) (by simp) (by simp [OptI])
    simp only [Option.map_none, Option.map_some] at fA2 fB1
    rw [fB1, fA2] at hcmp
    simp only [RE_ok_ok, OptRel_some_some] at hcmp
    exact ⟨hcmp.1, hcmp.2.1⟩


/-! ### mirrored indirect sessions (same development, without ports and neighbours) -/

def orientI (device n : String) (r : IndirectRule) : List MatchedIndirect :=
  (if r.isMatch device n then [⟨r, true, device, n⟩] else []) ++
  (if r.isMatch n device then [⟨r, false, n, device⟩] else [])

def itemsForI (rules : List IndirectRule) (device n : String) : List MatchedIndirect :=
  rules.flatMap (orientI device n)

theorem lookupIndirect_eq (rules : List IndirectRule) (device : String) (devs : List String) :
    lookupIndirect rules device devs = devs.flatMap (itemsForI rules device) := rfl

def mirrorI (mp : MatchedIndirect) : MatchedIndirect := ⟨mp.rule, !mp.directOrder, mp.nameLeft, mp.nameRight⟩

theorem itemsForI_mirror (rules : List IndirectRule) (a b : String) :
    (itemsForI rules b a).Perm ((itemsForI rules a b).map mirrorI) := by
  simp only [itemsForI, List.map_flatMap]
  apply perm_flatMap_congr
  intro r _
  simp only [orientI]
  by_cases h1 : r.isMatch a b = true <;> by_cases h2 : r.isMatch b a = true <;>
    simp [h1, h2, mirrorI]
  exact List.Perm.swap _ _ _

theorem mem_itemsForI {rules : List IndirectRule} {device n : String} {mp : MatchedIndirect}
    (h : mp ∈ itemsForI rules device n) : (if mp.directOrder then mp.nameRight else mp.nameLeft) = n ∧
      (if mp.directOrder then mp.nameLeft else mp.nameRight) = device := by
  simp only [itemsForI, orientI, List.mem_flatMap, List.mem_append] at h
  obtain ⟨r, _, h | h⟩ := h
  all_goals
    split at h
    · simp only [List.mem_singleton] at h; subst h; simp
    · simp at h

theorem executeIndirectPair_mirror (dto : Table) (a b : String) (rule : IndirectRule) (o : Bool) :
    RE OptMirror (executeIndirectPair dto a b rule o) (executeIndirectPair dto b a rule (!o)) := by
  simp only [executeIndirectPair]
  have hc : (if (!o) = true then rule.handler b a else rule.handler a b) =
      (if o = true then rule.handler a b else rule.handler b a) := by cases o <;> rfl
  rw [hc]
  generalize (if o = true then rule.handler a b else rule.handler b a) = asg
  cases o
  all_goals simp only [Bool.not_false, Bool.not_true, if_true, if_false, Bool.false_eq_true]
  all_goals
    by_cases he : (asg.left.isEmpty && asg.right.isEmpty && asg.session.isEmpty) = true
  all_goals
    have he' : (asg.right.isEmpty && asg.left.isEmpty && asg.session.isEmpty) = (asg.left.isEmpty && asg.right.isEmpty && asg.session.isEmpty) := by
      cases asg.left.isEmpty <;> cases asg.right.isEmpty <;> rfl
  all_goals simp only [he', he, if_true, if_false]
  all_goals try (simp [OptMirror]; done)
  all_goals
    cases h1 : liftMerge (mkDto dto asg.left asg.session) <;> cases h2 : liftMerge (mkDto dto asg.right asg.session) <;>
      simp [OptMirror, pure, Except.pure, bind, Except.bind]

theorem valuesOf_lookupIndirect (dto : Table) (rules : List IndirectRule) (device n : String) (devs : List String)
    (hnd : devs.Nodup) (hn : n ∈ devs) (k : PeerKey) (hk : k.1 = n) :
    valuesOf k ((lookupIndirect rules device devs).filterMap (kvOf (runIndirect dto device))) =
      (itemsForI rules device n).filterMap (pick (runIndirect dto device) k) := by
  rw [valuesOf_filterMap_kvOf, lookupIndirect_eq, List.filterMap_flatMap]
  apply flatMap_eq_of_nodup _ n _ hnd hn
  intro x _ hx
  rw [List.filterMap_eq_nil_iff]
  intro mp hmp
  simp only [pick]
  cases hkv : kvOf (runIndirect dto device) mp with
  | none => rfl
  | some kv =>
    obtain ⟨k0, v⟩ := kv
    have hrun := kvOf_eq_some hkv
    simp only [runIndirect, bind_ok_iff] at hrun
    obtain ⟨op, hop, hkey⟩ := hrun
    cases op with
    | none => simp [keyed] at hkey
    | some p =>
      have hpd := executeIndirectPair_device hop
      rw [(mem_itemsForI hmp).1] at hpd
      simp only [keyed] at hkey
      cases hpk : peerKey p.device p.connected with
      | error e => simp [hpk] at hkey
      | ok k1 =>
        simp [hpk] at hkey
        obtain ⟨rfl, rfl⟩ := hkey
        have : k1.1 = x := by rw [peerKey_fst hpk, hpd]
        have hne : ¬ k1 = k := by
          intro e; subst e; exact hx (this.symm.trans hk)
        simp [hne]

def indirectPairs (dto : Table) (rules : List IndirectRule) (a b : String) : List Pair :=
  (itemsForI rules a b).filterMap fun mp =>
    match executeIndirectPair dto a b mp.rule mp.directOrder with
    | .ok (some p) => some p
    | _ => none

def KeyCompatI (dto : Table) (rules : List IndirectRule) (a b : String) : Prop :=
  ∀ p1 ∈ indirectPairs dto rules a b, ∀ p2 ∈ indirectPairs dto rules a b, ∀ k1 k2 k1' k2',
    peerKey b p1.connected = .ok k1 → peerKey b p2.connected = .ok k2 →
    peerKey a p1.loc = .ok k1' → peerKey a p2.loc = .ok k2' → (k1 = k2 ↔ k1' = k2')

theorem runI_mirror (dto : Table) (rules : List IndirectRule) (a b : String) {mp : MatchedIndirect}
    (hi : mp ∈ itemsForI rules a b) {oa ob : Option (PeerKey × Pair)}
    (ha : runIndirect dto a mp = .ok oa) (hb : runIndirect dto b (mirrorI mp) = .ok ob) :
    (oa = none ∧ ob = none) ∨
    ∃ ka p kb q, oa = some (ka, p) ∧ ob = some (kb, q) ∧ q.loc = p.connected ∧ q.connected = p.loc ∧
      peerKey b p.connected = .ok ka ∧ peerKey a p.loc = .ok kb ∧ p ∈ indirectPairs dto rules a b := by
  obtain ⟨hn, hdv⟩ := mem_itemsForI hi
  have hn' : (if (mirrorI mp).directOrder then (mirrorI mp).nameRight else (mirrorI mp).nameLeft) = a := by
    simp only [mirrorI]
    by_cases ho : mp.directOrder = true
    · simp only [ho, if_true] at hdv; simp [ho, hdv]
    · simp only [ho, if_false, Bool.false_eq_true] at hdv; simp [ho, hdv]
  simp only [runIndirect, hn, hn', bind_ok_iff] at ha hb
  obtain ⟨xa, hxa, hka⟩ := ha
  obtain ⟨xb, hxb, hkb⟩ := hb
  have hm := executeIndirectPair_mirror dto a b mp.rule mp.directOrder
  simp only [mirrorI] at hxb
  rw [hxa, hxb] at hm
  simp only [RE_ok_ok] at hm
  cases xa with
  | none =>
    cases xb with
    | none => simp [keyed] at hka hkb; exact Or.inl ⟨hka.symm, hkb.symm⟩
    | some q => simp [OptMirror] at hm
  | some p =>
    cases xb with
    | none => simp [OptMirror] at hm
    | some q =>
      simp only [OptMirror] at hm
      have hpd := executeIndirectPair_device hxa
      have hqd := executeIndirectPair_device hxb
      simp only [keyed, hpd, hqd] at hka hkb
      cases h1 : peerKey b p.connected with
      | error e => simp [h1] at hka
      | ok ka =>
        cases h2 : peerKey a q.connected with
        | error e => simp [h2] at hkb
        | ok kb =>
          simp [h1] at hka
          simp [h2] at hkb
          refine Or.inr ⟨ka, p, kb, q, hka.symm, hkb.symm, hm.1, hm.2, h1, by rw [← hm.2]; exact h2, ?_⟩
          simp only [indirectPairs, List.mem_filterMap]
          exact ⟨_, hi, by simp [hxa]⟩

/-- **Mirrored indirect sessions** -/
theorem executeIndirect_mirrored (dto : Table) (hwf : (Merger.merge dto).WF) (hs : (Merger.merge dto).Sym)
    (hd : (Merger.merge dto).DictFree) (st : Storage) (rules : List IndirectRule) (a b : String)
    (hnd : st.allFqdns.Nodup) (ha : a ∈ st.allFqdns) (hb : b ∈ st.allFqdns)
    (hcompat : KeyCompatI dto rules a b)
    {sA sB : PairState} (hA : executeIndirect dto st rules a = .ok sA) (hB : executeIndirect dto st rules b = .ok sB)
    (k : PeerKey) (p : Pair) (hp : lookup k sA = some p) (hk : k.1 = b) :
    ∃ k' q, lookup k' sB = some q ∧ k'.1 = a ∧
      EquivFields dto q.loc p.connected ∧ EquivFields dto q.connected p.loc := by
  rw [executeIndirect_eq, foldlM_stepG_ok] at hA hB
  obtain ⟨hallA, gA⟩ := hA
  obtain ⟨hallB, gB⟩ := hB
  have fA := groupFold_ok _ gA k
  rw [valuesOf_lookupIndirect dto rules a b _ hnd hb k hk, hp] at fA
  simp only [lookup] at fA
  have hne : (itemsForI rules a b).filterMap (pick (runIndirect dto a) k) ≠ [] := by
    intro e; rw [e] at fA; simp [foldKey] at fA
  obtain ⟨v0, hv0⟩ := List.exists_mem_of_ne_nil _ hne
  simp only [List.mem_filterMap] at hv0
  obtain ⟨item0, hitem0, hpick0⟩ := hv0
  have hperm := itemsForI_mirror rules a b
  have memB : ∀ item ∈ itemsForI rules a b, mirrorI item ∈ lookupIndirect rules b st.allFqdns := by
    intro item hi
    rw [lookupIndirect_eq]
    exact List.mem_flatMap.mpr ⟨a, ha, hperm.mem_iff.mpr (List.mem_map.mpr ⟨item, hi, rfl⟩)⟩
  have memA : ∀ item ∈ itemsForI rules a b, item ∈ lookupIndirect rules a st.allFqdns := by
    intro item hi
    rw [lookupIndirect_eq]
    exact List.mem_flatMap.mpr ⟨b, hb, hi⟩
  have hrun0 : runIndirect dto a item0 = .ok (some (k, v0)) := by
    simp only [pick] at hpick0
    cases hkv : kvOf (runIndirect dto a) item0 with
    | none => simp [hkv] at hpick0
    | some kv =>
      simp only [hkv] at hpick0
      split at hpick0
      · rename_i hk0
        simp at hpick0
        obtain ⟨k0, v⟩ := kv
        simp at hk0 hpick0
        subst hk0; subst hpick0
        exact kvOf_eq_some hkv
      · simp at hpick0
  obtain ⟨ob0, hob0⟩ := hallB _ (memB item0 hitem0)
  rcases runI_mirror dto rules a b hitem0 hrun0 hob0 with ⟨h, _⟩ | ⟨ka0, p0, k', q0, h1, h2, _, _, hka0, hkb0, hp0mem⟩
  · simp at h
  simp only [Option.some.injEq, Prod.mk.injEq] at h1
  obtain ⟨rfl, rfl⟩ := h1
  have hk'a : k'.1 = a := peerKey_fst hkb0
  have fB := groupFold_ok _ gB k'
  rw [valuesOf_lookupIndirect dto rules b a _ hnd ha k' hk'a] at fB
  simp only [lookup] at fB
  have helem : ∀ item ∈ itemsForI rules a b,
      (pick (runIndirect dto b) k' (mirrorI item)).map strip =
        ((pick (runIndirect dto a) k item).map strip).map swapLC := by
    intro item hi
    obtain ⟨oa, hoa⟩ := hallA _ (memA item hi)
    obtain ⟨ob, hob⟩ := hallB _ (memB item hi)
    simp only [pick, kvOf_of_run hoa, kvOf_of_run hob]
    rcases runI_mirror dto rules a b hi hoa hob with ⟨rfl, rfl⟩ | ⟨ka, p1, kb, q1, rfl, rfl, hl, hcn, hka1, hkb1, hp1mem⟩
    · rfl
    · have hiff := hcompat p1 hp1mem v0 hp0mem ka k kb k' hka1 hka0 hkb1 hkb0
      by_cases hkk : ka = k
      · have hkk' : kb = k' := hiff.mp hkk
        simp [hkk, hkk', strip, swapLC, hl, hcn]
      · have hkk' : ¬ kb = k' := fun e => hkk (hiff.mpr e)
        simp [hkk, hkk']
  have hVB : (((itemsForI rules b a).filterMap (pick (runIndirect dto b) k')).map strip).Perm
      ((((itemsForI rules a b).filterMap (pick (runIndirect dto a) k)).map strip).map swapLC) := by
    have h1 := (hperm.filterMap (pick (runIndirect dto b) k')).map strip
    refine h1.trans (List.Perm.of_eq ?_)
    rw [List.filterMap_map, List.map_filterMap, List.map_filterMap, List.map_filterMap]
    apply filterMap_congr'
    intro item hi
    simpa [Function.comp_def, Option.map_map] using helem item hi
  have hneB : (itemsForI rules b a).filterMap (pick (runIndirect dto b) k') ≠ [] := by
    intro e
    have := hVB.length_eq
    rw [e] at this
    simp only [List.map_nil, List.length_nil, List.length_map] at this
    exact hne (List.eq_nil_of_length_eq_zero this.symm)
  cases hq : lookup k' sB with
  | none =>
    rw [hq] at fB
    have := foldKey_isSome _ _ _ fB (Or.inr hneB)
    simp at this
  | some q =>
    rw [hq] at fB
    refine ⟨k', q, hq, hk'a, ?_⟩
    have fA1 := foldKey_hom_ok (g := mergePair dto) strip (fun _ _ _ h => mergePair_strip h) _ _ _ fA
    have fA2 := foldKey_hom_ok (g := mergePair dto) swapLC (fun _ _ _ h => mergePair_swapLC h) _ _ _ fA1
    have fB1 := foldKey_hom_ok (g := mergePair dto) strip (fun _ _ _ h => mergePair_strip h) _ _ _ fB
    have hcmp := foldKey_perm (mergePair_PCS dto hwf hs hd "") hVB
      (by intro v hv; simp only [List.mem_map] at hv; obtain ⟨_, _, rfl⟩ := hv; rfl)
      (o := none) (o' := none) (by simp) (by simp [OptI])
    simp only [Option.map_none, Option.map_some] at fA2 fB1
    rw [fB1, fA2] at hcmp
    simp only [RE_ok_ok, OptRel_some_some] at hcmp
    exact ⟨hcmp.1, hcmp.2.1⟩


/-! ### `merge(first, *others)` does not depend on the order of `others` -/

theorem mergeFields_PCS (t : Table) (hwf : (Merger.merge t).WF) (hs : (Merger.merge t).Sym)
    (hd : (Merger.merge t).DictFree) : PCS (mergeFields t) (EquivFields t) (fun _ => True) where
  refl := fun a _ => EquivFields.refl t a
  symm := fun _ _ h => h.symm
  trans := fun _ _ _ h1 h2 => h1.trans h2
  resp := fun _ _ _ _ => trivial
  closed := fun _ _ _ _ _ _ => trivial
  cong := fun _ _ _ _ _ _ ha hb => mergeFields_cong hwf hd ha hb
  comm := fun a b _ _ => mergeFields_comm hwf hs a b
  assoc := fun a b c _ _ _ =>
    RE.mono (R := Eq) (fun x y (h : x = y) => h ▸ EquivFields.refl t x) (mergeFields_assoc hwf hd a b c)

theorem mergeMany_eq_foldKey (t : Table) (first : Fields) (others : List Fields) :
    (mergeMany t first others).map some = foldKey (mergeFields t) (some first) others := by
  induction others generalizing first with
  | nil => rfl
  | cons x xs ih =>
    simp only [mergeMany, foldKey_cons, stepOpt]
    cases mergeFields t first x with
    | error e => rfl
    | ok r => simpa using ih r

theorem mergeMany_perm (t : Table) (hwf : (Merger.merge t).WF) (hs : (Merger.merge t).Sym)
    (hd : (Merger.merge t).DictFree) (first : Fields) {l l' : List Fields} (hp : l.Perm l') :
    RE (EquivFields t) (mergeMany t first l) (mergeMany t first l') := by
  have := foldKey_perm (mergeFields_PCS t hwf hs hd) hp (fun _ _ => trivial)
    (o := some first) (o' := some first) (by simpa using EquivFields.refl t first) trivial
  rw [← mergeMany_eq_foldKey, ← mergeMany_eq_foldKey] at this
  cases h1 : mergeMany t first l <;> cases h2 : mergeMany t first l' <;> simp [h1, h2] at this ⊢
  exact this


/-! ### conversion to `Peer`: which side each field comes from -/

/-- what a successful `to_bgp_peer` used -/
theorem toBgpPeer_ok {optFields : List String} {ipOf : String → Option String} {loc conn : Fields}
    {host : String} {iface : Option String} {P : PeerOut}
    (h : toBgpPeer optFields ipOf loc conn host iface = .ok P) :
    (∃ a cs, lookup "addr" conn = some (.atom a) ∧ a.toList = 's' :: cs ∧ ipOf (String.ofList cs) = some P.addr) ∧
    (∃ b, lookup "asnum" conn = some (.atom b) ∧ parseAsn b = .ok P.remoteAs) ∧
    P.localAddr = lookup "addr" loc ∧
    ((lookup "asnum" loc = none ∧ P.localAs = none) ∨
     (∃ c, lookup "asnum" loc = some (.atom c) ∧
        ((c = noneAtom ∧ P.localAs = none) ∨ (c ≠ noneAtom ∧ ∃ n, parseAsn c = .ok n ∧ P.localAs = some n)))) ∧
    P.families = lookup "families" conn ∧ P.vrfName = lookup "vrf" conn ∧ P.interface = iface ∧ P.hostname = host := by
  simp only [toBgpPeer, bind_ok_iff] at h
  obtain ⟨las, hlas, addr, haddr, ras, hras, hP⟩ := h
  simp only [pure, Except.pure, Except.ok.injEq] at hP
  subst hP
  refine ⟨?_, ?_, rfl, ?_, rfl, rfl, rfl, rfl⟩
  · simp only [peerAddr] at haddr
    cases hl : lookup "addr" conn with
    | none => simp [hl] at haddr
    | some v =>
      cases v with
      | atom a =>
        simp only [hl] at haddr
        split at haddr
        · rename_i cs hcs
          split at haddr
          · rename_i ip hip
            simp only [Except.ok.injEq] at haddr
            subst haddr
            exact ⟨a, cs, rfl, hcs, hip⟩
          · simp at haddr
        · simp at haddr
      | _ => simp [hl] at haddr
  · simp only [peerRemoteAs] at hras
    cases hl : lookup "asnum" conn with
    | none => simp [hl] at hras
    | some v =>
      cases v with
      | atom b => simp only [hl] at hras; exact ⟨b, rfl, hras⟩
      | _ => simp [hl] at hras
  · simp only [peerLocalAs] at hlas
    cases hl : lookup "asnum" loc with
    | none =>
      simp only [hl, Except.ok.injEq] at hlas
      exact Or.inl ⟨rfl, hlas.symm⟩
    | some v =>
      cases v with
      | atom c =>
        simp only [hl] at hlas
        refine Or.inr ⟨c, rfl, ?_⟩
        by_cases hc : c = noneAtom
        · simp only [hc, if_true, Except.ok.injEq] at hlas
          exact Or.inl ⟨hc, hlas.symm⟩
        · simp only [hc, if_false] at hlas
          refine Or.inr ⟨hc, ?_⟩
          cases hp : parseAsn c with
          | ok n =>
            simp only [hp, Except.ok.injEq] at hlas
            exact ⟨n, rfl, hlas.symm⟩
          | error e =>
            simp only [hp] at hlas
            cases e <;> simp at hlas
      | _ => simp [hl] at hlas

theorem parseAsn_none : parseAsn noneAtom = .ok 0 := by
  simp [parseAsn]

theorem lookup_forbidChange_eq {dto : Table} {x y : Fields} (h : EquivFields dto x y) {f : String}
    (hf : (f, Merger.forbidChange) ∈ dto) {a : String} (hx : lookup f x = some (.atom a)) :
    lookup f y = some (.atom a) := by
  have := (EquivFields_iff dto x y).mp h f _ hf
  rw [hx] at this
  cases hy : lookup f y with
  | none => simp [hy] at this
  | some v =>
    simp only [hy, OptRel_some_some, Equiv] at this
    cases v <;> simp [leafEqv] at this
    subst this; rfl

/-- `to_bgp_peer` at both ends of a mirrored pair: the address `a`'s peer points at is the address `b`
placed on its own interface, `a`'s `remote_as` is `b`'s `local_as` (`None` reads as AS 0, like
`ASN(None)`), and vice versa. -/
theorem toBgpPeer_mirrored (dto : Table) (haddr : ("addr", Merger.forbidChange) ∈ dto)
    (hasn : ("asnum", Merger.forbidChange) ∈ dto)
    (optFields : List String) (ipOf : String → Option String) {p q : Pair}
    (h1 : EquivFields dto q.loc p.connected) (h2 : EquivFields dto q.connected p.loc)
    {hostA hostB : String} {ifA ifB : Option String} {PA PB : PeerOut}
    (hA : toBgpPeer optFields ipOf p.loc p.connected hostB ifA = .ok PA)
    (hB : toBgpPeer optFields ipOf q.loc q.connected hostA ifB = .ok PB) :
    (∃ a cs, PB.localAddr = some (.atom a) ∧ a.toList = 's' :: cs ∧ ipOf (String.ofList cs) = some PA.addr) ∧
    (∃ a cs, PA.localAddr = some (.atom a) ∧ a.toList = 's' :: cs ∧ ipOf (String.ofList cs) = some PB.addr) ∧
    PB.localAs.getD 0 = PA.remoteAs ∧ PA.localAs.getD 0 = PB.remoteAs := by
  have key : ∀ {x y : Pair} {hx hy : String} {ix iy : Option String} {X Y : PeerOut},
      EquivFields dto y.loc x.connected →
      toBgpPeer optFields ipOf x.loc x.connected hx ix = .ok X →
      toBgpPeer optFields ipOf y.loc y.connected hy iy = .ok Y →
      (∃ a cs, Y.localAddr = some (.atom a) ∧ a.toList = 's' :: cs ∧ ipOf (String.ofList cs) = some X.addr) ∧
      Y.localAs.getD 0 = X.remoteAs := by
    intro x y hx hy ix iy X Y he hX hY
    obtain ⟨⟨a, cs, ha, hcs, hip⟩, ⟨b, hb, hpb⟩, _, _, _⟩ := toBgpPeer_ok hX
    obtain ⟨_, _, hla, hlas, _⟩ := toBgpPeer_ok hY
    have ha' := lookup_forbidChange_eq he.symm haddr ha
    have hb' := lookup_forbidChange_eq he.symm hasn hb
    refine ⟨⟨a, cs, by rw [hla, ha'], hcs, hip⟩, ?_⟩
    rcases hlas with ⟨hn, _⟩ | ⟨c, hc, hcase⟩
    · rw [hn] at hb'; cases hb'
    · rw [hc] at hb'
      simp only [Option.some.injEq, Val.atom.injEq] at hb'
      subst hb'
      rcases hcase with ⟨hcn, hl⟩ | ⟨_, n, hn, hl⟩
      · rw [hl]
        rw [hcn, parseAsn_none] at hpb
        simpa using hpb
      · rw [hl]
        rw [hn] at hpb
        simpa using hpb
  obtain ⟨k1, k2⟩ := key h1 hA hB
  obtain ⟨k3, k4⟩ := key h2.symm hB hA
  exact ⟨k1, k3, k2, k4⟩


/-! ### interface selection -/

/-- the interface `_apply_direct_interface_changes` selects, as a decision table over
`(lag, subif, svi, first processed port)`; `none` = the function raises -/
def directIfaceTable (st : Storage) (portPairs : PortPairs) (ch : IfChanges) : Option String :=
  if portPairs.length > 1 ∧ ch.lag = none ∧ ch.svi = none then none
  else match ch.lag, ch.subif, ch.svi, portPairs with
    | some lag, some sub, _, _ => some (st.subifName (st.lagName lag) sub)
    | some lag, none, _, _ => some (st.lagName lag)
    | none, some sub, _, p :: _ => some (st.subifName p.1 sub)
    | none, some _, _, [] => none
    | none, none, some svi, _ => some (st.sviName svi)
    | none, none, none, p :: _ => some p.1
    | none, none, none, [] => none

/-- `_apply_direct_interface_changes` follows the decision table, whatever interfaces were created
before (`ds`), and always puts the local address (with its vrf) on the selected interface. -/
theorem applyDirectIface_table (st : Storage) (device neighbor : String) (ports : List String) (ch : IfChanges)
    (ds : DevState) :
    let pp := (st.conns device neighbor).filter fun p => ports.contains p.1
    match directIfaceTable st pp ch with
    | none => ∃ e, applyDirectIface st device neighbor ports ch ds = .error e
    | some name => ∃ ds', applyDirectIface st device neighbor ports ch ds = .ok (name, ds') ∧
        ds'.calls.getLast? = some (.addAddr name ch.addr ch.vrf) := by
  intro pp
  simp only [pp, directIfaceTable, applyDirectIface]
  generalize (st.conns device neighbor).filter (fun p => ports.contains p.1) = l
  obtain ⟨addr, lag, llm, svi, subif, vrf⟩ := ch
  rcases l with _ | ⟨p, _ | ⟨q, r⟩⟩ <;> cases lag <;> cases subif <;> cases svi <;>
    simp [List.getLast?_append]

/-- `_apply_indirect_interface_changes` depends on the interfaces created so far only through the
`find_interface(ifname)` lookup of its last branch: with `subif`, `svi`, or no `ifname`, the result is
the same for every device state. -/
theorem applyIndirectIface_state_independent (st : Storage) (ifname : Option String) (ch : IfChanges)
    (ds ds' : DevState) (h : ch.subif.isSome ∨ ch.svi.isSome ∨ ifname = none ∨ ifname = some "" ∨ ch.lag.isSome) :
    (applyIndirectIface st ifname ch ds).map (·.1) = (applyIndirectIface st ifname ch ds').map (·.1) := by
  simp only [applyIndirectIface]
  obtain ⟨addr, lag, llm, svi, subif, vrf⟩ := ch
  cases lag <;> cases subif <;> cases svi <;> simp at h ⊢
  rcases h with rfl | rfl <;> simp

/-! ### `to_bgp_peer` respects `Equiv` -/

/-- reading an attribute as a scalar -/
def atomView {β : Type} (g : Option String → β) (bad : β) : Option Val → β
  | none => g none
  | some (.atom a) => g (some a)
  | some _ => bad

/-- … gives the same reading on `==`-equal values -/
theorem atomView_congr {β : Type} {o o' : Option Val} (h : OptRel leafEqv o o')
    (g : Option String → β) (bad : β) : atomView g bad o = atomView g bad o' := by
  cases o with
  | none =>
    cases o' with
    | none => rfl
    | some v' => simp at h
  | some v =>
    cases o' with
    | none => simp at h
    | some v' =>
      simp only [OptRel_some_some] at h
      cases v <;> cases v' <;> simp only [leafEqv] at h <;>
        first | (cases h; done) | (cases h; rfl) | rfl

theorem lookup_fc_rel {dto : Table} {x y : Fields} (h : EquivFields dto x y) {f : String}
    (hf : (f, Merger.forbidChange) ∈ dto) : OptRel leafEqv (lookup f x) (lookup f y) := by
  have := (EquivFields_iff dto x y).mp h f _ hf
  simpa [Equiv] using this

theorem peerLocalAs_eq (loc : Fields) : peerLocalAs loc = atomView (fun o => match o with
    | none => (.ok none : Except ExecErr (Option Nat))
    | some a => if a = noneAtom then .ok none
      else match parseAsn a with
        | .ok n => .ok (some n)
        | .error .valueError => .error .loadError
        | .error e => .error e) (.error .unsupported) (lookup "asnum" loc) := by
  simp only [peerLocalAs]
  cases lookup "asnum" loc with
  | none => rfl
  | some v => cases v <;> rfl

theorem peerRemoteAs_eq (c : Fields) : peerRemoteAs c = atomView (fun o => match o with
    | none => (.error .attributeError : Except ExecErr Nat)
    | some a => parseAsn a) (.error .unsupported) (lookup "asnum" c) := by
  simp only [peerRemoteAs]
  cases lookup "asnum" c with
  | none => rfl
  | some v => cases v <;> rfl

theorem peerAddr_eq (ipOf : String → Option String) (c : Fields) : peerAddr ipOf c = atomView (fun o => match o with
    | none => (.error .attributeError : Except ExecErr String)
    | some a => (match a.toList with
       | 's' :: cs => match ipOf (String.ofList cs) with
          | some ip => .ok ip
          | none => .error .valueError
       | _ => .error .unsupported)) (.error .unsupported) (lookup "addr" c) := by
  simp only [peerAddr]
  cases lookup "addr" c with
  | none => rfl
  | some v => cases v <;> rfl

theorem peerLocalAs_congr {loc loc' : Fields} (h : OptRel leafEqv (lookup "asnum" loc) (lookup "asnum" loc')) :
    peerLocalAs loc = peerLocalAs loc' := by
  rw [peerLocalAs_eq, peerLocalAs_eq, atomView_congr h]

theorem peerRemoteAs_congr {c c' : Fields} (h : OptRel leafEqv (lookup "asnum" c) (lookup "asnum" c')) :
    peerRemoteAs c = peerRemoteAs c' := by
  rw [peerRemoteAs_eq, peerRemoteAs_eq, atomView_congr h]

theorem peerAddr_congr (ipOf : String → Option String) {c c' : Fields}
    (h : OptRel leafEqv (lookup "addr" c) (lookup "addr" c')) : peerAddr ipOf c = peerAddr ipOf c' := by
  rw [peerAddr_eq, peerAddr_eq, atomView_congr h]

/-- `to_bgp_peer` reads equivalent DTOs alike: it raises on both or succeeds on both with the same
address, AS numbers, interface and host name, and `==`-equal families. -/
theorem toBgpPeer_congr (dto : Table) (haddr : ("addr", Merger.forbidChange) ∈ dto)
    (hasn : ("asnum", Merger.forbidChange) ∈ dto) (hfam : ("families", Merger.unite) ∈ dto)
    (optFields : List String) (ipOf : String → Option String) {loc loc' conn conn' : Fields}
    (hl : EquivFields dto loc loc') (hc : EquivFields dto conn conn') (host : String) (iface : Option String) :
    RE (fun P P' => P.addr = P'.addr ∧ P.remoteAs = P'.remoteAs ∧ P.localAs = P'.localAs ∧
        P.interface = P'.interface ∧ P.hostname = P'.hostname ∧ OptRel leafEqv P.families P'.families)
      (toBgpPeer optFields ipOf loc conn host iface) (toBgpPeer optFields ipOf loc' conn' host iface) := by
  simp only [toBgpPeer]
  rw [peerLocalAs_congr (lookup_fc_rel hl hasn), peerAddr_congr ipOf (lookup_fc_rel hc haddr),
    peerRemoteAs_congr (lookup_fc_rel hc hasn)]
  cases peerLocalAs loc' <;> cases peerAddr ipOf conn' <;> cases peerRemoteAs conn' <;>
    simp [pure, Except.pure, bind, Except.bind]
  have := (EquivFields_iff dto conn conn').mp hc "families" _ hfam
  simpa [Equiv] using this

/-! ### concrete witnesses (evaluated by the kernel) -/
namespace Witness

def dto : Table := [("addr", .forbidChange), ("asnum", .forbidChange), ("vrf", .forbidChange),
  ("families", .unite), ("svi", .forbidChange), ("ifname", .forbidChange)]

def st : Storage where
  allFqdns := ["a", "b"]
  neighbours := fun _ => []
  conns := fun _ _ => []
  known := fun _ => true
  ifaces := fun _ => ["lo0"]
  lagName := fun l => "Trunk" ++ l
  subifName := fun p s => p ++ "." ++ s
  sviName := fun s => "Vlan" ++ String.ofList (s.toList.drop 1)

/-- `a` has one address; the handler gives `b` the address `x` -/
def rule (x : String) : IndirectRule where
  isMatch := fun l r => l == "a" && r == "b"
  handler := fun _ _ => ⟨[("addr", .atom "s10.0.0.1")], [("addr", .atom x)], [("asnum", .atom "i65000")]⟩

def isOk {ε α : Type} : Except ε α → Bool
  | .ok _ => true
  | .error _ => false

theorem a_two_pairs : (executeIndirect dto st [rule "s10.0.0.2", rule "s10.0.0.3"] "a").toOption.map List.length = some 2 := by
  decide

theorem b_raises : isOk (executeIndirect dto st [rule "s10.0.0.2", rule "s10.0.0.3"] "b") = false := by
  decide

def tables : Tables := ⟨dto, dto, dto, dto, []⟩

/-- creates `Vlan100` on `a` (svi) -/
def ruleSvi : IndirectRule where
  isMatch := fun l r => l == "a" && r == "b"
  handler := fun _ _ => ⟨[("addr", .atom "s10.0.0.1"), ("svi", .atom "i100")], [("addr", .atom "s10.0.0.2")],
    [("asnum", .atom "i65000")]⟩

/-- names it (`ifname`) -/
def ruleIfname : IndirectRule where
  isMatch := fun l r => l == "a" && r == "b"
  handler := fun _ _ => ⟨[("addr", .atom "s10.0.1.1"), ("ifname", .atom "sVlan100")], [("addr", .atom "s10.0.1.2")],
    [("asnum", .atom "i65000")]⟩

theorem order_12_ok : isOk (executeFor tables st some ⟨[], [ruleSvi, ruleIfname], []⟩ "a") = true := by decide
theorem order_21_raises : isOk (executeFor tables st some ⟨[], [ruleIfname, ruleSvi], []⟩ "a") = false := by decide

end Witness
end Annet.Mesh
