/-
Helper lemmas for C11 (VLAN lists).
-/
import AnnetModel.Spec.VlanDev

namespace Annet.Vlan.Lemmas
open Annet.Vlan Annet.Vlan.Spec

/-! ### Python sets as lists -/

theorem mem_insertU (x v : Nat) (l : List Nat) : x ∈ insertU v l ↔ x = v ∨ x ∈ l := by
  induction l with
  | nil => simp [insertU]
  | cons y ys ih =>
    simp only [insertU]
    split
    · simp
    · split
      · rename_i h; subst h; simp
      · simp only [List.mem_cons, ih]; exact or_left_comm

theorem mem_norm (x : Nat) (l : List Nat) : x ∈ norm l ↔ x ∈ l := by
  induction l with
  | nil => simp [norm]
  | cons y ys ih =>
    have : norm (y :: ys) = insertU y (norm ys) := rfl
    rw [this, mem_insertU, ih]; simp

theorem insertU_ne_nil (v : Nat) (l : List Nat) : insertU v l ≠ [] := by
  cases l with
  | nil => simp [insertU]
  | cons y ys =>
    simp only [insertU]
    split
    · simp
    · split <;> simp

theorem norm_ne_nil {l : List Nat} (h : l ≠ []) : norm l ≠ [] := by
  cases l with
  | nil => exact absurd rfl h
  | cons y ys => exact insertU_ne_nil y (norm ys)

theorem mem_sdiff (x : Nat) (a b : List Nat) : x ∈ sdiff a b ↔ x ∈ a ∧ x ∉ b := by
  simp [sdiff]

theorem mem_sinter (x : Nat) (a b : List Nat) : x ∈ sinter a b ↔ x ∈ a ∧ x ∈ b := by
  simp [sinter]

theorem mem_interval (x a b : Nat) : x ∈ interval a b ↔ a ≤ x ∧ x ≤ b := by
  simp [interval, List.mem_range'_1]; omega

/-! ### `collapse_vlandb` -/

/-- `x` lies in one of the ranges -/
def Covers (rs : List (Nat × Nat)) (x : Nat) : Prop := ∃ r ∈ rs, r.1 ≤ x ∧ x ≤ r.2

theorem covers_nil (x : Nat) : ¬ Covers [] x := by simp [Covers]

theorem covers_cons (r : Nat × Nat) (rs : List (Nat × Nat)) (x : Nat) :
    Covers (r :: rs) x ↔ (r.1 ≤ x ∧ x ≤ r.2) ∨ Covers rs x := by
  simp [Covers]

theorem covers_append (rs rs' : List (Nat × Nat)) (x : Nat) :
    Covers (rs ++ rs') x ↔ Covers rs x ∨ Covers rs' x := by
  simp only [Covers, List.mem_append]
  constructor
  · rintro ⟨r, hr | hr, h⟩
    · exact .inl ⟨r, hr, h⟩
    · exact .inr ⟨r, hr, h⟩
  · rintro (⟨r, hr, h⟩ | ⟨r, hr, h⟩)
    · exact ⟨r, .inl hr, h⟩
    · exact ⟨r, .inr hr, h⟩

theorem collapseGo_wf (tiny : Bool) (lo hi : Nat) (vs : List Nat) (h : lo ≤ hi) :
    ∀ r ∈ collapseGo tiny lo hi vs, r.1 ≤ r.2 := by
  induction vs generalizing lo hi with
  | nil => simp [collapseGo]; exact h
  | cons v vs ih =>
    simp only [collapseGo]
    split
    · exact ih lo v (by omega)
    · split
      · intro r hr
        simp only [List.mem_cons] at hr
        rcases hr with rfl | rfl | hr
        · simp
        · simp
        · exact ih v v (Nat.le_refl v) r hr
      · intro r hr
        simp only [List.mem_cons] at hr
        rcases hr with rfl | hr
        · exact h
        · exact ih v v (Nat.le_refl v) r hr

theorem collapseGo_covers (tiny : Bool) (lo hi : Nat) (vs : List Nat) (h : lo ≤ hi) (x : Nat) :
    Covers (collapseGo tiny lo hi vs) x ↔ (lo ≤ x ∧ x ≤ hi) ∨ x ∈ vs := by
  induction vs generalizing lo hi with
  | nil => simp [collapseGo, Covers]
  | cons v vs ih =>
    simp only [collapseGo]
    split
    · rename_i h1
      rw [ih lo v (by omega)]; simp only [List.mem_cons]
      by_cases hx : x ∈ vs <;> simp only [hx, or_true, or_false] <;> omega
    · split
      · rename_i h1 h2
        simp only [Bool.and_eq_true, Bool.not_eq_true', decide_eq_true_eq] at h2
        rw [covers_cons, covers_cons, ih v v (Nat.le_refl v)]; simp only [List.mem_cons]
        by_cases hx : x ∈ vs <;> simp only [hx, or_true, or_false] <;> omega
      · rw [covers_cons, ih v v (Nat.le_refl v)]; simp only [List.mem_cons]
        by_cases hx : x ∈ vs <;> simp only [hx, or_true, or_false] <;> omega

theorem collapseGo_ne_nil (tiny : Bool) (lo hi : Nat) (vs : List Nat) : collapseGo tiny lo hi vs ≠ [] := by
  induction vs generalizing lo hi with
  | nil => simp [collapseGo]
  | cons v vs ih =>
    simp only [collapseGo]
    split
    · exact ih lo v
    · split <;> simp

theorem collapse_ok (tiny : Bool) {S : List Nat} (h : S ≠ []) :
    ∃ rs, collapse tiny S = .ok rs ∧ rs ≠ [] ∧ (∀ r ∈ rs, r.1 ≤ r.2) ∧ ∀ x, Covers rs x ↔ x ∈ S := by
  unfold collapse
  have h1 : S.isEmpty = false := by cases S <;> simp_all
  simp only [h1]
  have hn := norm_ne_nil h
  cases hS : norm S with
  | nil => exact absurd hS hn
  | cons v vs =>
    refine ⟨collapseGo tiny v v vs, rfl, ?_, collapseGo_wf tiny v v vs (Nat.le_refl v), ?_⟩
    · exact collapseGo_ne_nil tiny v v vs
    · intro x
      rw [collapseGo_covers tiny v v vs (Nat.le_refl v), ← mem_norm x S, hS]
      simp only [List.mem_cons]
      by_cases hx : x ∈ vs <;> simp only [hx, or_true, or_false] <;> omega

theorem collapse_nil (tiny : Bool) : collapse tiny [] = .error .assertion := rfl

/-! ### `_chunked` -/

theorem chunkedAux_flatten {α : Type} (n : Nat) (hn : 0 < n) (fuel : Nat) (l : List α)
    (h : l.length ≤ fuel) : (chunkedAux n fuel l).flatten = l := by
  induction fuel generalizing l with
  | zero =>
    have : l = [] := List.eq_nil_of_length_eq_zero (by omega)
    subst this; simp [chunkedAux]
  | succ fuel ih =>
    simp only [chunkedAux]
    split
    · rename_i he; simp only [List.isEmpty_iff] at he; subst he; simp
    · rename_i he
      have hl : l ≠ [] := by simpa [List.isEmpty_iff] using he
      have hpos : 0 < l.length := List.length_pos_iff.mpr hl
      rw [List.flatten_cons, ih (l.drop n) (by simp only [List.length_drop]; omega), List.take_append_drop]

theorem chunkedAux_ne_nil {α : Type} (n : Nat) (hn : 0 < n) (fuel : Nat) (l : List α) :
    ∀ c ∈ chunkedAux n fuel l, c ≠ [] := by
  induction fuel generalizing l with
  | zero => simp [chunkedAux]
  | succ fuel ih =>
    simp only [chunkedAux]
    split
    · simp
    · rename_i he
      have hl : l ≠ [] := by simpa [List.isEmpty_iff] using he
      intro c hc
      simp only [List.mem_cons] at hc
      rcases hc with rfl | hc
      · cases l with
        | nil => exact absurd rfl hl
        | cons a as =>
          cases n with
          | zero => omega
          | succ m => simp
      · exact ih _ c hc

theorem chunked_flatten {α : Type} (n : Nat) (hn : 0 < n) (l : List α) : (chunked n l).flatten = l :=
  chunkedAux_flatten n hn l.length l (Nat.le_refl _)

theorem chunked_ne_nil {α : Type} (n : Nat) (hn : 0 < n) (l : List α) : ∀ c ∈ chunked n l, c ≠ [] :=
  chunkedAux_ne_nil n hn l.length l

theorem mem_chunked {α : Type} (n : Nat) (hn : 0 < n) (l : List α) (x : α) :
    x ∈ l ↔ ∃ c ∈ chunked n l, x ∈ c := by
  conv => lhs; rw [← chunked_flatten n hn l]
  simp [List.mem_flatten]

/-! ### expanding / reading rendered ranges -/

theorem renderHs_cons (r : Nat × Nat) (rs : List (Nat × Nat)) : renderHs (r :: rs) = renderH r ++ renderHs rs := by
  simp [renderHs]

theorem hExpandGo_render (all : HRow) (prev : Option HTok) (rs : List (Nat × Nat))
    (h : ∀ r ∈ rs, r.1 ≤ r.2) :
    ∃ out, hExpandGo all prev (renderHs rs) = .ok out ∧ ∀ x, x ∈ out ↔ Covers rs x := by
  induction rs generalizing prev with
  | nil => exact ⟨[], by simp [renderHs, hExpandGo], by simp [Covers]⟩
  | cons r rs ih =>
    obtain ⟨lo, hi⟩ := r
    have hle : lo ≤ hi := h (lo, hi) (by simp)
    have h' : ∀ r ∈ rs, r.1 ≤ r.2 := fun r hr => h r (by simp [hr])
    rw [renderHs_cons]
    by_cases heq : lo = hi
    · subst heq
      obtain ⟨out, ho, hm⟩ := ih (some (.n lo)) h'
      refine ⟨lo :: out, ?_, ?_⟩
      · simp [renderH, hExpandGo, ho]
        rfl
      · intro x; rw [covers_cons, List.mem_cons, hm]
        by_cases hx : Covers rs x <;> simp only [hx, or_true, or_false] <;> omega
    · obtain ⟨out, ho, hm⟩ := ih (some (.n hi)) h'
      refine ⟨lo :: (List.range' (lo + 1) (hi - (lo + 1)) ++ (hi :: out)), ?_, ?_⟩
      · simp [renderH, heq, hExpandGo, HTok.int, ho]
        rfl
      · intro x; rw [covers_cons]
        simp only [List.mem_cons, List.mem_append, List.mem_range'_1, hm]
        by_cases hx : Covers rs x <;> simp only [hx, or_true, or_false] <;> omega

theorem renderHs_head (rs : List (Nat × Nat)) : renderHs rs = [] ∨ ∃ a t, renderHs rs = .n a :: t := by
  cases rs with
  | nil => left; simp [renderHs]
  | cons r rs =>
    right
    rw [renderHs_cons]
    by_cases h : r.1 = r.2 <;> simp [renderH, h]

theorem readH_n_cons (a : Nat) (rest : HRow) (h : ∀ b rest', rest ≠ .to :: .n b :: rest') :
    readH (.n a :: rest) = (readH rest).map (a :: ·) := by
  match rest, h with
  | [], _ => simp [readH]
  | .w s :: rest', _ => simp [readH]
  | .n v :: rest', _ => simp [readH]
  | [.to], _ => simp [readH]
  | .to :: .w s :: rest', _ => simp [readH]
  | .to :: .to :: rest', _ => simp [readH]
  | .to :: .n b :: rest', h => exact absurd rfl (h b rest')

theorem readH_render (rs : List (Nat × Nat)) (h : ∀ r ∈ rs, r.1 ≤ r.2) :
    ∃ out, readH (renderHs rs) = some out ∧ ∀ x, x ∈ out ↔ Covers rs x := by
  induction rs with
  | nil => exact ⟨[], by simp [renderHs, readH], by simp [Covers]⟩
  | cons r rs ih =>
    obtain ⟨lo, hi⟩ := r
    have hle : lo ≤ hi := h (lo, hi) (by simp)
    have h' : ∀ r ∈ rs, r.1 ≤ r.2 := fun r hr => h r (by simp [hr])
    obtain ⟨out, ho, hm⟩ := ih h'
    rw [renderHs_cons]
    by_cases heq : lo = hi
    · subst heq
      refine ⟨lo :: out, ?_, ?_⟩
      · have : renderH (lo, lo) ++ renderHs rs = .n lo :: renderHs rs := by simp [renderH]
        rw [this, readH_n_cons, ho]; rfl
        intro b rest' hc
        rcases renderHs_head rs with h0 | ⟨a, t, h0⟩ <;> rw [h0] at hc <;> simp at hc
      · intro x; rw [covers_cons, List.mem_cons, hm]
        by_cases hx : Covers rs x <;> simp only [hx, or_true, or_false] <;> omega
    · refine ⟨interval lo hi ++ out, ?_, ?_⟩
      · have : renderH (lo, hi) ++ renderHs rs = .n lo :: .to :: .n hi :: renderHs rs := by simp [renderH, heq]
        rw [this]
        have hlt : lo < hi := by omega
        simp [readH, hlt, ho]
      · intro x; rw [covers_cons]
        simp only [List.mem_append, mem_interval, hm]

theorem ciscoExpand_render (rs : List (Nat × Nat)) (h : ∀ r ∈ rs, r.1 ≤ r.2) :
    ∃ out, ciscoExpand (rs.map renderC) = .ok out ∧ ∀ x, x ∈ out ↔ Covers rs x := by
  induction rs with
  | nil => exact ⟨[], by simp [ciscoExpand], by simp [Covers]⟩
  | cons r rs ih =>
    obtain ⟨lo, hi⟩ := r
    have hle : lo ≤ hi := h (lo, hi) (by simp)
    have h' : ∀ r ∈ rs, r.1 ≤ r.2 := fun r hr => h r (by simp [hr])
    obtain ⟨out, ho, hm⟩ := ih h'
    by_cases heq : lo = hi
    · subst heq
      refine ⟨lo :: out, ?_, ?_⟩
      · simp [renderC, ciscoExpand, ho]; rfl
      · intro x; rw [covers_cons, List.mem_cons, hm]
        by_cases hx : Covers rs x <;> simp only [hx, or_true, or_false] <;> omega
    · refine ⟨List.range' lo (hi + 1 - lo) ++ out, ?_, ?_⟩
      · simp [renderC, heq, ciscoExpand, ho]; rfl
      · intro x; rw [covers_cons]
        simp only [List.mem_append, List.mem_range'_1, hm]
        by_cases hx : Covers rs x <;> simp only [hx, or_true, or_false] <;> omega

theorem readC_render (rs : List (Nat × Nat)) (h : ∀ r ∈ rs, r.1 ≤ r.2) :
    ∃ out, readC (rs.map renderC) = some out ∧ ∀ x, x ∈ out ↔ Covers rs x := by
  induction rs with
  | nil => exact ⟨[], by simp [readC], by simp [Covers]⟩
  | cons r rs ih =>
    obtain ⟨lo, hi⟩ := r
    have hle : lo ≤ hi := h (lo, hi) (by simp)
    have h' : ∀ r ∈ rs, r.1 ≤ r.2 := fun r hr => h r (by simp [hr])
    obtain ⟨out, ho, hm⟩ := ih h'
    by_cases heq : lo = hi
    · subst heq
      refine ⟨lo :: out, ?_, ?_⟩
      · simp [renderC, readC, ho]
      · intro x; rw [covers_cons, List.mem_cons, hm]
        by_cases hx : Covers rs x <;> simp only [hx, or_true, or_false] <;> omega
    · refine ⟨interval lo hi ++ out, ?_, ?_⟩
      · have hlt : lo < hi := by omega
        simp [renderC, heq, readC, hlt, ho]
      · intro x; rw [covers_cons]
        simp only [List.mem_append, mem_interval, hm]

/-! ### the device: what a list of remove / add commands does, in any order -/

section Dev
variable {ρ : Type} (interp : ρ → Option Act)

/-- some command of `cs` removes `v` -/
def RemU (cs : List ρ) (v : Nat) : Prop := ∃ c ∈ cs, ∃ X, interp c = some (.rem X) ∧ v ∈ X
/-- some command of `cs` adds `v` -/
def AddU (cs : List ρ) (v : Nat) : Prop := ∃ c ∈ cs, ∃ Y, interp c = some (.add Y) ∧ v ∈ Y
def OnlyRemAdd (cs : List ρ) : Prop :=
  ∀ c ∈ cs, (∃ X, interp c = some (.rem X)) ∨ (∃ Y, interp c = some (.add Y))

theorem remU_cons_rem {c : ρ} {X : List Nat} (h : interp c = some (.rem X)) (cs : List ρ) (v : Nat) :
    RemU interp (c :: cs) v ↔ v ∈ X ∨ RemU interp cs v := by
  constructor
  · rintro ⟨c', hc', X', hi, hv⟩
    rcases List.mem_cons.mp hc' with rfl | hc'
    · rw [h] at hi; cases hi; exact .inl hv
    · exact .inr ⟨c', hc', X', hi, hv⟩
  · rintro (hv | ⟨c', hc', X', hi, hv⟩)
    · exact ⟨c, by simp, X, h, hv⟩
    · exact ⟨c', by simp [hc'], X', hi, hv⟩

theorem remU_cons_add {c : ρ} {Y : List Nat} (h : interp c = some (.add Y)) (cs : List ρ) (v : Nat) :
    RemU interp (c :: cs) v ↔ RemU interp cs v := by
  constructor
  · rintro ⟨c', hc', X', hi, hv⟩
    rcases List.mem_cons.mp hc' with rfl | hc'
    · rw [h] at hi; cases hi
    · exact ⟨c', hc', X', hi, hv⟩
  · rintro ⟨c', hc', X', hi, hv⟩
    exact ⟨c', by simp [hc'], X', hi, hv⟩

theorem addU_cons_add {c : ρ} {Y : List Nat} (h : interp c = some (.add Y)) (cs : List ρ) (v : Nat) :
    AddU interp (c :: cs) v ↔ v ∈ Y ∨ AddU interp cs v := by
  constructor
  · rintro ⟨c', hc', Y', hi, hv⟩
    rcases List.mem_cons.mp hc' with rfl | hc'
    · rw [h] at hi; cases hi; exact .inl hv
    · exact .inr ⟨c', hc', Y', hi, hv⟩
  · rintro (hv | ⟨c', hc', Y', hi, hv⟩)
    · exact ⟨c, by simp, Y, h, hv⟩
    · exact ⟨c', by simp [hc'], Y', hi, hv⟩

theorem addU_cons_rem {c : ρ} {X : List Nat} (h : interp c = some (.rem X)) (cs : List ρ) (v : Nat) :
    AddU interp (c :: cs) v ↔ AddU interp cs v := by
  constructor
  · rintro ⟨c', hc', Y', hi, hv⟩
    rcases List.mem_cons.mp hc' with rfl | hc'
    · rw [h] at hi; cases hi
    · exact ⟨c', hc', Y', hi, hv⟩
  · rintro ⟨c', hc', Y', hi, hv⟩
    exact ⟨c', by simp [hc'], Y', hi, hv⟩

theorem onlyRemAdd_tail {c : ρ} {cs : List ρ} (h : OnlyRemAdd interp (c :: cs)) : OnlyRemAdd interp cs :=
  fun c' hc' => h c' (by simp [hc'])

/-- the final state of a run of remove / add commands, by membership -/
theorem runDev_mem (cs : List ρ) (S : List Nat) (h1 : OnlyRemAdd interp cs)
    (h2 : ∀ v, RemU interp cs v → ¬ AddU interp cs v) :
    ∃ S', runDev interp cs S = some S' ∧
      ∀ v, v ∈ S' ↔ (v ∈ S ∧ ¬ RemU interp cs v) ∨ AddU interp cs v := by
  induction cs generalizing S with
  | nil => exact ⟨S, rfl, fun v => by simp [RemU, AddU]⟩
  | cons c cs ih =>
    rcases h1 c (by simp) with ⟨X, hX⟩ | ⟨Y, hY⟩
    · have h2' : ∀ v, RemU interp cs v → ¬ AddU interp cs v := fun v hr ha =>
        h2 v ((remU_cons_rem interp hX cs v).mpr (.inr hr)) ((addU_cons_rem interp hX cs v).mpr ha)
      obtain ⟨S', hr, hm⟩ := ih (Act.apply (.rem X) S) (onlyRemAdd_tail interp h1) h2'
      refine ⟨S', by simp [runDev, hX, hr], fun v => ?_⟩
      rw [hm v, remU_cons_rem interp hX, addU_cons_rem interp hX]
      simp only [Act.apply, List.mem_filter, List.contains_eq_mem, Bool.not_eq_true', decide_eq_false_iff_not,
        not_or]
      constructor
      · rintro (⟨⟨a, b⟩, c⟩ | d)
        · exact .inl ⟨a, b, c⟩
        · exact .inr d
      · rintro (⟨a, b, c⟩ | d)
        · exact .inl ⟨⟨a, b⟩, c⟩
        · exact .inr d
    · have h2' : ∀ v, RemU interp cs v → ¬ AddU interp cs v := fun v hr ha =>
        h2 v ((remU_cons_add interp hY cs v).mpr hr) ((addU_cons_add interp hY cs v).mpr (.inr ha))
      obtain ⟨S', hr, hm⟩ := ih (Act.apply (.add Y) S) (onlyRemAdd_tail interp h1) h2'
      refine ⟨S', by simp [runDev, hY, hr], fun v => ?_⟩
      rw [hm v, remU_cons_add interp hY, addU_cons_add interp hY]
      simp only [Act.apply, List.mem_append]
      have hy : v ∈ Y → ¬ RemU interp cs v := fun hv hr =>
        h2 v ((remU_cons_add interp hY cs v).mpr hr) ((addU_cons_add interp hY cs v).mpr (.inl hv))
      constructor
      · rintro (⟨a | a, b⟩ | d)
        · exact .inl ⟨a, b⟩
        · exact .inr (.inl a)
        · exact .inr (.inr d)
      · rintro (⟨a, b⟩ | a | d)
        · exact .inl ⟨.inl a, b⟩
        · exact .inl ⟨.inr a, hy a⟩
        · exact .inr d

/-- nothing that no command removes ever disappears -/
theorem traceDev_keeps (cs : List ρ) (S : List Nat) (h1 : OnlyRemAdd interp cs) :
    ∃ T, traceDev interp cs S = some T ∧
      ∀ st ∈ T, ∀ v, v ∈ S → ¬ RemU interp cs v → v ∈ st := by
  induction cs generalizing S with
  | nil => exact ⟨[S], rfl, fun st hst v hv _ => by simp at hst; subst hst; exact hv⟩
  | cons c cs ih =>
    rcases h1 c (by simp) with ⟨X, hX⟩ | ⟨Y, hY⟩
    · obtain ⟨T, ht, hk⟩ := ih (Act.apply (.rem X) S) (onlyRemAdd_tail interp h1)
      refine ⟨S :: T, by simp [traceDev, hX, ht], fun st hst v hv hn => ?_⟩
      rw [remU_cons_rem interp hX] at hn
      rcases List.mem_cons.mp hst with rfl | hst
      · exact hv
      · refine hk st hst v ?_ (fun h => hn (.inr h))
        simp only [Act.apply, List.mem_filter, List.contains_eq_mem, Bool.not_eq_true', decide_eq_false_iff_not]
        exact ⟨hv, fun h => hn (.inl h)⟩
    · obtain ⟨T, ht, hk⟩ := ih (Act.apply (.add Y) S) (onlyRemAdd_tail interp h1)
      refine ⟨S :: T, by simp [traceDev, hY, ht], fun st hst v hv hn => ?_⟩
      rw [remU_cons_add interp hY] at hn
      rcases List.mem_cons.mp hst with rfl | hst
      · exact hv
      · exact hk st hst v (by simp [Act.apply, hv]) hn

theorem remU_perm {cs cs' : List ρ} (h : cs'.Perm cs) (v : Nat) : RemU interp cs' v ↔ RemU interp cs v := by
  constructor
  · rintro ⟨c, hc, r⟩; exact ⟨c, h.mem_iff.mp hc, r⟩
  · rintro ⟨c, hc, r⟩; exact ⟨c, h.mem_iff.mpr hc, r⟩

theorem addU_perm {cs cs' : List ρ} (h : cs'.Perm cs) (v : Nat) : AddU interp cs' v ↔ AddU interp cs v := by
  constructor
  · rintro ⟨c, hc, r⟩; exact ⟨c, h.mem_iff.mp hc, r⟩
  · rintro ⟨c, hc, r⟩; exact ⟨c, h.mem_iff.mpr hc, r⟩

/-- The vendor-independent core: commands that only remove ids of `Sold \ Snew` and only add ids of
`Snew \ Sold`, and together cover both differences, reach exactly `Snew` and never lose a common id —
in whatever order they are executed. -/
theorem run_exact (cmds : List ρ) (Sold Snew R A : List Nat)
    (hcl : ∀ c ∈ cmds, (∃ X, interp c = some (.rem X) ∧ ∀ v ∈ X, v ∈ R) ∨
                        (∃ Y, interp c = some (.add Y) ∧ ∀ v ∈ Y, v ∈ A))
    (hR : ∀ v ∈ R, RemU interp cmds v) (hA : ∀ v ∈ A, AddU interp cmds v)
    (hRs : ∀ v, v ∈ R ↔ v ∈ Sold ∧ v ∉ Snew) (hAs : ∀ v, v ∈ A ↔ v ∈ Snew ∧ v ∉ Sold) :
    ∀ cs, cs.Perm cmds → EndsIn interp cs Sold Snew ∧ KeepsCommon interp cs Sold Snew := by
  intro cs hp
  have h1 : OnlyRemAdd interp cs := fun c hc => by
    rcases hcl c (hp.mem_iff.mp hc) with ⟨X, hX, _⟩ | ⟨Y, hY, _⟩
    · exact .inl ⟨X, hX⟩
    · exact .inr ⟨Y, hY⟩
  have hrem : ∀ v, RemU interp cs v ↔ v ∈ R := fun v => by
    rw [remU_perm interp hp]
    constructor
    · rintro ⟨c, hc, X, hi, hv⟩
      rcases hcl c hc with ⟨X', hX', hsub⟩ | ⟨Y', hY', _⟩
      · rw [hX'] at hi; cases hi; exact hsub v hv
      · rw [hY'] at hi; cases hi
    · exact hR v
  have hadd : ∀ v, AddU interp cs v ↔ v ∈ A := fun v => by
    rw [addU_perm interp hp]
    constructor
    · rintro ⟨c, hc, Y, hi, hv⟩
      rcases hcl c hc with ⟨X', hX', _⟩ | ⟨Y', hY', hsub⟩
      · rw [hX'] at hi; cases hi
      · rw [hY'] at hi; cases hi; exact hsub v hv
    · exact hA v
  have h2 : ∀ v, RemU interp cs v → ¬ AddU interp cs v := fun v hr ha => by
    have := (hRs v).mp ((hrem v).mp hr); have := (hAs v).mp ((hadd v).mp ha); simp_all
  constructor
  · obtain ⟨S', hr, hm⟩ := runDev_mem interp cs Sold h1 h2
    refine ⟨S', hr, fun v => ?_⟩
    rw [hm v, hrem v, hadd v, hRs v, hAs v]
    by_cases a : v ∈ Sold <;> by_cases b : v ∈ Snew <;> simp [a, b]
  · obtain ⟨T, ht, hk⟩ := traceDev_keeps interp cs Sold h1
    refine ⟨T, ht, fun st hst v hv hn => hk st hst v hv (fun hr => ?_)⟩
    exact ((hRs v).mp ((hrem v).mp hr)).2 hn

/-- a single clearing command when the new set is empty -/
theorem clear_exact (c : ρ) (hc : interp c = some .clear) (Sold Snew : List Nat) (hn : Snew = []) :
    ∀ cs, cs.Perm [c] → EndsIn interp cs Sold Snew ∧ KeepsCommon interp cs Sold Snew := by
  intro cs hp
  have : cs = [c] := List.perm_singleton.mp hp
  subst this hn
  constructor
  · exact ⟨[], by simp [runDev, hc, Act.apply], fun v => Iff.rfl⟩
  · exact ⟨[Sold, []], by simp [traceDev, hc, Act.apply], fun st _ v _ hv => by simp at hv⟩

/-- no command at all when nothing changes -/
theorem nil_exact (Sold Snew : List Nat) (h : ∀ v, v ∈ Sold ↔ v ∈ Snew) :
    ∀ cs : List ρ, cs.Perm [] → EndsIn interp cs Sold Snew ∧ KeepsCommon interp cs Sold Snew := by
  intro cs hp
  have : cs = [] := List.perm_nil.mp hp
  subst this
  exact ⟨⟨Sold, rfl, h⟩, ⟨[Sold], rfl, fun st hst v hv _ => by simp at hst; subst hst; exact hv⟩⟩

end Dev

/-! ### lines, buckets and the key lemma -/

theorem mem_setOf {ρ : Type} (vl : ρ → List Nat) (rows : List ρ) (v : Nat) :
    v ∈ setOf vl rows ↔ ∃ r ∈ rows, v ∈ vl r := by
  simp [setOf, List.mem_flatMap]

section Rows
variable {ρ : Type} [BEq ρ] [LawfulBEq ρ]

theorem mem_filter_notin (a b : List ρ) (r : ρ) :
    r ∈ a.filter (fun x => !b.contains x) ↔ r ∈ a ∧ r ∉ b := by
  simp [List.mem_filter]

theorem mem_filter_in (a b : List ρ) (r : ρ) :
    r ∈ a.filter (fun x => b.contains x) ↔ r ∈ a ∧ r ∈ b := by
  simp [List.mem_filter]

/-- Key lemma: when the lines of `a` are pairwise disjoint, the set difference computed from the
*changed* lines only (lines of `a` not in `b`, minus lines of `b` not in `a`) is the difference of
the whole sets. -/
theorem diff_rows (vl : ρ → List Nat) (a b : List ρ) (ha : Disj vl a) (v : Nat) :
    v ∈ sdiff (setOf vl (a.filter fun x => !b.contains x)) (setOf vl (b.filter fun x => !a.contains x))
      ↔ v ∈ setOf vl a ∧ v ∉ setOf vl b := by
  rw [mem_sdiff, mem_setOf, mem_setOf, mem_setOf, mem_setOf]
  constructor
  · rintro ⟨⟨r, hr, hv⟩, hn⟩
    rw [mem_filter_notin] at hr
    refine ⟨⟨r, hr.1, hv⟩, ?_⟩
    rintro ⟨r', hr', hv'⟩
    by_cases h : r' ∈ a
    · have hne : r ≠ r' := fun e => hr.2 (e ▸ hr')
      exact ha r hr.1 r' h hne v hv hv'
    · exact hn ⟨r', (mem_filter_notin b a r').mpr ⟨hr', h⟩, hv'⟩
  · rintro ⟨⟨r, hr, hv⟩, hn⟩
    refine ⟨⟨r, (mem_filter_notin a b r).mpr ⟨hr, fun h => hn ⟨r, h, hv⟩⟩, hv⟩, ?_⟩
    rintro ⟨r', hr', hv'⟩
    exact hn ⟨r', ((mem_filter_notin b a r').mp hr').1, hv'⟩

theorem filter_split_nil (a b : List ρ) (h1 : a.filter (fun x => !b.contains x) = [])
    (h2 : a.filter (fun x => b.contains x) = []) : a = [] := by
  apply List.eq_nil_iff_forall_not_mem.mpr
  intro x hx
  by_cases h : x ∈ b
  · have : x ∈ a.filter (fun x => b.contains x) := (mem_filter_in a b x).mpr ⟨hx, h⟩
    rw [h2] at this; simp at this
  · have : x ∈ a.filter (fun x => !b.contains x) := (mem_filter_notin a b x).mpr ⟨hx, h⟩
    rw [h1] at this; simp at this

end Rows

/-! ### chunks of collapsed ranges -/

theorem covers_mono {c rs : List (Nat × Nat)} (h : ∀ r ∈ c, r ∈ rs) (x : Nat) : Covers c x → Covers rs x := by
  rintro ⟨r, hr, hx⟩; exact ⟨r, h r hr, hx⟩

/-- A reader `rd` of rendered range lists that is right on well-formed lists, and a way `split` to cut
the collapsed list into non-empty consecutive pieces: every piece reads back as a part of `X`, and
together the pieces give all of `X`. -/
theorem chunks_spec (rd : List (Nat × Nat) → Option (List Nat))
    (hrd : ∀ c, (∀ r ∈ c, r.1 ≤ r.2) → ∃ out, rd c = some out ∧ ∀ x, x ∈ out ↔ Covers c x)
    (split : List (Nat × Nat) → List (List (Nat × Nat)))
    (hsplit : ∀ l, l ≠ [] → (split l).flatten = l ∧ ∀ c ∈ split l, c ≠ [])
    (tiny : Bool) (X : List Nat) (hX : X ≠ []) :
    ∃ rs, collapse tiny X = .ok rs ∧
      (∀ c ∈ split rs, c ≠ [] ∧ ∃ out, rd c = some out ∧ ∀ v ∈ out, v ∈ X) ∧
      (∀ v ∈ X, ∃ c ∈ split rs, ∃ out, rd c = some out ∧ v ∈ out) := by
  obtain ⟨rs, hc, hne, hwf, hcov⟩ := collapse_ok tiny hX
  obtain ⟨hfl, hcne⟩ := hsplit rs hne
  have hsub : ∀ c ∈ split rs, ∀ r ∈ c, r ∈ rs := fun c hc r hr => by
    rw [← hfl]; exact List.mem_flatten.mpr ⟨c, hc, hr⟩
  refine ⟨rs, hc, ?_, ?_⟩
  · intro c hcm
    obtain ⟨out, ho, hm⟩ := hrd c (fun r hr => hwf r (hsub c hcm r hr))
    exact ⟨hcne c hcm, out, ho, fun v hv => (hcov v).mp (covers_mono (hsub c hcm) v ((hm v).mp hv))⟩
  · intro v hv
    obtain ⟨r, hr, hx⟩ := (hcov v).mpr hv
    rw [← hfl] at hr
    obtain ⟨c, hcm, hrc⟩ := List.mem_flatten.mp hr
    obtain ⟨out, ho, hm⟩ := hrd c (fun r hr => hwf r (hsub c hcm r hr))
    exact ⟨c, hcm, out, ho, (hm v).mpr ⟨r, hrc, hx⟩⟩

theorem split_chunked (n : Nat) (hn : 0 < n) :
    ∀ l : List (Nat × Nat), l ≠ [] → (chunked n l).flatten = l ∧ ∀ c ∈ chunked n l, c ≠ [] :=
  fun l _ => ⟨chunked_flatten n hn l, chunked_ne_nil n hn l⟩

theorem split_one : ∀ l : List (Nat × Nat), l ≠ [] → ([l] : List (List (Nat × Nat))).flatten = l ∧ ∀ c ∈ [l], c ≠ [] :=
  fun l h => ⟨by simp, fun c hc => by simp at hc; subst hc; exact h⟩

/-! ### Huawei commands as the device reads them -/

theorem renderHs_numTo (c : List (Nat × Nat)) : ∀ t ∈ renderHs c, t.isNumTo = true := by
  induction c with
  | nil => simp [renderHs]
  | cons r rs ih =>
    rw [renderHs_cons]
    intro t ht
    rcases List.mem_append.mp ht with h | h
    · by_cases e : r.1 = r.2 <;> simp [renderH, e] at h <;> rcases h with rfl | rfl | rfl <;> rfl
    · exact ih t h

theorem renderHs_ne_nil {c : List (Nat × Nat)} (h : c ≠ []) : renderHs c ≠ [] := by
  cases c with
  | nil => exact absurd rfl h
  | cons r rs =>
    rw [renderHs_cons]
    by_cases e : r.1 = r.2 <;> simp [renderH, e]

theorem interpH_rem (d : HDev) (toks : HRow) (hne : toks ≠ [])
    (hclear : d.clearCmd ≠ some (.w "undo" :: (d.pfx ++ toks))) :
    interpH d (.w "undo" :: (d.pfx ++ toks)) = (readH toks).map .rem := by
  unfold interpH
  have h1 : ¬ (some (HTok.w "undo" :: (d.pfx ++ toks)) = d.clearCmd) := fun h => hclear h.symm
  simp only [h1, if_false]
  have h2 : d.pfx.isPrefixOf (d.pfx ++ toks) = true := by simp
  have h3 : (d.pfx ++ toks).drop d.pfx.length = toks := by simp
  simp [h2, h3, hne]

theorem interpH_add (d : HDev) (toks : HRow) (hne : toks ≠ [])
    (hhead : (d.pfx ++ toks).head? ≠ some (.w "undo"))
    (hclear : d.clearCmd ≠ some (d.pfx ++ toks)) :
    interpH d (d.pfx ++ toks) = (readH toks).map .add := by
  unfold interpH
  have h1 : ¬ (some (d.pfx ++ toks) = d.clearCmd) := fun h => hclear h.symm
  simp only [h1, if_false]
  have h2 : d.pfx.isPrefixOf (d.pfx ++ toks) = true := by simp
  have h3 : (d.pfx ++ toks).drop d.pfx.length = toks := by simp
  cases hc : d.pfx ++ toks with
  | nil => simp at hc; exact absurd hc.2 hne
  | cons t rest =>
    rw [hc] at hhead h2 h3
    have ht : t ≠ .w "undo" := fun e => hhead (by simp [e])
    simp [ht, h2, h3, hne]


/-! ### Huawei `_process_vlandb` -/

@[simp] theorem except_bind_ok {ε α β : Type} (a : α) (f : α → Except ε β) : (Except.ok a >>= f) = f a := rfl
@[simp] theorem except_map_ok {ε α β : Type} (f : α → β) (a : α) : f <$> (Except.ok a : Except ε α) = Except.ok (f a) := rfl
@[simp] theorem except_pure {ε α : Type} (a : α) : (pure a : Except ε α) = Except.ok a := rfl
@[simp] theorem except_map'_ok {ε α β : Type} (f : α → β) (a : α) : (Except.ok a : Except ε α).map f = Except.ok (f a) := rfl

theorem setOf_cons {ρ : Type} (vl : ρ → List Nat) (r : ρ) (rs : List ρ) : setOf vl (r :: rs) = vl r ++ setOf vl rs := by
  simp [setOf]

theorem hParseActions_ok (p : HRow) (vl : HRow → List Nat) (rows : List HRow)
    (h : ∀ r ∈ rows, hParseVlancfg r = .ok (p, vl r)) :
    hParseActions rows = .ok (if rows.isEmpty then none else some p, setOf vl rows) := by
  induction rows with
  | nil => simp [hParseActions, setOf]
  | cons r rs ih =>
    have h' : ∀ r ∈ rs, hParseVlancfg r = .ok (p, vl r) := fun r hr => h r (by simp [hr])
    simp only [hParseActions, h r (by simp), ih h', except_bind_ok, except_pure, setOf_cons]
    cases rs <;> simp

/-- the commands one half of `_process_vlandb` yields for the set `X` (removals or additions) -/
theorem part_spec (dev : HDev) (multi : Bool) (chunk : Nat) (hchunk : multi = true → 0 < chunk) (X : List Nat)
    (mk : HRow → HRow) (act : List Nat → Act) (direct : Bool)
    (hmk : X ≠ [] → ∀ toks, toks ≠ [] → (∀ t ∈ toks, t.isNumTo = true) →
      interpH dev (mk toks) = (readH toks).map act) :
    ∃ ys : List (Yield HRow Unit), hPart multi chunk direct mk X = Except.ok ys ∧
      (∀ y ∈ ys, ∃ out, interpH dev y.row = some (act out) ∧ ∀ v ∈ out, v ∈ X) ∧
      (∀ v ∈ X, ∃ y ∈ ys, ∃ out, interpH dev y.row = some (act out) ∧ v ∈ out) := by
  by_cases hX : X = []
  · subst hX; exact ⟨[], by simp [hPart], by simp, by simp⟩
  · have hXe : X.isEmpty = false := by cases X <;> simp_all
    obtain ⟨rs, hc, hcl, hcov⟩ := chunks_spec (fun c => readH (renderHs c)) readH_render
      (fun l => if multi then chunked chunk l else [l])
      (fun l hl => by
        cases multi with
        | true => exact split_chunked chunk (hchunk rfl) l hl
        | false => exact split_one l hl) true X hX
    refine ⟨_, by simp only [hPart, hXe, hc, except_map'_ok]; rfl, ?_, ?_⟩
    · intro y hy
      simp only [List.mem_map] at hy
      obtain ⟨c, hcm, rfl⟩ := hy
      obtain ⟨hne, out, ho, hsub⟩ := hcl c hcm
      refine ⟨out, ?_, hsub⟩
      simp only []
      rw [hmk hX (renderHs c) (renderHs_ne_nil hne) (renderHs_numTo c), ho]; rfl
    · intro v hv
      obtain ⟨c, hcm, out, ho, hvo⟩ := hcov v hv
      have hne := (hcl c hcm).1
      refine ⟨⟨direct, mk (renderHs c), none⟩, List.mem_map.mpr ⟨c, hcm, rfl⟩, out, ?_, hvo⟩
      simp only []
      rw [hmk hX (renderHs c) (renderHs_ne_nil hne) (renderHs_numTo c), ho]; rfl


theorem setOf_nil {ρ : Type} (vl : ρ → List Nat) : setOf vl ([] : List ρ) = [] := rfl

theorem sdiff_nil_left (b : List Nat) : sdiff [] b = [] := rfl

theorem setOf_ne_nil {ρ : Type} (vl : ρ → List Nat) {rows : List ρ} (h : setOf vl rows ≠ []) : rows ≠ [] := by
  intro e; subst e; exact h rfl

theorem sdiff_ne_nil {a b : List Nat} (h : sdiff a b ≠ []) : a ≠ [] := by
  intro e; subst e; exact h rfl

theorem head?_append_ne {p t : HRow} {x : HTok} (hp : p.head? ≠ some x) (ht : t.head? ≠ some x) :
    (p ++ t).head? ≠ some x := by
  cases p with
  | nil => simpa using ht
  | cons a as => simpa using hp

theorem numTo_head_ne_undo {t : HRow} (h : ∀ x ∈ t, x.isNumTo = true) : t.head? ≠ some (.w "undo") := by
  cases t with
  | nil => simp
  | cons a as =>
    intro e
    simp at e
    have := h a (by simp)
    rw [e] at this
    simp [HTok.isNumTo] at this

theorem hProcess_main (rev : HRow) (d : Buckets HRow) (multi multiAll : Bool) (chunk : Nat) (p : HRow)
    (vl : HRow → List Nat) (dev : HDev)
    (haff : d.affected = [])
    (hA : ∀ r ∈ d.added, hParseVlancfg r = .ok (p, vl r))
    (hR : ∀ r ∈ d.removed, hParseVlancfg r = .ok (p, vl r))
    (hc2 : multi = false → d.added.length ≤ 1 ∧ d.removed.length ≤ 1)
    (hns : ¬ (d.removed ≠ [] ∧ d.added = [] ∧
      ((multi = true ∧ multiAll = true ∧ d.unchanged = []) ∨
       (multi = false ∧ multiAll = false ∧ d.unchanged = []))))
    (hchunk : multi = true → 0 < chunk)
    (hdp : dev.pfx = p) (hp : p.head? ≠ some (.w "undo"))
    (hclr : ∀ t, t ≠ [] → (∀ x ∈ t, x.isNumTo = true) →
      dev.clearCmd ≠ some (p ++ t) ∧ dev.clearCmd ≠ some (.w "undo" :: (p ++ t))) :
    ∃ ys, hProcess rev d multi multiAll chunk = .ok ys ∧
      (∀ c ∈ ys.map (·.row),
        (∃ X, interpH dev c = some (.rem X) ∧ ∀ v ∈ X, v ∈ sdiff (setOf vl d.removed) (setOf vl d.added)) ∨
        (∃ Y, interpH dev c = some (.add Y) ∧ ∀ v ∈ Y, v ∈ sdiff (setOf vl d.added) (setOf vl d.removed))) ∧
      (∀ v ∈ sdiff (setOf vl d.removed) (setOf vl d.added), RemU (interpH dev) (ys.map (·.row)) v) ∧
      (∀ v ∈ sdiff (setOf vl d.added) (setOf vl d.removed), AddU (interpH dev) (ys.map (·.row)) v) := by
  subst hdp
  have hpa := hParseActions_ok dev.pfx vl d.added hA
  have hpd := hParseActions_ok dev.pfx vl d.removed hR
  obtain ⟨ys1, e1, c1, r1⟩ := part_spec dev multi chunk hchunk (sdiff (setOf vl d.removed) (setOf vl d.added))
    (fun t => [.w "undo"] ++ pfxH (if d.removed.isEmpty then none else some dev.pfx) ++ t) .rem false
    (fun hX toks hne hnt => by
      have hrem : d.removed ≠ [] := setOf_ne_nil vl (sdiff_ne_nil hX)
      have : d.removed.isEmpty = false := by cases h : d.removed <;> simp_all
      simp only [this, pfxH]
      exact interpH_rem dev toks hne (hclr toks hne hnt).2)
  obtain ⟨ys2, e2, c2, r2⟩ := part_spec dev multi chunk hchunk (sdiff (setOf vl d.added) (setOf vl d.removed))
    (fun t => pfxH (if d.added.isEmpty then none else some dev.pfx) ++ t) .add true
    (fun hX toks hne hnt => by
      have hrem : d.added ≠ [] := setOf_ne_nil vl (sdiff_ne_nil hX)
      have : d.added.isEmpty = false := by cases h : d.added <;> simp_all
      simp only [this, pfxH]
      exact interpH_add dev toks hne (head?_append_ne hp (numTo_head_ne_undo hnt)) (hclr toks hne hnt).1)
  refine ⟨ys1 ++ ys2, ?_, ?_, ?_, ?_⟩
  · unfold hProcess
    have g1 : (!d.affected.isEmpty) = false := by simp [haff]
    have g2 : (!multi && (decide (d.added.length > 1) || decide (d.removed.length > 1))) = false := by
      cases multi with
      | true => simp
      | false => have := hc2 rfl; simp; omega
    have g3 : (!d.removed.isEmpty && d.added.isEmpty && multi && multiAll && d.unchanged.isEmpty) = false := by
      apply Bool.eq_false_iff.mpr
      intro h
      simp only [Bool.and_eq_true, Bool.not_eq_true', List.isEmpty_iff] at h
      obtain ⟨⟨⟨⟨a, b⟩, c⟩, e⟩, f⟩ := h
      exact hns ⟨by simpa [List.isEmpty_iff] using a, b, .inl ⟨c, e, f⟩⟩
    have g4 : (!d.removed.isEmpty && d.added.isEmpty && !(multi && multiAll) && !multi && !multiAll
        && d.unchanged.isEmpty) = false := by
      apply Bool.eq_false_iff.mpr
      intro h
      simp only [Bool.and_eq_true, Bool.not_eq_true', List.isEmpty_iff] at h
      obtain ⟨⟨⟨⟨⟨a, b⟩, _⟩, e⟩, f⟩, g⟩ := h
      exact hns ⟨by simpa [List.isEmpty_iff] using a, b, .inr ⟨e, f, g⟩⟩
    simp only [g1, g2, g3, g4, Bool.false_eq_true, if_false, hpa, hpd, except_bind_ok, e1, e2, except_pure]
  · intro c hc
    simp only [List.map_append, List.mem_append, List.mem_map] at hc
    rcases hc with ⟨y, hy, rfl⟩ | ⟨y, hy, rfl⟩
    · obtain ⟨out, ho, hs⟩ := c1 y hy; exact .inl ⟨out, ho, hs⟩
    · obtain ⟨out, ho, hs⟩ := c2 y hy; exact .inr ⟨out, ho, hs⟩
  · intro v hv
    obtain ⟨y, hy, out, ho, hvo⟩ := r1 v hv
    exact ⟨y.row, by simp only [List.map_append, List.mem_append, List.mem_map]; exact .inl ⟨y, hy, rfl⟩, out, ho, hvo⟩
  · intro v hv
    obtain ⟨y, hy, out, ho, hvo⟩ := r2 v hv
    exact ⟨y.row, by simp only [List.map_append, List.mem_append, List.mem_map]; exact .inr ⟨y, hy, rfl⟩, out, ho, hvo⟩


theorem isEmpty_false_of_ne {α : Type} {l : List α} (h : l ≠ []) : l.isEmpty = false := by
  cases l <;> simp_all

theorem hProcess_all (rev : HRow) (d : Buckets HRow) (chunk : Nat) (haff : d.affected = []) (hR : d.removed ≠ [])
    (hA : d.added = []) (hU : d.unchanged = []) :
    hProcess rev d true true chunk = .ok [⟨false, rev ++ [.w "all"], none⟩] := by
  have hRe := isEmpty_false_of_ne hR
  simp [hProcess, haff, hA, hU, hRe]

theorem hProcess_single_clear (rev : HRow) (d : Buckets HRow) (chunk : Nat) (haff : d.affected = [])
    (hR : d.removed ≠ []) (hA : d.added = []) (hU : d.unchanged = []) (hlen : d.removed.length ≤ 1) :
    hProcess rev d false false chunk = .ok [⟨false, rev, none⟩] := by
  have hRe := isEmpty_false_of_ne hR
  have g : ¬ (1 < d.removed.length) := by omega
  simp [hProcess, haff, hA, hU, hRe, g]

/-- `single` with more than one changed line on a side: the assertion of lines 54-56
("Too many actions") fails, whatever the rows are -/
theorem hProcess_single_refuses (rev : HRow) (d : Buckets HRow) (chunk : Nat) (haff : d.affected = [])
    (hlen : 1 < d.removed.length ∨ 1 < d.added.length) :
    hProcess rev d false false chunk = .error .assertion := by
  have g : (decide (d.added.length > 1) || decide (d.removed.length > 1)) = true := by
    rcases hlen with h | h <;> simp [h]
  simp only [hProcess, haff, List.isEmpty_nil, Bool.not_true, Bool.false_eq_true, if_false, Bool.not_false,
    Bool.true_and, g, if_true]

theorem huawei_core (m : HMode) (p rev : HRow) (old new : List HRow) (vl : HRow → List Nat)
    (hp : p.head? ≠ some (.w "undo"))
    (hparse : ∀ r, r ∈ old ∨ r ∈ new → hParseVlancfg r = .ok (p, vl r))
    (hold : Disj vl old) (hnew : Disj vl new)
    (hsingle : m = .single →
      (leafBuckets old new).removed.length ≤ 1 ∧ (leafBuckets old new).added.length ≤ 1)
    (hrevAll : m = .multiAll → rev = .w "undo" :: p)
    (hrevSingle : m = .single → ∀ t, rev ≠ p ++ t ∧ rev ≠ .w "undo" :: (p ++ t)) :
    ∃ ys, hLeaf m rev old new = .ok ys ∧
      ∀ cs, cs.Perm (ys.map (·.row)) →
        EndsIn (interpH (hDevice m p rev)) cs (setOf vl old) (setOf vl new) ∧
        KeepsCommon (interpH (hDevice m p rev)) cs (setOf vl old) (setOf vl new) := by
  -- the buckets
  have hRm : ∀ r, r ∈ (leafBuckets old new).removed ↔ r ∈ old ∧ r ∉ new := fun r => mem_filter_notin old new r
  have hAm : ∀ r, r ∈ (leafBuckets old new).added ↔ r ∈ new ∧ r ∉ old := fun r => mem_filter_notin new old r
  by_cases short : (leafBuckets old new).removed ≠ [] ∧ (leafBuckets old new).added = [] ∧
      (leafBuckets old new).unchanged = [] ∧ (m = .multiAll ∨ m = .single)
  · obtain ⟨hR, hA, hU, hm⟩ := short
    have hRe := isEmpty_false_of_ne hR
    have hnew0 : new = [] := filter_split_nil new old hA hU
    rcases hm with rfl | rfl
    · -- undo … all
      refine ⟨[⟨false, rev ++ [.w "all"], none⟩], ?_, ?_⟩
      · simp only [hLeaf, hLogic]
        exact hProcess_all rev (leafBuckets old new) 10 rfl hR hA hU
      · have hc : interpH (hDevice .multiAll p rev) (rev ++ [.w "all"]) = some .clear := by
          rw [hrevAll rfl]; simp [interpH, hDevice]
        simpa using clear_exact (interpH (hDevice .multiAll p rev)) (rev ++ [.w "all"]) hc (setOf vl old)
          (setOf vl new) (by rw [hnew0]; rfl)
    · -- undo <key>: the only line of the key goes away and nothing of the key stays
      refine ⟨[⟨false, rev, none⟩], ?_, ?_⟩
      · simp only [hLeaf, hLogic]
        exact hProcess_single_clear rev (leafBuckets old new) 0 rfl hR hA hU (hsingle rfl).1
      · have hc : interpH (hDevice .single p rev) rev = some .clear := by simp [interpH, hDevice]
        simpa using clear_exact (interpH (hDevice .single p rev)) rev hc (setOf vl old) (setOf vl new)
          (by rw [hnew0]; rfl)
  · -- the general branch
    have hmulti : (m = .single ∧ (match m with | .single => false | _ => true) = false) ∨
        (m ≠ .single ∧ (match m with | .single => false | _ => true) = true) := by cases m <;> simp
    obtain ⟨ys, hys, hcl, hR, hA⟩ := hProcess_main rev (leafBuckets old new)
      (match m with | .single => false | _ => true) (match m with | .multiAll => true | _ => false)
      (match m with | .single => 0 | _ => 10) p vl (hDevice m p rev) rfl
      (fun r hr => hparse r (.inr ((hAm r).mp hr).1)) (fun r hr => hparse r (.inl ((hRm r).mp hr).1))
      (fun h => by
        have : m = .single := by cases m <;> simp_all
        obtain ⟨ho, hn⟩ := hsingle this; exact ⟨hn, ho⟩)
      (fun ⟨h1, h2, h3⟩ => short ⟨h1, h2, by
        rcases h3 with ⟨a, b, c⟩ | ⟨a, b, c⟩
        · exact ⟨c, by left; cases m <;> simp_all⟩
        · exact ⟨c, by right; cases m <;> simp_all⟩⟩)
      (fun h => by cases m <;> simp_all) rfl hp
      (fun t hne hnt => by
        cases m with
        | multi => simp [hDevice]
        | single => simpa [hDevice] using ⟨(hrevSingle rfl t).1, (hrevSingle rfl t).2⟩
        | multiAll =>
          simp only [hDevice]
          constructor
          · intro h
            have h1 : (p ++ t).head? = some (.w "undo") := by
              have := congrArg (fun o => o.bind List.head?) h; simpa using this.symm
            exact head?_append_ne hp (numTo_head_ne_undo hnt) h1
          · intro h
            simp only [Option.some.injEq, List.cons.injEq, true_and] at h
            have := List.append_cancel_left h
            have hall := hnt (.w "all") (by rw [← this]; simp)
            simp [HTok.isNumTo] at hall)
    refine ⟨ys, ?_, ?_⟩
    · cases m <;> simpa [hLeaf, hLogic] using hys
    · exact run_exact (interpH (hDevice m p rev)) (ys.map (·.row)) (setOf vl old) (setOf vl new) _ _ hcl hR hA
        (fun v => diff_rows vl old new hold v) (fun v => diff_rows vl new old hnew v)

/-- `single` refuses (AssertionError "Too many actions", nothing is emitted) as soon as more than
one line of the key changed on one side — whatever the lines are -/
theorem huawei_single_refuses (rev : HRow) (old new : List HRow)
    (hlen : 1 < (leafBuckets old new).removed.length ∨ 1 < (leafBuckets old new).added.length) :
    hLeaf .single rev old new = .error .assertion := by
  simp only [hLeaf, hLogic]
  exact hProcess_single_refuses rev (leafBuckets old new) 0 rfl hlen

/-- all three modes, any number of lines: either the emitted commands are exact (in every order)
and never drop a common VLAN, or the mode is `single`, more than one line of the key changed on
one side and the logic raised its own AssertionError (no command at all) -/
theorem huawei_total (m : HMode) (p rev : HRow) (old new : List HRow) (vl : HRow → List Nat)
    (hp : p.head? ≠ some (.w "undo"))
    (hparse : ∀ r, r ∈ old ∨ r ∈ new → hParseVlancfg r = .ok (p, vl r))
    (hold : Disj vl old) (hnew : Disj vl new)
    (hrevAll : m = .multiAll → rev = .w "undo" :: p)
    (hrevSingle : m = .single → ∀ t, rev ≠ p ++ t ∧ rev ≠ .w "undo" :: (p ++ t)) :
    (∃ ys, hLeaf m rev old new = .ok ys ∧
      ∀ cs, cs.Perm (ys.map (·.row)) →
        EndsIn (interpH (hDevice m p rev)) cs (setOf vl old) (setOf vl new) ∧
        KeepsCommon (interpH (hDevice m p rev)) cs (setOf vl old) (setOf vl new)) ∨
    (m = .single ∧
      (1 < (leafBuckets old new).removed.length ∨ 1 < (leafBuckets old new).added.length) ∧
      hLeaf m rev old new = .error .assertion) := by
  by_cases hs : m = .single ∧
      (1 < (leafBuckets old new).removed.length ∨ 1 < (leafBuckets old new).added.length)
  · obtain ⟨rfl, hlen⟩ := hs
    exact .inr ⟨rfl, hlen, huawei_single_refuses rev old new hlen⟩
  · exact .inl (huawei_core m p rev old new vl hp hparse hold hnew
      (fun h => by
        constructor
        · exact Nat.le_of_not_lt fun h' => hs ⟨h, .inl h'⟩
        · exact Nat.le_of_not_lt fun h' => hs ⟨h, .inr h'⟩)
      hrevAll hrevSingle)

/-- whatever the logic returns without raising is exact and keeps the common VLANs -/
theorem huawei_sound (m : HMode) (p rev : HRow) (old new : List HRow) (vl : HRow → List Nat)
    (hp : p.head? ≠ some (.w "undo"))
    (hparse : ∀ r, r ∈ old ∨ r ∈ new → hParseVlancfg r = .ok (p, vl r))
    (hold : Disj vl old) (hnew : Disj vl new)
    (hrevAll : m = .multiAll → rev = .w "undo" :: p)
    (hrevSingle : m = .single → ∀ t, rev ≠ p ++ t ∧ rev ≠ .w "undo" :: (p ++ t))
    (ys : List (Yield HRow Unit)) (hys : hLeaf m rev old new = .ok ys) :
    ∀ cs, cs.Perm (ys.map (·.row)) →
      EndsIn (interpH (hDevice m p rev)) cs (setOf vl old) (setOf vl new) ∧
      KeepsCommon (interpH (hDevice m p rev)) cs (setOf vl old) (setOf vl new) := by
  rcases huawei_total m p rev old new vl hp hparse hold hnew hrevAll hrevSingle with
    ⟨ys', h1, h2⟩ | ⟨_, _, he⟩
  · rw [h1] at hys; cases hys; exact h2
  · rw [he] at hys; cases hys


/-! ### Cisco -/

theorem cParseActionsGo_leaf {χ : Type} (p : CRow) (vl : CRow → List Nat) (rows : List CRow)
    (h : ∀ r ∈ rows, cParseVlancfg r = .ok (p, vl r)) (q : Option CRow) (acc : List Nat) :
    cParseActionsGo (rows.map (leafAction (χ := χ))) ⟨q, acc, []⟩
      = .ok ⟨if rows.isEmpty then q else some p, acc ++ setOf vl rows, []⟩ := by
  induction rows generalizing q acc with
  | nil => simp [cParseActionsGo, setOf]
  | cons r rs ih =>
    have h' : ∀ r ∈ rs, cParseVlancfg r = .ok (p, vl r) := fun r hr => h r (by simp [hr])
    simp only [List.map_cons, cParseActionsGo, leafAction, h r (by simp), except_bind_ok, except_pure]
    have := ih h' (some p) (acc ++ vl r)
    rw [this]
    simp [setOf_cons, List.append_assoc]

theorem sdiff_nil_right (a : List Nat) : sdiff a [] = a := by
  simp [sdiff]

theorem interpC_rem (d : CDev) (parts : List (List Nat)) (hne : parts ≠ []) (hp0 : d.pfx ≠ [])
    (hp : d.pfx.head? ≠ some (.w "no")) :
    interpC d ([.w "no"] ++ d.pfx ++ (if d.explicit then [CTok.w "remove"] else []) ++ [CTok.spec parts])
      = (readC parts).map .rem := by
  unfold interpC
  have h1 : ¬ ([CTok.w "no"] ++ d.pfx ++ (if d.explicit then [CTok.w "remove"] else []) ++ [CTok.spec parts]
      = d.pfx ++ [.w "none"]) := by
    intro h
    have := congrArg List.head? h
    cases hd : d.pfx with
    | nil => exact hp0 hd
    | cons a as => rw [hd] at this hp; simp at this hp; exact hp this.symm
  simp only [h1, if_false]
  have h2 : d.pfx.isPrefixOf (d.pfx ++ ((if d.explicit then [CTok.w "remove"] else []) ++ [CTok.spec parts])) = true := by simp
  have h3 : (d.pfx ++ ((if d.explicit then [CTok.w "remove"] else []) ++ [CTok.spec parts])).drop d.pfx.length
      = (if d.explicit then [CTok.w "remove"] else []) ++ [CTok.spec parts] := by simp
  have hne' : parts.isEmpty = false := isEmpty_false_of_ne hne
  simp only [List.cons_append, List.append_assoc, if_true]
  cases he : d.explicit <;> simp [readC1, hne']

theorem interpC_add (d : CDev) (parts : List (List Nat)) (hne : parts ≠ []) (hp0 : d.pfx ≠ [])
    (hp : d.pfx.head? ≠ some (.w "no")) :
    interpC d (d.pfx ++ (if d.explicit then [CTok.w "add"] else []) ++ [CTok.spec parts])
      = (readC parts).map .add := by
  unfold interpC
  have h1 : ¬ (d.pfx ++ (if d.explicit then [CTok.w "add"] else []) ++ [CTok.spec parts] = d.pfx ++ [.w "none"]) := by
    intro h
    rw [List.append_assoc] at h
    have := List.append_cancel_left h
    cases he : d.explicit <;> simp [he] at this
  simp only [h1, if_false]
  have h2 : d.pfx.isPrefixOf (d.pfx ++ ((if d.explicit then [CTok.w "add"] else []) ++ [CTok.spec parts])) = true := by simp
  have h3 : (d.pfx ++ ((if d.explicit then [CTok.w "add"] else []) ++ [CTok.spec parts])).drop d.pfx.length
      = (if d.explicit then [CTok.w "add"] else []) ++ [CTok.spec parts] := by simp
  have hne' : parts.isEmpty = false := isEmpty_false_of_ne hne
  rw [List.append_assoc]
  cases hc : d.pfx ++ ((if d.explicit then [CTok.w "add"] else []) ++ [CTok.spec parts]) with
  | nil => simp at hc
  | cons t rest =>
    rw [hc] at h2 h3
    have ht : t ≠ .w "no" := by
      intro e
      cases hd : d.pfx with
      | nil => exact hp0 hd
      | cons a as => rw [hd] at hc hp; simp at hc hp; exact hp (hc.1 ▸ e)
    simp only [ht, if_false, h2, if_true, h3]
    cases he : d.explicit <;> simp [readC1, hne']


theorem cpart_spec {χ : Type} (dev : CDev) (tiny : Bool) (chunk : Nat) (hchunk : 0 < chunk) (X : List Nat)
    (mk : CTok → CRow) (act : List Nat → Act) (direct : Bool)
    (hmk : X ≠ [] → ∀ parts, parts ≠ [] → interpC dev (mk (.spec parts)) = (readC parts).map act) :
    ∃ ys : List (Yield CRow χ), cPart tiny chunk direct mk X = Except.ok ys ∧
      (∀ y ∈ ys, ∃ out, interpC dev y.row = some (act out) ∧ ∀ v ∈ out, v ∈ X) ∧
      (∀ v ∈ X, ∃ y ∈ ys, ∃ out, interpC dev y.row = some (act out) ∧ v ∈ out) := by
  by_cases hX : X = []
  · subst hX; exact ⟨[], by simp [cPart], by simp, by simp⟩
  · have hXe : X.isEmpty = false := isEmpty_false_of_ne hX
    obtain ⟨rs, hc, hcl, hcov⟩ := chunks_spec (fun c => readC (c.map renderC)) readC_render
      (fun l => chunked chunk l) (fun l hl => split_chunked chunk hchunk l hl) tiny X hX
    have hmap : ∀ c : List (Nat × Nat), c ≠ [] → c.map renderC ≠ [] := fun c h => by simpa using h
    refine ⟨_, by simp only [cPart, hXe, hc, except_map'_ok]; rfl, ?_, ?_⟩
    · intro y hy
      simp only [List.mem_map] at hy
      obtain ⟨c, hcm, rfl⟩ := hy
      obtain ⟨hne, out, ho, hsub⟩ := hcl c hcm
      refine ⟨out, ?_, hsub⟩
      simp only [renderCs]
      rw [hmk hX _ (hmap c hne), ho]; rfl
    · intro v hv
      obtain ⟨c, hcm, out, ho, hvo⟩ := hcov v hv
      have hne := (hcl c hcm).1
      refine ⟨⟨direct, mk (renderCs c), none⟩, List.mem_map.mpr ⟨c, hcm, rfl⟩, out, ?_, hvo⟩
      simp only [renderCs]
      rw [hmk hX _ (hmap c hne), ho]; rfl

theorem cParseActions_leaf {χ : Type} (p : CRow) (vl : CRow → List Nat) (rows : List CRow)
    (h : ∀ r ∈ rows, cParseVlancfg r = .ok (p, vl r)) :
    cParseActions (rows.map (leafAction (χ := χ)))
      = .ok ⟨if rows.isEmpty then none else some p, setOf vl rows, []⟩ := by
  have := cParseActionsGo_leaf (χ := χ) p vl rows h none []
  simpa [cParseActions] using this

/-- the prefix choice of lines 28-31 -/
theorem pfx_choice (p : CRow) (hp0 : p ≠ []) (a r : Bool) :
    pickPfx (if a then (none : Option CRow) else some p) (if r then none else some p)
      = if a && r then none else some p := by
  cases p with
  | nil => exact absurd rfl hp0
  | cons x xs => cases a <;> cases r <;> rfl

theorem cProcess_leaf {χ : Type} (b : Buckets CRow) (catalyst explicit : Bool) (chunk : Nat) (p : CRow)
    (vl : CRow → List Nat)
    (haff : b.affected = [])
    (hA : ∀ r ∈ b.added, cParseVlancfg r = .ok (p, vl r))
    (hR : ∀ r ∈ b.removed, cParseVlancfg r = .ok (p, vl r))
    (hnn : ¬ (b.added.length = 1 ∧ setOf vl b.added = []))
    (hchunk : 0 < chunk) (hp0 : p ≠ []) (hp : p.head? ≠ some (.w "no")) :
    ∃ ys, cProcess (χ := χ) (b.map leafAction) catalyst explicit chunk = .ok ys ∧
      (∀ c ∈ ys.map (·.row),
        (∃ X, interpC ⟨p, explicit⟩ c = some (.rem X) ∧ ∀ v ∈ X, v ∈ sdiff (setOf vl b.removed) (setOf vl b.added)) ∨
        (∃ Y, interpC ⟨p, explicit⟩ c = some (.add Y) ∧ ∀ v ∈ Y, v ∈ sdiff (setOf vl b.added) (setOf vl b.removed))) ∧
      (∀ v ∈ sdiff (setOf vl b.removed) (setOf vl b.added), RemU (interpC ⟨p, explicit⟩) (ys.map (·.row)) v) ∧
      (∀ v ∈ sdiff (setOf vl b.added) (setOf vl b.removed), AddU (interpC ⟨p, explicit⟩) (ys.map (·.row)) v) := by
  have hpa := cParseActions_leaf (χ := χ) p vl b.added hA
  have hpd := cParseActions_leaf (χ := χ) p vl b.removed hR
  have hpfx : ∀ X : List Nat, (X ≠ [] → b.added ≠ [] ∨ b.removed ≠ []) → X ≠ [] →
      pfxC (if b.added.isEmpty && b.removed.isEmpty then none else some p) = p := fun X h hX => by
    rcases h hX with h | h <;> simp [isEmpty_false_of_ne h, pfxC]
  obtain ⟨ys2, e2, c2, r2⟩ := cpart_spec (χ := χ) ⟨p, explicit⟩ catalyst chunk hchunk
    (sdiff (setOf vl b.removed) (setOf vl b.added))
    (fun t => [.w "no"] ++ pfxC (if b.added.isEmpty && b.removed.isEmpty then none else some p)
      ++ (if explicit then [.w "remove"] else []) ++ [t]) .rem false
    (fun hX parts hne => by
      rw [hpfx _ (fun h => .inr (setOf_ne_nil vl (sdiff_ne_nil h))) hX]
      exact interpC_rem ⟨p, explicit⟩ parts hne hp0 hp)
  obtain ⟨ys3, e3, c3, r3⟩ := cpart_spec (χ := χ) ⟨p, explicit⟩ catalyst chunk hchunk
    (sdiff (setOf vl b.added) (setOf vl b.removed))
    (fun t => pfxC (if b.added.isEmpty && b.removed.isEmpty then none else some p)
      ++ (if explicit then [.w "add"] else []) ++ [t]) .add true
    (fun hX parts hne => by
      rw [hpfx _ (fun h => .inl (setOf_ne_nil vl (sdiff_ne_nil h))) hX]
      exact interpC_add ⟨p, explicit⟩ parts hne hp0 hp)
  refine ⟨ys2 ++ ys3, ?_, ?_, ?_, ?_⟩
  · unfold cProcess
    have g : (decide ((List.map (leafAction (χ := χ)) b.added).length = 1) && (setOf vl b.added).isEmpty) = false := by
      apply Bool.eq_false_iff.mpr
      intro h
      simp only [List.length_map, Bool.and_eq_true, decide_eq_true_eq, List.isEmpty_iff] at h
      exact hnn h
    simp only [Buckets.map, haff, List.map_nil, hpa, hpd, except_bind_ok, pfx_choice p hp0, g,
      Bool.false_eq_true, if_false]
    simp only [sdiff_nil_right, ite_self, e2, e3, except_bind_ok, except_pure, List.nil_append, List.append_nil,
      norm, List.foldr_nil, List.filter_nil, List.filterMap_nil]
  · intro c hc
    simp only [List.map_append, List.mem_append, List.mem_map] at hc
    rcases hc with ⟨y, hy, rfl⟩ | ⟨y, hy, rfl⟩
    · obtain ⟨out, ho, hs⟩ := c2 y hy; exact .inl ⟨out, ho, hs⟩
    · obtain ⟨out, ho, hs⟩ := c3 y hy; exact .inr ⟨out, ho, hs⟩
  · intro v hv
    obtain ⟨y, hy, out, ho, hvo⟩ := r2 v hv
    exact ⟨y.row, by simp only [List.map_append, List.mem_append, List.mem_map]; exact .inl ⟨y, hy, rfl⟩, out, ho, hvo⟩
  · intro v hv
    obtain ⟨y, hy, out, ho, hvo⟩ := r3 v hv
    exact ⟨y.row, by simp only [List.map_append, List.mem_append, List.mem_map]; exact .inr ⟨y, hy, rfl⟩, out, ho, hvo⟩


theorem cProcess_none {χ : Type} (b : Buckets CRow) (catalyst explicit : Bool) (chunk : Nat) (p : CRow)
    (vl : CRow → List Nat)
    (haff : b.affected = [])
    (hA : ∀ r ∈ b.added, cParseVlancfg r = .ok (p, vl r))
    (hR : ∀ r ∈ b.removed, cParseVlancfg r = .ok (p, vl r))
    (hn : b.added.length = 1 ∧ setOf vl b.added = []) (hp0 : p ≠ []) :
    cProcess (χ := χ) (b.map leafAction) catalyst explicit chunk = .ok [⟨true, p ++ [.w "none"], none⟩] := by
  have hpa := cParseActions_leaf (χ := χ) p vl b.added hA
  have hpd := cParseActions_leaf (χ := χ) p vl b.removed hR
  have hne : b.added ≠ [] := by intro e; rw [e] at hn; simp at hn
  obtain ⟨x, xs, rfl⟩ := List.exists_cons_of_ne_nil hp0
  have g : (decide ((List.map (leafAction (χ := χ)) b.added).length = 1) && (setOf vl b.added).isEmpty) = true := by
    simp [hn.1, hn.2]
  unfold cProcess
  simp only [Buckets.map, haff, List.map_nil, hpa, hpd, except_bind_ok, g, if_true,
    isEmpty_false_of_ne hne, Bool.false_eq_true, if_false, pfxC, except_pure, List.nil_append, pickPfx]

theorem cisco_core' {χ : Type} (explicit : Bool) (chunk : Nat) (hchunk : 0 < chunk) (catalyst : Bool) (p : CRow)
    (old new : List CRow) (vl : CRow → List Nat)
    (hp0 : p ≠ []) (hp : p.head? ≠ some (.w "no"))
    (hparse : ∀ r, r ∈ old ∨ r ∈ new → cParseVlancfg r = .ok (p, vl r))
    (hold : Disj vl old) (hnew : Disj vl new)
    (hnone : ∀ r ∈ new, vl r = [] → new = [r]) :
    ∃ ys, cProcess (χ := χ) ((leafBuckets old new).map leafAction) catalyst explicit chunk = .ok ys ∧
      ∀ cs, cs.Perm (ys.map (·.row)) →
        EndsIn (interpC ⟨p, explicit⟩) cs (setOf vl old) (setOf vl new) ∧
        KeepsCommon (interpC ⟨p, explicit⟩) cs (setOf vl old) (setOf vl new) := by
  have hRm : ∀ r, r ∈ (leafBuckets old new).removed ↔ r ∈ old ∧ r ∉ new := fun r => mem_filter_notin old new r
  have hAm : ∀ r, r ∈ (leafBuckets old new).added ↔ r ∈ new ∧ r ∉ old := fun r => mem_filter_notin new old r
  have hA : ∀ r ∈ (leafBuckets old new).added, cParseVlancfg r = .ok (p, vl r) :=
    fun r hr => hparse r (.inr ((hAm r).mp hr).1)
  have hR : ∀ r ∈ (leafBuckets old new).removed, cParseVlancfg r = .ok (p, vl r) :=
    fun r hr => hparse r (.inl ((hRm r).mp hr).1)
  by_cases hn : (leafBuckets old new).added.length = 1 ∧ setOf vl (leafBuckets old new).added = []
  · refine ⟨[⟨true, p ++ [.w "none"], none⟩], ?_, ?_⟩
    · exact cProcess_none (χ := χ) (leafBuckets old new) catalyst explicit chunk p vl rfl hA hR hn hp0
    · have hnew0 : setOf vl new = [] := by
        match hl : (leafBuckets old new).added, hn.1 with
        | [a], _ =>
          have ha : a ∈ (leafBuckets old new).added := by rw [hl]; simp
          have hva : vl a = [] := by have := hn.2; rw [hl] at this; simpa [setOf] using this
          rw [hnone a ((hAm a).mp ha).1 hva]; simp [setOf, hva]
      have hc : interpC ⟨p, explicit⟩ (p ++ [.w "none"]) = some .clear := by simp [interpC]
      simpa using clear_exact (interpC ⟨p, explicit⟩) (p ++ [.w "none"]) hc (setOf vl old) (setOf vl new) hnew0
  · obtain ⟨ys, hys, hcl, hRr, hAa⟩ := cProcess_leaf (χ := χ) (leafBuckets old new) catalyst explicit chunk
      p vl rfl hA hR hn hchunk hp0 hp
    exact ⟨ys, hys, run_exact _ (ys.map (·.row)) (setOf vl old) (setOf vl new) _ _ hcl hRr hAa
        (fun v => diff_rows vl old new hold v) (fun v => diff_rows vl new old hnew v)⟩

theorem cisco_core {χ : Type} (m : CMode) (catalyst : Bool) (p : CRow) (old new : List CRow)
    (vl : CRow → List Nat)
    (hp0 : p ≠ []) (hp : p.head? ≠ some (.w "no"))
    (hparse : ∀ r, r ∈ old ∨ r ∈ new → cParseVlancfg r = .ok (p, vl r))
    (hold : Disj vl old) (hnew : Disj vl new)
    (hnone : ∀ r ∈ new, vl r = [] → new = [r]) :
    ∃ ys, cLeaf (χ := χ) m catalyst old new = .ok ys ∧
      ∀ cs, cs.Perm (ys.map (·.row)) →
        EndsIn (interpC (cDevice m p)) cs (setOf vl old) (setOf vl new) ∧
        KeepsCommon (interpC (cDevice m p)) cs (setOf vl old) (setOf vl new) := by
  cases m with
  | simple => exact cisco_core' (χ := χ) false 15 (by omega) catalyst p old new vl hp0 hp hparse hold hnew hnone
  | swtrunk => exact cisco_core' (χ := χ) true 5 (by omega) catalyst p old new vl hp0 hp hparse hold hnew hnone


/-! ### `vlan_diff` -/

theorem vlanDiff_keeps_batch (batch : List Nat) (items out : List DItem)
    (h : vlanDiffItems batch items = .ok out) :
    out.filter isBatchRow = items.filter isBatchRow := by
  induction items generalizing out with
  | nil => simp [vlanDiffItems] at h; subst h; rfl
  | cons it rest ih =>
    simp only [vlanDiffItems] at h
    cases hp : hParseVlancfg it.row with
    | error e => rw [hp] at h; cases h
    | ok pr =>
      obtain ⟨p, ids⟩ := pr
      rw [hp] at h
      cases hr : vlanDiffItems batch rest with
      | error e => rw [hr] at h; cases h
      | ok more =>
        rw [hr] at h
        have ihm := ih more hr
        have hb : isBatchRow it = (p == [.w "vlan", .w "batch"]) := by
          simp [isBatchRow, pfxOf, hp]
        simp only [except_bind_ok] at h
        split at h
        · rename_i hc
          simp only [Bool.and_eq_true, decide_eq_true_eq] at hc
          cases h
          have : isBatchRow it = false := by rw [hb, hc.1.1]; decide
          have h2 : isBatchRow { it with op := .affected } = false := by
            simpa [isBatchRow] using this
          simp [List.filter, this, h2, ihm]
        · split at h
          · rename_i hc
            simp only [Bool.and_eq_true, decide_eq_true_eq] at hc
            cases h
            have : isBatchRow it = false := by rw [hb, hc.1.1]; decide
            simp [List.filter, this, ihm]
          · cases h
            simp [List.filter, ihm]

theorem vlanDiff_protects (batch : List Nat) (items out : List DItem)
    (h : vlanDiffItems batch items = .ok out) :
    ∀ it ∈ out, it.op = .removed → pfxOf it.row = some [.w "vlan"] →
      ∀ v, v ∈ idsOf it.row → v ∉ batch := by
  induction items generalizing out with
  | nil => simp [vlanDiffItems] at h; subst h; simp
  | cons it rest ih =>
    simp only [vlanDiffItems] at h
    cases hp : hParseVlancfg it.row with
    | error e => rw [hp] at h; cases h
    | ok pr =>
      obtain ⟨p, ids⟩ := pr
      rw [hp] at h
      cases hr : vlanDiffItems batch rest with
      | error e => rw [hr] at h; cases h
      | ok more =>
        rw [hr] at h
        have ihm := ih more hr
        simp only [except_bind_ok] at h
        split at h
        · cases h
          intro x hx hop
          rcases List.mem_cons.mp hx with rfl | hx
          · simp at hop
          · exact ihm x hx hop
        · rename_i hc1
          split at h
          · cases h; exact ihm
          · cases h
            intro x hx hop hpf v hv hvb
            rcases List.mem_cons.mp hx with rfl | hx
            · apply hc1
              have hp' : p = [.w "vlan"] := by simpa [pfxOf, hp] using hpf
              have hids : idsOf x.row = ids := by simp [idsOf, hp]
              rw [hids] at hv
              have : sinter batch ids ≠ [] := fun e => by
                have := (mem_sinter v batch ids).mpr ⟨hvb, hv⟩
                rw [e] at this; simp at this
              simp [hp', hop, isEmpty_false_of_ne this]
            · exact ihm x hx hop hpf v hv hvb


/-! ### lines written from a range list parse back -/

theorem takeWhile_append_stop {α : Type} (f : α → Bool) (l1 : List α) (x : α) (l2 : List α)
    (h1 : ∀ y ∈ l1, f y = true) (hx : f x = false) : (l1 ++ x :: l2).takeWhile f = l1 := by
  induction l1 with
  | nil => simp [hx]
  | cons a as ih =>
    have ha : f a = true := h1 a (by simp)
    simp only [List.cons_append, List.takeWhile_cons, ha, if_true]
    rw [ih (fun y hy => h1 y (by simp [hy]))]

theorem hSplitAt_written (p0 : HRow) (s : String) (toks : HRow) (h : ∀ t ∈ toks, t.isNumTo = true) :
    hSplitAt (p0 ++ [HTok.w s] ++ toks) = (p0 ++ [HTok.w s]).length := by
  unfold hSplitAt
  have hrev : (p0 ++ [HTok.w s] ++ toks).reverse = toks.reverse ++ HTok.w s :: p0.reverse := by simp
  rw [hrev, takeWhile_append_stop HTok.isNumTo toks.reverse (.w s) p0.reverse
    (fun y hy => h y (List.mem_reverse.mp hy)) rfl]
  simp only [List.length_reverse, List.length_append, List.length_cons, List.length_nil]
  have : ¬ (toks.length = p0.length + (0 + 1) + toks.length) := by omega
  simp only [this, if_false]; omega

/-- a Huawei line `<prefix ending in a word> <rendered ranges>` parses to its prefix and the ranges' ids -/
theorem hParse_written (p0 : HRow) (s : String) (rs : List (Nat × Nat)) (hwf : ∀ r ∈ rs, r.1 ≤ r.2) :
    ∃ out, hParseVlancfg (p0 ++ [.w s] ++ renderHs rs) = .ok (p0 ++ [.w s], out) ∧
      ∀ x, x ∈ out ↔ Covers rs x := by
  obtain ⟨out, ho, hm⟩ := hExpandGo_render (renderHs rs) none rs hwf
  refine ⟨out, ?_, hm⟩
  unfold hParseVlancfg
  have hne : (p0 ++ [HTok.w s] ++ renderHs rs).isEmpty = false := by simp
  simp only [hne, Bool.false_eq_true, if_false, hSplitAt_written p0 s (renderHs rs) (renderHs_numTo rs)]
  have h1 : (p0 ++ [HTok.w s] ++ renderHs rs).drop (p0 ++ [HTok.w s]).length = renderHs rs := by simp
  have h2 : (p0 ++ [HTok.w s] ++ renderHs rs).take (p0 ++ [HTok.w s]).length = p0 ++ [HTok.w s] :=
    List.take_left' rfl
  rw [h1, h2]
  simp only [huaweiExpand, ho, except_map'_ok]

/-- Cisco lines: `<pfx> <spec>`, `<pfx> add <spec>`, `<pfx> none` -/
theorem cParse_written (p : CRow) (hp0 : p ≠ []) (hlast : p.getLast? ≠ some (.w "add"))
    (rs : List (Nat × Nat)) (hwf : ∀ r ∈ rs, r.1 ≤ r.2) :
    (∃ out, cParseVlancfg (p ++ [.spec (rs.map renderC)]) = .ok (p, out) ∧ ∀ x, x ∈ out ↔ Covers rs x) ∧
    (∃ out, cParseVlancfg (p ++ [.w "add", .spec (rs.map renderC)]) = .ok (p, out) ∧ ∀ x, x ∈ out ↔ Covers rs x) ∧
    cParseVlancfg (p ++ [.w "none"]) = .ok (p, []) := by
  obtain ⟨out, ho, hm⟩ := ciscoExpand_render rs hwf
  refine ⟨⟨out, ?_, hm⟩, ⟨out, ?_, hm⟩, ?_⟩
  · unfold cParseVlancfg
    cases hr : p.reverse with
    | nil => simp at hr; exact absurd hr hp0
    | cons t rest =>
      have ht : t ≠ .w "add" := by
        intro e
        apply hlast
        rw [List.getLast?_eq_head?_reverse, hr, e]; rfl
      simp [hr, ht, ho]
      have := congrArg List.reverse hr
      simpa using this.symm
  · unfold cParseVlancfg
    simp [ho]
  · unfold cParseVlancfg
    simp


end Annet.Vlan.Lemmas
