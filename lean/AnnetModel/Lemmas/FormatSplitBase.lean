/-
C04 helper lemmas, part 1: text helpers (`joinNl`/`splitNl`), the token stream of `blocks` and its
reference rendering, and what every line of a rendering looks like.
-/
import AnnetModel.Spec.FormatSplit

namespace Annet.FormatSplit.Lemmas
open Annet Annet.Offside Annet.FormatSplit

/-! ## `splitNl` / `joinNl` -/

theorem splitNl_ne_nil (s : Str) : splitNl s ≠ [] := by
  induction s with
  | nil => simp [splitNl]
  | cons c cs ih =>
    simp only [splitNl]
    split
    · simp
    · split <;> simp

theorem splitNl_of_not_mem (l : Str) (h : '\n' ∉ l) : splitNl l = [l] := by
  induction l with
  | nil => simp [splitNl]
  | cons c cs ih =>
    have hc : c ≠ '\n' := by
      intro e; apply h; simp [e]
    have hcs : '\n' ∉ cs := by
      intro e; apply h; simp [e]
    simp only [splitNl, beq_iff_eq, hc, if_false, ih hcs]

theorem splitNl_append_nl (l rest : Str) (h : '\n' ∉ l) :
    splitNl (l ++ '\n' :: rest) = l :: splitNl rest := by
  induction l with
  | nil => simp [splitNl]
  | cons c cs ih =>
    have hc : c ≠ '\n' := by
      intro e; apply h; simp [e]
    have hcs : '\n' ∉ cs := by
      intro e; apply h; simp [e]
    simp only [List.cons_append, splitNl, beq_iff_eq, hc, if_false, ih hcs]

/-- same without the filter -/
theorem splitNl_joinNl (ls : List Str) (hne : ls ≠ []) (h : ∀ l ∈ ls, '\n' ∉ l) :
    splitNl (joinNl ls) = ls := by
  induction ls with
  | nil => exact absurd rfl hne
  | cons l rest ih =>
    cases rest with
    | nil =>
      simp only [joinNl]
      exact splitNl_of_not_mem l (h l (by simp))
    | cons l' ls =>
      simp only [joinNl]
      rw [splitNl_append_nl l _ (h l (by simp))]
      rw [ih (by simp) (fun x hx => h x (by simp [hx]))]

/-- `"\n".join(ls).split("\n")`, empty lines dropped, gives back `ls` when no line is empty or contains
a line break. -/
theorem commonSplit_joinNl (ls : List Str) (h : ∀ l ∈ ls, l ≠ [] ∧ '\n' ∉ l) :
    commonSplit (joinNl ls) = ls := by
  cases ls with
  | nil => simp [commonSplit, joinNl, splitNl, nonEmpty]
  | cons l rest =>
    simp only [commonSplit]
    rw [splitNl_joinNl _ (by simp) (fun x hx => (h x hx).2)]
    simp only [nonEmpty]
    rw [List.filter_eq_self]
    intro x hx
    have := (h x hx).1
    cases x with
    | nil => exact absurd rfl this
    | cons _ _ => simp

/-! ## `strMul` -/

/-- `n` copies of `w` blanks are `w * n` blanks -/
theorem strMul_blanks (w n : Nat) : strMul (blanks w) n = blanks (w * n) := by
  induction n with
  | zero => simp [strMul, blanks]
  | succ n ih =>
    simp only [strMul, blanks] at ih ⊢
    rw [List.replicate_succ, List.flatten_cons, ih, Nat.mul_succ, Nat.add_comm,
      List.replicate_append_replicate]

/-! ## `blocks` and `render` -/

mutual
theorem rowsOf_indentBlocks_aux (w : Nat) : (t : Cfg) → ∀ (d : Nat) (rest : List Tok),
      rowsOf (indentBlocks (blanks w) (d : Int) (blocks t ++ rest))
        = render w d t ++ rowsOf (indentBlocks (blanks w) (d : Int) rest)
  | .mk ks => by
    intro d rest
    simp only [blocks, render]
    exact rowsOf_indentBlocks_auxL w ks d rest
theorem rowsOf_indentBlocks_auxL (w : Nat) : (ks : List (String × Cfg)) → ∀ (d : Nat) (rest : List Tok),
      rowsOf (indentBlocks (blanks w) (d : Int) (blocksL ks ++ rest))
        = renderL w d ks ++ rowsOf (indentBlocks (blanks w) (d : Int) rest)
  | [] => by intro d rest; simp [blocksL, renderL]
  | (k, c) :: more => by
    intro d rest
    have h1 := rowsOf_indentBlocks_aux w c
    have h2 := rowsOf_indentBlocks_auxL w more d rest
    cases c with
    | mk cks =>
      simp only [blocksL, renderL, Cfg.kids]
      cases cks with
      | nil =>
        simp only [List.isEmpty_nil, if_true, List.cons_append, List.nil_append,
          indentBlocks, rowsOf, Int.toNat_natCast, strMul_blanks, render, renderL, h2]
      | cons e es =>
        simp only [List.isEmpty_cons, Bool.false_eq_true, if_false, List.cons_append,
          List.nil_append, List.append_assoc, indentBlocks, rowsOf, Int.toNat_natCast, strMul_blanks]
        have h1' := h1 (d + 1) (Tok.be :: (blocksL more ++ rest))
        have e1 : ((d : Int) + 1) = ((d + 1 : Nat) : Int) := by omega
        rw [e1, h1']
        simp only [indentBlocks, rowsOf]
        have e2 : (((d + 1 : Nat) : Int) - 1) = (d : Int) := by omega
        rw [e2, h2]
end

/-- `_filtered_block_marks(_indent_blocks(_blocks(tree)))` is the reference rendering -/
theorem rowsOf_indentBlocks_blocks (w d : Nat) (t : Cfg) :
    rowsOf (indentBlocks (blanks w) (d : Int) (blocks t)) = render w d t := by
  have := rowsOf_indentBlocks_aux w t d []
  simpa [indentBlocks, rowsOf] using this

/-- `CommonFormatter.join` prints the reference rendering -/
theorem commonJoin_eq (w : Nat) (t : Cfg) : commonJoin (blanks w) t = joinNl (render w 0 t) := by
  have := rowsOf_indentBlocks_blocks w 0 t
  simp only [commonJoin]
  simp only [Int.natCast_zero] at this
  rw [this]

mutual
theorem mem_render_aux (ok : String → Bool) (w : Nat) : (t : Cfg) → ∀ (d : Nat), wf ok t = true →
      ∀ l ∈ render w d t, ∃ n r, l = blanks n ++ String.toList r ∧ ok r = true
  | .mk ks => by
    intro d h l hl
    simp only [wf] at h
    simp only [render] at hl
    exact mem_render_auxL ok w ks d h l hl
theorem mem_render_auxL (ok : String → Bool) (w : Nat) : (ks : List (String × Cfg)) → ∀ (d : Nat),
      wfL ok ks = true →
      ∀ l ∈ renderL w d ks, ∃ n r, l = blanks n ++ String.toList r ∧ ok r = true
  | [] => by intro d h l hl; simp [renderL] at hl
  | (k, c) :: more => by
    intro d h l hl
    have h1 := mem_render_aux ok w c (d + 1)
    have h2 := mem_render_auxL ok w more d
    simp only [wfL, Bool.and_eq_true] at h
    simp only [renderL, List.mem_cons, List.mem_append] at hl
    rcases hl with hl | hl | hl
    · exact ⟨w * d, k, hl, h.1.1.1⟩
    · exact h1 h.1.2 l hl
    · exact h2 h.2 l hl
end

/-- every line of the rendering of a well-formed tree is some blanks followed by an `ok` row -/
theorem mem_render (ok : String → Bool) (w d : Nat) (t : Cfg) (h : wf ok t = true) (l : Str)
    (hl : l ∈ render w d t) : ∃ n r, l = blanks n ++ String.toList r ∧ ok r = true :=
  mem_render_aux ok w t d h l hl

end Annet.FormatSplit.Lemmas
