/-
Helper lemmas for C10, part 4: the offside parser on the output of a generator program.

`runSt` is the parser pipeline (`Offside.runItems`) returning its final state, so that runs compose (`runSt_append`).
`sim_run` is the embedding lemma: the lines of one yield, moved `B` columns to the right and parsed in the state the
enclosing blocks left, get the paths of the yield's own parse prefixed by the block path.  `layout_run` lifts it to
whole programs by mutual induction.
-/
import AnnetModel.Spec.Gen
import AnnetModel.Lemmas.Offside

namespace Annet.Gen.Lemmas
open Annet Annet.Offside Annet.Offside.Lemmas Annet.Gen.Spec

/-- the parser pipeline, returning the yielded stacks, the final indent state and the final stack -/
def runSt : List Item → St → List String → Option (List (List String) × St × List String)
  | [], st, stack => some ([], st, stack)
  | .blank :: rest, st, stack => runSt rest st stack
  | .sectionEnd :: rest, _, stack => runSt rest St.init stack
  | .text lvl body :: rest, st, stack =>
    match stepText st lvl with
    | none => none
    | some (st', depth) =>
      match runSt rest st' (restack stack depth body) with
      | none => none
      | some (out, s, k) => some (restack stack depth body :: out, s, k)

theorem runItems_runSt (items : List Item) (st : St) (stack : List String) (n : Nat) :
    (runItems items st stack n).toOption = (runSt items st stack).map (·.1) := by
  induction items generalizing st stack n with
  | nil => simp [runItems, runSt, Except.toOption]
  | cons it rest ih =>
    cases it with
    | blank => simpa [runItems, runSt] using ih st stack (n + 1)
    | sectionEnd => simpa [runItems, runSt] using ih St.init stack (n + 1)
    | text k s =>
      rw [runSt]
      cases hst : stepText st k with
      | none => rw [runItems_text_none hst]; rfl
      | some r =>
        obtain ⟨st', depth⟩ := r
        rw [runItems_text_some hst, toOption_map, ih]
        simp only
        cases runSt rest st' (restack stack depth s) with
        | none => rfl
        | some r => rfl

theorem runSt_append (a b : List Item) (st : St) (stack : List String) :
    runSt (a ++ b) st stack =
      (match runSt a st stack with
       | none => none
       | some (o1, st1, k1) =>
         match runSt b st1 k1 with
         | none => none
         | some (o2, st2, k2) => some (o1 ++ o2, st2, k2)) := by
  induction a generalizing st stack with
  | nil =>
    simp only [List.nil_append, runSt]
    cases runSt b st stack with
    | none => rfl
    | some r => rfl
  | cons it rest ih =>
    cases it with
    | blank => simpa [runSt] using ih st stack
    | sectionEnd => simpa [runSt] using ih St.init stack
    | text k s =>
      simp only [List.cons_append, runSt]
      cases stepText st k with
      | none => rfl
      | some r =>
        obtain ⟨st', depth⟩ := r
        simp only
        rw [ih]
        cases runSt rest st' (restack stack depth s) with
        | none => rfl
        | some r1 =>
          obtain ⟨o1, st1, k1⟩ := r1
          simp only
          cases runSt b st1 k1 with
          | none => rfl
          | some r2 => rfl

/-! ### the indent stack -/

def Pos (l : List Nat) : Prop := ∀ d ∈ l, 0 < d

theorem Pos.tail {d : Nat} {l : List Nat} (h : Pos (d :: l)) : Pos l := fun x hx => h x (List.mem_cons_of_mem _ hx)

theorem pos_sum_zero {l : List Nat} (h : Pos l) (hs : l.sum = 0) : l = [] := by
  cases l with
  | nil => rfl
  | cons d ds =>
    have := h d List.mem_cons_self
    simp only [List.sum_cons] at hs
    omega

/-- popping back to the block's column removes exactly what the lines since the block header pushed -/
theorem popLoop_all (inds : List Nat) (B : Nat) : (extra : List Nat) → Pos extra →
    popLoop (B : Int) (extra ++ inds) ((B + extra.sum : Nat) : Int) = (inds, (B : Int))
  | [], _ => by
    cases inds with
    | nil => simp [popLoop]
    | cons d ds => simp [popLoop]
  | e :: es, h => by
    have he := h e List.mem_cons_self
    rw [List.cons_append, popLoop]
    have hc : ((B + (e :: es).sum : Nat) : Int) > (B : Int) := by simp only [List.sum_cons]; omega
    rw [if_pos hc]
    have : ((B + (e :: es).sum : Nat) : Int) - (e : Int) = ((B + es.sum : Nat) : Int) := by
      simp only [List.sum_cons]; omega
    rw [this]
    exact popLoop_all inds B es h.tail

/-- the state an enclosing block leaves: its own and its ancestors' widths `inds` (summing to the column `B`),
below whatever the lines since the header pushed -/
def ctxSt (inds extra : List Nat) (B : Nat) (g : Option Nat) : St := ⟨extra ++ inds, ((B + extra.sum : Nat) : Int), g⟩

/-- a line at the block's column closes everything opened since the header -/
theorem step_first (inds extra : List Nat) (B : Nat) (g : Option Nat) (hp : Pos extra)
    (hg : g = some 0 ∨ (g = none ∧ B = 0)) :
    stepText (ctxSt inds extra B g) B = some (ctxSt inds [] B (some 0), inds.length) := by
  have hgd : g.getD B = 0 := by
    rcases hg with rfl | ⟨rfl, rfl⟩ <;> rfl
  unfold stepText ctxSt
  simp only [hgd]
  have h1 : ¬ ((B : Int) - ((0 : Nat) : Int) < 0) := by omega
  rw [if_neg h1]
  have h2 : ¬ ((B : Int) - ((0 : Nat) : Int) > ((B + extra.sum : Nat) : Int)) := by omega
  rw [if_neg h2]
  by_cases hs : extra.sum = 0
  · have := pos_sum_zero hp hs
    subst this
    simp
  · have h3 : (B : Int) - ((0 : Nat) : Int) < ((B + extra.sum : Nat) : Int) := by omega
    rw [if_pos h3]
    have hB : (B : Int) - ((0 : Nat) : Int) = (B : Int) := by omega
    rw [hB, popLoop_all inds B extra hp]
    simp

/-! ### the embedding of one yield -/

/-- invariant of a yield's own parse: the current level is the sum of the open indents, which are positive -/
def OwnInv (st : St) : Prop := st.curr = ((st.indents.sum : Nat) : Int) ∧ Pos st.indents ∧ st.g = some 0

/-- the own state seen from the enclosing block -/
def embSt (inds : List Nat) (B : Nat) (st : St) : St := ⟨st.indents ++ inds, st.curr + (B : Int), some 0⟩

theorem popLoop_sim (inds : List Nat) (B lvl : Nat) : (oi : List Nat) → (oc : Int) → oc = ((oi.sum : Nat) : Int) →
    popLoop ((B + lvl : Nat) : Int) (oi ++ inds) (oc + (B : Int)) =
      ((popLoop (lvl : Int) oi oc).1 ++ inds, (popLoop (lvl : Int) oi oc).2 + (B : Int))
  | [], oc, h => by
    simp only [List.sum_nil] at h
    subst h
    cases inds with
    | nil => simp [popLoop]
    | cons d ds =>
      simp only [List.nil_append, popLoop]
      have : ¬ (((0 : Nat) : Int) + (B : Int) > ((B + lvl : Nat) : Int)) := by omega
      rw [if_neg this]
  | d :: ds, oc, h => by
    rw [List.cons_append, popLoop, popLoop]
    by_cases hc : oc > (lvl : Int)
    · have hc' : oc + (B : Int) > ((B + lvl : Nat) : Int) := by omega
      rw [if_pos hc, if_pos hc']
      have := popLoop_sim inds B lvl ds (oc - (d : Int)) (by simp only [List.sum_cons] at h; omega)
      have e : oc + (B : Int) - (d : Int) = oc - (d : Int) + (B : Int) := by omega
      rw [e, this]
    · have hc' : ¬ (oc + (B : Int) > ((B + lvl : Nat) : Int)) := by omega
      rw [if_neg hc, if_neg hc']
      rfl

theorem popLoop_inv (lvl : Int) : (oi : List Nat) → (oc : Int) → oc = ((oi.sum : Nat) : Int) → Pos oi →
    (popLoop lvl oi oc).2 = (((popLoop lvl oi oc).1.sum : Nat) : Int) ∧ Pos (popLoop lvl oi oc).1
  | [], oc, h, hp => by simp [popLoop, h, Pos]
  | d :: ds, oc, h, hp => by
    rw [popLoop]
    split
    · exact popLoop_inv lvl ds (oc - (d : Int)) (by simp only [List.sum_cons] at h; omega) hp.tail
    · exact ⟨h, hp⟩

/-- one line of the yield, seen from the block: same decision, same depth above the block's -/
theorem step_sim (inds : List Nat) (B lvl : Nat) (st : St) (h : OwnInv st) :
    stepText (embSt inds B st) (B + lvl) =
      (stepText st lvl).map (fun r => (embSt inds B r.1, r.2 + inds.length)) ∧
    ∀ st' d, stepText st lvl = some (st', d) → OwnInv st' ∧ d = st'.indents.length := by
  obtain ⟨oi, oc, g⟩ := st
  obtain ⟨h1, h2, h3⟩ := h
  simp only at h1 h2 h3
  subst h3
  unfold stepText embSt
  simp only [Option.getD_some]
  have hl : ((B + lvl : Nat) : Int) - ((0 : Nat) : Int) = (lvl : Int) + (B : Int) := by omega
  have hl0 : (lvl : Int) - ((0 : Nat) : Int) = (lvl : Int) := by omega
  rw [hl, hl0]
  have n1 : ¬ ((lvl : Int) + (B : Int) < 0) := by omega
  have n2 : ¬ ((lvl : Int) < 0) := by omega
  rw [if_neg n1, if_neg n2]
  by_cases c1 : (lvl : Int) > oc
  · have c1' : (lvl : Int) + (B : Int) > oc + (B : Int) := by omega
    rw [if_pos c1, if_pos c1']
    have e : ((lvl : Int) + (B : Int) - (oc + (B : Int))).toNat = ((lvl : Int) - oc).toNat := by congr 1; omega
    refine ⟨by simp [e]; omega, ?_⟩
    intro st' d hh
    simp only [Option.some.injEq, Prod.mk.injEq] at hh
    obtain ⟨rfl, rfl⟩ := hh
    refine ⟨⟨?_, ?_, rfl⟩, rfl⟩
    · simp only [List.sum_cons]
      rw [h1] at c1 ⊢
      omega
    · intro x hx
      rcases List.mem_cons.1 hx with rfl | hx
      · omega
      · exact h2 x hx
  · have c1' : ¬ ((lvl : Int) + (B : Int) > oc + (B : Int)) := by omega
    rw [if_neg c1, if_neg c1']
    by_cases c2 : (lvl : Int) < oc
    · have c2' : (lvl : Int) + (B : Int) < oc + (B : Int) := by omega
      rw [if_pos c2, if_pos c2']
      have e : (lvl : Int) + (B : Int) = ((B + lvl : Nat) : Int) := by omega
      rw [e, popLoop_sim inds B lvl oi oc h1]
      obtain ⟨i1, i2⟩ := popLoop_inv (lvl : Int) oi oc h1 h2
      generalize popLoop (lvl : Int) oi oc = r at i1 i2 ⊢
      obtain ⟨oi', oc'⟩ := r
      simp only at i1 i2 ⊢
      by_cases c3 : oc' = (lvl : Int)
      · have c3' : oc' + (B : Int) = ((B + lvl : Nat) : Int) := by omega
        simp only [c3, bne_self_eq_false, Bool.false_eq_true, if_false, Option.map_some, List.length_append]
        refine ⟨by simp; omega, ?_⟩
        intro st' d hh
        simp only [Option.some.injEq, Prod.mk.injEq] at hh
        obtain ⟨rfl, rfl⟩ := hh
        exact ⟨⟨by simpa [c3] using i1, i2, rfl⟩, rfl⟩
      · have c3' : oc' + (B : Int) ≠ ((B + lvl : Nat) : Int) := by omega
        simp [c3]
        omega
    · rw [if_neg c2, if_neg (by omega : ¬ ((lvl : Int) + (B : Int) < oc + (B : Int)))]
      refine ⟨by simp [Nat.add_comm], ?_⟩
      intro st' d hh
      simp only [Option.some.injEq, Prod.mk.injEq] at hh
      obtain ⟨rfl, rfl⟩ := hh
      exact ⟨⟨h1, h2, rfl⟩, rfl⟩


theorem take_base (base os : List String) (n d : Nat) (hb : base.length = n) :
    (base ++ os).take (d + n) = base ++ os.take d := by
  rw [List.take_append, List.take_of_length_le (by omega)]
  congr 2
  omega

/-- the lines of a yield after its first significant line: exact simulation -/
theorem sim_run (inds : List Nat) (B : Nat) (base : List String) (hb : base.length = inds.length) :
    (items : List Item) → (st : St) → (os : List String) → items.all (· != .sectionEnd) = true → OwnInv st →
    runSt (items.map (shiftItem B)) (embSt inds B st) (base ++ os) =
      (runSt items st os).map (fun r => (r.1.map (base ++ ·), embSt inds B r.2.1, base ++ r.2.2)) ∧
    ∀ out st' os', runSt items st os = some (out, st', os') → OwnInv st'
  | [], st, os, _, hi => by
    simp only [List.map_nil, runSt, Option.map_some, List.map_nil, true_and]
    intro out st' os' h
    simp only [Option.some.injEq, Prod.mk.injEq] at h
    rw [← h.2.1]; exact hi
  | .blank :: rest, st, os, hn, hi => by
    simp only [List.map_cons, shiftItem, runSt]
    exact sim_run inds B base hb rest st os (by simpa using hn) hi
  | .sectionEnd :: rest, st, os, hn, hi => by simp at hn
  | .text k s :: rest, st, os, hn, hi => by
    have hn' : rest.all (· != .sectionEnd) = true := by
      simp only [List.all_cons, Bool.and_eq_true] at hn; exact hn.2
    obtain ⟨hs1, hs2⟩ := step_sim inds B k st hi
    simp only [List.map_cons, shiftItem, runSt, hs1]
    cases hst : stepText st k with
    | none => simp
    | some r =>
      obtain ⟨st1, d⟩ := r
      obtain ⟨hi1, _⟩ := hs2 st1 d hst
      simp only [Option.map_some]
      have hr : restack (base ++ os) (d + inds.length) s = base ++ restack os d s := by
        rw [restack_eq, restack_eq, take_base base os inds.length d hb, List.append_assoc]
      rw [hr]
      obtain ⟨ih1, ih2⟩ := sim_run inds B base hb rest st1 (restack os d s) hn' hi1
      rw [ih1]
      cases hrs : runSt rest st1 (restack os d s) with
      | none => simp
      | some r2 =>
        obtain ⟨out, st', os'⟩ := r2
        simp only [Option.map_some, List.map_cons, true_and]
        intro out2 st2 os2 h
        simp only [Option.some.injEq, Prod.mk.injEq] at h
        rw [← h.2.1]
        exact ih2 out st' os' hrs

/-- a line at column `B` arriving in state `st` closes what is open and lands at depth `inds.length` -/
def Ready (inds : List Nat) (B : Nat) (st : St) : Prop :=
  stepText st B = some (ctxSt inds [] B (some 0), inds.length)

theorem ready_ctx (inds extra : List Nat) (B : Nat) (hp : Pos extra) : Ready inds B (ctxSt inds extra B (some 0)) :=
  step_first inds extra B (some 0) hp (.inl rfl)

theorem embSt_eq_ctx (inds : List Nat) (B : Nat) (st : St) (h : OwnInv st) :
    embSt inds B st = ctxSt inds st.indents B (some 0) := by
  obtain ⟨h1, _, _⟩ := h
  simp only [embSt, ctxSt, h1]
  congr 1
  omega

/-- a whole yield, parsed where the enclosing blocks left the parser -/
theorem own_run (inds : List Nat) (B : Nat) (base : List String) (hb : base.length = inds.length) :
    (items : List Item) → (st : St) → (junk : List String) → OwnOk items = true → Ready inds B st →
    (match runSt items St.init [] with
     | none => runSt (items.map (shiftItem B)) st (base ++ junk) = none
     | some (out, _, _) => ∃ st' junk', runSt (items.map (shiftItem B)) st (base ++ junk) =
         some (out.map (base ++ ·), st', base ++ junk') ∧
         (st' = st ∨ ∃ extra, Pos extra ∧ st' = ctxSt inds extra B (some 0)))
  | [], st, junk, _, _ => by
    simp only [runSt, List.map_nil]
    exact ⟨st, junk, rfl, .inl rfl⟩
  | .blank :: rest, st, junk, ho, hr => by
    simp only [runSt, List.map_cons, shiftItem]
    exact own_run inds B base hb rest st junk (by simpa [OwnOk] using ho) hr
  | .sectionEnd :: rest, st, junk, ho, _ => by simp [OwnOk] at ho
  | .text k s :: rest, st, junk, ho, hr => by
    simp only [OwnOk, Bool.and_eq_true, beq_iff_eq] at ho
    obtain ⟨rfl, hn⟩ := ho
    have h0 : stepText St.init 0 = some (⟨[], 0, some 0⟩, 0) := by simp [stepText, St.init]
    have hi0 : OwnInv ⟨[], 0, some 0⟩ := ⟨by simp, (fun x hx => by cases hx), rfl⟩
    have hctx : ctxSt inds [] B (some 0) = embSt inds B ⟨[], 0, some 0⟩ := by
      simp [ctxSt, embSt]
    unfold Ready at hr
    simp only [runSt, List.map_cons, shiftItem, Nat.add_zero, h0, hr]
    have hrs : restack (base ++ junk) inds.length s = base ++ restack [] 0 s := by
      rw [restack_eq, restack_eq]
      have := take_base base junk inds.length 0 hb
      rw [Nat.zero_add] at this
      rw [this]; simp
    rw [hrs, hctx]
    obtain ⟨s1, s2⟩ := sim_run inds B base hb rest ⟨[], 0, some 0⟩ (restack [] 0 s) hn hi0
    rw [s1]
    cases hrun : runSt rest ⟨[], 0, some 0⟩ (restack [] 0 s) with
    | none => simp
    | some r =>
      obtain ⟨out, st', os'⟩ := r
      have hi' := s2 out st' os' hrun
      simp only [Option.map_some]
      refine ⟨embSt inds B st', os', by simp, .inr ⟨st'.indents, hi'.2.1, embSt_eq_ctx inds B st' hi'⟩⟩


theorem ready_push (inds : List Nat) (B w : Nat) (hw : 0 < w) :
    Ready (w :: inds) (B + w) (ctxSt inds [] B (some 0)) := by
  unfold Ready ctxSt
  simp only [List.nil_append, List.sum_nil, Nat.add_zero, List.length_cons]
  rw [stepText_push (Nat.zero_le _) (by omega)]
  have e : (((B + w : Nat) : Int) - ((0 : Nat) : Int) - (B : Int)).toNat = w := by omega
  have e2 : ((B + w : Nat) : Int) - ((0 : Nat) : Int) = ((B + w : Nat) : Int) := by omega
  rw [e, e2]

theorem ctx_child (inds extra : List Nat) (B w : Nat) :
    ctxSt (w :: inds) extra (B + w) (some 0) = ctxSt inds (extra ++ [w]) B (some 0) := by
  simp only [ctxSt, List.append_assoc, List.singleton_append, List.sum_append, List.sum_cons, List.sum_nil]
  congr 1
  omega

theorem stacks_of_runSt (items : List Item) :
    (match runSt items St.init [] with
     | none => ∃ e, stacks items = .error e
     | some (out, _, _) => stacks items = .ok out) := by
  have h := runItems_runSt items St.init [] 1
  rw [show runItems items St.init [] 1 = stacks items from rfl] at h
  cases hr : runSt items St.init [] with
  | none =>
    rw [hr] at h
    cases hs : stacks items with
    | error e => exact ⟨e, rfl⟩
    | ok o => rw [hs] at h; simp [Except.toOption] at h
  | some r =>
    obtain ⟨out, st, k⟩ := r
    rw [hr] at h
    cases hs : stacks items with
    | error e => rw [hs] at h; simp [Except.toOption] at h
    | ok o =>
      rw [hs] at h
      simp only [Except.toOption, Option.map_some, Option.some.injEq] at h
      simp only [h]

mutual
  theorem layout_run_op : (op : LOp) → WF op = true → ∀ (inds : List Nat) (B : Nat) (base : List String) (st : St)
      (junk : List String), base.length = inds.length → Ready inds B st →
      (match specPaths base op with
       | none => runSt (layout B op) st (base ++ junk) = none
       | some ps => ∃ st' junk', runSt (layout B op) st (base ++ junk) = some (ps, st', base ++ junk') ∧
           (st' = st ∨ ∃ extra, Pos extra ∧ st' = ctxSt inds extra B (some 0)))
    | .emit items, hwf, inds, B, base, st, junk, hb, hr => by
      rw [WF] at hwf
      have h1 := own_run inds B base hb items st junk hwf hr
      have h2 := stacks_of_runSt items
      rw [specPaths, layout]
      cases hrun : runSt items St.init [] with
      | none =>
        rw [hrun] at h1 h2
        obtain ⟨e, he⟩ := h2
        simp only [he]
        exact h1
      | some r =>
        obtain ⟨out, st0, k0⟩ := r
        rw [hrun] at h1 h2
        simp only at h1 h2
        simp only [h2]
        exact h1
    | .block h w body, hwf, inds, B, base, st, junk, hb, hr => by
      rw [WF] at hwf
      simp only [Bool.and_eq_true, decide_eq_true_eq] at hwf
      obtain ⟨hw, hbody⟩ := hwf
      rw [specPaths, layout, runSt]
      unfold Ready at hr
      rw [hr]
      simp only
      have hrs : restack (base ++ junk) inds.length h = (base ++ [h]) ++ [] := by
        rw [restack_eq]
        have := take_base base junk inds.length 0 hb
        rw [Nat.zero_add] at this
        rw [this]; simp
      rw [hrs]
      have ih := layout_run_list body hbody (w :: inds) (B + w) (base ++ [h]) (ctxSt inds [] B (some 0)) []
        (by simp [hb]) (ready_push inds B w hw)
      cases hsp : specPathsL (base ++ [h]) body with
      | none =>
        rw [hsp] at ih
        simp only at ih ⊢
        rw [ih]
      | some ps =>
        rw [hsp] at ih
        obtain ⟨st', junk', hrun, hform⟩ := ih
        simp only
        rw [hrun]
        refine ⟨st', [h] ++ junk', by simp, .inr ?_⟩
        rcases hform with rfl | ⟨extra, hp, rfl⟩
        · exact ⟨[], (fun x hx => by cases hx), rfl⟩
        · refine ⟨extra ++ [w], ?_, ctx_child inds extra B w⟩
          intro x hx
          rcases List.mem_append.1 hx with hx | hx
          · exact hp x hx
          · simp only [List.mem_singleton] at hx; omega
  theorem layout_run_list : (ops : List LOp) → WFL ops = true → ∀ (inds : List Nat) (B : Nat) (base : List String)
      (st : St) (junk : List String), base.length = inds.length → Ready inds B st →
      (match specPathsL base ops with
       | none => runSt (layoutL B ops) st (base ++ junk) = none
       | some ps => ∃ st' junk', runSt (layoutL B ops) st (base ++ junk) = some (ps, st', base ++ junk') ∧
           (st' = st ∨ ∃ extra, Pos extra ∧ st' = ctxSt inds extra B (some 0)))
    | [], _, inds, B, base, st, junk, _, _ => by
      simp only [specPathsL, layoutL, runSt]
      exact ⟨st, junk, rfl, .inl rfl⟩
    | op :: rest, hwf, inds, B, base, st, junk, hb, hr => by
      rw [WFL] at hwf
      simp only [Bool.and_eq_true] at hwf
      obtain ⟨hop, hrest⟩ := hwf
      have ih1 := layout_run_op op hop inds B base st junk hb hr
      rw [specPathsL, layoutL, runSt_append]
      cases hsp : specPaths base op with
      | none =>
        rw [hsp] at ih1
        simp only at ih1 ⊢
        rw [ih1]
      | some a =>
        rw [hsp] at ih1
        obtain ⟨st1, junk1, hrun1, hform1⟩ := ih1
        have hr1 : Ready inds B st1 := by
          rcases hform1 with rfl | ⟨extra, hp, rfl⟩
          · exact hr
          · exact ready_ctx inds extra B hp
        have ih2 := layout_run_list rest hrest inds B base st1 junk1 hb hr1
        rw [hrun1]
        simp only
        cases hsp2 : specPathsL base rest with
        | none =>
          rw [hsp2] at ih2
          simp only at ih2 ⊢
          rw [ih2]
        | some b =>
          rw [hsp2] at ih2
          obtain ⟨st2, junk2, hrun2, hform2⟩ := ih2
          simp only
          rw [hrun2]
          refine ⟨st2, junk2, rfl, ?_⟩
          rcases hform2 with rfl | h2
          · exact hform1
          · exact .inr h2
end

/-- **Layout theorem.**  The offside parser, run on the whole output of a well-formed layout, yields for every
line the block path it was emitted under followed by its path inside its own yield — and fails iff some yield is
inconsistently indented in itself. -/
theorem layout_stacks (prog : List LOp) (hwf : WFL prog = true) :
    (stacks (layoutL 0 prog)).toOption = specPathsL [] prog := by
  have hready : Ready [] 0 St.init := by simp [Ready, stepText, St.init, ctxSt]
  have h := layout_run_list prog hwf [] 0 [] St.init [] rfl hready
  rw [show stacks (layoutL 0 prog) = runItems (layoutL 0 prog) St.init [] 1 from rfl, runItems_runSt]
  cases hsp : specPathsL [] prog with
  | none =>
    rw [hsp] at h
    simp only [List.nil_append] at h
    rw [h]; rfl
  | some ps =>
    rw [hsp] at h
    obtain ⟨st', junk', hrun, _⟩ := h
    simp only [List.nil_append] at hrun
    rw [hrun]; rfl

end Annet.Gen.Lemmas
