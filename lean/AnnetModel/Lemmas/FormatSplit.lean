/-
C04 helper lemmas, assembly: round trip per formatter class from
`split(join(t)) = render t` (parts 2, 4, 5) and `parse(render t) = t` (part 3); witnesses that the two rules
as they were before the fixes (F04a Cisco, F04b RouterOS) did not round-trip.
-/
import AnnetModel.Lemmas.FormatSplitOffside
import AnnetModel.Lemmas.FormatSplitText
import AnnetModel.Lemmas.FormatSplitJuniper
import AnnetModel.Lemmas.FormatSplitRosJoin
import AnnetModel.Lemmas.FormatSplitRosSplit
import AnnetModel.Lemmas.FormatSplitRosParse

namespace Annet.FormatSplit.Lemmas
open Annet Annet.Offside Annet.FormatSplit

/-- the common last step: if `split(join(t))` is the reference rendering, the parser rebuilds `t` -/
theorem roundtrip_of_split (f : Fmt) (w : Nat) (hw : 0 < w) (t : Cfg) (s : Str) (ok : String → Bool)
    (hok : ∀ r, ok r = true → rowBase r.toList = true) (hwf : wf ok t = true)
    (hj : join f t = some s) (hs : split f s = some (render w 0 t)) : RoundTrip f t :=
  ⟨s, hj, by simp only [parse, hs, Option.map_some, parse_render w hw ok hok t hwf]⟩

theorem roundtrip_indent (k : Kind)
    (hk : k = .common ∨ k = .huawei ∨ k = .nexusLike ∨ k = .asr ∨ k = .cisco)
    (w : Nat) (hw : 0 < w) (t : Cfg) (h : wf (rowOk k) t = true) : RoundTrip ⟨k, blanks w⟩ t := by
  apply roundtrip_of_split _ w hw t (commonJoin (blanks w) t) (rowOk k) (rowOk_base k) h
  · rcases hk with rfl | rfl | rfl | rfl | rfl <;> rfl
  · exact split_join_indent k hk w hw t h

theorem roundtrip_juniper (k : Kind) (hk : k = .juniper ∨ k = .ribbon)
    (w : Nat) (hw : 0 < w) (t : Cfg) (h : wf (rowOk .juniper) t = true) : RoundTrip ⟨k, blanks w⟩ t := by
  obtain ⟨s, hj, hs⟩ := jun_split_join (junFmtOf k)
    (by rcases hk with rfl | rfl; exact Or.inl rfl; exact Or.inr (Or.inl rfl)) w hw t h
  apply roundtrip_of_split _ w hw t s (rowOk .juniper) (rowOk_base .juniper) h
  · rcases hk with rfl | rfl <;> exact hj
  · rcases hk with rfl | rfl <;> exact hs

theorem roundtrip_nokia (w : Nat) (hw : 0 < w) (t : Cfg) (h : WF .nokia t = true) :
    RoundTrip ⟨.nokia, blanks w⟩ t := by
  obtain ⟨s, hj, hs⟩ := nokia_split_join w hw t h
  have hwf : wf (rowOk .nokia) t = true := by
    simp only [WF, Bool.and_eq_true] at h
    exact h.1
  exact roundtrip_of_split _ w hw t s (rowOk .nokia) (rowOk_base .nokia) hwf hj hs

theorem roundtrip_ros (w : Nat) (hw : 0 < w) (t : Cfg) (h : rosTop t = true) :
    RoundTrip ⟨.ros, blanks w⟩ t :=
  ⟨rosJoin (blanks w) t, rfl, by
    simp only [parse, split]
    rw [ros_join_text w t h, ros_split_text w hw t h]
    simp only [Option.map_some, ros_parse_lines w hw t h]⟩

/-- every formatter class, on its whole well-formed domain `WF` -/
theorem roundtrip_WF (k : Kind) (w : Nat) (hw : 0 < w) (t : Cfg) (h : WF k t = true) :
    RoundTrip ⟨k, blanks w⟩ t := by
  cases k with
  | common => exact roundtrip_indent _ (Or.inl rfl) w hw t h
  | huawei => exact roundtrip_indent _ (Or.inr (Or.inl rfl)) w hw t h
  | cisco => exact roundtrip_indent _ (Or.inr (Or.inr (Or.inr (Or.inr rfl)))) w hw t h
  | nexusLike => exact roundtrip_indent _ (Or.inr (Or.inr (Or.inl rfl))) w hw t h
  | asr => exact roundtrip_indent _ (Or.inr (Or.inr (Or.inr (Or.inl rfl)))) w hw t h
  | juniper => exact roundtrip_juniper _ (Or.inl rfl) w hw t h
  | ribbon => exact roundtrip_juniper _ (Or.inr rfl) w hw t h
  | nokia => exact roundtrip_nokia w hw t h
  | ros => exact roundtrip_ros w hw t h

/-- `make_formatter(indent=…)` with the default or with `w ≥ 1` blanks yields an indent of blanks -/
theorem mkFormatter_blanks (k : Kind) (kw : Option Str)
    (hkw : kw = none ∨ ∃ w, 0 < w ∧ kw = some (blanks w)) :
    ∃ w, 0 < w ∧ mkFormatter k kw = ⟨k, blanks w⟩ := by
  rcases hkw with rfl | ⟨w, hw, rfl⟩
  · cases k
    all_goals first
      | exact ⟨2, by omega, rfl⟩
      | exact ⟨4, by omega, rfl⟩
  · cases k
    all_goals first
      | exact ⟨w, hw, rfl⟩
      | exact ⟨2, by omega, rfl⟩

theorem fixpoint_of_roundtrip (f : Fmt) (t : Cfg) (h : RoundTrip f t) : FixPoint f t := by
  obtain ⟨s, hj, hp⟩ := h
  exact ⟨s, t, hj, hp, hj⟩

/-! ## the rules before the two fixes were false: witnesses -/

/-- F04a (before 13137d1): `address-family a` followed by a sibling -/
def ciscoWitness : Cfg := .mk [("address-family a", .mk []), ("c", .mk [])]

theorem ciscoWitness_old_parse :
    parseToTree comments ((ciscoSplitOld (commonJoin [' ', ' '] ciscoWitness)).map String.ofList)
      = .ok (.mk [("address-family a", .mk [("c", .mk [])])]) := by
  have hsplit : ciscoSplitOld (commonJoin [' ', ' '] ciscoWitness)
      = [blanks 0 ++ "address-family a".toList, blanks 1 ++ "c".toList] := by decide
  simp only [hsplit, parseToTree, List.map_cons, List.map_nil]
  rw [classify_line 0 "address-family a" (by decide), classify_line 1 "c" (by decide)]
  rfl

/-- F04b (before c926070): a section inside a section -/
def rosWitness : Cfg := .mk [("ip", .mk [("address", .mk [("r", .mk [])])])]

theorem rosWitness_old_split :
    rosSplit [' ', ' '] (rosJoinOld [' ', ' '] rosWitness)
      = some [blanks 0 ++ "ip".toList, blanks 0 ++ "address".toList, blanks 2 ++ "r".toList] := by decide

theorem rosWitness_old_parse :
    parseToTree comments
        ([blanks 0 ++ "ip".toList, blanks 0 ++ "address".toList, blanks 2 ++ "r".toList].map String.ofList)
      = .ok (.mk [("ip", .mk []), ("address", .mk [("r", .mk [])])]) := by
  simp only [parseToTree, List.map_cons, List.map_nil]
  rw [classify_line 0 "ip" (by decide), classify_line 0 "address" (by decide),
    classify_line 2 "r" (by decide)]
  rfl

end Annet.FormatSplit.Lemmas
