/-
Non-vacuity of `flat_converges`: a concrete vendor, device, rulebook (two flat rules), ordering rulebook and
configuration pair satisfying every hypothesis, and the instance of the theorem on them.
-/
import AnnetModel.Lemmas.Converge

namespace Annet.Converge.Example
open Annet Annet.Rules Annet.Device Annet.Device.Abs Annet.Converge Annet.Pattern

def v : Vendor := { reverse := "undo", exit := "quit" }
def env : Env := { reverse := "undo", exits := ["quit"] }

def mtuAttrs : PAttrs :=
  { row := "mtu", logic := "common.undo_redo", diffLogic := "common.default_diff", parent := false, forceCommit := false }
def descAttrs : PAttrs :=
  { row := "description", logic := "common.default", diffLogic := "common.default_diff", parent := false,
    forceCommit := false }
def mtuRule : PRule := .mk "mtu" false mtuAttrs (some ([], []))
def descRule : PRule := .mk "description" false descAttrs (some ([], []))
def rules : PRules := ⟨[mtuRule, descRule], []⟩
def ordering : List ORule := [.mk "mtu" "mtu" false false none []]
def old : Cfg := .mk [("mtu 1500", .mk []), ("description a", .mk [])]
def new : Cfg := .mk [("mtu 9000", .mk [])]

theorem flatRules : FlatRules rules := by
  refine ⟨rfl, ?_, ?_⟩
  · intro r hr
    simp only [rules, List.mem_cons, List.not_mem_nil, or_false] at hr
    rcases hr with rfl | rfl
    · exact ⟨rfl, rfl, rfl, Or.inr rfl, rfl⟩
    · exact ⟨rfl, rfl, rfl, Or.inl rfl, rfl⟩
  · intro r hr r' hr' h
    simp only [rules, List.mem_cons, List.not_mem_nil, or_false] at hr hr'
    rcases hr with rfl | rfl <;> rcases hr' with rfl | rfl
    · rfl
    · exact absurd h (by decide)
    · exact absurd h (by decide)
    · rfl

theorem flatOld : FlatCfg old := by
  intro e he
  simp only [old, Cfg.kids, List.mem_cons, List.not_mem_nil, or_false] at he
  rcases he with rfl | rfl <;> rfl

theorem flatNew : FlatCfg new := by
  intro e he
  simp only [new, Cfg.kids, List.mem_cons, List.not_mem_nil, or_false] at he
  rcases he with rfl <;> rfl

theorem knownOld : AllKnown rules old := by
  intro e he
  simp only [old, Cfg.kids, List.mem_cons, List.not_mem_nil, or_false] at he
  rcases he with rfl | rfl <;> decide

theorem knownNew : AllKnown rules new := by
  intro e he
  simp only [new, Cfg.kids, List.mem_cons, List.not_mem_nil, or_false] at he
  rcases he with rfl <;> decide

theorem wfOld : WF rules old.kids := ⟨knownOld, by decide⟩
theorem wfNew : WF rules new.kids := ⟨knownNew, by decide⟩

theorem noPin : NoPin ordering := by
  simp [ordering, NoPin, NoPinRule]

def isOk {ε α : Type} : Except ε α → Bool
  | .ok _ => true
  | .error _ => false

theorem patchOk : ∃ r, Api.deviceMode Patch.runLogic v rules ordering true old new = .ok r := by
  have h : isOk (Api.deviceMode Patch.runLogic v rules ordering true old new) = true := by decide
  cases hr : Api.deviceMode Patch.runLogic v rules ordering true old new with
  | ok r => exact ⟨r, rfl⟩
  | error e => rw [hr] at h; cases h

/-! ### what `classify` says about an arbitrary row on this rulebook -/

theorem go_match (row : String) : ∀ (l : List (PRule × Bool)) (acc res : List (PRule × Bool × List String)),
    matchRow.go row l acc = some (some res) →
    ∀ x ∈ res, x ∈ acc ∨ ∃ p ∈ l, x.1 = p.1 ∧ ∃ pat k, parseRow false p.1.attrs.row.toList = some pat ∧
      pat.match? row.toList = some k ∧ x.2.2 = k.map String.ofList := by
  intro l
  induction l with
  | nil =>
    intro acc res h x hx
    simp only [matchRow.go, Option.some.injEq] at h
    subst h
    exact Or.inl (List.mem_reverse.1 hx)
  | cons p rest ih =>
    intro acc res h x hx
    obtain ⟨r, isG⟩ := p
    simp only [matchRow.go] at h
    split at h
    · cases h
    · rename_i pat hpat
      split at h
      · rcases ih _ _ h x hx with h1 | ⟨p, hp, h2⟩
        · exact Or.inl h1
        · exact Or.inr ⟨p, List.mem_cons_of_mem _ hp, h2⟩
      · rename_i k hk
        split at h
        · cases h
        · rcases ih _ _ h x hx with h1 | ⟨p, hp, h2⟩
          · rcases List.mem_cons.1 h1 with rfl | h1
            · exact Or.inr ⟨(r, isG), List.mem_cons_self, rfl, pat, k, hpat, hk, rfl⟩
            · exact Or.inl h1
          · exact Or.inr ⟨p, List.mem_cons_of_mem _ hp, h2⟩

/-- a match comes from a rule whose pattern matches the row, with the captured words as key -/
theorem classify_match {rules : PRules} {row : String} {m : PMatch} {cr : PRules}
    (h : classify rules row = some (m, cr)) :
    ∃ f, (f ∈ rules.loc ∨ f ∈ rules.glob) ∧ m.rawRule = f.rawRule ∧ m.attrs = f.attrs ∧
      ∃ pat k, parseRow false f.attrs.row.toList = some pat ∧ pat.match? row.toList = some k ∧
        m.key = k.map String.ofList := by
  unfold classify at h
  split at h
  · rename_i m' cr' hm
    cases h
    unfold matchRow at hm
    simp only at hm
    split at hm
    · cases hm
    · cases hm
    · cases hm
    · rename_i f fcr fkey more hgo
      rcases go_match row _ _ _ hgo (f, fcr, fkey) List.mem_cons_self with h1 | ⟨p, hp, h2, pat, k, h3, h4, h5⟩
      · cases h1
      · cases hm
        simp only at h2 h5
        subst h2
        refine ⟨p.1, ?_, rfl, rfl, pat, k, h3, h4, h5⟩
        rcases List.mem_append.1 hp with hp | hp
        · obtain ⟨q, hq, rfl⟩ := List.mem_map.1 hp
          exact Or.inl hq
        · obtain ⟨q, hq, rfl⟩ := List.mem_map.1 hp
          exact Or.inr hq
  · cases h

/-- a one-literal pattern captures nothing and the row starts with the literal's first character -/
theorem lit_match {c : Char} {w l : List Char} {ell : Bool} {k : List (List Char)}
    (h : Pat.match? ⟨[.lit (c :: w)], false, ell⟩ l = some k) : k = [] ∧ ∃ rest, l = c :: rest := by
  simp only [Pat.match?, matchToks, matchOne] at h
  cases hs : stripLit false (c :: w) l with
  | none => simp [hs] at h
  | some r =>
    simp only [hs, Option.map_some] at h
    split at h
    · cases h
      refine ⟨rfl, ?_⟩
      cases l with
      | nil => simp [stripLit] at hs
      | cons b rest =>
        simp only [stripLit, charEq, Bool.false_eq_true, if_false] at hs
        split at hs
        · rename_i hcb
          exact ⟨rest, by rw [beq_iff_eq.1 hcb]⟩
        · cases hs
    · cases h

def mMtu : PMatch := { rawRule := "mtu", key := [], attrs := mtuAttrs }
def mDesc : PMatch := { rawRule := "description", key := [], attrs := descAttrs }

theorem classify_cases {row : String} {m : PMatch} {cr : PRules} (h : classify rules row = some (m, cr)) :
    (m = mMtu ∧ ∃ rest, row.toList = 'm' :: rest) ∨ (m = mDesc ∧ ∃ rest, row.toList = 'd' :: rest) := by
  obtain ⟨f, hf, h1, h2, pat, k, h3, h4, h5⟩ := classify_match h
  rcases hf with hf | hf
  · simp only [rules, List.mem_cons, List.not_mem_nil, or_false] at hf
    rcases hf with rfl | rfl
    · have hp : parseRow false mtuRule.attrs.row.toList = some ⟨[.lit ('m' :: "tu".toList)], false, false⟩ := by decide
      rw [hp] at h3
      cases h3
      obtain ⟨rfl, hrest⟩ := lit_match h4
      left
      refine ⟨?_, hrest⟩
      obtain ⟨a, b, c⟩ := m
      simp only at h1 h2 h5
      subst h1 h2 h5
      rfl
    · have hp : parseRow false descRule.attrs.row.toList = some ⟨[.lit ('d' :: "escription".toList)], false, false⟩ := by
        decide
      rw [hp] at h3
      cases h3
      obtain ⟨rfl, hrest⟩ := lit_match h4
      right
      refine ⟨?_, hrest⟩
      obtain ⟨a, b, c⟩ := m
      simp only at h1 h2 h5
      subst h1 h2 h5
      rfl
  · cases hf

theorem not_exit_of_known {row : String} (h : (slotOf rules row).isSome) :
    ¬ env.exits.contains row = true ∧ stripReverse env row = none := by
  cases hcl : classify rules row with
  | none => simp [slotOf, hcl] at h
  | some mc =>
    obtain ⟨m, cr⟩ := mc
    have hfirst : ∃ c rest, row.toList = c :: rest ∧ c ≠ 'q' ∧ c ≠ 'u' := by
      rcases classify_cases hcl with ⟨-, rest, hr⟩ | ⟨-, rest, hr⟩
      · exact ⟨_, rest, hr, by decide, by decide⟩
      · exact ⟨_, rest, hr, by decide, by decide⟩
    obtain ⟨c, rest, hr, hq, hu⟩ := hfirst
    constructor
    · intro hcon
      have : row = "quit" := by simpa [env] using hcon
      rw [this] at hr
      have hl : "quit".toList = 'q' :: "uit".toList := by decide
      rw [hl] at hr
      exact hq (List.cons.inj hr).1.symm
    · unfold stripReverse
      have hpre : env.reverse.toList ++ [' '] = 'u' :: "ndo ".toList := by decide
      rw [hpre, hr]
      have : ('u' :: "ndo ".toList).isPrefixOf (c :: rest) = false := by
        simp only [List.isPrefixOf, Bool.and_eq_false_iff, beq_eq_false_iff_ne]
        exact Or.inl (fun h => hu h.symm)
      simp only [this, Bool.and_false, Bool.false_eq_true, if_false]

theorem cmdsOK : CmdsOK v env rules where
  sameReverse := rfl
  exitKnown := Or.inr (by decide)
  removal := by
    intro row m cr hcl c hrev
    rcases classify_cases hcl with ⟨rfl, -⟩ | ⟨rfl, -⟩
    · have : Patch.reverseCmd v mMtu.attrs mMtu.key = some "undo mtu" := by decide
      rw [this] at hrev
      cases hrev
      exact ⟨by decide, "mtu", by decide, by decide⟩
    · have : Patch.reverseCmd v mDesc.attrs mDesc.key = some "undo description" := by decide
      rw [this] at hrev
      cases hrev
      exact ⟨by decide, "description", by decide, by decide⟩
  line := by
    intro row h
    obtain ⟨h1, h2⟩ := not_exit_of_known h
    exact ⟨h1, by rw [h2]; rfl⟩

/-- the commands of the patch (non-trivial: a removal followed by the re-creation of its slot, and the removal
of another rule's line) -/
def patchCmds : List (List String) :=
  match Api.deviceMode Patch.runLogic v rules ordering true old new with
  | .ok r => flatPaths r.patch
  | .error _ => []

-- `#eval patchCmds` gives `[["undo description"], ["undo mtu"], ["mtu 9000"]]` (not stated as a theorem: `decide`
-- on the constructed command strings does not terminate in reasonable time)

/-- the instance of `flat_converges`: the patch of this pair, executed on `old`, gives the lines of `new` -/
theorem flat_converges_instance (r : Api.Result)
    (hr : Api.deviceMode Patch.runLogic v rules ordering true old new = .ok r) :
    (rowsOf (applyCmds env rules (flatPaths r.patch) old)).Perm (rowsOf new) := by
  obtain ⟨hwf, hh⟩ := Lemmas.flat_converges v env rules ordering old new r flatRules flatOld flatNew knownOld knownNew
    wfOld wfNew cmdsOK noPin hr
  exact Device.Lemmas.same_map_perm rules _ _ hwf wfNew hh

/-- and such an `r` exists -/
theorem flat_converges_instance' :
    ∃ r, Api.deviceMode Patch.runLogic v rules ordering true old new = .ok r ∧
      (rowsOf (applyCmds env rules (flatPaths r.patch) old)).Perm (rowsOf new) := by
  obtain ⟨r, hr⟩ := patchOk
  exact ⟨r, hr, flat_converges_instance r hr⟩

end Annet.Converge.Example
