/-
End-to-end convergence of the pipeline on flat configurations (C01 stage 1): the patch annet computes,
executed on the device specification, turns `old` into `new`.

Structure of the proof
* Part 0  `classify` returns the raw text and parameters of a rule of the rulebook (`classify_rule`); under
          `FlatRules` the parameters are those of a default-diff / default-or-undo_redo rule (`flat_match`) and the
          raw text determines them (`flat_same_raw`).
* Part 6  the device on single-word paths is a fold of `execLeaf` (`applyCmds_flat`); it refines the fold of
          `absStep` over the denotations `den` of the command words (`cmds_refine`); the value of that fold at a
          slot only depends on the commands touching the slot (`final_at`).
* Part 1-2 the diff of two flat configurations is, up to order, `flatDiff` (`makeDiff_flat`); restricted to one
          slot it is `expected (holder old s) (holder new s)` (`diff_ok`).
* Part 3  `make_pre` buckets the diff by (raw rule, key): invariants `InvI`, `InvR` (`makePre_inv`).
* Part 4  `get_order` never makes a removal command direct without `%order_reverse` / the exit word
          (`getOrder_removal`), so the creation of a row does not sort before the removal of the same rule
          (`put_not_before_removal`); the logic functions on the bucket of a slot yield `Shape` (`bucket_shape`).
* Part 5  raw items bucket by bucket (`itemsOfPre_filter`, `itemsOfRule_filter`, `itemsOfPre_mem`), what the
          command words denote (`cmdFor_den`), the sorted tree (`cmds_sorted`, `cmds_filter`).
* Part 7  the commands touching a slot are those of its bucket (`slot_cmds`); executed in the sorted order they
          turn the old holder into the new one (`slot_final`).
* Part 8  `flat_converges`.
-/
import AnnetModel.Spec.Converge
import AnnetModel.Lemmas.Device
import AnnetModel.Lemmas.Sort
import AnnetModel.Lemmas.Diff

namespace Annet.Converge.Lemmas

section
open Annet Annet.Rules Annet.Device Annet.Device.Abs Annet.Converge

/-! ### Part 0: what `classify` returns -/

theorem go_mem (row : String) : ∀ (l : List (PRule × Bool)) (acc res : List (PRule × Bool × List String)),
    matchRow.go row l acc = some (some res) →
    ∀ x ∈ res, x ∈ acc ∨ ∃ p ∈ l, x.1 = p.1 := by
  intro l
  induction l with
  | nil =>
    intro acc res h x hx
    simp only [matchRow.go, Option.some.injEq] at h
    subst h
    exact Or.inl (List.mem_reverse.1 hx)
  | cons p rest ih =>
    intro acc res h x hx
    obtain ⟨r, isG⟩ := p
    simp only [matchRow.go] at h
    split at h
    · cases h
    · split at h
      · rcases ih _ _ h x hx with h1 | ⟨p, hp, h2⟩
        · exact Or.inl h1
        · exact Or.inr ⟨p, List.mem_cons_of_mem _ hp, h2⟩
      · split at h
        · cases h
        · rcases ih _ _ h x hx with h1 | ⟨p, hp, h2⟩
          · rcases List.mem_cons.1 h1 with rfl | h1
            · exact Or.inr ⟨(r, isG), List.mem_cons_self, rfl⟩
            · exact Or.inl h1
          · exact Or.inr ⟨p, List.mem_cons_of_mem _ hp, h2⟩

theorem classify_rule {rules : PRules} {row : String} {m : PMatch} {cr : PRules}
    (h : classify rules row = some (m, cr)) :
    ∃ f, (f ∈ rules.loc ∨ f ∈ rules.glob) ∧ m.rawRule = f.rawRule ∧ m.attrs = f.attrs := by
  unfold classify at h
  split at h
  · rename_i m' cr' hm
    cases h
    unfold matchRow at hm
    simp only at hm
    split at hm
    · cases hm
    · cases hm
    · cases hm
    · rename_i f fcr fkey more hgo
      have := go_mem row _ _ _ hgo (f, fcr, fkey) List.mem_cons_self
      rcases this with h1 | ⟨p, hp, h2⟩
      · cases h1
      · cases hm
        refine ⟨f, ?_, rfl, rfl⟩
        rcases List.mem_append.1 hp with hp | hp
        · obtain ⟨q, hq, rfl⟩ := List.mem_map.1 hp
          simp only at h2; subst h2; exact Or.inl hq
        · obtain ⟨q, hq, rfl⟩ := List.mem_map.1 hp
          simp only at h2; subst h2; exact Or.inr hq
  · cases h

/-- what `FlatRules` says about a match -/
theorem flat_match {rules : PRules} (hfr : FlatRules rules) {row : String} {m : PMatch} {cr : PRules}
    (h : classify rules row = some (m, cr)) :
    m.attrs.diffLogic = "common.default_diff" ∧
    (m.attrs.logic = "common.default" ∨ m.attrs.logic = "common.undo_redo") ∧ m.attrs.forceCommit = false := by
  obtain ⟨f, hf, -, ha⟩ := classify_rule h
  rw [hfr.1] at hf
  rcases hf with hf | hf
  · obtain ⟨-, -, h1, h2, h3⟩ := hfr.2.1 f hf
    rw [ha]; exact ⟨h1, h2, h3⟩
  · cases hf

theorem flat_same_raw {rules : PRules} (hfr : FlatRules rules) {row row' : String} {m m' : PMatch}
    {cr cr' : PRules} (h : classify rules row = some (m, cr)) (h' : classify rules row' = some (m', cr'))
    (hraw : m.rawRule = m'.rawRule) : m.attrs = m'.attrs := by
  obtain ⟨f, hf, hr, ha⟩ := classify_rule h
  obtain ⟨f', hf', hr', ha'⟩ := classify_rule h'
  rw [hfr.1] at hf hf'
  rcases hf with hf | hf
  · rcases hf' with hf' | hf'
    · rw [ha, ha']; exact hfr.2.2 f hf f' hf' (by rw [← hr, ← hr', hraw])
    · cases hf'
  · cases hf

end

section
open Annet Annet.Rules Annet.Device Annet.Device.Abs Annet.Converge

/-! ### Part 6: the device on a flat patch -/

/-- the abstract command a command word denotes -/
def den (env : Env) (rules : PRules) (c : String) : Cmd :=
  if env.exits.contains c then .nop
  else match stripReverse env c with
    | some r' => if (slotOf rules r').isSome then .del r' else .put c
    | none => .put c

/-- a command word together with the abstract command it denotes (as in `Props/C01.lean`) -/
def Denotes (env : Env) (rules : PRules) (c : String) : Cmd → Prop
  | .nop => env.exits.contains c = true
  | .del r' => ¬ env.exits.contains c = true ∧ stripReverse env c = some r' ∧ (slotOf rules r').isSome
  | .put r => ¬ env.exits.contains c = true ∧ r = c ∧ (slotOf rules c).isSome ∧
      ((stripReverse env c).bind fun r' => slotOf rules r') = none

theorem cmds_refine (env : Env) (rules : PRules) (cs : List String) (kids : List (String × Cfg))
    (hwf : WF rules kids) (hd : ∀ c ∈ cs, Denotes env rules c (den env rules c)) :
    WF rules (cs.foldl (fun k c => execLeaf env rules c k) kids) ∧
    ∀ s, holder rules (cs.foldl (fun k c => execLeaf env rules c k) kids) s =
         (cs.foldl (fun f c => absStep rules f (den env rules c)) (holder rules kids)) s := by
  induction cs generalizing kids with
  | nil => exact ⟨hwf, fun _ => rfl⟩
  | cons c rest ih =>
    have hp := hd c (List.mem_cons_self ..)
    have hrest : ∀ q ∈ rest, Denotes env rules q (den env rules q) := fun q hq => hd q (List.mem_cons_of_mem _ hq)
    have step : WF rules (execLeaf env rules c kids) ∧
        ∀ s, holder rules (execLeaf env rules c kids) s = absStep rules (holder rules kids) (den env rules c) s := by
      generalize den env rules c = cmd at hp
      cases cmd with
      | nop =>
        have h : env.exits.contains c = true := hp
        rw [Device.Lemmas.exit_noop env rules c kids h]; exact ⟨hwf, fun _ => rfl⟩
      | del r' =>
        obtain ⟨h1, h2, h3⟩ := hp
        exact Device.Lemmas.del_refines env rules c r' kids hwf h1 h2 h3
      | put r =>
        obtain ⟨h1, h2, h3, h4⟩ := hp
        subst h2
        exact Device.Lemmas.put_refines env rules r kids hwf h3 h1 h4
    have := ih (execLeaf env rules c kids) step.1 hrest
    have hf : holder rules (execLeaf env rules c kids) = absStep rules (holder rules kids) (den env rules c) :=
      funext step.2
    refine ⟨this.1, fun s => ?_⟩
    rw [List.foldl_cons, List.foldl_cons, this.2 s, hf]

theorem flat_not_rewrite {rules : PRules} (hfr : FlatRules rules) (c : String) : isRewriteCmd rules c = false := by
  unfold isRewriteCmd
  split
  · rename_i m cr hcl
    rcases (flat_match hfr hcl).2.1 with h | h <;> rw [h] <;> simp
  · rfl

theorem applyCmds_flat {rules : PRules} (hfr : FlatRules rules) (env : Env) (cs : List String) (dev : Cfg) :
    applyCmds env rules (cs.map fun c => [c]) dev = .mk (cs.foldl (fun k c => execLeaf env rules c k) dev.kids) := by
  unfold applyCmds
  congr 1
  generalize dev.kids = kids
  suffices h : ∀ kids, (cs.map fun c => [c]).foldl
      (fun (st : List (String × Cfg) × Visited) p => execPath env p rules [] st.2 st.1) (kids, []) =
      (cs.foldl (fun k c => execLeaf env rules c k) kids, []) by rw [h]
  induction cs with
  | nil => intro kids; rfl
  | cons c rest ih =>
    intro kids
    simp only [List.map_cons, List.foldl_cons, execPath, flat_not_rewrite hfr, Bool.false_and,
      Bool.false_eq_true, if_false]
    exact ih _

/-- the abstract machine seen from one slot -/
def stepAt (rules : PRules) (s : Slot) (x : Option String) : Cmd → Option String
  | .put r => if slotOf rules r = some s then some r else x
  | .del r => if slotOf rules r = some s then none else x
  | .nop => x

def touches (rules : PRules) (s : Slot) : Cmd → Bool
  | .put r => slotOf rules r == some s
  | .del r => slotOf rules r == some s
  | .nop => false

theorem fold_at (rules : PRules) (s : Slot) (cs : List Cmd) (f : Slot → Option String) :
    (cs.foldl (absStep rules) f) s = cs.foldl (stepAt rules s) (f s) := by
  induction cs generalizing f with
  | nil => rfl
  | cons c rest ih =>
    rw [List.foldl_cons, List.foldl_cons, ih]
    congr 1
    cases c <;> rfl

theorem fold_filter (rules : PRules) (s : Slot) (cs : List Cmd) (x : Option String) :
    cs.foldl (stepAt rules s) x = (cs.filter (touches rules s)).foldl (stepAt rules s) x := by
  induction cs generalizing x with
  | nil => rfl
  | cons c rest ih =>
    rw [List.foldl_cons, List.filter_cons]
    cases ht : touches rules s c with
    | true => simp only [if_true, List.foldl_cons]; exact ih _
    | false =>
      have : stepAt rules s x c = x := by
        cases c <;> simp_all [touches, stepAt]
      rw [this]; simp only [Bool.false_eq_true, if_false]; exact ih _

/-- the final map of a flat command list, slot by slot -/
theorem final_at (env : Env) (rules : PRules) (cs : List String) (f : Slot → Option String) (s : Slot) :
    (cs.foldl (fun f c => absStep rules f (den env rules c)) f) s =
      ((cs.filter fun c => touches rules s (den env rules c)).map (den env rules)).foldl (stepAt rules s) (f s) := by
  have e : cs.foldl (fun f c => absStep rules f (den env rules c)) f = (cs.map (den env rules)).foldl (absStep rules) f := by
    rw [List.foldl_map]
  rw [e, fold_at, fold_filter, List.filter_map]
  rfl

end

section
open Annet Annet.Rules Annet.Device Annet.Device.Abs Annet.Converge
open Annet.Diff Annet.Diff.Spec Annet.Diff.Lemmas

/-! ### Part 1: annotation of a flat configuration -/

/-- an annotated level of leaves whose matches are what `classify` says -/
def FlatLevel (rules : PRules) (l : Level) : Prop :=
  ∀ x ∈ l, x.2.2 = .mk [] ∧ ∃ cr, classify rules x.1 = some (x.2.1, cr)

theorem annotateList_nil (rules : PRules) : annotateList rules [] = .ok [] := by rw [annotateList]

theorem annotate_leaf (rules : PRules) : annotate rules (.mk []) = .ok (.mk []) := by
  rw [annotate, annotateList_nil]; rfl

theorem annotateList_flat (rules : PRules) : ∀ (ks : List (String × Cfg)),
    (∀ e ∈ ks, e.2 = .mk []) → (∀ e ∈ ks, (slotOf rules e.1).isSome) →
    ∃ al, annotateList rules ks = .ok al ∧ al.map (·.1) = ks.map (·.1) ∧ FlatLevel rules al
  | [], _, _ => ⟨[], annotateList_nil rules, rfl, fun _ h => by cases h⟩
  | (row, ch) :: rest, hf, hk => by
    have hch : ch = .mk [] := hf (row, ch) List.mem_cons_self
    subst hch
    have hs := hk (row, .mk []) List.mem_cons_self
    obtain ⟨al, h1, h2, h3⟩ := annotateList_flat rules rest
      (fun e he => hf e (List.mem_cons_of_mem _ he)) (fun e he => hk e (List.mem_cons_of_mem _ he))
    cases hcl : classify rules row with
    | none => simp [slotOf, hcl] at hs
    | some mc =>
      obtain ⟨m, cr⟩ := mc
      have hm : matchRow row rules = .found m cr := by
        unfold classify at hcl
        split at hcl
        · rename_i m' cr' hm; cases hcl; exact hm
        · cases hcl
      refine ⟨(row, m, .mk []) :: al, ?_, by simp [h2], ?_⟩
      · rw [annotateList]
        simp only [hm, annotate_leaf, h1]
      · intro x hx
        rcases List.mem_cons.1 hx with rfl | hx
        · exact ⟨rfl, cr, hcl⟩
        · exact h3 x hx

/-! ### Part 2: the diff of two flat levels -/

def RecNil (rec : Rec) : Prop := ∀ pops, rec pops [] [] = .ok []

theorem callDiffLogic_recNil (fuel : Nat) : RecNil (callDiffLogic fuel) := by
  intro pops
  cases fuel with
  | zero => rfl
  | succ n => simp [callDiffLogic, logicsOf, runLogics]

theorem removedItems_flat (rec : Rec) (hrec : RecNil rec) (pops : List Pop) (new : Level) :
    ∀ (old : Level) (idx : Nat), (∀ x ∈ old, x.2.2 = .mk []) →
    ∃ rs, removedItems rec pops new idx old = .ok rs ∧
      rs.map (·.2) = (old.filter fun e => !hasRow new e.1).map fun e => .mk .removed e.1 [] e.2.1
  | [], idx, _ => ⟨[], by rw [removedItems], rfl⟩
  | (row, m, ch) :: rest, idx, hf => by
    have hch : ch = .mk [] := hf (row, m, ch) List.mem_cons_self
    subst hch
    obtain ⟨rs, h1, h2⟩ := removedItems_flat rec hrec pops new rest (idx + 1)
      (fun x hx => hf x (List.mem_cons_of_mem _ hx))
    rw [removedItems]
    by_cases hr : hasRow new row = true
    · rw [if_pos hr]
      exact ⟨rs, h1, by simp [hr, h2]⟩
    · rw [if_neg hr]
      simp only [ACfg.kids, hrec (pops ++ [.op .removed]), h1]
      exact ⟨_, rfl, by simp [hr, h2]⟩

theorem oldKids_flat {old : Level} (hf : ∀ x ∈ old, x.2.2 = .mk []) (row : String) : oldKids old row = [] := by
  unfold oldKids lookupA
  cases h : old.find? (·.1 == row) with
  | none => rfl
  | some x =>
    have := hf x (List.mem_of_find?_eq_some h)
    obtain ⟨r, m, c⟩ := x
    simp only at this
    subst this
    rfl

theorem newItems_flat (rec : Rec) (hrec : RecNil rec) (pops : List Pop) (old : Level)
    (hfo : ∀ x ∈ old, x.2.2 = .mk []) :
    ∀ (new : Level) (idx : Nat) (dis : Bool), (∀ x ∈ new, x.2.2 = .mk []) →
    ∃ ns, newItems rec pops true old idx dis new = .ok ns ∧
      ns.map (·.2) = new.map fun e => .mk (if hasRow old e.1 then lastOp pops else .added) e.1 [] e.2.1
  | [], idx, dis, _ => ⟨[], by rw [newItems], rfl⟩
  | (row, m, ch) :: rest, idx, dis, hf => by
    have hch : ch = .mk [] := hf (row, m, ch) List.mem_cons_self
    subst hch
    obtain ⟨ns, h1, h2⟩ := newItems_flat rec hrec pops old hfo rest (idx + 1) (disOf old idx dis row)
      (fun x hx => hf x (List.mem_cons_of_mem _ hx))
    rw [newItems_cons, oldKids_flat hfo]
    simp only [ACfg.kids, hrec (pops ++ [.op (opOf pops true old idx dis row)]), h1]
    refine ⟨_, rfl, ?_⟩
    have : opOf pops true old idx dis row = if hasRow old row then lastOp pops else .added := by
      unfold opOf
      cases hasRow old row <;> simp
    simp [this, h2]

/-- the diff of two flat levels before `mark_unchanged`, up to order -/
def rawDiff (pops : List Pop) (old new : Level) : List DItem :=
  ((old.filter fun e => !hasRow new e.1).map fun e => DItem.mk .removed e.1 [] e.2.1) ++
  new.map fun e => .mk (if hasRow old e.1 then lastOp pops else .added) e.1 [] e.2.1

theorem baseDiff_flat (rec : Rec) (hrec : RecNil rec) (pops : List Pop) (old new : Level)
    (hfo : ∀ x ∈ old, x.2.2 = .mk []) (hfn : ∀ x ∈ new, x.2.2 = .mk []) :
    ∃ d, baseDiff rec pops true old new = .ok d ∧ d.Perm (rawDiff pops old new) := by
  obtain ⟨rs, h1, h2⟩ := removedItems_flat rec hrec pops new old 0 hfo
  obtain ⟨ns, h3, h4⟩ := newItems_flat rec hrec pops old hfo new 0 false hfn
  refine ⟨(sortIdx (rs ++ ns)).map (·.2), by simp [baseDiff, h1, h3], ?_⟩
  refine ((sortIdx_perm (rs ++ ns)).map (·.2)).trans ?_
  rw [List.map_append, h2, h4]
  exact List.Perm.refl _

theorem eraseDups_const {α} [BEq α] [LawfulBEq α] (a : α) : ∀ (l : List α), (∀ x ∈ l, x = a) →
    l.eraseDups = if l.isEmpty then [] else [a]
  | [], _ => by simp
  | x :: rest, h => by
    have hx : x = a := h x List.mem_cons_self
    subst hx
    rw [List.eraseDups_cons]
    have : rest.filter (fun b => !b == x) = [] := by
      rw [List.filter_eq_nil_iff]
      intro b hb
      simp [h b (List.mem_cons_of_mem _ hb)]
    simp [this]

theorem callDiffLogic_flat (rules : PRules) (hfr : FlatRules rules) (fuel : Nat) (pops : List Pop)
    (old new : Level) (ho : FlatLevel rules old) (hn : FlatLevel rules new) :
    ∃ d, callDiffLogic (fuel + 1) pops old new = .ok d ∧ d.Perm (rawDiff pops old new) := by
  have hall : ∀ x ∈ (old ++ new).map (·.2.1.attrs.diffLogic), x = "common.default_diff" := by
    intro x hx
    obtain ⟨e, he, rfl⟩ := List.mem_map.1 hx
    rcases List.mem_append.1 he with he | he
    · obtain ⟨-, cr, hcl⟩ := ho e he; exact (flat_match hfr hcl).1
    · obtain ⟨-, cr, hcl⟩ := hn e he; exact (flat_match hfr hcl).1
  rw [callDiffLogic]
  unfold logicsOf
  rw [eraseDups_const _ _ hall]
  by_cases hemp : ((old ++ new).map (·.2.1.attrs.diffLogic)).isEmpty = true
  · rw [if_pos hemp]
    simp only [List.isEmpty_iff, List.map_eq_nil_iff, List.append_eq_nil_iff] at hemp
    obtain ⟨rfl, rfl⟩ := hemp
    exact ⟨[], by rw [runLogics], by simp [rawDiff]⟩
  · rw [if_neg hemp]
    have fo : old.filter (·.2.1.attrs.diffLogic == "common.default_diff") = old := by
      rw [List.filter_eq_self]
      intro e he
      rw [beq_iff_eq]
      exact hall _ (List.mem_map_of_mem (List.mem_append_left _ he))
    have fn : new.filter (·.2.1.attrs.diffLogic == "common.default_diff") = new := by
      rw [List.filter_eq_self]
      intro e he
      rw [beq_iff_eq]
      exact hall _ (List.mem_map_of_mem (List.mem_append_right _ he))
    obtain ⟨d, h1, h2⟩ := baseDiff_flat (callDiffLogic fuel) (callDiffLogic_recNil fuel) pops old new
      (fun x hx => (ho x hx).1) (fun x hx => (hn x hx).1)
    refine ⟨d ++ [], ?_, by simpa using h2⟩
    rw [runLogics, fo, fn]
    simp only [runLogic, beq_self_eq_true, if_true, h1]
    rw [runLogics]

end

section
open Annet Annet.Rules Annet.Device Annet.Device.Abs Annet.Converge
open Annet.Diff Annet.Diff.Spec Annet.Diff.Lemmas

/-- the match of a known row -/
def matchOf (rules : PRules) (row : String) : PMatch := ((classify rules row).map (·.1)).getD default

theorem classify_matchOf {rules : PRules} {row : String} (h : (slotOf rules row).isSome) :
    ∃ cr, classify rules row = some (matchOf rules row, cr) := by
  unfold matchOf
  cases hcl : classify rules row with
  | none => simp [slotOf, hcl] at h
  | some mc => exact ⟨mc.2, rfl⟩

theorem matchOf_eq {rules : PRules} {row : String} {m : PMatch} {cr : PRules}
    (h : classify rules row = some (m, cr)) : matchOf rules row = m := by
  simp [matchOf, h]

theorem slotOf_matchOf {rules : PRules} {row : String} (h : (slotOf rules row).isSome) :
    slotOf rules row = some ((matchOf rules row).rawRule, (matchOf rules row).key) := by
  obtain ⟨cr, hcl⟩ := classify_matchOf h
  exact Device.Lemmas.slotOf_of_classify hcl

/-- the annotated entry of a known leaf row -/
def ent (rules : PRules) (row : String) : String × PMatch × ACfg := (row, matchOf rules row, .mk [])

/-- the diff item of a known leaf row -/
def ditem (rules : PRules) (op : Op) (row : String) : DItem := .mk op row [] (matchOf rules row)

theorem flatLevel_eq {rules : PRules} {l : Level} (h : FlatLevel rules l) : l = (l.map (·.1)).map (ent rules) := by
  rw [List.map_map]
  conv => lhs; rw [← List.map_id l]
  apply List.map_congr_left
  intro x hx
  obtain ⟨h1, cr, h2⟩ := h x hx
  obtain ⟨r, m, c⟩ := x
  simp only at h1 h2
  subst h1
  simp [ent, matchOf_eq h2]

theorem hasRow_ent (rules : PRules) (l : List String) (r : String) : hasRow (l.map (ent rules)) r = l.contains r := by
  rw [Bool.eq_iff_iff, hasRow_iff, List.contains_iff_mem]
  simp [Spec.rowsOf, ent]

/-- the diff of two flat configurations, up to order, in terms of their rows -/
def flatDiff (rules : PRules) (ro rn : List String) : List DItem :=
  ((ro.filter fun r => !rn.contains r).map (ditem rules .removed)) ++
  rn.map fun r => ditem rules (if ro.contains r then .unchanged else .added) r

theorem markUnchanged_eq_map (d : List DItem) : markUnchanged d = d.map markItem := by
  induction d with
  | nil => rw [markUnchanged_nil]; rfl
  | cons i rest ih => rw [markUnchanged_cons, ih]; rfl

theorem makeDiff_flat (rules : PRules) (hfr : FlatRules rules) (old new : Cfg) (d : List DItem)
    (hfo : FlatCfg old) (hfn : FlatCfg new) (hko : AllKnown rules old) (hkn : AllKnown rules new)
    (h : makeDiff rules old new = .ok d) :
    d.Perm (flatDiff rules (old.kids.map (·.1)) (new.kids.map (·.1))) := by
  obtain ⟨ko⟩ := old
  obtain ⟨kn⟩ := new
  obtain ⟨o, ho1, ho2, ho3⟩ := annotateList_flat rules ko hfo hko
  obtain ⟨n, hn1, hn2, hn3⟩ := annotateList_flat rules kn hfn hkn
  unfold makeDiff at h
  simp only [annotate, ho1, hn1, Except.map] at h
  obtain ⟨d0, hd0, hperm⟩ := callDiffLogic_flat rules hfr (adepth (.mk o) + adepth (.mk n) + 1) [.op .affected] o n ho3 hn3
  have e : adepth (.mk o) + adepth (.mk n) + 2 = adepth (.mk o) + adepth (.mk n) + 1 + 1 := rfl
  simp only [ACfg.kids] at h
  rw [e, hd0] at h
  simp only [Except.ok.injEq] at h
  subst h
  rw [markUnchanged_eq_map]
  refine (hperm.map markItem).trans ?_
  have eo := flatLevel_eq ho3
  have en := flatLevel_eq hn3
  rw [ho2] at eo
  rw [hn2] at en
  simp only [Cfg.kids]
  rw [eo, en]
  generalize ko.map (·.1) = ro
  generalize kn.map (·.1) = rn
  unfold rawDiff flatDiff
  simp only [List.map_append, List.map_map, List.filter_map]
  refine List.Perm.of_eq ?_
  have hp : ((fun e : String × PMatch × ACfg => !hasRow (rn.map (ent rules)) e.1) ∘ ent rules) =
      fun r => !rn.contains r := by
    funext r
    simp only [Function.comp_def, hasRow_ent]
    rfl
  rw [hp]
  congr 1
  apply List.map_congr_left
  intro r _
  simp only [Function.comp_def, hasRow_ent]
  by_cases hc : r ∈ ro <;> simp [hc, ent, ditem, lastOp, markItem_mk, markUnchanged_nil]

end

section
open Annet Annet.Rules Annet.Device Annet.Device.Abs Annet.Converge
open Annet.Diff Annet.Diff.Spec Annet.Diff.Lemmas

/-- the diff item belongs to slot `s` (`make_pre` groups by raw rule and key) -/
def slotIs (s : Slot) (i : DItem) : Bool := (i.m.rawRule, i.m.key) == s

/-- the diff items of one slot, given the lines holding it in `old` and `new` -/
def expected (rules : PRules) : Option String → Option String → List DItem
  | none, none => []
  | some ra, none => [ditem rules .removed ra]
  | none, some rb => [ditem rules .added rb]
  | some ra, some rb =>
    if ra = rb then [ditem rules .unchanged rb] else [ditem rules .removed ra, ditem rules .added rb]

theorem filter_unique {α β} [BEq β] [LawfulBEq β] (f : α → β) (y : β) : ∀ l : List α, (l.map f).Nodup →
    l.filter (fun x => f x == y) = (l.find? (fun x => f x == y)).toList
  | [], _ => rfl
  | a :: l, hn => by
    simp only [List.map_cons, List.nodup_cons] at hn
    rw [List.filter_cons, List.find?_cons]
    by_cases h : f a = y
    · have hb : (f a == y) = true := by simpa using h
      rw [hb]
      simp only [if_true, Option.toList_some]
      congr 1
      rw [List.filter_eq_nil_iff]
      intro x hx hxy
      have : f x = y := by simpa using hxy
      exact hn.1 (by rw [h, ← this]; exact List.mem_map_of_mem hx)
    · have hb : (f a == y) = false := by simpa using h
      rw [hb]
      simp only [Bool.false_eq_true, if_false]
      exact filter_unique f y l hn.2

theorem rows_filter_slot (rules : PRules) (kids : List (String × Cfg)) (hwf : WF rules kids) (s : Slot) :
    (kids.map (·.1)).filter (fun r => slotOf rules r == some s) = (holder rules kids s).toList := by
  have := filter_unique (fun e : String × Cfg => slotOf rules e.1) (some s) kids hwf.2
  rw [List.filter_map]
  show List.map (·.1) (kids.filter fun e => slotOf rules e.1 == some s) = _
  rw [this]
  unfold holder
  cases kids.find? (fun e => slotOf rules e.1 == some s) <;> rfl

theorem holder_some {rules : PRules} {kids : List (String × Cfg)} {s : Slot} {r : String}
    (h : holder rules kids s = some r) : r ∈ kids.map (·.1) ∧ slotOf rules r = some s := by
  unfold holder at h
  obtain ⟨e, he, rfl⟩ := Option.map_eq_some_iff.1 h
  exact ⟨List.mem_map_of_mem (List.mem_of_find?_eq_some he), by simpa using List.find?_some he⟩

theorem holder_of_row {rules : PRules} {kids : List (String × Cfg)} (hwf : WF rules kids) {s : Slot} {r : String}
    (hr : r ∈ kids.map (·.1)) (hs : slotOf rules r = some s) : holder rules kids s = some r := by
  obtain ⟨e, he, rfl⟩ := List.mem_map.1 hr
  exact Device.Lemmas.holder_of_mem hwf he hs

theorem slotIs_ditem {rules : PRules} {r : String} (h : (slotOf rules r).isSome) (s : Slot) (op : Op) :
    slotIs s (ditem rules op r) = (slotOf rules r == some s) := by
  rw [slotOf_matchOf h]
  simp [slotIs, ditem, DItem.m]

theorem flatDiff_slot (rules : PRules) (ko kn : List (String × Cfg)) (hwo : WF rules ko) (hwn : WF rules kn)
    (s : Slot) :
    (flatDiff rules (ko.map (·.1)) (kn.map (·.1))).filter (slotIs s) =
      expected rules (holder rules ko s) (holder rules kn s) := by
  have hko : ∀ r ∈ ko.map (·.1), (slotOf rules r).isSome := by
    intro r hr; obtain ⟨e, he, rfl⟩ := List.mem_map.1 hr; exact hwo.1 e he
  have hkn : ∀ r ∈ kn.map (·.1), (slotOf rules r).isSome := by
    intro r hr; obtain ⟨e, he, rfl⟩ := List.mem_map.1 hr; exact hwn.1 e he
  have e1 := rows_filter_slot rules ko hwo s
  have e2 := rows_filter_slot rules kn hwn s
  generalize hro : ko.map (·.1) = ro at *
  generalize hrn : kn.map (·.1) = rn at *
  unfold flatDiff
  rw [List.filter_append, List.filter_map, List.filter_map, List.filter_filter]
  have c1 : ro.filter (fun a => (slotIs s ∘ ditem rules .removed) a && !rn.contains a) =
      (ro.filter (fun r => slotOf rules r == some s)).filter (fun r => !rn.contains r) := by
    rw [List.filter_filter]
    apply List.filter_congr
    intro r hr
    simp only [Function.comp_def, slotIs_ditem (hko r hr), Bool.and_comm]
  have c2 : rn.filter (slotIs s ∘ fun r => ditem rules (if ro.contains r then .unchanged else .added) r) =
      rn.filter (fun r => slotOf rules r == some s) := by
    apply List.filter_congr
    intro r hr
    simp only [Function.comp_def, slotIs_ditem (hkn r hr)]
  rw [c1, c2, e1, e2]
  cases ha : holder rules ko s with
  | none =>
    cases hb : holder rules kn s with
    | none => rfl
    | some rb =>
      have hnot : rb ∉ ro := by
        intro hc
        have := holder_of_row hwo (hro ▸ hc) (holder_some hb).2
        rw [ha] at this; cases this
      simp [expected, hnot]
  | some ra =>
    have hra := holder_some ha
    cases hb : holder rules kn s with
    | none =>
      have hnot : ra ∉ rn := by
        intro hc
        have := holder_of_row hwn (hrn ▸ hc) hra.2
        rw [hb] at this; cases this
      simp [expected, hnot]
    | some rb =>
      have hrb := holder_some hb
      by_cases hab : ra = rb
      · subst hab
        have h1 : ra ∈ rn := hrn ▸ hrb.1
        have h2 : ra ∈ ro := hro ▸ hra.1
        simp [expected, h1, h2]
      · have h1 : ra ∉ rn := by
          intro hc
          have := holder_of_row hwn (hrn ▸ hc) hra.2
          rw [hb] at this; exact hab (Option.some.inj this).symm
        have h2 : rb ∉ ro := by
          intro hc
          have := holder_of_row hwo (hro ▸ hc) hrb.2
          rw [ha] at this; exact hab (Option.some.inj this)
        simp [expected, h1, h2, hab]

/-- every item of the flat diff is the item of a known row -/
theorem flatDiff_mem (rules : PRules) (ro rn : List String) (ho : ∀ r ∈ ro, (slotOf rules r).isSome)
    (hn : ∀ r ∈ rn, (slotOf rules r).isSome) :
    ∀ i ∈ flatDiff rules ro rn, ∃ op r, i = ditem rules op r ∧ (slotOf rules r).isSome := by
  intro i hi
  unfold flatDiff at hi
  rcases List.mem_append.1 hi with hi | hi
  · obtain ⟨r, hr, rfl⟩ := List.mem_map.1 hi
    exact ⟨_, r, rfl, ho r (List.mem_filter.1 hr).1⟩
  · obtain ⟨r, hr, rfl⟩ := List.mem_map.1 hi
    exact ⟨_, r, rfl, hn r hr⟩

/-- what the rest of the proof uses about the diff -/
structure DiffOK (rules : PRules) (old new : Cfg) (d : List DItem) : Prop where
  known : ∀ i ∈ d, ∃ op r, i = ditem rules op r ∧ (slotOf rules r).isSome
  slot : ∀ s, (d.filter (slotIs s)).Perm (expected rules (holder rules old.kids s) (holder rules new.kids s))

theorem diff_ok (rules : PRules) (hfr : FlatRules rules) (old new : Cfg) (d : List DItem)
    (hfo : FlatCfg old) (hfn : FlatCfg new) (hko : AllKnown rules old) (hkn : AllKnown rules new)
    (hwo : WF rules old.kids) (hwn : WF rules new.kids)
    (h : makeDiff rules old new = .ok d) : DiffOK rules old new d := by
  have hp := makeDiff_flat rules hfr old new d hfo hfn hko hkn h
  constructor
  · intro i hi
    refine flatDiff_mem rules _ _ ?_ ?_ i (hp.mem_iff.1 hi)
    · intro r hr; obtain ⟨e, he, rfl⟩ := List.mem_map.1 hr; exact hwo.1 e he
    · intro r hr; obtain ⟨e, he, rfl⟩ := List.mem_map.1 hr; exact hwn.1 e he
  · intro s
    rw [← flatDiff_slot rules old.kids new.kids hwo hwn s]
    exact hp.filter _

end

section
open Annet Annet.Rules Annet.Device Annet.Device.Abs Annet.Converge
open Annet.Diff Annet.Patch

/-! ### Part 3: `make_pre` groups the diff by slot -/

def rAttrs : PreRule → PAttrs | .mk _ a _ => a
def rItems : PreRule → List PreItem | .mk _ _ i => i

def iGet : PreItem → Op → List PreEntry
  | .mk _ a r m f u, op =>
    match op with
    | .added => a | .removed => r | .moved => m | .affected => f | .unchanged => u

theorem push_key (op : Op) (e : PreEntry) (it : PreItem) : (it.push op e).key = it.key := by
  obtain ⟨k, a, r, m, f, u⟩ := it
  cases op <;> rfl

theorem push_get (op op' : Op) (e : PreEntry) (it : PreItem) :
    iGet (it.push op e) op' = iGet it op' ++ (if op' = op then [e] else []) := by
  obtain ⟨k, a, r, m, f, u⟩ := it
  cases op <;> cases op' <;> simp [PreItem.push, iGet]

/-- items of slot `s` with operation `op` -/
def sel (s : Slot) (op : Op) (i : DItem) : Bool := (i.op == op) && slotIs s i

theorem filter_sel (d : List DItem) (s : Slot) (op : Op) :
    d.filter (sel s op) = (d.filter (slotIs s)).filter (·.op == op) := by
  rw [List.filter_filter]; rfl

def InvI (raw : String) (items : List PreItem) (ds : List DItem) : Prop :=
  (items.map (·.key)).Nodup ∧
  (∀ it ∈ items, ∀ op, iGet it op = (ds.filter (sel (raw, it.key) op)).map entryOf) ∧
  (∀ i ∈ ds, i.m.rawRule = raw → i.m.key ∈ items.map (·.key))

theorem invI_miss {raw : String} {items : List PreItem} {ds : List DItem} (h : InvI raw items ds)
    (i : DItem) (hi : i.m.rawRule ≠ raw) : InvI raw items (ds ++ [i]) := by
  obtain ⟨h1, h2, h3⟩ := h
  refine ⟨h1, ?_, ?_⟩
  · intro it hit op
    rw [h2 it hit op, List.filter_append]
    have : sel (raw, it.key) op i = false := by
      simp [sel, slotIs, hi]
    simp [this]
  · intro i' hi' hr
    rcases List.mem_append.1 hi' with hi' | hi'
    · exact h3 i' hi' hr
    · simp at hi'; subst hi'; exact (hi hr).elim

theorem invI_hit {raw : String} {items : List PreItem} {ds : List DItem} (h : InvI raw items ds)
    (i : DItem) (hi : i.m.rawRule = raw) :
    InvI raw (pushItem i.m.key i.op (entryOf i) items) (ds ++ [i]) := by
  obtain ⟨h1, h2, h3⟩ := h
  unfold pushItem
  by_cases hany : items.any (·.key == i.m.key) = true
  · rw [if_pos hany]
    have hkeys : (items.map fun it => if it.key == i.m.key then it.push i.op (entryOf i) else it).map (·.key) =
        items.map (·.key) := by
      rw [List.map_map]
      apply List.map_congr_left
      intro it _
      simp only [Function.comp_def]
      split
      · exact push_key ..
      · rfl
    refine ⟨by rw [hkeys]; exact h1, ?_, ?_⟩
    · intro it' hit' op
      obtain ⟨it, hit, rfl⟩ := List.mem_map.1 hit'
      rw [List.filter_append, List.map_append]
      by_cases hk : it.key = i.m.key
      · have hb : (it.key == i.m.key) = true := by simpa using hk
        simp only [hb, if_true, push_key, push_get, h2 it hit op]
        congr 1
        by_cases hop : op = i.op
        · subst hop
          have : sel (raw, it.key) i.op i = true := by simp [sel, slotIs, hi, hk]
          simp [this]
        · have : sel (raw, it.key) op i = false := by
            simp only [sel, Bool.and_eq_false_iff, beq_eq_false_iff_ne]
            exact Or.inl (fun h => hop h.symm)
          simp [this, hop]
      · have hb : (it.key == i.m.key) = false := by simpa using hk
        simp only [hb, Bool.false_eq_true, if_false, h2 it hit op]
        have : sel (raw, it.key) op i = false := by
          simp only [sel, slotIs, Bool.and_eq_false_iff, beq_eq_false_iff_ne]
          exact Or.inr (fun h => hk (Prod.mk.inj h).2.symm)
        simp [this]
    · intro i' hi' hr
      rw [hkeys]
      rcases List.mem_append.1 hi' with hi' | hi'
      · exact h3 i' hi' hr
      · simp at hi'; subst hi'
        obtain ⟨it, hit, hk⟩ := List.any_eq_true.1 hany
        rw [beq_iff_eq] at hk
        rw [← hk]; exact List.mem_map_of_mem hit
  · rw [if_neg hany]
    have hnk : i.m.key ∉ items.map (·.key) := by
      intro hm
      obtain ⟨it, hit, hk⟩ := List.mem_map.1 hm
      exact hany (List.any_eq_true.2 ⟨it, hit, by simpa using hk⟩)
    have hnone : ∀ op, ds.filter (sel (raw, i.m.key) op) = [] := by
      intro op
      rw [List.filter_eq_nil_iff]
      intro i' hi' hs
      simp only [sel, slotIs, Bool.and_eq_true, beq_iff_eq, Prod.mk.injEq] at hs
      exact hnk (hs.2.2 ▸ h3 i' hi' hs.2.1)
    have hkey : ((PreItem.mk i.m.key [] [] [] [] []).push i.op (entryOf i)).key = i.m.key := by
      rw [push_key]; rfl
    have hget : ∀ op, iGet ((PreItem.mk i.m.key [] [] [] [] []).push i.op (entryOf i)) op =
        if op = i.op then [entryOf i] else [] := by
      intro op; rw [push_get]; cases op <;> rfl
    refine ⟨?_, ?_, ?_⟩
    · rw [List.map_append, List.nodup_append]
      refine ⟨h1, by simp, ?_⟩
      intro a ha b hb
      simp only [List.map_cons, List.map_nil, List.mem_singleton, hkey] at hb
      subst hb
      exact fun h => hnk (h ▸ ha)
    · intro it' hit' op
      rw [List.filter_append, List.map_append]
      rcases List.mem_append.1 hit' with hit | hit
      · rw [h2 it' hit op]
        have hk : it'.key ≠ i.m.key := fun h => hnk (h ▸ List.mem_map_of_mem hit)
        have : sel (raw, it'.key) op i = false := by
          simp only [sel, slotIs, Bool.and_eq_false_iff, beq_eq_false_iff_ne]
          exact Or.inr (fun h => hk (Prod.mk.inj h).2.symm)
        simp [this]
      · simp only [List.mem_singleton] at hit
        subst hit
        rw [hkey, hget, hnone]
        by_cases hop : op = i.op
        · subst hop
          have : sel (raw, i.m.key) i.op i = true := by simp [sel, slotIs, hi]
          simp [this]
        · have : sel (raw, i.m.key) op i = false := by
            simp only [sel, Bool.and_eq_false_iff, beq_eq_false_iff_ne]
            exact Or.inl (fun h => hop h.symm)
          simp [this, hop]
    · intro i' hi' hr
      rw [List.map_append]
      rcases List.mem_append.1 hi' with hi' | hi'
      · exact List.mem_append_left _ (h3 i' hi' hr)
      · simp only [List.mem_singleton] at hi'; subst hi'
        apply List.mem_append_right
        simp only [List.map_cons, List.map_nil, hkey, List.mem_singleton]

end

section
open Annet Annet.Rules Annet.Device Annet.Device.Abs Annet.Converge
open Annet.Diff Annet.Patch

def InvR (P : List PreRule) (ds : List DItem) : Prop :=
  (P.map (·.raw)).Nodup ∧
  (∀ R ∈ P, InvI R.raw (rItems R) ds ∧ ∃ i ∈ ds, i.m.rawRule = R.raw ∧ i.m.attrs = rAttrs R) ∧
  (∀ i ∈ ds, i.m.rawRule ∈ P.map (·.raw))

/-- the function `pushRule` maps over the rules -/
def pushG (m : PMatch) (op : Op) (e : PreEntry) : PreRule → PreRule
  | .mk raw attrs items => if raw == m.rawRule then .mk raw attrs (pushItem m.key op e items) else .mk raw attrs items

theorem pushRule_eq (m : PMatch) (op : Op) (e : PreEntry) (P : List PreRule) :
    pushRule m op e P = if P.any (·.raw == m.rawRule) then P.map (pushG m op e)
      else P ++ [.mk m.rawRule m.attrs (pushItem m.key op e [])] := by
  unfold pushRule
  split <;> rfl

theorem pushG_raw (m : PMatch) (op : Op) (e : PreEntry) (R : PreRule) : (pushG m op e R).raw = R.raw := by
  obtain ⟨raw, attrs, items⟩ := R
  simp only [pushG]
  split <;> rfl

theorem invR_step {P : List PreRule} {ds : List DItem} (h : InvR P ds) (i : DItem) :
    InvR (pushRule i.m i.op (entryOf i) P) (ds ++ [i]) := by
  obtain ⟨h1, h2, h3⟩ := h
  rw [pushRule_eq]
  by_cases hany : P.any (·.raw == i.m.rawRule) = true
  · rw [if_pos hany]
    have hraws : (P.map (pushG i.m i.op (entryOf i))).map (·.raw) = P.map (·.raw) := by
      rw [List.map_map]
      apply List.map_congr_left
      intro R _
      exact pushG_raw ..
    refine ⟨by rw [hraws]; exact h1, ?_, ?_⟩
    · intro R' hR'
      obtain ⟨R, hR, rfl⟩ := List.mem_map.1 hR'
      obtain ⟨hI, i0, hi0, hraw0, hattrs0⟩ := h2 R hR
      obtain ⟨raw, attrs, items⟩ := R
      by_cases hr : raw = i.m.rawRule
      · have hb : (raw == i.m.rawRule) = true := by simpa using hr
        simp only [pushG, hb, if_true]
        exact ⟨invI_hit hI i hr.symm, i0, List.mem_append_left _ hi0, hraw0, hattrs0⟩
      · have hb : (raw == i.m.rawRule) = false := by simpa using hr
        simp only [pushG, hb, Bool.false_eq_true, if_false]
        exact ⟨invI_miss hI i (fun h => hr h.symm), i0, List.mem_append_left _ hi0, hraw0, hattrs0⟩
    · intro i' hi'
      rw [hraws]
      rcases List.mem_append.1 hi' with hi' | hi'
      · exact h3 i' hi'
      · simp only [List.mem_singleton] at hi'; subst hi'
        obtain ⟨R, hR, hk⟩ := List.any_eq_true.1 hany
        rw [beq_iff_eq] at hk
        rw [← hk]; exact List.mem_map_of_mem hR
  · rw [if_neg hany]
    have hnr : i.m.rawRule ∉ P.map (·.raw) := by
      intro hm
      obtain ⟨R, hR, hk⟩ := List.mem_map.1 hm
      exact hany (List.any_eq_true.2 ⟨R, hR, by simpa using hk⟩)
    refine ⟨?_, ?_, ?_⟩
    · rw [List.map_append, List.nodup_append]
      refine ⟨h1, by simp, ?_⟩
      intro a ha b hb
      simp only [List.map_cons, List.map_nil, List.mem_singleton] at hb
      subst hb
      intro h
      have h' : a = i.m.rawRule := h
      exact hnr (h' ▸ ha)
    · intro R hR
      rcases List.mem_append.1 hR with hR | hR
      · obtain ⟨hI, i0, hi0, hraw0, hattrs0⟩ := h2 R hR
        have hne : i.m.rawRule ≠ R.raw := fun h => hnr (h ▸ List.mem_map_of_mem hR)
        exact ⟨invI_miss hI i hne, i0, List.mem_append_left _ hi0, hraw0, hattrs0⟩
      · simp only [List.mem_singleton] at hR
        subst hR
        have h0 : InvI i.m.rawRule [] ds :=
          ⟨List.nodup_nil, fun _ h => (by cases h), fun i' hi' hr => (hnr (hr ▸ h3 i' hi')).elim⟩
        exact ⟨invI_hit h0 i rfl, i, List.mem_append_right _ List.mem_cons_self, rfl, rfl⟩
    · intro i' hi'
      rw [List.map_append]
      rcases List.mem_append.1 hi' with hi' | hi'
      · exact List.mem_append_left _ (h3 i' hi')
      · simp only [List.mem_singleton] at hi'; subst hi'
        exact List.mem_append_right _ List.mem_cons_self

theorem makePreAcc_inv : ∀ (rest : List DItem) (acc : List PreRule) (ds : List DItem),
    InvR acc ds → InvR (makePreAcc rest acc) (ds ++ rest)
  | [], acc, ds, h => by rw [makePreAcc]; simpa using h
  | i :: rest, acc, ds, h => by
    rw [makePreAcc]
    have := makePreAcc_inv rest _ _ (invR_step h i)
    simpa using this

theorem makePre_inv (d : List DItem) : InvR (makePre d).rules d := by
  have := makePreAcc_inv d [] [] ⟨List.nodup_nil, fun _ h => (by cases h), fun _ h => (by cases h)⟩
  simpa [makePre, Pre.rules] using this

end

section
open Annet Annet.Rules Annet.Device Annet.Device.Abs Annet.Converge
open Annet.Diff Annet.Patch

theorem ite_cases {α : Type} {c : Prop} [Decidable c] {a b x : α} (h : (if c then a else b) = x) :
    a = x ∨ b = x := by
  split at h
  · exact Or.inl h
  · exact Or.inr h

theorem upd_ok (st1 : OState) (i w : Nat) (c : Prop) [Decidable c] :
    (if c then ({ st1 with fOrder := some (.fin i), fWeight := w } : OState) else st1).direct = st1.direct ∧
    ((if c then ({ st1 with fOrder := some (.fin i), fWeight := w } : OState) else st1).fOrder = st1.fOrder ∨
     (if c then ({ st1 with fOrder := some (.fin i), fWeight := w } : OState) else st1).fOrder = some (.fin i)) := by
  split <;> simp

theorem step_cases (v : Vendor) (row : String) (sc : Option String) (st st' : OState) (i : Nat) (r : ORule)
    (h : getOrderStep v row sc st i r = some st') :
    (st'.direct = st.direct ∧ (st'.fOrder = st.fOrder ∨ st'.fOrder = some (.fin i))) ∨
    (r.orderReverse = true ∧ st.direct = false) ∨
    (v.exit ≠ "" ∧ v.exit = row ∧ st'.direct = true) := by
  unfold getOrderStep at h
  simp only [] at h
  have key : ∀ st1 : OState, st1 = (if r.isGlobal = true then
      { fOrder := st.fOrder, fWeight := st.fWeight, direct := st.direct, children := st.children ++ [r] } else st) →
      st1.direct = st.direct ∧ st1.fOrder = st.fOrder := by
    intro st1 h1; subst h1; split <;> exact ⟨rfl, rfl⟩
  generalize (if r.isGlobal = true then
      ({ fOrder := st.fOrder, fWeight := st.fWeight, direct := st.direct, children := st.children ++ [r] } : OState)
      else st) = st1 at h key
  obtain ⟨k1, k2⟩ := key st1 rfl
  clear key
  cases hdp : oDirectPat r with
  | none =>
    simp only [hdp, Option.bind_eq_bind, Option.bind_none, Option.pure_def] at h
    rcases ite_cases h with h | h
    · cases h; exact Or.inl ⟨rfl, Or.inl rfl⟩
    · cases h
  | some dp =>
    cases hrp : oReversePat v r with
    | none =>
      simp only [hdp, hrp, Option.bind_eq_bind, Option.bind_none, Option.bind_some, Option.pure_def] at h
      rcases ite_cases h with h | h
      · cases h; exact Or.inl ⟨rfl, Or.inl rfl⟩
      · cases h
    | some rp =>
      simp only [hdp, hrp, Option.bind_eq_bind, Option.bind_some, Option.pure_def] at h
      rcases ite_cases h with h | h
      · cases h; exact Or.inl ⟨rfl, Or.inl rfl⟩
      · by_cases hc1 : (!r.orderReverse && ((dp.match? row.toList).isSome || (rp.match? row.toList).isSome)) = true
        · rw [if_pos hc1] at h
          simp only [Option.some.injEq] at h
          subst h
          left
          simp only
          rw [← k1, ← k2]
          exact upd_ok _ _ _ _
        · rw [if_neg hc1] at h
          by_cases hc2 : (r.orderReverse && !st1.direct && (dp.match? row.toList).isSome) = true
          · right; left
            simp only [Bool.and_eq_true, Bool.not_eq_true', k1] at hc2
            exact ⟨hc2.1.1, hc2.1.2⟩
          · rw [if_neg hc2] at h
            by_cases hc3 : (v.exit != "" && v.exit == row) = true
            · right; right
              rw [if_pos hc3] at h
              cases h
              simp only [Bool.and_eq_true, bne_iff_ne, ne_eq, beq_iff_eq] at hc3
              exact ⟨hc3.1, hc3.2, rfl⟩
            · rw [if_neg hc3] at h
              cases h
              exact Or.inl ⟨k1, Or.inl k2⟩
theorem go_true (v : Vendor) (row : String) (sc : Option String) : ∀ (rb : List ORule) (i : Nat) (st st' : OState),
    getOrder.go v row sc rb i st = some st' → st.direct = true → st'.direct = true
  | [], i, st, st', h, hd => by
    simp only [getOrder.go, Option.some.injEq] at h
    subst h; exact hd
  | r :: rs, i, st, st', h, hd => by
    simp only [getOrder.go] at h
    split at h
    · cases h
    · rename_i st1 hst1
      refine go_true v row sc rs (i + 1) st1 st' h ?_
      rcases step_cases v row sc st st1 i r hst1 with ⟨h1, -⟩ | ⟨-, h2⟩ | ⟨-, -, h3⟩
      · rw [h1]; exact hd
      · rw [hd] at h2; cases h2
      · exact h3

/-- the state of `get_order` for a command that is not direct: no rule made it direct -/
def NotDirect (st : OState) : Prop := st.direct = false ∧ (st.fOrder = none ∨ ∃ n, st.fOrder = some (.fin n))

theorem go_false (v : Vendor) (row : String) (sc : Option String) (hex : v.exit = "" ∨ v.exit ≠ row) :
    ∀ (rb : List ORule) (i : Nat) (st st' : OState), (∀ r ∈ rb, r.orderReverse = false) →
    getOrder.go v row sc rb i st = some st' → NotDirect st → NotDirect st'
  | [], i, st, st', _, h, hd => by
    simp only [getOrder.go, Option.some.injEq] at h
    subst h; exact hd
  | r :: rs, i, st, st', hrb, h, hd => by
    simp only [getOrder.go] at h
    split at h
    · cases h
    · rename_i st1 hst1
      refine go_false v row sc hex rs (i + 1) st1 st' (fun r hr => hrb r (List.mem_cons_of_mem _ hr)) h ?_
      rcases step_cases v row sc st st1 i r hst1 with ⟨h1, h2⟩ | ⟨h2, -⟩ | ⟨h2, h3, -⟩
      · refine ⟨by rw [h1]; exact hd.1, ?_⟩
        rcases h2 with h2 | h2
        · rw [h2]; exact hd.2
        · exact Or.inr ⟨i, h2⟩
      · rw [hrb r List.mem_cons_self] at h2; cases h2
      · rcases hex with hex | hex
        · exact (h2 hex).elim
        · exact (hex h3).elim

theorem getOrder_direct (v : Vendor) (rb : List ORule) (row : String) (sc : Option String) (o : OrderRes)
    (h : getOrder v rb row true sc = some o) : o.direct = true := by
  unfold getOrder at h
  split at h
  · cases h
  · rename_i st hst
    cases h
    exact go_true v row sc rb 0 _ st hst rfl

theorem getOrder_removal (v : Vendor) (rb : List ORule) (row : String) (sc : Option String) (o : OrderRes)
    (hrb : ∀ r ∈ rb, r.orderReverse = false) (hex : v.exit = "" ∨ v.exit ≠ row)
    (h : getOrder v rb row false sc = some o) : o.direct = false ∧ ∃ n, o.order = .fin n := by
  unfold getOrder at h
  split at h
  · cases h
  · rename_i st hst
    cases h
    obtain ⟨h1, h2⟩ := go_false v row sc hex rb 0 _ st hrb hst ⟨rfl, Or.inl rfl⟩
    refine ⟨h1, ?_⟩
    rcases h2 with h2 | ⟨n, h2⟩
    · exact ⟨0, by simp [h2]⟩
    · exact ⟨n, by simp [h2]⟩

theorem noPin_top : ∀ (rb : List ORule), NoPin rb → ∀ r ∈ rb, r.orderReverse = false
  | [], _, r, hr => by cases hr
  | r0 :: rest, h, r, hr => by
    rw [NoPin] at h
    rcases List.mem_cons.1 hr with rfl | hr
    · obtain ⟨a, b, orev, c, d, ch⟩ := r
      have := h.1
      rw [NoPinRule] at this
      exact this.1
    · exact noPin_top rest h.2 r hr

/-- the creation of a row never sorts before the removal command of the same rule -/
theorem put_not_before_removal (raw : String) (o1 o2 : OrderRes) (h1 : o1.direct = false ∧ ∃ n, o1.order = .fin n)
    (h2 : o2.direct = true) :
    SortKey.lt ⟨signed o2.order o2.direct, raw, o2.direct⟩ ⟨signed o1.order o1.direct, raw, o1.direct⟩ = false := by
  obtain ⟨h1, n1, h1'⟩ := h1
  rw [h1, h1', h2]
  cases o2.order with
  | fin n2 => exact Patch.Lemmas.removal_key_not_after_creation n1 n2 raw
  | inf => simp [SortKey.lt, signed, SOrd.lt]

end

section
open Annet Annet.Rules Annet.Device Annet.Device.Abs Annet.Converge
open Annet.Diff Annet.Patch

/-! ### Part 4b: what the logic functions yield for one slot -/

theorem entryOf_ditem (rules : PRules) (op : Op) (r : String) : entryOf (ditem rules op r) = .mk r (.mk []) := by
  rw [ditem, entryOf, makePreAcc]

@[simp] theorem ditem_op (rules : PRules) (op : Op) (r : String) : (ditem rules op r).op = op := rfl

theorem bucket_content {rules : PRules} {old new : Cfg} {d : List DItem} {raw : String} {items : List PreItem}
    (hI : InvI raw items d) (hd : DiffOK rules old new d) {it : PreItem} (hit : it ∈ items) (op : Op) :
    (iGet it op).Perm (((expected rules (holder rules old.kids (raw, it.key))
      (holder rules new.kids (raw, it.key))).filter (·.op == op)).map entryOf) := by
  rw [hI.2.1 it hit op, filter_sel]
  exact ((hd.slot _).filter _).map _

theorem logic_none (v : Vendor) (attrs : PAttrs)
    (hl : attrs.logic = "common.default" ∨ attrs.logic = "common.undo_redo") (k : List String) (U : List PreEntry)
    (ys : List Yield) (h : Patch.runLogic v attrs (.mk k [] [] [] [] U) = .ok ys) : ys = [] := by
  rcases hl with hl | hl <;> simp [Patch.runLogic, hl, logicDefault, logicUndoRedo] at h <;> exact h

theorem logic_rem (v : Vendor) (attrs : PAttrs)
    (hl : attrs.logic = "common.default" ∨ attrs.logic = "common.undo_redo") (k : List String) (e : PreEntry)
    (ys : List Yield) (h : Patch.runLogic v attrs (.mk k [] [e] [] [] []) = .ok ys) :
    ∃ c, reverseCmd v attrs k = some c ∧ ys = [⟨false, c, none⟩] := by
  cases hr : reverseCmd v attrs k with
  | none => rcases hl with hl | hl <;> simp [Patch.runLogic, hl, logicDefault, logicUndoRedo, hr] at h
  | some c =>
    refine ⟨c, rfl, ?_⟩
    rcases hl with hl | hl <;> simp [Patch.runLogic, hl, logicDefault, logicUndoRedo, hr] at h <;> exact h.symm

theorem logic_add (v : Vendor) (attrs : PAttrs)
    (hl : attrs.logic = "common.default" ∨ attrs.logic = "common.undo_redo") (k : List String) (e : PreEntry)
    (ys : List Yield) (h : Patch.runLogic v attrs (.mk k [e] [] [] [] []) = .ok ys) :
    ys = [⟨true, e.row, some e.children⟩] := by
  rcases hl with hl | hl <;> simp [Patch.runLogic, hl, logicDefault, logicUndoRedo] at h <;> exact h.symm

theorem logic_both (v : Vendor) (attrs : PAttrs)
    (hl : attrs.logic = "common.default" ∨ attrs.logic = "common.undo_redo") (k : List String) (e e' : PreEntry)
    (ys : List Yield) (h : Patch.runLogic v attrs (.mk k [e] [e'] [] [] []) = .ok ys) :
    ys = [⟨true, e.row, some e.children⟩] ∨
    ∃ c, reverseCmd v attrs k = some c ∧ ys = [⟨false, c, none⟩, ⟨true, e.row, some e.children⟩] := by
  rcases hl with hl | hl
  · left
    simp [Patch.runLogic, hl, logicDefault] at h
    exact h.symm
  · right
    cases hr : reverseCmd v attrs k with
    | none => simp [Patch.runLogic, hl, logicDefault, logicUndoRedo, hr] at h
    | some c =>
      refine ⟨c, rfl, ?_⟩
      simp [Patch.runLogic, hl, logicDefault, logicUndoRedo, hr] at h
      exact h.symm

end

section
open Annet Annet.Rules Annet.Device Annet.Device.Abs Annet.Converge
open Annet.Diff Annet.Patch

/-- the yields of one slot, given the lines holding it in `old` and `new` -/
def Shape (v : Vendor) (attrs : PAttrs) (key : List String) (a b : Option String) (ys : List Yield) : Prop :=
  match a, b with
  | none, none => ys = []
  | some _, none => ∃ c, reverseCmd v attrs key = some c ∧ ys = [⟨false, c, none⟩]
  | none, some rb => ys = [⟨true, rb, some (.mk [])⟩]
  | some ra, some rb =>
    if ra = rb then ys = []
    else ys = [⟨true, rb, some (.mk [])⟩] ∨
      ∃ c, reverseCmd v attrs key = some c ∧ ys = [⟨false, c, none⟩, ⟨true, rb, some (.mk [])⟩]

theorem bucket_shape {rules : PRules} {old new : Cfg} {d : List DItem} {raw : String} {items : List PreItem}
    (hI : InvI raw items d) (hd : DiffOK rules old new d) {it : PreItem} (hit : it ∈ items)
    (v : Vendor) (attrs : PAttrs) (hl : attrs.logic = "common.default" ∨ attrs.logic = "common.undo_redo")
    (ys : List Yield) (h : Patch.runLogic v attrs it = .ok ys) :
    Shape v attrs it.key (holder rules old.kids (raw, it.key)) (holder rules new.kids (raw, it.key)) ys := by
  have hc := fun op => bucket_content hI hd hit op
  generalize holder rules old.kids (raw, it.key) = a at hc
  generalize holder rules new.kids (raw, it.key) = b at hc
  obtain ⟨k, A, R, M, F, U⟩ := it
  have hA := hc .added
  have hR := hc .removed
  have hM := hc .moved
  have hF := hc .affected
  have hU := hc .unchanged
  simp only [iGet] at hA hR hM hF hU
  clear hc
  show Shape v attrs k a b ys
  cases a with
  | none =>
    cases b with
    | none =>
      simp only [expected, List.filter_nil, List.map_nil, List.perm_nil] at hA hR hM hF hU
      subst hA hR hM hF
      exact logic_none v attrs hl k U ys h
    | some rb =>
      simp [expected, entryOf_ditem] at hA hR hM hF hU
      subst hA hR hM hF hU
      exact logic_add v attrs hl k _ ys h
  | some ra =>
    cases b with
    | none =>
      simp [expected, entryOf_ditem] at hA hR hM hF hU
      subst hA hR hM hF hU
      exact logic_rem v attrs hl k _ ys h
    | some rb =>
      by_cases hab : ra = rb
      · simp [expected, hab, entryOf_ditem] at hA hR hM hF hU
        subst hA hR hM hF
        simp only [Shape, hab, if_true]
        exact logic_none v attrs hl k U ys h
      · simp [expected, hab, entryOf_ditem] at hA hR hM hF hU
        subst hA hR hM hF hU
        simp only [Shape, hab, if_false]
        exact logic_both v attrs hl k _ _ ys h

end

section
open Annet Annet.Rules Annet.Device Annet.Device.Abs Annet.Converge
open Annet.Diff Annet.Patch

/-! ### Part 5a: the raw items of a patch, bucket by bucket -/

/-- the raw items of one bucket (one `PreItem` of one rule) -/
def bucketRun (lg : LogicFn) (rec : PRec) (v : Vendor) (ord : List ORule) (dc : Bool) (raw : String) (attrs : PAttrs)
    (it : PreItem) : Except Patch.Err (List RawItem) :=
  match lg v attrs it with
  | .error e => .error e
  | .ok ys => yieldsToItems rec v ord dc raw attrs ys

theorem itemsOfRule_cons (lg : LogicFn) (rec : PRec) (v : Vendor) (ord : List ORule) (dc : Bool) (raw : String)
    (attrs : PAttrs) (it : PreItem) (rest : List PreItem) (out : List RawItem)
    (h : itemsOfRule lg rec v ord dc raw attrs (it :: rest) = .ok out) :
    ∃ a b, bucketRun lg rec v ord dc raw attrs it = .ok a ∧
      itemsOfRule lg rec v ord dc raw attrs rest = .ok b ∧ out = a ++ b := by
  rw [itemsOfRule] at h
  unfold bucketRun
  split at h
  · cases h
  · rename_i ys hys
    rw [hys]
    split at h
    · cases h
    · rename_i a ha
      split at h
      · cases h
      · rename_i b hb
        cases h
        exact ⟨a, b, ha, hb, rfl⟩

theorem itemsOfPre_cons (lg : LogicFn) (rec : PRec) (v : Vendor) (ord : List ORule) (dc : Bool)
    (R : PreRule) (rest : List PreRule) (out : List RawItem)
    (h : itemsOfPre lg rec v ord dc (R :: rest) = .ok out) :
    ∃ a b, itemsOfRule lg rec v ord dc R.raw (rAttrs R) (rItems R) = .ok a ∧
      itemsOfPre lg rec v ord dc rest = .ok b ∧ out = a ++ b := by
  obtain ⟨raw, attrs, items⟩ := R
  rw [itemsOfPre] at h
  split at h
  · cases h
  · rename_i a ha
    split at h
    · cases h
    · rename_i b hb
      cases h
      exact ⟨a, b, ha, hb, rfl⟩

theorem itemsOfRule_mem (lg : LogicFn) (rec : PRec) (v : Vendor) (ord : List ORule) (dc : Bool) (raw : String)
    (attrs : PAttrs) : ∀ (items : List PreItem) (out : List RawItem),
    itemsOfRule lg rec v ord dc raw attrs items = .ok out → ∀ x ∈ out,
    ∃ it ∈ items, ∃ chunk, bucketRun lg rec v ord dc raw attrs it = .ok chunk ∧ x ∈ chunk
  | [], out, h, x, hx => by
    rw [itemsOfRule] at h; cases h; cases hx
  | it :: rest, out, h, x, hx => by
    obtain ⟨a, b, ha, hb, rfl⟩ := itemsOfRule_cons lg rec v ord dc raw attrs it rest out h
    rcases List.mem_append.1 hx with hx | hx
    · exact ⟨it, List.mem_cons_self, a, ha, hx⟩
    · obtain ⟨it', hit', chunk, h1, h2⟩ := itemsOfRule_mem lg rec v ord dc raw attrs rest b hb x hx
      exact ⟨it', List.mem_cons_of_mem _ hit', chunk, h1, h2⟩

theorem itemsOfPre_mem (lg : LogicFn) (rec : PRec) (v : Vendor) (ord : List ORule) (dc : Bool) :
    ∀ (P : List PreRule) (out : List RawItem),
    itemsOfPre lg rec v ord dc P = .ok out → ∀ x ∈ out,
    ∃ R ∈ P, ∃ it ∈ rItems R, ∃ chunk, bucketRun lg rec v ord dc R.raw (rAttrs R) it = .ok chunk ∧ x ∈ chunk
  | [], out, h, x, hx => by
    rw [itemsOfPre] at h; cases h; cases hx
  | R :: rest, out, h, x, hx => by
    obtain ⟨a, b, ha, hb, rfl⟩ := itemsOfPre_cons lg rec v ord dc R rest out h
    rcases List.mem_append.1 hx with hx | hx
    · obtain ⟨it, hit, chunk, h1, h2⟩ := itemsOfRule_mem lg rec v ord dc R.raw (rAttrs R) (rItems R) a ha x hx
      exact ⟨R, List.mem_cons_self, it, hit, chunk, h1, h2⟩
    · obtain ⟨R', hR', it, hit, chunk, h1, h2⟩ := itemsOfPre_mem lg rec v ord dc rest b hb x hx
      exact ⟨R', List.mem_cons_of_mem _ hR', it, hit, chunk, h1, h2⟩

/-- the raw items selected by a predicate that, on the items of a bucket, only depends on the bucket's key -/
theorem itemsOfRule_filter (lg : LogicFn) (rec : PRec) (v : Vendor) (ord : List ORule) (dc : Bool) (raw : String)
    (attrs : PAttrs) (q : RawItem → Bool) (k : List String) : ∀ (items : List PreItem) (out : List RawItem),
    itemsOfRule lg rec v ord dc raw attrs items = .ok out → (items.map (·.key)).Nodup →
    (∀ it ∈ items, ∀ chunk, bucketRun lg rec v ord dc raw attrs it = .ok chunk → ∀ x ∈ chunk, q x = (it.key == k)) →
    (k ∉ items.map (·.key) ∧ out.filter q = []) ∨
    (∃ it ∈ items, it.key = k ∧ ∃ chunk, bucketRun lg rec v ord dc raw attrs it = .ok chunk ∧ out.filter q = chunk)
  | [], out, h, _, _ => by
    rw [itemsOfRule] at h; cases h
    exact Or.inl ⟨by simp, rfl⟩
  | it :: rest, out, h, hn, hq => by
    obtain ⟨a, b, ha, hb, rfl⟩ := itemsOfRule_cons lg rec v ord dc raw attrs it rest out h
    simp only [List.map_cons, List.nodup_cons] at hn
    have ih := itemsOfRule_filter lg rec v ord dc raw attrs q k rest b hb hn.2
      (fun it' hit' => hq it' (List.mem_cons_of_mem _ hit'))
    have hqa := hq it List.mem_cons_self a ha
    rw [List.filter_append]
    by_cases hk : it.key = k
    · have fa : a.filter q = a := by
        rw [List.filter_eq_self]; intro x hx; rw [hqa x hx]; simpa using hk
      right
      refine ⟨it, List.mem_cons_self, hk, a, ha, ?_⟩
      rcases ih with ⟨-, h2⟩ | ⟨it', hit', hk', -⟩
      · rw [fa, h2, List.append_nil]
      · exact (hn.1 (by rw [hk, ← hk']; exact List.mem_map_of_mem hit')).elim
    · have fa : a.filter q = [] := by
        rw [List.filter_eq_nil_iff]; intro x hx; rw [hqa x hx]; simpa using hk
      rw [fa, List.nil_append]
      rcases ih with ⟨h1, h2⟩ | ⟨it', hit', hk', chunk, h1, h2⟩
      · left
        refine ⟨?_, h2⟩
        simp only [List.map_cons, List.mem_cons, not_or]
        exact ⟨fun h => hk h.symm, h1⟩
      · right
        exact ⟨it', List.mem_cons_of_mem _ hit', hk', chunk, h1, h2⟩

theorem itemsOfPre_filter (lg : LogicFn) (rec : PRec) (v : Vendor) (ord : List ORule) (dc : Bool)
    (q : RawItem → Bool) (raw0 : String) : ∀ (P : List PreRule) (out : List RawItem),
    itemsOfPre lg rec v ord dc P = .ok out → (P.map (·.raw)).Nodup →
    (∀ R ∈ P, R.raw ≠ raw0 → ∀ it ∈ rItems R, ∀ chunk,
      bucketRun lg rec v ord dc R.raw (rAttrs R) it = .ok chunk → ∀ x ∈ chunk, q x = false) →
    (raw0 ∉ P.map (·.raw) ∧ out.filter q = []) ∨
    (∃ R ∈ P, R.raw = raw0 ∧ ∃ o, itemsOfRule lg rec v ord dc R.raw (rAttrs R) (rItems R) = .ok o ∧
      out.filter q = o.filter q)
  | [], out, h, _, _ => by
    rw [itemsOfPre] at h; cases h
    exact Or.inl ⟨by simp, rfl⟩
  | R :: rest, out, h, hn, hq => by
    obtain ⟨a, b, ha, hb, rfl⟩ := itemsOfPre_cons lg rec v ord dc R rest out h
    simp only [List.map_cons, List.nodup_cons] at hn
    have ih := itemsOfPre_filter lg rec v ord dc q raw0 rest b hb hn.2
      (fun R' hR' => hq R' (List.mem_cons_of_mem _ hR'))
    rw [List.filter_append]
    by_cases hk : R.raw = raw0
    · right
      refine ⟨R, List.mem_cons_self, hk, a, ha, ?_⟩
      rcases ih with ⟨-, h2⟩ | ⟨R', hR', hk', -⟩
      · rw [h2, List.append_nil]
      · exact (hn.1 (by rw [hk, ← hk']; exact List.mem_map_of_mem hR')).elim
    · have fa : a.filter q = [] := by
        rw [List.filter_eq_nil_iff]
        intro x hx
        obtain ⟨it, hit, chunk, h1, h2⟩ := itemsOfRule_mem lg rec v ord dc R.raw (rAttrs R) (rItems R) a ha x hx
        rw [hq R List.mem_cons_self hk it hit chunk h1 x h2]
        simp
      rw [fa, List.nil_append]
      rcases ih with ⟨h1, h2⟩ | ⟨R', hR', hk', o, h1, h2⟩
      · left
        refine ⟨?_, h2⟩
        simp only [List.map_cons, List.mem_cons, not_or]
        exact ⟨fun h => hk h.symm, h1⟩
      · right
        exact ⟨R', List.mem_cons_of_mem _ hR', hk', o, h1, h2⟩

end

section
open Annet Annet.Rules Annet.Device Annet.Device.Abs Annet.Converge
open Annet.Diff Annet.Patch

/-! ### Part 5b: from yields to raw items; what the commands denote -/

def ItemOf (v : Vendor) (ord : List ORule) (raw : String) (attrs : PAttrs) (y : Yield) (x : RawItem) : Prop :=
  x.row = y.row ∧ x.rawRule = raw ∧ x.forceCommit = attrs.forceCommit ∧
  ∃ o, getOrder v ord y.row y.direct (some "patch") = some o ∧ x.order = o.order ∧ x.orderDirect = o.direct

def Rel (v : Vendor) (ord : List ORule) (raw : String) (attrs : PAttrs) : List Yield → List RawItem → Prop
  | [], [] => True
  | y :: ys, x :: xs => ItemOf v ord raw attrs y x ∧ Rel v ord raw attrs ys xs
  | _, _ => False

theorem yields_rel (rec : PRec) (v : Vendor) (ord : List ORule) (raw : String) (attrs : PAttrs) :
    ∀ (ys : List Yield) (chunk : List RawItem),
    yieldsToItems rec v ord true raw attrs ys = .ok chunk → Rel v ord raw attrs ys chunk
  | [], chunk, h => by
    rw [yieldsToItems] at h; cases h; trivial
  | y :: ys, chunk, h => by
    rw [yieldsToItems] at h
    split at h
    · cases h
    · rename_i o ho
      simp only [Bool.not_true, Bool.false_and, Bool.false_eq_true, if_false] at h
      split at h
      · cases h
      · split at h
        · cases h
        · rename_i more hmore
          cases h
          exact ⟨⟨rfl, rfl, rfl, o, ho, rfl, rfl⟩, yields_rel rec v ord raw attrs ys more hmore⟩

theorem rel_mem {v : Vendor} {ord : List ORule} {raw : String} {attrs : PAttrs} :
    ∀ {ys : List Yield} {chunk : List RawItem}, Rel v ord raw attrs ys chunk →
    ∀ x ∈ chunk, ∃ y ∈ ys, ItemOf v ord raw attrs y x
  | [], [], _, x, hx => by cases hx
  | [], _ :: _, h, _, _ => h.elim
  | _ :: _, [], h, _, _ => h.elim
  | y :: ys, x0 :: xs, h, x, hx => by
    rcases List.mem_cons.1 hx with rfl | hx
    · exact ⟨y, List.mem_cons_self, h.1⟩
    · obtain ⟨y', hy', h'⟩ := rel_mem h.2 x hx
      exact ⟨y', List.mem_cons_of_mem _ hy', h'⟩

/-- a command word of slot `sb`: a line of the slot, or the removal command of a line of the slot -/
def CmdFor (v : Vendor) (rules : PRules) (sb : Slot) (c : String) : Prop :=
  slotOf rules c = some sb ∨
  ∃ row m cr, classify rules row = some (m, cr) ∧ (m.rawRule, m.key) = sb ∧ reverseCmd v m.attrs m.key = some c

theorem den_line {v : Vendor} {env : Env} {rules : PRules} (hc : CmdsOK v env rules) {c : String}
    (h : (slotOf rules c).isSome) : den env rules c = .put c ∧ Denotes env rules c (.put c) := by
  obtain ⟨h1, h2⟩ := hc.line c h
  refine ⟨?_, h1, rfl, h, h2⟩
  unfold den
  rw [if_neg h1]
  cases hs : stripReverse env c with
  | none => rfl
  | some r' =>
    rw [hs] at h2
    simp only [Option.bind_some] at h2
    simp [h2]

theorem den_removal {v : Vendor} {env : Env} {rules : PRules} (hc : CmdsOK v env rules) {row c : String}
    {m : PMatch} {cr : PRules} (hcl : classify rules row = some (m, cr))
    (hrev : reverseCmd v m.attrs m.key = some c) :
    ∃ r', den env rules c = .del r' ∧ Denotes env rules c (.del r') ∧ slotOf rules r' = some (m.rawRule, m.key) := by
  obtain ⟨h1, r', h2, h3⟩ := hc.removal row m cr hcl c hrev
  refine ⟨r', ?_, ⟨h1, h2, by simp [h3]⟩, h3⟩
  unfold den
  rw [if_neg h1, h2]
  simp [h3]

theorem cmdFor_den {v : Vendor} {env : Env} {rules : PRules} (hc : CmdsOK v env rules) {sb : Slot} {c : String}
    (h : CmdFor v rules sb c) :
    Denotes env rules c (den env rules c) ∧ ∀ s, touches rules s (den env rules c) = (sb == s) := by
  rcases h with h | ⟨row, m, cr, hcl, hsb, hrev⟩
  · obtain ⟨h1, h2⟩ := den_line hc (c := c) (by simp [h])
    rw [h1]
    refine ⟨h2, fun s => ?_⟩
    simp [touches, h]
  · obtain ⟨r', h1, h2, h3⟩ := den_removal hc hcl hrev
    rw [h1]
    refine ⟨h2, fun s => ?_⟩
    simp [touches, h3, hsb]

end

section
open Annet Annet.Rules Annet.Device Annet.Device.Abs Annet.Converge
open Annet.Diff Annet.Patch Annet.Patch.Lemmas

/-! ### Part 5c: the sorted tree of a flat patch -/

def keyOf (x : RawItem) : SortKey := ⟨signed x.order x.orderDirect, x.rawRule, x.orderDirect⟩

def treeOf (x : RawItem) : String × Option PTree × SortKey :=
  (x.row, if (x.children.items.isEmpty && !x.parent) || !x.direct then none else some x.children, keyOf x)

theorem buildTree_flat : ∀ (out : List RawItem), (∀ x ∈ out, x.forceCommit = false) →
    buildTree out = .mk (out.map treeOf) := by
  intro out h
  unfold buildTree
  congr 1
  induction out with
  | nil => rfl
  | cons x rest ih =>
    rw [List.flatMap_cons, ih (fun y hy => h y (List.mem_cons_of_mem _ hy))]
    simp only [h x List.mem_cons_self, Bool.false_eq_true, if_false, List.map_cons, List.singleton_append]
    congr 1
    unfold treeOf keyOf
    split <;> rfl

def cmdsOf (t : PTree) : List String := t.items.map (·.1)

theorem flatPaths_eq (t : PTree) : flatPaths t = (cmdsOf t).map (fun c => [c]) := by
  simp [flatPaths, cmdsOf]

theorem sortItem_fst (t : String × Option PTree × SortKey) : (sortItem t).1 = t.1 := by
  obtain ⟨r, c, k⟩ := t
  cases c <;> rfl

theorem sortItem_key' (t : String × Option PTree × SortKey) : (sortItem t).2.2 = t.2.2 := by
  obtain ⟨r, c, k⟩ := t
  cases c <;> rfl

/-- the tree item of a raw item after `sortItems` -/
def finalOf (x : RawItem) : String × Option PTree × SortKey := sortItem (treeOf x)

theorem finalOf_fst (x : RawItem) : (finalOf x).1 = x.row := by
  rw [finalOf, sortItem_fst]; rfl

theorem finalOf_key (x : RawItem) : (finalOf x).2.2 = keyOf x := by
  rw [finalOf, sortItem_key']; rfl

theorem cmds_sorted (out : List RawItem) (h : ∀ x ∈ out, x.forceCommit = false) :
    cmdsOf (sortTree (buildTree out)) = (stableSort itemLt (out.map finalOf)).map (·.1) := by
  rw [buildTree_flat out h, sortTree, sortItems_eq_map, List.map_map]
  rfl

theorem cmds_filter (out : List RawItem) (pc : String → Bool) :
    ((stableSort itemLt (out.map finalOf)).map (·.1)).filter pc =
      (stableSort itemLt ((out.filter fun x => pc x.row).map finalOf)).map (·.1) := by
  rw [List.filter_map, ← sort_filter_comm itemLt itemLt_strictWeak, List.filter_map]
  congr 3
  apply List.filter_congr
  intro x _
  simp only [Function.comp_def, finalOf_fst]

theorem sort_pair {α : Type} (lt : α → α → Bool) (h : Spec.StrictWeak lt) (t1 t2 : α) (h21 : lt t2 t1 = false) :
    stableSort lt [t1, t2] = [t1, t2] := by
  apply sort_of_sorted lt h
  simp [Spec.Sorted, h21]

end

section
open Annet Annet.Rules Annet.Device Annet.Device.Abs Annet.Converge
open Annet.Diff Annet.Patch Annet.Patch.Lemmas

/-! ### Part 7a: every bucket of the patch -/

theorem rule_attrs {rules : PRules} {old new : Cfg} {d : List DItem} {P : List PreRule}
    (hfr : FlatRules rules) (hd : DiffOK rules old new d) (hP : InvR P d) {R : PreRule} (hR : R ∈ P) :
    ((rAttrs R).logic = "common.default" ∨ (rAttrs R).logic = "common.undo_redo") ∧
    (rAttrs R).forceCommit = false ∧
    ∀ r key, slotOf rules r = some (R.raw, key) → (matchOf rules r).attrs = rAttrs R := by
  obtain ⟨-, i0, hi0, hraw, hattrs⟩ := hP.2.1 R hR
  obtain ⟨op, r0, rfl, hk0⟩ := hd.known i0 hi0
  obtain ⟨cr0, hcl0⟩ := classify_matchOf hk0
  have hm : (ditem rules op r0).m = matchOf rules r0 := rfl
  rw [hm] at hraw hattrs
  obtain ⟨-, h2, h3⟩ := flat_match hfr hcl0
  rw [hattrs] at h2 h3
  refine ⟨h2, h3, ?_⟩
  intro r key hs
  have hk : (slotOf rules r).isSome := by simp [hs]
  obtain ⟨cr, hcl⟩ := classify_matchOf hk
  have := slotOf_matchOf hk
  rw [hs] at this
  simp only [Option.some.injEq, Prod.mk.injEq] at this
  rw [← hattrs]
  exact flat_same_raw hfr hcl hcl0 (by rw [← this.1, hraw])

theorem shape_cmdFor {rules : PRules} {old new : Cfg} {v : Vendor} {attrs : PAttrs} {raw : String}
    {key : List String} {ys : List Yield}
    (hsh : Shape v attrs key (holder rules old.kids (raw, key)) (holder rules new.kids (raw, key)) ys)
    (hattrs : ∀ r, slotOf rules r = some (raw, key) → (matchOf rules r).attrs = attrs) :
    ∀ y ∈ ys, CmdFor v rules (raw, key) y.row := by
  have hrem : ∀ ra c, holder rules old.kids (raw, key) = some ra → reverseCmd v attrs key = some c →
      CmdFor v rules (raw, key) c := by
    intro ra c ha hc
    have hs := (holder_some ha).2
    have hk : (slotOf rules ra).isSome := by simp [hs]
    obtain ⟨cr, hcl⟩ := classify_matchOf hk
    have hsm := slotOf_matchOf hk
    rw [hs] at hsm
    simp only [Option.some.injEq, Prod.mk.injEq] at hsm
    refine Or.inr ⟨ra, matchOf rules ra, cr, hcl, by rw [← hsm.1, ← hsm.2], ?_⟩
    rw [hattrs ra hs, ← hsm.2]; exact hc
  have hput : ∀ rb, holder rules new.kids (raw, key) = some rb → CmdFor v rules (raw, key) rb :=
    fun rb hb => Or.inl (holder_some hb).2
  intro y hy
  cases ha : holder rules old.kids (raw, key) with
  | none =>
    cases hb : holder rules new.kids (raw, key) with
    | none => rw [ha, hb] at hsh; simp only [Shape] at hsh; subst hsh; cases hy
    | some rb =>
      rw [ha, hb] at hsh; simp only [Shape] at hsh; subst hsh
      simp only [List.mem_singleton] at hy; subst hy
      exact hput rb hb
  | some ra =>
    cases hb : holder rules new.kids (raw, key) with
    | none =>
      rw [ha, hb] at hsh; simp only [Shape] at hsh
      obtain ⟨c, hc, rfl⟩ := hsh
      simp only [List.mem_singleton] at hy; subst hy
      exact hrem ra c ha hc
    | some rb =>
      rw [ha, hb] at hsh; simp only [Shape] at hsh
      split at hsh
      · subst hsh; cases hy
      · rcases hsh with rfl | ⟨c, hc, rfl⟩
        · simp only [List.mem_singleton] at hy; subst hy
          exact hput rb hb
        · simp only [List.mem_cons, List.not_mem_nil, or_false] at hy
          rcases hy with rfl | rfl
          · exact hrem ra c ha hc
          · exact hput rb hb

theorem bucket_fact {rules : PRules} {old new : Cfg} {d : List DItem} {P : List PreRule}
    (hfr : FlatRules rules) (hd : DiffOK rules old new d) (hP : InvR P d) (v : Vendor) (rec : PRec)
    (ord : List ORule) {R : PreRule} (hR : R ∈ P) {it : PreItem} (hit : it ∈ rItems R) {chunk : List RawItem}
    (h : bucketRun Patch.runLogic rec v ord true R.raw (rAttrs R) it = .ok chunk) :
    ∃ ys, Shape v (rAttrs R) it.key (holder rules old.kids (R.raw, it.key)) (holder rules new.kids (R.raw, it.key)) ys ∧
      Rel v ord R.raw (rAttrs R) ys chunk ∧
      ∀ x ∈ chunk, CmdFor v rules (R.raw, it.key) x.row ∧ x.forceCommit = false := by
  obtain ⟨hl, hfc, hattrs⟩ := rule_attrs hfr hd hP hR
  unfold bucketRun at h
  split at h
  · cases h
  · rename_i ys hys
    have hsh := bucket_shape (hP.2.1 R hR).1 hd hit v (rAttrs R) hl ys hys
    have hrel := yields_rel rec v ord R.raw (rAttrs R) ys chunk h
    refine ⟨ys, hsh, hrel, ?_⟩
    intro x hx
    obtain ⟨y, hy, h1, -, h3, -⟩ := rel_mem hrel x hx
    rw [h1, h3]
    exact ⟨shape_cmdFor hsh (fun r hs => hattrs r it.key hs) y hy, hfc⟩

theorem expected_nil {rules : PRules} {a b : Option String} (h : expected rules a b = []) : a = none ∧ b = none := by
  cases a <;> cases b <;> simp [expected] at h ⊢
  split at h <;> cases h

theorem bucket_exists {rules : PRules} {old new : Cfg} {d : List DItem} {P : List PreRule}
    (hd : DiffOK rules old new d) (hP : InvR P d) (s : Slot)
    (h : ¬ (holder rules old.kids s = none ∧ holder rules new.kids s = none)) :
    ∃ R ∈ P, R.raw = s.1 ∧ ∃ it ∈ rItems R, it.key = s.2 := by
  have hne : d.filter (slotIs s) ≠ [] := by
    intro hnil
    have := hd.slot s
    rw [hnil] at this
    exact h (expected_nil this.symm.eq_nil)
  obtain ⟨i, hi⟩ := List.exists_mem_of_ne_nil _ hne
  obtain ⟨hid, his⟩ := List.mem_filter.1 hi
  simp only [slotIs, beq_iff_eq] at his
  obtain ⟨R, hR, hraw⟩ := List.mem_map.1 (hP.2.2 i hid)
  have hkey := (hP.2.1 R hR).1.2.2 i hid hraw.symm
  obtain ⟨it, hit, hk⟩ := List.mem_map.1 hkey
  refine ⟨R, hR, ?_, it, hit, ?_⟩
  · rw [hraw, ← his]
  · rw [hk, ← his]

end

section
open Annet Annet.Rules Annet.Device Annet.Device.Abs Annet.Converge
open Annet.Diff Annet.Patch Annet.Patch.Lemmas

/-! ### Part 7b: the raw items of one slot -/

theorem slot_cmds {rules : PRules} {old new : Cfg} {d : List DItem} {P : List PreRule} {v : Vendor} {env : Env}
    (hfr : FlatRules rules) (hd : DiffOK rules old new d) (hP : InvR P d) (hc : CmdsOK v env rules)
    (rec : PRec) (ord : List ORule) {out : List RawItem}
    (hout : itemsOfPre Patch.runLogic rec v ord true P = .ok out) (s : Slot) :
    (holder rules old.kids s = none ∧ holder rules new.kids s = none ∧
      out.filter (fun x => touches rules s (den env rules x.row)) = []) ∨
    (∃ attrs ys chunk, Shape v attrs s.2 (holder rules old.kids s) (holder rules new.kids s) ys ∧
      Rel v ord s.1 attrs ys chunk ∧ out.filter (fun x => touches rules s (den env rules x.row)) = chunk ∧
      ∀ r, slotOf rules r = some s → (matchOf rules r).attrs = attrs) := by
  obtain ⟨s1, s2⟩ := s
  -- what the predicate is on the items of a bucket
  have hq : ∀ R ∈ P, ∀ it ∈ rItems R, ∀ chunk,
      bucketRun Patch.runLogic rec v ord true R.raw (rAttrs R) it = .ok chunk →
      ∀ x ∈ chunk, touches rules (s1, s2) (den env rules x.row) = ((R.raw, it.key) == (s1, s2)) := by
    intro R hR it hit chunk hb x hx
    obtain ⟨ys, -, -, hcf⟩ := bucket_fact hfr hd hP v rec ord hR hit hb
    exact (cmdFor_den hc (hcf x hx).1).2 (s1, s2)
  have nobucket : (¬ ∃ R ∈ P, R.raw = s1 ∧ ∃ it ∈ rItems R, it.key = s2) →
      holder rules old.kids (s1, s2) = none ∧ holder rules new.kids (s1, s2) = none := by
    intro hno
    refine Classical.byContradiction fun hcon => hno ?_
    exact bucket_exists hd hP (s1, s2) hcon
  rcases itemsOfPre_filter Patch.runLogic rec v ord true
      (fun x => touches rules (s1, s2) (den env rules x.row)) s1 P out hout hP.1
      (by
        intro R hR hne it hit chunk hb x hx
        rw [hq R hR it hit chunk hb x hx]
        simp [hne]) with ⟨h1, h2⟩ | ⟨R, hR, hraw, o, ho, h2⟩
  · left
    obtain ⟨ha, hb⟩ := nobucket (fun ⟨R, hR, hraw, _⟩ => h1 (hraw ▸ List.mem_map_of_mem hR))
    exact ⟨ha, hb, h2⟩
  · rcases itemsOfRule_filter Patch.runLogic rec v ord true R.raw (rAttrs R)
        (fun x => touches rules (s1, s2) (den env rules x.row)) s2 (rItems R) o ho (hP.2.1 R hR).1.1
        (by
          intro it hit chunk hb x hx
          rw [hq R hR it hit chunk hb x hx, Bool.eq_iff_iff]
          simp [hraw]) with ⟨h3, h4⟩ | ⟨it, hit, hkey, chunk, hb, h4⟩
    · left
      have : ¬ ∃ R' ∈ P, R'.raw = s1 ∧ ∃ it ∈ rItems R', it.key = s2 := by
        rintro ⟨R', hR', hraw', it, hit, hk⟩
        have : R' = R := Device.Lemmas.inj_of_nodup_map (·.raw) P hP.1 R' hR' R hR (by rw [hraw', hraw])
        subst this
        exact h3 (hk ▸ List.mem_map_of_mem hit)
      obtain ⟨ha, hb⟩ := nobucket this
      exact ⟨ha, hb, by rw [h2, h4]⟩
    · right
      obtain ⟨ys, hsh, hrel, hcf⟩ := bucket_fact hfr hd hP v rec ord hR hit hb
      rw [hraw] at hsh hrel hcf
      rw [hkey] at hsh hcf
      refine ⟨rAttrs R, ys, chunk, hsh, hrel, by rw [h2, h4], fun r hs => ?_⟩
      exact (rule_attrs hfr hd hP hR).2.2 r s2 (by rw [hraw]; exact hs)

end

section
open Annet Annet.Rules Annet.Device Annet.Device.Abs Annet.Converge
open Annet.Diff Annet.Patch Annet.Patch.Lemmas

/-! ### Part 7c: the commands of one slot, executed -/

theorem rel_nil {v : Vendor} {ord : List ORule} {raw : String} {attrs : PAttrs} {chunk : List RawItem}
    (h : Rel v ord raw attrs [] chunk) : chunk = [] := by
  cases chunk with
  | nil => rfl
  | cons x xs => exact h.elim

theorem rel_one {v : Vendor} {ord : List ORule} {raw : String} {attrs : PAttrs} {y : Yield} {chunk : List RawItem}
    (h : Rel v ord raw attrs [y] chunk) : ∃ x, chunk = [x] ∧ ItemOf v ord raw attrs y x := by
  cases chunk with
  | nil => exact h.elim
  | cons x xs =>
    obtain ⟨h1, h2⟩ := h
    rw [rel_nil h2]
    exact ⟨x, rfl, h1⟩

theorem rel_two {v : Vendor} {ord : List ORule} {raw : String} {attrs : PAttrs} {y1 y2 : Yield}
    {chunk : List RawItem} (h : Rel v ord raw attrs [y1, y2] chunk) :
    ∃ x1 x2, chunk = [x1, x2] ∧ ItemOf v ord raw attrs y1 x1 ∧ ItemOf v ord raw attrs y2 x2 := by
  cases chunk with
  | nil => exact h.elim
  | cons x xs =>
    obtain ⟨h1, h2⟩ := h
    obtain ⟨x2, rfl, h3⟩ := rel_one h2
    exact ⟨x, x2, rfl, h1, h3⟩

theorem slot_final {rules : PRules} {old new : Cfg} {v : Vendor} {env : Env} (hc : CmdsOK v env rules)
    (ord : List ORule) (hrb : ∀ r ∈ ord, r.orderReverse = false) (s : Slot) (attrs : PAttrs)
    (ys : List Yield) (chunk : List RawItem)
    (hsh : Shape v attrs s.2 (holder rules old.kids s) (holder rules new.kids s) ys)
    (hrel : Rel v ord s.1 attrs ys chunk)
    (hattrs : ∀ r, slotOf rules r = some s → (matchOf rules r).attrs = attrs) :
    (((stableSort itemLt (chunk.map finalOf)).map (·.1)).map (den env rules)).foldl (stepAt rules s)
      (holder rules old.kids s) = holder rules new.kids s := by
  -- the removal command
  have hrem : ∀ ra c, holder rules old.kids s = some ra → reverseCmd v attrs s.2 = some c →
      (∃ r', den env rules c = .del r' ∧ slotOf rules r' = some s) ∧ (v.exit = "" ∨ v.exit ≠ c) := by
    intro ra c ha hcmd
    have hs := (holder_some ha).2
    have hk : (slotOf rules ra).isSome := by simp [hs]
    obtain ⟨cr, hcl⟩ := classify_matchOf hk
    have hsm := slotOf_matchOf hk
    rw [hs] at hsm
    simp only [Option.some.injEq] at hsm
    have hrev : reverseCmd v (matchOf rules ra).attrs (matchOf rules ra).key = some c := by
      rw [hattrs ra hs]
      have : (matchOf rules ra).key = s.2 := by rw [hsm]
      rw [this]; exact hcmd
    obtain ⟨r', h1, -, h3⟩ := den_removal hc hcl hrev
    refine ⟨⟨r', h1, by rw [h3, hsm]⟩, ?_⟩
    rcases hc.exitKnown with he | he
    · exact Or.inl he
    · right
      intro heq
      exact (hc.removal ra _ cr hcl c hrev).1 (heq ▸ he)
  have hput : ∀ rb, holder rules new.kids s = some rb →
      den env rules rb = .put rb ∧ slotOf rules rb = some s := by
    intro rb hb
    have hs := (holder_some hb).2
    exact ⟨(den_line hc (c := rb) (by simp [hs])).1, hs⟩
  cases ha : holder rules old.kids s with
  | none =>
    cases hb : holder rules new.kids s with
    | none =>
      rw [ha, hb] at hsh; simp only [Shape] at hsh; subst hsh
      rw [rel_nil hrel]; rfl
    | some rb =>
      rw [ha, hb] at hsh; simp only [Shape] at hsh; subst hsh
      obtain ⟨x, rfl, hx, -⟩ := rel_one hrel
      obtain ⟨h1, h2⟩ := hput rb hb
      simp only at hx
      simp [stableSort, insertBy, finalOf_fst, hx, h1, stepAt, h2]
  | some ra =>
    cases hb : holder rules new.kids s with
    | none =>
      rw [ha, hb] at hsh; simp only [Shape] at hsh
      obtain ⟨c, hcmd, rfl⟩ := hsh
      obtain ⟨x, rfl, hx, -⟩ := rel_one hrel
      obtain ⟨⟨r', h1, h2⟩, -⟩ := hrem ra c ha hcmd
      simp only at hx
      simp [stableSort, insertBy, finalOf_fst, hx, h1, stepAt, h2]
    | some rb =>
      rw [ha, hb] at hsh; simp only [Shape] at hsh
      obtain ⟨hp1, hp2⟩ := hput rb hb
      split at hsh
      · rename_i hab
        subst hsh
        rw [rel_nil hrel, hab]; rfl
      · rcases hsh with rfl | ⟨c, hcmd, rfl⟩
        · obtain ⟨x, rfl, hx, -⟩ := rel_one hrel
          simp only at hx
          simp [stableSort, insertBy, finalOf_fst, hx, hp1, stepAt, hp2]
        · obtain ⟨x1, x2, rfl, ⟨hx1, hr1, -, o1, ho1, ho1a, ho1b⟩, ⟨hx2, hr2, -, o2, ho2, ho2a, ho2b⟩⟩ := rel_two hrel
          obtain ⟨⟨r', h1, h2⟩, hex⟩ := hrem ra c ha hcmd
          simp only at hx1 hx2 ho1 ho2
          have hk : itemLt (finalOf x2) (finalOf x1) = false := by
            show (finalOf x2).2.2.lt (finalOf x1).2.2 = false
            rw [finalOf_key, finalOf_key, keyOf, keyOf, hr1, hr2, ho1a, ho1b, ho2a, ho2b]
            exact put_not_before_removal s.1 o1 o2 (getOrder_removal v ord c _ o1 hrb hex ho1)
              (getOrder_direct v ord rb _ o2 ho2)
          have hsort : stableSort itemLt ([x1, x2].map finalOf) = [finalOf x1, finalOf x2] :=
            sort_pair itemLt itemLt_strictWeak _ _ hk
          rw [hsort]
          simp [finalOf_fst, hx1, hx2, h1, hp1, stepAt, h2, hp2]

end

section
open Annet Annet.Rules Annet.Device Annet.Device.Abs Annet.Converge
open Annet.Diff Annet.Patch Annet.Patch.Lemmas

/-! ### Part 8: assembly -/

theorem deviceMode_inv {v : Vendor} {rules : PRules} {ordering : List ORule} {old new : Cfg} {r : Api.Result}
    (hr : Api.deviceMode Patch.runLogic v rules ordering true old new = .ok r) :
    ∃ d out n, makeDiff rules old new = .ok d ∧
      itemsOfPre Patch.runLogic (makePatchUnsorted Patch.runLogic n v true) v ordering true (makePre d).rules = .ok out ∧
      r.patch = sortTree (buildTree out) := by
  unfold Api.deviceMode at hr
  cases hmd : makeDiff rules old new with
  | error e => rw [hmd] at hr; cases hr
  | ok d =>
    rw [hmd] at hr
    simp only [Api.liftD, bind, Except.bind, makePatchWith] at hr
    have e : preDepth (makePre d) + 2 = (preDepth (makePre d) + 1) + 1 := rfl
    rw [e, makePatchUnsorted] at hr
    cases hit : itemsOfPre Patch.runLogic (makePatchUnsorted Patch.runLogic (preDepth (makePre d) + 1) v true) v
        ordering true (makePre d).rules with
    | error e => rw [hit] at hr; cases hr
    | ok out =>
      rw [hit] at hr
      simp only [Except.map, pure, Except.pure, Except.ok.injEq] at hr
      subst hr
      exact ⟨d, out, _, rfl, hit, rfl⟩

theorem kids_mk (l : List (String × Cfg)) : (Cfg.mk l).kids = l := rfl

/-- Flat convergence: for a one-level rulebook over `default`/`undo_redo`, any ordering rulebook without
`%order_reverse` pins, a vendor whose removal commands the device understands, and flat configurations
`old`, `new` whose lines all instantiate rules with one line per (rule, key): executing the commands of
`patch(old, new)` in the emitted order on `old` yields a well-formed level holding, for every slot, exactly
the line `new` holds — i.e. `new` up to the order of lines. -/
theorem flat_converges (v : Vendor) (env : Env) (rules : PRules) (ordering : List ORule) (old new : Cfg)
    (r : Api.Result)
    (hfr : FlatRules rules) (hfo : FlatCfg old) (hfn : FlatCfg new)
    (hko : AllKnown rules old) (hkn : AllKnown rules new)
    (hwo : WF rules old.kids) (hwn : WF rules new.kids)
    (hc : CmdsOK v env rules) (hp : NoPin ordering)
    (hr : Api.deviceMode Patch.runLogic v rules ordering true old new = .ok r) :
    WF rules (applyCmds env rules (flatPaths r.patch) old).kids ∧
    ∀ s, holder rules (applyCmds env rules (flatPaths r.patch) old).kids s = holder rules new.kids s := by
  obtain ⟨d, out, n, hmd, hout, hpatch⟩ := deviceMode_inv hr
  have hd := diff_ok rules hfr old new d hfo hfn hko hkn hwo hwn hmd
  have hP := makePre_inv d
  -- every raw item is a command of some slot, without `commit`
  have hall : ∀ x ∈ out, (∃ sb, CmdFor v rules sb x.row) ∧ x.forceCommit = false := by
    intro x hx
    obtain ⟨R, hR, it, hit, chunk, hb, hxc⟩ := itemsOfPre_mem _ _ _ _ _ _ _ hout x hx
    obtain ⟨ys, -, -, hcf⟩ := bucket_fact hfr hd hP v _ ordering hR hit hb
    exact ⟨⟨_, (hcf x hxc).1⟩, (hcf x hxc).2⟩
  have hcmds := cmds_sorted out (fun x hx => (hall x hx).2)
  rw [hpatch, flatPaths_eq, applyCmds_flat hfr, hcmds]
  simp only [kids_mk]
  have hden : ∀ c ∈ (stableSort itemLt (out.map finalOf)).map (·.1), Denotes env rules c (den env rules c) := by
    intro c hcm
    obtain ⟨t, ht, rfl⟩ := List.mem_map.1 hcm
    rw [(sort_perm itemLt _).mem_iff] at ht
    obtain ⟨x, hx, rfl⟩ := List.mem_map.1 ht
    rw [finalOf_fst]
    obtain ⟨sb, hsb⟩ := (hall x hx).1
    exact (cmdFor_den hc hsb).1
  obtain ⟨hwf, hhold⟩ := cmds_refine env rules _ old.kids hwo hden
  refine ⟨hwf, fun s => ?_⟩
  rw [hhold s, final_at, cmds_filter]
  rcases slot_cmds hfr hd hP hc _ ordering hout s with ⟨ha, hb, hnil⟩ | ⟨attrs, ys, chunk, hsh, hrel, hch, hattrs⟩
  · rw [hnil, ha, hb]; rfl
  · rw [hch]
    exact slot_final hc ordering (noPin_top ordering hp) s attrs ys chunk hsh hrel hattrs

end

end Annet.Converge.Lemmas
