/-
Helpers for `merge_monotone_partial` (C06): well-formed compiled rule dictionaries, their denotation as
a set of rule-row paths, and `mergeDicts` as the union of denotations.
-/
import AnnetModel.Lemmas.Acl

namespace Annet.Acl.Lemmas
open Annet Annet.Acl Annet.Acl.Spec

/-! ### `ruleBeq` is sound -/

mutual
  theorem ruleBeq_eq : (x y : Rule) → ruleBeq x y = true → x = y
    | .mk i r g c p n ch, .mk i' r' g' c' p' n' ch', h => by
      simp only [ruleBeq, Bool.and_eq_true, beq_iff_eq] at h
      obtain ⟨⟨⟨⟨⟨⟨h1, h2⟩, h3⟩, h4⟩, h5⟩, h6⟩, h7⟩ := h
      have := chBeq_eq ch ch' h7
      subst h1 h2 h3 h4 h5 h6 this
      rfl
  theorem chBeq_eq : (x y : Option (List Rule × List Rule)) → chBeq x y = true → x = y
    | none, none, _ => rfl
    | some (a, b), some (a', b'), h => by
      simp only [chBeq, Bool.and_eq_true] at h
      rw [rulesBeq_eq a a' h.1, rulesBeq_eq b b' h.2]
    | none, some _, h => by simp [chBeq] at h
    | some _, none, h => by simp [chBeq] at h
  theorem rulesBeq_eq : (x y : List Rule) → rulesBeq x y = true → x = y
    | [], [], _ => rfl
    | x :: xs, y :: ys, h => by
      simp only [rulesBeq, Bool.and_eq_true] at h
      rw [ruleBeq_eq x y h.1, rulesBeq_eq xs ys h.2]
    | [], _ :: _, h => by simp [rulesBeq] at h
    | _ :: _, [], h => by simp [rulesBeq] at h
end

/-! ### well-formed plain rule dictionaries -/

def DistinctIds (l : List Rule) : Prop := l.Pairwise (fun x y => x.id ≠ y.id)

mutual
  /-- a compiled rule of a plain ACL: not an ignore rule, id = row, children present, no global children,
  ids of the children distinct (a dictionary) -/
  def WFRule : Rule → Prop
    | .mk _ _ _ _ _ _ none => False
    | .mk i r g _ _ _ (some (l, gl)) => i = r ∧ g = false ∧ gl = [] ∧ WFList l ∧ DistinctIds l
  def WFList : List Rule → Prop
    | [] => True
    | r :: rs => WFRule r ∧ WFList rs
end

def WFRules (l : List Rule) : Prop := WFList l ∧ DistinctIds l

theorem wfList_iff (l : List Rule) : WFList l ↔ ∀ r ∈ l, WFRule r := by
  induction l with
  | nil => simp [WFList]
  | cons x xs ih => simp [WFList, ih]

theorem wfRules_nil : WFRules [] := ⟨by simp [WFList], List.Pairwise.nil⟩

theorem WFRule.inv {x : Rule} (h : WFRule x) :
    x.id = x.row ∧ x.ignore = false ∧ ∃ l, x.children = some (l, []) ∧ WFRules l := by
  match x, h with
  | .mk i r g _ _ _ (some (l, gl)), h =>
    simp only [WFRule] at h
    obtain ⟨h1, h2, h3, h4, h5⟩ := h
    subst h3
    exact ⟨h1, h2, l, rfl, h4, h5⟩

theorem wfRule_mk {i r : String} {g : Bool} {c : List Bool} {p : Nat} {n : List String} {l : List Rule}
    (h1 : i = r) (h2 : g = false) (h3 : WFRules l) : WFRule (.mk i r g c p n (some (l, []))) := by
  simp only [WFRule]; exact ⟨h1, h2, trivial, h3.1, h3.2⟩

theorem wfRule_of_fields {z : Rule} {l : List Rule} (hid : z.id = z.row) (hig : z.ignore = false)
    (hc : z.children = some (l, [])) (wl : WFRules l) : WFRule z := by
  match z, hid, hig, hc with
  | .mk i r g _ _ _ _, hid, hig, hc =>
    simp only [Rule.children] at hc; subst hc
    exact wfRule_mk hid hig wl

theorem distinct_unique {l : List Rule} (h : DistinctIds l) {y y' : Rule} (hy : y ∈ l) (hy' : y' ∈ l)
    (hid : y.id = y'.id) : y = y' := by
  induction l with
  | nil => cases hy
  | cons x xs ih =>
    rw [DistinctIds, List.pairwise_cons] at h
    simp only [List.mem_cons] at hy hy'
    rcases hy with rfl | hy <;> rcases hy' with rfl | hy'
    · rfl
    · exact absurd hid (h.1 _ hy')
    · exact absurd hid.symm (h.1 _ hy)
    · exact ih h.2 hy hy'

/-! ### denotation: the set of rule-row paths of a dictionary -/

/-- `InD l p`: `p` is a path of rule rows through the local rules of `l` -/
def InD : List Rule → List String → Prop
  | _, [] => True
  | l, r :: p => ∃ x ∈ l, x.row = r ∧ ∃ c g, x.children = some (c, g) ∧ InD c p

theorem inD_nil_iff (p : List String) : InD [] p ↔ p = [] := by
  cases p <;> simp [InD]

/-! ### depth facts -/

theorem ruleDepth_le_of_mem {x : Rule} {l : List Rule} (h : x ∈ l) : ruleDepth x ≤ rulesDepth l := by
  induction l with
  | nil => cases h
  | cons y ys ih =>
    simp only [rulesDepth]
    rcases List.mem_cons.1 h with rfl | h
    · exact Nat.le_max_left ..
    · exact Nat.le_trans (ih h) (Nat.le_max_right ..)

theorem children_depth {x : Rule} {l g : List Rule} (h : x.children = some (l, g)) :
    rulesDepth l + 1 ≤ ruleDepth x ∧ rulesDepth g + 1 ≤ ruleDepth x := by
  match x, h with
  | .mk _ _ _ _ _ _ (some (l', g')), h =>
    simp only [Rule.children, Option.some.injEq, Prod.mk.injEq] at h
    obtain ⟨rfl, rfl⟩ := h
    simp only [ruleDepth]
    omega

/-! ### `mergeDicts` is the union -/

theorem findRule_some {l : List Rule} {i : String} {y : Rule} (h : findRule l i = some y) :
    y ∈ l ∧ y.id = i := by
  unfold findRule at h
  exact ⟨List.mem_of_find?_eq_some h, by simpa using List.find?_some h⟩

theorem findRule_none {l : List Rule} {i : String} (h : findRule l i = none) : ∀ y ∈ l, y.id ≠ i := by
  unfold findRule at h
  intro y hy
  have := List.find?_eq_none.1 h y hy
  simpa using this

theorem mergeRuleDicts_nil (n : Nat) : mergeRuleDicts n [] [] = [] := by
  cases n <;> simp [mergeRuleDicts, rulesBeq]

/-- the per-rule merge of `mergeRuleDicts` (copied from its body) -/
def mergeRule (fuel : Nat) (x y : Rule) : Rule :=
  if ruleBeq x y then x else
  let ch := match x.children, y.children with
    | some (xl, xg), some (yl, yg) =>
      if chBeq x.children y.children then x.children
      else some (mergeRuleDicts fuel xl yl, mergeRuleDicts fuel xg yg)
    | _, c => c
  let sameAttrs := x.row == y.row && x.cantDelete == y.cantDelete && x.prio == y.prio &&
    x.genNames == y.genNames
  if sameAttrs then Rule.mk x.id x.row y.ignore x.cantDelete x.prio x.genNames ch
  else Rule.mk x.id y.row y.ignore (x.cantDelete ++ y.cantDelete) y.prio (x.genNames ++ y.genNames) ch

theorem mergeRuleDicts_succ (fuel : Nat) (a b : List Rule) :
    mergeRuleDicts (fuel + 1) a b =
      if rulesBeq a b then a else
      (a.map fun x => match findRule b x.id with
        | some y => mergeRule fuel x y
        | none => x) ++ b.filter (fun y => (findRule a y.id).isNone) := by
  rw [mergeRuleDicts]; rfl

/-- what the merge of two well-formed rules with the same id looks like -/
theorem mergeRule_spec (fuel : Nat) {x y : Rule} (hx : WFRule x) (hy : WFRule y) (hid : y.id = x.id) :
    ∃ xl yl, x.children = some (xl, []) ∧ y.children = some (yl, []) ∧ WFRules xl ∧ WFRules yl ∧
      (mergeRule fuel x y).id = x.id ∧ (mergeRule fuel x y).row = x.row ∧
      (mergeRule fuel x y).ignore = false ∧
      ((mergeRule fuel x y).children = some (xl, []) ∧ (x.children = y.children) ∨
       (mergeRule fuel x y).children = some (mergeRuleDicts fuel xl yl, [])) := by
  obtain ⟨hxi, hxg, xl, hxc, hxl⟩ := hx.inv
  obtain ⟨hyi, hyg, yl, hyc, hyl⟩ := hy.inv
  refine ⟨xl, yl, hxc, hyc, hxl, hyl, ?_⟩
  have hrow : y.row = x.row := by rw [← hyi, hid, hxi]
  unfold mergeRule
  split
  · rename_i hb
    have := ruleBeq_eq x y hb
    subst this
    exact ⟨rfl, rfl, hxg, .inl ⟨hxc, rfl⟩⟩
  · simp only [hxc, hyc]
    split <;> (split <;> simp_all [Rule.id, Rule.row, Rule.ignore, Rule.children, mergeRuleDicts_nil])
    all_goals
      rename_i hch
      have := chBeq_eq _ _ hch
      simp only [Option.some.injEq, Prod.mk.injEq, and_true] at this
      exact .inl this


/-- `mergeRuleDicts` with enough fuel: well-formed, and its denotation is the union -/
theorem mergeRuleDicts_spec : ∀ (n : Nat) (a b : List Rule), rulesDepth a ≤ n → rulesDepth b ≤ n →
    WFRules a → WFRules b →
    WFRules (mergeRuleDicts (n + 1) a b) ∧ ∀ p, InD (mergeRuleDicts (n + 1) a b) p ↔ (InD a p ∨ InD b p) := by
  intro n
  induction n with
  | zero =>
    intro a b ha hb _ _
    have ha' : a = [] := by
      cases a with
      | nil => rfl
      | cons x xs =>
        have := ruleDepth_le_of_mem (List.mem_cons_self (a := x) (l := xs))
        have h1 : 1 ≤ ruleDepth x := by
          match x with
          | .mk _ _ _ _ _ _ none => simp [ruleDepth]
          | .mk _ _ _ _ _ _ (some (_, _)) => simp [ruleDepth]
        omega
    have hb' : b = [] := by
      cases b with
      | nil => rfl
      | cons x xs =>
        have := ruleDepth_le_of_mem (List.mem_cons_self (a := x) (l := xs))
        have h1 : 1 ≤ ruleDepth x := by
          match x with
          | .mk _ _ _ _ _ _ none => simp [ruleDepth]
          | .mk _ _ _ _ _ _ (some (_, _)) => simp [ruleDepth]
        omega
    subst ha' hb'
    rw [mergeRuleDicts_nil]
    exact ⟨wfRules_nil, fun p => by simp⟩
  | succ n ih =>
    intro a b ha hb wa wb
    rw [mergeRuleDicts_succ]
    split
    · rename_i hab
      have := rulesBeq_eq a b hab
      subst this
      exact ⟨wa, fun p => by simp⟩
    · -- facts about each merged pair
      have key : ∀ x ∈ a, ∀ y ∈ b, y.id = x.id →
          ∃ xl yl, x.children = some (xl, []) ∧ y.children = some (yl, []) ∧
            (mergeRule (n + 1) x y).id = x.id ∧ (mergeRule (n + 1) x y).row = x.row ∧ y.row = x.row ∧
            WFRule (mergeRule (n + 1) x y) ∧
            ∃ ml, (mergeRule (n + 1) x y).children = some (ml, []) ∧ ∀ p, InD ml p ↔ (InD xl p ∨ InD yl p) := by
        intro x hx y hy hid
        have wx := (wfList_iff a).1 wa.1 x hx
        have wy := (wfList_iff b).1 wb.1 y hy
        obtain ⟨xl, yl, hxc, hyc, wxl, wyl, h1, h2, h3, h4⟩ := mergeRule_spec (n + 1) wx wy hid
        have hrow : y.row = x.row := by rw [← wy.inv.1, hid, wx.inv.1]
        have dx := (children_depth hxc).1
        have dy := (children_depth hyc).1
        have := ruleDepth_le_of_mem hx
        have := ruleDepth_le_of_mem hy
        have hm := ih xl yl (by omega) (by omega) wxl wyl
        refine ⟨xl, yl, hxc, hyc, h1, h2, hrow, ?_, ?_⟩
        · rcases h4 with ⟨h4, _⟩ | h4
          · exact wfRule_of_fields (by rw [h1, h2, wx.inv.1]) h3 h4 wxl
          · exact wfRule_of_fields (by rw [h1, h2, wx.inv.1]) h3 h4 hm.1
        · rcases h4 with ⟨h4, heq⟩ | h4
          · refine ⟨xl, h4, fun p => ?_⟩
            rw [hxc, hyc] at heq
            simp only [Option.some.injEq, Prod.mk.injEq, and_true] at heq
            subst heq; simp
          · exact ⟨_, h4, hm.2⟩
      constructor
      · -- well-formedness
        constructor
        · rw [wfList_iff]
          intro z hz
          rcases List.mem_append.1 hz with hz | hz
          · obtain ⟨x, hx, rfl⟩ := List.mem_map.1 hz
            split
            · rename_i y hy
              obtain ⟨hyb, hyid⟩ := findRule_some hy
              obtain ⟨_, _, _, _, _, _, _, hw, _⟩ := key x hx y hyb hyid
              exact hw
            · exact (wfList_iff a).1 wa.1 x hx
          · exact (wfList_iff b).1 wb.1 z (List.mem_filter.1 hz).1
        · rw [DistinctIds, List.pairwise_append]
          refine ⟨?_, wb.2.filter _, ?_⟩
          · rw [List.pairwise_map]
            have hidf : ∀ x ∈ a, (match findRule b x.id with
                | some y => mergeRule (n + 1) x y
                | none => x).id = x.id := by
              intro x hx
              split
              · rename_i y hy
                obtain ⟨hyb, hyid⟩ := findRule_some hy
                obtain ⟨_, _, _, _, h, _⟩ := key x hx y hyb hyid
                exact h
              · rfl
            exact wa.2.imp_of_mem (fun {x x'} hx hx' hne => by rw [hidf x hx, hidf x' hx']; exact hne)
          · intro z hz y hy
            obtain ⟨x, hx, rfl⟩ := List.mem_map.1 hz
            obtain ⟨hyb, hyn⟩ := List.mem_filter.1 hy
            have hne := findRule_none (by simpa using hyn) x hx
            have hidx : (match findRule b x.id with
                | some y => mergeRule (n + 1) x y
                | none => x).id = x.id := by
              split
              · rename_i y' hy'
                obtain ⟨hyb', hyid'⟩ := findRule_some hy'
                obtain ⟨_, _, _, _, h, _⟩ := key x hx y' hyb' hyid'
                exact h
              · rfl
            rw [hidx]; exact hne
      · -- denotation
        intro p
        cases p with
        | nil => simp [InD]
        | cons r q =>
          constructor
          · rintro ⟨z, hz, hzr, c, g, hzc, hq⟩
            rcases List.mem_append.1 hz with hz | hz
            · obtain ⟨x, hx, rfl⟩ := List.mem_map.1 hz
              split at hzr
              · rename_i y hy
                rw [hy] at hzc
                simp only at hzc
                obtain ⟨hyb, hyid⟩ := findRule_some hy
                obtain ⟨xl, yl, hxc, hyc, _, h2, hyr, _, ml, hml, hD⟩ := key x hx y hyb hyid
                rw [hml] at hzc
                simp only [Option.some.injEq, Prod.mk.injEq] at hzc
                obtain ⟨rfl, rfl⟩ := hzc
                rcases (hD q).1 hq with h | h
                · exact .inl ⟨x, hx, by rw [← h2]; exact hzr, xl, [], hxc, h⟩
                · exact .inr ⟨y, hyb, by rw [hyr, ← h2]; exact hzr, yl, [], hyc, h⟩
              · rename_i hn
                rw [hn] at hzc
                exact .inl ⟨x, hx, hzr, c, g, hzc, hq⟩
            · exact .inr ⟨z, (List.mem_filter.1 hz).1, hzr, c, g, hzc, hq⟩
          · rintro (⟨x, hx, hxr, c, g, hxc, hq⟩ | ⟨y, hy, hyr, c, g, hyc, hq⟩)
            · refine ⟨_, List.mem_append_left _ (List.mem_map.2 ⟨x, hx, rfl⟩), ?_⟩
              split
              · rename_i y hy
                obtain ⟨hyb, hyid⟩ := findRule_some hy
                obtain ⟨xl, yl, hxc', hyc, _, h2, hyr, _, ml, hml, hD⟩ := key x hx y hyb hyid
                rw [hxc'] at hxc
                simp only [Option.some.injEq, Prod.mk.injEq] at hxc
                obtain ⟨rfl, rfl⟩ := hxc
                exact ⟨by rw [h2]; exact hxr, ml, [], hml, (hD q).2 (.inl hq)⟩
              · exact ⟨hxr, c, g, hxc, hq⟩
            · cases hfa : findRule a y.id with
              | none =>
                exact ⟨y, List.mem_append_right _ (List.mem_filter.2 ⟨hy, by simp [hfa]⟩), hyr, c, g, hyc, hq⟩
              | some x =>
                obtain ⟨hx, hxid⟩ := findRule_some hfa
                refine ⟨_, List.mem_append_left _ (List.mem_map.2 ⟨x, hx, rfl⟩), ?_⟩
                cases hfb : findRule b x.id with
                | none => exact absurd hxid.symm (findRule_none hfb y hy)
                | some y' =>
                  obtain ⟨hyb', hyid'⟩ := findRule_some hfb
                  have : y' = y := distinct_unique wb.2 hyb' hy (by rw [hyid', hxid])
                  subst this
                  obtain ⟨xl, yl, hxc', hyc', _, h2, hyr', _, ml, hml, hD⟩ := key x hx y' hyb' hyid'
                  rw [hyc'] at hyc
                  simp only [Option.some.injEq, Prod.mk.injEq] at hyc
                  obtain ⟨rfl, rfl⟩ := hyc
                  exact ⟨by rw [h2, ← hyr']; exact hyr, ml, [], hml, (hD q).2 (.inr hq)⟩

theorem mergeDicts_spec {a b : List Rule} (wa : WFRules a) (wb : WFRules b) :
    WFRules (mergeDicts a b) ∧ ∀ p, InD (mergeDicts a b) p ↔ (InD a p ∨ InD b p) :=
  mergeRuleDicts_spec _ a b (Nat.le_max_left ..) (Nat.le_max_right ..) wa wb

theorem mergeDicts_nil_nil : mergeDicts [] [] = [] := by
  unfold mergeDicts; exact mergeRuleDicts_nil _

end Annet.Acl.Lemmas
