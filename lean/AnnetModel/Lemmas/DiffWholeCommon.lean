/-
C03 corollary for the whole `make_diff`: a row present at the top level of both configurations is never reported ADDED
or REMOVED.

`annotate` keeps exactly the rows some non-ignore rule knows (`matchRow row rules` is `.found …`), so whether a row is
in the annotated level depends only on whether it occurs in the configuration and on the rules
(`annotateList_hasRow`); exactness of the ops (`makeDiff_ops_exact`) then excludes ADDED and REMOVED.
-/
import AnnetModel.Lemmas.DiffWhole

namespace Annet.Diff.Lemmas
open Annet Annet.Rules Annet.Diff Annet.Diff.Spec

/-- some non-ignore rule knows the row -/
def isFound : MatchRes → Bool
  | .found _ _ => true
  | _ => false

/-- `annotate` keeps exactly the rows for which `matchRow` finds a rule -/
theorem annotateList_hasRow (rules : PRules) (row : String) :
    ∀ (ks : List (String × Cfg)) (l : Level), annotateList rules ks = .ok l →
      hasRow l row = (ks.any (·.1 == row) && isFound (matchRow row rules))
  | [], l, h => by
    rw [annotateList] at h
    cases h
    simp [hasRow]
  | (r, ch) :: rest, l, h => by
    rw [annotateList] at h
    split at h
    · cases h
    · rename_i hm
      rw [annotateList_hasRow rules row rest l h, List.any_cons]
      by_cases hr : r = row
      · subst hr
        simp [hm, isFound]
      · have hb : (r == row) = false := beq_eq_false_iff_ne.2 hr
        simp [hb]
    · rename_i m cr hm
      split at h
      · cases h
      · split at h
        · cases h
        · rename_i rest' hrest
          cases h
          have ih := annotateList_hasRow rules row rest rest' hrest
          simp only [hasRow] at ih ⊢
          rw [List.any_cons, List.any_cons, ih]
          by_cases hr : r = row
          · subst hr
            simp [hm, isFound]
          · have hb : (r == row) = false := beq_eq_false_iff_ne.2 hr
            simp [hb]

theorem annotate_hasRow {rules : PRules} {c : Cfg} {a : ACfg} (h : annotate rules c = .ok a) (row : String) :
    hasRow a.kids row = (c.kids.any (·.1 == row) && isFound (matchRow row rules)) := by
  cases c with
  | mk ks =>
    rw [annotate] at h
    cases hl : annotateList rules ks with
    | error e => rw [hl] at h; cases h
    | ok l =>
      rw [hl] at h
      cases h
      exact annotateList_hasRow rules row ks l hl

theorem exactL_mem {old new : Level} : ∀ {d : List DItem}, ExactL old new d → ∀ i ∈ d, ExactI old new i
  | [], _, i, hi => by cases hi
  | j :: rest, h, i, hi => by
    rw [ExactL] at h
    rcases List.mem_cons.1 hi with rfl | hi
    · exact h.1
    · exact exactL_mem h.2 i hi

/-- a row present at the top level of both configurations is never reported ADDED or REMOVED by `make_diff` -/
theorem makeDiff_common_row (rules : PRules) (old new : Cfg) (ao an : ACfg) (d : List DItem)
    (ha : annotate rules old = .ok ao) (hn : annotate rules new = .ok an)
    (hdo : NoDupRows ao) (hdn : NoDupRows an)
    (h : makeDiff rules old new = .ok d) (row : String)
    (ho : old.kids.any (·.1 == row) = true) (hnw : new.kids.any (·.1 == row) = true) :
    ∀ i ∈ d, i.row = row → i.op ≠ .added ∧ i.op ≠ .removed := by
  have hex := makeDiff_ops_exact rules old new ao an d ha hn hdo hdn h
  have hso := annotate_hasRow ha row
  have hsn := annotate_hasRow hn row
  rw [ho, Bool.true_and] at hso
  rw [hnw, Bool.true_and] at hsn
  have heq : hasRow ao.kids row = hasRow an.kids row := by rw [hso, hsn]
  intro i hi hrow
  have hei := exactL_mem hex i hi
  cases i with
  | mk op r ch m =>
    simp only [DItem.row] at hrow
    subst hrow
    rw [ExactI] at hei
    simp only [DItem.op]
    constructor
    · intro hop
      have := hei.1 hop
      rw [heq, this.2] at this
      cases this.1
    · intro hop
      have := hei.2.1 hop
      rw [heq, this.2] at this
      cases this.1

end Annet.Diff.Lemmas
