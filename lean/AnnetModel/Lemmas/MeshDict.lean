/-
Helper lemmas for C15, part D: the merge laws for tables that contain `DictMerge` fields
(`GlobalOptionsDTO.vrf/groups/l2vpn`).  Python dicts have distinct keys; that invariant is the
separate predicate `Val.WFd` (merger-directed: it looks at the dict-valued positions only).
-/
import AnnetModel.Lemmas.MeshFold

namespace Annet.Mesh

mutual
  /-- every dict found at a `DictMerge` position has distinct keys -/
  def Val.WFd : Merger → Val → Prop
    | .dictMerge vm, .dict kvs => (keys kvs).Nodup ∧ ∀ (k : String) (v : Val), lookup k kvs = some v → Val.WFd vm v
    | .merge t, .model fs => WFdFields t fs
    | _, _ => True
  def WFdFields : Table → Fields → Prop
    | [], _ => True
    | (f, m) :: t, fs => (∀ v, lookup f fs = some v → Val.WFd m v) ∧ WFdFields t fs
end

mutual
  /-- no `UseFirst`/`UseLast` anywhere (`DictMerge` allowed) -/
  def Merger.SymD : Merger → Prop
    | .useFirst => False
    | .useLast => False
    | .dictMerge vm => vm.SymD
    | .merge t => Table.SymD t
    | _ => True
  def Table.SymD : Table → Prop
    | [] => True
    | (_, m) :: t => m.SymD ∧ Table.SymD t
end

theorem Table.SymD_mem {t : Table} (h : Table.SymD t) {f : String} {m : Merger} (hm : (f, m) ∈ t) : m.SymD := by
  induction t with
  | nil => cases hm
  | cons p t ih =>
    obtain ⟨f', m'⟩ := p
    simp only [Table.SymD] at h
    cases hm with
    | head => exact h.1
    | tail _ h' => exact ih h.2 h'

theorem WFdFields_iff (t : Table) (fs : Fields) :
    WFdFields t fs ↔ ∀ f m, (f, m) ∈ t → ∀ v, lookup f fs = some v → Val.WFd m v := by
  induction t with
  | nil => simp [WFdFields]
  | cons p t ih =>
    obtain ⟨f', m'⟩ := p
    simp only [WFdFields, ih, List.mem_cons]
    constructor
    · rintro ⟨h1, h2⟩ f m (h | h)
      · cases h; exact h1
      · exact h2 f m h
    · intro h
      exact ⟨h f' m' (Or.inl rfl), fun f m hm => h f m (Or.inr hm)⟩

def OptWFd (m : Merger) : Option Val → Prop
  | none => True
  | some v => Val.WFd m v

/-! ### key-wise operations -/

section Keywise
variable {S J : Type}

/-- `X` merges two containers key by key: it succeeds iff every key's merge succeeds, and then each
entry of the result is that key's result. -/
structure Keywise (get : J → S → Option Val) (op : J → Option Val → Option Val → Except MergeErr (Option Val))
    (X : S → S → Except MergeErr S) (V : S → Prop) : Prop where
  ok : ∀ a b r, V a → V b → X a b = .ok r → V r ∧ ∀ j, op j (get j a) (get j b) = .ok (get j r)
  err : ∀ a b e, V a → V b → X a b = .error e → ∃ j e', op j (get j a) (get j b) = .error e'
  errc : ∀ a b j e, V a → V b → op j (get j a) (get j b) = .error e → ∃ e', X a b = .error e'

variable {get : J → S → Option Val} {op : J → Option Val → Option Val → Except MergeErr (Option Val)}
  {X : S → S → Except MergeErr S} {V : S → Prop}

theorem Keywise.rel (h : Keywise get op X V) (R : J → Val → Val → Prop) {a b c d : S}
    (va : V a) (vb : V b) (vc : V c) (vd : V d)
    (hj : ∀ j, RE (OptRel (R j)) (op j (get j a) (get j b)) (op j (get j c) (get j d))) :
    RE (fun r r' => ∀ j, OptRel (R j) (get j r) (get j r')) (X a b) (X c d) := by
  cases h1 : X a b with
  | error e1 =>
    cases h2 : X c d with
    | error e2 => simp
    | ok o2 =>
      obtain ⟨j, e', he⟩ := h.err a b e1 va vb h1
      have := hj j
      rw [he, (h.ok c d o2 vc vd h2).2 j] at this
      simp at this
  | ok o1 =>
    cases h2 : X c d with
    | error e2 =>
      obtain ⟨j, e', he⟩ := h.err c d e2 vc vd h2
      have := hj j
      rw [he, (h.ok a b o1 va vb h1).2 j] at this
      simp at this
    | ok o2 =>
      simp only [RE_ok_ok]
      intro j
      have := hj j
      rw [(h.ok a b o1 va vb h1).2 j, (h.ok c d o2 vc vd h2).2 j] at this
      simpa using this

theorem Keywise.assoc (h : Keywise get op X V) (R : J → Val → Val → Prop) {a b c : S}
    (va : V a) (vb : V b) (vc : V c)
    (hj : ∀ j, RE (OptRel (R j)) (op j (get j a) (get j b) >>= fun r => op j r (get j c))
      (op j (get j b) (get j c) >>= fun r => op j (get j a) r)) :
    RE (fun r r' => ∀ j, OptRel (R j) (get j r) (get j r')) (X a b >>= fun r => X r c) (X b c >>= fun r => X a r) := by
  cases hab : X a b with
  | error e1 =>
    simp only [error_bind]
    cases hbc : X b c with
    | error e2 => simp
    | ok s =>
      simp only [ok_bind]
      obtain ⟨vs, hs⟩ := h.ok b c s vb vc hbc
      obtain ⟨j, e', he⟩ := h.err a b e1 va vb hab
      have h1 := hj j
      rw [he, hs j] at h1
      simp only [error_bind, ok_bind] at h1
      cases h2 : op j (get j a) (get j s) with
      | ok r => simp [h2] at h1
      | error e3 =>
        obtain ⟨e4, he4⟩ := h.errc a s j e3 va vs h2
        simp [he4]
  | ok r =>
    simp only [ok_bind]
    obtain ⟨vr, hr⟩ := h.ok a b r va vb hab
    cases hbc : X b c with
    | error e2 =>
      simp only [error_bind]
      obtain ⟨j, e', he⟩ := h.err b c e2 vb vc hbc
      have h1 := hj j
      rw [he, hr j] at h1
      simp only [error_bind, ok_bind] at h1
      cases h2 : op j (get j r) (get j c) with
      | ok r' => simp [h2] at h1
      | error e3 =>
        obtain ⟨e4, he4⟩ := h.errc r c j e3 vr vc h2
        simp [he4]
    | ok s =>
      simp only [ok_bind]
      obtain ⟨vs, hs⟩ := h.ok b c s vb vc hbc
      refine h.rel R vr vc va vs ?_
      intro j
      have h1 := hj j
      rw [hr j, hs j] at h1
      simpa using h1

end Keywise


/-! ### the two instances: `_merge` over a table, `DictMerge._merge` over the keys -/

theorem fieldsKeywise (t : Table) (hnd : (keys t).Nodup) :
    Keywise (J := {j : String × Merger // j ∈ t}) (fun j s => lookup j.1.1 s) (fun j => mergeOpt j.1.2)
      (mergeFields t) (fun _ => True) where
  ok := fun a b r _ _ h => ⟨trivial, fun j => mergeFields_ok hnd h j.1.1 j.1.2 j.2⟩
  err := fun a b e _ _ h => by
    obtain ⟨f, m, e', hm, he⟩ := mergeFields_error h
    exact ⟨⟨(f, m), hm⟩, e', he⟩
  errc := fun a b j e _ _ h => mergeFields_error_of_field j.2 h

theorem dictMergeWith_eq_groupFold (f : Val → Val → Except MergeErr Val) (x items : List (String × Val)) :
    dictMergeWith f x items = groupFold f x items := by
  induction items generalizing x with
  | nil => rfl
  | cons kv items ih =>
    obtain ⟨k, v⟩ := kv
    rw [groupFold_cons]
    simp only [dictMergeWith, dictUpsert]
    cases upsertWith f k v x with
    | error e => rfl
    | ok x' => simpa using ih x'

theorem valuesOf_nodup {α : Type} (k : String) (b : List (String × α)) (hnd : (keys b).Nodup) :
    valuesOf k b = (lookup k b).toList := by
  induction b with
  | nil => rfl
  | cons p b ih =>
    obtain ⟨k', v⟩ := p
    simp only [keys, List.map_cons, List.nodup_cons] at hnd
    by_cases h : k' = k
    · subst h
      have hn : lookup k' b = none := lookup_eq_none_iff.mpr hnd.1
      rw [valuesOf_cons_self, ih hnd.2, hn]
      simp [lookup]
    · rw [valuesOf_cons_ne h, ih hnd.2]
      simp [lookup, h]

theorem foldKey_toList {ε : Type} (f : Val → Val → Except ε Val) (o p : Option Val) :
    foldKey f o p.toList = (match o, p with
      | none, y => .ok y
      | some x, none => .ok (some x)
      | some x, some y => (f x y).map some) := by
  cases o <;> cases p <;> simp [foldKey, stepOpt]
  rename_i x y
  cases f x y <;> rfl

theorem mergeOptWith_eq (f : Val → Val → Except MergeErr Val) (o p : Option Val) :
    mergeOptWith f o p = (match o, p with
      | none, y => .ok y
      | some x, none => .ok (some x)
      | some x, some y => (f x y).map some) := by
  cases o <;> cases p <;> rfl

theorem dictKeywise (f : Val → Val → Except MergeErr Val) :
    Keywise (J := String) (fun k s => lookup k s) (fun _ => mergeOptWith f) (dictMergeWith f)
      (fun s : List (String × Val) => (keys s).Nodup) where
  ok := fun a b r va vb h => by
    rw [dictMergeWith_eq_groupFold] at h
    refine ⟨groupFold_nodup f h va, fun k => ?_⟩
    have := groupFold_ok f h k
    rw [valuesOf_nodup k b vb, foldKey_toList] at this
    rw [mergeOptWith_eq]; exact this
  err := fun a b e _ vb h => by
    rw [dictMergeWith_eq_groupFold] at h
    obtain ⟨k, e', hk⟩ := groupFold_error f h
    rw [valuesOf_nodup k b vb, foldKey_toList] at hk
    exact ⟨k, e', by rw [mergeOptWith_eq]; exact hk⟩
  errc := fun a b k e _ vb h => by
    cases hx : dictMergeWith f a b with
    | error e' => exact ⟨e', rfl⟩
    | ok r =>
      rw [dictMergeWith_eq_groupFold] at hx
      have := groupFold_ok f hx k
      rw [valuesOf_nodup k b vb, foldKey_toList, ← mergeOptWith_eq, h] at this
      cases this


/-! ### lifting through `Merger.__call__`, with side conditions on the operands actually present -/

theorem mergeOpt_cong_of' {m : Merger} {ox ox' oy oy' : Option Val}
    (hx : OptRel (Equiv m) ox ox') (hy : OptRel (Equiv m) oy oy')
    (h : ∀ x x' y y', ox = some x → ox' = some x' → oy = some y → oy' = some y' →
      RE (Equiv m) (mergeVal m x y) (mergeVal m x' y')) :
    RE (OptRel (Equiv m)) (mergeOpt m ox oy) (mergeOpt m ox' oy') := by
  cases ox <;> cases ox' <;> simp at hx <;> cases oy <;> cases oy' <;> simp at hy <;>
    simp only [mergeOpt_none_left, mergeOpt_none_right, mergeOpt_some_some, RE_ok_ok, OptRel_some_some,
      OptRel_none_none] <;> try assumption
  exact RE.map (h _ _ _ _ rfl rfl rfl rfl) (fun _ _ r => r)

theorem mergeOpt_comm_of' {m : Merger} (ox oy : Option Val)
    (h : ∀ x y, ox = some x → oy = some y → RE (Equiv m) (mergeVal m x y) (mergeVal m y x)) :
    RE (OptRel (Equiv m)) (mergeOpt m ox oy) (mergeOpt m oy ox) := by
  cases ox <;> cases oy <;>
    simp only [mergeOpt_none_left, mergeOpt_none_right, mergeOpt_some_some, RE_ok_ok, OptRel_some_some,
      OptRel_none_none, Equiv.refl]
  exact RE.map (h _ _ rfl rfl) (fun _ _ r => r)

theorem mergeOpt_assoc_of' {m : Merger} (ox oy oz : Option Val)
    (h : ∀ x y z, ox = some x → oy = some y → oz = some z →
      RE (Equiv m) (mergeVal m x y >>= fun r => mergeVal m r z) (mergeVal m y z >>= fun r => mergeVal m x r)) :
    RE (OptRel (Equiv m)) (mergeOpt m ox oy >>= fun r => mergeOpt m r oz)
      (mergeOpt m oy oz >>= fun r => mergeOpt m ox r) := by
  have hrefl : ∀ (r : Except MergeErr (Option Val)), RE (OptRel (Equiv m)) r r :=
    fun r => RE.refl (fun o => OptRel.refl (Equiv.refl m) o) r
  cases ox with
  | none =>
    simp only [mergeOpt_none_left, ok_bind]
    cases hq : mergeOpt m oy oz with
    | error e => simp
    | ok r => simp [mergeOpt_none_left, OptRel.refl (Equiv.refl m)]
  | some x =>
    cases oy with
    | none =>
      simp only [mergeOpt_none_left, mergeOpt_none_right, ok_bind]
      exact hrefl _
    | some y =>
      cases oz with
      | none =>
        simp only [mergeOpt_none_right, ok_bind]
        cases hq : mergeOpt m (some x) (some y) with
        | error e => simp
        | ok r => simp [mergeOpt_none_right, OptRel.refl (Equiv.refl m)]
      | some z =>
        have := h x y z rfl rfl rfl
        simp only [mergeOpt_some_some]
        cases hxy : mergeVal m x y <;> cases hyz : mergeVal m y z <;>
          simp only [hxy, hyz, map_ok, map_error, ok_bind, error_bind, mergeOpt_some_some, RE_err_err] at this ⊢
        · rename_i r2
          cases hxr : mergeVal m x r2 <;> simp [hxr] at this ⊢
        · rename_i r1 _
          cases hrz : mergeVal m r1 z <;> simp [hrz] at this ⊢
        · rename_i r1 r2
          cases h1 : mergeVal m r1 z <;> cases h2 : mergeVal m x r2 <;> simp [h1, h2] at this ⊢
          exact this

theorem OptWFd_lookup_fields {t : Table} {fs : Fields} (h : WFdFields t fs) {f : String} {m : Merger}
    (hm : (f, m) ∈ t) {v : Val} (hv : lookup f fs = some v) : Val.WFd m v :=
  (WFdFields_iff t fs).mp h f m hm v hv

/-! ### the three laws, for every well-formed table -/

theorem WFd_dict {vm : Merger} {a : List (String × Val)} (h : Val.WFd (.dictMerge vm) (.dict a)) :
    (keys a).Nodup ∧ ∀ k v, lookup k a = some v → Val.WFd vm v := by
  simpa [Val.WFd] using h

theorem WFd_model {t : Table} {a : Fields} (h : Val.WFd (.merge t) (.model a)) : WFdFields t a := by
  simpa [Val.WFd] using h

/-- congruence for every well-formed table (dicts included) -/
theorem mergeVal_cong_g (m : Merger) : m.WF → ∀ x x' y y', Val.WFd m x → Val.WFd m x' → Val.WFd m y → Val.WFd m y' →
    Equiv m x x' → Equiv m y y' → RE (Equiv m) (mergeVal m x y) (mergeVal m x' y') := by
  induction m using Merger.ind with
  | forbidChange => intro _ x x' y y' _ _ _ _; exact mergeVal_cong .forbidChange trivial trivial x x' y y'
  | useFirst => intro _ x x' y y' _ _ _ _; exact mergeVal_cong .useFirst trivial trivial x x' y y'
  | useLast => intro _ x x' y y' _ _ _ _; exact mergeVal_cong .useLast trivial trivial x x' y y'
  | forbid => intro _ x x' y y' _ _ _ _; exact mergeVal_cong .forbid trivial trivial x x' y y'
  | unite => intro _ x x' y y' _ _ _ _; exact mergeVal_cong .unite trivial trivial x x' y y'
  | concat => intro _ x x' y y' _ _ _ _; exact mergeVal_cong .concat trivial trivial x x' y y'
  | merge t ih =>
    intro hwf x x' y y' wx wx' wy wy' hx hy
    obtain ⟨hnd, htw⟩ := Merger.WF_merge.mp hwf
    simp only [Equiv] at hx hy
    cases x <;> cases x' <;> simp only [modelEqv] at hx <;> try (cases hx; done)
    all_goals (cases y <;> cases y' <;> simp only [modelEqv] at hy <;> try (cases hy; done))
    all_goals simp only [mergeVal, RE_err_err]
    rename_i a a' b b'
    rw [EquivFields_iff] at hx hy
    have := (fieldsKeywise t hnd).rel (fun j => Equiv j.1.2) (a := a) (b := b) (c := a') (d := b')
      trivial trivial trivial trivial (fun j => by
        obtain ⟨⟨f, m⟩, hm⟩ := j
        refine mergeOpt_cong_of' (hx f m hm) (hy f m hm) ?_
        intro u u' v v' hu hu' hv hv'
        exact ih f m hm (Table.WF_mem htw hm) u u' v v'
          (OptWFd_lookup_fields (WFd_model wx) hm hu) (OptWFd_lookup_fields (WFd_model wx') hm hu')
          (OptWFd_lookup_fields (WFd_model wy) hm hv) (OptWFd_lookup_fields (WFd_model wy') hm hv')
          (by have := hx f m hm; rw [hu, hu'] at this; simpa using this)
          (by have := hy f m hm; rw [hv, hv'] at this; simpa using this))
    refine RE.map this ?_
    intro o o' h
    simp only [Equiv, modelEqv]
    rw [EquivFields_iff]
    exact fun f m hm => h ⟨(f, m), hm⟩
  | dictMerge vm ih =>
    intro hwf x x' y y' wx wx' wy wy' hx hy
    have hvw : vm.WF := by simpa [Merger.WF] using hwf
    simp only [Equiv] at hx hy
    cases x <;> cases x' <;> simp only [dictEqv] at hx <;> try (cases hx; done)
    all_goals (cases y <;> cases y' <;> simp only [dictEqv] at hy <;> try (cases hy; done))
    all_goals simp only [mergeVal, RE_err_err]
    rename_i a a' b b'
    have := (dictKeywise (mergeVal vm)).rel (fun _ => Equiv vm) (a := a) (b := b) (c := a') (d := b')
      (WFd_dict wx).1 (WFd_dict wy).1 (WFd_dict wx').1 (WFd_dict wy').1 (fun k => by
        refine mergeOpt_cong_of' (m := vm) (hx k) (hy k) ?_
        intro u u' v v' hu hu' hv hv'
        exact ih hvw u u' v v' ((WFd_dict wx).2 k u hu) ((WFd_dict wx').2 k u' hu')
          ((WFd_dict wy).2 k v hv) ((WFd_dict wy').2 k v' hv')
          (by have := hx k; rw [hu, hu'] at this; simpa using this)
          (by have := hy k; rw [hv, hv'] at this; simpa using this))
    refine RE.map this ?_
    intro o o' h
    simpa only [Equiv, dictEqv] using h

/-- commutativity up to `Equiv` for every well-formed table without `UseFirst`/`UseLast` -/
theorem mergeVal_comm_g (m : Merger) : m.WF → m.SymD → ∀ x y, Val.WFd m x → Val.WFd m y →
    RE (Equiv m) (mergeVal m x y) (mergeVal m y x) := by
  induction m using Merger.ind with
  | forbidChange => intro _ _ x y _ _; exact mergeVal_comm .forbidChange trivial trivial x y
  | useFirst => intro _ hs; simp [Merger.SymD] at hs
  | useLast => intro _ hs; simp [Merger.SymD] at hs
  | forbid => intro _ _ x y _ _; exact mergeVal_comm .forbid trivial trivial x y
  | unite => intro _ _ x y _ _; exact mergeVal_comm .unite trivial trivial x y
  | concat => intro _ _ x y _ _; exact mergeVal_comm .concat trivial trivial x y
  | merge t ih =>
    intro hwf hs x y wx wy
    obtain ⟨hnd, htw⟩ := Merger.WF_merge.mp hwf
    have hts : Table.SymD t := by simpa [Merger.SymD] using hs
    cases x <;> cases y <;> simp only [mergeVal, RE_err_err]
    rename_i a b
    have := (fieldsKeywise t hnd).rel (fun j => Equiv j.1.2) (a := a) (b := b) (c := b) (d := a)
      trivial trivial trivial trivial (fun j => by
        obtain ⟨⟨f, m⟩, hm⟩ := j
        refine mergeOpt_comm_of' _ _ ?_
        intro u v hu hv
        exact ih f m hm (Table.WF_mem htw hm) (Table.SymD_mem hts hm) u v
          (OptWFd_lookup_fields (WFd_model wx) hm hu) (OptWFd_lookup_fields (WFd_model wy) hm hv))
    refine RE.map this ?_
    intro o o' h
    simp only [Equiv, modelEqv]
    rw [EquivFields_iff]
    exact fun f m hm => h ⟨(f, m), hm⟩
  | dictMerge vm ih =>
    intro hwf hs x y wx wy
    have hvw : vm.WF := by simpa [Merger.WF] using hwf
    have hvs : vm.SymD := by simpa [Merger.SymD] using hs
    cases x <;> cases y <;> simp only [mergeVal, RE_err_err]
    rename_i a b
    have := (dictKeywise (mergeVal vm)).rel (fun _ => Equiv vm) (a := a) (b := b) (c := b) (d := a)
      (WFd_dict wx).1 (WFd_dict wy).1 (WFd_dict wy).1 (WFd_dict wx).1 (fun k => by
        refine mergeOpt_comm_of' (m := vm) _ _ ?_
        intro u v hu hv
        exact ih hvw hvs u v ((WFd_dict wx).2 k u hu) ((WFd_dict wy).2 k v hv))
    refine RE.map this ?_
    intro o o' h
    simpa only [Equiv, dictEqv] using h

/-- associativity up to `Equiv` for every well-formed table -/
theorem mergeVal_assoc_g (m : Merger) : m.WF → ∀ x y z, Val.WFd m x → Val.WFd m y → Val.WFd m z →
    RE (Equiv m) (mergeVal m x y >>= fun r => mergeVal m r z) (mergeVal m y z >>= fun r => mergeVal m x r) := by
  have leaf : ∀ (m : Merger), m.WF → m.DictFree → ∀ x y z,
      RE (Equiv m) (mergeVal m x y >>= fun r => mergeVal m r z) (mergeVal m y z >>= fun r => mergeVal m x r) :=
    fun m hw hd x y z => RE.mono (R := Eq) (fun a b (h : a = b) => h ▸ Equiv.refl m a) (mergeVal_assoc m hw hd x y z)
  induction m using Merger.ind with
  | forbidChange => intro _ x y z _ _ _; exact leaf .forbidChange trivial trivial x y z
  | useFirst => intro _ x y z _ _ _; exact leaf .useFirst trivial trivial x y z
  | useLast => intro _ x y z _ _ _; exact leaf .useLast trivial trivial x y z
  | forbid => intro _ x y z _ _ _; exact leaf .forbid trivial trivial x y z
  | unite => intro _ x y z _ _ _; exact leaf .unite trivial trivial x y z
  | concat => intro _ x y z _ _ _; exact leaf .concat trivial trivial x y z
  | merge t ih =>
    intro hwf x y z wx wy wz
    obtain ⟨hnd, htw⟩ := Merger.WF_merge.mp hwf
    cases x <;> cases y <;> cases z <;> simp only [mergeVal, error_bind, RE_err_err] <;>
      try (first | (cases mergeFields t _ _ <;> simp [mergeVal]; done))
    rename_i a b c
    have := (fieldsKeywise t hnd).assoc (fun j => Equiv j.1.2) (a := a) (b := b) (c := c)
      trivial trivial trivial (fun j => by
        obtain ⟨⟨f, m⟩, hm⟩ := j
        refine mergeOpt_assoc_of' _ _ _ ?_
        intro u v w hu hv hw
        exact ih f m hm (Table.WF_mem htw hm) u v w
          (OptWFd_lookup_fields (WFd_model wx) hm hu) (OptWFd_lookup_fields (WFd_model wy) hm hv)
          (OptWFd_lookup_fields (WFd_model wz) hm hw))
    cases hab : mergeFields t a b <;> cases hbc : mergeFields t b c <;> simp [hab, hbc, mergeVal] at this ⊢
    · rename_i r; cases h : mergeFields t a r <;> simp [h] at this ⊢
    · rename_i r _; cases h : mergeFields t r c <;> simp [h] at this ⊢
    · rename_i r r'
      cases h : mergeFields t r c <;> cases h' : mergeFields t a r' <;> simp [h, h'] at this ⊢
      simp only [Equiv, modelEqv]
      rw [EquivFields_iff]
      exact fun f m hm => this f m hm
  | dictMerge vm ih =>
    intro hwf x y z wx wy wz
    have hvw : vm.WF := by simpa [Merger.WF] using hwf
    cases x <;> cases y <;> cases z <;> simp only [mergeVal, error_bind, RE_err_err] <;>
      try (first | (cases dictMergeWith (mergeVal vm) _ _ <;> simp [mergeVal]; done))
    rename_i a b c
    have := (dictKeywise (mergeVal vm)).assoc (fun _ => Equiv vm) (a := a) (b := b) (c := c)
      (WFd_dict wx).1 (WFd_dict wy).1 (WFd_dict wz).1 (fun k => by
        refine mergeOpt_assoc_of' (m := vm) _ _ _ ?_
        intro u v w hu hv hw
        exact ih hvw u v w ((WFd_dict wx).2 k u hu) ((WFd_dict wy).2 k v hv) ((WFd_dict wz).2 k w hw))
    cases hab : dictMergeWith (mergeVal vm) a b <;> cases hbc : dictMergeWith (mergeVal vm) b c <;>
      simp [hab, hbc, mergeVal] at this ⊢
    · rename_i r; cases h : dictMergeWith (mergeVal vm) a r <;> simp [h] at this ⊢
    · rename_i r _; cases h : dictMergeWith (mergeVal vm) r c <;> simp [h] at this ⊢
    · rename_i r r'
      cases h : dictMergeWith (mergeVal vm) r c <;> cases h' : dictMergeWith (mergeVal vm) a r' <;>
        simp [h, h'] at this ⊢
      simpa only [Equiv, dictEqv] using this


theorem mergeOpt_ok_cases {m : Merger} {ox oy : Option Val} {v : Val} (h : mergeOpt m ox oy = .ok (some v)) :
    (ox = none ∧ oy = some v) ∨ (ox = some v ∧ oy = none) ∨ ∃ x y, ox = some x ∧ oy = some y ∧ mergeVal m x y = .ok v := by
  cases ox <;> cases oy
  · simp [mergeOpt_none_left] at h
  · simp only [mergeOpt_none_left, Except.ok.injEq] at h; exact Or.inl ⟨rfl, h⟩
  · simp only [mergeOpt_none_right, Except.ok.injEq] at h; exact Or.inr (Or.inl ⟨h, rfl⟩)
  · rename_i x y
    rw [mergeOpt_some_some] at h
    cases hm : mergeVal m x y with
    | error e => simp [hm] at h
    | ok r => simp [hm] at h; subst h; exact Or.inr (Or.inr ⟨x, y, rfl, rfl, hm⟩)

/-- merging keeps dict keys distinct -/
theorem mergeVal_WFd (m : Merger) : m.WF → ∀ x y r, Val.WFd m x → Val.WFd m y → mergeVal m x y = .ok r → Val.WFd m r := by
  induction m using Merger.ind with
  | merge t ih =>
    intro hwf x y r wx wy h
    obtain ⟨hnd, htw⟩ := Merger.WF_merge.mp hwf
    cases x <;> cases y <;> simp only [mergeVal] at h <;> try (cases h; done)
    rename_i a b
    cases hm : mergeFields t a b with
    | error e => simp [hm] at h
    | ok out =>
      simp only [hm, map_ok, Except.ok.injEq] at h
      subst h
      simp only [Val.WFd]
      rw [WFdFields_iff]
      intro f m hfm v hv
      have hk := mergeFields_ok hnd hm f m hfm
      rw [hv] at hk
      rcases mergeOpt_ok_cases hk with ⟨_, h2⟩ | ⟨h1, _⟩ | ⟨u, w, h1, h2, h3⟩
      · exact OptWFd_lookup_fields (WFd_model wy) hfm h2
      · exact OptWFd_lookup_fields (WFd_model wx) hfm h1
      · exact ih f m hfm (Table.WF_mem htw hfm) u w v (OptWFd_lookup_fields (WFd_model wx) hfm h1)
          (OptWFd_lookup_fields (WFd_model wy) hfm h2) h3
  | dictMerge vm ih =>
    intro hwf x y r wx wy h
    have hvw : vm.WF := by simpa [Merger.WF] using hwf
    cases x <;> cases y <;> simp only [mergeVal] at h <;> try (cases h; done)
    rename_i a b
    cases hm : dictMergeWith (mergeVal vm) a b with
    | error e => simp [hm] at h
    | ok out =>
      simp only [hm, map_ok, Except.ok.injEq] at h
      subst h
      obtain ⟨vr, hk⟩ := (dictKeywise (mergeVal vm)).ok a b out (WFd_dict wx).1 (WFd_dict wy).1 hm
      simp only [Val.WFd]
      refine ⟨vr, ?_⟩
      intro k v hv
      have hk' := hk k
      rw [hv] at hk'
      rcases mergeOpt_ok_cases (m := vm) hk' with ⟨_, h2⟩ | ⟨h1, _⟩ | ⟨u, w, h1, h2, h3⟩
      · exact (WFd_dict wy).2 k v h2
      · exact (WFd_dict wx).2 k v h1
      · exact ih hvw u w v ((WFd_dict wx).2 k u h1) ((WFd_dict wy).2 k w h2) h3
  | _ => intro _ x y r _ _ _; cases r <;> simp [Val.WFd]

/-- for tables without `DictMerge` the invariant is vacuous -/
theorem WFd_of_dictFree (m : Merger) : m.DictFree → ∀ x, Val.WFd m x := by
  induction m using Merger.ind with
  | merge t ih =>
    intro hd x
    have htd : Table.DictFree t := by simpa [Merger.DictFree] using hd
    cases x <;> simp only [Val.WFd]
    rw [WFdFields_iff]
    intro f m hm v _
    exact ih f m hm (Table.DictFree_mem htd hm) v
  | dictMerge vm _ => intro hd; simp [Merger.DictFree] at hd
  | _ => intro _ x; cases x <;> simp [Val.WFd]

/-! ### `merge(first, *others)` for tables with dicts -/

/-- equivalence between instances that both satisfy the dict invariant -/
def EquivFieldsW (t : Table) (a b : Fields) : Prop := EquivFields t a b ∧ WFdFields t a ∧ WFdFields t b

theorem RE_map_model' {t : Table} {x y : Except MergeErr Fields}
    (h : RE (Equiv (.merge t)) (x.map .model) (y.map .model)) : RE (EquivFields t) x y := by
  cases x <;> cases y <;> simp at h ⊢
  simpa [Equiv, modelEqv] using h

theorem mergeFields_WFd {t : Table} (hwf : (Merger.merge t).WF) {a b r : Fields} (wa : WFdFields t a) (wb : WFdFields t b)
    (h : mergeFields t a b = .ok r) : WFdFields t r := by
  have := mergeVal_WFd (.merge t) hwf (.model a) (.model b) (.model r) (by simpa [Val.WFd] using wa)
    (by simpa [Val.WFd] using wb) (by simp [mergeVal, h])
  simpa [Val.WFd] using this

theorem RE_W {t : Table} (hwf : (Merger.merge t).WF) {X Y : Except MergeErr Fields}
    (h : RE (EquivFields t) X Y) (hx : ∀ r, X = .ok r → WFdFields t r) (hy : ∀ r, Y = .ok r → WFdFields t r) :
    RE (EquivFieldsW t) X Y := by
  cases X <;> cases Y <;> simp at h ⊢
  exact ⟨h, hx _ rfl, hy _ rfl⟩

theorem mergeFields_PCS_g (t : Table) (hwf : (Merger.merge t).WF) (hs : (Merger.merge t).SymD) :
    PCS (mergeFields t) (EquivFieldsW t) (WFdFields t) where
  refl := fun a ha => ⟨EquivFields.refl t a, ha, ha⟩
  symm := fun _ _ h => ⟨h.1.symm, h.2.2, h.2.1⟩
  trans := fun _ _ _ h1 h2 => ⟨h1.1.trans h2.1, h1.2.1, h2.2.2⟩
  resp := fun _ _ h _ => h.2.2
  closed := fun a b r ha hb h => mergeFields_WFd hwf ha hb h
  cong := fun a a' b b' ha hb haa hbb => by
    have := mergeVal_cong_g (.merge t) hwf (.model a) (.model a') (.model b) (.model b')
      (by simpa [Val.WFd] using ha) (by simpa [Val.WFd] using haa.2.2) (by simpa [Val.WFd] using hb)
      (by simpa [Val.WFd] using hbb.2.2) (by simpa [Equiv, modelEqv] using haa.1) (by simpa [Equiv, modelEqv] using hbb.1)
    simp only [mergeVal] at this
    exact RE_W hwf (RE_map_model' this) (fun r h => mergeFields_WFd hwf ha hb h)
      (fun r h => mergeFields_WFd hwf haa.2.2 hbb.2.2 h)
  comm := fun a b ha hb => by
    have := mergeVal_comm_g (.merge t) hwf hs (.model a) (.model b) (by simpa [Val.WFd] using ha) (by simpa [Val.WFd] using hb)
    simp only [mergeVal] at this
    exact RE_W hwf (RE_map_model' this) (fun r h => mergeFields_WFd hwf ha hb h) (fun r h => mergeFields_WFd hwf hb ha h)
  assoc := fun a b c ha hb hc => by
    have := mergeVal_assoc_g (.merge t) hwf (.model a) (.model b) (.model c) (by simpa [Val.WFd] using ha)
      (by simpa [Val.WFd] using hb) (by simpa [Val.WFd] using hc)
    simp only [mergeVal] at this
    have e : RE (EquivFields t) (mergeFields t a b >>= fun r => mergeFields t r c)
        (mergeFields t b c >>= fun r => mergeFields t a r) := by
      cases hab : mergeFields t a b <;> cases hbc : mergeFields t b c <;> simp [hab, hbc, mergeVal] at this ⊢
      · rename_i r; cases h : mergeFields t a r <;> simp [h] at this ⊢
      · rename_i r _; cases h : mergeFields t r c <;> simp [h] at this ⊢
      · rename_i r r'
        cases h : mergeFields t r c <;> cases h' : mergeFields t a r' <;> simp [h, h'] at this ⊢
        simpa [Equiv, modelEqv] using this
    refine RE_W hwf e ?_ ?_
    · intro r h
      cases hab : mergeFields t a b with
      | error e1 => simp [hab] at h
      | ok r1 => simp [hab] at h; exact mergeFields_WFd hwf (mergeFields_WFd hwf ha hb hab) hc h
    · intro r h
      cases hbc : mergeFields t b c with
      | error e1 => simp [hbc] at h
      | ok r1 => simp [hbc] at h; exact mergeFields_WFd hwf ha (mergeFields_WFd hwf hb hc hbc) h

theorem mergeMany_eq_foldKey' (t : Table) (first : Fields) (others : List Fields) :
    (mergeMany t first others).map some = foldKey (mergeFields t) (some first) others := by
  induction others generalizing first with
  | nil => rfl
  | cons x xs ih =>
    simp only [mergeMany, foldKey_cons, stepOpt]
    cases mergeFields t first x with
    | error e => rfl
    | ok r => simpa using ih r

/-- `merge(first, *others)` is independent of the order of `others` (up to `Equiv`; or raises in every
order), for every well-formed table without `UseFirst`/`UseLast` — dicts included. -/
theorem mergeMany_perm_g (t : Table) (hwf : (Merger.merge t).WF) (hs : (Merger.merge t).SymD)
    (first : Fields) (hf : WFdFields t first) {l l' : List Fields} (hl : ∀ x ∈ l, WFdFields t x) (hp : l.Perm l') :
    RE (EquivFields t) (mergeMany t first l) (mergeMany t first l') := by
  have := foldKey_perm (mergeFields_PCS_g t hwf hs) hp hl
    (o := some first) (o' := some first) (show OptRel (EquivFieldsW t) (some first) (some first) from ⟨EquivFields.refl t first, hf, hf⟩) hf
  rw [← mergeMany_eq_foldKey', ← mergeMany_eq_foldKey'] at this
  cases h1 : mergeMany t first l <;> cases h2 : mergeMany t first l' <;> simp [h1, h2] at this ⊢
  exact this.1

end Annet.Mesh
