/-
C04 helper lemmas, part 3: the offside parser applied to the reference rendering of a well-formed
tree gives the tree back.
-/
import AnnetModel.Spec.FormatSplit
import AnnetModel.Lemmas.Offside

namespace Annet.FormatSplit.Lemmas
open Annet Annet.Offside Annet.FormatSplit

/-! ### one line -/

theorem off_lstrip_blanks (n : Nat) (l : List Char) : lstrip (blanks n ++ l) = lstrip l := by
  induction n with
  | zero => simp [blanks]
  | succ n ih =>
    have : pyIsSpace ' ' = true := by decide
    simp only [blanks, lstrip] at ih ⊢
    simp [List.replicate_succ, this, ih]

theorem lstrip_id (l : List Char) (h : l.head?.any pyIsSpace = false) : lstrip l = l := by
  cases l with
  | nil => rfl
  | cons c t =>
    simp at h
    simp [lstrip, h]

theorem parseIndent_blanks (n : Nat) (c : Char) (t : List Char) (h1 : c ≠ '\t') (h2 : c ≠ ' ') :
    parseIndent (blanks n ++ c :: t) = n := by
  induction n with
  | zero => simp [blanks, parseIndent, h1, h2]
  | succ n ih =>
    simp only [blanks] at ih ⊢
    simp [List.replicate_succ, parseIndent, ih]; omega

/-- a rendered line is read as (number of blanks, row) -/
theorem classify_line (n : Nat) (r : String) (h : rowBase r.toList = true) :
    classify comments (String.ofList (blanks n ++ r.toList)) = Item.text n r := by
  generalize hr : r.toList = l at h
  have hr' : r = String.ofList l := by rw [← hr]; simp
  subst hr'
  cases l with
  | nil => simp [rowBase] at h
  | cons c t =>
    simp only [rowBase, Bool.and_eq_true, Bool.not_eq_true', bne_iff_ne, ne_eq] at h
    obtain ⟨⟨⟨⟨hc, hbang⟩, hhash⟩, hlast⟩, -⟩ := h
    have ht : c ≠ '\t' := by intro e; subst e; revert hc; decide
    have hs : c ≠ ' ' := by intro e; subst e; revert hc; decide
    have hstrip : strip (blanks n ++ c :: t) = c :: t := by
      unfold strip
      rw [off_lstrip_blanks, lstrip_id (c :: t) (by simp [hc]), lstrip_id _ (by rw [List.head?_reverse]; exact hlast)]
      simp
    have hsec : startsWith (blanks n ++ c :: t) ['#'] = false := by
      cases n with
      | zero =>
        have : ('#' == c) = false := by simp; exact fun e => hhash e.symm
        simp [startsWith, blanks, List.isPrefixOf, this]
      | succ n => simp [startsWith, blanks, List.replicate_succ, List.isPrefixOf]
    simp only [classify, String.toList_ofList, hstrip, hsec, parseIndent_blanks n c t ht hs]
    simp [comments, startsWith]
    exact ⟨fun e => hbang e.symm, fun e => hhash e.symm⟩

/-! ### the indent stack machine -/

theorem popLoop_rep (w : Nat) (hw : 0 < w) (d : Nat) : ∀ e, d ≤ e →
    popLoop ((w * d : Nat) : Int) (List.replicate e w) ((w * e : Nat) : Int)
      = (List.replicate d w, ((w * d : Nat) : Int))
  | 0, h => by
    have : d = 0 := by omega
    subst this
    simp [popLoop]
  | e + 1, h => by
    by_cases hd : d = e + 1
    · subst hd
      simp [List.replicate_succ, popLoop]
    · have hlt : w * d < w * (e + 1) := Nat.mul_lt_mul_of_pos_left (by omega) hw
      have hlt' : ((w * (e + 1) : Nat) : Int) > ((w * d : Nat) : Int) := by omega
      have hsub : ((w * (e + 1) : Nat) : Int) - (w : Int) = ((w * e : Nat) : Int) := by
        rw [Nat.mul_succ]; omega
      simp only [List.replicate_succ, popLoop, if_pos hlt', hsub]
      exact popLoop_rep w hw d e (by omega)

theorem stepText_rep (w : Nat) (hw : 0 < w) (d e : Nat) (g : Option Nat) (hde : d ≤ e + 1)
    (hg : g = some 0 ∨ (g = none ∧ e = 0 ∧ d = 0)) :
    stepText ⟨List.replicate e w, ((w * e : Nat) : Int), g⟩ (w * d)
      = some (⟨List.replicate d w, ((w * d : Nat) : Int), some 0⟩, d) := by
  rcases hg with rfl | ⟨rfl, rfl, rfl⟩
  · by_cases h1 : d = e + 1
    · subst h1
      rw [Offside.Lemmas.stepText_push (by omega) (by rw [Nat.mul_succ]; omega)]
      have : (((w * (e + 1) : Nat) : Int) - ((0 : Nat) : Int) - ((w * e : Nat) : Int)).toNat = w := by
        rw [Nat.mul_succ]; omega
      rw [this]
      simp [List.replicate_succ]
    · by_cases h2 : d = e
      · subst h2
        rw [Offside.Lemmas.stepText_same (by omega) (by omega)]
        simp
      · have hlt : w * d < w * e := Nat.mul_lt_mul_of_pos_left (by omega) hw
        rw [Offside.Lemmas.stepText_pop (by omega) (by omega)]
        have : ((w * d : Nat) : Int) - ((0 : Nat) : Int) = ((w * d : Nat) : Int) := by omega
        rw [this, popLoop_rep w hw d e (by omega)]
        simp
  · simp [stepText]

/-- the machine state after rows of a rendering of width `w`, ready for a row at depth `d` -/
def OffGood (w d : Nat) (st : St) : Prop :=
  ∃ e g, st = ⟨List.replicate e w, ((w * e : Nat) : Int), g⟩ ∧ d ≤ e + 1 ∧
    (g = some 0 ∨ (g = none ∧ e = 0 ∧ d = 0))

theorem OffGood_pred {w d : Nat} {st : St} (h : OffGood w (d + 1) st) : OffGood w d st := by
  obtain ⟨e, g, rfl, h1, h2⟩ := h
  refine ⟨e, g, rfl, by omega, ?_⟩
  rcases h2 with h2 | ⟨_, _, h3⟩
  · exact Or.inl h2
  · omega

theorem except_map_map {ε α β γ : Type} (f : α → β) (g : β → γ) (r : Except ε α) :
    (r.map f).map g = r.map (fun x => g (f x)) := by
  cases r <;> rfl

theorem except_map_nil {ε α : Type} (r : Except ε (List α)) :
    r.map (fun out => [] ++ out) = r := by
  cases r <;> rfl

mutual
theorem run_items (w : Nat) (hw : 0 < w) : (t : Cfg) → ∀ (d : Nat) (p : List String) (st : St)
    (stack : List String), p.length = d → OffGood w d st → stack.take d = p →
    ∃ st' stack', OffGood w d st' ∧ stack'.take d = p ∧ ∀ rest n,
      runItems (items w d t ++ rest) st stack n
        = (runItems rest st' stack' (n + t.size)).map (fun out => (Cfg.paths t).map (p ++ ·) ++ out)
  | .mk ks => by
    intro d p st stack hp hst hstack
    simp only [items, Cfg.size, Cfg.paths]
    exact run_itemsL w hw ks d p st stack hp hst hstack
theorem run_itemsL (w : Nat) (hw : 0 < w) : (ks : List (String × Cfg)) → ∀ (d : Nat)
    (p : List String) (st : St) (stack : List String), p.length = d → OffGood w d st →
    stack.take d = p →
    ∃ st' stack', OffGood w d st' ∧ stack'.take d = p ∧ ∀ rest n,
      runItems (itemsL w d ks ++ rest) st stack n
        = (runItems rest st' stack' (n + Cfg.sizeList ks)).map
            (fun out => (Cfg.pathsList ks).map (p ++ ·) ++ out)
  | [] => by
    intro d p st stack hp hst hstack
    refine ⟨st, stack, hst, hstack, ?_⟩
    intro rest n
    simp only [itemsL, Cfg.sizeList, Cfg.pathsList, List.nil_append, List.map_nil, Nat.add_zero]
    exact (except_map_nil _).symm
  | (k, c) :: rest0 => by
    intro d p st stack hp hst hstack
    obtain ⟨e, g, rfl, hde, hg⟩ := hst
    have hstep := stepText_rep w hw d e g hde hg
    have hg1 : OffGood w (d + 1) ⟨List.replicate d w, ((w * d : Nat) : Int), some 0⟩ :=
      ⟨d, some 0, rfl, by omega, Or.inl rfl⟩
    obtain ⟨st2, stack2, hg2, hs2, H2⟩ := run_items w hw c (d + 1) (p ++ [k])
      ⟨List.replicate d w, ((w * d : Nat) : Int), some 0⟩ (p ++ [k]) (by simp [hp]) hg1
      (by rw [List.take_of_length_le (by simp [hp])])
    have hs2' : stack2.take d = p := by
      have : (stack2.take (d + 1)).take d = stack2.take d := by
        rw [List.take_take]; congr 1; omega
      rw [← this, hs2, List.take_left' hp]
    obtain ⟨st3, stack3, hg3, hs3, H3⟩ := run_itemsL w hw rest0 d p st2 stack2 hp (OffGood_pred hg2) hs2'
    refine ⟨st3, stack3, hg3, hs3, ?_⟩
    intro rest n
    simp only [itemsL, List.cons_append, List.append_assoc]
    rw [Offside.Lemmas.runItems_text_some hstep, Offside.Lemmas.restack_eq, hstack, H2, H3,
      except_map_map, except_map_map]
    have e1 : n + 1 + c.size + Cfg.sizeList rest0 = n + Cfg.sizeList ((k, c) :: rest0) := by
      simp only [Cfg.sizeList]; omega
    rw [e1]
    congr 1
    funext out
    simp [Cfg.pathsList, List.map_map, Function.comp_def]
end

/-- the indent stack machine on a rendering: every row is filed under the path of its ancestors -/
theorem stacks_itemsL (w : Nat) (hw : 0 < w) (ks : List (String × Cfg)) :
    stacks (itemsL w 0 ks) = .ok (Cfg.pathsList ks) := by
  obtain ⟨st', stack', -, -, H⟩ := run_itemsL w hw ks 0 [] St.init [] rfl
    ⟨0, none, by simp [St.init], by omega, Or.inr ⟨rfl, rfl, rfl⟩⟩ rfl
  have := H [] 1
  simp only [List.append_nil] at this
  simp only [stacks, this, runItems]
  simp [Except.map]

/-! ### rebuilding the tree from its paths -/

/-- fold of `insertPath` -/
def insAll (qs : List (List String)) (t : Cfg) : Cfg := qs.foldl (fun t p => Cfg.insertPath p t) t

theorem insAll_append (a b : List (List String)) (t : Cfg) :
    insAll (a ++ b) t = insAll b (insAll a t) := by
  simp [insAll, List.foldl_append]

theorem insertPath_last (acc : List (String × Cfg)) (k : String) (s : Cfg) (q : List String)
    (hk : Cfg.hasKey acc k = false) :
    Cfg.insertPath (k :: q) (.mk (acc ++ [(k, s)])) = .mk (acc ++ [(k, Cfg.insertPath q s)]) := by
  have h1 : Cfg.hasKey (acc ++ [(k, s)]) k = true := by simp [Cfg.hasKey]
  have hall : ∀ p ∈ acc, (p.1 == k) = false := by
    intro p hp
    simp only [Cfg.hasKey, List.any_eq_false] at hk
    simpa using hk p hp
  simp only [Cfg.insertPath, h1, if_true, List.map_append, List.map_cons, List.map_nil]
  have h2 : acc.map (fun p => if (p.1 == k) = true then (p.1, Cfg.insertPath q p.2) else p) = acc := by
    calc _ = acc.map id := by
          apply List.map_congr_left
          intro p hp
          simp [hall p hp]
      _ = acc := by simp
  rw [h2]
  simp

theorem insAll_under (acc : List (String × Cfg)) (k : String) (hk : Cfg.hasKey acc k = false)
    (qs : List (List String)) (s : Cfg) :
    insAll (qs.map (k :: ·)) (.mk (acc ++ [(k, s)])) = .mk (acc ++ [(k, insAll qs s)]) := by
  induction qs generalizing s with
  | nil => simp [insAll]
  | cons q qs ih =>
    have := ih (Cfg.insertPath q s)
    simp only [insAll, List.map_cons, List.foldl_cons] at this ⊢
    rw [insertPath_last acc k s q hk, this]

theorem insertPath_new (acc : List (String × Cfg)) (k : String) (hk : Cfg.hasKey acc k = false) :
    Cfg.insertPath [k] (.mk acc) = .mk (acc ++ [(k, Cfg.empty)]) := by
  simp [Cfg.insertPath, hk]

mutual
theorem insAll_paths (ok : String → Bool) : (t : Cfg) → wf ok t = true →
    insAll (Cfg.paths t) Cfg.empty = t
  | .mk ks => by
    intro h
    simp only [wf] at h
    simp only [Cfg.paths]
    have := insAll_pathsList ok ks h [] (by intro e _; simp [Cfg.hasKey])
    simpa [Cfg.empty] using this
theorem insAll_pathsList (ok : String → Bool) : (ks : List (String × Cfg)) → wfL ok ks = true →
    ∀ acc : List (String × Cfg), (∀ e ∈ ks, Cfg.hasKey acc e.1 = false) →
    insAll (Cfg.pathsList ks) (.mk acc) = .mk (acc ++ ks)
  | [] => by intro _ acc _; simp [Cfg.pathsList, insAll]
  | (k, c) :: rest => by
    intro h acc hacc
    simp only [wfL, Bool.and_eq_true, Bool.not_eq_true'] at h
    obtain ⟨⟨⟨-, hnd⟩, hc⟩, hrest⟩ := h
    have h1 := insAll_paths ok c hc
    have hk : Cfg.hasKey acc k = false := hacc (k, c) (by simp)
    have h2 := insAll_pathsList ok rest hrest (acc ++ [(k, c)]) (by
      intro e he
      have ha := hacc e (by simp [he])
      simp only [List.any_eq_false] at hnd
      have hn := hnd e he
      simp only [Cfg.hasKey, List.any_append, List.any_cons, List.any_nil, Bool.or_false] at ha ⊢
      rw [ha]
      have hne : e.1 ≠ k := by simpa using hn
      simp only [Bool.false_or, beq_eq_false_iff_ne, ne_eq]
      exact fun hh => hne hh.symm)
    simp only [Cfg.pathsList]
    rw [insAll_append]
    have h3 : insAll ([k] :: (Cfg.paths c).map (k :: ·)) (.mk acc) = .mk (acc ++ [(k, c)]) := by
      have : insAll ([k] :: (Cfg.paths c).map (k :: ·)) (.mk acc)
          = insAll ((Cfg.paths c).map (k :: ·)) (Cfg.insertPath [k] (.mk acc)) := by
        simp [insAll]
      rw [this, insertPath_new acc k hk, insAll_under acc k hk, h1]
    rw [h3, h2]
    simp
end

/-- inserting the paths of a tree with distinct siblings, in document order, rebuilds the tree -/
theorem treeOfStacks_pathsList (ok : String → Bool) (ks : List (String × Cfg)) (h : wfL ok ks = true) :
    treeOfStacks (Cfg.pathsList ks) = .mk ks := by
  have := insAll_pathsList ok ks h [] (by intro e _; simp [Cfg.hasKey])
  simpa [treeOfStacks, insAll, Cfg.empty] using this

/-! ### `parse_to_tree` on a rendering -/

mutual
theorem classify_render (ok : String → Bool) (hok : ∀ r, ok r = true → rowBase r.toList = true)
    (w : Nat) : (t : Cfg) → wf ok t = true → ∀ d,
    (render w d t).map (fun l => classify comments (String.ofList l)) = items w d t
  | .mk ks => by
    intro h d
    simp only [wf] at h
    simp only [render, items]
    exact classify_renderL ok hok w ks h d
theorem classify_renderL (ok : String → Bool) (hok : ∀ r, ok r = true → rowBase r.toList = true)
    (w : Nat) : (ks : List (String × Cfg)) → wfL ok ks = true → ∀ d,
    (renderL w d ks).map (fun l => classify comments (String.ofList l)) = itemsL w d ks
  | [] => by intro _ d; simp [renderL, itemsL]
  | (k, c) :: rest => by
    intro h d
    simp only [wfL, Bool.and_eq_true, Bool.not_eq_true'] at h
    obtain ⟨⟨⟨hk, -⟩, hc⟩, hrest⟩ := h
    have h1 := classify_render ok hok w c hc (d + 1)
    have h2 := classify_renderL ok hok w rest hrest d
    simp only [renderL, itemsL, List.map_cons, List.map_append, h1, h2,
      classify_line (w * d) k (hok k hk)]
end

/-- `parse_to_tree` of the reference rendering (any indentation width `w ≥ 1`) is the tree -/
theorem parse_render (w : Nat) (hw : 0 < w) (ok : String → Bool)
    (hok : ∀ r, ok r = true → rowBase r.toList = true) (t : Cfg) (h : wf ok t = true) :
    parseToTree comments ((render w 0 t).map String.ofList) = .ok t := by
  have h1 := classify_render ok hok w t h 0
  obtain ⟨ks⟩ := t
  simp only [wf] at h
  simp only [parseToTree, List.map_map, Function.comp_def, h1, parseItems, items,
    stacks_itemsL w hw ks, treeOfStacks_pathsList ok ks h]

end Annet.FormatSplit.Lemmas
