/-
Helper lemmas for C10, part 2: the `exclusive` fold of `match_row_to_acl` and the exclusive mode of `apply_acl`.
-/
import AnnetModel.Spec.Gen
import AnnetModel.Lemmas.Acl

namespace Annet.Gen.Lemmas
open Annet Annet.Acl Annet.Acl.Spec Annet.Acl.Lemmas Annet.Gen.Spec

/-! ### `gen_cant_delete` (patching.py:478-491) -/

/-- one iteration of the inner loop: `gen_cant_delete[name] = flag` / `&= flag` -/
def step (acc : List (String × Bool)) (nf : String × Bool) : List (String × Bool) :=
  if acc.any (·.1 == nf.1) then acc.map fun e => if e.1 == nf.1 then (e.1, e.2 && nf.2) else e
  else acc ++ [nf]

def pairs (ms : List Match) : List (String × Bool) :=
  ms.flatMap fun m => m.rule.genNames.zip m.rule.cantDelete

theorem canDeleteNames_eq (ms : List Match) :
    canDeleteNames ms = (((pairs ms).foldl step []).filter (fun e => !e.2)).map (·.1) := by
  have : ∀ (ms : List Match) (acc : List (String × Bool)),
      ms.foldl (fun (acc : List (String × Bool)) m =>
        (m.rule.genNames.zip m.rule.cantDelete).foldl (fun acc (nf : String × Bool) =>
          if acc.any (·.1 == nf.1) then acc.map fun e => if e.1 == nf.1 then (e.1, e.2 && nf.2) else e
          else acc ++ [nf]) acc) acc = (pairs ms).foldl step acc := by
    intro ms
    induction ms with
    | nil => intro acc; rfl
    | cons m rest ih =>
      intro acc
      rw [List.foldl_cons, ih]
      show _ = List.foldl step acc (List.flatMap _ (m :: rest))
      rw [List.flatMap_cons, List.foldl_append]
      rfl
  rw [canDeleteNames, this]

theorem step_keys (acc : List (String × Bool)) (nf : String × Bool) :
    (step acc nf).map (·.1) = if acc.any (·.1 == nf.1) then acc.map (·.1) else acc.map (·.1) ++ [nf.1] := by
  rw [step]
  split
  · rw [List.map_map]
    apply List.map_congr_left
    intro e _
    simp only [Function.comp]
    split <;> rfl
  · simp

theorem step_nodup (acc : List (String × Bool)) (nf : String × Bool) (h : (acc.map (·.1)).Nodup) :
    ((step acc nf).map (·.1)).Nodup := by
  rw [step_keys]
  split
  · exact h
  · rename_i hn
    rw [List.nodup_append]
    refine ⟨h, by simp, ?_⟩
    intro x hx y hy hxy
    simp only [List.mem_singleton] at hy
    subst hy; subst hxy
    apply hn
    obtain ⟨e, he, hee⟩ := List.mem_map.1 hx
    exact List.any_eq_true.2 ⟨e, he, by simp [hee]⟩

theorem step_mem_false (acc : List (String × Bool)) (nf : String × Bool) (n : String) :
    (n, false) ∈ step acc nf ↔ (n, false) ∈ acc ∨ (n, false) = nf := by
  obtain ⟨n', f'⟩ := nf
  rw [step]
  split
  · rename_i hk
    obtain ⟨e0, he0, hk0⟩ := List.any_eq_true.1 hk
    simp only [beq_iff_eq] at hk0
    simp only [List.mem_map]
    constructor
    · rintro ⟨e, he, heq⟩
      split at heq
      · rename_i h1
        simp only [beq_iff_eq] at h1
        obtain ⟨h2, h3⟩ := Prod.mk.inj heq
        simp only [Bool.and_eq_false_iff] at h3
        rcases h3 with h3 | h3
        · left
          have : e = (n, false) := by
            obtain ⟨a, b⟩ := e
            simp only at h2 h3
            rw [h2, h3]
          rw [← this]; exact he
        · right
          rw [← h2, h1, h3]
      · left; rw [← heq]; exact he
    · rintro (h | h)
      · refine ⟨(n, false), h, ?_⟩
        split
        · rename_i h1
          simp only [beq_iff_eq] at h1
          simp [h1]
        · rfl
      · obtain ⟨h1, h2⟩ := Prod.mk.inj h
        subst h1 h2
        refine ⟨e0, he0, ?_⟩
        simp [hk0]
  · simp only [List.mem_append, List.mem_singleton]

theorem foldl_step_mem_false (l acc : List (String × Bool)) (n : String) :
    (n, false) ∈ l.foldl step acc ↔ (n, false) ∈ acc ∨ (n, false) ∈ l := by
  induction l generalizing acc with
  | nil => simp
  | cons x rest ih =>
    rw [List.foldl_cons, ih, step_mem_false, List.mem_cons]
    constructor
    · rintro ((h | h) | h)
      · exact .inl h
      · exact .inr (.inl h)
      · exact .inr (.inr h)
    · rintro (h | h | h)
      · exact .inl (.inl h)
      · exact .inl (.inr h)
      · exact .inr h

theorem foldl_step_nodup (l acc : List (String × Bool)) (h : (acc.map (·.1)).Nodup) :
    ((l.foldl step acc).map (·.1)).Nodup := by
  induction l generalizing acc with
  | nil => exact h
  | cons x rest ih => exact ih _ (step_nodup acc x h)

/-- a generator is named in the error iff it owns a deletable matching rule -/
theorem mem_canDeleteNames (ms : List Match) (n : String) : n ∈ canDeleteNames ms ↔ Owns ms n := by
  rw [canDeleteNames_eq, List.mem_map]
  constructor
  · rintro ⟨e, he, rfl⟩
    obtain ⟨h1, h2⟩ := List.mem_filter.1 he
    obtain ⟨a, b⟩ := e
    simp only [Bool.not_eq_eq_eq_not, Bool.not_true] at h2
    subst h2
    rcases (foldl_step_mem_false _ _ _).1 h1 with h | h
    · cases h
    · obtain ⟨m, hm, hp⟩ := List.mem_flatMap.1 h
      exact ⟨m, hm, hp⟩
  · rintro ⟨m, hm, hp⟩
    refine ⟨(n, false), List.mem_filter.2 ⟨?_, by simp⟩, rfl⟩
    exact (foldl_step_mem_false _ _ _).2 (.inr (List.mem_flatMap.2 ⟨m, hm, hp⟩))

theorem canDeleteNames_nodup (ms : List Match) : (canDeleteNames ms).Nodup := by
  rw [canDeleteNames_eq]
  have h := foldl_step_nodup (pairs ms) [] (by simp)
  exact List.Nodup.sublist (List.Sublist.map _ List.filter_sublist) h

/-- more than one name is listed iff two different generators own a deletable matching rule -/
theorem conflict_iff (ms : List Match) :
    (canDeleteNames ms).length > 1 ↔ ∃ n1 n2, n1 ≠ n2 ∧ Owns ms n1 ∧ Owns ms n2 := by
  constructor
  · intro h
    match hl : canDeleteNames ms, h with
    | a :: b :: rest, _ =>
      have hn := canDeleteNames_nodup ms
      rw [hl] at hn
      refine ⟨a, b, ?_, (mem_canDeleteNames ms a).1 (by rw [hl]; simp), (mem_canDeleteNames ms b).1 (by rw [hl]; simp)⟩
      intro hab
      simp [hab] at hn
  · rintro ⟨n1, n2, hne, h1, h2⟩
    have m1 := (mem_canDeleteNames ms n1).2 h1
    have m2 := (mem_canDeleteNames ms n2).2 h2
    match hl : canDeleteNames ms with
    | [] => rw [hl] at m1; cases m1
    | [a] =>
      rw [hl] at m1 m2
      simp only [List.mem_singleton] at m1 m2
      exact (hne (m1.trans m2.symm)).elim
    | a :: b :: rest => simp

/-! ### exclusive mode of `apply_acl` -/

theorem matchRow_excl (v : Vendor) (row : String) (rules : Rules) :
    matchRowToAcl v row rules true =
      (match conflictNames v rules row with
       | some ns => .error (.notExclusive [] ns)
       | none => matchRowToAcl v row rules false) := by
  rw [matchRowToAcl, matchRowToAcl, conflictNames]
  cases hf : findMatches v row rules with
  | none => rfl
  | some ms =>
    cases ms with
    | nil => simp [canDeleteNames]
    | cons m rest =>
      simp only [Bool.true_and, Bool.false_and, Bool.false_eq_true, if_false]
      by_cases hc : (canDeleteNames (m :: rest)).length > 1
      · simp [hc]
      · simp [hc]

mutual
  theorem excl_cfg (v : Vendor) (rules : Rules) (path : List String) :
      (t t0 : Cfg) → applyAcl v false false rules path t = .ok t0 →
        applyAcl v false true rules path t =
          (match firstConflict v rules path t with
           | some (p, ns) => .error (.notExclusive p ns)
           | none => .ok t0)
    | .mk ks, t0, h => by
      obtain ⟨ks0, hl, rfl⟩ := (applyAcl_ok_iff ..).1 h
      have := excl_list v rules path ks ks0 hl
      rw [applyAcl, this, firstConflict]
      cases firstConflictL v rules path ks <;> rfl
  theorem excl_list (v : Vendor) (rules : Rules) (path : List String) :
      (ks ks0 : List (String × Cfg)) → applyAclList v false false rules path ks = .ok ks0 →
        applyAclList v false true rules path ks =
          (match firstConflictL v rules path ks with
           | some (p, ns) => .error (.notExclusive p ns)
           | none => .ok ks0)
    | [], ks0, h => by
      simp only [applyAclList, Except.ok.injEq] at h
      subst h; rfl
    | (row, ch) :: rest, ks0, h => by
      rw [applyAclList, firstConflictL, matchRow_excl]
      cases hcn : conflictNames v rules row with
      | some ns => rfl
      | none =>
        simp only
        rcases lenient_cons_inv h with ⟨hp, hm | ⟨m, cr, hm, hc⟩, hr⟩ |
          ⟨m, cr, ch', rest', hm, hc, hp, hch, hrest, rfl⟩
        · have ih := excl_list v rules path rest ks0 hr
          simp only [hm, hp, Bool.false_eq_true, if_false, ih]
        · have ih := excl_list v rules path rest ks0 hr
          simp only [hm, hp, hc, if_true, ih]
        · have ih1 := excl_cfg v cr (path ++ [row]) ch ch' hch
          have ih2 := excl_list v rules path rest rest' hrest
          simp only [hm, hp, hc, Bool.false_eq_true, if_false, ih1, ih2]
          cases firstConflict v cr (path ++ [row]) ch with
          | some q => rfl
          | none =>
            cases firstConflictL v rules path rest <;> rfl
end

end Annet.Gen.Lemmas
