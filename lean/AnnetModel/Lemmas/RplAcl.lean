/-
Helper lemmas for C14: the generators' rows are covered by the generators' own ACLs
(`Model/Acl.lean` matching on symbolic rows).
-/
import AnnetModel.Lemmas.Rpl
import AnnetModel.Lemmas.Acl
import AnnetModel.Lemmas.Pattern

namespace Annet.Rpl.Lemmas
open Annet Annet.Acl Annet.Pattern Annet.Acl.Spec Annet.Acl.Lemmas Annet.Pattern.Lemmas Annet.Offside

/-- the local function `one` of `findMatches`, named -/
def oneMatch (v : Vendor) (row : String) (rev : Bool) (rg : Rule × Bool) : Option (List Match) := do
  let (r, isGlobal) := rg
  let p ← if rev then reversePat v r else directPat r
  let rowN := if v.juniper then junActivate row else row
  match p.match? rowN.toList with
  | none => pure []
  | some _ =>
    pure [{ rule := r, crAllowed := !isGlobal && !rev && !r.ignore, isReverse := rev, prio := r.prio,
            shared := sharedChars row.toList (patternSource p) }]

theorem findMatches_eq (v : Vendor) (row : String) (rules : Rules) :
    findMatches v row rules = (do
      let d ← (rules.loc.map (·, false) ++ rules.glob.map (·, true)).mapM (oneMatch v row false)
      let r ← (rules.loc.map (·, false) ++ rules.glob.map (·, true)).mapM (oneMatch v row true)
      pure (sortStable (d.flatten ++ r.flatten))) := rfl

theorem mapM_option_some {α β : Type} (f : α → Option β) (l : List α) (h : ∀ x ∈ l, (f x).isSome = true) :
    ∃ ys, l.mapM f = some ys ∧ (∀ y ∈ ys, ∃ x ∈ l, f x = some y) ∧ (∀ x ∈ l, ∃ y ∈ ys, f x = some y) := by
  induction l with
  | nil => exact ⟨[], by simp, by simp, by simp⟩
  | cons x xs ih =>
    obtain ⟨ys, hys, h1, h2⟩ := ih (fun y hy => h y (by simp [hy]))
    have hx := h x (by simp)
    cases hfx : f x with
    | none => simp [hfx] at hx
    | some y =>
      refine ⟨y :: ys, by simp [List.mapM_cons, hfx, hys], ?_, ?_⟩
      · intro y' hy'
        simp only [List.mem_cons] at hy'
        rcases hy' with rfl | hy'
        · exact ⟨x, by simp, hfx⟩
        · obtain ⟨x', hx', hf'⟩ := h1 y' hy'
          exact ⟨x', by simp [hx'], hf'⟩
      · intro x' hx'
        simp only [List.mem_cons] at hx'
        rcases hx' with rfl | hx'
        · exact ⟨y, by simp, hfx⟩
        · obtain ⟨y', hy', hf'⟩ := h2 x' hx'
          exact ⟨y', by simp [hy'], hf'⟩

/-- every rule row and its negated form are inside the pattern grammar; no ignore rules; every rule deletable -/
structure PlainRules (v : Vendor) (rules : Rules) : Prop where
  direct : ∀ r ∈ rules.loc ++ rules.glob, (directPat r).isSome = true
  reverse : ∀ r ∈ rules.loc ++ rules.glob, (reversePat v r).isSome = true
  noIgnore : ∀ r ∈ rules.loc ++ rules.glob, r.ignore = false
  deletable : ∀ r ∈ rules.loc ++ rules.glob, r.cantDelete.all id = false

theorem oneMatch_isSome (v : Vendor) (row : String) (rules : Rules) (h : PlainRules v rules) (rev : Bool) :
    ∀ rg ∈ rules.loc.map (·, false) ++ rules.glob.map (·, true), (oneMatch v row rev rg).isSome = true := by
  intro rg hrg
  have hr : rg.1 ∈ rules.loc ++ rules.glob := by
    simp only [List.mem_append, List.mem_map] at hrg ⊢
    rcases hrg with ⟨r, hr, rfl⟩ | ⟨r, hr, rfl⟩
    · exact .inl hr
    · exact .inr hr
  obtain ⟨r, g⟩ := rg
  have hd := h.direct r hr
  have hv := h.reverse r hr
  unfold oneMatch
  cases rev
  · cases hp : directPat r with
    | none => simp [hp] at hd
    | some p => simp only [hp]; simp; split <;> simp
  · cases hp : reversePat v r with
    | none => simp [hp] at hv
    | some p => simp only [hp]; simp; split <;> simp

theorem oneMatch_rule (v : Vendor) (row : String) (rev : Bool) (rg : Rule × Bool) (ms : List Match)
    (h : oneMatch v row rev rg = some ms) : ∀ m ∈ ms, m.rule = rg.1 := by
  obtain ⟨r, g⟩ := rg
  unfold oneMatch at h
  cases rev <;> simp at h
  · cases hp : directPat r with
    | none => simp [hp] at h
    | some p =>
      simp [hp] at h
      split at h <;> simp at h <;> subst h <;> simp
  · cases hp : reversePat v r with
    | none => simp [hp] at h
    | some p =>
      simp [hp] at h
      split at h <;> simp at h <;> subst h <;> simp

/-- a row that some rule matches directly passes a plain ACL -/
theorem passRow_of_direct (v : Vendor) (rules : Rules) (row : String) (hp : PlainRules v rules)
    (hj : v.juniper = false) (r : Rule) (hr : r ∈ rules.loc ++ rules.glob) (p : Pat) (hd : directPat r = some p)
    (hm : (p.match? row.toList).isSome = true) : (passRow v rules row).isSome = true := by
  obtain ⟨d, hd1, hd2, hd3⟩ := mapM_option_some _ _ (oneMatch_isSome v row rules hp false)
  obtain ⟨rv, hr1, hr2, _⟩ := mapM_option_some _ _ (oneMatch_isSome v row rules hp true)
  have hfm : findMatches v row rules = some (sortStable (d.flatten ++ rv.flatten)) := by
    rw [findMatches_eq, hd1, hr1]; rfl
  -- the direct candidate of `r`
  have hrg : ∃ g, (r, g) ∈ rules.loc.map (·, false) ++ rules.glob.map (·, true) := by
    simp only [List.mem_append] at hr
    rcases hr with hr | hr
    · exact ⟨false, by simp [hr]⟩
    · exact ⟨true, by simp [hr]⟩
  obtain ⟨g, hg⟩ := hrg
  obtain ⟨y, hy, hfy⟩ := hd3 (r, g) hg
  have hyne : y ≠ [] := by
    unfold oneMatch at hfy
    simp [hd, hj] at hfy
    cases hmm : p.match? row.toList with
    | none => simp [hmm] at hm
    | some caps => simp [hmm] at hfy; subst hfy; simp
  have hne : sortStable (d.flatten ++ rv.flatten) ≠ [] := by
    cases y with
    | nil => exact absurd rfl hyne
    | cons m _ =>
      intro h0
      have : m ∈ sortStable (d.flatten ++ rv.flatten) := by
        rw [mem_sortStable]
        simp only [List.mem_append, List.mem_flatten]
        exact .inl ⟨_, hy, by simp⟩
      rw [h0] at this; cases this
  -- every candidate belongs to a rule of the ACL
  have hall : ∀ m ∈ sortStable (d.flatten ++ rv.flatten), m.rule ∈ rules.loc ++ rules.glob := by
    intro m hm
    rw [mem_sortStable] at hm
    simp only [List.mem_append, List.mem_flatten] at hm
    have key : ∀ (l : List (List Match)) (rev : Bool),
        (∀ y ∈ l, ∃ x ∈ rules.loc.map (·, false) ++ rules.glob.map (·, true), oneMatch v row rev x = some y) →
        (∃ ms ∈ l, m ∈ ms) → m.rule ∈ rules.loc ++ rules.glob := by
      intro l rev hl ⟨ms, hms, hmm⟩
      obtain ⟨x, hx, hfx⟩ := hl ms hms
      rw [oneMatch_rule v row rev x ms hfx m hmm]
      simp only [List.mem_append, List.mem_map] at hx ⊢
      rcases hx with ⟨r', hr', rfl⟩ | ⟨r', hr', rfl⟩
      · exact .inl hr'
      · exact .inr hr'
    rcases hm with hm | hm
    · exact key d false hd2 hm
    · exact key rv true hr2 hm
  unfold passRow matchRowToAcl
  rw [hfm]
  cases hs : sortStable (d.flatten ++ rv.flatten) with
  | nil => exact absurd hs hne
  | cons f tl =>
    have hf := hall f (by rw [hs]; simp)
    simp only [Bool.false_and, Bool.false_eq_true, if_false, selectMatch, hp.noIgnore f.rule hf]
    simp [hp.deletable f.rule hf]

/-- a pattern of literal words matches every row that starts with these words followed by nothing or a blank -/
theorem matchLits_prefix (ws : List (List Char)) (hne : ws ≠ []) (hw : ∀ w ∈ ws, cleanWord w)
    (tail : List Char) (ht : Tail tail) :
    matchToks false false (ws.map Tok.lit) (joinWords ws ++ tail) = some [] := by
  induction ws with
  | nil => exact absurd rfl hne
  | cons w ws ih =>
    cases ws with
    | nil =>
      simp only [List.map_cons, List.map_nil, joinWords_single]
      simp [matchToks, matchOne, stripLit_self, boundary_tail ht]
    | cons w2 ws =>
      have hw2 : cleanWord w2 := hw w2 (by simp)
      have hg : Good (joinWords (w2 :: ws) ++ tail) := by
        obtain ⟨c, r, hcr, hc⟩ := good_joinWords hw2 ws
        exact ⟨c, r ++ tail, by rw [hcr]; rfl, hc⟩
      rw [joinWords_cons2, List.map_cons, List.map_cons, List.append_assoc, List.cons_append]
      rw [matchToks]
      simp only [matchOne, stripLit_self, Option.map_some]
      rw [sep_space hg]
      have := ih (by simp) (fun x hx => hw x (by simp [hx]))
      simp only [List.map_cons] at this
      simp only [this]; rfl

mutual
  /-- a tree all of whose paths are covered passes the strict filter unchanged -/
  theorem walk_cfg (v : Vendor) (rules : Rules) (path : List String) :
      (t : Cfg) → (∀ p ∈ t.paths, (walk v rules p).isSome = true) → applyAcl v true false rules path t = .ok t
    | .mk ks, h => by
      rw [Cfg.paths] at h
      exact applyAcl_mk_of_list (walk_list v rules path ks h)
  theorem walk_list (v : Vendor) (rules : Rules) (path : List String) :
      (ks : List (String × Cfg)) → (∀ p ∈ Cfg.pathsList ks, (walk v rules p).isSome = true) →
        applyAclList v true false rules path ks = .ok ks
    | [], _ => by rw [applyAclList]
    | (row, ch) :: rest, h => by
      rw [Cfg.pathsList] at h
      have h0 := h [row] (by simp)
      rw [walk_cons] at h0
      cases hp : passRow v rules row with
      | none => simp [hp] at h0
      | some cr =>
        have hch : ∀ p ∈ ch.paths, (walk v cr p).isSome = true := by
          intro p hpm
          have := h (row :: p) (by simp [hpm])
          rw [walk_cons, hp] at this
          simpa using this
        have hrest : ∀ p ∈ Cfg.pathsList rest, (walk v rules p).isSome = true :=
          fun p hpm => h p (by simp [hpm])
        have h1 := walk_cfg v cr (path ++ [row]) ch hch
        have h2 := walk_list v rules path rest hrest
        unfold passRow at hp
        rw [applyAclList]
        cases hm : matchRowToAcl v row rules false with
        | error e => simp [hm] at hp
        | ok o =>
          cases o with
          | none => simp [hm] at hp
          | some mc =>
            obtain ⟨m, cr'⟩ := mc
            simp only [hm] at hp
            split at hp
            · cases hp
            · rename_i hc
              simp only [Option.some.injEq] at hp
              subst hp
              simp only [hc, Bool.false_eq_true, if_false, h1, h2]
end

theorem mergeDicts_singleton_nil (r : Rule) : mergeDicts [r] [] = [r] := by
  simp [mergeDicts, mergeRuleDicts, rulesBeq, findRule]

theorem mergeDicts_nil_nil : mergeDicts [] [] = [] := by
  simp [mergeDicts, mergeRuleDicts, rulesBeq]

/-- a block row under an ACL that consists of one local rule with a `~ %global` child: the children are governed
by that global rule -/
theorem passRow_policy_block (v : Vendor) (hj : v.juniper = false) (rid row : String) (T : Rule) (p rp : Pat)
    (hd : directPat (Rule.mk rid row false [false] 0 [] (some ([], [T]))) = some p)
    (hr : reversePat v (Rule.mk rid row false [false] 0 [] (some ([], [T]))) = some rp)
    (text : String) (hm : (p.match? text.toList).isSome = true) (hn : rp.match? text.toList = none) :
    passRow v ⟨[Rule.mk rid row false [false] 0 [] (some ([], [T]))], []⟩ text = some ⟨[], [T]⟩ := by
  cases hmm : p.match? text.toList with
  | none => simp [hmm] at hm
  | some caps =>
    unfold passRow matchRowToAcl
    simp only [findMatches, List.map_nil, List.map_cons, List.append_nil, hj]
    simp [hd, hr, hmm, hn, sortStable, insertStable, selectMatch, Rule.ignore, Rule.children, Rule.cantDelete,
      mergeDicts_nil_singleton, mergeDicts_singleton_nil, mergeDicts_nil_nil]



/-- a rule row made of literal words only, checked by evaluation -/
def headOk (h : String) : Bool :=
  let ws := splitBlank h.toList
  parseRow false h.toList == some { toks := ws.map Tok.lit } && !ws.isEmpty &&
    ws.all (fun w => !w.isEmpty && w.all (fun c => !pyIsSpace c)) && joinWords ws == h.toList

/-- the row text starts with the words of `h`, followed by nothing or a blank -/
def StartsWith (h : String) (text : Str) : Prop := ∃ tail, Tail tail ∧ text = h.toList ++ tail

theorem headOk_match (h : String) (hok : headOk h = true) (text : Str) (hs : StartsWith h text) :
    ∃ p, parseRow false h.toList = some p ∧ (p.match? text).isSome = true := by
  unfold headOk at hok
  simp only [Bool.and_eq_true, beq_iff_eq, Bool.not_eq_true', List.all_eq_true] at hok
  obtain ⟨⟨⟨hp, hne⟩, hcl⟩, hj⟩ := hok
  obtain ⟨tail, ht, rfl⟩ := hs
  refine ⟨_, hp, ?_⟩
  have hws : ∀ w ∈ splitBlank h.toList, cleanWord w := by
    intro w hw
    have := hcl w hw
    exact ⟨by intro h0; simp [h0] at this, this.2⟩
  have := matchLits_prefix (splitBlank h.toList) (by intro h0; simp [h0] at hne) hws tail ht
  rw [hj] at this
  simp [Pat.match?, this]

/-- a flat row that starts with the words of one of the ACL's rules is covered -/
theorem flat_row_covered (v : Vendor) (hj : v.juniper = false) (rules : Rules) (hp : PlainRules v rules)
    (r : Rule) (hr : r ∈ rules.loc ++ rules.glob) (hok : headOk r.row = true) (text : Str)
    (hs : StartsWith r.row text) : (walk v rules [String.ofList text]).isSome = true := by
  obtain ⟨p, hpp, hm⟩ := headOk_match r.row hok text hs
  have := passRow_of_direct v rules (String.ofList text) hp hj r hr p (by simp [directPat, hpp])
    (by rw [String.toList_ofList]; exact hm)
  rw [walk_cons]
  cases hpr : passRow v rules (String.ofList text) with
  | none => simp [hpr] at this
  | some cr => simp [walk]

theorem joinSp_cons2 (w w2 : Str) (ws : List Str) : joinSp (w :: w2 :: ws) = w ++ ' ' :: joinSp (w2 :: ws) := rfl

theorem startsWith_of_toks (h : String) (w : Str) (hw : w = h.toList) (w2 : Str) (ws : List Str) :
    StartsWith h (joinSp (w :: w2 :: ws)) :=
  ⟨' ' :: joinSp (w2 :: ws), .inr ⟨_, rfl⟩, by rw [joinSp_cons2, hw]⟩

theorem startsWith_of_toks2 (h : String) (w1 w2 : Str) (hw : w1 ++ ' ' :: w2 = h.toList) (w3 : Str) (ws : List Str) :
    StartsWith h (joinSp (w1 :: w2 :: w3 :: ws)) :=
  ⟨' ' :: joinSp (w3 :: ws), .inr ⟨_, rfl⟩, by rw [joinSp_cons2, joinSp_cons2, ← hw]; simp⟩

/-- prefix of a longer head: "ip extcommunity-list soo" starts with the rule row "ip extcommunity-list" -/
theorem startsWith_of_longer (h : String) (w : Str) (more : Str) (hw : w = h.toList ++ ' ' :: more) (w2 : Str) (ws : List Str) :
    StartsWith h (joinSp (w :: w2 :: ws)) :=
  ⟨' ' :: more ++ ' ' :: joinSp (w2 :: ws), .inr ⟨_, rfl⟩, by rw [joinSp_cons2, hw]; simp⟩



/-! ### compiled ACLs of the generators -/

def flatRule (row : String) : Rule := Rule.mk row row false [false] 0 [] (some ([], []))
def tildeRule : Rule := Rule.mk "~" "~" false [false] 0 [] none
def blockRule (row : String) : Rule := Rule.mk row row false [false] 0 [] (some ([], [tildeRule]))

theorem compile_flat1 (a : String) : compileAcl [[plainRule a]] = ⟨[flatRule a], []⟩ := by
  simp [compileAcl, compileAclFuel, mergeToplevel, mergeInto, Merged.ofRaw, plainRule, depthRaw.depthList, depthRaw,
    flatRule]

theorem compile_policyH : compileAcl [[plainRule "route-policy *" [globalTilde]]] = ⟨[blockRule "route-policy *"], []⟩ := by
  simp [compileAcl, compileAclFuel, mergeToplevel, mergeInto, Merged.ofRaw, plainRule, globalTilde,
    depthRaw.depthList, depthRaw, blockRule, tildeRule]

theorem compile_policyA : compileAcl [[plainRule "route-map" [globalTilde]]] = ⟨[blockRule "route-map"], []⟩ := by
  simp [compileAcl, compileAclFuel, mergeToplevel, mergeInto, Merged.ofRaw, plainRule, globalTilde,
    depthRaw.depthList, depthRaw, blockRule, tildeRule]

theorem compile_prefixH : compileAcl [[plainRule "ip ip-prefix", plainRule "ip ipv6-prefix"]] =
    ⟨[flatRule "ip ip-prefix", flatRule "ip ipv6-prefix"], []⟩ := by
  simp [compileAcl, compileAclFuel, mergeToplevel, mergeInto, Merged.ofRaw, plainRule, depthRaw.depthList, depthRaw,
    flatRule]

theorem compile_communityH :
    compileAcl [[plainRule "ip community-filter", plainRule "ip extcommunity-filter",
                 plainRule "ip extcommunity-list", plainRule "ip large-community-filter"]] =
      ⟨[flatRule "ip community-filter", flatRule "ip extcommunity-filter", flatRule "ip extcommunity-list",
        flatRule "ip large-community-filter"], []⟩ := by
  simp [compileAcl, compileAclFuel, mergeToplevel, mergeInto, Merged.ofRaw, plainRule, depthRaw.depthList, depthRaw,
    flatRule]

theorem compile_communityA :
    compileAcl [[plainRule "ip community-list", plainRule "ip extcommunity-list",
                 plainRule "ip large-community-list"]] =
      ⟨[flatRule "ip community-list", flatRule "ip extcommunity-list", flatRule "ip large-community-list"], []⟩ := by
  simp [compileAcl, compileAclFuel, mergeToplevel, mergeInto, Merged.ofRaw, plainRule, depthRaw.depthList, depthRaw,
    flatRule]

def vH : Vendor := { reverse := "undo" }
def vA : Vendor := { reverse := "no" }

theorem plain_communityH : PlainRules vH ⟨[flatRule "ip community-filter", flatRule "ip extcommunity-filter",
    flatRule "ip extcommunity-list", flatRule "ip large-community-filter"], []⟩ := by
  constructor <;> decide

theorem plain_prefixH : PlainRules vH ⟨[flatRule "ip ip-prefix", flatRule "ip ipv6-prefix"], []⟩ := by
  constructor <;> decide

theorem plain_aspathH : PlainRules vH ⟨[flatRule "ip as-path-filter"], []⟩ := by constructor <;> decide
theorem plain_rdH : PlainRules vH ⟨[flatRule "ip rd-filter"], []⟩ := by constructor <;> decide
theorem plain_communityA : PlainRules vA ⟨[flatRule "ip community-list", flatRule "ip extcommunity-list",
    flatRule "ip large-community-list"], []⟩ := by
  constructor <;> decide
theorem plain_aspathA : PlainRules vA ⟨[flatRule "ip as-path access-list"], []⟩ := by constructor <;> decide



/-! ### the rows of the Huawei list generators -/

/-- a flat row covered by rule `r` of `rules` -/
def FlatCovered (v : Vendor) (rules : Rules) (l : Line) : Prop :=
  l.path = [] ∧ ∃ r ∈ rules.loc ++ rules.glob, headOk r.row = true ∧ StartsWith r.row l.text

theorem flatCovered_walk (v : Vendor) (hj : v.juniper = false) (rules : Rules) (hp : PlainRules v rules) (l : Line)
    (h : FlatCovered v rules l) : (walk v rules ((l.path ++ [l.text]).map String.ofList)).isSome = true := by
  obtain ⟨hpath, r, hr, hok, hs⟩ := h
  rw [hpath]
  exact flat_row_covered v hj rules hp r hr hok l.text hs

def rulesCommunityH : Rules := ⟨[flatRule "ip community-filter", flatRule "ip extcommunity-filter",
    flatRule "ip extcommunity-list", flatRule "ip large-community-filter"], []⟩

theorem commFilterRowH_covered (i : Nat) (c : CommList) (m : Str) (l : Line) (h : commFilterRowH i c m = .ok l) :
    FlatCovered vH rulesCommunityH l := by
  unfold commFilterRowH at h
  cases ht : c.type <;> simp only [ht] at h
  · cases h
    exact ⟨rfl, flatRule "ip community-filter", by simp [rulesCommunityH], by decide,
      startsWith_of_toks _ _ rfl _ _⟩
  · cases h
    exact ⟨rfl, flatRule "ip extcommunity-filter", by simp [rulesCommunityH], by decide,
      startsWith_of_toks _ _ rfl _ _⟩
  · cases h
    exact ⟨rfl, flatRule "ip extcommunity-list", by simp [rulesCommunityH], by decide,
      startsWith_of_longer _ _ (s "soo") (by decide) _ _⟩
  · cases h
  · cases h
    exact ⟨rfl, flatRule "ip large-community-filter", by simp [rulesCommunityH], by decide,
      startsWith_of_toks _ _ rfl _ _⟩

theorem ofExcept_row_mem {α : Type} (x : Except Err α) (l : α) (h : l ∈ (ofExcept (x.map ([·]))).1) : x = .ok l := by
  cases x with
  | error e => simp [ofExcept, Except.map] at h
  | ok y => simp [ofExcept, Except.map] at h; rw [h]

theorem commListH_covered (c : CommList) (l : Line) (h : l ∈ (commListH c).1) : FlatCovered vH rulesCommunityH l := by
  unfold commListH at h
  split at h
  · simp at h
  · cases hl : c.logic <;> simp only [hl] at h
    · exact commFilterRowH_covered _ _ _ _ (ofExcept_row_mem _ _ h)
    · obtain ⟨o, ho, hlo⟩ := seqAll_rows_mem _ _ h
      simp only [List.mem_map] at ho
      obtain ⟨im, _, rfl⟩ := ho
      exact commFilterRowH_covered _ _ _ _ (ofExcept_row_mem _ _ hlo)

theorem runCommunityH_covered (inp : Input) (l : Line) (h : l ∈ (runCommunityH inp).1) :
    FlatCovered vH rulesCommunityH l := by
  unfold runCommunityH at h
  split at h
  · simp at h
  · obtain ⟨o, ho, hlo⟩ := seqAll_rows_mem _ _ h
    simp only [List.mem_map] at ho
    obtain ⟨c, _, rfl⟩ := ho
    exact commListH_covered c l hlo



theorem seq_rows_mem {α : Type} (a b : Out α) (x : α) (h : x ∈ (a.seq b).1) : x ∈ a.1 ∨ x ∈ b.1 := by
  cases ha : a.2 with
  | none => rw [seq_of_none _ _ ha] at h; simpa using h
  | some e => rw [seq_of_some _ _ e ha] at h; exact .inl h

theorem prefixNames_mem (pls : List PrefixList) (rows : PrefixList → List Line) (a b : Option Str) (l : Line) :
    ∀ (ns seen : List Str), l ∈ (prefixNames pls rows a b ns seen).1.1 → ∃ pl, l ∈ rows pl := by
  intro ns
  induction ns with
  | nil => intro seen h; simp [prefixNames] at h
  | cons n ns ih =>
    intro seen h
    unfold prefixNames at h
    split at h
    · simp at h
    · rename_i pl _
      split at h
      · exact ih _ h
      · simp only at h
        rcases seq_rows_mem _ _ _ h with h | h
        · exact ⟨pl, by simpa using h⟩
        · exact ih _ h

theorem prefixConds_mem (pls : List PrefixList) (rows : PrefixList → List Line) (f : MField) (l : Line) :
    ∀ (cs : List Cond) (seen : List Str), l ∈ (prefixConds pls rows f cs seen).1.1 → ∃ pl, l ∈ rows pl := by
  intro cs
  induction cs with
  | nil => intro seen h; simp [prefixConds] at h
  | cons c cs ih =>
    intro seen h
    unfold prefixConds at h
    split at h
    · split at h
      · rename_i names a b _
        simp only at h
        split at h
        · exact prefixNames_mem pls rows a b l _ _ h
        · simp only at h
          rcases seq_rows_mem _ _ _ h with h | h
          · exact prefixNames_mem pls rows a b l _ _ h
          · exact ih _ h
      · simp at h
    · exact ih _ h

theorem prefixStmts_mem (pls : List PrefixList) (rows4 rows6 : PrefixList → List Line) (l : Line) :
    ∀ (sts : List Stmt) (seen : List Str), l ∈ (prefixStmts pls rows4 rows6 sts seen).1.1 →
      ∃ pl, l ∈ rows4 pl ∨ l ∈ rows6 pl := by
  intro sts
  induction sts with
  | nil => intro seen h; simp [prefixStmts] at h
  | cons st sts ih =>
    intro seen h
    unfold prefixStmts at h
    simp only at h
    split at h
    · obtain ⟨pl, hpl⟩ := prefixConds_mem pls rows4 _ l _ _ h
      exact ⟨pl, .inl hpl⟩
    · split at h
      · simp only at h
        rcases seq_rows_mem _ _ _ h with h | h
        · obtain ⟨pl, hpl⟩ := prefixConds_mem pls rows4 _ l _ _ h
          exact ⟨pl, .inl hpl⟩
        · obtain ⟨pl, hpl⟩ := prefixConds_mem pls rows6 _ l _ _ h
          exact ⟨pl, .inr hpl⟩
      · simp only at h
        rcases seq_rows_mem _ _ _ h with h | h
        · rcases seq_rows_mem _ _ _ h with h | h
          · obtain ⟨pl, hpl⟩ := prefixConds_mem pls rows4 _ l _ _ h
            exact ⟨pl, .inl hpl⟩
          · obtain ⟨pl, hpl⟩ := prefixConds_mem pls rows6 _ l _ _ h
            exact ⟨pl, .inr hpl⟩
        · exact ih _ h

def rulesPrefixH : Rules := ⟨[flatRule "ip ip-prefix", flatRule "ip ipv6-prefix"], []⟩

theorem runPrefixH_covered (inp : Input) (l : Line) (h : l ∈ (runPrefixH inp).1) : FlatCovered vH rulesPrefixH l := by
  unfold runPrefixH runPrefix at h
  obtain ⟨pl, hpl⟩ := prefixStmts_mem _ _ _ l _ _ h
  rcases hpl with hpl | hpl
  · unfold prefixRowsH at hpl
    simp only [List.mem_map] at hpl
    obtain ⟨im, _, rfl⟩ := hpl
    exact ⟨rfl, flatRule "ip ip-prefix", by simp [rulesPrefixH], by decide,
      startsWith_of_toks2 _ _ _ (by decide) _ _⟩
  · unfold prefixRowsH at hpl
    simp only [List.mem_map] at hpl
    obtain ⟨im, _, rfl⟩ := hpl
    exact ⟨rfl, flatRule "ip ipv6-prefix", by simp [rulesPrefixH], by decide,
      startsWith_of_toks2 _ _ _ (by decide) _ _⟩

theorem runAsPathH_covered (inp : Input) (l : Line) (h : l ∈ (runAsPathH inp).1) :
    FlatCovered vH ⟨[flatRule "ip as-path-filter"], []⟩ l := by
  unfold runAsPathH at h
  split at h
  · simp at h
  · simp only [emit_fst, List.mem_map] at h
    obtain ⟨f, _, rfl⟩ := h
    exact ⟨rfl, flatRule "ip as-path-filter", by simp, by decide, startsWith_of_toks _ _ rfl _ _⟩

theorem runRdH_covered (inp : Input) (l : Line) (h : l ∈ (runRdH inp).1) :
    FlatCovered vH ⟨[flatRule "ip rd-filter"], []⟩ l := by
  unfold runRdH at h
  split at h
  · simp at h
  · simp only [emit_fst, List.mem_flatMap, List.mem_map] at h
    obtain ⟨f, _, im, _, rfl⟩ := h
    exact ⟨rfl, flatRule "ip rd-filter", by simp, by decide, startsWith_of_toks _ _ rfl _ _⟩



/-- rows with at least two items -/
def Rows2 (o : Out (List Str)) : Prop := ∀ row ∈ o.1, 2 ≤ row.length

theorem rows2_fail (e : Err) : Rows2 (fail e) := by intro r h; simp at h
theorem rows2_emit_nil : Rows2 (emit []) := by intro r h; simp at h
theorem rows2_seq (a b : Out (List Str)) (ha : Rows2 a) (hb : Rows2 b) : Rows2 (a.seq b) := by
  intro r h
  rcases seq_rows_mem _ _ _ h with h | h
  · exact ha r h
  · exact hb r h
theorem rows2_seqAll (os : List (Out (List Str))) (h : ∀ o ∈ os, Rows2 o) : Rows2 (seqAll os) := by
  intro r hr
  obtain ⟨o, ho, hro⟩ := seqAll_rows_mem _ _ hr
  exact h o ho r hro
theorem rows2_raiseIf (b : Bool) (e : Err) : Rows2 (raiseIf b e) := by
  cases b
  · exact rows2_emit_nil
  · exact rows2_fail e

theorem rows2_rowsFor (h : Str) (ns : List Str) : ∀ row ∈ rowsFor h ns, 2 ≤ row.length := by
  intro row hr
  simp only [rowsFor, List.mem_map] at hr
  obtain ⟨n, _, rfl⟩ := hr
  simp

theorem rows2_extRtRowH (cl : List CommList) (n : Str) : Rows2 (extRtRowH cl n) := by
  intro row hrow
  unfold extRtRowH at hrow
  (repeat' split at hrow) <;> simp_all

macro "rows2_crunch" : tactic => `(tactic| (
  intro row hrow
  (repeat' split at hrow) <;> (try simp_all) <;> (try omega) <;> (try (exact rows2_rowsFor _ _ _ (by assumption)))
    <;> (try (rcases hrow with rfl | rfl <;> simp))))

theorem rows2_pfxRows (pls : List PrefixList) (mk : Str → List Str) (hmk : ∀ n, 2 ≤ (mk n).length) (a b : Option Str)
    (ns : List Str) : Rows2 (pfxRows pls mk a b ns) := by
  induction ns with
  | nil => exact rows2_emit_nil
  | cons n ns ih =>
    unfold pfxRows
    split
    · exact rows2_fail _
    · apply rows2_seq _ _ _ ih
      intro r h; simp at h; subst h; exact hmk _

theorem rows2_matchH (inp : Input) (c : Cond) : Rows2 (matchH inp c) := by
  unfold matchH
  cases hf : c.field <;> cases hv : c.val <;> simp only
  all_goals first
    | exact rows2_fail _
    | (apply rows2_pfxRows; intro n; simp)
    | (unfold asPathLenH; rows2_crunch)
    | rows2_crunch
    | skip
  · rename_i row _ _ hrow
    exact rows2_seqAll _ (fun o ho => by
      simp only [List.mem_map] at ho
      obtain ⟨n, _, rfl⟩ := ho
      exact rows2_extRtRowH _ n) row hrow
theorem rows2_emit (rows : List (List Str)) (h : ∀ r ∈ rows, 2 ≤ r.length) : Rows2 (emit rows) := by
  intro r hr; exact h r (by simpa using hr)

theorem rows2_emit_map {β : Type} (f : β → List Str) (l : List β) (h : ∀ x, 2 ≤ (f x).length) : Rows2 (emit (l.map f)) := by
  intro r hr
  simp only [emit_fst, List.mem_map] at hr
  obtain ⟨x, _, rfl⟩ := hr
  exact h x

macro "rows2_parts" : tactic => `(tactic| (
  repeat' (first
    | apply rows2_seq
    | exact rows2_fail _
    | exact rows2_emit_nil
    | exact rows2_raiseIf _ _
    | (apply rows2_emit_map; intro x; simp; done)
    | (apply rows2_emit; intro r hr; simp at hr; subst hr; first | (simp; done) | (simp; omega))
    | split)))

theorem rows2_thenCommunityH (cl : List CommList) (c : CommAct) : Rows2 (thenCommunityH cl c) := by
  unfold thenCommunityH; rows2_parts

theorem rows2_thenLargeH (cl : List CommList) (c : CommAct) : Rows2 (thenLargeH cl c) := by
  unfold thenLargeH; rows2_parts

theorem rows2_thenExtRtH (cl : List CommList) (c : CommAct) : Rows2 (thenExtRtH cl c) := by
  unfold thenExtRtH; rows2_parts

theorem rows2_thenExtSooH (cl : List CommList) (c : CommAct) : Rows2 (thenExtSooH cl c) := by
  unfold thenExtSooH; rows2_parts

theorem rows2_extReplacedGroupH (g : CType × List Str) : Rows2 (extReplacedGroupH g) := by
  unfold extReplacedGroupH; rows2_parts

theorem rows2_extAddedGroupH (g : CType × List Str) : Rows2 (extAddedGroupH g) := by
  unfold extAddedGroupH; rows2_parts

theorem rows2_allOrNothing (o : Out (List Str)) (h : Rows2 o) : Rows2 (allOrNothing o) := by
  unfold allOrNothing
  split
  · exact rows2_fail _
  · exact h

theorem rows2_thenExtH (cl : List CommList) (c : CommAct) : Rows2 (thenExtH cl c) := by
  unfold thenExtH
  repeat' (first
    | apply rows2_allOrNothing
    | apply rows2_seq
    | exact rows2_fail _
    | exact rows2_emit_nil
    | exact rows2_raiseIf _ _
    | (apply rows2_seqAll; intro o ho; simp only [List.mem_map] at ho; obtain ⟨g, _, rfl⟩ := ho;
       first | exact rows2_extReplacedGroupH g | exact rows2_extAddedGroupH g)
    | split)

theorem rows2_thenAsPathH (p : AsPathAct) : Rows2 (thenAsPathH p) := by
  unfold thenAsPathH; rows2_parts

theorem rows2_thenGenericH (a : Action) : Rows2 (thenGenericH a) := by
  unfold thenGenericH; rows2_parts

theorem rows2_thenNextHopRowsH (n : NextHop) : Rows2 (thenNextHopRowsH n) := by
  unfold thenNextHopRowsH; rows2_parts

theorem rows2_thenH (cl : List CommList) (a : Action) : Rows2 (thenH cl a) := by
  unfold thenH
  cases hf : a.field <;> cases hv : a.val <;> simp only
  all_goals first
    | exact rows2_fail _
    | exact rows2_thenCommunityH _ _
    | exact rows2_thenLargeH _ _
    | exact rows2_thenExtH _ _
    | exact rows2_thenExtRtH _ _
    | exact rows2_thenExtSooH _ _
    | exact rows2_thenAsPathH _
    | exact rows2_thenGenericH _
    | exact rows2_thenNextHopRowsH _
    | (simp only [scalarOf]; rows2_parts)

/-! Arista -/

theorem rows2_asPathLenA (c : Cond) : Rows2 (asPathLenA c) := by
  unfold asPathLenA
  split <;> first
    | exact rows2_fail _
    | (apply rows2_emit; intro r hr; simp at hr; subst hr; simp; done)
    | (apply rows2_emit; intro r hr; simp at hr; rcases hr with rfl | rfl <;> simp)

theorem rows2_matchA (inp : Input) (c : Cond) : Rows2 (matchA inp c) := by
  unfold matchA
  cases hf : c.field <;> cases hv : c.val <;> simp only [matchCommA]
  all_goals first
    | exact rows2_fail _
    | (apply rows2_pfxRows; intro n; simp)
    | exact rows2_asPathLenA c
    | rows2_crunch

theorem rows2_thenCommunityA (cl : List CommList) (c : CommAct) : Rows2 (thenCommunityA cl c) := by
  unfold thenCommunityA; rows2_parts

theorem rows2_largeReplacedRowsA (ns : List Str) (b : Bool) : ∀ r ∈ largeReplacedRowsA ns b, 2 ≤ r.length := by
  induction ns generalizing b with
  | nil => intro r h; simp [largeReplacedRowsA] at h
  | cons n ns ih =>
    intro r h
    simp only [largeReplacedRowsA, List.mem_cons] at h
    rcases h with rfl | h
    · split <;> simp
    · exact ih _ r h

theorem rows2_thenLargeA (c : CommAct) : Rows2 (thenLargeA c) := by
  unfold thenLargeA
  repeat' (first
    | apply rows2_seq
    | exact rows2_fail _
    | exact rows2_emit_nil
    | (apply rows2_emit; intro r hr; simp only [List.mem_append] at hr; rcases hr with hr | hr;
       · split at hr <;> simp at hr; subst hr; simp
       · exact rows2_largeReplacedRowsA _ _ r hr)
    | (apply rows2_emit; intro r hr; simp at hr; subst hr; first | (simp; done) | (simp; omega))
    | split)

theorem rows2_thenExtRtSooA (cl : List CommList) (pre : Str) (dh : List Str) (hdh : 1 ≤ dh.length) (c : CommAct) :
    Rows2 (thenExtRtSooA cl pre dh c) := by
  unfold thenExtRtSooA
  repeat' (first
    | apply rows2_seq
    | exact rows2_fail _
    | exact rows2_emit_nil
    | (apply rows2_emit; intro r hr; simp at hr; subst hr; first | (simp; done) | (simp; omega))
    | split)

/-- rows whose text is not empty -/
def RowsNE (o : Out (List Str)) : Prop := ∀ row ∈ o.1, joinSp row ≠ []

theorem joinSp_ne_of_len2 (row : List Str) (h : 2 ≤ row.length) : joinSp row ≠ [] := by
  match row, h with
  | w :: w2 :: ws, _ => simp [joinSp]

theorem joinSp_ne_of_head (w : Str) (ws : List Str) (h : w ≠ []) : joinSp (w :: ws) ≠ [] := by
  cases ws with
  | nil => simpa [joinSp] using h
  | cons w2 ws => simp [joinSp]

theorem rowsNE_of_rows2 (o : Out (List Str)) (h : Rows2 o) : RowsNE o :=
  fun row hr => joinSp_ne_of_len2 row (h row hr)

theorem rowsNE_thenExtA (cl : List CommList) (c : CommAct) : RowsNE (thenExtA cl c) := by
  intro row hrow
  unfold thenExtA at hrow
  (repeat' split at hrow) <;> (try simp at hrow)
  all_goals first
    | (subst hrow; apply joinSp_ne_of_len2; simp; done)
    | (subst hrow; apply joinSp_ne_of_head; decide)
    | (rcases hrow with rfl | rfl <;> (apply joinSp_ne_of_len2; simp; done))

theorem rows2_thenAsPathA (p : AsPathAct) : Rows2 (thenAsPathA p) := by
  unfold thenAsPathA
  repeat' (first
    | apply rows2_seq
    | exact rows2_fail _
    | exact rows2_emit_nil
    | exact rows2_raiseIf _ _
    | (apply rows2_emit_map; intro x; simp; done)
    | (apply rows2_emit; intro r hr; simp at hr; subst hr; first | (simp; done) | (simp; omega))
    | split)

theorem rows2_thenNextHopRowsA (n : NextHop) : Rows2 (thenNextHopRowsA n) := by
  unfold thenNextHopRowsA; rows2_parts

theorem rowsNE_thenA (cl : List CommList) (a : Action) : RowsNE (thenA cl a) := by
  unfold thenA
  cases hf : a.field <;> cases hv : a.val <;> simp only
  all_goals first
    | exact rowsNE_thenExtA _ _
    | apply rowsNE_of_rows2
  all_goals first
    | exact rows2_fail _
    | exact rows2_thenCommunityA _ _
    | exact rows2_thenLargeA _
    | exact rows2_thenExtRtSooA _ _ _ (by simp) _
    | exact rows2_thenAsPathA _
    | exact rows2_thenNextHopRowsA _
    | (simp only [scalarOf]; rows2_parts)



theorem passRow_tilde_child (v : Vendor) (hj : v.juniper = false) (hrt : (reversePat v tildeRule).isSome = true)
    (child : String) (hne : child.toList ≠ []) :
    (passRow v ⟨[], [tildeRule]⟩ child).isSome = true := by
  cases hr : reversePat v tildeRule with
  | none => simp [hr] at hrt
  | some rp =>
    obtain ⟨m, hm, hrule⟩ := matchRow_tilde "~" [false] 0 [] v false child rp hj hne hr (.inr rfl)
    unfold passRow
    unfold tildeRule
    rw [hm]
    simp [hrule, Rule.cantDelete]

/-- header and children of a block are covered by an ACL `row / ~ %global=1` -/
theorem block_lines_walk (v : Vendor) (hj : v.juniper = false) (row : String) (p rp : Pat)
    (hd : directPat (blockRule row) = some p) (hr : reversePat v (blockRule row) = some rp)
    (hrt : (reversePat v tildeRule).isSome = true)
    (header : List Str) (hm : (p.match? (joinSp header)).isSome = true) (hn : rp.match? (joinSp header) = none)
    (body : Out (List Str)) (hne : RowsNE body) :
    ∀ l ∈ (inBlock header body).1,
      (walk v ⟨[blockRule row], []⟩ ((l.path ++ [l.text]).map String.ofList)).isSome = true := by
  have hpass : passRow v ⟨[blockRule row], []⟩ (String.ofList (joinSp header)) = some ⟨[], [tildeRule]⟩ :=
    passRow_policy_block v hj row row tildeRule p rp hd hr _ (by rw [String.toList_ofList]; exact hm)
      (by rw [String.toList_ofList]; exact hn)
  intro l hl
  rw [inBlock_eq] at hl
  simp only [List.mem_cons, List.mem_map] at hl
  rcases hl with rfl | ⟨toks, htoks, rfl⟩
  · simp only [List.nil_append, List.map_cons, List.map_nil, Line.text]
    rw [walk_cons, hpass]; simp [walk]
  · simp only [List.cons_append, List.nil_append, List.map_cons, List.map_nil, Line.text]
    rw [walk_cons, hpass]
    simp only [Option.bind_some]
    rw [walk_cons]
    have := passRow_tilde_child v hj hrt (String.ofList (joinSp toks))
      (by rw [String.toList_ofList]; exact hne toks htoks)
    cases hp : passRow v ⟨[], [tildeRule]⟩ (String.ofList (joinSp toks)) with
    | none => simp [hp] at this
    | some cr => simp [walk]


theorem lit_head_mismatch (c d : Char) (w : List Char) (more : List Tok) (rest : List Char) (h : (c == d) = false) :
    matchToks false false (.lit (c :: w) :: more) (d :: rest) = none := by
  have : ¬ c = d := by simpa using h
  simp [matchToks, matchOne, stripLit, charEq, this]

/-- the header row of a Huawei statement: covered by `route-policy *`, not by its negation -/
theorem headerH_match (name res num : Str) (hname : cleanWord name) :
    ∃ p rp, directPat (blockRule "route-policy *") = some p ∧ reversePat vH (blockRule "route-policy *") = some rp ∧
      (p.match? (joinSp [s "route-policy", name, res, s "node", num])).isSome = true ∧
      rp.match? (joinSp [s "route-policy", name, res, s "node", num]) = none := by
  refine ⟨{ toks := [.lit (s "route-policy"), .star] }, { toks := [.lit (s "undo"), .lit (s "route-policy"), .star] },
    by decide, by decide, ?_, ?_⟩
  · have hw : cleanWord (s "route-policy") := by unfold cleanWord; decide
    simp only [Pat.match?, joinSp]
    have hg : Good (name ++ ' ' :: (res ++ ' ' :: (s "node" ++ ' ' :: num))) := good_of_clean_append hname _
    rw [lit_cons false hw hw.2 .star [] hg]
    have : stripLit false (s "route-policy") (s "route-policy") = some [] := by
      have := stripLit_self false (s "route-policy") []
      simpa using this
    simp only [this, if_true]
    rw [star_last false hname (.inr ⟨_, rfl⟩)]
    rfl
  · have h1 : s "undo" = 'u' :: s "ndo" := by decide
    have h2 : s "route-policy" = 'r' :: s "oute-policy" := by decide
    simp only [Pat.match?, joinSp, h1, h2, List.cons_append]
    exact lit_head_mismatch _ _ _ _ _ (by decide)





/-- the compiled ACL of a generator (`compile_acl_text(gen.acl(device))`) -/
def rulesFor (v : Vend) (k : GenKind) : Rules :=
  match genAcl v k with
  | some a => compileAcl [a]
  | none => ⟨[], []⟩

/-- "every generated line is covered, path-wise, by the generator's own ACL" -/
def Covered (v : Vend) (k : GenKind) (l : Line) : Prop :=
  (walk (aclVendor v) (rulesFor v k) ((l.path ++ [l.text]).map String.ofList)).isSome = true

theorem rowsNE_seq (a b : Out (List Str)) (ha : RowsNE a) (hb : RowsNE b) : RowsNE (a.seq b) := by
  intro r h
  rcases seq_rows_mem _ _ _ h with h | h
  · exact ha r h
  · exact hb r h

theorem rowsNE_seqAll (os : List (Out (List Str))) (h : ∀ o ∈ os, RowsNE o) : RowsNE (seqAll os) := by
  intro r hr
  obtain ⟨o, ho, hro⟩ := seqAll_rows_mem _ _ hr
  exact h o ho r hro

theorem rowsNE_trailer (b : Bool) (w : Str) (hw : w ≠ []) : RowsNE (if b then emit [[w]] else emit []) := by
  intro r hr
  split at hr
  · simp at hr; subst hr; simpa [joinSp] using hw
  · simp at hr

theorem bodyH_rowsNE (inp : Input) (st : Stmt) :
    RowsNE ((seqAll (st.conds.map (matchH inp))).seq ((seqAll (st.acts.map (thenH inp.clists))).seq
      (if st.result == .next then emit [[s "goto next-node"]] else emit []))) := by
  apply rowsNE_seq
  · apply rowsNE_seqAll
    intro o ho
    simp only [List.mem_map] at ho
    obtain ⟨c, _, rfl⟩ := ho
    exact rowsNE_of_rows2 _ (rows2_matchH inp c)
  · apply rowsNE_seq
    · apply rowsNE_seqAll
      intro o ho
      simp only [List.mem_map] at ho
      obtain ⟨a, _, rfl⟩ := ho
      exact rowsNE_of_rows2 _ (rows2_thenH _ a)
    · exact rowsNE_trailer _ _ (by decide)

theorem bodyA_rowsNE (inp : Input) (st : Stmt) :
    RowsNE ((seqAll (st.conds.map (matchA inp))).seq ((seqAll (st.acts.map (thenA inp.clists))).seq
      (if st.result == .next then emit [[s "continue"]] else emit []))) := by
  apply rowsNE_seq
  · apply rowsNE_seqAll
    intro o ho
    simp only [List.mem_map] at ho
    obtain ⟨c, _, rfl⟩ := ho
    exact rowsNE_of_rows2 _ (rows2_matchA inp c)
  · apply rowsNE_seq
    · apply rowsNE_seqAll
      intro o ho
      simp only [List.mem_map] at ho
      obtain ⟨a, _, rfl⟩ := ho
      exact rowsNE_thenA _ a
    · exact rowsNE_trailer _ _ (by decide)

theorem policyH_covered (inp : Input) (hnames : ∀ p ∈ inp.policies, cleanWord p.name) (l : Line)
    (h : l ∈ (runPolicyH inp).1) : Covered .huawei .policy l := by
  unfold runPolicyH at h
  obtain ⟨o, ho, hlo⟩ := seqAll_rows_mem _ _ h
  simp only [List.mem_flatMap, List.mem_map] at ho
  obtain ⟨p, hp, st, _, rfl⟩ := ho
  unfold statementH at hlo
  split at hlo
  · simp at hlo
  · rename_i num _
    split at hlo
    · simp at hlo
    · rename_i res _
      obtain ⟨pt, rp, hd, hr, hm, hn⟩ := headerH_match p.name res num (hnames p hp)
      have := block_lines_walk vH rfl "route-policy *" pt rp hd hr (by decide) _ hm hn _ (bodyH_rowsNE inp st) l hlo
      unfold Covered rulesFor
      simp only [genAcl, compile_policyH]
      exact this



/-- Huawei: every row of every generator's stream is covered by that generator's own ACL -/
theorem covered_huawei (inp : Input) (hnames : ∀ p ∈ inp.policies, cleanWord p.name) (k : GenKind) (l : Line)
    (h : l ∈ (runGen inp .huawei k).1) : Covered .huawei k l := by
  cases k with
  | policy => exact policyH_covered inp hnames l h
  | «prefix» =>
    have := flatCovered_walk vH rfl rulesPrefixH plain_prefixH l (runPrefixH_covered inp l h)
    unfold Covered rulesFor; simp only [genAcl, compile_prefixH]; exact this
  | community =>
    have := flatCovered_walk vH rfl rulesCommunityH plain_communityH l (runCommunityH_covered inp l h)
    unfold Covered rulesFor; simp only [genAcl, compile_communityH]; exact this
  | aspath =>
    have := flatCovered_walk vH rfl _ plain_aspathH l (runAsPathH_covered inp l h)
    unfold Covered rulesFor; simp only [genAcl, compile_flat1]; exact this
  | rd =>
    have := flatCovered_walk vH rfl _ plain_rdH l (runRdH_covered inp l h)
    unfold Covered rulesFor; simp only [genAcl, compile_flat1]; exact this

/-! ### Arista -/

theorem headerA_match (name res num : Str) :
    ∃ p rp, directPat (blockRule "route-map") = some p ∧ reversePat vA (blockRule "route-map") = some rp ∧
      (p.match? (joinSp [s "route-map", name, res, num])).isSome = true ∧
      rp.match? (joinSp [s "route-map", name, res, num]) = none := by
  obtain ⟨p, hp, hm⟩ := headOk_match "route-map" (by decide) (joinSp [s "route-map", name, res, num])
    (startsWith_of_toks _ _ rfl _ _)
  refine ⟨p, { toks := [.lit (s "no"), .lit (s "route-map")] }, by simpa [directPat, blockRule, Rule.row] using hp,
    by decide, hm, ?_⟩
  have h1 : s "no" = 'n' :: s "o" := by decide
  have h2 : s "route-map" = 'r' :: s "oute-map" := by decide
  simp only [Pat.match?, joinSp, h1, h2, List.cons_append]
  exact lit_head_mismatch _ _ _ _ _ (by decide)

theorem policyA_covered (inp : Input) (l : Line) (h : l ∈ (runPolicyA inp).1) : Covered .arista .policy l := by
  unfold runPolicyA at h
  obtain ⟨o, ho, hlo⟩ := seqAll_rows_mem _ _ h
  simp only [List.mem_flatMap, List.mem_map] at ho
  obtain ⟨p, hp, st, _, rfl⟩ := ho
  unfold statementA at hlo
  split at hlo
  · simp at hlo
  · rename_i res _
    split at hlo
    · simp at hlo
    · rename_i num _
      obtain ⟨pt, rp, hd, hr, hm, hn⟩ := headerA_match p.name res num
      have := block_lines_walk vA rfl "route-map" pt rp hd hr (by decide) _ hm hn _ (bodyA_rowsNE inp st) l hlo
      unfold Covered rulesFor
      simp only [genAcl, compile_policyA]
      exact this

theorem runAsPathA_covered (inp : Input) (l : Line) (h : l ∈ (runAsPathA inp).1) :
    FlatCovered vA ⟨[flatRule "ip as-path access-list"], []⟩ l := by
  unfold runAsPathA at h
  split at h
  · simp at h
  · simp only [emit_fst, List.mem_map] at h
    obtain ⟨f, _, rfl⟩ := h
    exact ⟨rfl, flatRule "ip as-path access-list", by simp, by decide, startsWith_of_toks _ _ rfl _ _⟩

def rulesCommunityA : Rules :=
  ⟨[flatRule "ip community-list", flatRule "ip extcommunity-list", flatRule "ip large-community-list"], []⟩

theorem commListRowA_covered (name : Str) (rx : Bool) (t : CType) (m : Str) (l : Line)
    (h : commListRowA name rx t m = .ok l) : FlatCovered vA rulesCommunityA l := by
  unfold commListRowA at h
  cases t <;> simp only at h
  · cases h
    exact ⟨rfl, flatRule "ip community-list", by simp [rulesCommunityA], by decide, startsWith_of_toks _ _ rfl _ _⟩
  · cases h
    exact ⟨rfl, flatRule "ip extcommunity-list", by simp [rulesCommunityA], by decide, startsWith_of_toks _ _ rfl _ _⟩
  · cases h
    exact ⟨rfl, flatRule "ip extcommunity-list", by simp [rulesCommunityA], by decide, startsWith_of_toks _ _ rfl _ _⟩
  · cases h
  · cases h
    exact ⟨rfl, flatRule "ip large-community-list", by simp [rulesCommunityA], by decide, startsWith_of_toks _ _ rfl _ _⟩

theorem commListA_covered (name : Str) (c : CommList) (l : Line) (h : l ∈ (commListA name c).1) :
    FlatCovered vA rulesCommunityA l := by
  unfold commListA at h
  split at h
  · simp at h
  · split at h
    · simp at h
    · cases hl : c.logic <;> simp only [hl] at h
      · exact commListRowA_covered _ _ _ _ _ (ofExcept_row_mem _ _ h)
      · obtain ⟨o, ho, hlo⟩ := seqAll_rows_mem _ _ h
        simp only [List.mem_map] at ho
        obtain ⟨m, _, rfl⟩ := ho
        exact commListRowA_covered _ _ _ _ _ (ofExcept_row_mem _ _ hlo)



theorem findLast_mem {α : Type} (p : α → Bool) (l : List α) (x : α) (h : findLast p l = some x) : x ∈ l := by
  induction l with
  | nil => simp [findLast] at h
  | cons y ys ih =>
    unfold findLast at h
    split at h
    · rename_i z hz
      cases h
      exact List.mem_cons_of_mem _ (ih hz)
    · split at h
      · cases h; simp
      · cases h

theorem getComm_mem (cl : List CommList) (n : Str) (c : CommList) (h : getComm cl n = some c) : c ∈ cl :=
  findLast_mem _ _ _ h

/-- every list of every union is one of the given community lists -/
def FromInput (cl : List CommList) (d : UnitedDict) : Prop := ∀ u ∈ d, ∀ c ∈ u.2, c ∈ cl

theorem lookupAll_mem (cl : List CommList) (ns : List Str) (l : List CommList) (h : lookupAll cl ns = .ok l) :
    ∀ c ∈ l, c ∈ cl := by
  induction ns generalizing l with
  | nil => simp [lookupAll] at h; subst h; simp
  | cons n ns ih =>
    unfold lookupAll at h
    split at h
    · cases h
    · rename_i c hc
      split at h
      · cases h
      · rename_i l' hl'
        cases h
        intro x hx
        simp only [List.mem_cons] at hx
        rcases hx with rfl | hx
        · exact getComm_mem _ _ _ hc
        · exact ih l' hl' x hx

theorem assocSet_fromInput (cl : List CommList) (d : UnitedDict) (k : Str) (v : List CommList)
    (hd : FromInput cl d) (hv : ∀ c ∈ v, c ∈ cl) : FromInput cl (assocSet d k v) := by
  intro u hu
  unfold assocSet at hu
  split at hu
  · simp only [List.mem_map] at hu
    obtain ⟨e, he, rfl⟩ := hu
    split
    · exact hv
    · exact hd e he
  · simp only [List.mem_append, List.mem_singleton] at hu
    rcases hu with hu | rfl
    · exact hd u hu
    · exact hv

theorem setSingles_fromInput (cl : List CommList) (ns : List Str) :
    ∀ (d d' : UnitedDict), setSingles cl ns d = .ok d' → FromInput cl d → FromInput cl d' := by
  induction ns with
  | nil => intro d d' h hd; simp [setSingles] at h; subst h; exact hd
  | cons n ns ih =>
    intro d d' h hd
    unfold setSingles at h
    split at h
    · cases h
    · rename_i c hc
      exact ih _ _ h (assocSet_fromInput cl d n [c] hd (by
        intro x hx; simp at hx; subst hx; exact getComm_mem _ _ _ hc))

theorem foldExcept_inv {α β : Type} (Inv : β → Prop) (f : α → β → Except Err β)
    (hf : ∀ x b b', f x b = .ok b' → Inv b → Inv b') :
    ∀ (l : List α) (b b' : β), foldExcept f l b = .ok b' → Inv b → Inv b' := by
  intro l
  induction l with
  | nil => intro b b' h hb; simp [foldExcept] at h; subst h; exact hb
  | cons x xs ih =>
    intro b b' h hb
    unfold foldExcept at h
    split at h
    · cases h
    · rename_i b1 hb1
      exact ih _ _ h (hf x b b1 hb1 hb)

theorem unitedCond_fromInput (cl : List CommList) (c : Cond) (d d' : UnitedDict)
    (h : unitedCond cl c d = .ok d') (hd : FromInput cl d) : FromInput cl d' := by
  unfold unitedCond at h
  split at h
  · split at h
    · split at h
      · cases h
      · cases h
      · rename_i u us hl
        split at h
        · cases h
        · split at h
          · cases h
          · cases h
            exact assocSet_fromInput cl d _ _ hd (lookupAll_mem cl _ _ hl)
    · exact setSingles_fromInput cl _ _ _ h hd
  · cases h

theorem unitedAct_fromInput (cl : List CommList) (a : Action) (d d' : UnitedDict)
    (h : unitedAct cl a d = .ok d') (hd : FromInput cl d) : FromInput cl d' := by
  unfold unitedAct at h
  split at h
  · split at h
    · cases h
    · rename_i d1 h1
      split at h
      · cases h
      · rename_i d2 h2
        exact setSingles_fromInput cl _ _ _ h
          (setSingles_fromInput cl _ _ _ h2 (setSingles_fromInput cl _ _ _ h1 hd))
  · cases h

theorem unitedStmt_fromInput (cl : List CommList) (st : Stmt) (d d' : UnitedDict)
    (h : unitedStmt cl st d = .ok d') (hd : FromInput cl d) : FromInput cl d' := by
  unfold unitedStmt at h
  split at h
  · cases h
  · rename_i d1 h1
    have hd1 : FromInput cl d1 := foldExcept_inv (FromInput cl) _
      (fun f b b' hb hib => foldExcept_inv (FromInput cl) _ (fun c b b' => unitedCond_fromInput cl c b b') _ _ _ hb hib)
      _ _ _ h1 hd
    exact foldExcept_inv (FromInput cl) _
      (fun f b b' hb hib => foldExcept_inv (FromInput cl) _ (fun a b b' => unitedAct_fromInput cl a b b') _ _ _ hb hib)
      _ _ _ h hd1

theorem mem_insertByKey {α : Type} (x u : Str × α) (l : List (Str × α)) : u ∈ insertByKey x l ↔ u = x ∨ u ∈ l := by
  induction l with
  | nil => simp [insertByKey]
  | cons y ys ih =>
    unfold insertByKey
    split
    · simp
    · simp only [List.mem_cons, ih]
      constructor
      · rintro (h | h | h) <;> simp [h]
      · rintro (h | h | h) <;> simp [h]

theorem usedUnited_fromInput (inp : Input) (ud : UnitedDict) (h : usedUnited inp = .ok ud) :
    FromInput inp.clists ud := by
  unfold usedUnited at h
  split at h
  · cases h
  · rename_i d hd
    cases h
    have hfi : FromInput inp.clists d :=
      foldExcept_inv (FromInput inp.clists) _ (fun st b b' => unitedStmt_fromInput inp.clists st b b') _ _ _ hd
        (by intro u hu; cases hu)
    -- sorting keeps the entries
    have key : ∀ (l acc : UnitedDict), FromInput inp.clists l → FromInput inp.clists acc →
        FromInput inp.clists (l.foldl (fun acc e => insertByKey e acc) acc) := by
      intro l
      induction l with
      | nil => intro acc _ hacc; exact hacc
      | cons e es ih =>
        intro acc hl hacc
        simp only [List.foldl_cons]
        apply ih _ (fun u hu => hl u (by simp [hu]))
        intro u hu
        rw [mem_insertByKey] at hu
        rcases hu with rfl | hu
        · exact hl _ (by simp)
        · exact hacc u hu
    exact key d [] hfi (by intro u hu; cases hu)

/-- Arista: the community generator's rows are covered -/
theorem runCommunityA_covered (inp : Input) (l : Line)
    (h : l ∈ (runCommunityA inp).1) : FlatCovered vA rulesCommunityA l := by
  unfold runCommunityA at h
  split at h
  · simp at h
  · rename_i ud hud
    obtain ⟨o, ho, hlo⟩ := seqAll_rows_mem _ _ h
    simp only [List.mem_map] at ho
    obtain ⟨u, hu, rfl⟩ := ho
    unfold commUnionA at hlo
    obtain ⟨o2, ho2, hlo2⟩ := seqAll_rows_mem _ _ hlo
    simp only [List.mem_map] at ho2
    obtain ⟨c, hc, rfl⟩ := ho2
    exact commListA_covered _ c l hlo2



def seqBlock (row : String) : Rule := Rule.mk row row false [false] 0 [] (some ([flatRule "seq"], []))

theorem compile_prefixA :
    compileAcl [[plainRule "ip prefix-list" [plainRule "seq"], plainRule "ipv6 prefix-list" [plainRule "seq"]]] =
      ⟨[seqBlock "ip prefix-list", seqBlock "ipv6 prefix-list"], []⟩ := by
  simp [compileAcl, compileAclFuel, mergeToplevel, mergeInto, Merged.ofRaw, plainRule, depthRaw.depthList, depthRaw,
    seqBlock, flatRule]

/-- a row matched directly by exactly one of two local block rules: the children are governed by that rule's
children rules -/
theorem passRow_two_blocks (v : Vendor) (hj : v.juniper = false) (r1 r2 : String) (p1 p2 q1 q2 : Pat)
    (hd1 : directPat (seqBlock r1) = some p1) (hd2 : directPat (seqBlock r2) = some p2)
    (hr1 : reversePat v (seqBlock r1) = some q1) (hr2 : reversePat v (seqBlock r2) = some q2)
    (text : String) (first : Bool)
    (hm1 : (p1.match? text.toList).isSome = first) (hm2 : (p2.match? text.toList).isSome = !first)
    (hn1 : q1.match? text.toList = none) (hn2 : q2.match? text.toList = none) :
    passRow v ⟨[seqBlock r1, seqBlock r2], []⟩ text = some ⟨[flatRule "seq"], []⟩ := by
  unfold passRow matchRowToAcl
  unfold seqBlock at hd1 hd2 hr1 hr2 ⊢
  simp only [findMatches, List.map_nil, List.map_cons, List.append_nil, hj]
  cases first
  · cases h1 : p1.match? text.toList with
    | some _ => simp [h1] at hm1
    | none =>
      cases h2 : p2.match? text.toList with
      | none => simp [h2] at hm2
      | some caps =>
        simp [hd1, hd2, hr1, hr2, h1, h2, hn1, hn2, sortStable, insertStable, selectMatch, Rule.ignore, Rule.children,
          Rule.cantDelete, mergeDicts_nil_singleton, mergeDicts_nil_nil]
  · cases h2 : p2.match? text.toList with
    | some _ => simp [h2] at hm2
    | none =>
      cases h1 : p1.match? text.toList with
      | none => simp [h1] at hm1
      | some caps =>
        simp [hd1, hd2, hr1, hr2, h1, h2, hn1, hn2, sortStable, insertStable, selectMatch, Rule.ignore, Rule.children,
          Rule.cantDelete, mergeDicts_nil_singleton, mergeDicts_nil_nil]


def rulesPrefixA : Rules := ⟨[seqBlock "ip prefix-list", seqBlock "ipv6 prefix-list"], []⟩

theorem plain_seqA : PlainRules vA ⟨[flatRule "seq"], []⟩ := by constructor <;> decide

/-- the header row `ip prefix-list NAME` / `ipv6 prefix-list NAME` hands its children to the `seq` rule -/
theorem headerPrefixA_pass (v6 : Bool) (name : Str) :
    passRow vA rulesPrefixA (String.ofList (joinSp [if v6 then s "ipv6" else s "ip", s "prefix-list", name])) =
      some ⟨[flatRule "seq"], []⟩ := by
  have hi : s "ip" = ['i', 'p'] := by decide
  have h6 : s "ipv6" = ['i', 'p', 'v', '6'] := by decide
  have hn : s "no" = ['n', 'o'] := by decide
  have hpl : s "prefix-list" = 'p' :: s "refix-list" := by decide
  apply passRow_two_blocks vA rfl "ip prefix-list" "ipv6 prefix-list"
    { toks := [.lit (s "ip"), .lit (s "prefix-list")] } { toks := [.lit (s "ipv6"), .lit (s "prefix-list")] }
    { toks := [.lit (s "no"), .lit (s "ip"), .lit (s "prefix-list")] }
    { toks := [.lit (s "no"), .lit (s "ipv6"), .lit (s "prefix-list")] }
    (by decide) (by decide) (by decide) (by decide) _ (!v6)
  · rw [String.toList_ofList]
    cases v6
    · obtain ⟨p, hp, hm⟩ := headOk_match "ip prefix-list" (by decide) (joinSp [s "ip", s "prefix-list", name])
        (startsWith_of_toks2 _ _ _ (by decide) _ _)
      have : p = { toks := [.lit (s "ip"), .lit (s "prefix-list")] } := by
        have h2 : parseRow false "ip prefix-list".toList = some { toks := [.lit (s "ip"), .lit (s "prefix-list")] } := by decide
        rw [h2] at hp; cases hp; rfl
      subst this
      simpa using hm
    · simp [Pat.match?, joinSp, hi, h6, hpl, matchToks, matchOne, stripLit, charEq, sep, pyIsSpace]
  · rw [String.toList_ofList]
    cases v6
    · simp [Pat.match?, joinSp, hi, h6, matchToks, matchOne, stripLit, charEq]
    · obtain ⟨p, hp, hm⟩ := headOk_match "ipv6 prefix-list" (by decide) (joinSp [s "ipv6", s "prefix-list", name])
        (startsWith_of_toks2 _ _ _ (by decide) _ _)
      have : p = { toks := [.lit (s "ipv6"), .lit (s "prefix-list")] } := by
        have h2 : parseRow false "ipv6 prefix-list".toList = some { toks := [.lit (s "ipv6"), .lit (s "prefix-list")] } := by decide
        rw [h2] at hp; cases hp; rfl
      subst this
      simpa using hm
  · rw [String.toList_ofList]
    cases v6 <;> simp [Pat.match?, joinSp, hi, h6, hn, matchToks, matchOne, stripLit, charEq]
  · rw [String.toList_ofList]
    cases v6 <;> simp [Pat.match?, joinSp, hi, h6, hn, matchToks, matchOne, stripLit, charEq]



theorem prefixRowsA_walk (v6 : Bool) (pl : PrefixList) (l : Line)
    (h : l ∈ prefixRowsA (if v6 then s "ipv6" else s "ip") pl) :
    (walk vA rulesPrefixA ((l.path ++ [l.text]).map String.ofList)).isSome = true := by
  unfold prefixRowsA at h
  simp only [List.mem_cons, List.mem_map] at h
  rcases h with rfl | ⟨im, _, rfl⟩
  · simp only [List.nil_append, List.map_cons, List.map_nil, Line.text]
    rw [walk_cons, headerPrefixA_pass]; simp [walk]
  · simp only [List.cons_append, List.nil_append, List.map_cons, List.map_nil, Line.text]
    rw [walk_cons, headerPrefixA_pass]
    simp only [Option.bind_some]
    have hseq : s "seq " = "seq".toList ++ [' '] := by decide
    exact flat_row_covered vA rfl _ plain_seqA (flatRule "seq") (by simp) (by decide) _
      (startsWith_of_longer "seq" _ (natStr (im.1 * 10 + 10)) (by rw [hseq]; simp) _ _)

theorem runPrefixA_covered (inp : Input) (l : Line) (h : l ∈ (runPrefixA inp).1) :
    (walk vA rulesPrefixA ((l.path ++ [l.text]).map String.ofList)).isSome = true := by
  unfold runPrefixA runPrefix at h
  obtain ⟨pl, hpl⟩ := prefixStmts_mem _ _ _ l _ _ h
  rcases hpl with hpl | hpl
  · exact prefixRowsA_walk false pl l hpl
  · exact prefixRowsA_walk true pl l hpl



/-- Arista: every row of every generator's stream is covered by that generator's own ACL -/
theorem covered_arista (inp : Input) (k : GenKind) (l : Line)
    (h : l ∈ (runGen inp .arista k).1) : Covered .arista k l := by
  cases k with
  | policy => exact policyA_covered inp l h
  | «prefix» =>
    have := runPrefixA_covered inp l h
    unfold Covered rulesFor; simp only [genAcl, compile_prefixA]; exact this
  | community =>
    have := flatCovered_walk vA rfl rulesCommunityA plain_communityA l (runCommunityA_covered inp l h)
    unfold Covered rulesFor; simp only [genAcl, compile_communityA]; exact this
  | aspath =>
    have := flatCovered_walk vA rfl _ plain_aspathA l (runAsPathA_covered inp l h)
    unfold Covered rulesFor; simp only [genAcl, compile_flat1]; exact this
  | rd => simp [runGen] at h

/-- a tree whose paths are all covered passes the strict filter (`fatal_acl=True`) unchanged -/
theorem covered_tree_passes (v : Vend) (k : GenKind) (t : Cfg)
    (h : ∀ p ∈ t.paths, (walk (aclVendor v) (rulesFor v k) p).isSome = true) :
    applyAcl (aclVendor v) true false (rulesFor v k) [] t = .ok t :=
  walk_cfg _ _ [] t h

end Annet.Rpl.Lemmas
