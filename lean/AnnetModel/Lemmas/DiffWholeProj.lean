/-
Helpers for `Lemmas/DiffWhole.lean`, part 3: the projections at every depth (`callDiffLogic_proj`).

`projBy o` drops the entries with op `o` at every depth: `projOld = projBy .added`, `projNew = projBy .removed`.

Core Lean only.
-/
import AnnetModel.Lemmas.DiffWholeExact

namespace Annet.Diff.Lemmas
open Annet Annet.Rules Annet.Diff Annet.Diff.Spec

/-! ### `RPerm` -/

mutual
  theorem rEqv_refl : ∀ (t : RTree) (r : String), REqv (r, t) (r, t)
    | .mk c, _ => REqv.mk (rPerm_refl c)
  theorem rPerm_refl : ∀ (l : List (String × RTree)), RPerm l l
    | [] => .nil
    | (r, t) :: rest => .cons (rEqv_refl t r) (rPerm_refl rest)
end

theorem rPerm_of_perm {l1 l2 : List (String × RTree)} (h : l1.Perm l2) : RPerm l1 l2 := by
  induction h with
  | nil => exact .nil
  | cons x _ ih => exact .cons (rEqv_refl x.2 x.1) ih
  | swap x y l => exact .swap
  | trans _ _ ih1 ih2 => exact .trans ih1 ih2

theorem filter_true' {α : Type} (l : List α) : l.filter (fun _ => true) = l :=
  List.filter_eq_self.2 (fun _ _ => rfl)

theorem rPerm_of_eq {l1 l2 : List (String × RTree)} (h : l1 = l2) : RPerm l1 l2 := h ▸ rPerm_refl l1

theorem rPerm_append_left (a : List (String × RTree)) {c d : List (String × RTree)} (h : RPerm c d) :
    RPerm (a ++ c) (a ++ d) := by
  induction a with
  | nil => exact h
  | cons x xs ih => exact .cons (rEqv_refl x.2 x.1) ih

theorem rPerm_append_right {a b : List (String × RTree)} (h : RPerm a b) (c : List (String × RTree)) :
    RPerm (a ++ c) (b ++ c) := by
  refine RPerm.rec (motive_1 := fun _ _ _ => True) (motive_2 := fun a b _ => RPerm (a ++ c) (b ++ c))
    ?_ ?_ ?_ ?_ ?_ h
  · intros; trivial
  · exact rPerm_refl c
  · intro a b l1 l2 hab _ _ ih
    exact .cons hab ih
  · intro a b l
    exact .swap
  · intro l1 l2 l3 _ _ ih1 ih2
    exact .trans ih1 ih2

theorem rPerm_append {a b c d : List (String × RTree)} (h1 : RPerm a b) (h2 : RPerm c d) :
    RPerm (a ++ c) (b ++ d) :=
  .trans (rPerm_append_right h1 c) (rPerm_append_left b h2)

/-! ### `rtreeOfL`, `PlainLogicsL` unfolded -/

theorem rtreeOf_eq (c : ACfg) : rtreeOf c = .mk (rtreeOfL c.kids) := by
  obtain ⟨ks⟩ := c
  rw [rtreeOf]; rfl

theorem rtreeOfL_eq_map (l : Level) :
    rtreeOfL l = l.map (fun e => (e.1, RTree.mk (rtreeOfL e.2.2.kids))) := by
  induction l with
  | nil => rw [rtreeOfL]; rfl
  | cons e rest ih =>
    obtain ⟨r, m, c⟩ := e
    rw [rtreeOfL, ih, rtreeOf_eq]; rfl

theorem rtreeOfL_append (a b : Level) : rtreeOfL (a ++ b) = rtreeOfL a ++ rtreeOfL b := by
  rw [rtreeOfL_eq_map, rtreeOfL_eq_map a, rtreeOfL_eq_map b, List.map_append]

theorem rtreeOfL_perm {a b : Level} (h : a.Perm b) : RPerm (rtreeOfL a) (rtreeOfL b) := by
  rw [rtreeOfL_eq_map, rtreeOfL_eq_map]
  exact rPerm_of_perm (h.map _)

def PlainKey (k : String) : Prop := k = "common.default_diff" ∨ k = "common.ordered_diff"

theorem plainLogics_iff_kids (c : ACfg) : PlainLogics c ↔ PlainLogicsL c.kids := by
  obtain ⟨ks⟩ := c
  rw [PlainLogics]; rfl

theorem plainLogicsL_iff (l : Level) :
    PlainLogicsL l ↔ ∀ e ∈ l, PlainKey (keyOf e) ∧ PlainLogicsL e.2.2.kids := by
  induction l with
  | nil => simp [PlainLogicsL]
  | cons e rest ih =>
    obtain ⟨r, m, c⟩ := e
    simp only [PlainLogicsL, ih, List.mem_cons, forall_eq_or_imp, plainLogics_iff_kids, PlainKey, keyOf, and_assoc]

theorem plainLogicsL_nil : PlainLogicsL [] := by rw [PlainLogicsL]; trivial

theorem plainLogicsL_oldKids {l : Level} (h : PlainLogicsL l) (r : String) : PlainLogicsL (oldKids l r) := by
  rcases oldKids_cases l r with h1 | ⟨e, he, _, h1⟩
  · rw [h1]; exact plainLogicsL_nil
  · rw [h1]; exact ((plainLogicsL_iff l).1 h e he).2

/-! ### `projBy` -/

/-- drop the entries with op `o`, at every depth -/
def projBy (o : Op) : List DItem → List (String × RTree)
  | [] => []
  | .mk op row ch _ :: rest =>
    if op == o then projBy o rest else (row, .mk (projBy o ch)) :: projBy o rest

theorem projBy_nil (o : Op) : projBy o [] = [] := by rw [projBy]

theorem projBy_cons (o : Op) (i : DItem) (rest : List DItem) :
    projBy o (i :: rest) =
      if i.op == o then projBy o rest else (i.row, .mk (projBy o i.children)) :: projBy o rest := by
  obtain ⟨op, row, ch, m⟩ := i
  rw [projBy]; rfl

theorem projOld_eq : ∀ (d : List DItem), projOld d = projBy .added d
  | [] => by rw [projOld, projBy]
  | .mk op row ch m :: rest => by
    rw [projOld, projBy, projOld_eq ch, projOld_eq rest]

theorem projNew_eq : ∀ (d : List DItem), projNew d = projBy .removed d
  | [] => by rw [projNew, projBy]
  | .mk op row ch m :: rest => by
    rw [projNew, projBy, projNew_eq ch, projNew_eq rest]

theorem projBy_append (o : Op) (a b : List DItem) : projBy o (a ++ b) = projBy o a ++ projBy o b := by
  induction a with
  | nil => simp [projBy_nil]
  | cons i rest ih =>
    rw [List.cons_append, projBy_cons, projBy_cons, ih]
    split <;> simp

theorem projBy_perm (o : Op) {l1 l2 : List DItem} (h : l1.Perm l2) : RPerm (projBy o l1) (projBy o l2) := by
  induction h with
  | nil => exact rPerm_refl _
  | cons x _ ih =>
    rw [projBy_cons, projBy_cons]
    split
    · exact ih
    · exact .cons (rEqv_refl _ _) ih
  | swap x y l =>
    rw [projBy_cons, projBy_cons, projBy_cons, projBy_cons]
    split <;> split
    · exact rPerm_refl _
    · exact rPerm_refl _
    · exact rPerm_refl _
    · exact .swap
  | trans _ _ ih1 ih2 => exact .trans ih1 ih2

theorem projBy_all_dropped (o : Op) (d : List DItem) (h : ∀ i ∈ d, i.op = o) : projBy o d = [] := by
  induction d with
  | nil => exact projBy_nil o
  | cons i rest ih =>
    rw [projBy_cons, h i List.mem_cons_self]
    simp only [beq_self_eq_true, if_true]
    exact ih (fun j hj => h j (List.mem_cons_of_mem _ hj))

mutual
  theorem projBy_markUnchanged (o : Op) (h1 : o ≠ .affected) (h2 : o ≠ .unchanged) :
      ∀ (d : List DItem), projBy o (markUnchanged d) = projBy o d
    | [] => by rw [markUnchanged_nil]
    | i :: rest => by
      rw [markUnchanged_cons, projBy_cons, projBy_cons, projBy_markUnchanged o h1 h2 rest]
      obtain ⟨h3, h4, h5⟩ := projBy_markItem o h1 h2 i
      rw [h3, h4, h5]
  theorem projBy_markItem (o : Op) (h1 : o ≠ .affected) (h2 : o ≠ .unchanged) :
      ∀ (i : DItem), ((markItem i).op == o) = (i.op == o) ∧ (markItem i).row = i.row ∧
        projBy o (markItem i).children = projBy o i.children
    | .mk op r ch m => by
      rw [markItem_mk]
      by_cases ho : op = .affected
      · subst ho
        simp only [beq_self_eq_true, if_true]
        refine ⟨?_, rfl, projBy_markUnchanged o h1 h2 ch⟩
        have e1 : (Op.affected == o) = false := by simpa using fun h => h1 h.symm
        have e2 : (Op.unchanged == o) = false := by simpa using fun h => h2 h.symm
        simp only [DItem.op_mk]
        split <;> simp [e1, e2]
      · have : (op == Op.affected) = false := by simpa using ho
        rw [this]
        simp
end

/-- the items of one loop, read against the entries they report -/
theorem projBy_f2 (o : Op) (p : String × PMatch × ACfg → Bool) (T : String × PMatch × ACfg → List (String × RTree))
    {xs : List (Nat × DItem)} {es : Level}
    (h : F2 (fun x e => (x.2.op = o ∧ p e = false) ∨
      (x.2.op ≠ o ∧ p e = true ∧ x.2.row = e.1 ∧ RPerm (projBy o x.2.children) (T e))) xs es) :
    RPerm (projBy o (xs.map (·.2))) ((es.filter p).map (fun e => (e.1, RTree.mk (T e)))) := by
  induction h with
  | nil => rw [List.map_nil, projBy_nil]; exact .nil
  | cons hab _ ih =>
    rw [List.map_cons, projBy_cons, List.filter_cons]
    rcases hab with ⟨h1, h2⟩ | ⟨h1, h2, h3, h4⟩
    · rw [h1, h2]
      simpa using ih
    · have : (_ == o) = false := beq_eq_false_iff_ne.2 h1
      rw [this, h2, h3]
      simp only [Bool.false_eq_true, if_false, if_true, List.map_cons]
      exact .cons (.mk h4) ih

/-! ### the projections -/

/-- what the induction knows about the recursive callee; `k` bounds the depth it can handle -/
def RecProj (rec : Rec) (k : Nat) : Prop :=
  ∀ (pops : List Pop) (old new : Level) (d : List DItem), Hyp pops old new →
    PlainLogicsL old → PlainLogicsL new → adepthL old + adepthL new < k → rec pops old new = .ok d →
    RPerm (projBy .added d) (rtreeOfL old) ∧ RPerm (projBy .removed d) (rtreeOfL new)

theorem base_proj {rec : Rec} {k : Nat} (hrec : RecProj rec k) {pops : List Pop} {m2a : Bool}
    {old new o n : Level} {d : List DItem} (H : Hyp pops old new)
    (hpo : PlainLogicsL old) (hpn : PlainLogicsL new) (hk : adepthL old + adepthL new < k + 1)
    (S : Sub o n old new) (hdo : (rowsOf o).Nodup) (hdn : (rowsOf n).Nodup)
    (h : baseDiff rec pops m2a o n = .ok d) :
    RPerm (projBy .added d) (rtreeOfL o) ∧ RPerm (projBy .removed d) (rtreeOfL n) := by
  obtain ⟨rs, ns, hp, hr, hn⟩ := baseDiff_shape h
  -- the first loop
  have hr' : F2 (fun x e => x.2.op = .removed ∧ x.2.row = e.1 ∧
      RPerm (projBy .added x.2.children) (rtreeOfL e.2.2.kids)) rs (o.filter (fun e => !hasRow n e.1)) := by
    refine hr.imp_mem ?_
    intro x e _ he ⟨h1, h2, h3⟩
    have heold := S.so e (List.mem_filter.1 he).1
    have hd := adepthL_mem heold
    have := hrec _ _ _ _ (H.removed_child heold) ((plainLogicsL_iff old).1 hpo e heold).2 plainLogicsL_nil
      (by rw [adepthL_nil']; omega) h3
    exact ⟨h1, h2, this.1⟩
  -- the second loop
  have hn' : F2 (fun x e => x.2.row = e.1 ∧
      ((x.2.op = .added ∧ hasRow o e.1 = false) ∨ (x.2.op ≠ .added ∧ x.2.op ≠ .removed ∧ hasRow o e.1 = true)) ∧
      RPerm (projBy .added x.2.children) (rtreeOfL (oldKids o e.1)) ∧
      RPerm (projBy .removed x.2.children) (rtreeOfL e.2.2.kids)) ns n := by
    refine hn.imp_mem ?_
    intro x e _ he ⟨h1, h2, h3⟩
    have henew := S.sn e he
    have hd := adepthL_mem henew
    have hd2 := adepthL_oldKids old e.1
    rw [S.hn e he] at h3 ⊢
    rw [S.kn e he] at h2 ⊢
    have := hrec _ _ _ _ (H.new_child henew h3) (plainLogicsL_oldKids hpo e.1)
      ((plainLogicsL_iff new).1 hpn e henew).2 (by omega) h2
    refine ⟨h1, ?_, this⟩
    rcases h3 with ⟨ha, hb⟩ | ⟨hb, hc⟩
    · exact Or.inl ⟨ha, hb⟩
    · have := H.op_ok henew hb hc
      exact Or.inr ⟨this.1, this.2, hb⟩
  constructor
  · -- old
    refine .trans (projBy_perm _ hp) ?_
    rw [List.map_append, projBy_append]
    have e1 := projBy_f2 .added (fun _ => true) (fun e => rtreeOfL e.2.2.kids)
      (hr'.imp_mem (fun x e _ _ ⟨h1, h2, h3⟩ => Or.inr ⟨by rw [h1]; simp, rfl, h2, h3⟩))
    have e2 := projBy_f2 .added (fun e => hasRow o e.1) (fun e => rtreeOfL (oldKids o e.1))
      (hn'.imp_mem (fun x e _ _ ⟨h1, h2, h3, _⟩ => by
        rcases h2 with ⟨ha, hb⟩ | ⟨ha, _, hb⟩
        · exact Or.inl ⟨ha, hb⟩
        · exact Or.inr ⟨ha, hb, h1, h3⟩))
    refine .trans (rPerm_append e1 e2) (rPerm_of_perm ?_)
    -- the combinatorial identity, on rows
    let F : String → String × RTree := fun r => (r, RTree.mk (rtreeOfL (oldKids o r)))
    have hG : ∀ l : Level, (∀ e ∈ l, e ∈ o) →
        l.map (fun e => (e.1, RTree.mk (rtreeOfL e.2.2.kids))) = (rowsOf l).map F := by
      intro l hl
      rw [rowsOf, List.map_map]
      apply List.map_congr_left
      intro e he
      simp only [Function.comp, F]
      rw [oldKids_of_mem hdo (hl e he)]
    rw [filter_true', hG _ (fun e he => (List.mem_filter.1 he).1), rtreeOfL_eq_map, hG o (fun e he => he)]
    have e3 : (n.filter (fun e => hasRow o e.1)).map (fun e => (e.1, RTree.mk (rtreeOfL (oldKids o e.1)))) =
        ((rowsOf n).filter (fun r => hasRow o r)).map F := by
      rw [rowsOf, List.filter_map, List.map_map]; rfl
    have e4 : rowsOf (o.filter (fun e => !hasRow n e.1)) = (rowsOf o).filter (fun r => !hasRow n r) := by
      rw [rowsOf, rowsOf, List.filter_map]; rfl
    rw [e3, e4, ← List.map_append]
    exact (rows_perm o n hdo hdn).map F
  · -- new
    refine .trans (projBy_perm _ hp) ?_
    rw [List.map_append, projBy_append, projBy_all_dropped .removed (rs.map (·.2)) (by
      intro i hi
      obtain ⟨x, hx, rfl⟩ := List.mem_map.1 hi
      obtain ⟨e, _, h1, _⟩ := hr'.mem_left hx
      exact h1), List.nil_append]
    have e2 := projBy_f2 .removed (fun _ => true) (fun e => rtreeOfL e.2.2.kids)
      (hn'.imp_mem (fun x e _ _ ⟨h1, h2, _, h4⟩ => by
        refine Or.inr ⟨?_, rfl, h1, h4⟩
        rcases h2 with ⟨ha, _⟩ | ⟨_, ha, _⟩
        · rw [ha]; simp
        · exact ha))
    rw [filter_true'] at e2
    rw [rtreeOfL_eq_map]
    exact e2

theorem runLogic_proj {rec : Rec} {k : Nat} (hrec : RecProj rec k) {pops : List Pop} {lg : String}
    {old new o n : Level} {d : List DItem} (H : Hyp pops old new)
    (hpo : PlainLogicsL old) (hpn : PlainLogicsL new) (hk : adepthL old + adepthL new < k + 1)
    (S : Sub o n old new) (hdo : (rowsOf o).Nodup) (hdn : (rowsOf n).Nodup) (hlg : PlainKey lg)
    (h : runLogic rec pops lg o n = .ok d) :
    RPerm (projBy .added d) (rtreeOfL o) ∧ RPerm (projBy .removed d) (rtreeOfL n) := by
  unfold runLogic at h
  rcases hlg with rfl | rfl
  · simp only [beq_self_eq_true, if_true] at h
    exact base_proj hrec H hpo hpn hk S hdo hdn h
  · have : ("common.ordered_diff" == "common.default_diff") = false := by decide
    simp only [this, beq_self_eq_true, if_true, Bool.false_eq_true, if_false] at h
    exact base_proj hrec H hpo hpn hk S hdo hdn h

theorem runLogics_proj {rec : Rec} {k : Nat} (hrec : RecProj rec k) {pops : List Pop} {old new : Level}
    (H : Hyp pops old new) (hpo : PlainLogicsL old) (hpn : PlainLogicsL new)
    (hk : adepthL old + adepthL new < k + 1) :
    ∀ (ls : List String) (d : List DItem), (∀ l ∈ ls, PlainKey l) → runLogics rec pops old new ls = .ok d →
      RPerm (projBy .added d) (rtreeOfL (ls.flatMap fun l => old.filter (fun x => x.2.1.attrs.diffLogic == l))) ∧
      RPerm (projBy .removed d) (rtreeOfL (ls.flatMap fun l => new.filter (fun x => x.2.1.attrs.diffLogic == l))) := by
  intro ls
  induction ls with
  | nil =>
    intro d _ h
    simp only [runLogics, Except.ok.injEq] at h
    subst h
    simp only [List.flatMap_nil, projBy_nil]
    rw [rtreeOfL]
    exact ⟨.nil, .nil⟩
  | cons lg ls ih =>
    intro d hpl h
    rw [runLogics] at h
    split at h
    · cases h
    · rename_i d1 hd1
      split at h
      · cases h
      · rename_i ds hds
        cases h
        have h1 := runLogic_proj hrec H hpo hpn hk (sub_filter H.coh lg)
          ((noDupRowsL_rows H.ndo).sublist (List.filter_sublist.map _))
          ((noDupRowsL_rows H.ndn).sublist (List.filter_sublist.map _))
          (hpl lg List.mem_cons_self) hd1
        have h2 := ih ds (fun l hl => hpl l (List.mem_cons_of_mem _ hl)) hds
        rw [List.flatMap_cons, List.flatMap_cons, rtreeOfL_append, rtreeOfL_append, projBy_append, projBy_append]
        exact ⟨rPerm_append h1.1 h2.1, rPerm_append h1.2 h2.2⟩

theorem callDiffLogic_proj : ∀ (fuel : Nat), RecProj (callDiffLogic fuel) fuel := by
  intro fuel
  induction fuel with
  | zero => intro pops old new d _ _ _ hk _; omega
  | succ fuel ih =>
    intro pops old new d H hpo hpn hk h
    rw [callDiffLogic] at h
    have hpl : ∀ l ∈ logicsOf old new, PlainKey l := by
      intro l hl
      obtain ⟨e, he, rfl⟩ := mem_logicsOf.1 hl
      rcases he with he | he
      · exact ((plainLogicsL_iff old).1 hpo e he).1
      · exact ((plainLogicsL_iff new).1 hpn e he).1
    obtain ⟨h1, h2⟩ := runLogics_proj ih H hpo hpn hk _ d hpl h
    exact ⟨.trans h1 (rtreeOfL_perm (groups_perm_left old new)),
      .trans h2 (rtreeOfL_perm (groups_perm_right old new))⟩

end Annet.Diff.Lemmas
