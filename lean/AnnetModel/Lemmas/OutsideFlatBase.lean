/-
Helpers for `Lemmas/OutsideFlat.lean` (C02 clause (b), end to end on the top level).

* where the top-level entries of a diff come from: every entry reports a line of the (annotated) old or new
  configuration and carries the match `matchRow` gave that line (`FromLevels`, through `base_diff`, the diff logics,
  `apply_acl_diff`, `mark_unchanged`);
* inversion of `deviceModeAcl` / `makeDiffAcl`;
* the device: a removal command whose body lies in another slot leaves a slot alone.

Core Lean only.
-/
import AnnetModel.Lemmas.AclDiff
import AnnetModel.Lemmas.Provenance
import AnnetModel.Lemmas.DiffWholeCommon
import AnnetModel.Lemmas.Acl

namespace Annet.AclDiff.OutsideFlat
open Annet Annet.Rules Annet.Diff Annet.Diff.Spec Annet.Diff.Lemmas Annet.Device Annet.Device.Abs

/-! ### where the top-level entries of a diff come from -/

/-- every top-level entry of `d` reports a line of `o` or of `n` and carries the match of that line -/
def FromLevels (o n : Level) (d : List DItem) : Prop :=
  ∀ i ∈ d, ∃ e, (e ∈ o ∨ e ∈ n) ∧ e.1 = i.row ∧ e.2.1 = i.m

theorem FromLevels.mono {o n o' n' : Level} {d : List DItem} (h : FromLevels o n d)
    (ho : ∀ e ∈ o, e ∈ o') (hn : ∀ e ∈ n, e ∈ n') : FromLevels o' n' d := by
  intro i hi
  obtain ⟨e, he, h1, h2⟩ := h i hi
  exact ⟨e, he.imp (ho e) (hn e), h1, h2⟩

theorem removedItems_from (rec : Rec) (pops : List Pop) (new : Level) :
    ∀ (old : Level) (idx : Nat) (rs : List (Nat × DItem)),
      removedItems rec pops new idx old = .ok rs → ∀ x ∈ rs, ∃ e ∈ old, e.1 = x.2.row ∧ e.2.1 = x.2.m := by
  intro old
  induction old with
  | nil =>
    intro idx rs h
    simp only [removedItems, Except.ok.injEq] at h
    subst h
    intro x hx; cases hx
  | cons e rest ih =>
    obtain ⟨row, m, ch⟩ := e
    intro idx rs h
    rw [removedItems] at h
    split at h
    · intro x hx
      obtain ⟨e, he, h1⟩ := ih _ _ h x hx
      exact ⟨e, List.mem_cons_of_mem _ he, h1⟩
    · split at h
      · cases h
      · split at h
        · cases h
        · rename_i more hmore
          cases h
          intro x hx
          rcases List.mem_cons.1 hx with rfl | hx
          · exact ⟨_, List.mem_cons_self, rfl, rfl⟩
          · obtain ⟨e, he, h1⟩ := ih _ _ hmore x hx
            exact ⟨e, List.mem_cons_of_mem _ he, h1⟩

theorem newItems_from (rec : Rec) (pops : List Pop) (m2a : Bool) (old : Level) :
    ∀ (new : Level) (idx : Nat) (dis : Bool) (ns : List (Nat × DItem)),
      newItems rec pops m2a old idx dis new = .ok ns → ∀ x ∈ ns, ∃ e ∈ new, e.1 = x.2.row ∧ e.2.1 = x.2.m := by
  intro new
  induction new with
  | nil =>
    intro idx dis ns h
    simp only [newItems, Except.ok.injEq] at h
    subst h
    intro x hx; cases hx
  | cons e rest ih =>
    obtain ⟨row, m, ch⟩ := e
    intro idx dis ns h
    rw [newItems_cons] at h
    split at h
    · cases h
    · split at h
      · cases h
      · rename_i more hmore
        cases h
        intro x hx
        rcases List.mem_cons.1 hx with rfl | hx
        · exact ⟨_, List.mem_cons_self, rfl, rfl⟩
        · obtain ⟨e, he, h1⟩ := ih _ _ _ hmore x hx
          exact ⟨e, List.mem_cons_of_mem _ he, h1⟩

theorem baseDiff_from {rec : Rec} {pops : List Pop} {m2a : Bool} {old new : Level} {d : List DItem}
    (h : baseDiff rec pops m2a old new = .ok d) : FromLevels old new d := by
  obtain ⟨rs, ns, hr, hn, rfl⟩ := baseDiff_inv h
  intro i hi
  obtain ⟨x, hx, rfl⟩ := List.mem_map.1 hi
  have hx' := (sortIdx_perm (rs ++ ns)).mem_iff.1 hx
  rcases List.mem_append.1 hx' with hx' | hx'
  · obtain ⟨e, he, h1⟩ := removedItems_from rec pops new old 0 rs hr x hx'
    exact ⟨e, .inl he, h1⟩
  · obtain ⟨e, he, h1⟩ := newItems_from rec pops m2a old new 0 false ns hn x hx'
    exact ⟨e, .inr he, h1⟩

theorem affectedToMoved_mem : ∀ (d : List DItem) (i : DItem), i ∈ affectedToMoved d →
    ∃ j ∈ d, j.row = i.row ∧ j.m = i.m
  | [], i, h => by rw [affectedToMoved] at h; cases h
  | j :: rest, i, h => by
    rw [affectedToMoved] at h
    rcases List.mem_cons.1 h with rfl | h
    · refine ⟨j, List.mem_cons_self, ?_⟩
      obtain ⟨o, r, ch, m⟩ := j
      rw [affectedToMovedItem]
      exact ⟨rfl, rfl⟩
    · obtain ⟨k, hk, h1⟩ := affectedToMoved_mem rest i h
      exact ⟨k, List.mem_cons_of_mem _ hk, h1⟩

theorem runLogic_from {rec : Rec} {pops : List Pop} {l : String} {o n : Level} {d : List DItem}
    (h : Diff.runLogic rec pops l o n = .ok d) : FromLevels o n d := by
  unfold Diff.runLogic at h
  split at h
  · exact baseDiff_from h
  · split at h
    · exact baseDiff_from h
    · split at h
      · simp only at h
        split at h
        · cases h
        · rename_i d0 hd0
          have h0 := baseDiff_from hd0
          split at h
          · cases h; exact h0
          · split at h
            · cases h
              intro i hi; cases hi
            · cases h
              intro i hi
              obtain ⟨j, hj, h1, h2⟩ := affectedToMoved_mem d0 i hi
              obtain ⟨e, he, h3, h4⟩ := h0 j hj
              exact ⟨e, he, h3.trans h1, h4.trans h2⟩
      · cases h

theorem runLogics_from {rec : Rec} {pops : List Pop} {old new : Level} :
    ∀ (ls : List String) (d : List DItem), runLogics rec pops old new ls = .ok d → FromLevels old new d
  | [], d, h => by
    rw [runLogics] at h
    cases h
    intro i hi; cases hi
  | l :: ls, d, h => by
    rw [runLogics] at h
    split at h
    · cases h
    · rename_i d1 hd1
      split at h
      · cases h
      · rename_i ds hds
        cases h
        intro i hi
        rcases List.mem_append.1 hi with hi | hi
        · exact (runLogic_from hd1).mono (fun e he => (List.mem_filter.1 he).1)
            (fun e he => (List.mem_filter.1 he).1) i hi
        · exact runLogics_from ls ds hds i hi

theorem callDiffLogic_from (fuel : Nat) (pops : List Pop) (old new : Level) (d : List DItem)
    (h : callDiffLogic fuel pops old new = .ok d) : FromLevels old new d := by
  cases fuel with
  | zero =>
    rw [callDiffLogic] at h
    cases h
    intro i hi; cases hi
  | succ f =>
    rw [callDiffLogic] at h
    exact runLogics_from _ d h

/-- `apply_acl_diff` keeps the row and the match of the entries it keeps -/
theorem acl_diff_row_m (v : Acl.Vendor) (rules : Acl.Rules) (d d' : List DItem)
    (h : applyAclDiff v rules d = .ok d') (i' : DItem) (hi : i' ∈ d') :
    ∃ i ∈ d, i.row = i'.row ∧ i.m = i'.m := by
  induction d generalizing d' with
  | nil => rw [Lemmas.applyAclDiff_nil] at h; cases h; cases hi
  | cons i rest ih =>
    obtain ⟨oi, r, h1, h2, rfl⟩ := Lemmas.applyAclDiff_cons_ok h
    cases oi with
    | none =>
      obtain ⟨j, hj, hr⟩ := ih r h2 hi
      exact ⟨j, List.mem_cons_of_mem _ hj, hr⟩
    | some i'' =>
      rcases List.mem_cons.1 hi with rfl | hi
      · refine ⟨i, List.mem_cons_self, ?_⟩
        obtain ⟨op, row, ch, m⟩ := i
        obtain ⟨am, cr, ch', _, _, rfl⟩ := Lemmas.aclDiffItem_ok h1
        exact ⟨rfl, rfl⟩
      · obtain ⟨j, hj, hr⟩ := ih r h2 hi
        exact ⟨j, List.mem_cons_of_mem _ hj, hr⟩

theorem markItem_row_m (i : DItem) : (markItem i).row = i.row ∧ (markItem i).m = i.m := by
  obtain ⟨o, r, ch, m⟩ := i
  rw [markItem]
  split <;> exact ⟨rfl, rfl⟩

theorem markUnchanged_mem : ∀ (d : List DItem) (i : DItem), i ∈ markUnchanged d →
    ∃ j ∈ d, j.row = i.row ∧ j.m = i.m
  | [], i, h => by rw [markUnchanged] at h; cases h
  | j :: rest, i, h => by
    rw [markUnchanged] at h
    rcases List.mem_cons.1 h with rfl | h
    · exact ⟨j, List.mem_cons_self, (markItem_row_m j).1.symm, (markItem_row_m j).2.symm⟩
    · obtain ⟨k, hk, h1⟩ := markUnchanged_mem rest i h
      exact ⟨k, List.mem_cons_of_mem _ hk, h1⟩

theorem stripItem_row_m (i : DItem) : (stripItem i).row = i.row ∧ (stripItem i).m = i.m := by
  obtain ⟨o, r, ch, m⟩ := i
  rw [stripItem]
  exact ⟨rfl, rfl⟩

/-- a changed entry is shown: `strip_unchanged` keeps it (with its row, op and match) -/
theorem mem_stripUnchanged : ∀ (d : List DItem) (e : DItem), e ∈ d → e.op ≠ .unchanged →
    ∃ e' ∈ stripUnchanged d, e'.row = e.row ∧ e'.op = e.op ∧ e'.m = e.m
  | [], e, h, _ => by cases h
  | j :: rest, e, h, hop => by
    rw [stripUnchanged_cons]
    rcases List.mem_cons.1 h with rfl | h
    · have : (e.op == Op.unchanged) = false := by
        cases ho : e.op <;> first | rfl | exact absurd ho hop
      rw [this]
      exact ⟨stripItem e, List.mem_cons_self, (stripItem_row_m e).1, stripItem_op e, (stripItem_row_m e).2⟩
    · obtain ⟨e', he', h1⟩ := mem_stripUnchanged rest e h hop
      split
      · exact ⟨e', he', h1⟩
      · exact ⟨e', List.mem_cons_of_mem _ he', h1⟩

/-! ### inversion of `_diff_and_patch` with an ACL -/

/-- every top-level entry of the diff carries the match the rulebook gives its row -/
def Classified (rules : PRules) (d : List DItem) : Prop :=
  ∀ e ∈ d, ∃ cr, classify rules e.row = some (e.m, cr)

theorem makeDiffAcl_classified {av : Acl.Vendor} {acl : Acl.Rules} {rules : PRules} {old new : Cfg}
    {d : List DItem} (h : makeDiffAcl av acl rules old new = .ok d) : Classified rules d := by
  unfold makeDiffAcl at h
  split at h
  · cases h
  · cases h
  · rename_i o n ho hn
    split at h
    · cases h
    · rename_i d0 hd0
      split at h
      · cases h
      · rename_i d' hd'
        cases h
        intro e he
        obtain ⟨j, hj, h1, h2⟩ := markUnchanged_mem d' e he
        obtain ⟨i, hi, h3, h4⟩ := acl_diff_row_m av acl d0 d' hd' j hj
        obtain ⟨x, hx, h5, h6⟩ := callDiffLogic_from _ _ _ _ d0 hd0 i hi
        have hao := (annC_iff _ _).1 (annotate_annC _ _ _ ho)
        have han := (annC_iff _ _).1 (annotate_annC _ _ _ hn)
        have : ∃ cr, matchRow x.1 rules = .found x.2.1 cr := by
          rcases hx with hx | hx
          · obtain ⟨cr, hcr, _⟩ := (annL_iff _ _).1 hao x hx
            exact ⟨cr, hcr⟩
          · obtain ⟨cr, hcr, _⟩ := (annL_iff _ _).1 han x hx
            exact ⟨cr, hcr⟩
        obtain ⟨cr, hcr⟩ := this
        refine ⟨cr, ?_⟩
        rw [← h1, ← h3, ← h5, ← h2, ← h4, ← h6]
        unfold classify
        rw [hcr]

/-- what `deviceModeAcl` computes: the shown diff is `strip_unchanged` of a diff `d` that is covered by the ACL, whose
entries carry the match of their row, and from which the patch stems -/
theorem deviceModeAcl_inv {pv : Rules.Vendor} {av : Acl.Vendor} {acl : Acl.Rules} {rules : PRules}
    {ordering : List ORule} {old new : Cfg} {res : Api.Result}
    (h : deviceModeAcl Patch.runLogic pv av acl rules ordering old new = .ok res) :
    ∃ d, res.diff = stripUnchanged d ∧ Classified rules d ∧ Patch.ProvT pv d res.patch := by
  unfold deviceModeAcl at h
  split at h
  · cases h
  · cases h
  · split at h
    · cases h
    · rename_i d hd
      split at h
      · cases h
      · rename_i p hp
        cases h
        exact ⟨d, rfl, makeDiffAcl_classified hd, Patch.patch_provenance pv ordering true d p hp⟩

/-! ### the rows of the diff are lines of the two configurations that the ACL matches -/

/-- the ACL matches the row at the top level -/
def aclCovers (av : Acl.Vendor) (acl : Acl.Rules) (row : String) : Bool :=
  match Acl.matchRowToAcl av row acl false with
  | .ok (some _) => true
  | _ => false

theorem covered_mem {av : Acl.Vendor} {acl : Acl.Rules} : ∀ {d : List DItem}, Lemmas.Covered av acl d →
    ∀ e ∈ d, aclCovers av acl e.row = true
  | [], _, e, he => by cases he
  | i :: rest, h, e, he => by
    cases h with
    | cons hm _ _ hrest =>
      rcases List.mem_cons.1 he with rfl | he
      · unfold aclCovers; rw [hm]
      · exact covered_mem hrest e he

/-- the lines of a filtered configuration are lines of the configuration -/
theorem subL_rows : ∀ (l a : List (String × Cfg)), Acl.Spec.SubL a l → ∀ e ∈ a, l.any (·.1 == e.1) = true
  | [], a, h, e, he => by
    cases h with
    | nil => cases he
  | x :: l, a, h, e, he => by
    cases h with
    | nil => cases he
    | skip _ h' =>
      rw [List.any_cons, subL_rows l a h' e he, Bool.or_true]
    | keep k _ h' =>
      rcases List.mem_cons.1 he with rfl | he
      · simp
      · rw [List.any_cons, subL_rows l _ h' e he, Bool.or_true]

theorem applyAcl_rows {av : Acl.Vendor} {fatal excl : Bool} {acl : Acl.Rules} {path : List String} {t t' : Cfg}
    (h : Acl.applyAcl av fatal excl acl path t = .ok t') : ∀ e ∈ t'.kids, t.kids.any (·.1 == e.1) = true := by
  have hs := Acl.Lemmas.sub_cfg av fatal excl acl path t t' h
  cases hs with
  | mk hl => exact subL_rows _ _ hl

theorem mem_of_stripUnchanged : ∀ (d : List DItem) (e : DItem), e ∈ stripUnchanged d → ∃ j ∈ d, j.row = e.row
  | [], e, h => by rw [stripUnchanged_nil] at h; cases h
  | j :: rest, e, h => by
    rw [stripUnchanged_cons] at h
    split at h
    · obtain ⟨k, hk, h1⟩ := mem_of_stripUnchanged rest e h
      exact ⟨k, List.mem_cons_of_mem _ hk, h1⟩
    · rcases List.mem_cons.1 h with rfl | h
      · exact ⟨j, List.mem_cons_self, (stripItem_row_m j).1.symm⟩
      · obtain ⟨k, hk, h1⟩ := mem_of_stripUnchanged rest e h
        exact ⟨k, List.mem_cons_of_mem _ hk, h1⟩

/-- every top-level entry of the ACL-filtered diff is matched by the ACL and reports a line of `old` or `new` -/
theorem makeDiffAcl_rows {av : Acl.Vendor} {acl : Acl.Rules} {rules : PRules} {old new : Cfg}
    {d : List DItem} (h : makeDiffAcl av acl rules old new = .ok d) :
    ∀ e ∈ d, aclCovers av acl e.row = true ∧
      (old.kids.any (·.1 == e.row) = true ∨ new.kids.any (·.1 == e.row) = true) := by
  unfold makeDiffAcl at h
  split at h
  · cases h
  · cases h
  · rename_i o n ho hn
    split at h
    · cases h
    · rename_i d0 hd0
      split at h
      · cases h
      · rename_i d' hd'
        cases h
        intro e he
        refine ⟨covered_mem (covered_markUnchanged av acl d' (Lemmas.acl_diff_covered av acl d0 d' hd')) e he, ?_⟩
        obtain ⟨j, hj, h1, _⟩ := markUnchanged_mem d' e he
        obtain ⟨i, hi, h3, _⟩ := acl_diff_row_m av acl d0 d' hd' j hj
        obtain ⟨x, hx, h5, _⟩ := callDiffLogic_from _ _ _ _ d0 hd0 i hi
        have hrow : x.1 = e.row := h5.trans (h3.trans h1)
        rcases hx with hx | hx
        · have := hasRow_of_mem hx
          rw [annotate_hasRow ho, Bool.and_eq_true, hrow] at this
          exact .inl this.1
        · have := hasRow_of_mem hx
          rw [annotate_hasRow hn, Bool.and_eq_true, hrow] at this
          exact .inr this.1

/-- the shown diff only has lines of `old` or `new` that the ACL matches -/
theorem deviceModeAcl_diff_rows {lg : Patch.LogicFn} {pv : Rules.Vendor} {av : Acl.Vendor} {acl : Acl.Rules}
    {rules : PRules} {ordering : List ORule} {old new : Cfg} {res : Api.Result}
    (h : deviceModeAcl lg pv av acl rules ordering old new = .ok res) :
    ∀ e ∈ res.diff, aclCovers av acl e.row = true ∧
      (old.kids.any (·.1 == e.row) = true ∨ new.kids.any (·.1 == e.row) = true) := by
  unfold deviceModeAcl at h
  split at h
  · cases h
  · cases h
  · rename_i old' new' ho hn
    split at h
    · cases h
    · rename_i d hd
      split at h
      · cases h
      · cases h
        intro e he
        obtain ⟨j, hj, hrow⟩ := mem_of_stripUnchanged d e he
        obtain ⟨h1, h2⟩ := makeDiffAcl_rows hd j hj
        rw [hrow] at h1 h2
        refine ⟨h1, ?_⟩
        rcases h2 with h2 | h2
        · obtain ⟨x, hx, hxe⟩ := List.any_eq_true.1 h2
          rw [← beq_iff_eq.1 hxe]
          exact .inl (applyAcl_rows ho x hx)
        · obtain ⟨x, hx, hxe⟩ := List.any_eq_true.1 h2
          rw [← beq_iff_eq.1 hxe]
          exact .inr (applyAcl_rows hn x hx)

/-! ### the device -/

/-- a removal command whose body lies in another slot leaves the lines of slot `s` alone -/
theorem execLeaf_removal_other (env : Env) (rules : PRules) (c r' : String) (kids : List (String × Cfg)) (s s' : Slot)
    (hr : stripReverse env c = some r') (hs' : slotOf rules r' = some s') (hne : s' ≠ s) :
    (execLeaf env rules c kids).filter (fun e => slotOf rules e.1 == some s) =
      kids.filter (fun e => slotOf rules e.1 == some s) := by
  unfold execLeaf
  split
  · rfl
  · cases hcl : classify rules r' with
    | none => simp [slotOf, hcl] at hs'
    | some mc =>
      have hsl : some (mc.1.rawRule, mc.1.key) = some s' := by
        rw [← hs', Device.Lemmas.slotOf_of_classify (m := mc.1) (cr := mc.2) hcl]
      simp only [hr, Option.bind_some, hcl, Option.map_some]
      rw [List.filter_filter]
      apply List.filter_congr
      intro e _
      cases hp : slotOf rules e.1 == some s with
      | false => simp
      | true =>
        rw [beq_iff_eq] at hp
        have : sameSlot rules mc.1 e.1 = false := by
          rw [Device.Lemmas.sameSlot_eq, hp, beq_eq_false_iff_ne, hsl]
          exact fun h => hne (Option.some.inj h).symm
        simp [this]

/-- commands each of which leaves slot `s` alone, executed in order, leave it alone -/
theorem foldl_untouched (env : Env) (rules : PRules) (s : Slot) (cs : List String)
    (h : ∀ c ∈ cs, ∀ kids, (execLeaf env rules c kids).filter (fun e => slotOf rules e.1 == some s) =
      kids.filter (fun e => slotOf rules e.1 == some s)) (kids : List (String × Cfg)) :
    (cs.foldl (fun k c => execLeaf env rules c k) kids).filter (fun e => slotOf rules e.1 == some s) =
      kids.filter (fun e => slotOf rules e.1 == some s) := by
  induction cs generalizing kids with
  | nil => rfl
  | cons c cs ih =>
    rw [List.foldl_cons, ih (fun c' hc' => h c' (List.mem_cons_of_mem _ hc'))]
    exact h c List.mem_cons_self kids

/-- the removal command only depends on the row of the rule -/
theorem reverseCmd_congr (v : Vendor) (a a' : PAttrs) (key : List String) (h : a.row = a'.row) :
    Patch.reverseCmd v a key = Patch.reverseCmd v a' key := by
  unfold Patch.reverseCmd
  rw [h]

end Annet.AclDiff.OutsideFlat
