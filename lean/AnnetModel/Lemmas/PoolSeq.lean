/-
Helper lemmas for the worker pool (C12), part 4: the sequential pieces -
`single` (pool_size == 1), `Parallel.run`'s dictionaries, `invoke_retry`.
-/
import AnnetModel.Lemmas.PoolSafe

namespace Annet.Pool

set_option linter.unusedSimpArgs false


/-- A task whose failure aborts a single-process run. -/
def Cfg.fatal (c : Cfg) (id : Id) : Bool := (c.out id).isExc && !c.tolerate

theorem single_cons (c : Cfg) (id : Id) (rest : List Id) :
    single c (id :: rest) =
      if c.fatal id then ([], true) else (c.res id :: (single c rest).1, (single c rest).2) := by
  simp only [single, Cfg.fatal]
  split <;> simp_all

theorem takeWhile_all {α} (p : α → Bool) (l : List α) (h : ∀ x ∈ l, p x = true) : l.takeWhile p = l := by
  induction l with
  | nil => rfl
  | cons a l ih =>
    rw [List.takeWhile_cons_of_pos (h a (by simp)), ih (fun x hx => h x (by simp [hx]))]

theorem single_spec (c : Cfg) (ids : List Id) :
    single c ids = ((ids.takeWhile fun id => !c.fatal id).map c.res, ids.any c.fatal) := by
  induction ids with
  | nil => rfl
  | cons id rest ih =>
    rw [single_cons, ih]
    by_cases h : c.fatal id = true
    · simp [h]
    · simp [h]

theorem single_tolerant (c : Cfg) (h : Tolerant c) : single c c.ids = (c.submitted, false) := by
  have hf : ∀ id ∈ c.ids, c.fatal id = false := by
    intro id hid
    rcases h with h | h
    · simp [Cfg.fatal, h]
    · simp [Cfg.fatal, h id hid]
  rw [single_spec]
  have h1 : c.ids.takeWhile (fun id => !c.fatal id) = c.ids :=
    takeWhile_all _ _ (fun id hid => by simp [hf id hid])
  have h2 : c.ids.any c.fatal = false := by
    simp only [List.any_eq_false]
    intro id hid; simp [hf id hid]
  rw [h1, h2]; rfl

/-! `Parallel.run` -/

def okOf (r : Res) : Option (Id × Int) := match r.out with | .ok v => some (r.id, v) | .exc _ _ => none
def excOf (r : Res) : Option (Id × Nat) := match r.out with | .ok _ => none | .exc e _ => some (r.id, e)

theorem dictSet_fresh {α} (d : List (Id × α)) (k : Id) (v : α) (h : k ∉ d.map Prod.fst) :
    dictSet d k v = d ++ [(k, v)] := by
  induction d with
  | nil => rfl
  | cons p d ih =>
    obtain ⟨k', v'⟩ := p
    simp only [List.map_cons, List.mem_cons, not_or] at h
    simp only [dictSet]
    rw [if_neg (fun hk => h.1 hk.symm), ih h.2]
    rfl

theorem runSplit_nodup (rs : List Res) (su : List (Id × Int)) (fa : List (Id × Nat))
    (hnd : (rs.map (·.id)).Nodup)
    (hsu : ∀ r ∈ rs, r.id ∉ su.map Prod.fst) (hfa : ∀ r ∈ rs, r.id ∉ fa.map Prod.fst) :
    runSplit rs (su, fa) = (su ++ rs.filterMap okOf, fa ++ rs.filterMap excOf) := by
  induction rs generalizing su fa with
  | nil => simp [runSplit]
  | cons r rs ih =>
    simp only [List.map_cons, List.nodup_cons, List.mem_map, not_exists, not_and] at hnd
    have hne : ∀ x ∈ rs, x.id ≠ r.id := fun x hx h => hnd.1 x hx h
    cases hr : r.out with
    | ok v =>
      simp only [runSplit, hr]
      rw [dictSet_fresh _ _ _ (hsu r (by simp))]
      rw [ih _ _ hnd.2]
      · simp [List.filterMap_cons, okOf, excOf, hr]
      · intro x hx
        simp only [List.map_append, List.map_cons, List.map_nil, List.mem_append, List.mem_singleton, not_or]
        exact ⟨hsu x (by simp [hx]), hne x hx⟩
      · intro x hx; exact hfa x (by simp [hx])
    | exc e s =>
      simp only [runSplit, hr]
      rw [dictSet_fresh _ _ _ (hfa r (by simp))]
      rw [ih _ _ hnd.2]
      · simp [List.filterMap_cons, okOf, excOf, hr]
      · intro x hx; exact hsu x (by simp [hx])
      · intro x hx
        simp only [List.map_append, List.map_cons, List.map_nil, List.mem_append, List.mem_singleton, not_or]
        exact ⟨hfa x (by simp [hx]), hne x hx⟩




theorem run_spec (rs : List Res) (hnd : (rs.map (·.id)).Nodup) (strict : Bool) :
    run rs strict =
      if strict && !(rs.filterMap excOf).isEmpty then .runtimeError (rs.filterMap excOf).length
      else .ok (rs.filterMap okOf) (rs.filterMap excOf) := by
  simp only [run]
  rw [runSplit_nodup rs [] [] hnd (by simp) (by simp)]
  simp

theorem keys_perm (rs : List Res) :
    ((rs.filterMap okOf).map Prod.fst ++ (rs.filterMap excOf).map Prod.fst).Perm (rs.map (·.id)) := by
  induction rs with
  | nil => simp
  | cons r rs ih =>
    cases hr : r.out with
    | ok v =>
      simp only [okOf, excOf, hr, List.filterMap_cons, List.map_cons, List.cons_append]
      exact ih.cons _
    | exc e s =>
      simp only [List.filterMap_cons, okOf, excOf, hr, List.map_cons]
      exact List.perm_middle.trans (ih.cons _)

theorem run_partition {c : Cfg} {rs : List Res} (hp : rs.Perm c.submitted) (hnd : c.ids.Nodup) :
    (rs.map (·.id)).Nodup ∧
    ((rs.filterMap okOf).map Prod.fst ++ (rs.filterMap excOf).map Prod.fst).Perm c.ids ∧
    (∀ k v, (k, v) ∈ rs.filterMap okOf → c.out k = .ok v) ∧
    (∀ k e, (k, e) ∈ rs.filterMap excOf → ∃ s, c.out k = .exc e s) := by
  have hids : (rs.map (·.id)).Perm c.ids := by
    have := hp.map (·.id)
    simpa [Cfg.submitted, Cfg.res, Function.comp_def] using this
  refine ⟨hids.nodup_iff.mpr hnd, (keys_perm rs).trans hids, ?_, ?_⟩
  · intro k v hkv
    simp only [List.mem_filterMap] at hkv
    obtain ⟨r, hr, hro⟩ := hkv
    obtain ⟨id, _, rfl⟩ := mem_submitted (hp.mem_iff.mp hr)
    simp only [okOf, Cfg.res] at hro
    split at hro <;> simp at hro
    obtain ⟨rfl, rfl⟩ := hro
    assumption
  · intro k e hke
    simp only [List.mem_filterMap] at hke
    obtain ⟨r, hr, hro⟩ := hke
    obtain ⟨id, _, rfl⟩ := mem_submitted (hp.mem_iff.mp hr)
    simp only [excOf, Cfg.res] at hro
    split at hro <;> simp at hro
    obtain ⟨rfl, rfl⟩ := hro
    exact ⟨_, by assumption⟩

/-- `invoke_retry`: the outcome is that of the first attempt that is not a network error, if
it comes within `net_retry + 1` calls; otherwise the network error of the last call. -/
theorem invokeRetry_spec (call : Nat → Att) (left a : Nat) :
    (∃ k, k ≤ left ∧ (∀ j, j < k → call (a + j) = .netErr) ∧ call (a + k) ≠ .netErr ∧
        invokeRetry call left a = (call (a + k)).final) ∨
    ((∀ j, j ≤ left → call (a + j) = .netErr) ∧ invokeRetry call left a = .exc netTag true) := by
  induction left generalizing a with
  | zero =>
    by_cases h : call a = .netErr
    · right; exact ⟨fun j hj => by simp at hj; simp [hj, h], by simp [invokeRetry, h, Att.final]⟩
    · left; exact ⟨0, by simp, by simp, by simpa using h, by simp [invokeRetry]⟩
  | succ n ih =>
    by_cases h : call a = .netErr
    · rcases ih (a + 1) with ⟨k, hk, hall, hne, heq⟩ | ⟨hall, heq⟩
      · left
        refine ⟨k + 1, by omega, ?_, ?_, ?_⟩
        · intro j hj
          cases j with
          | zero => simpa using h
          | succ j => have := hall j (by omega); rwa [show a + 1 + j = a + (j + 1) by omega] at this
        · rwa [show a + 1 + k = a + (k + 1) by omega] at hne
        · simp only [invokeRetry, h]; rw [heq]; rw [show a + 1 + k = a + (k + 1) by omega]
      · right
        refine ⟨?_, by simp only [invokeRetry, h]; exact heq⟩
        intro j hj
        cases j with
        | zero => simpa using h
        | succ j => have := hall j (by omega); rwa [show a + 1 + j = a + (j + 1) by omega] at this
    · left
      refine ⟨0, by omega, by simp, by simpa using h, ?_⟩
      simp only [invokeRetry, Nat.add_zero]



end Annet.Pool
