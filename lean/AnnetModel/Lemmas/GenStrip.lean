/-
Helper lemmas for C10, part 7: what `_split_and_strip` guarantees about the first row of a yield.
-/
import AnnetModel.Spec.Gen

namespace Annet.Gen.Lemmas
open Annet Annet.Offside Annet.Gen.Spec

theorem dropWhile_snoc_neg {α : Type} (p : α → Bool) (xs : List α) (c : α) (hc : p c = false) :
    (xs ++ [c]).dropWhile p = xs.dropWhile p ++ [c] := by
  induction xs with
  | nil => simp [List.dropWhile, hc]
  | cons x xs ih =>
    simp only [List.cons_append, List.dropWhile_cons]
    split
    · exact ih
    · rfl

theorem lstrip_head (l : List Char) (c : Char) (h : (lstrip l).head? = some c) : pyIsSpace c = false := by
  induction l with
  | nil => simp [lstrip] at h
  | cons x xs ih =>
    simp only [lstrip, List.dropWhile_cons] at h
    split at h
    · exact ih h
    · rename_i hx
      simp only [List.head?_cons, Option.some.injEq] at h
      subst h
      simpa using hx

/-- a stripped text is empty or starts with a non-whitespace character -/
theorem strip_head (l : List Char) (c : Char) (h : (strip l).head? = some c) : pyIsSpace c = false := by
  unfold strip at h
  cases hm : lstrip l with
  | nil => rw [hm] at h; simp [lstrip] at h
  | cons d m =>
    have hd : pyIsSpace d = false := lstrip_head l d (by rw [hm]; rfl)
    rw [hm] at h
    simp only [List.reverse_cons, lstrip] at h
    rw [dropWhile_snoc_neg pyIsSpace m.reverse d hd] at h
    simp only [List.reverse_append, List.reverse_cons, List.reverse_nil, List.nil_append, List.cons_append,
      List.head?_cons, Option.some.injEq] at h
    rw [← h]; exact hd

theorem splitNl_ne_nil (l : List Char) : splitNl l ≠ [] := by
  cases l with
  | nil => simp [splitNl]
  | cons c cs =>
    rw [splitNl]
    split
    · simp
    · split <;> simp

/-- the first row of `text.split("\n")` starts with the first character of the text -/
theorem splitNl_head (c : Char) (cs : List Char) (hc : c ≠ '\n') :
    ∃ r rest, splitNl (c :: cs) = (c :: r) :: rest := by
  rw [splitNl]
  have : (c == '\n') = false := by simpa using hc
  simp only [this, Bool.false_eq_true, if_false]
  cases h : splitNl cs with
  | nil => exact (splitNl_ne_nil cs h).elim
  | cons l ls => exact ⟨l, ls, rfl⟩

theorem parseIndent_nonspace (r : List Char) (h : ∀ c, r.head? = some c → pyIsSpace c = false) : parseIndent r = 0 := by
  cases r with
  | nil => rfl
  | cons c cs =>
    have hc := h c rfl
    rw [parseIndent]
    split
    · rename_i hb
      simp only [Bool.or_eq_true, beq_iff_eq] at hb
      rcases hb with rfl | rfl <;> simp [pyIsSpace] at hc
    · rfl

/-- the first row `_split_and_strip` returns for a multi-line text has no leading whitespace -/
theorem splitAndStrip_head (text : List Char) (h : text.contains '\n' = true) :
    ∃ r rest, splitAndStrip text = r :: rest ∧ ∀ c, r.head? = some c → pyIsSpace c = false := by
  rw [splitAndStrip, if_pos h]
  generalize hs : strip (joinNl (dedentLines (splitNl text))) = s
  have hh := fun c => strip_head (joinNl (dedentLines (splitNl text))) c
  rw [hs] at hh
  cases s with
  | nil => exact ⟨[], [], by simp [splitNl], by simp⟩
  | cons c cs =>
    have hc := hh c rfl
    have hne : c ≠ '\n' := by
      intro he; subst he; simp [pyIsSpace] at hc
    obtain ⟨r, rest, hr⟩ := splitNl_head c cs hne
    refine ⟨c :: r, rest, hr, ?_⟩
    intro d hd
    simp only [List.head?_cons, Option.some.injEq] at hd
    subst hd; exact hc

/-- If the first line of a yield is significant, it starts at the block's column — for every multi-line yield
(because the dedented text is stripped as a whole) and for every single-line yield that does not start with a
blank or a tab. -/
theorem ownItems_first_column (text : String)
    (h : text.toList.contains '\n' = true ∨ ∀ c, text.toList.head? = some c → pyIsSpace c = false) :
    match ownItems text with
    | .text k _ :: _ => k = 0
    | _ => True := by
  have key : ∃ r rest, splitAndStrip text.toList = r :: rest ∧ ∀ c, r.head? = some c → pyIsSpace c = false := by
    rcases h with h | h
    · exact splitAndStrip_head _ h
    · by_cases hn : text.toList.contains '\n' = true
      · exact splitAndStrip_head _ hn
      · exact ⟨text.toList, [], by rw [splitAndStrip, if_neg hn], h⟩
  obtain ⟨r, rest, hr, hc⟩ := key
  have hp := parseIndent_nonspace r hc
  have hk : ∀ k s, classify comments (String.ofList r) = .text k s → k = 0 := by
    intro k s hcl
    simp only [classify, String.toList_ofList, hp] at hcl
    split at hcl
    · cases hcl
    · split at hcl
      · cases hcl
      · cases hcl; rfl
  simp only [ownItems, hr, List.map_cons]
  cases hcl : classify comments (String.ofList r) with
  | text k s => exact hk k s hcl
  | blank => trivial
  | sectionEnd => trivial

end Annet.Gen.Lemmas
