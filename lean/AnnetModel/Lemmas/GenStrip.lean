/-
Helper lemmas for C10, part 7: what `_split_and_strip` guarantees about the first row of a yield.
-/
import AnnetModel.Spec.Gen

namespace Annet.Gen.Lemmas
open Annet Annet.Offside Annet.Gen.Spec

theorem dropWhile_snoc_neg {α : Type} (p : α → Bool) (xs : List α) (c : α) (hc : p c = false) :
    (xs ++ [c]).dropWhile p = xs.dropWhile p ++ [c] := by
  induction xs with
  | nil => simp [List.dropWhile, hc]
  | cons x xs ih =>
    simp only [List.cons_append, List.dropWhile_cons]
    split
    · exact ih
    · rfl

theorem lstrip_head (l : List Char) (c : Char) (h : (lstrip l).head? = some c) : pyIsSpace c = false := by
  induction l with
  | nil => simp [lstrip] at h
  | cons x xs ih =>
    simp only [lstrip, List.dropWhile_cons] at h
    split at h
    · exact ih h
    · rename_i hx
      simp only [List.head?_cons, Option.some.injEq] at h
      subst h
      simpa using hx

/-- a stripped text is empty or starts with a non-whitespace character -/
theorem strip_head (l : List Char) (c : Char) (h : (strip l).head? = some c) : pyIsSpace c = false := by
  unfold strip at h
  cases hm : lstrip l with
  | nil => rw [hm] at h; simp [lstrip] at h
  | cons d m =>
    have hd : pyIsSpace d = false := lstrip_head l d (by rw [hm]; rfl)
    rw [hm] at h
    simp only [List.reverse_cons, lstrip] at h
    rw [dropWhile_snoc_neg pyIsSpace m.reverse d hd] at h
    simp only [List.reverse_append, List.reverse_cons, List.reverse_nil, List.nil_append, List.cons_append,
      List.head?_cons, Option.some.injEq] at h
    rw [← h]; exact hd

theorem splitNl_ne_nil (l : List Char) : splitNl l ≠ [] := by
  cases l with
  | nil => simp [splitNl]
  | cons c cs =>
    rw [splitNl]
    split
    · simp
    · split <;> simp

/-- the first row of `text.split("\n")` starts with the first character of the text -/
theorem splitNl_head (c : Char) (cs : List Char) (hc : c ≠ '\n') :
    ∃ r rest, splitNl (c :: cs) = (c :: r) :: rest := by
  rw [splitNl]
  have : (c == '\n') = false := by simpa using hc
  simp only [this, Bool.false_eq_true, if_false]
  cases h : splitNl cs with
  | nil => exact (splitNl_ne_nil cs h).elim
  | cons l ls => exact ⟨l, ls, rfl⟩

theorem parseIndent_nonspace (r : List Char) (h : ∀ c, r.head? = some c → pyIsSpace c = false) : parseIndent r = 0 := by
  cases r with
  | nil => rfl
  | cons c cs =>
    have hc := h c rfl
    rw [parseIndent]
    split
    · rename_i hb
      simp only [Bool.or_eq_true, beq_iff_eq] at hb
      rcases hb with rfl | rfl <;> simp [pyIsSpace] at hc
    · rfl

/-- the first row `_split_and_strip` returns has no leading whitespace — for multi-line texts because the dedented
text is stripped as a whole, for single-line texts because the line is stripped (fix e9aec0a) -/
theorem splitAndStrip_head (text : List Char) :
    ∃ r rest, splitAndStrip text = r :: rest ∧ ∀ c, r.head? = some c → pyIsSpace c = false := by
  rw [splitAndStrip]
  split
  · generalize hs : strip (joinNl (dedentLines (splitNl text))) = s
    have hh := fun c => strip_head (joinNl (dedentLines (splitNl text))) c
    rw [hs] at hh
    cases s with
    | nil => exact ⟨[], [], by simp [splitNl], by simp⟩
    | cons c cs =>
      have hc := hh c rfl
      have hne : c ≠ '\n' := by
        intro he; subst he; simp [pyIsSpace] at hc
      obtain ⟨r, rest, hr⟩ := splitNl_head c cs hne
      refine ⟨c :: r, rest, hr, ?_⟩
      intro d hd
      simp only [List.head?_cons, Option.some.injEq] at hd
      subst hd; exact hc
  · exact ⟨strip text, [], rfl, strip_head text⟩

theorem classify_text_indent (r : List Char) (hc : ∀ c, r.head? = some c → pyIsSpace c = false) (k : Nat) (s : String)
    (hcl : classify comments (String.ofList r) = .text k s) : k = 0 := by
  have hp := parseIndent_nonspace r hc
  simp only [classify, String.toList_ofList, hp] at hcl
  split at hcl
  · cases hcl
  · split at hcl
    · cases hcl
    · cases hcl; rfl

/-- If the first line of a yield is significant, it starts at the block's column — for every yield. -/
theorem ownItems_first_column (text : String) :
    ∃ i rest, ownItems text = i :: rest ∧ ∀ k s, i = .text k s → k = 0 := by
  obtain ⟨r, rest, hr, hc⟩ := splitAndStrip_head text.toList
  refine ⟨classify comments (String.ofList r), rest.map fun r => classify comments (String.ofList r), ?_, ?_⟩
  · simp only [ownItems, hr, List.map_cons]
  · intro k s h
    exact classify_text_indent r hc k s h

/-- a single-line yield is one item -/
theorem ownItems_single (text : String) (h : text.toList.contains '\n' = false) :
    ownItems text = [classify comments (String.ofList (strip text.toList))] := by
  have hn : ¬ (text.toList.contains '\n' = true) := by rw [h]; simp
  simp only [ownItems, splitAndStrip, if_neg hn, List.map_cons, List.map_nil]

/-- Every single-line yield — whatever blanks it starts or ends with — meets the well-formedness condition of the
layout theorem, unless it is a `#`-in-column-0 line. -/
theorem ownOk_single (text : String) (h : text.toList.contains '\n' = false) :
    OwnOk (ownItems text) = true ↔ ownItems text ≠ [.sectionEnd] := by
  obtain ⟨i, rest, hi, hk⟩ := ownItems_first_column text
  have hs := ownItems_single text h
  rw [hs] at hi ⊢
  obtain ⟨rfl, rfl⟩ := List.cons.inj hi
  cases hcl : classify comments (String.ofList (strip text.toList)) with
  | blank => simp [OwnOk]
  | sectionEnd => simp [OwnOk]
  | text k s =>
    have := hk k s hcl
    subst this
    simp [OwnOk]

/-- A yield whose first line is significant and that has no `#`-in-column-0 line meets the well-formedness
condition. -/
theorem ownOk_of_first_text (text : String) (hse : (ownItems text).all (· != .sectionEnd) = true)
    (hfirst : (ownItems text).head? ≠ some .blank) : OwnOk (ownItems text) = true := by
  obtain ⟨i, rest, hi, hk⟩ := ownItems_first_column text
  rw [hi] at hse hfirst ⊢
  simp only [List.all_cons, Bool.and_eq_true] at hse
  cases i with
  | blank => simp at hfirst
  | sectionEnd => simp at hse
  | text k s =>
    have := hk k s rfl
    subst this
    simp [OwnOk, hse.2]

end Annet.Gen.Lemmas
