/-
Helper lemmas for C14: every named list an Arista policy row refers to is defined by the matching list generator.
-/
import AnnetModel.Lemmas.RplRefs

namespace Annet.Rpl.Lemmas
open Annet Annet.Rpl.Spec

/-- where a reference in an Arista policy row comes from: a condition of the program -/
def CondRefA (inp : Input) (c : Cond) (r : RefKindA × Str) : Prop :=
  match c.field, c.val with
  | .community, .names l => r.1 = .communityList ∧ (if c.op == .hasAny then r.2 = mangle l else r.2 ∈ l)
  | .largeCommunity, .names l => r.1 = .largeCommunityList ∧ (if c.op == .hasAny then r.2 = mangle l else r.2 ∈ l)
  | .extcommunityRt, .names l => r.1 = .extcommunityList ∧ (if c.op == .hasAny then r.2 = mangle l else r.2 ∈ l)
  | .extcommunitySoo, .names l => r.1 = .extcommunityList ∧ (if c.op == .hasAny then r.2 = mangle l else r.2 ∈ l)
  | .ipPrefix, .pfx names a b => r.1 = .prefixList ∧ ∃ nm ∈ names, ∃ pl, getPrefix inp.plists nm a b = .ok pl ∧ pl.name = r.2
  | .ipv6Prefix, .pfx names a b => r.1 = .prefixList ∧ ∃ nm ∈ names, ∃ pl, getPrefix inp.plists nm a b = .ok pl ∧ pl.name = r.2
  | .asPathFilter, .scalar v => r.1 = .asPathList ∧ r.2 = v
  | _, _ => False

theorem refsA_match_community (rest : List Str) :
    refsOfRowA (s "match" :: s "community" :: rest) = rest.map (RefKindA.communityList, ·) := by
  simp [refsOfRowA, s]
theorem refsA_match_ext (rest : List Str) :
    refsOfRowA (s "match" :: s "extcommunity" :: rest) = rest.map (RefKindA.extcommunityList, ·) := by
  simp [refsOfRowA, s]
theorem refsA_match_large (rest : List Str) :
    refsOfRowA (s "match" :: s "large-community" :: rest) = rest.map (RefKindA.largeCommunityList, ·) := by
  simp [refsOfRowA, s]
theorem refsA_match_pfx4 (n : Str) : refsOfRowA [s "match", s "ip address prefix-list", n] = [(.prefixList, n)] := by
  simp [refsOfRowA, s, namedA]
theorem refsA_match_pfx6 (n : Str) : refsOfRowA [s "match", s "ipv6 address prefix-list", n] = [(.prefixList, n)] := by
  simp [refsOfRowA, s, namedA]

theorem refs_matchCommA (kind : Str) (K : RefKindA) (hK : ∀ rest, refsOfRowA (s "match" :: kind :: rest) = rest.map (K, ·))
    (c : Cond) (l : List Str) (hv : c.val = .names l) (row : List Str) (hrow : row ∈ (matchCommA kind c).1)
    (r : RefKindA × Str) (hr : r ∈ refsOfRowA row) :
    r.1 = K ∧ (if c.op == .hasAny then r.2 = mangle l else r.2 ∈ l) := by
  unfold matchCommA at hrow
  simp only [hv] at hrow
  split at hrow
  · rename_i hop
    simp at hrow; subst hrow
    rw [hK] at hr; simp at hr; subst hr
    simp [hop]
  · rename_i hop
    split at hrow
    · simp at hrow; subst hrow
      rw [hK] at hr
      simp only [List.mem_map] at hr
      obtain ⟨n, hn, rfl⟩ := hr
      simp [hop, hn]
    · simp at hrow

theorem refsA_ifmatch2 (tok : Str) (h1 : (tok == s "community") = false) (h2 : (tok == s "extcommunity") = false)
    (h3 : (tok == s "large-community") = false) (h4 : (tok == s "ip address prefix-list") = false)
    (h5 : (tok == s "ipv6 address prefix-list") = false) :
    refsOfRowA [s "match", tok] = namedA .asPathList (dropPrefix (s "as-path ") tok) := by
  simp [refsOfRowA, s, namedA] at h1 h2 h3 h4 h5 ⊢
  simp [h1, h2, h3, h4, h5]

theorem refsA_match_aspath (v : Str) : refsOfRowA [s "match", s "as-path " ++ v] = [(.asPathList, v)] := by
  rw [refsA_ifmatch2 _ (append_beq_false _ _ _ (by decide)) (append_beq_false _ _ _ (by decide))
    (append_beq_false _ _ _ (by decide)) (append_beq_false _ _ _ (by decide)) (append_beq_false _ _ _ (by decide)),
    dropPrefix_self]
  rfl

theorem refsA_match_other (cmd v : Str) (h1 : (s "community").take cmd.length ≠ cmd)
    (h2 : (s "extcommunity").take cmd.length ≠ cmd) (h3 : (s "large-community").take cmd.length ≠ cmd)
    (h4 : (s "ip address prefix-list").take cmd.length ≠ cmd) (h5 : (s "ipv6 address prefix-list").take cmd.length ≠ cmd)
    (hl : cmd.length ≤ (s "as-path ").length) (h6 : (s "as-path ").take cmd.length ≠ cmd) :
    refsOfRowA [s "match", cmd ++ v] = [] := by
  rw [refsA_ifmatch2 _ (append_beq_false _ _ _ h1) (append_beq_false _ _ _ h2) (append_beq_false _ _ _ h3)
    (append_beq_false _ _ _ h4) (append_beq_false _ _ _ h5), dropPrefix_other _ _ _ hl h6]
  rfl

theorem dropPrefix_other' (pre x v : Str) (hl : pre.length ≤ x.length) (h : x.take pre.length ≠ pre) :
    dropPrefix pre (x ++ v) = none := by
  unfold dropPrefix
  have : pre.isPrefixOf (x ++ v) = false := by
    apply Bool.eq_false_iff.mpr
    intro hp
    rw [List.isPrefixOf_iff_prefix] at hp
    obtain ⟨t, ht⟩ := hp
    apply h
    have := congrArg (List.take pre.length) ht
    simp at this
    rw [List.take_append_of_le_length hl] at this
    exact this.symm
  simp [this]

theorem refsA_match_other' (cmd v : Str) (h1 : (s "community").take cmd.length ≠ cmd)
    (h2 : (s "extcommunity").take cmd.length ≠ cmd) (h3 : (s "large-community").take cmd.length ≠ cmd)
    (h4 : (s "ip address prefix-list").take cmd.length ≠ cmd) (h5 : (s "ipv6 address prefix-list").take cmd.length ≠ cmd)
    (hl : (s "as-path ").length ≤ cmd.length) (h6 : cmd.take (s "as-path ").length ≠ s "as-path ") :
    refsOfRowA [s "match", cmd ++ v] = [] := by
  rw [refsA_ifmatch2 _ (append_beq_false _ _ _ h1) (append_beq_false _ _ _ h2) (append_beq_false _ _ _ h3)
    (append_beq_false _ _ _ h4) (append_beq_false _ _ _ h5), dropPrefix_other' _ _ _ hl h6]
  rfl

theorem refsA_aspathlen (n : Str) (x : Str) (rest : List Str) (h1 : (n == s "community") = false)
    (h2 : (n == s "extcommunity") = false) (h3 : (n == s "large-community") = false)
    (h4 : (n == s "ip address prefix-list") = false) (h5 : (n == s "ipv6 address prefix-list") = false) :
    refsOfRowA (s "match" :: n :: x :: rest) = [] := by
  simp [refsOfRowA, s] at h1 h2 h3 h4 h5 ⊢
  simp [h1, h2, h3, h4, h5]

theorem refsA_asPathLenA (c : Cond) (row : List Str) (hrow : row ∈ (asPathLenA c).1) : refsOfRowA row = [] := by
  unfold asPathLenA at hrow
  split at hrow <;> simp at hrow
  · subst hrow; exact refsA_aspathlen _ _ _ (by decide) (by decide) (by decide) (by decide) (by decide)
  · subst hrow; exact refsA_aspathlen _ _ _ (by decide) (by decide) (by decide) (by decide) (by decide)
  · subst hrow; exact refsA_aspathlen _ _ _ (by decide) (by decide) (by decide) (by decide) (by decide)
  · rcases hrow with rfl | rfl <;>
      exact refsA_aspathlen _ _ _ (by decide) (by decide) (by decide) (by decide) (by decide)

theorem refsA_pfxRows (pls : List PrefixList) (mk : Str → List Str) (hmk : ∀ n, refsOfRowA (mk n) = [(.prefixList, n)])
    (a b : Option Str) (names : List Str) (row : List Str) (hrow : row ∈ (pfxRows pls mk a b names).1)
    (r : RefKindA × Str) (hr : r ∈ refsOfRowA row) :
    r.1 = .prefixList ∧ ∃ nm ∈ names, ∃ pl, getPrefix pls nm a b = .ok pl ∧ pl.name = r.2 := by
  induction names with
  | nil => simp [pfxRows] at hrow
  | cons n ns ih =>
    unfold pfxRows at hrow
    split at hrow
    · simp at hrow
    · rename_i pl hpl
      rcases seq_rows_mem _ _ _ hrow with h | h
      · simp at h; subst h
        rw [hmk] at hr; simp at hr; subst hr
        exact ⟨rfl, n, by simp, pl, hpl, rfl⟩
      · obtain ⟨h1, nm, hnm, h2⟩ := ih h
        exact ⟨h1, nm, by simp [hnm], h2⟩

theorem refs_matchA (inp : Input) (c : Cond) (row : List Str) (hrow : row ∈ (matchA inp c).1)
    (r : RefKindA × Str) (hr : r ∈ refsOfRowA row) : CondRefA inp c r := by
  unfold matchA at hrow
  unfold CondRefA
  cases hf : c.field <;> cases hv : c.val <;> simp only [hf, hv] at hrow ⊢
  all_goals (try (simp [matchCommA, hv] at hrow; done))
  case community.names l => exact refs_matchCommA _ _ refsA_match_community c l hv row hrow r hr
  case largeCommunity.names l => exact refs_matchCommA _ _ refsA_match_large c l hv row hrow r hr
  case extcommunityRt.names l => exact refs_matchCommA _ _ refsA_match_ext c l hv row hrow r hr
  case extcommunitySoo.names l => exact refs_matchCommA _ _ refsA_match_ext c l hv row hrow r hr
  case ipPrefix.pfx names a b =>
    exact refsA_pfxRows _ _ refsA_match_pfx4 a b names row hrow r hr
  case ipv6Prefix.pfx names a b =>
    exact refsA_pfxRows _ _ refsA_match_pfx6 a b names row hrow r hr
  case asPathLength.names | asPathLength.pfx | asPathLength.pair | asPathLength.scalar =>
    rw [refsA_asPathLenA c row hrow] at hr; cases hr
  case asPathFilter.scalar v =>
    split at hrow
    · simp at hrow
    · simp [aristaMatchCmd] at hrow; subst hrow
      rw [refsA_match_aspath] at hr
      simp at hr; subst hr; exact ⟨rfl, rfl⟩
  case metric.scalar v =>
    split at hrow
    · simp at hrow
    · simp [aristaMatchCmd] at hrow; subst hrow
      rw [refsA_match_other _ _ (by decide) (by decide) (by decide) (by decide) (by decide) (by decide) (by decide)] at hr
      cases hr
  case protocol.scalar v =>
    split at hrow
    · simp at hrow
    · simp [aristaMatchCmd] at hrow; subst hrow
      rw [refsA_match_other' _ _ (by decide) (by decide) (by decide) (by decide) (by decide) (by decide) (by decide)] at hr
      cases hr
  case interface.scalar v =>
    split at hrow
    · simp at hrow
    · simp [aristaMatchCmd] at hrow; subst hrow
      rw [refsA_match_other' _ _ (by decide) (by decide) (by decide) (by decide) (by decide) (by decide) (by decide)] at hr
      cases hr
  all_goals (
    (repeat' split at hrow) <;> (try (simp at hrow; done)) <;> (rename_i heq; simp [aristaMatchCmd] at heq))



theorem stripTrail_concat (kw : Str) (l : List Str) : stripTrail kw (l ++ [kw]) = l := by
  simp [stripTrail]

theorem stripTrail_sub (kw : Str) (l : List Str) : ∀ x ∈ stripTrail kw l, x ∈ l := by
  intro x hx
  unfold stripTrail at hx
  split at hx
  · exact List.dropLast_subset _ hx
  · exact hx

theorem refsA_set_comm (rest : List Str) :
    refsOfRowA (s "set" :: s "community community-list" :: rest) =
      (stripTrail (s "additive") rest).map (RefKindA.communityList, ·) := by
  simp [refsOfRowA, s]
theorem refsA_set_large (rest : List Str) :
    refsOfRowA (s "set" :: s "large-community large-community-list" :: rest) =
      (stripTrail (s "additive") rest).map (RefKindA.largeCommunityList, ·) := by
  simp [refsOfRowA, s]
theorem refsA_setlarge_del (rest : List Str) :
    refsOfRowA (s "set large-community large-community-list" :: rest) =
      (stripTrail (s "delete") rest).map (RefKindA.largeCommunityList, ·) := by
  simp [refsOfRowA, s]
theorem refsA_set_other (n : Str) (rest : List Str) (h1 : (n == s "community community-list") = false)
    (h2 : (n == s "large-community large-community-list") = false) : refsOfRowA (s "set" :: n :: rest) = [] := by
  simp [refsOfRowA, s] at h1 h2 ⊢
  simp [h1, h2]
theorem refsA_set_cmd (cmd v : Str) (rest : List Str) (h1 : (s "community community-list").take cmd.length ≠ cmd)
    (h2 : (s "large-community large-community-list").take cmd.length ≠ cmd) :
    refsOfRowA (s "set" :: (cmd ++ v) :: rest) = [] :=
  refsA_set_other _ _ (append_beq_false _ _ _ h1) (append_beq_false _ _ _ h2)
theorem refsA_set_community (rest : List Str) : refsOfRowA (s "set community" :: rest) = [] := by
  simp [refsOfRowA, s]
theorem refsA_set_extcommunity (rest : List Str) : refsOfRowA (s "set extcommunity" :: rest) = [] := by
  simp [refsOfRowA, s]
theorem refsA_continue : refsOfRowA [s "continue"] = [] := by
  simp [refsOfRowA, s]

def NoRefsA (o : Out (List Str)) : Prop := ∀ row ∈ o.1, refsOfRowA row = []

theorem norefsA_fail (e : Err) : NoRefsA (fail e) := by intro r h; simp at h
theorem norefsA_emit_nil : NoRefsA (emit []) := by intro r h; simp at h
theorem norefsA_seq (a b : Out (List Str)) (ha : NoRefsA a) (hb : NoRefsA b) : NoRefsA (a.seq b) := by
  intro r h
  rcases seq_rows_mem _ _ _ h with h | h
  · exact ha r h
  · exact hb r h
theorem norefsA_raiseIf (b : Bool) (e : Err) : NoRefsA (raiseIf b e) := by
  cases b
  · exact norefsA_emit_nil
  · exact norefsA_fail e
theorem norefsA_emit (rows : List (List Str)) (h : ∀ r ∈ rows, refsOfRowA r = []) : NoRefsA (emit rows) := by
  intro r hr; exact h r (by simpa using hr)
theorem norefsA_emit_map {β : Type} (f : β → List Str) (l : List β) (h : ∀ x, refsOfRowA (f x) = []) :
    NoRefsA (emit (l.map f)) := by
  intro r hr
  simp only [emit_fst, List.mem_map] at hr
  obtain ⟨x, _, rfl⟩ := hr
  exact h x

macro "norefsA_row" : tactic => `(tactic| (
  (try simp only [List.cons_append, List.nil_append])
  first
    | exact refsA_set_community _
    | exact refsA_set_extcommunity _
    | exact refsA_set_other _ _ (by decide) (by decide)
    | exact refsA_set_cmd _ _ _ (by decide) (by decide)))

macro "norefsA_parts" : tactic => `(tactic| (
  repeat' (first
    | apply norefsA_seq
    | exact norefsA_fail _
    | exact norefsA_emit_nil
    | exact norefsA_raiseIf _ _
    | (apply norefsA_emit_map; intro x; norefsA_row)
    | (apply norefsA_emit; intro r hr; simp only [List.mem_singleton] at hr; subst hr; norefsA_row)
    | split)))

theorem norefsA_thenExtRtSooA1 (cl : List CommList) (c : CommAct) :
    NoRefsA (thenExtRtSooA cl (s "rt ") [s "set extcommunity"] c) := by
  unfold thenExtRtSooA; norefsA_parts
theorem norefsA_thenExtRtSooA2 (cl : List CommList) (c : CommAct) :
    NoRefsA (thenExtRtSooA cl (s "soo ") [s "set", s "extcommunity"] c) := by
  unfold thenExtRtSooA; norefsA_parts
theorem norefsA_thenExtA (cl : List CommList) (c : CommAct) : NoRefsA (thenExtA cl c) := by
  unfold thenExtA; norefsA_parts
theorem norefsA_thenAsPathA (p : AsPathAct) : NoRefsA (thenAsPathA p) := by
  unfold thenAsPathA; norefsA_parts
theorem norefsA_thenNextHopRowsA (n : NextHop) : NoRefsA (thenNextHopRowsA n) := by
  unfold thenNextHopRowsA; norefsA_parts



/-- where a reference in an Arista policy row comes from: an action of the program -/
def ActRefA (a : Action) (r : RefKindA × Str) : Prop :=
  match a.field, a.val with
  | .community, .comm c => r.1 = .communityList ∧ (r.2 ∈ c.replaced.getD [] ∨ r.2 ∈ c.added)
  | .largeCommunity, .comm c => r.1 = .largeCommunityList ∧ r.2 ∈ CommAct.names c
  | _, _ => False

theorem refs_thenCommunityA (cl : List CommList) (c : CommAct) (row : List Str) (hrow : row ∈ (thenCommunityA cl c).1)
    (r : RefKindA × Str) (hr : r ∈ refsOfRowA row) :
    r.1 = .communityList ∧ (r.2 ∈ c.replaced.getD [] ∨ r.2 ∈ c.added) := by
  unfold thenCommunityA at hrow
  rcases seq_rows_mem _ _ _ hrow with h | h
  · -- replaced
    cases hrp : c.replaced with
    | none => simp [hrp] at h
    | some rp =>
      simp only [hrp] at h
      split at h
      · simp at h
      · split at h
        · simp at h; subst h
          rw [refsA_set_comm] at hr
          simp only [List.mem_map] at hr
          obtain ⟨n, hn, rfl⟩ := hr
          exact ⟨rfl, .inl (by simpa using stripTrail_sub _ _ n hn)⟩
        · simp at h; subst h
          rw [refsA_set_other _ _ (by decide) (by decide)] at hr; cases hr
  · rcases seq_rows_mem _ _ _ h with h | h
    · split at h
      · simp at h; subst h
        rw [refsA_set_comm, stripTrail_concat] at hr
        simp only [List.mem_map] at hr
        obtain ⟨n, hn, rfl⟩ := hr
        exact ⟨rfl, .inr hn⟩
      · simp at h
    · have : NoRefsA (if (!c.removed.isEmpty) = true then
          match membersOf cl c.removed with
          | Except.error e => fail e
          | Except.ok ms => emit [[s "set community"] ++ ms.map aristaWellKnown ++ [s "delete"]]
        else emit []) := by norefsA_parts
      rw [this row h] at hr; cases hr

theorem refs_largeReplacedRowsA (ns : List Str) (b : Bool) (row : List Str) (hrow : row ∈ largeReplacedRowsA ns b)
    (r : RefKindA × Str) (hr : r ∈ refsOfRowA row) : r.1 = .largeCommunityList ∧ r.2 ∈ ns := by
  induction ns generalizing b with
  | nil => simp [largeReplacedRowsA] at hrow
  | cons n ns ih =>
    simp only [largeReplacedRowsA, List.mem_cons] at hrow
    rcases hrow with rfl | hrow
    · split at hr
      · rw [refsA_set_large] at hr
        simp only [List.mem_map] at hr
        obtain ⟨x, hx, rfl⟩ := hr
        have := stripTrail_sub _ _ x hx
        simp at this; subst this
        exact ⟨rfl, by simp⟩
      · rw [show [s "set", s "large-community large-community-list", n, s "additive"] =
            s "set" :: s "large-community large-community-list" :: ([n] ++ [s "additive"]) from rfl,
          refsA_set_large, stripTrail_concat] at hr
        simp at hr; subst hr
        exact ⟨rfl, by simp⟩
    · obtain ⟨h1, h2⟩ := ih _ hrow
      exact ⟨h1, by simp [h2]⟩

theorem refs_thenLargeA (c : CommAct) (row : List Str) (hrow : row ∈ (thenLargeA c).1)
    (r : RefKindA × Str) (hr : r ∈ refsOfRowA row) : r.1 = .largeCommunityList ∧ r.2 ∈ CommAct.names c := by
  unfold thenLargeA at hrow
  rcases seq_rows_mem _ _ _ hrow with h | h
  · cases hrp : c.replaced with
    | none => simp [hrp] at h
    | some rp =>
      simp only [hrp] at h
      split at h
      · simp at h
      · simp only [emit_fst, List.mem_append] at h
        rcases h with h | h
        · split at h
          · simp at h; subst h
            rw [refsA_set_other _ _ (by decide) (by decide)] at hr; cases hr
          · simp at h
        · obtain ⟨h1, h2⟩ := refs_largeReplacedRowsA rp true row h r hr
          exact ⟨h1, by simp [CommAct.names, hrp, h2]⟩
  · rcases seq_rows_mem _ _ _ h with h | h
    · split at h
      · simp at h; subst h
        rw [refsA_set_large, stripTrail_concat] at hr
        simp only [List.mem_map] at hr
        obtain ⟨n, hn, rfl⟩ := hr
        exact ⟨rfl, by simp [CommAct.names, hn]⟩
      · simp at h
    · split at h
      · simp at h; subst h
        rw [refsA_setlarge_del, stripTrail_concat] at hr
        simp only [List.mem_map] at hr
        obtain ⟨n, hn, rfl⟩ := hr
        exact ⟨rfl, by simp [CommAct.names, hn]⟩
      · simp at h

theorem refs_thenA (cl : List CommList) (a : Action) (row : List Str) (hrow : row ∈ (thenA cl a).1)
    (r : RefKindA × Str) (hr : r ∈ refsOfRowA row) : ActRefA a r := by
  unfold thenA at hrow
  unfold ActRefA
  cases hf : a.field <;> cases hv : a.val <;> simp only [hf, hv] at hrow ⊢
  all_goals (try (simp at hrow; done))
  case community.comm c => exact refs_thenCommunityA cl c row hrow r hr
  case largeCommunity.comm c => exact refs_thenLargeA c row hrow r hr
  case extcommunity.comm c => rw [norefsA_thenExtA cl c row hrow] at hr; cases hr
  case extcommunityRt.comm c => rw [norefsA_thenExtRtSooA1 cl c row hrow] at hr; cases hr
  case extcommunitySoo.comm c => rw [norefsA_thenExtRtSooA2 cl c row hrow] at hr; cases hr
  case asPath.asPath p => rw [norefsA_thenAsPathA p row hrow] at hr; cases hr
  case nextHop.nextHop n => rw [norefsA_thenNextHopRowsA n row hrow] at hr; cases hr
  all_goals (
    simp only [scalarOf] at hrow
    (repeat' split at hrow) <;> (try (simp at hrow; done)) <;> (try (rename_i heq; simp [aristaThenCmd] at heq; done))
    all_goals (
      (try (rename_i heq; simp [aristaThenCmd] at heq; subst heq))
      simp at hrow; subst hrow
      rw [refsA_set_cmd _ _ _ (by decide) (by decide)] at hr; cases hr))


/-- every reference of the Arista policy stream comes from a condition or an action of the program -/
theorem refsA_origin (inp : Input) (r : RefKindA × Str) (h : r ∈ refsA (runPolicyA inp).1) :
    ∃ p ∈ inp.policies, ∃ st ∈ p.stmts, (∃ c ∈ st.conds, CondRefA inp c r) ∨ (∃ a ∈ st.acts, ActRefA a r) := by
  unfold refsA at h
  simp only [List.mem_flatMap, List.mem_filter] at h
  obtain ⟨l, ⟨hl, hpath⟩, hr⟩ := h
  unfold runPolicyA at hl
  obtain ⟨o, ho, hlo⟩ := seqAll_rows_mem _ _ hl
  simp only [List.mem_flatMap, List.mem_map] at ho
  obtain ⟨p, hp, st, hst, rfl⟩ := ho
  refine ⟨p, hp, st, hst, ?_⟩
  unfold statementA at hlo
  split at hlo
  · simp at hlo
  · split at hlo
    · simp at hlo
    · rw [inBlock_eq] at hlo
      simp only [List.mem_cons, List.mem_map] at hlo
      rcases hlo with rfl | ⟨toks, htoks, rfl⟩
      · simp at hpath
      · simp only at hr
        rcases seq_rows_mem _ _ _ htoks with h1 | h1
        · obtain ⟨o, ho, hro⟩ := seqAll_rows_mem _ _ h1
          simp only [List.mem_map] at ho
          obtain ⟨c, hc, rfl⟩ := ho
          exact .inl ⟨c, hc, refs_matchA inp c toks hro r hr⟩
        · rcases seq_rows_mem _ _ _ h1 with h2 | h2
          · obtain ⟨o, ho, hro⟩ := seqAll_rows_mem _ _ h2
            simp only [List.mem_map] at ho
            obtain ⟨a, ha, rfl⟩ := ho
            exact .inr ⟨a, ha, refs_thenA _ a toks hro r hr⟩
          · split at h2
            · simp at h2; subst h2
              rw [refsA_continue] at hr; cases hr
            · simp at h2



/-- the name lists a condition / an action assigns as keys of `used_communities` (community.py:56-91) -/
def condKeys (c : Cond) : List (List Str) :=
  match c.val with
  | .names ns => if c.op == .hasAny && ns.length > 1 then [ns] else ns.map ([·])
  | _ => []

def actKeys (a : Action) : List (List Str) :=
  match a.val with
  | .comm c => (CommAct.names c).map ([·])
  | _ => []

def keyLists (inp : Input) : List (List Str) :=
  (inp.policies.flatMap (·.stmts)).flatMap fun st => (commConds st).flatMap condKeys ++ (commActs st).flatMap actKeys

/-- every entry is `mangle ns ↦ [communities_dict[n] for n in ns]` for one of the allowed name lists -/
def DictInv (cl : List CommList) (KL : List Str → Prop) (d : UnitedDict) : Prop :=
  ∀ e ∈ d, ∃ ns, KL ns ∧ ns ≠ [] ∧ e.1 = mangle ns ∧ lookupAll cl ns = .ok e.2

def HasKey (d : UnitedDict) (k : Str) : Prop := ∃ e ∈ d, e.1 = k

theorem mangle_single (n : Str) : mangle [n] = n := rfl

theorem hasKey_assocSet_self (d : UnitedDict) (k : Str) (v : List CommList) : HasKey (assocSet d k v) k := by
  unfold assocSet
  split
  · rename_i h
    simp only [List.any_eq_true] at h
    obtain ⟨e, he, hek⟩ := h
    exact ⟨(k, v), by simp only [List.mem_map]; exact ⟨e, he, by simp [hek]⟩, rfl⟩
  · exact ⟨(k, v), by simp, rfl⟩

theorem hasKey_assocSet_mono (d : UnitedDict) (k : Str) (v : List CommList) (k' : Str) (h : HasKey d k') :
    HasKey (assocSet d k v) k' := by
  obtain ⟨e, he, rfl⟩ := h
  unfold assocSet
  split
  · by_cases hek : (e.1 == k) = true
    · exact ⟨(k, v), by simp only [List.mem_map]; exact ⟨e, he, by simp [hek]⟩, by simpa using (eq_comm.mp (by simpa using hek))⟩
    · exact ⟨e, by simp only [List.mem_map]; exact ⟨e, he, by simp [hek]⟩, rfl⟩
  · exact ⟨e, by simp [he], rfl⟩

theorem dictInv_assocSet (cl : List CommList) (KL : List Str → Prop) (d : UnitedDict) (ns : List Str) (v : List CommList)
    (hd : DictInv cl KL d) (hk : KL ns) (hne : ns ≠ []) (hl : lookupAll cl ns = .ok v) :
    DictInv cl KL (assocSet d (mangle ns) v) := by
  intro e he
  unfold assocSet at he
  split at he
  · simp only [List.mem_map] at he
    obtain ⟨e', he', rfl⟩ := he
    split
    · exact ⟨ns, hk, hne, rfl, hl⟩
    · exact hd e' he'
  · simp only [List.mem_append, List.mem_singleton] at he
    rcases he with he | rfl
    · exact hd e he
    · exact ⟨ns, hk, hne, rfl, hl⟩

theorem setSingles_inv (cl : List CommList) (KL : List Str → Prop) (ns : List Str) :
    ∀ (d d' : UnitedDict), setSingles cl ns d = .ok d' → DictInv cl KL d → (∀ n ∈ ns, KL [n]) → DictInv cl KL d' := by
  induction ns with
  | nil =>
    intro d d' h hd _
    simp [setSingles] at h; subst h
    exact hd
  | cons n ns ih =>
    intro d d' h hd hkl
    unfold setSingles at h
    split at h
    · cases h
    · rename_i c hc
      have hl : lookupAll cl [n] = .ok [c] := by simp [lookupAll, hc]
      have hd1 := dictInv_assocSet cl KL d [n] [c] hd (hkl n (by simp)) (by simp) hl
      rw [mangle_single] at hd1
      exact ih _ _ h hd1 (fun m hm => hkl m (by simp [hm]))

theorem setSingles_keys (cl : List CommList) (ns : List Str) :
    ∀ (d d' : UnitedDict), setSingles cl ns d = .ok d' →
      (∀ k, HasKey d k → HasKey d' k) ∧ (∀ n ∈ ns, HasKey d' n) := by
  induction ns with
  | nil =>
    intro d d' h
    simp [setSingles] at h; subst h
    exact ⟨fun k hk => hk, by simp⟩
  | cons n ns ih =>
    intro d d' h
    unfold setSingles at h
    split at h
    · cases h
    · rename_i c hc
      obtain ⟨i2, i3⟩ := ih _ _ h
      refine ⟨fun k hk => i2 k (hasKey_assocSet_mono d n [c] k hk), ?_⟩
      intro m hm
      simp only [List.mem_cons] at hm
      rcases hm with rfl | hm
      · exact i2 _ (hasKey_assocSet_self d _ [c])
      · exact i3 m hm



/-- what processing one item does to the dictionary -/
structure Step (cl : List CommList) (KL : List Str → Prop) (keys : List (List Str)) (d d' : UnitedDict) : Prop where
  inv : DictInv cl KL d → DictInv cl KL d'
  mono : ∀ k, HasKey d k → HasKey d' k
  est : ∀ ns ∈ keys, HasKey d' (mangle ns)

theorem unitedCond_step (cl : List CommList) (KL : List Str → Prop) (c : Cond) (hkl : ∀ ns ∈ condKeys c, KL ns)
    (d d' : UnitedDict) (h : unitedCond cl c d = .ok d') : Step cl KL (condKeys c) d d' := by
  unfold unitedCond at h
  unfold condKeys at hkl ⊢
  cases hv : c.val with
  | names ns =>
    simp only [hv] at h hkl ⊢
    by_cases hany : (c.op == .hasAny && decide (ns.length > 1)) = true
    · rw [if_pos hany] at h hkl ⊢
      cases hl : lookupAll cl ns with
      | error e => simp [hl] at h
      | ok us =>
        simp only [hl] at h
        cases us with
        | nil => simp at h
        | cons u us =>
          simp only at h
          split at h
          · cases h
          · split at h
            · cases h
            · cases h
              have hne : ns ≠ [] := by
                intro h0; subst h0; simp at hany
              exact ⟨fun hd => dictInv_assocSet cl KL d ns _ hd (hkl ns (by simp)) hne hl,
                fun k hk => hasKey_assocSet_mono _ _ _ k hk,
                fun ns' hns' => by simp at hns'; subst hns'; exact hasKey_assocSet_self _ _ _⟩
    · rw [if_neg hany] at h hkl ⊢
      have hkl' : ∀ n ∈ ns, KL [n] := fun n hn => hkl [n] (by simp [hn])
      obtain ⟨k1, k2⟩ := setSingles_keys cl ns d d' h
      refine ⟨fun hd => setSingles_inv cl KL ns d d' h hd hkl', k1, ?_⟩
      intro ns' hns'
      simp only [List.mem_map] at hns'
      obtain ⟨n, hn, rfl⟩ := hns'
      rw [mangle_single]; exact k2 n hn
  | pfx a b c' => simp [hv] at h
  | pair a b => simp [hv] at h
  | scalar v => simp [hv] at h



theorem step_trans {cl : List CommList} {KL : List Str → Prop} {k1 k2 : List (List Str)} {d d1 d2 : UnitedDict}
    (h1 : Step cl KL k1 d d1) (h2 : Step cl KL k2 d1 d2) : Step cl KL (k1 ++ k2) d d2 :=
  ⟨fun hd => h2.inv (h1.inv hd), fun k hk => h2.mono k (h1.mono k hk), fun ns hns => by
    simp only [List.mem_append] at hns
    rcases hns with h | h
    · exact h2.mono _ (h1.est ns h)
    · exact h2.est ns h⟩

theorem step_refl (cl : List CommList) (KL : List Str → Prop) (d : UnitedDict) : Step cl KL [] d d :=
  ⟨fun hd => hd, fun _ hk => hk, fun ns hns => by cases hns⟩

theorem unitedAct_step (cl : List CommList) (KL : List Str → Prop) (a : Action) (hkl : ∀ ns ∈ actKeys a, KL ns)
    (d d' : UnitedDict) (h : unitedAct cl a d = .ok d') : Step cl KL (actKeys a) d d' := by
  unfold unitedAct at h
  unfold actKeys at hkl ⊢
  cases hv : a.val with
  | comm c =>
    simp only [hv] at h hkl ⊢
    split at h
    · cases h
    · rename_i d1 h1
      split at h
      · cases h
      · rename_i d2 h2
        have hk : ∀ n ∈ CommAct.names c, KL [n] := fun n hn => hkl [n] (by simp [hn])
        have hk1 : ∀ n ∈ c.replaced.getD [], KL [n] := fun n hn => hk n (by simp [CommAct.names, hn])
        have hk2 : ∀ n ∈ c.added, KL [n] := fun n hn => hk n (by simp [CommAct.names, hn])
        have hk3 : ∀ n ∈ c.removed, KL [n] := fun n hn => hk n (by simp [CommAct.names, hn])
        obtain ⟨m1, e1⟩ := setSingles_keys cl _ _ _ h1
        obtain ⟨m2, e2⟩ := setSingles_keys cl _ _ _ h2
        obtain ⟨m3, e3⟩ := setSingles_keys cl _ _ _ h
        refine ⟨fun hd => setSingles_inv cl KL _ _ _ h (setSingles_inv cl KL _ _ _ h2
          (setSingles_inv cl KL _ _ _ h1 hd hk1) hk2) hk3, fun k hk => m3 k (m2 k (m1 k hk)), ?_⟩
        intro ns hns
        simp only [List.mem_map] at hns
        obtain ⟨n, hn, rfl⟩ := hns
        rw [mangle_single]
        simp only [CommAct.names, List.mem_append] at hn
        rcases hn with (hn | hn) | hn
        · exact m3 _ (m2 _ (e1 n hn))
        · exact m3 _ (e2 n hn)
        · exact e3 n hn
  | asPath p => simp [hv] at h
  | nextHop n => simp [hv] at h
  | scalar v => simp [hv] at h

/-- folding items whose processing is a `Step` -/
theorem foldExcept_step {α : Type} (cl : List CommList) (KL : List Str → Prop) (f : α → UnitedDict → Except Err UnitedDict)
    (keys : α → List (List Str)) :
    ∀ (l : List α), (∀ x ∈ l, ∀ d d', f x d = .ok d' → Step cl KL (keys x) d d') →
      ∀ (d d' : UnitedDict), foldExcept f l d = .ok d' → Step cl KL (l.flatMap keys) d d' := by
  intro l
  induction l with
  | nil => intro _ d d' h; simp [foldExcept] at h; subst h; exact step_refl cl KL d
  | cons x xs ih =>
    intro hf d d' h
    unfold foldExcept at h
    split at h
    · cases h
    · rename_i d1 h1
      have s1 := hf x (by simp) d d1 h1
      have s2 := ih (fun y hy => hf y (by simp [hy])) d1 d' h
      simpa using step_trans s1 s2



def stmtKeys (st : Stmt) : List (List Str) := (commConds st).flatMap condKeys ++ (commActs st).flatMap actKeys

theorem unitedStmt_step (cl : List CommList) (KL : List Str → Prop) (st : Stmt) (hkl : ∀ ns ∈ stmtKeys st, KL ns)
    (d d' : UnitedDict) (h : unitedStmt cl st d = .ok d') : Step cl KL (stmtKeys st) d d' := by
  unfold unitedStmt at h
  split at h
  · cases h
  · rename_i d1 h1
    have s1 : Step cl KL ((commConds st).flatMap condKeys) d d1 := by
      have := foldExcept_step cl KL (fun f d => foldExcept (unitedCond cl) (st.conds.filter (·.field == f)) d)
        (fun f => (st.conds.filter (·.field == f)).flatMap condKeys) commMatchFields (by
          intro f hf d d' hfd
          exact foldExcept_step cl KL (unitedCond cl) condKeys _ (by
            intro c hc d d' hcd
            exact unitedCond_step cl KL c (fun ns hns => hkl ns (by
              unfold stmtKeys commConds
              simp only [List.mem_append, List.mem_flatMap]
              exact .inl ⟨c, ⟨f, hf, hc⟩, hns⟩)) d d' hcd) d d' hfd) d d1 h1
      simpa [commConds, List.flatMap_assoc] using this
    have s2 : Step cl KL ((commActs st).flatMap actKeys) d1 d' := by
      have := foldExcept_step cl KL (fun f d => foldExcept (unitedAct cl) (st.acts.filter (·.field == f)) d)
        (fun f => (st.acts.filter (·.field == f)).flatMap actKeys) commThenFields (by
          intro f hf d d' hfd
          exact foldExcept_step cl KL (unitedAct cl) actKeys _ (by
            intro a ha d d' had
            exact unitedAct_step cl KL a (fun ns hns => hkl ns (by
              unfold stmtKeys commActs
              simp only [List.mem_append, List.mem_flatMap]
              exact .inr ⟨a, ⟨f, hf, ha⟩, hns⟩)) d d' had) d d' hfd) d1 d' h
      simpa [commActs, List.flatMap_assoc] using this
    exact step_trans s1 s2

/-- `get_used_united_community_lists`: every entry is `mangle ns ↦ lookups of ns` for a key list of the program, and
every key list of the program has its entry -/
theorem usedUnited_spec (inp : Input) (ud : UnitedDict) (h : usedUnited inp = .ok ud) :
    DictInv inp.clists (· ∈ keyLists inp) ud ∧ ∀ ns ∈ keyLists inp, HasKey ud (mangle ns) := by
  unfold usedUnited at h
  split at h
  · cases h
  · rename_i d hd
    cases h
    have st := foldExcept_step inp.clists (· ∈ keyLists inp) (unitedStmt inp.clists) stmtKeys
      (inp.policies.flatMap (·.stmts)) (by
        intro s hs d d' hsd
        exact unitedStmt_step inp.clists _ s (fun ns hns => by
          unfold keyLists
          exact List.mem_flatMap.mpr ⟨s, hs, hns⟩) d d' hsd) [] d hd
    have hinv : DictInv inp.clists (· ∈ keyLists inp) d := st.inv (by intro e he; cases he)
    have hkeys : ∀ ns ∈ keyLists inp, HasKey d (mangle ns) := fun ns hns => st.est ns hns
    -- sorting keeps the entries
    have key : ∀ (l acc : UnitedDict) (e : Str × List CommList),
        e ∈ l.foldl (fun acc e => insertByKey e acc) acc ↔ e ∈ acc ∨ e ∈ l := by
      intro l
      induction l with
      | nil => intro acc e; simp
      | cons x xs ih =>
        intro acc e
        rw [List.foldl_cons, ih, mem_insertByKey]
        simp only [List.mem_cons]
        constructor
        · rintro ((h | h) | h) <;> simp [h]
        · rintro (h | h | h) <;> simp [h]
    constructor
    · intro e he
      rw [key] at he
      rcases he with he | he
      · cases he
      · exact hinv e he
    · intro ns hns
      obtain ⟨e, he, hek⟩ := hkeys ns hns
      exact ⟨e, (key d [] e).2 (.inr he), hek⟩



def kindA : CType → Option RefKindA
  | .basic => some .communityList
  | .rt => some .extcommunityList
  | .soo => some .extcommunityList
  | .large => some .largeCommunityList
  | .cost => none

theorem commListRowA_def (name : Str) (rx : Bool) (t : CType) (m : Str) (l : Line) (h : commListRowA name rx t m = .ok l)
    (K : RefKindA) (hk : kindA t = some K) : (K, name) ∈ defsOfRowA l.toks := by
  unfold commListRowA at h
  cases t <;> simp only at h <;> cases h <;> simp [kindA] at hk <;> subst hk <;> simp [defsOfRowA, s, namedA]

theorem defsA_mem_of_rows (ls ls' : List Line) (r : RefKindA × Str) (h : r ∈ defsA ls') (hsub : ∀ l ∈ ls', l ∈ ls) :
    r ∈ defsA ls := by
  unfold defsA at h ⊢
  simp only [List.mem_flatMap] at h ⊢
  obtain ⟨l, hl, hr⟩ := h
  exact ⟨l, hsub l hl, hr⟩

theorem commListA_defs (name : Str) (c : CommList) (hok : (commListA name c).2 = none) (hne : c.members ≠ [])
    (K : RefKindA) (hk : kindA c.type = some K) : (K, name) ∈ defsA (commListA name c).1 := by
  unfold commListA at hok ⊢
  split at hok
  · simp at hok
  · rename_i hrx
    rw [if_neg hrx]
    cases hp : commPrefixA c with
    | error e => simp [hp] at hok
    | ok pre =>
      simp only [hp] at hok ⊢
      cases hl : c.logic <;> simp only [hl] at hok ⊢
      · obtain ⟨l, hl1, hl2⟩ := ofExcept_single_ok _ hok
        rw [hl2]
        simp only [defsA, List.flatMap_cons, List.flatMap_nil, List.append_nil]
        exact commListRowA_def _ _ _ _ l hl1 K hk
      · have hrows := seqAll_ok_rows _ hok
        have hall := seqAll_ok_all _ hok
        rw [hrows]
        obtain ⟨m0, ms, hm⟩ := List.exists_cons_of_ne_nil hne
        rw [hm] at hall ⊢
        have h0 := hall (commMemberRowA name c pre m0) (by simp)
        unfold commMemberRowA at h0
        obtain ⟨l, hl1, hl2⟩ := ofExcept_single_ok _ h0
        simp only [List.map_cons, List.flatMap_cons, defsA, List.mem_append, List.mem_flatMap]
        refine ⟨l, .inl ?_, commListRowA_def _ _ _ _ l hl1 K hk⟩
        unfold commMemberRowA
        rw [hl2]; simp

theorem lookupAll_spec (cl : List CommList) (ns : List Str) (us : List CommList) (h : lookupAll cl ns = .ok us) :
    us.map (·.name) = ns ∧ (∀ u ∈ us, ∃ n ∈ ns, getComm cl n = some u) ∧ (ns ≠ [] → us ≠ []) := by
  induction ns generalizing us with
  | nil => simp [lookupAll] at h; subst h; simp
  | cons n ns ih =>
    unfold lookupAll at h
    split at h
    · cases h
    · rename_i c hc
      split at h
      · cases h
      · rename_i us' hus'
        cases h
        obtain ⟨i1, i2, _⟩ := ih us' hus'
        refine ⟨by simp [i1, getComm_name _ _ _ hc], ?_, by simp⟩
        intro u hu
        simp only [List.mem_cons] at hu
        rcases hu with rfl | hu
        · exact ⟨n, by simp, hc⟩
        · obtain ⟨m, hm, hg⟩ := i2 u hu
          exact ⟨m, by simp [hm], hg⟩

/-- distinct key lists of the program have distinct mangled names -/
def MangleInj (inp : Input) : Prop :=
  ∀ ns ∈ keyLists inp, ∀ ns' ∈ keyLists inp, mangle ns = mangle ns' → ns = ns'

/-- the union a key list of the program names is defined by the Arista community generator under its mangled
name, by the command of the lists' type -/
theorem community_defined_A (inp : Input) (hok : (runCommunityA inp).2 = none)
    (hne : ∀ c ∈ inp.clists, c.members ≠ []) (hinj : MangleInj inp) (ns : List Str) (hns : ns ∈ keyLists inp)
    (hnn : ns ≠ []) (t : CType) (K : RefKindA) (hk : kindA t = some K) (hty : typesIn inp.clists [t] ns = true) :
    (K, mangle ns) ∈ defsA (runCommunityA inp).1 := by
  unfold runCommunityA at hok ⊢
  split at hok
  · simp at hok
  · rename_i ud hud
    obtain ⟨hinv, hkeys⟩ := usedUnited_spec inp ud hud
    obtain ⟨e, he, hek⟩ := hkeys ns hns
    obtain ⟨ns', hns', _, hek', hl⟩ := hinv e he
    have : ns' = ns := hinj ns' hns' ns hns (by rw [← hek', hek])
    subst this
    obtain ⟨hnames, hmem, hnonempty⟩ := lookupAll_spec _ _ _ hl
    obtain ⟨u0, us, hus⟩ := List.exists_cons_of_ne_nil (hnonempty hnn)
    have hu0 : u0 ∈ e.2 := by rw [hus]; simp
    obtain ⟨n0, hn0, hg0⟩ := hmem u0 hu0
    obtain ⟨c0, hgc, hct⟩ := typesIn_single _ _ _ hty n0 hn0
    rw [hg0] at hgc; cases hgc
    have hall := seqAll_ok_all _ hok
    have heok := hall (commUnionA e) (by simp only [List.mem_map]; exact ⟨e, he, rfl⟩)
    unfold commUnionA at heok
    have hall2 := seqAll_ok_all _ heok
    have hc0ok := hall2 (commListA (mangle (e.2.map (·.name))) u0) (by simp only [List.mem_map]; exact ⟨u0, hu0, rfl⟩)
    have hdef := commListA_defs _ u0 hc0ok (hne u0 (getComm_mem _ _ _ hg0)) K (by rw [hct]; exact hk)
    rw [hnames] at hdef hc0ok
    apply defsA_mem_of_rows _ _ _ hdef
    intro l hl'
    rw [seqAll_ok_rows _ hok]
    simp only [List.mem_flatMap, List.mem_map]
    refine ⟨_, ⟨e, he, rfl⟩, ?_⟩
    unfold commUnionA
    rw [seqAll_ok_rows _ heok]
    simp only [List.mem_flatMap, List.mem_map]
    exact ⟨_, ⟨u0, hu0, rfl⟩, by rw [hnames]; exact hl'⟩



def PDA (out : List Line) (x : Str) : Prop := (RefKindA.prefixList, x) ∈ defsA out

theorem pda_append_left (a b : List Line) (x : Str) (h : PDA a x) : PDA (a ++ b) x := by
  unfold PDA defsA at *; simp only [List.flatMap_append, List.mem_append]; exact .inl h
theorem pda_append_right (a b : List Line) (x : Str) (h : PDA b x) : PDA (a ++ b) x := by
  unfold PDA defsA at *; simp only [List.flatMap_append, List.mem_append]; exact .inr h

theorem prefixRowsA_pd (ptype : Str) (hp : ptype = s "ip" ∨ ptype = s "ipv6") (pl : PrefixList) :
    PDA (prefixRowsA ptype pl) pl.name := by
  unfold PDA defsA prefixRowsA
  simp only [List.flatMap_cons, List.mem_append]
  left
  rcases hp with rfl | rfl <;> simp [defsOfRowA, s, namedA]

theorem prefix_defined_A (inp : Input) (hok : (runPrefixA inp).2 = none) (hne : ∀ pl ∈ inp.plists, pl.members ≠ [])
    (p : Policy) (hp : p ∈ inp.policies) (st : Stmt) (hst : st ∈ p.stmts) (c : Cond) (hc : c ∈ st.conds)
    (hf : c.field = .ipPrefix ∨ c.field = .ipv6Prefix) (names : List Str) (a b : Option Str)
    (hv : c.val = .pfx names a b) (nm : Str) (hnm : nm ∈ names) (pl : PrefixList)
    (hg : getPrefix inp.plists nm a b = .ok pl) : (RefKindA.prefixList, pl.name) ∈ defsA (runPrefixA inp).1 := by
  unfold runPrefixA runPrefix at hok ⊢
  obtain ⟨_, h2, h3⟩ := prefixStmts_spec inp.plists hne PDA pda_append_left pda_append_right _ _
    (fun pl _ => prefixRowsA_pd _ (.inl rfl) pl) (fun pl _ => prefixRowsA_pd _ (.inr rfl) pl)
    (inp.policies.flatMap (·.stmts)) [] hok
  have hst' : st ∈ inp.policies.flatMap (·.stmts) := by
    simp only [List.mem_flatMap]; exact ⟨p, hp, hst⟩
  obtain ⟨d4, d6⟩ := h2 st hst'
  have : ∃ pl', getPrefix inp.plists nm a b = .ok pl' ∧
      pl'.name ∈ (prefixStmts inp.plists (prefixRowsA (s "ip")) (prefixRowsA (s "ipv6"))
        (inp.policies.flatMap (·.stmts)) []).2 := by
    rcases hf with hf | hf
    · exact d4 c hc hf names a b hv nm hnm
    · exact d6 c hc hf names a b hv nm hnm
  obtain ⟨pl', hg', hmem⟩ := this
  rw [hg] at hg'; cases hg'
  rcases h3 _ hmem with h | h
  · cases h
  · exact h

theorem aspath_defined_A (inp : Input) (hok : (runAsPathA inp).2 = none) (p : Policy) (hp : p ∈ inp.policies)
    (st : Stmt) (hst : st ∈ p.stmts) (c : Cond) (hc : c ∈ st.conds) (hf : c.field = .asPathFilter) (v : Str)
    (hv : c.val = .scalar v) : (RefKindA.asPathList, v) ∈ defsA (runAsPathA inp).1 := by
  unfold runAsPathA at hok ⊢
  split at hok
  · simp at hok
  · rename_i fs hfs
    unfold usedAsPath at hfs
    split at hfs
    · cases hfs
    · rename_i ns hns
      have hcm : c ∈ (inp.policies.flatMap (·.stmts)).flatMap fun st => st.conds.filter (·.field == .asPathFilter) := by
        simp only [List.mem_flatMap, List.mem_filter]
        exact ⟨st, ⟨p, hp, hst⟩, hc, by simp [hf]⟩
      obtain ⟨y, hy, hfy⟩ := mapM_some_mem _ _ _ hns c hcm
      simp [asPathCondName, hv] at hfy; subst hfy
      obtain ⟨f, hfm, hg⟩ := lookupNames_ok _ _ _ hfs v ((mem_sortedSet _ _).2 hy)
      have hname : f.name = v := by
        have := findLast_pred _ _ _ hg
        simpa using this
      simp only [defsA, emit_fst, List.mem_flatMap, List.mem_map]
      refine ⟨_, ⟨f, hfm, rfl⟩, ?_⟩
      simp [defsOfRowA, s, namedA, hname]

theorem typesIn_sub (cl : List CommList) (ts : List CType) (l : List Str) (h : typesIn cl ts l = true) (n : Str) (hn : n ∈ l) :
    typesIn cl ts [n] = true := by
  unfold typesIn at h ⊢
  simp only [List.all_cons, List.all_nil, Bool.and_true]
  exact List.all_eq_true.mp h n hn

/-- every community-like condition names at least one list (the API's `has(...)` / `has_any(...)` with arguments) -/
def CondsNamed (inp : Input) : Prop :=
  ∀ p ∈ inp.policies, ∀ st ∈ p.stmts, ∀ c ∈ st.conds, ∀ l, c.val = .names l → l ≠ []

theorem condKey_mem (inp : Input) (p : Policy) (hp : p ∈ inp.policies) (st : Stmt) (hst : st ∈ p.stmts) (c : Cond)
    (hc : c ∈ st.conds) (hf : c.field ∈ commMatchFields) (ns : List Str) (hns : ns ∈ condKeys c) : ns ∈ keyLists inp := by
  unfold keyLists
  simp only [List.mem_flatMap, List.mem_append]
  refine ⟨st, ⟨p, hp, hst⟩, .inl ⟨c, ?_, hns⟩⟩
  unfold commConds
  simp only [List.mem_flatMap, List.mem_filter]
  exact ⟨c.field, hf, hc, by simp⟩

theorem actKey_mem (inp : Input) (p : Policy) (hp : p ∈ inp.policies) (st : Stmt) (hst : st ∈ p.stmts) (a : Action)
    (ha : a ∈ st.acts) (hf : a.field ∈ commThenFields) (ns : List Str) (hns : ns ∈ actKeys a) : ns ∈ keyLists inp := by
  unfold keyLists
  simp only [List.mem_flatMap, List.mem_append]
  refine ⟨st, ⟨p, hp, hst⟩, .inr ⟨a, ?_, hns⟩⟩
  unfold commActs
  simp only [List.mem_flatMap, List.mem_filter]
  exact ⟨a.field, hf, ha, by simp⟩

/-- the key list behind a reference made by a community-like condition -/
theorem cond_ref_key (c : Cond) (l : List Str) (hv : c.val = .names l) (hl : l ≠ []) (x : Str)
    (hx : if c.op == .hasAny then x = mangle l else x ∈ l) :
    ∃ ns ∈ condKeys c, ns ≠ [] ∧ mangle ns = x ∧ ∀ n ∈ ns, n ∈ l := by
  unfold condKeys
  simp only [hv]
  by_cases hop : (c.op == .hasAny) = true
  · simp only [hop, if_true] at hx
    by_cases hlen : l.length > 1
    · exact ⟨l, by simp [hop, hlen], hl, hx.symm, fun n hn => hn⟩
    · -- a single name
      match l, hl, hlen with
      | [n], _, _ => exact ⟨[n], by simp [hop], by simp, hx.symm, fun m hm => hm⟩
      | _ :: _ :: _, _, hlen => simp at hlen
  · simp only [hop] at hx
    refine ⟨[x], ?_, by simp, rfl, fun n hn => by simp at hn; subst hn; exact hx⟩
    simp [hop]
    exact hx



/-- Arista: every named list a policy row refers to — including united names `A_OR_B` and derived prefix-list names —
is defined, under the same name and by the command of the matching kind, by the list generators fed the same inputs -/
theorem refs_defined_arista (inp : Input)
    (hc : (runCommunityA inp).2 = none) (hpl : (runPrefixA inp).2 = none) (ha : (runAsPathA inp).2 = none)
    (hty : TypeConsistent inp) (hne : NonEmptyLists inp) (hcn : CondsNamed inp) (hinj : MangleInj inp)
    (r : RefKindA × Str) (h : r ∈ refsA (runPolicyA inp).1) :
    r ∈ defsA ((runCommunityA inp).1 ++ (runPrefixA inp).1 ++ (runAsPathA inp).1) := by
  obtain ⟨p, hp, st, hst, horig⟩ := refsA_origin inp r h
  obtain ⟨hnc, hnp, _⟩ := hne
  obtain ⟨htc, hta⟩ := hty p hp st hst
  have inC : r ∈ defsA (runCommunityA inp).1 → r ∈ defsA ((runCommunityA inp).1 ++ (runPrefixA inp).1 ++
      (runAsPathA inp).1) := fun h => defsA_mem_of_rows _ _ _ h (by intro l hl; simp [hl])
  have inP : r ∈ defsA (runPrefixA inp).1 → r ∈ defsA ((runCommunityA inp).1 ++ (runPrefixA inp).1 ++
      (runAsPathA inp).1) := fun h => defsA_mem_of_rows _ _ _ h (by intro l hl; simp [hl])
  have inA : r ∈ defsA (runAsPathA inp).1 → r ∈ defsA ((runCommunityA inp).1 ++ (runPrefixA inp).1 ++
      (runAsPathA inp).1) := fun h => defsA_mem_of_rows _ _ _ h (by intro l hl; simp [hl])
  -- a community-like condition
  have commCase : ∀ (c : Cond) (hcm : c ∈ st.conds) (hf : c.field ∈ commMatchFields) (l : List Str)
      (hv : c.val = .names l) (t : CType) (K : RefKindA) (hk : kindA t = some K)
      (htyl : typesIn inp.clists [t] l = true) (x : Str) (hx : if c.op == .hasAny then x = mangle l else x ∈ l),
      (K, x) ∈ defsA (runCommunityA inp).1 := by
    intro c hcm hf l hv t K hk htyl x hx
    obtain ⟨ns, hns, hnn, hm, hsub⟩ := cond_ref_key c l hv (hcn p hp st hst c hcm l hv) x hx
    have htyn : typesIn inp.clists [t] ns = true := by
      unfold typesIn
      apply List.all_eq_true.mpr
      intro n hn
      unfold typesIn at htyl
      exact List.all_eq_true.mp htyl n (hsub n hn)
    rw [← hm]
    exact community_defined_A inp hc hnc hinj ns (condKey_mem inp p hp st hst c hcm hf ns hns) hnn t K hk htyn
  -- a community-like action
  have actCase : ∀ (a : Action) (ham : a ∈ st.acts) (hf : a.field ∈ commThenFields) (ca : CommAct)
      (hv : a.val = .comm ca) (t : CType) (K : RefKindA) (hk : kindA t = some K)
      (htyl : typesIn inp.clists [t] (CommAct.names ca) = true) (x : Str) (hx : x ∈ CommAct.names ca),
      (K, x) ∈ defsA (runCommunityA inp).1 := by
    intro a ham hf ca hv t K hk htyl x hx
    have := community_defined_A inp hc hnc hinj [x]
      (actKey_mem inp p hp st hst a ham hf [x] (by simp [actKeys, hv, hx])) (by simp) t K hk
      (typesIn_sub _ _ _ htyl x hx)
    rwa [mangle_single] at this
  obtain ⟨k, n⟩ := r
  rcases horig with ⟨c, hcm, hcr⟩ | ⟨a, ham, har⟩
  · have htyc := htc c hcm
    unfold CondRefA at hcr
    unfold condTyped at htyc
    cases hf : c.field <;> cases hv : c.val <;> simp only [hf, hv] at hcr htyc <;> try (exact absurd hcr id)
    case community.names l =>
      obtain ⟨rfl, hx⟩ := hcr
      exact inC (commCase c hcm (by simp [hf, commMatchFields]) l hv .basic _ rfl htyc n hx)
    case largeCommunity.names l =>
      obtain ⟨rfl, hx⟩ := hcr
      exact inC (commCase c hcm (by simp [hf, commMatchFields]) l hv .large _ rfl htyc n hx)
    case extcommunityRt.names l =>
      obtain ⟨rfl, hx⟩ := hcr
      exact inC (commCase c hcm (by simp [hf, commMatchFields]) l hv .rt _ rfl htyc n hx)
    case extcommunitySoo.names l =>
      obtain ⟨rfl, hx⟩ := hcr
      exact inC (commCase c hcm (by simp [hf, commMatchFields]) l hv .soo _ rfl htyc n hx)
    case ipPrefix.pfx names a b =>
      obtain ⟨rfl, nm, hnm, pl, hg, rfl⟩ := hcr
      exact inP (prefix_defined_A inp hpl hnp p hp st hst c hcm (.inl hf) names a b hv nm hnm pl hg)
    case ipv6Prefix.pfx names a b =>
      obtain ⟨rfl, nm, hnm, pl, hg, rfl⟩ := hcr
      exact inP (prefix_defined_A inp hpl hnp p hp st hst c hcm (.inr hf) names a b hv nm hnm pl hg)
    case asPathFilter.scalar v =>
      obtain ⟨rfl, rfl⟩ := hcr
      exact inA (aspath_defined_A inp ha p hp st hst c hcm hf _ hv)
  · have htya := hta a ham
    unfold ActRefA at har
    unfold actTyped at htya
    cases hf : a.field <;> cases hv : a.val <;> simp only [hf, hv] at har htya <;> try (exact absurd har id)
    case community.comm ca =>
      obtain ⟨rfl, hn⟩ := har
      have hn' : n ∈ CommAct.names ca := by
        rcases hn with hn | hn <;> simp [CommAct.names, hn]
      exact inC (actCase a ham (by simp [hf, commThenFields]) ca hv .basic _ rfl htya n hn')
    case largeCommunity.comm ca =>
      obtain ⟨rfl, hn⟩ := har
      exact inC (actCase a ham (by simp [hf, commThenFields]) ca hv .large _ rfl htya n hn)

end Annet.Rpl.Lemmas
