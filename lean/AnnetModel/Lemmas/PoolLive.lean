/-
Helper lemmas for the worker pool (C12), part 5: schedules as reachability proofs,
absence of deadlock, and termination of weakly fair runs.
-/
import AnnetModel.Lemmas.PoolSeq

namespace Annet.Pool

set_option linter.unusedSimpArgs false

/-! ### Schedules -/

theorem reach_run {c : Cfg} {s s' : State} {es : List Ev} (h : Reach c s)
    (hr : runSched c s es = some s') : Reach c s' := by
  induction es generalizing s with
  | nil => simp [runSched] at hr; subst hr; exact h
  | cons e es ih =>
    simp only [runSched] at hr
    cases hs : step c s e with
    | none => simp [hs] at hr
    | some s1 =>
      simp only [hs] at hr
      exact ih (ReachP.step e h trivial hs) hr

/-- `flush` is not scheduled inside the race window. -/
def okNR (s : State) : Ev → Bool
  | .flush _ => !s.pc.afterTimeout
  | _ => true

/-- Run a schedule that must respect `NoFlushInWindow`. -/
def runSchedNR (c : Cfg) (s : State) : List Ev → Option State
  | [] => some s
  | e :: es =>
    if okNR s e then
      match step c s e with
      | some s' => runSchedNR c s' es
      | none => none
    else none

theorem okNR_sound {s : State} {e : Ev} (h : okNR s e = true) : NoFlushInWindow s e := by
  intro w hw
  subst hw
  simpa [okNR] using h

theorem reachNR_run {c : Cfg} {s s' : State} {es : List Ev} (h : ReachNoRace c s)
    (hr : runSchedNR c s es = some s') : ReachNoRace c s' := by
  induction es generalizing s with
  | nil => simp [runSchedNR] at hr; subst hr; exact h
  | cons e es ih =>
    simp only [runSchedNR] at hr
    split at hr
    · rename_i hok
      cases hs : step c s e with
      | none => simp [hs] at hr
      | some s1 =>
        simp only [hs] at hr
        exact ih (ReachP.step e h (okNR_sound hok) hs) hr
    · simp at hr

/-! ### No deadlock -/

theorem terminal_false_iff {s : State} : s.terminal = false ↔ s.pc ≠ .done ∧ s.pc.isAborted = false := by
  simp [State.terminal]

theorem parent_enabled {c : Cfg} {s : State} (hnt : s.terminal = false) : Enabled c s .parent := by
  obtain ⟨h1, h2⟩ := terminal_false_iff.mp hnt
  refine ⟨.parent, rfl, ?_⟩
  simp only [step, stepParent]
  cases hpc : s.pc with
  | get => cases s.doneQ <;> simp
  | check got todo ret =>
    cases todo with
    | nil => simp
    | cons i todo =>
      simp only
      split <;> simp
  | post got ret =>
    simp only
    split <;> simp
  | restart todo => cases todo <;> simp
  | done => exact absurd hpc h1
  | aborted r => simp [hpc, PC.isAborted] at h2

theorem taskQ_ne_nil_of_live {c : Cfg} {s : State} (hi : Inv c s) {i : Nat} {w : Worker}
    (hw : s.ws[i]? = some w) (hl : w.st.live = true) : s.taskQ ≠ [] := by
  intro hq
  have h1 := hi.stopsLive
  rw [hq] at h1
  simp only [stops] at h1
  have : 0 < s.ws.countP (fun w => w.st.live) :=
    List.countP_pos_iff.mpr ⟨w, mem_of_getElem? hw, hl⟩
  omega

theorem worker_enabled {c : Cfg} {s : State} (hi : Inv c s) (hnt : s.terminal = false)
    {i : Nat} {w : Worker} (hw : s.ws[i]? = some w) (hne : w.st.isExited = false) :
    Enabled c s (.worker i) := by
  obtain ⟨_, hab⟩ := terminal_false_iff.mp hnt
  obtain ⟨st, buf⟩ := w
  cases st with
  | idle d =>
    refine ⟨.take i, rfl, ?_⟩
    have hq := taskQ_ne_nil_of_live hi hw rfl
    simp only [step, hab, Bool.false_eq_true, if_false, stepWorker, hw]
    cases htq : s.taskQ with
    | nil => exact absurd htq hq
    | cons t q => cases t <;> simp
  | busy d id =>
    refine ⟨.finish i, rfl, ?_⟩
    simp [step, hab, stepWorker, hw]
  | retiring =>
    cases buf with
    | nil => refine ⟨.exit i, rfl, ?_⟩; simp [step, hab, stepWorker, hw]
    | cons r b =>
      refine ⟨.flush i, rfl, ?_⟩
      simp only [step, hab, Bool.false_eq_true, if_false, stepWorker, hw]
      split <;> simp
  | stopping =>
    cases buf with
    | nil => refine ⟨.exit i, rfl, ?_⟩; simp [step, hab, stepWorker, hw]
    | cons r b =>
      refine ⟨.flush i, rfl, ?_⟩
      simp only [step, hab, Bool.false_eq_true, if_false, stepWorker, hw]
      split <;> simp
  | exited k => simp at hne

/-! ### A potential that every worker event, every successful `get` and every restart decreases -/

def W.weight : W → Nat
  | .idle _ => 0
  | .busy _ _ => 5
  | .retiring => 2
  | .stopping => 1
  | .exited .nine => 1
  | .exited .zero => 0

def Task.weight : Task → Nat
  | .invoke _ => 6
  | .stop => 2

def Worker.weight (w : Worker) : Nat := w.st.weight + 2 * w.buf.length

def mu (s : State) : Nat :=
  (s.taskQ.map Task.weight).sum + (s.ws.map Worker.weight).sum + s.doneQ.length

@[simp] theorem W.weight_idle (d : Nat) : (W.idle d).weight = 0 := rfl
@[simp] theorem W.weight_busy (d : Nat) (id : Id) : (W.busy d id).weight = 5 := rfl
@[simp] theorem W.weight_retiring : W.retiring.weight = 2 := rfl
@[simp] theorem W.weight_stopping : W.stopping.weight = 1 := rfl
@[simp] theorem W.weight_nine : (W.exited .nine).weight = 1 := rfl
@[simp] theorem W.weight_zero : (W.exited .zero).weight = 0 := rfl
@[simp] theorem Task.weight_invoke (id : Id) : (Task.invoke id).weight = 6 := rfl
@[simp] theorem Task.weight_stop : Task.stop.weight = 2 := rfl

theorem W.weight_ite (p : Prop) [Decidable p] (d : Nat) :
    (if p then W.retiring else W.idle d).weight ≤ 2 := by split <;> simp

theorem mu_worker_step {c : Cfg} {s s' : State} {e : Ev} (hs : Step c s e s') (he : e ≠ .parent) :
    mu s' < mu s := by
  cases hs with
  | takeStop i d b q hab hw hq =>
    obtain ⟨pre, post, hws, hset, _⟩ := set_split s.ws i ⟨.idle d, b⟩ ⟨.stopping, b⟩ hw
    simp only [mu, State.setW, hset]
    rw [hws, hq]
    simp [Worker.weight]
    try omega
  | takeTask i d b id q hab hw hq =>
    obtain ⟨pre, post, hws, hset, _⟩ := set_split s.ws i ⟨.idle d, b⟩ ⟨.busy d id, b⟩ hw
    simp only [mu, State.setW, hset]
    rw [hws, hq]
    simp [Worker.weight]
    try omega
  | finish i d id b hab hw =>
    obtain ⟨pre, post, hws, hset, _⟩ := set_split s.ws i ⟨.busy d id, b⟩
      ⟨if c.quotaReached (d + 1) then .retiring else .idle (d + 1), b ++ [c.res id]⟩ hw
    simp only [mu, State.setW, hset]
    rw [hws]
    have := W.weight_ite (c.quotaReached (d + 1) = true) (d + 1)
    simp [Worker.weight]
    try omega
  | flushSend i st r b hab hw hsend =>
    obtain ⟨pre, post, hws, hset, _⟩ := set_split s.ws i ⟨st, r :: b⟩ ⟨st, b⟩ hw
    simp only [mu, State.setW, hset]
    rw [hws]
    simp [Worker.weight]
    try omega
  | flushDrop i st r b hab hw hsend =>
    obtain ⟨pre, post, hws, hset, _⟩ := set_split s.ws i ⟨st, r :: b⟩ ⟨st, b⟩ hw
    simp only [mu, State.setW, hset]
    rw [hws]
    simp [Worker.weight]
    try omega
  | feederDie i st r b hab hw hsend hexi =>
    obtain ⟨pre, post, hws, hset, _⟩ := set_split s.ws i ⟨st, r :: b⟩ ⟨st, []⟩ hw
    simp only [mu, State.setW, hset]
    rw [hws]
    simp [Worker.weight]
    try omega
  | exitNine i hab hw =>
    obtain ⟨pre, post, hws, hset, _⟩ := set_split s.ws i ⟨.retiring, []⟩ ⟨.exited .nine, []⟩ hw
    simp only [mu, State.setW, hset]
    rw [hws]
    simp [Worker.weight]
  | exitZero i hab hw =>
    obtain ⟨pre, post, hws, hset, _⟩ := set_split s.ws i ⟨.stopping, []⟩ ⟨.exited .zero, []⟩ hw
    simp only [mu, State.setW, hset]
    rw [hws]
    simp [Worker.weight]
  | _ => exact absurd rfl he


theorem sum_set_le {ws : List Worker} {i : Nat} {w' : Worker} (h : ∀ w, ws[i]? = some w → w'.weight ≤ w.weight) :
    ((ws.set i w').map Worker.weight).sum ≤ (ws.map Worker.weight).sum := by
  cases hw : ws[i]? with
  | none =>
    have : ws.length ≤ i := by simpa using hw
    rw [List.set_eq_of_length_le this]
    exact Nat.le_refl _
  | some w =>
    obtain ⟨pre, post, hws, hset, _⟩ := set_split ws i w w' hw
    rw [hset, hws]
    have := h w hw
    simp
    omega

theorem mu_parent_step {c : Cfg} {s s' : State} (hs : Step c s .parent s') : mu s' ≤ mu s := by
  cases hs with
  | getSome r q hpc hq => simp [mu, hq]
  | restart i todo hpc =>
    simp only [mu, State.setW]
    have := sum_set_le (ws := s.ws) (i := i) (w' := ⟨.idle 0, []⟩) (by intro w _; simp [Worker.weight])
    omega
  | post got ret hpc hab =>
    simp only [postStep]
    split <;> simp [mu]
  | _ => simp [mu]

theorem mu_step {c : Cfg} {s s' : State} {e : Ev} (hs : Step c s e s') : mu s' ≤ mu s := by
  by_cases he : e = .parent
  · subst he; exact mu_parent_step hs
  · exact Nat.le_of_lt (mu_worker_step hs he)

/-! ### `todo ⊆ pool` during a scan -/

def PC.todoL : PC → List Nat
  | .check _ todo _ => todo
  | _ => []

def ScanSub (s : State) : Prop := ∀ j ∈ s.pc.todoL, j ∈ s.pool

theorem scanSub_init (c : Cfg) : ScanSub (init c) := by simp [ScanSub, init, PC.todoL]

theorem scanSub_step {c : Cfg} {s s' : State} {e : Ev} (hi : Inv c s) (h : ScanSub s) (hs : Step c s e s') :
    ScanSub s' := by
  by_cases he : e = .parent
  · subst he
    cases hs with
    | getSome r q hpc hq => simp [ScanSub, PC.todoL]
    | getNone hpc hq => simp [ScanSub, PC.todoL]
    | readNine got i todo ret b hpc hw =>
      intro j hj
      simp only [PC.todoL] at hj
      exact h j (by rw [hpc]; simp [PC.todoL, hj])
    | readZero got i todo ret b hpc hw =>
      intro j hj
      simp only [PC.todoL] at hj
      have hjp : j ∈ s.pool := h j (by rw [hpc]; simp [PC.todoL, hj])
      have hnd := hi.scanNodup
      rw [hpc] at hnd
      simp only [PC.scanL, List.nodup_append, List.nodup_cons] at hnd
      have hji : j ≠ i := by
        intro hji; subst hji; exact hnd.2.1.1 hj
      exact (List.mem_erase_of_ne hji).mpr hjp
    | readNone got i todo ret hpc hw =>
      intro j hj
      simp only [PC.todoL] at hj
      exact h j (by rw [hpc]; simp [PC.todoL, hj])
    | post got ret hpc hab =>
      simp only [postStep]
      split <;> simp [ScanSub, PC.todoL]
    | _ => simp [ScanSub, PC.todoL]
  · obtain ⟨h1, _, _, h4, _, _⟩ := worker_step_frame hs he
    intro j hj
    rw [h1] at hj; rw [h4]; exact h j hj

theorem scanSub_reach {c : Cfg} {ok : State → Ev → Prop} {s : State} (h : ReachP c ok s) : ScanSub s := by
  induction h with
  | init => exact scanSub_init c
  | step e hr _ hs ih => exact scanSub_step (inv_reach hr) ih (step_sound hs)


/-! ### A potential for the parent once every worker has exited -/

def xd (d : Bool) : Nat := if d then 1 else 5
def tGet (p : Nat) (d : Bool) : Nat := p + 2 + xd d
def tPost (p : Nat) (d : Bool) (got : Option Res) : Nat := if p = 0 ∧ got = none then xd d else p + 9

theorem xd_pos (d : Bool) : 1 ≤ xd d := by cases d <;> simp [xd]
theorem xd_le (d : Bool) : xd d ≤ 5 := by cases d <;> simp [xd]
theorem tPost_pos (p : Nat) (d : Bool) (got : Option Res) : 1 ≤ tPost p d got := by
  simp only [tPost]; split
  · exact xd_pos d
  · omega

def nu (s : State) : Nat :=
  match s.pc with
  | .get => tGet s.pool.length s.drained
  | .check got todo ret =>
    if ret = [] then todo.length + 1 + tPost (s.pool.length - todo.length) s.drained got else todo.length + 2
  | .post got ret => if ret = [] then tPost s.pool.length s.drained got else 1
  | .restart [] => 1 + tGet s.pool.length s.drained
  | .restart (_ :: _) => 0
  | .done => 0
  | .aborted _ => 0

theorem nu_step {c : Cfg} {s s' : State} (hi : Inv c s) (hsub : ScanSub s)
    (hq : ∀ w ∈ s.ws, w.st.isExited = true) (hs : Step c s .parent s') (hmu : mu s' = mu s) :
    nu s' < nu s := by
  cases hs with
  | getSome r q hpc hdq => simp [mu, hdq] at hmu
  | getNone hpc hdq =>
    simp only [nu, hpc, tGet, tPost]
    simp
  | readNine got i todo ret b hpc hw =>
    simp only [nu, hpc]
    have := tPost_pos (s.pool.length - (todo.length + 1)) s.drained got
    simp
    split <;> omega
  | readZero got i todo ret b hpc hw =>
    have hip : i ∈ s.pool := hsub i (by rw [hpc]; simp [PC.todoL])
    have hlen := List.length_erase_of_mem hip
    have hpos : 0 < s.pool.length := List.length_pos_of_mem hip
    simp only [nu, hpc, hlen]
    have he : s.pool.length - 1 - todo.length = s.pool.length - (todo.length + 1) := by omega
    simp only [List.length_cons]
    rw [he]
    split <;> omega
  | readNone got i todo ret hpc hw =>
    have hip : i ∈ s.pool := hsub i (by rw [hpc]; simp [PC.todoL])
    have hlt := hi.poolBound i hip
    have hget : s.ws[i]? = some s.ws[i] := List.getElem?_eq_getElem hlt
    have hex := hq _ (mem_of_getElem? hget)
    generalize s.ws[i] = wi at hget hex
    obtain ⟨st, b⟩ := wi
    cases st <;> simp at hex
    exact absurd hget (hw _ _)
  | scanned got ret hpc =>
    simp only [nu, hpc]
    simp
    split <;> omega
  | abort r ret hpc htf hexc =>
    simp only [nu, hpc]
    have := tPost_pos s.pool.length s.drained (some r)
    split <;> omega
  | post got ret hpc hab =>
    have hpos := tPost_pos s.pool.length s.drained got
    simp only [postStep]
    split
    · simp only [nu, hpc]
      split <;> omega
    · rename_i hb
      cases ret with
      | cons i t => simp [nu, hpc]
      | nil =>
        simp only [nu, hpc, if_true]
        by_cases hcase : s.pool.length = 0 ∧ got = none
        · obtain ⟨hp0, hg⟩ := hcase
          have hpe : s.pool = [] := List.eq_nil_of_length_eq_zero hp0
          subst hg
          simp only [breakNow, hpe, List.isEmpty_nil, Option.isNone_none, Bool.true_and, Bool.true_or,
            Option.toList_none, List.length_nil, Nat.add_zero] at hb
          cases hr : c.rule <;> simp [hr] at hb
          simp [tGet, tPost, hpe, hb.2, xd]
        · have h1 : tPost s.pool.length s.drained got = s.pool.length + 9 := by
            simp only [tPost]; rw [if_neg hcase]
          have := xd_le (s.drained || s.pool.isEmpty)
          simp only [h1, tGet]
          omega
  | restart i todo hpc =>
    have hw := hi.retired i (by rw [hpc]; simp [PC.retiredL])
    obtain ⟨pre, post, hws, hset, _⟩ := set_split s.ws i ⟨.exited .nine, []⟩ ⟨.idle 0, []⟩ hw
    simp only [mu, State.setW, hset] at hmu
    rw [hws] at hmu
    simp [Worker.weight] at hmu
  | loop hpc =>
    simp only [nu, hpc]
    omega


/-! ### Weakly fair runs terminate -/

theorem nonincr_le (f : Nat → Nat) (h : ∀ n, f (n + 1) ≤ f n) (n k : Nat) : f (n + k) ≤ f n := by
  induction k with
  | zero => exact Nat.le_refl _
  | succ k ih => exact Nat.le_trans (h (n + k)) ih

theorem nonincr_stabilises (f : Nat → Nat) (h : ∀ n, f (n + 1) ≤ f n) :
    ∃ N, ∀ m, N ≤ m → f m = f N := by
  have key : ∀ k n, f n ≤ k → ∃ N, ∀ m, N ≤ m → f m = f N := by
    intro k
    induction k with
    | zero =>
      intro n hn
      refine ⟨n, fun m hm => ?_⟩
      obtain ⟨d, rfl⟩ := Nat.exists_eq_add_of_le hm
      have := nonincr_le f h n d
      omega
    | succ k ih =>
      intro n hn
      by_cases hall : ∀ m, n ≤ m → f m = f n
      · exact ⟨n, hall⟩
      · have : ∃ m, n ≤ m ∧ f m ≠ f n := by
          apply Classical.byContradiction
          intro hne
          apply hall
          intro m hm
          apply Classical.byContradiction
          intro hfm
          exact hne ⟨m, hm, hfm⟩
        obtain ⟨m, hm, hfm⟩ := this
        obtain ⟨d, rfl⟩ := Nat.exists_eq_add_of_le hm
        have := nonincr_le f h n d
        exact ih (n + d) (by omega)
  exact key (f 0) 0 (Nat.le_refl _)

theorem parent_step_ws {c : Cfg} {s s' : State} (hi : Inv c s) (hs : Step c s .parent s')
    (hmu : mu s' = mu s) : s'.ws = s.ws := by
  cases hs with
  | restart i todo hpc =>
    have hw := hi.retired i (by rw [hpc]; simp [PC.retiredL])
    obtain ⟨pre, post, hws, hset, _⟩ := set_split s.ws i ⟨.exited .nine, []⟩ ⟨.idle 0, []⟩ hw
    simp only [mu, State.setW, hset] at hmu
    rw [hws] at hmu
    simp [Worker.weight] at hmu
  | post got ret hpc hab =>
    simp only [postStep]
    split <;> rfl
  | _ => rfl

theorem fair_run_terminates {c : Cfg} (r : Run c) (hf : r.WeaklyFair) :
    ∃ n, (r.st n).terminal = true := by
  apply Classical.byContradiction
  intro hno
  have hnt : ∀ n, (r.st n).terminal = false := by
    intro n
    cases h : (r.st n).terminal with
    | false => rfl
    | true => exact absurd ⟨n, h⟩ hno
  have hstep : ∀ n, step c (r.st n) (r.ev n) = some (r.st (n + 1)) := by
    intro n
    rcases r.next n with h | ⟨h, _⟩
    · exact h
    · rw [hnt n] at h; simp at h
  have hreach : ∀ n, Reach c (r.st n) := by
    intro n
    induction n with
    | zero => rw [r.start]; exact .init
    | succ n ih => exact ReachP.step (r.ev n) ih trivial (hstep n)
  have hmono : ∀ n, mu (r.st (n + 1)) ≤ mu (r.st n) := fun n => mu_step (step_sound (hstep n))
  obtain ⟨N, hN⟩ := nonincr_stabilises (fun n => mu (r.st n)) hmono
  have hmuEq : ∀ m, N ≤ m → mu (r.st (m + 1)) = mu (r.st m) := by
    intro m hm
    have h1 := hN m hm
    have h2 := hN (m + 1) (by omega)
    omega
  have hpar : ∀ m, N ≤ m → r.ev m = .parent := by
    intro m hm
    apply Classical.byContradiction
    intro hne
    have := mu_worker_step (step_sound (hstep m)) hne
    have := hmuEq m hm
    omega
  have hStepP : ∀ m, N ≤ m → Step c (r.st m) .parent (r.st (m + 1)) := by
    intro m hm
    have := step_sound (hstep m)
    rwa [hpar m hm] at this
  have hws : ∀ k, (r.st (N + k)).ws = (r.st N).ws := by
    intro k
    induction k with
    | zero => rfl
    | succ k ih =>
      have := parent_step_ws (inv_reach (hreach (N + k))) (hStepP (N + k) (by omega)) (hmuEq (N + k) (by omega))
      rw [show N + (k + 1) = N + k + 1 by omega, this, ih]
  have hex : ∀ w ∈ (r.st N).ws, w.st.isExited = true := by
    intro w hw
    obtain ⟨i, hi⟩ := List.mem_iff_getElem?.mp hw
    cases hne : w.st.isExited with
    | true => rfl
    | false =>
      obtain ⟨m, hm, hcase⟩ := hf (.worker i) N
      obtain ⟨k, rfl⟩ := Nat.exists_eq_add_of_le hm
      rcases hcase with hdis | ⟨_, hag⟩
      · exfalso
        apply hdis
        have hi' : (r.st (N + k)).ws[i]? = some w := by rw [hws k]; exact hi
        exact worker_enabled (inv_reach (hreach (N + k))) (hnt (N + k)) hi' hne
      · rw [hpar (N + k) (by omega)] at hag
        simp [Ev.agent] at hag
  have hnu : ∀ k, nu (r.st (N + k + 1)) < nu (r.st (N + k)) := by
    intro k
    apply nu_step (inv_reach (hreach (N + k))) (scanSub_reach (hreach (N + k))) ?_
      (hStepP (N + k) (by omega)) (hmuEq (N + k) (by omega))
    rw [hws k]; exact hex
  have hbound : ∀ k, nu (r.st (N + k)) + k ≤ nu (r.st N) := by
    intro k
    induction k with
    | zero => exact Nat.le_refl _
    | succ k ih =>
      have := hnu k
      rw [show N + (k + 1) = N + k + 1 by omega]
      omega
  have := hbound (nu (r.st N) + 1)
  omega


/-! ### Fair runs exist: a terminating schedule, then the terminated state forever -/

theorem runSched_append (c : Cfg) (s : State) (a b : List Ev) :
    runSched c s (a ++ b) = (runSched c s a).bind fun s' => runSched c s' b := by
  induction a generalizing s with
  | nil => simp [runSched]
  | cons e a ih =>
    simp only [List.cons_append, runSched]
    cases step c s e with
    | none => simp
    | some s1 => simp [ih]

def schedState (c : Cfg) (es : List Ev) (n : Nat) : State :=
  (runSched c (init c) (es.take n)).getD (init c)

theorem schedState_some {c : Cfg} {es : List Ev} {sT : State} (h : runSched c (init c) es = some sT) (n : Nat) :
    runSched c (init c) (es.take n) = some (schedState c es n) := by
  have := runSched_append c (init c) (es.take n) (es.drop n)
  rw [List.take_append_drop, h] at this
  cases hp : runSched c (init c) (es.take n) with
  | none => simp [hp] at this
  | some s => simp [schedState, hp]

/-- The infinite run that follows a complete schedule `es` and then stutters. -/
def runOfSched (c : Cfg) (es : List Ev) (sT : State) (h : runSched c (init c) es = some sT)
    (ht : sT.terminal = true) : Run c where
  st := schedState c es
  ev := fun n => es.getD n .parent
  start := by simp [schedState, runSched]
  next := by
    intro n
    by_cases hn : n < es.length
    · left
      have h1 := schedState_some h n
      have h2 := schedState_some h (n + 1)
      rw [List.take_add_one, runSched_append, h1] at h2
      simp only [List.getElem?_eq_getElem hn, Option.toList_some, Option.bind_some, runSched] at h2
      have hev : es.getD n .parent = es[n] := by simp [List.getD, List.getElem?_eq_getElem hn]
      rw [hev]
      cases hs : step c (schedState c es n) es[n] with
      | none => simp [hs] at h2
      | some s1 => simp [hs] at h2; rw [h2]
    · right
      have hle : es.length ≤ n := Nat.le_of_not_lt hn
      have e1 : schedState c es n = sT := by
        simp [schedState, List.take_of_length_le hle, h]
      have e2 : schedState c es (n + 1) = sT := by
        simp [schedState, List.take_of_length_le (Nat.le_succ_of_le hle), h]
      rw [e1, e2]; exact ⟨ht, rfl⟩

theorem runOfSched_fair {c : Cfg} {es : List Ev} {sT : State} (h : runSched c (init c) es = some sT)
    (ht : sT.terminal = true) (hquiet : ∀ e, step c sT e = none) : (runOfSched c es sT h ht).WeaklyFair := by
  intro a n
  refine ⟨max n es.length, Nat.le_max_left _ _, Or.inl ?_⟩
  have e1 : (runOfSched c es sT h ht).st (max n es.length) = sT := by
    simp [runOfSched, schedState, List.take_of_length_le (Nat.le_max_right n es.length), h]
  rw [e1]
  rintro ⟨e, _, he⟩
  simp [hquiet e] at he


end Annet.Pool
