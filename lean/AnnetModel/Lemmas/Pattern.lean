/-
Helper lemmas for C07.
-/
import AnnetModel.Spec.Pattern

namespace Annet.Pattern.Lemmas
open Annet.Pattern Annet.Offside

theorem match_is_word_semantics (ic : Bool) (toks : List Tok) (ws : List (List Char))
    (hwf : WFToks toks) (hne : toks ≠ []) (hws : ∀ w ∈ ws, cleanWord w) :
    matchToks ic false toks (joinWords ws) = refWords ic toks ws := by
  sorry

theorem key_is_placeholders (ic ell : Bool) (toks : List Tok) (row : List Char)
    (key : List (List Char)) (hwf : WFToks toks)
    (h : matchToks ic ell toks row = some key) : key.length = holes toks := by
  sorry

theorem star_binds_one_word (ic : Bool) (pre post : List Tok) (ws : List (List Char))
    (key : List (List Char)) (h : refWords ic (pre ++ .star :: post) ws = some key) :
    ∃ w, ws[pre.length]? = some w ∧ key[holes pre]? = some w := by
  sorry

theorem prefix_semantics (ic : Bool) (toks : List Tok) (ws more key : List (List Char))
    (hnt : endsWithTilde toks = false)
    (h : refWords ic toks ws = some key) : refWords ic toks (ws ++ more) = some key := by
  sorry

theorem word_boundary (ic : Bool) (w r : List Char) (c : Char) (hc : pyIsSpace c = false) :
    matchToks ic false [.lit w] (w ++ c :: r) = none := by
  sorry

theorem reverse_format (pre : List Char) (toks : List Tok) (key : List (List Char))
    (hk : holes toks ≤ key.length) :
    format (makeReverse pre toks) key =
      some (if startsWithPrefixTok pre toks then subst (toks.drop 1) key else pre :: subst toks key) := by
  sorry

theorem reverse_roundtrip (ic : Bool) (toks : List Tok) (ws key : List (List Char))
    (hwf : WFToks toks) (hne : toks ≠ []) (hws : ∀ w ∈ ws, cleanWord w)
    (h : refWords ic toks ws = some key) :
    matchToks ic false toks (joinWords (subst toks key)) = some key := by
  sorry

theorem negate_involutive (pre : List Char) (ws : List (List Char)) (hne : ws ≠ [])
    (hg : ¬ ∃ w rest, ws = pre :: pre :: w :: rest) :
    negate pre (negate pre ws) = ws := by
  sorry

theorem ignorecase_extends (ell : Bool) (toks : List Tok) (row : List Char) (key : List (List Char))
    (h : matchToks false ell toks row = some key) : matchToks true ell toks row = some key := by
  sorry

end Annet.Pattern.Lemmas
