/-
Helper lemmas for C07.
-/
import AnnetModel.Spec.Pattern

namespace Annet.Pattern.Lemmas
open Annet.Pattern Annet.Offside

/-! ### characters -/

theorem space_isSpace : pyIsSpace ' ' = true := by decide

theorem charEq_refl (ic : Bool) (a : Char) : charEq ic a a = true := by
  cases ic <;> simp [charEq]

theorem charEq_false_true {a b : Char} (h : charEq false a b = true) : charEq true a b = true := by
  simp [charEq] at h
  subst h
  exact charEq_refl true a

theorem toNat_ofNat_small (n : Nat) (h : n < 1000) : (Char.ofNat n).toNat = n := by
  have hv : n.isValidChar := by simp [Nat.isValidChar]; omega
  simp [Char.ofNat, hv, Char.ofNatAux, Char.toNat]

theorem lower_eq_space {a : Char} (h : lower a = ' ') : a = ' ' := by
  unfold lower at h
  split at h
  · rename_i hr
    simp only [Bool.and_eq_true, decide_eq_true_eq] at hr
    have h1 : 65 ≤ a.toNat := hr.1
    have h2 : a.toNat ≤ 90 := hr.2
    have h3 : (Char.ofNat (a.toNat + 32)).toNat = a.toNat + 32 :=
      toNat_ofNat_small _ (by omega)
    rw [h] at h3
    have : (' ' : Char).toNat = 32 := by decide
    omega
  · exact h

theorem charEq_space {ic : Bool} {a : Char} (ha : pyIsSpace a = false) : charEq ic a ' ' = false := by
  cases ic
  · simp [charEq]; rintro rfl; simp [space_isSpace] at ha
  · simp only [charEq, if_true]
    have hl : lower ' ' = ' ' := by decide
    rw [hl]
    apply Bool.eq_false_iff.mpr
    intro h
    have := lower_eq_space (by simpa using h)
    subst this
    simp [space_isSpace] at ha

/-! ### words and rows -/

def NoSp (w : List Char) : Prop := ∀ c ∈ w, pyIsSpace c = false

/-- a row that starts with a non-blank character -/
def Good (r : List Char) : Prop := ∃ c r', r = c :: r' ∧ pyIsSpace c = false

/-- what may follow a word in a normalised row: nothing, or one blank -/
def Tail (rest : List Char) : Prop := rest = [] ∨ ∃ r, rest = ' ' :: r

theorem joinWords_nil : joinWords [] = [] := rfl

theorem joinWords_single (w : List Char) : joinWords [w] = w := by
  simp [joinWords, List.intercalate]

theorem joinWords_cons2 (w w2 : List Char) (ws : List (List Char)) :
    joinWords (w :: w2 :: ws) = w ++ ' ' :: joinWords (w2 :: ws) := by
  simp [joinWords, List.intercalate]

theorem joinWords_cons_ne (w : List Char) {ws : List (List Char)} (h : ws ≠ []) :
    joinWords (w :: ws) = w ++ ' ' :: joinWords ws := by
  cases ws with
  | nil => exact absurd rfl h
  | cons w2 ws => exact joinWords_cons2 w w2 ws

theorem good_of_clean_append {w : List Char} (h : cleanWord w) (r : List Char) : Good (w ++ r) := by
  obtain ⟨hne, hs⟩ := h
  cases w with
  | nil => exact absurd rfl hne
  | cons c w => exact ⟨c, w ++ r, rfl, hs c (by simp)⟩

theorem good_joinWords {w : List Char} (h : cleanWord w) (ws : List (List Char)) :
    Good (joinWords (w :: ws)) := by
  cases ws with
  | nil => rw [joinWords_single]; simpa using good_of_clean_append h []
  | cons w2 ws => rw [joinWords_cons2]; exact good_of_clean_append h _

theorem not_good_nil : ¬ Good [] := by
  rintro ⟨c, r, h, _⟩; cases h

theorem joinWords_tail {ws : List (List Char)} (hws : ∀ w ∈ ws, cleanWord w) (x : List Char) :
    ∃ rest, joinWords (x :: ws) = x ++ rest ∧
      ((ws = [] ∧ rest = []) ∨ (ws ≠ [] ∧ rest = ' ' :: joinWords ws ∧ Good (joinWords ws))) := by
  cases ws with
  | nil => exact ⟨[], by simp [joinWords_single], .inl ⟨rfl, rfl⟩⟩
  | cons w2 ws =>
    exact ⟨_, joinWords_cons2 x w2 ws, .inr ⟨by simp, rfl, good_joinWords (hws w2 (by simp)) ws⟩⟩

/-! ### `stripLit` -/

theorem stripLit_self (ic : Bool) (w r : List Char) : stripLit ic w (w ++ r) = some r := by
  induction w with
  | nil => simp [stripLit]
  | cons a w ih => simp [stripLit, charEq_refl, ih]

theorem stripLit_append (ic : Bool) {w : List Char} (hw : NoSp w) (x : List Char) {rest : List Char}
    (hr : Tail rest) : stripLit ic w (x ++ rest) = (stripLit ic w x).map (· ++ rest) := by
  induction w generalizing x with
  | nil => simp [stripLit]
  | cons a w ih =>
    have ha : pyIsSpace a = false := hw a (by simp)
    have hw' : NoSp w := fun c hc => hw c (by simp [hc])
    cases x with
    | nil =>
      rcases hr with rfl | ⟨r, rfl⟩
      · simp [stripLit]
      · simp [stripLit, charEq_space ha]
    | cons b x =>
      simp only [List.cons_append, stripLit]
      split
      · exact ih hw' x
      · rfl

theorem stripLit_noSp {ic : Bool} {w x r : List Char} (hx : NoSp x) (h : stripLit ic w x = some r) :
    NoSp r := by
  induction w generalizing x with
  | nil => simp [stripLit] at h; subst h; exact hx
  | cons a w ih =>
    cases x with
    | nil => simp [stripLit] at h
    | cons b x =>
      simp only [stripLit] at h
      split at h
      · exact ih (fun c hc => hx c (by simp [hc])) h
      · cases h

theorem stripLit_false_true {w r r' : List Char} (h : stripLit false w r = some r') :
    stripLit true w r = some r' := by
  induction w generalizing r with
  | nil => simpa [stripLit] using h
  | cons a w ih =>
    cases r with
    | nil => simp [stripLit] at h
    | cons b r =>
      simp only [stripLit] at h ⊢
      split at h
      · rename_i hc
        rw [if_pos (charEq_false_true hc)]
        exact ih h
      · cases h

/-! ### `takeWhile`, `sep`, `boundary` -/

theorem takeWhile_word {x : List Char} (hx : NoSp x) {rest : List Char} (hr : Tail rest) :
    (x ++ rest).takeWhile (fun c => !pyIsSpace c) = x := by
  induction x with
  | nil =>
    rcases hr with rfl | ⟨r, rfl⟩
    · rfl
    · simp [space_isSpace]
  | cons c x ih =>
    have hc := hx c (by simp)
    simp [hc]
    exact ih (fun c hc => hx c (by simp [hc]))

theorem dropWhile_word {x : List Char} (hx : NoSp x) {rest : List Char} (hr : Tail rest) :
    (x ++ rest).dropWhile (fun c => !pyIsSpace c) = rest := by
  induction x with
  | nil =>
    rcases hr with rfl | ⟨r, rfl⟩
    · rfl
    · simp [space_isSpace]
  | cons c x ih =>
    have hc := hx c (by simp)
    simp [hc]
    exact ih (fun c hc => hx c (by simp [hc]))

theorem sep_nil : sep [] = none := rfl

theorem sep_good {r : List Char} (h : Good r) : sep r = none := by
  obtain ⟨c, r', rfl, hc⟩ := h
  simp [sep, hc]

theorem sep_space {r : List Char} (h : Good r) : sep (' ' :: r) = some r := by
  obtain ⟨c, r', rfl, hc⟩ := h
  simp [sep, space_isSpace, List.dropWhile, hc]

theorem boundary_tail {rest : List Char} (h : Tail rest) : boundary false rest = true := by
  rcases h with rfl | ⟨r, rfl⟩
  · rfl
  · simp [boundary, space_isSpace]

theorem boundary_good {r : List Char} (h : Good r) : boundary false r = false := by
  obtain ⟨c, r', rfl, hc⟩ := h
  simp [boundary, hc]

theorem good_of_noSp_cons {c : Char} {r : List Char} (h : NoSp (c :: r)) (rest : List Char) :
    Good (c :: r ++ rest) := ⟨c, r ++ rest, rfl, h c (by simp)⟩

/-! ### one step of `matchToks` on a row that starts with a clean word -/

theorem lit_ne_tilde (w : List Char) : (Tok.lit w == Tok.tilde) = false := by
  simp

theorem star_ne_tilde : (Tok.star == Tok.tilde) = false := by
  simp

/-- the literal against the first word: nothing, exactly the word, or a proper prefix of it -/
theorem stripLit_word (ic : Bool) {w x : List Char} (hw : cleanWord w) (hx : NoSp x)
    {rest : List Char} (hr : Tail rest) :
    (stripLit ic w x = some [] ∧ stripLit ic w (x ++ rest) = some rest) ∨
    (stripLit ic w x ≠ some [] ∧
      (stripLit ic w (x ++ rest) = none ∨ ∃ r', stripLit ic w (x ++ rest) = some r' ∧ Good r')) := by
  rw [stripLit_append ic hw.2 x hr]
  cases h : stripLit ic w x with
  | none => exact .inr ⟨by simp, .inl rfl⟩
  | some r =>
    cases r with
    | nil => exact .inl ⟨rfl, by simp⟩
    | cons c r =>
      exact .inr ⟨by simp, .inr ⟨_, rfl, good_of_noSp_cons (stripLit_noSp hx h) rest⟩⟩

theorem lit_last (ic : Bool) {w x : List Char} (hw : cleanWord w) (hx : NoSp x)
    {rest : List Char} (hr : Tail rest) :
    matchToks ic false [.lit w] (x ++ rest) = if stripLit ic w x = some [] then some [] else none := by
  rcases stripLit_word ic hw hx hr with ⟨h1, h2⟩ | ⟨h1, h2 | ⟨r', h2, hg⟩⟩
  · simp [matchToks, matchOne, h1, h2, boundary_tail hr]
  · simp [matchToks, matchOne, h1, h2]
  · simp [matchToks, matchOne, h1, h2, boundary_good hg]

theorem lit_cons (ic : Bool) {w x : List Char} (hw : cleanWord w) (hx : NoSp x)
    (t : Tok) (m : List Tok) {r : List Char} (hg : Good r) :
    matchToks ic false (.lit w :: t :: m) (x ++ ' ' :: r) =
      if stripLit ic w x = some [] then matchToks ic false (t :: m) r else none := by
  have hr : Tail (' ' :: r) := .inr ⟨r, rfl⟩
  rcases stripLit_word ic hw hx hr with ⟨h1, h2⟩ | ⟨h1, h2 | ⟨r', h2, hg'⟩⟩
  · rw [matchToks]
    simp only [matchOne, h1, h2, Option.map_some, sep_space hg, if_true]
    cases matchToks ic false (t :: m) r <;> simp
  · simp [matchToks, matchOne, h1, h2]
  · simp [matchToks, matchOne, h1, h2, sep_good hg']

theorem lit_cons_end (ic : Bool) {w x : List Char} (hw : cleanWord w) (hx : NoSp x)
    (t : Tok) (m : List Tok) :
    matchToks ic false (.lit w :: t :: m) x = none := by
  have hr : Tail [] := .inl rfl
  have := stripLit_word ic hw hx hr
  rw [List.append_nil] at this
  rcases this with ⟨h1, h2⟩ | ⟨h1, h2 | ⟨r', h2, hg'⟩⟩
  · simp [matchToks, matchOne, h2, sep_nil]
  · simp [matchToks, matchOne, h2]
  · simp [matchToks, matchOne, h2, sep_good hg']

theorem star_last (ic : Bool) {x : List Char} (hx : cleanWord x) {rest : List Char} (hr : Tail rest) :
    matchToks ic false [.star] (x ++ rest) = some [x] := by
  have hne : x.isEmpty = false := by
    cases x with
    | nil => exact absurd rfl hx.1
    | cons _ _ => rfl
  simp [matchToks, matchOne, takeWhile_word hx.2 hr, dropWhile_word hx.2 hr, hne, boundary_tail hr]

theorem star_cons (ic : Bool) {x : List Char} (hx : cleanWord x) (t : Tok) (m : List Tok)
    {r : List Char} (hg : Good r) :
    matchToks ic false (.star :: t :: m) (x ++ ' ' :: r) =
      (matchToks ic false (t :: m) r).map (x :: ·) := by
  have hr : Tail (' ' :: r) := .inr ⟨r, rfl⟩
  have hne : x.isEmpty = false := by
    cases x with
    | nil => exact absurd rfl hx.1
    | cons _ _ => rfl
  rw [matchToks]
  simp only [matchOne, takeWhile_word hx.2 hr, dropWhile_word hx.2 hr, hne, Bool.false_eq_true,
    if_false, sep_space hg]
  cases matchToks ic false (t :: m) r <;> simp

theorem star_cons_end (ic : Bool) {x : List Char} (hx : cleanWord x) (t : Tok) (m : List Tok) :
    matchToks ic false (.star :: t :: m) x = none := by
  have hr : Tail [] := .inl rfl
  have h1 := takeWhile_word hx.2 hr
  have h2 := dropWhile_word hx.2 hr
  rw [List.append_nil] at h1 h2
  have hne : x.isEmpty = false := by
    cases x with
    | nil => exact absurd rfl hx.1
    | cons _ _ => rfl
  simp [matchToks, matchOne, h1, h2, hne, sep_nil]

theorem tilde_last (ic : Bool) {r : List Char} (hr : r ≠ []) :
    matchToks ic false [.tilde] r = some [r] := by
  cases r with
  | nil => exact absurd rfl hr
  | cons c r => simp [matchToks, matchOne]

theorem refWords_nil_right (ic : Bool) (t : Tok) (m : List Tok) : refWords ic (t :: m) [] = none := by
  cases t with
  | lit w => simp [refWords]
  | star => simp [refWords]
  | tilde =>
    cases m with
    | nil => simp [refWords]
    | cons _ _ => simp [refWords]

theorem matchToks_nil_right (ic : Bool) (t : Tok) (m : List Tok) (hwf : WFToks (t :: m)) :
    matchToks ic false (t :: m) [] = none := by
  cases t with
  | lit w =>
    have hw : cleanWord w := by
      cases m <;> exact hwf.1
    obtain ⟨hne, _⟩ := hw
    cases w with
    | nil => exact absurd rfl hne
    | cons a w => simp [matchToks, matchOne, stripLit]
  | star => simp [matchToks, matchOne]
  | tilde => simp [matchToks, matchOne]

theorem wf_lit {w : List Char} {more : List Tok} (h : WFToks (.lit w :: more)) :
    cleanWord w ∧ WFToks more := by
  cases more <;> simpa [WFToks] using h

theorem wf_star {more : List Tok} (h : WFToks (.star :: more)) : WFToks more := by
  simpa [WFToks] using h

theorem wf_tilde {more : List Tok} (h : WFToks (.tilde :: more)) : more = [] := by
  cases more with
  | nil => rfl
  | cons _ _ => simp [WFToks] at h

/-! ### the nine lemmas -/

theorem match_is_word_semantics (ic : Bool) (toks : List Tok) (ws : List (List Char))
    (hwf : WFToks toks) (hne : toks ≠ []) (hws : ∀ w ∈ ws, cleanWord w) :
    matchToks ic false toks (joinWords ws) = refWords ic toks ws := by
  induction toks generalizing ws with
  | nil => exact absurd rfl hne
  | cons t more ih =>
    cases ws with
    | nil => rw [joinWords_nil, refWords_nil_right, matchToks_nil_right ic t more hwf]
    | cons x ws =>
      have hx : cleanWord x := hws x (by simp)
      have hws' : ∀ w ∈ ws, cleanWord w := fun w hw => hws w (by simp [hw])
      obtain ⟨rest, hj, hcase⟩ := joinWords_tail hws' x
      have hr : Tail rest := by
        rcases hcase with ⟨_, rfl⟩ | ⟨_, rfl, _⟩
        · exact .inl rfl
        · exact .inr ⟨_, rfl⟩
      rw [hj]
      cases t with
      | lit w =>
        obtain ⟨hw, hwf'⟩ := wf_lit hwf
        cases more with
        | nil => rw [lit_last ic hw hx.2 hr]; simp [refWords]
        | cons t' m =>
          rcases hcase with ⟨rfl, rfl⟩ | ⟨_, rfl, hg⟩
          · rw [List.append_nil, lit_cons_end ic hw hx.2]; simp [refWords, refWords_nil_right]
          · rw [lit_cons ic hw hx.2 t' m hg, ih ws hwf' (by simp) hws']; simp [refWords]
      | star =>
        have hwf' := wf_star hwf
        cases more with
        | nil => rw [star_last ic hx hr]; simp [refWords]
        | cons t' m =>
          rcases hcase with ⟨rfl, rfl⟩ | ⟨_, rfl, hg⟩
          · rw [List.append_nil, star_cons_end ic hx]; simp [refWords, refWords_nil_right]
          · rw [star_cons ic hx t' m hg, ih ws hwf' (by simp) hws']; simp [refWords]
      | tilde =>
        obtain rfl := wf_tilde hwf
        rw [← hj, tilde_last ic (by
          intro h0
          exact not_good_nil (h0 ▸ good_joinWords hx ws))]
        simp [refWords, joinWords]

theorem matchOne_length {ic : Bool} {t : Tok} {rest rest' : List Char} {caps : List (List Char)}
    (h : matchOne ic t rest = some (caps, rest')) : caps.length = holes [t] := by
  cases t with
  | lit w =>
    simp only [matchOne, Option.map_eq_some_iff] at h
    obtain ⟨_, _, h⟩ := h
    cases h; rfl
  | star =>
    simp only [matchOne] at h
    split at h
    · cases h
    · cases h; rfl
  | tilde =>
    simp only [matchOne] at h
    split at h
    · cases h
    · cases h; rfl

theorem holes_cons (t : Tok) (more : List Tok) : holes (t :: more) = holes [t] + holes more := by
  simp only [holes, List.countP_cons, List.countP_nil]; omega

/-- holds for any token list: a `~` that is not last never matches -/
theorem key_length (ic ell : Bool) (toks : List Tok) (row : List Char)
    (key : List (List Char))
    (h : matchToks ic ell toks row = some key) : key.length = holes toks := by
  induction toks generalizing row key with
  | nil =>
    simp only [matchToks] at h
    split at h
    · cases h; rfl
    · cases h
  | cons t more ih =>
    rw [matchToks] at h
    cases hm : matchOne ic t row with
    | none => simp [hm] at h
    | some p =>
      obtain ⟨caps, rest'⟩ := p
      have hl := matchOne_length hm
      simp only [hm] at h
      cases more with
      | nil =>
        simp only at h
        split at h
        · cases h; rw [hl]
        · cases h
      | cons t' m =>
        simp only at h
        cases hs : sep rest' with
        | none => simp [hs] at h
        | some r2 =>
          simp only [hs, Option.map_eq_some_iff] at h
          obtain ⟨k', hk', rfl⟩ := h
          rw [holes_cons, List.length_append, hl, ih r2 k' hk']

theorem key_is_placeholders (ic ell : Bool) (toks : List Tok) (row : List Char)
    (key : List (List Char)) (hwf : WFToks toks)
    (h : matchToks ic ell toks row = some key) : key.length = holes toks :=
  (fun _ => key_length ic ell toks row key h) hwf

theorem star_binds_one_word (ic : Bool) (pre post : List Tok) (ws : List (List Char))
    (key : List (List Char)) (h : refWords ic (pre ++ .star :: post) ws = some key) :
    ∃ w, ws[pre.length]? = some w ∧ key[holes pre]? = some w := by
  induction pre generalizing ws key with
  | nil =>
    cases ws with
    | nil => simp [refWords] at h
    | cons x ws =>
      simp only [List.nil_append, refWords, Option.map_eq_some_iff] at h
      obtain ⟨k', _, rfl⟩ := h
      exact ⟨x, by simp, by simp [holes]⟩
  | cons t pre ih =>
    cases ws with
    | nil => rw [List.cons_append, refWords_nil_right] at h; cases h
    | cons x ws =>
      cases t with
      | lit w =>
        simp only [List.cons_append, refWords] at h
        split at h
        · obtain ⟨w', h1, h2⟩ := ih ws key h
          exact ⟨w', by simpa using h1, by rw [holes_cons]; simpa [holes] using h2⟩
        · cases h
      | star =>
        simp only [List.cons_append, refWords, Option.map_eq_some_iff] at h
        obtain ⟨k', hk', rfl⟩ := h
        obtain ⟨w', h1, h2⟩ := ih ws k' hk'
        refine ⟨w', by simpa using h1, ?_⟩
        rw [holes_cons]
        have : holes [Tok.star] + holes pre = holes pre + 1 := by simp [holes]; omega
        rw [this]; simpa using h2
      | tilde =>
        cases pre <;> simp [refWords] at h

theorem endsWithTilde_cons {t t' : Tok} {m : List Tok} (h : endsWithTilde (t :: t' :: m) = false) :
    endsWithTilde (t' :: m) = false := by
  simpa [endsWithTilde, List.getLast?_cons_cons] using h

theorem prefix_semantics (ic : Bool) (toks : List Tok) (ws more key : List (List Char))
    (hnt : endsWithTilde toks = false)
    (h : refWords ic toks ws = some key) : refWords ic toks (ws ++ more) = some key := by
  induction toks generalizing ws key with
  | nil => simpa [refWords] using h
  | cons t m ih =>
    have hm : endsWithTilde m = false := by
      cases m with
      | nil => simp [endsWithTilde]
      | cons t' m' => exact endsWithTilde_cons hnt
    cases ws with
    | nil => rw [refWords_nil_right] at h; cases h
    | cons x ws =>
      cases t with
      | lit w =>
        simp only [List.cons_append, refWords] at h ⊢
        split at h
        · rename_i hc; rw [if_pos hc]; exact ih ws key hm h
        · cases h
      | star =>
        simp only [List.cons_append, refWords, Option.map_eq_some_iff] at h ⊢
        obtain ⟨k', hk', rfl⟩ := h
        exact ⟨k', ih ws k' hm hk', rfl⟩
      | tilde =>
        cases m with
        | nil => simp [endsWithTilde] at hnt
        | cons _ _ => simp [refWords] at h

theorem word_boundary (ic : Bool) (w r : List Char) (c : Char) (hc : pyIsSpace c = false) :
    matchToks ic false [.lit w] (w ++ c :: r) = none := by
  simp [matchToks, matchOne, stripLit_self, boundary, hc]

def rtok : Tok → RTok
  | .lit w => RTok.word w
  | .star => RTok.hole
  | .tilde => RTok.hole

theorem format_map (toks : List Tok) (key : List (List Char)) (hk : holes toks ≤ key.length) :
    format (toks.map rtok) key = some (subst toks key) := by
  induction toks generalizing key with
  | nil => simp [format, subst]
  | cons t m ih =>
    rw [holes_cons] at hk
    cases t with
    | lit w =>
      simp only [List.map_cons, rtok, format, subst]
      rw [ih key (by omega)]; rfl
    | star =>
      cases key with
      | nil => simp [holes] at hk
      | cons k key =>
        simp only [List.map_cons, rtok, format, subst]
        rw [ih key (by simp [holes] at hk ⊢; omega)]; rfl
    | tilde =>
      cases key with
      | nil => simp [holes] at hk
      | cons k key =>
        simp only [List.map_cons, rtok, format, subst]
        rw [ih key (by simp [holes] at hk ⊢; omega)]; rfl

theorem makeReverse_eq (pre : List Char) (toks : List Tok) :
    makeReverse pre toks =
      if startsWithPrefixTok pre toks then (toks.drop 1).map rtok else .word pre :: toks.map rtok := by
  have hf : ∀ f : Tok → RTok, (∀ t, f t = rtok t) → ∀ l : List Tok, l.map f = l.map rtok :=
    fun f h l => List.map_congr_left (fun a _ => h a)
  unfold makeReverse
  dsimp only
  rw [hf _ (fun t => by cases t <;> rfl)]
  cases toks with
  | nil => simp [startsWithPrefixTok]
  | cons t m =>
    cases t with
    | lit w =>
      cases m with
      | nil => simp [startsWithPrefixTok]
      | cons t' m' =>
        simp only [startsWithPrefixTok]
        by_cases hw : w = pre <;> simp [hw]
    | star => simp [startsWithPrefixTok]
    | tilde => simp [startsWithPrefixTok]

theorem reverse_format (pre : List Char) (toks : List Tok) (key : List (List Char))
    (hk : holes toks ≤ key.length) :
    format (makeReverse pre toks) key =
      some (if startsWithPrefixTok pre toks then subst (toks.drop 1) key else pre :: subst toks key) := by
  rw [makeReverse_eq]
  split
  · rename_i hs
    apply format_map
    cases toks with
    | nil => simpa using hk
    | cons t m =>
      cases t with
      | lit w => rw [holes_cons] at hk; simp [holes] at hk ⊢; omega
      | star => cases m <;> simp [startsWithPrefixTok] at hs
      | tilde => cases m <;> simp [startsWithPrefixTok] at hs
  · simp only [format]
    rw [format_map toks key hk]; rfl

/-- roundtrip, together with the fact that the removal body starts with a non-blank
(what the induction needs to step over the separating blank) -/
theorem roundtrip_aux (ic : Bool) (toks : List Tok) (ws key : List (List Char))
    (hwf : WFToks toks) (hne : toks ≠ []) (hws : ∀ w ∈ ws, cleanWord w)
    (h : refWords ic toks ws = some key) :
    matchToks ic false toks (joinWords (subst toks key)) = some key ∧
      Good (joinWords (subst toks key)) := by
  induction toks generalizing ws key with
  | nil => exact absurd rfl hne
  | cons t more ih =>
    cases ws with
    | nil => rw [refWords_nil_right] at h; cases h
    | cons x ws =>
      have hx : cleanWord x := hws x (by simp)
      have hws' : ∀ w ∈ ws, cleanWord w := fun w hw => hws w (by simp [hw])
      cases t with
      | lit w =>
        obtain ⟨hw, hwf'⟩ := wf_lit hwf
        simp only [refWords] at h
        split at h
        · cases more with
          | nil =>
            simp only [refWords, Option.some.injEq] at h
            subst h
            simp only [subst, joinWords_single]
            refine ⟨?_, by simpa using good_of_clean_append hw []⟩
            have := lit_last ic hw hw.2 (rest := []) (.inl rfl)
            rw [List.append_nil] at this
            rw [this]
            have := stripLit_self ic w []
            rw [List.append_nil] at this
            simp [this]
          | cons t' m =>
            obtain ⟨h1, h2⟩ := ih ws key hwf' (by simp) hws' h
            have hne' : subst (t' :: m) key ≠ [] := by
              intro h0; rw [h0] at h2; exact not_good_nil h2
            simp only [subst]
            rw [joinWords_cons_ne w hne']
            refine ⟨?_, good_of_clean_append hw _⟩
            rw [lit_cons ic hw hw.2 t' m h2, h1]
            have := stripLit_self ic w []
            rw [List.append_nil] at this
            simp [this]
        · cases h
      | star =>
        have hwf' := wf_star hwf
        simp only [refWords, Option.map_eq_some_iff] at h
        obtain ⟨k', hk', rfl⟩ := h
        cases more with
        | nil =>
          simp only [refWords, Option.some.injEq] at hk'
          subst hk'
          simp only [subst, joinWords_single]
          refine ⟨?_, by simpa using good_of_clean_append hx []⟩
          have := star_last ic hx (rest := []) (.inl rfl)
          rwa [List.append_nil] at this
        | cons t' m =>
          obtain ⟨h1, h2⟩ := ih ws k' hwf' (by simp) hws' hk'
          have hne' : subst (t' :: m) k' ≠ [] := by
            intro h0; rw [h0] at h2; exact not_good_nil h2
          simp only [subst]
          rw [joinWords_cons_ne x hne']
          refine ⟨?_, good_of_clean_append hx _⟩
          rw [star_cons ic hx t' m h2, h1]; rfl
      | tilde =>
        obtain rfl := wf_tilde hwf
        simp only [refWords, List.isEmpty_cons, Bool.false_eq_true, if_false, Option.some.injEq] at h
        subst h
        have hg : Good (joinWords (x :: ws)) := good_joinWords hx ws
        simp only [subst, joinWords_single]
        refine ⟨?_, hg⟩
        exact tilde_last ic (fun h0 => not_good_nil (h0 ▸ hg))

theorem reverse_roundtrip (ic : Bool) (toks : List Tok) (ws key : List (List Char))
    (hwf : WFToks toks) (hne : toks ≠ []) (hws : ∀ w ∈ ws, cleanWord w)
    (h : refWords ic toks ws = some key) :
    matchToks ic false toks (joinWords (subst toks key)) = some key :=
  (roundtrip_aux ic toks ws key hwf hne hws h).1

theorem negate_involutive (pre : List Char) (ws : List (List Char)) (hne : ws ≠ [])
    (hg : ¬ ∃ w rest, ws = pre :: pre :: w :: rest) :
    negate pre (negate pre ws) = ws := by
  cases ws with
  | nil => exact absurd rfl hne
  | cons a l =>
    cases l with
    | nil => simp [negate, startsWithPrefix]
    | cons b l =>
      by_cases hab : a = pre
      · subst hab
        cases l with
        | nil => simp [negate, startsWithPrefix]
        | cons c l =>
          have hb : b ≠ a := by
            rintro rfl
            exact hg ⟨c, l, rfl⟩
          simp [negate, startsWithPrefix, hb]
      · simp [negate, startsWithPrefix, hab]

theorem matchOne_false_true {t : Tok} {rest : List Char} {p : List (List Char) × List Char}
    (h : matchOne false t rest = some p) : matchOne true t rest = some p := by
  cases t with
  | lit w =>
    simp only [matchOne, Option.map_eq_some_iff] at h ⊢
    obtain ⟨r, hr, rfl⟩ := h
    exact ⟨r, stripLit_false_true hr, rfl⟩
  | star => simpa [matchOne] using h
  | tilde => simpa [matchOne] using h

theorem ignorecase_extends (ell : Bool) (toks : List Tok) (row : List Char) (key : List (List Char))
    (h : matchToks false ell toks row = some key) : matchToks true ell toks row = some key := by
  induction toks generalizing row key with
  | nil => simpa [matchToks] using h
  | cons t more ih =>
    rw [matchToks] at h ⊢
    cases hm : matchOne false t row with
    | none => simp [hm] at h
    | some p =>
      obtain ⟨caps, rest'⟩ := p
      simp only [hm] at h
      simp only [matchOne_false_true hm]
      cases more with
      | nil => exact h
      | cons t' m =>
        simp only at h ⊢
        cases hs : sep rest' with
        | none => simp [hs] at h
        | some r2 =>
          simp only [hs, Option.map_eq_some_iff] at h ⊢
          obtain ⟨k', hk', rfl⟩ := h
          exact ⟨k', ih r2 k' hk', rfl⟩

end Annet.Pattern.Lemmas
