/-
Helper lemmas for C18 (`Model/Hw.lean`).
-/
import AnnetModel.Model.Hw
import AnnetModel.Spec.Hw

namespace Annet.Hw.Lemmas
open Annet.Hw

variable {α : Type} [DecidableEq α] {ρ : Type} [DecidableEq ρ]

set_option linter.unusedSectionVars false

theorem eq_nil_or_snoc {β : Type} (l : List β) : l = [] ∨ ∃ init z, l = init ++ [z] := by
  rcases List.eq_nil_or_concat l with h | ⟨L, b, h⟩
  · exact Or.inl h
  · exact Or.inr ⟨L, b, by simpa using h⟩

/-! ### A. prefixes, slices, variants -/

theorem mem_prefixes {x l : List α} : x ∈ prefixes l ↔ x <+: l := by
  induction l generalizing x with
  | nil => simp [prefixes]
  | cons a l ih =>
    simp only [prefixes, List.mem_cons, List.mem_map, List.prefix_cons_iff]
    constructor
    · rintro (h | ⟨y, hy, rfl⟩)
      · exact Or.inl h
      · exact Or.inr ⟨y, rfl, ih.mp hy⟩
    · rintro (h | ⟨t, rfl, ht⟩)
      · exact Or.inl h
      · exact Or.inr ⟨t, ih.mpr ht, rfl⟩

theorem mem_neInfixes {x l : List α} : x ∈ neInfixes l ↔ x ≠ [] ∧ x <:+: l := by
  induction l generalizing x with
  | nil => simp [neInfixes]
  | cons a l ih =>
    simp only [neInfixes, List.mem_append, List.mem_map, mem_prefixes, List.infix_cons_iff, ih]
    constructor
    · rintro (⟨y, hy, rfl⟩ | ⟨hne, hi⟩)
      · exact ⟨by simp, Or.inl (by simpa [List.prefix_cons_iff] using hy)⟩
      · exact ⟨hne, Or.inr hi⟩
    · rintro ⟨hne, hp | hi⟩
      · rcases List.prefix_cons_iff.mp hp with h | ⟨t, rfl, ht⟩
        · exact absurd h hne
        · exact Or.inl ⟨t, ht, rfl⟩
      · exact Or.inr ⟨hne, hi⟩

theorem mem_infixes {x l : List α} : x ∈ infixes l ↔ x <:+: l := by
  simp only [infixes, List.mem_cons, mem_neInfixes]
  constructor
  · rintro (rfl | ⟨_, h⟩)
    · exact List.nil_infix
    · exact h
  · intro h
    by_cases hx : x = []
    · exact Or.inl hx
    · exact Or.inr ⟨hx, h⟩

/-- `v` is a variant of `s`: a contiguous slice of `s` without its last component, then the last component. -/
theorem mem_variants {v s : List α} :
    v ∈ variants s ↔ ∃ pre mid post z, s = pre ++ mid ++ post ++ [z] ∧ v = mid ++ [z] := by
  unfold variants
  rcases eq_nil_or_snoc s with rfl | ⟨init, z, rfl⟩
  · simp
  · simp only [List.getLast?_concat, List.dropLast_concat, List.mem_map, mem_infixes]
    constructor
    · rintro ⟨mid, ⟨pre, post, h⟩, rfl⟩
      exact ⟨pre, mid, post, z, by simp [← h], rfl⟩
    · rintro ⟨pre, mid, post, z', h, rfl⟩
      have h' : init ++ [z] = (pre ++ mid ++ post) ++ [z'] := by simpa using h
      have := List.append_inj' h' rfl
      obtain ⟨h1, h2⟩ := this
      simp only [List.cons.injEq, and_true] at h2
      subst h2
      exact ⟨mid, ⟨pre, post, h1.symm⟩, rfl⟩

theorem variants_ne_nil {v s : List α} (h : v ∈ variants s) : v ≠ [] := by
  obtain ⟨_, _, _, _, _, rfl⟩ := mem_variants.mp h
  simp

/-- the full sequence is one of its own variants -/
theorem self_mem_variants {s : List α} (h : s ≠ []) : s ∈ variants s := by
  rcases eq_nil_or_snoc s with rfl | ⟨init, z, rfl⟩
  · exact absurd rfl h
  · exact mem_variants.mpr ⟨[], init, [], z, by simp, rfl⟩

/-- A proper non-empty prefix of a variant of `s` is a variant of a proper non-empty prefix of `s`. -/
theorem variant_prefix {v s q : List α} (hv : v ∈ variants s) (hq : q <+: v) (hne : q ≠ [])
    (hlt : q ≠ v) : ∃ s', s' <+: s ∧ s' ≠ [] ∧ s' ≠ s ∧ q ∈ variants s' := by
  obtain ⟨pre, mid, post, z, rfl, rfl⟩ := mem_variants.mp hv
  obtain ⟨r, hr⟩ := hq
  -- q ++ r = mid ++ [z], r ≠ []
  have hr_ne : r ≠ [] := by
    intro h; subst h; simp at hr; exact hlt hr
  rcases eq_nil_or_snoc r with rfl | ⟨r0, z', rfl⟩
  · exact absurd rfl hr_ne
  · have h' : (q ++ r0) ++ [z'] = mid ++ [z] := by simpa using hr
    obtain ⟨h1, _⟩ := List.append_inj' h' rfl
    -- mid = q ++ r0
    rcases eq_nil_or_snoc q with rfl | ⟨q0, y, rfl⟩
    · exact absurd rfl hne
    · refine ⟨pre ++ q0 ++ [y], ?_, by simp, ?_, ?_⟩
      · exact ⟨r0 ++ post ++ [z], by simp [← h1]⟩
      · intro h
        have := congrArg List.length h
        simp [← h1] at this
      · exact mem_variants.mpr ⟨pre, q0, [], y, by simp, rfl⟩

theorem mem_seqSubs {x s : List α} : x ∈ seqSubs s ↔ x ≠ [] ∧ x <+: s := by
  induction s generalizing x with
  | nil => simp [seqSubs]
  | cons a s ih =>
    simp only [seqSubs, List.mem_cons, List.mem_map, ih, List.prefix_cons_iff]
    constructor
    · rintro (rfl | ⟨y, ⟨_, hy⟩, rfl⟩)
      · exact ⟨by simp, Or.inr ⟨[], rfl, List.nil_prefix⟩⟩
      · exact ⟨by simp, Or.inr ⟨y, rfl, hy⟩⟩
    · rintro ⟨hne, h | ⟨t, rfl, ht⟩⟩
      · exact absurd h hne
      · by_cases htn : t = []
        · subst htn; exact Or.inl rfl
        · exact Or.inr ⟨t, ⟨htn, ht⟩, rfl⟩

theorem seqSubs_append (s₁ s₂ : List α) :
    seqSubs (s₁ ++ s₂) = seqSubs s₁ ++ (seqSubs s₂).map (s₁ ++ ·) := by
  induction s₁ with
  | nil => simp [seqSubs]
  | cons a s ih => simp [seqSubs, ih, List.map_map, Function.comp_def]

theorem seqSubs_concat (s : List α) (a : α) : seqSubs (s ++ [a]) = seqSubs s ++ [s ++ [a]] := by
  simp [seqSubs_append, seqSubs]

theorem length_seqSubs (s : List α) : (seqSubs s).length = s.length := by
  induction s with
  | nil => rfl
  | cons a s ih => simp [seqSubs, ih]


/-! ### B. the counter and the allowed variants -/

theorem variantCount_eq (P : List (List α × ρ)) (v : List α) :
    variantCount P v = (P.filter fun e => decide (v ∈ variants e.1)).length := by
  simp [variantCount, countIn, variantLists, List.filter_map, Function.comp_def]

theorem mem_allowed {P : List (List α × ρ)} {s v : List α} :
    v ∈ allowed P s ↔ v ∈ variants s ∧ variantCount P v ≤ 1 := by
  simp [allowed, allowedIn, variantCount]

/-- Two entries of the database that both have the variant `v`, counted at most once, are the same entry. -/
theorem entry_unique {P : List (List α × ρ)} {e₁ e₂ : List α × ρ} {v : List α}
    (h₁ : e₁ ∈ P) (h₂ : e₂ ∈ P) (v₁ : v ∈ variants e₁.1) (v₂ : v ∈ variants e₂.1)
    (hc : variantCount P v ≤ 1) : e₁ = e₂ := by
  rw [variantCount_eq] at hc
  have m₁ : e₁ ∈ P.filter fun e => decide (v ∈ variants e.1) := by simp [h₁, v₁]
  have m₂ : e₂ ∈ P.filter fun e => decide (v ∈ variants e.1) := by simp [h₂, v₂]
  generalize P.filter (fun e => decide (v ∈ variants e.1)) = l at hc m₁ m₂
  match l, hc, m₁, m₂ with
  | [x], _, m₁, m₂ =>
    simp at m₁ m₂; rw [m₁, m₂]

theorem variantCount_pos {P : List (List α × ρ)} {e : List α × ρ} {v : List α}
    (h : e ∈ P) (hv : v ∈ variants e.1) : 1 ≤ variantCount P v := by
  rw [variantCount_eq]
  have m : e ∈ P.filter fun e => decide (v ∈ variants e.1) := by simp [h, hv]
  exact List.length_pos_of_mem m

theorem mem_allSequences {P : List (List α × ρ)} {v : List α} :
    v ∈ allSequences P ↔ variantCount P v = 1 := by
  simp only [allSequences, List.mem_flatMap, mem_allowed]
  constructor
  · rintro ⟨e, he, hv, hc⟩
    have := variantCount_pos he hv
    omega
  · intro h
    have hpos : 0 < (P.filter fun e => decide (v ∈ variants e.1)).length := by
      rw [variantCount_eq] at h; omega
    obtain ⟨e, he⟩ := List.exists_mem_of_length_pos hpos
    simp only [List.mem_filter, decide_eq_true_eq] at he
    exact ⟨e, he.1, he.2, by omega⟩

theorem lookup_some {P : List (List α × ρ)} {s : List α} {r : ρ} (h : lookup P s = some r) :
    (s, r) ∈ P := by
  induction P with
  | nil => simp [lookup] at h
  | cons e rest ih =>
    simp only [lookup] at h
    split at h
    · next he =>
      simp only [Option.some.injEq] at h
      subst h; subst he
      exact List.mem_cons_self
    · exact List.mem_cons_of_mem _ (ih h)


/-! ### C. the tree as a set of nodes `(regexp path, sequences)` -/

mutual
/-- every node of the tree with the regexps on the way to it -/
def nodes : Tree α ρ → List (List ρ × List (List α))
  | .mk ks => nodesKids ks
def nodesKids : List (Kid α ρ) → List (List ρ × List (List α))
  | [] => []
  | (r, sq, ch) :: rest => ([r], sq) :: ((nodes ch).map fun n => (r :: n.1, n.2)) ++ nodesKids rest
end

theorem nodes_mk (ks : List (Kid α ρ)) : nodes (Tree.mk ks) = nodesKids ks := by simp [nodes]

theorem nodes_eq_kids (t : Tree α ρ) : nodes t = nodesKids t.kids := by
  cases t; simp [nodes, Tree.kids]

theorem nodesKids_append (k₁ k₂ : List (Kid α ρ)) :
    nodesKids (k₁ ++ k₂) = nodesKids k₁ ++ nodesKids k₂ := by
  induction k₁ with
  | nil => simp [nodesKids]
  | cons k rest ih =>
    obtain ⟨r, sq, ch⟩ := k
    simp [nodesKids, ih]

theorem nodesKids_cons (r : ρ) (sq : List (List α)) (ch : Tree α ρ) (rest : List (Kid α ρ)) :
    nodesKids ((r, sq, ch) :: rest)
      = ([r], sq) :: ((nodes ch).map fun n => (r :: n.1, n.2)) ++ nodesKids rest := by
  simp [nodesKids]

/-- `find_true_sequences` collects the sequences of exactly those nodes all of whose regexps, from the root
down, match. -/
theorem mem_findTrue (m : ρ → Bool) (t : Tree α ρ) (v : List α) :
    v ∈ t.findTrue m ↔ ∃ n ∈ nodes t, (∀ r ∈ n.1, m r = true) ∧ v ∈ n.2 := by
  apply @Tree.rec α ρ
    (motive_1 := fun t => ∀ v, v ∈ t.findTrue m ↔ ∃ n ∈ nodes t, (∀ r ∈ n.1, m r = true) ∧ v ∈ n.2)
    (motive_2 := fun ks => ∀ v, v ∈ findTrueKids m ks ↔
        ∃ n ∈ nodesKids ks, (∀ r ∈ n.1, m r = true) ∧ v ∈ n.2)
    (motive_3 := fun k => ∀ v, v ∈ k.2.2.findTrue m ↔
        ∃ n ∈ nodes k.2.2, (∀ r ∈ n.1, m r = true) ∧ v ∈ n.2)
    (motive_4 := fun k => ∀ v, v ∈ k.2.findTrue m ↔
        ∃ n ∈ nodes k.2, (∀ r ∈ n.1, m r = true) ∧ v ∈ n.2)
  · intro ks ih v
    simpa [Tree.findTrue, nodes] using ih v
  · intro v; simp [findTrueKids, nodesKids]
  · intro k rest ihk ihrest v
    obtain ⟨r, sq, ch⟩ := k
    simp only [findTrueKids, nodesKids_cons, List.mem_append, List.mem_cons, List.mem_map]
    rw [ihrest v]
    constructor
    · rintro (h | h)
      · split at h
        · next hm =>
          rcases List.mem_append.mp h with h | h
          · exact ⟨([r], sq), Or.inl (Or.inl rfl), by simpa using hm, h⟩
          · obtain ⟨n, hn, hall, hv⟩ := (ihk v).mp h
            refine ⟨(r :: n.1, n.2), Or.inl (Or.inr ⟨n, hn, rfl⟩), ?_, hv⟩
            intro r' hr'
            rcases List.mem_cons.mp hr' with rfl | h'
            · exact hm
            · exact hall _ h'
        · simp at h
      · obtain ⟨n, hn, hall, hv⟩ := h
        exact ⟨n, Or.inr hn, hall, hv⟩
    · rintro ⟨n, (hn | hn) | hn, hall, hv⟩
      · subst hn
        have hm : m r = true := hall r (by simp)
        left; simp [hm]; exact Or.inl hv
      · obtain ⟨n', hn', rfl⟩ := hn
        have hm : m r = true := hall r (by simp)
        left; simp only [hm, if_true, List.mem_append]
        right
        exact (ihk v).mpr ⟨n', hn', fun r' hr' => hall r' (List.mem_cons_of_mem _ hr'), hv⟩
      · exact Or.inr ⟨n, hn, hall, hv⟩
  · intro r p ih v; exact ih v
  · intro sq t ih v; exact ih v


/-- the nodes a chain would create in an empty tree -/
def chainNodes : List (ρ × List (List α)) → List (List ρ × List (List α))
  | [] => []
  | c :: cs => ([c.1], c.2) :: (chainNodes cs).map fun n => (c.1 :: n.1, n.2)

theorem nodes_ofChain (c : List (ρ × List (List α))) : nodes (Tree.ofChain c) = chainNodes c := by
  induction c with
  | nil => simp [Tree.ofChain, nodes, nodesKids, chainNodes]
  | cons x cs ih => simp [Tree.ofChain, nodes, nodesKids, chainNodes, ih]

theorem updFirst_some {r : ρ} {f : Tree α ρ → Tree α ρ} {ks ks' : List (Kid α ρ)}
    (h : updFirst r f ks = some ks') :
    ∃ k₁ sq ch k₂, ks = k₁ ++ (r, sq, ch) :: k₂ ∧ ks' = k₁ ++ (r, sq, f ch) :: k₂ := by
  induction ks generalizing ks' with
  | nil => simp [updFirst] at h
  | cons k rest ih =>
    obtain ⟨r', sq, ch⟩ := k
    simp only [updFirst] at h
    split at h
    · next hr =>
      simp only [Option.some.injEq] at h
      subst hr
      exact ⟨[], sq, ch, rest, rfl, by simp [← h]⟩
    · cases hu : updFirst r f rest with
      | none => simp [hu] at h
      | some ks'' =>
        simp only [hu, Option.map_some, Option.some.injEq] at h
        obtain ⟨k₁, sq', ch', k₂, e₁, e₂⟩ := ih hu
        exact ⟨(r', sq, ch) :: k₁, sq', ch', k₂, by simp [e₁], by simp [← h, e₂]⟩

/-- The three facts about one iteration of the outer loop of `_build_tree`. -/
theorem insert_spec (c : List (ρ × List (List α))) (t : Tree α ρ) :
    (∀ n, n ∈ nodes t → n ∈ nodes (t.insert c)) ∧
    (∀ n, n ∈ nodes (t.insert c) → n ∈ nodes t ∨ n ∈ chainNodes c) ∧
    (∀ n, n ∈ chainNodes c → ∃ sq, (n.1, sq) ∈ nodes (t.insert c)) := by
  induction c generalizing t with
  | nil => simp [Tree.insert, chainNodes]
  | cons x cs ih =>
    simp only [Tree.insert]
    cases hu : updFirst x.1 (Tree.insert cs) t.kids with
    | none =>
      simp only [nodes_mk, nodesKids_append, ← nodes_eq_kids]
      have hn : nodesKids [(x.1, x.2, Tree.ofChain cs)] = chainNodes (x :: cs) := by
        simp [nodesKids, chainNodes, nodes_ofChain]
      rw [hn]
      refine ⟨fun n h => List.mem_append_left _ h, fun n h => List.mem_append.mp h, fun n h => ?_⟩
      exact ⟨n.2, List.mem_append_right _ h⟩
    | some ks' =>
      obtain ⟨k₁, sq, ch, k₂, e₁, e₂⟩ := updFirst_some hu
      obtain ⟨ihm, ihs, ihp⟩ := ih ch
      have ht : nodes t = nodesKids k₁ ++ (([x.1], sq) :: ((nodes ch).map fun n => (x.1 :: n.1, n.2))
          ++ nodesKids k₂) := by
        rw [nodes_eq_kids, e₁, nodesKids_append, nodesKids_cons]
      have ht' : nodes (Tree.mk ks') = nodesKids k₁ ++ (([x.1], sq) ::
          ((nodes (ch.insert cs)).map fun n => (x.1 :: n.1, n.2)) ++ nodesKids k₂) := by
        rw [nodes_mk, e₂, nodesKids_append, nodesKids_cons]
      simp only [ht, ht']
      refine ⟨fun n h => ?_, fun n h => ?_, fun n h => ?_⟩
      · simp only [List.mem_append, List.mem_cons, List.mem_map] at h ⊢
        rcases h with h | (h | ⟨n', hn', rfl⟩) | h
        · exact Or.inl h
        · exact Or.inr (Or.inl (Or.inl h))
        · exact Or.inr (Or.inl (Or.inr ⟨n', ihm _ hn', rfl⟩))
        · exact Or.inr (Or.inr h)
      · simp only [List.mem_append, List.mem_cons, List.mem_map, chainNodes] at h ⊢
        rcases h with h | (h | ⟨n', hn', rfl⟩) | h
        · exact Or.inl (Or.inl h)
        · exact Or.inl (Or.inr (Or.inl (Or.inl h)))
        · rcases ihs _ hn' with h' | h'
          · exact Or.inl (Or.inr (Or.inl (Or.inr ⟨n', h', rfl⟩)))
          · exact Or.inr (Or.inr ⟨n', h', rfl⟩)
        · exact Or.inl (Or.inr (Or.inr h))
      · simp only [chainNodes, List.mem_cons, List.mem_map] at h
        rcases h with rfl | ⟨n', hn', rfl⟩
        · exact ⟨sq, by simp⟩
        · obtain ⟨sq', hsq'⟩ := ihp _ hn'
          refine ⟨sq', ?_⟩
          simp only [List.mem_append, List.mem_cons, List.mem_map]
          exact Or.inr (Or.inl (Or.inr ⟨(n'.1, sq'), hsq', rfl⟩))


/-! ### D. chains and the invariants of `_build_tree` -/

theorem snoc_induction {β : Type} {motive : List β → Prop} (nil : motive [])
    (snoc : ∀ l a, motive l → motive (l ++ [a])) : ∀ l, motive l := by
  intro l
  have : ∀ l : List β, motive l.reverse := by
    intro l
    induction l with
    | nil => simpa using nil
    | cons a l ih => simpa using snoc _ a ih
  simpa using this l.reverse

theorem chainFrom_append (P : List (List α × ρ)) (A : List α → List (List α)) (l₁ l₂ : List (List α)) :
    chainFrom P A (l₁ ++ l₂) = (chainFrom P A l₁).bind fun c₁ => (chainFrom P A l₂).map (c₁ ++ ·) := by
  induction l₁ with
  | nil => simp [chainFrom]
  | cons x l ih =>
    simp only [List.cons_append, chainFrom]
    cases lookup P x with
    | none => simp
    | some r =>
      simp only [ih]
      cases chainFrom P A l with
      | none => simp
      | some c₁ =>
        cases chainFrom P A l₂ with
        | none => simp
        | some c₂ => simp

theorem chainOf_nil (P : List (List α × ρ)) (A : List α → List (List α)) : chainOf P A [] = some [] := by
  simp [chainOf, seqSubs, chainFrom]

theorem chainOf_concat (P : List (List α × ρ)) (A : List α → List (List α)) (s : List α) (a : α) :
    chainOf P A (s ++ [a]) = (chainOf P A s).bind fun c =>
      (lookup P (s ++ [a])).map fun r => c ++ [(r, A (s ++ [a]))] := by
  simp only [chainOf, seqSubs_concat, chainFrom_append, chainFrom]
  cases chainFrom P A (seqSubs s) with
  | none => simp
  | some c =>
    cases lookup P (s ++ [a]) with
    | none => simp
    | some r => simp

theorem chainNodes_concat (c : List (ρ × List (List α))) (x : ρ × List (List α)) :
    chainNodes (c ++ [x]) = chainNodes c ++ [((c ++ [x]).map Prod.fst, x.2)] := by
  induction c with
  | nil => simp [chainNodes]
  | cons y c ih => simp [chainNodes, ih]

theorem chainOf_some_concat {P : List (List α × ρ)} {A : List α → List (List α)} {s : List α} {a : α}
    {c : List (ρ × List (List α))} (h : chainOf P A (s ++ [a]) = some c) :
    ∃ c' r, chainOf P A s = some c' ∧ lookup P (s ++ [a]) = some r ∧
      c = c' ++ [(r, A (s ++ [a]))] := by
  rw [chainOf_concat] at h
  cases hc : chainOf P A s with
  | none => simp [hc] at h
  | some c' =>
    cases hl : lookup P (s ++ [a]) with
    | none => simp [hc, hl] at h
    | some r =>
      simp [hc, hl] at h
      exact ⟨c', r, rfl, rfl, h.symm⟩

/-- The node the tree holds for the sequence `s` when nothing else claimed its regexp path first. -/
def nodeOf (A : List α → List (List α)) (s : List α) (c : List (ρ × List (List α))) :
    List ρ × List (List α) := (c.map Prod.fst, A s)

/-- every node a chain creates is the node of a non-empty prefix of the sequence, and vice versa -/
theorem chainNodes_iff (P : List (List α × ρ)) (A : List α → List (List α)) : ∀ (s : List α) (c : List (ρ × List (List α))),
    chainOf P A s = some c →
    ∀ n, n ∈ chainNodes c ↔ ∃ s₁ c₁, s₁ ∈ seqSubs s ∧ chainOf P A s₁ = some c₁ ∧ n = nodeOf A s₁ c₁ := by
  intro s
  induction s using snoc_induction with
  | nil =>
    intro c h n
    rw [chainOf_nil] at h
    simp only [Option.some.injEq] at h
    subst h
    simp [chainNodes, seqSubs]
  | snoc s a ih =>
    intro c h n
    obtain ⟨c', r, hc', hl, rfl⟩ := chainOf_some_concat h
    rw [chainNodes_concat, seqSubs_concat]
    simp only [List.mem_append, List.mem_singleton, ih c' hc' n]
    constructor
    · rintro (⟨s₁, c₁, hs₁, hc₁, rfl⟩ | rfl)
      · exact ⟨s₁, c₁, Or.inl hs₁, hc₁, rfl⟩
      · exact ⟨s ++ [a], _, Or.inr rfl, h, rfl⟩
    · rintro ⟨s₁, c₁, hs₁ | rfl, hc₁, rfl⟩
      · exact Or.inl ⟨s₁, c₁, hs₁, hc₁, rfl⟩
      · right
        rw [h] at hc₁
        simp only [Option.some.injEq] at hc₁
        subst hc₁
        rfl

/-- a prefix of a sequence whose chain exists has a chain, and it is a prefix of that chain -/
theorem chainOf_prefix {P : List (List α × ρ)} {A : List α → List (List α)} : ∀ {s : List α} {c : List (ρ × List (List α))},
    chainOf P A s = some c → ∀ s₁, s₁ <+: s → ∃ c₁, chainOf P A s₁ = some c₁ ∧ c₁ <+: c := by
  intro s
  induction s using snoc_induction with
  | nil =>
    intro c h s₁ hp
    have : s₁ = [] := List.prefix_nil.mp hp
    subst this
    exact ⟨c, h, List.prefix_refl _⟩
  | snoc s a ih =>
    intro c h s₁ hp
    obtain ⟨c', r, hc', hl, rfl⟩ := chainOf_some_concat h
    rcases List.prefix_concat_iff.mp hp with rfl | hp'
    · exact ⟨_, h, List.prefix_refl _⟩
    · obtain ⟨c₁, hc₁, hpre⟩ := ih hc' s₁ hp'
      exact ⟨c₁, hc₁, hpre.trans (List.prefix_append _ _)⟩

theorem chainOf_lookup {P : List (List α × ρ)} {A : List α → List (List α)} {s : List α} {c : List (ρ × List (List α))}
    (h : chainOf P A s = some c) (hne : s ≠ []) : ∃ r, (s, r) ∈ P := by
  rcases eq_nil_or_snoc s with rfl | ⟨s', a, rfl⟩
  · exact absurd rfl hne
  · obtain ⟨_, r, _, hl, _⟩ := chainOf_some_concat h
    exact ⟨r, lookup_some hl⟩

theorem length_chainOf {P : List (List α × ρ)} {A : List α → List (List α)} : ∀ {s : List α} {c : List (ρ × List (List α))},
    chainOf P A s = some c → c.length = s.length := by
  intro s
  induction s using snoc_induction with
  | nil => intro c h; rw [chainOf_nil] at h; simp at h; simp [← h]
  | snoc s a ih =>
    intro c h
    obtain ⟨c', r, hc', _, rfl⟩ := chainOf_some_concat h
    simp [ih hc']


/-- a node that stands for a sequence of the database -/
def Good (P : List (List α × ρ)) (A : List α → List (List α)) (n : List ρ × List (List α)) : Prop :=
  ∃ s₁ c₁, s₁ ≠ [] ∧ chainOf P A s₁ = some c₁ ∧ n = nodeOf A s₁ c₁

theorem buildFrom_spec (P : List (List α × ρ)) (A : List α → List (List α)) : ∀ (Q : List (List α × ρ)) (t t' : Tree α ρ),
    buildFrom P A Q t = some t' →
    (∀ n, n ∈ nodes t → n ∈ nodes t') ∧
    (∀ n, n ∈ nodes t' → n ∈ nodes t ∨ Good P A n) ∧
    (∀ e ∈ Q, ∀ s₁ ∈ seqSubs e.1, ∃ c₁ sq, chainOf P A s₁ = some c₁ ∧ (c₁.map Prod.fst, sq) ∈ nodes t') := by
  intro Q
  induction Q with
  | nil =>
    intro t t' h
    simp only [buildFrom, Option.some.injEq] at h
    subst h
    exact ⟨fun n h => h, fun n h => Or.inl h, by simp⟩
  | cons e rest ih =>
    intro t t' h
    simp only [buildFrom] at h
    cases hc : chainOf P A e.1 with
    | none => simp [hc] at h
    | some c =>
      simp only [hc] at h
      obtain ⟨im, is, ip⟩ := insert_spec c t
      obtain ⟨hm, hs, hp⟩ := ih _ _ h
      refine ⟨fun n hn => hm n (im n hn), fun n hn => ?_, ?_⟩
      · rcases hs n hn with h' | h'
        · rcases is n h' with h'' | h''
          · exact Or.inl h''
          · obtain ⟨s₁, c₁, hs₁, hc₁, rfl⟩ := (chainNodes_iff P A e.1 c hc n).mp h''
            exact Or.inr ⟨s₁, c₁, (mem_seqSubs.mp hs₁).1, hc₁, rfl⟩
        · exact Or.inr h'
      · intro e' he' s₁ hs₁
        rcases List.mem_cons.mp he' with rfl | he'
        · obtain ⟨c₁, hc₁, _⟩ := chainOf_prefix hc s₁ (mem_seqSubs.mp hs₁).2
          have hmem : nodeOf A s₁ c₁ ∈ chainNodes c :=
            (chainNodes_iff P A e'.1 c hc _).mpr ⟨s₁, c₁, hs₁, hc₁, rfl⟩
          obtain ⟨sq, hsq⟩ := ip _ hmem
          exact ⟨c₁, sq, hc₁, hm _ hsq⟩
        · exact hp e' he' s₁ hs₁

/-- No two sequences of the database lead to the same tree node (same regexps all the way down).
`_build_tree` keys the nested dicts by regexp, so two siblings with one pattern would share a node and the
second one would lose its sequences. -/
def InjPaths (P : List (List α × ρ)) (A : List α → List (List α)) : Prop :=
  ∀ s₁ s₂ c₁ c₂, chainOf P A s₁ = some c₁ → chainOf P A s₂ = some c₂ →
    c₁.map Prod.fst = c₂.map Prod.fst → s₁ = s₂

theorem nodes_good {P : List (List α × ρ)} {A : List α → List (List α)} {t : Tree α ρ} (hb : buildTree P A = some t) :
    ∀ n, n ∈ nodes t → Good P A n := by
  intro n hn
  obtain ⟨_, hs, _⟩ := buildFrom_spec P A P _ _ hb
  rcases hs n hn with h | h
  · simp [nodes, nodesKids] at h
  · exact h

theorem node_of_key {P : List (List α × ρ)} {A : List α → List (List α)} {t : Tree α ρ} (hb : buildTree P A = some t)
    (hinj : InjPaths P A) {e : List α × ρ} (he : e ∈ P) {s₁ : List α} (hs₁ : s₁ ∈ seqSubs e.1) :
    ∃ c₁, chainOf P A s₁ = some c₁ ∧ nodeOf A s₁ c₁ ∈ nodes t := by
  obtain ⟨_, _, hp⟩ := buildFrom_spec P A P _ _ hb
  obtain ⟨c₁, sq, hc₁, hmem⟩ := hp e he s₁ hs₁
  obtain ⟨s₂, c₂, _, hc₂, heq⟩ := nodes_good hb _ hmem
  simp only [nodeOf, Prod.mk.injEq] at heq
  have : s₁ = s₂ := hinj s₁ s₂ c₁ c₂ hc₁ hc₂ heq.1
  subst this
  refine ⟨c₁, hc₁, ?_⟩
  simp only [nodeOf]
  rw [← heq.2]
  exact hmem

/-- everything `find_true_sequences` returns is a known sequence -/
theorem findTrue_sub_all {P : List (List α × ρ)} {t : Tree α ρ} (hb : buildTree P (allowed P) = some t)
    (m : ρ → Bool) {p : List α} (hp : p ∈ t.findTrue m) : p ∈ allSequences P := by
  obtain ⟨n, hn, _, hpn⟩ := (mem_findTrue m t p).mp hp
  obtain ⟨s, c, hne, hc, rfl⟩ := nodes_good hb n hn
  obtain ⟨r, hr⟩ := chainOf_lookup hc hne
  simp only [allSequences, List.mem_flatMap]
  exact ⟨(s, r), hr, hpn⟩

/-- **Hierarchy, at the level of the sets.**  For every database without shared nodes and every outcome of
the regexps: if `p` is true and a non-empty prefix `q` of `p` is a known sequence, `q` is true. -/
theorem hierarchy_sets {P : List (List α × ρ)} {t : Tree α ρ} (hb : buildTree P (allowed P) = some t)
    (hinj : InjPaths P (allowed P)) (m : ρ → Bool) {p q : List α} (hp : p ∈ t.findTrue m)
    (hq : q <+: p) (hne : q ≠ []) (hk : q ∈ allSequences P) : q ∈ t.findTrue m := by
  by_cases hqp : q = p
  · subst hqp; exact hp
  obtain ⟨n, hn, hall, hpn⟩ := (mem_findTrue m t p).mp hp
  obtain ⟨s, c, hsne, hc, rfl⟩ := nodes_good hb n hn
  have hpv := (mem_allowed.mp hpn).1
  obtain ⟨s', hs's, hs'ne, _, hqv⟩ := variant_prefix hpv hq hne hqp
  obtain ⟨r, hr⟩ := chainOf_lookup hc hsne
  obtain ⟨c', hc', hnode⟩ := node_of_key hb hinj hr (mem_seqSubs.mpr ⟨hs'ne, hs's⟩)
  obtain ⟨c'', hc'', hpre⟩ := chainOf_prefix hc s' hs's
  rw [hc'] at hc''
  simp only [Option.some.injEq] at hc''
  subst hc''
  refine (mem_findTrue m t q).mpr ⟨_, hnode, ?_, ?_⟩
  · intro r' hr'
    apply hall
    simp only [nodeOf] at hr' ⊢
    obtain ⟨rest, hrest⟩ := hpre
    rw [← hrest]
    simp only [List.map_append, List.mem_append]
    exact Or.inl hr'
  · simp only [nodeOf]
    exact mem_allowed.mpr ⟨hqv, by have := mem_allSequences.mp hk; omega⟩


/-! ### F. attribute access on the hardware view -/

/-- the path is in one of the two sets a `HardwareLeaf` carries -/
def Known (h : HwSets α) (p : List α) : Prop := p ∈ h.trueS ∨ p ∈ h.falseS

instance (h : HwSets α) (p : List α) : Decidable (Known h p) := by unfold Known; infer_instance

theorem foldlM_getattr (h : HwSets α) : ∀ (xs acc p : List α),
    xs.foldlM (leafGetattr h) acc = some p ↔
      p = acc ++ xs ∧ ∀ x₁, x₁ <+: xs → x₁ ≠ [] → Known h (acc ++ x₁) := by
  intro xs
  induction xs with
  | nil =>
    intro acc p
    simp only [List.foldlM_nil, List.append_nil, List.prefix_nil]
    constructor
    · intro hp
      have : acc = p := by simpa using hp
      exact ⟨this.symm, fun x₁ h1 h2 => absurd h1 h2⟩
    · rintro ⟨rfl, _⟩; rfl
  | cons x xs ih =>
    intro acc p
    simp only [List.foldlM_cons, leafGetattr]
    by_cases hk : (acc ++ [x]) ∈ h.trueS ∨ (acc ++ [x]) ∈ h.falseS
    · simp only [hk, if_true, Option.bind_eq_bind, Option.bind_some]
      rw [ih]
      constructor
      · rintro ⟨rfl, hall⟩
        refine ⟨by simp, fun x₁ hx₁ hne => ?_⟩
        rcases List.prefix_cons_iff.mp hx₁ with h0 | ⟨t, rfl, ht⟩
        · exact absurd h0 hne
        · by_cases htn : t = []
          · subst htn; exact hk
          · have := hall t ht htn
            simpa using this
      · rintro ⟨rfl, hall⟩
        refine ⟨by simp, fun x₁ hx₁ hne => ?_⟩
        have := hall (x :: x₁) (List.prefix_cons_iff.mpr (Or.inr ⟨x₁, rfl, hx₁⟩)) (by simp)
        simpa using this
    · simp only [hk, if_false, Option.bind_eq_bind, Option.bind_none]
      constructor
      · intro h'; exact absurd h' (by simp)
      · rintro ⟨_, hall⟩
        exact absurd (hall [x] (List.prefix_cons_iff.mpr (Or.inr ⟨[], rfl, List.nil_prefix⟩)) (by simp)) hk

/-- all attribute look-ups on the way to `path` succeed -/
def AllKnown (h : HwSets α) (path : List α) : Prop := ∀ x₁, x₁ <+: path → x₁ ≠ [] → Known h x₁

/-- `hw.match(path)` evaluates (no `AttributeError`) exactly when every non-empty prefix of the path is in
one of the two sets; its value is then `__bool__` of the last leaf. -/
theorem hwMatchPath_known {h : HwSets α} {path : List α} (hall : AllKnown h path) :
    hwMatchPath h path = leafBool h path := by
  unfold hwMatchPath
  have := (foldlM_getattr h path [] path).mpr ⟨by simp, by simpa [AllKnown] using hall⟩
  rw [this]

theorem hwMatchPath_unknown {h : HwSets α} {path : List α} (hall : ¬ AllKnown h path) :
    hwMatchPath h path = none := by
  unfold hwMatchPath
  cases hf : path.foldlM (leafGetattr h) [] with
  | none => rfl
  | some p =>
    obtain ⟨_, hall'⟩ := (foldlM_getattr h path [] p).mp hf
    exact absurd (by simpa [AllKnown] using hall') hall

theorem hwMatchPath_true {h : HwSets α} {path : List α} (hne : path ≠ []) :
    hwMatchPath h path = some true ↔ AllKnown h path ∧ path ∈ h.trueS := by
  by_cases hall : AllKnown h path
  · rw [hwMatchPath_known hall]
    simp only [hall, true_and]
    unfold leafBool
    by_cases ht : path ∈ h.trueS
    · simp [ht]
    · by_cases hf : path ∈ h.falseS <;> simp [ht, hf, hne]
  · rw [hwMatchPath_unknown hall]
    simp [hall]

theorem hwMatchPath_ne_none {h : HwSets α} {path : List α} :
    hwMatchPath h path ≠ none ↔ AllKnown h path := by
  by_cases hall : AllKnown h path
  · rw [hwMatchPath_known hall]
    simp only [hall, iff_true]
    unfold leafBool
    by_cases hp : path = []
    · simp [hp]
    · have := hall path (List.prefix_refl _) hp
      rcases this with ht | hf
      · simp [ht]
      · by_cases ht : path ∈ h.trueS <;> simp [ht, hf, hp]
  · rw [hwMatchPath_unknown hall]
    simp [hall]

/-- `hw.match` only reads the two sets through membership -/
theorem hwMatchPath_congr {h h' : HwSets α} (ht : ∀ p, p ∈ h.trueS ↔ p ∈ h'.trueS)
    (hf : ∀ p, p ∈ h.falseS ↔ p ∈ h'.falseS) (path : List α) :
    hwMatchPath h path = hwMatchPath h' path := by
  have hk : ∀ p, Known h p ↔ Known h' p := fun p => by simp [Known, ht, hf]
  have hak : AllKnown h path ↔ AllKnown h' path := by simp [AllKnown, hk]
  by_cases hall : AllKnown h path
  · rw [hwMatchPath_known hall, hwMatchPath_known (hak.mp hall)]
    simp only [leafBool, ht, hf]
  · rw [hwMatchPath_unknown hall, hwMatchPath_unknown (fun h'' => hall (hak.mpr h''))]

/-- the dict look-up gives the allowed variants of every key of the database -/
theorem tableGet_eq {P : List (List α × ρ)} {s : List α} (h : lookup P s ≠ none) :
    tableGet (allowedTable P) s = allowed P s := by
  unfold tableGet allowedTable allowed
  generalize variantLists P = vs
  induction P with
  | nil => simp [lookup] at h
  | cons e rest ih =>
    simp only [List.map_cons, assocGet]
    by_cases he : e.1 = s
    · simp [he]
    · simp only [he, if_false]
      apply ih
      simpa [lookup, he] using h

theorem chainFrom_congr {P : List (List α × ρ)} {A B : List α → List (List α)}
    (hAB : ∀ s, lookup P s ≠ none → A s = B s) : ∀ l, chainFrom P A l = chainFrom P B l := by
  intro l
  induction l with
  | nil => rfl
  | cons sub more ih =>
    simp only [chainFrom]
    cases hl : lookup P sub with
    | none => rfl
    | some r => simp only [ih, hAB sub (by simp [hl])]

theorem buildFrom_congr {P : List (List α × ρ)} {A B : List α → List (List α)}
    (hAB : ∀ s, lookup P s ≠ none → A s = B s) : ∀ Q t, buildFrom P A Q t = buildFrom P B Q t := by
  intro Q
  induction Q with
  | nil => intro t; rfl
  | cons e rest ih =>
    intro t
    simp only [buildFrom, chainOf, chainFrom_congr hAB]
    cases chainFrom P B (seqSubs e.1) with
    | none => rfl
    | some c => exact ih _

theorem getDb_ok {P : List (List α × ρ)} {db : Tree α ρ × List (List α)} (h : getDb P = .ok db) :
    buildTree P (allowed P) = some db.1 ∧ db.2 = allSequences P := by
  unfold getDb at h
  have hb : buildTree P (tableGet (allowedTable P)) = buildTree P (allowed P) :=
    buildFrom_congr (fun s hs => tableGet_eq hs) P _
  have hall : ((allowedTable P).flatMap fun e => e.2) = allSequences P := by
    simp [allowedTable, allSequences, allowed, List.flatMap_map]
  simp only [hb, hall] at h
  cases hb' : buildTree P (allowed P) with
  | none => simp [hb'] at h
  | some t =>
    simp only [hb'] at h
    split at h
    · simp at h
    · simp only [Except.ok.injEq] at h
      subst h
      exact ⟨rfl, rfl⟩

/-- what `parse_hw_model` returns, when it returns -/
theorem parseHw_ok {P : List (List α × ρ)} {m : ρ → Bool} {h : HwSets α}
    (hp : parseHw P m = .ok h) : ∃ t, buildTree P (allowed P) = some t ∧ h.trueS = t.findTrue m ∧
      h.falseS = (allSequences P).filter fun v => decide (v ∉ t.findTrue m) := by
  unfold parseHw at hp
  cases hd : getDb P with
  | error e => simp [hd, Except.map] at hp
  | ok db =>
    simp only [hd, Except.map, Except.ok.injEq] at hp
    obtain ⟨hb, hall⟩ := getDb_ok hd
    subst hp
    exact ⟨db.1, hb, rfl, by simp [hwSets, hall]⟩

/-- the two sets partition the known sequences -/
theorem known_parse {P : List (List α × ρ)} {m : ρ → Bool} {h : HwSets α}
    (hp : parseHw P m = .ok h) (p : List α) : Known h p ↔ p ∈ allSequences P := by
  obtain ⟨t, hb, ht, hf⟩ := parseHw_ok hp
  simp only [Known, ht, hf, List.mem_filter, decide_eq_true_eq]
  constructor
  · rintro (h1 | ⟨h1, _⟩)
    · exact findTrue_sub_all hb m h1
    · exact h1
  · intro h1
    by_cases h2 : p ∈ t.findTrue m
    · exact Or.inl h2
    · exact Or.inr ⟨h1, h2⟩

/-- **Hierarchy, as a program sees it**: if `hw.A.B.C` is true then `hw.A.B` and `hw.A` are true. -/
theorem hierarchy_attr {P : List (List α × ρ)} (hinj : InjPaths P (allowed P)) {m : ρ → Bool} {h : HwSets α}
    (hp : parseHw P m = .ok h) {p q : List α} (hm : hwMatchPath h p = some true)
    (hq : q <+: p) (hne : q ≠ []) : hwMatchPath h q = some true := by
  have hpne : p ≠ [] := by
    rintro rfl; exact hne (List.prefix_nil.mp hq)
  obtain ⟨hall, hpt⟩ := (hwMatchPath_true hpne).mp hm
  obtain ⟨t, hb, ht, _⟩ := parseHw_ok hp
  refine (hwMatchPath_true hne).mpr ⟨fun x₁ hx₁ hx₁ne => hall x₁ (hx₁.trans hq) hx₁ne, ?_⟩
  rw [ht] at hpt ⊢
  exact hierarchy_sets hb hinj m hpt hq hne ((known_parse hp q).mp (hall q hq hne))

/-- `hw.<path>` raises `AttributeError` for no model string iff every non-empty prefix is counted once. -/
theorem no_attribute_error {P : List (List α × ρ)} {m : ρ → Bool} {h : HwSets α}
    (hp : parseHw P m = .ok h) (path : List α) :
    hwMatchPath h path ≠ none ↔ ∀ q ∈ seqSubs path, variantCount P q = 1 := by
  rw [hwMatchPath_ne_none]
  simp only [AllKnown, known_parse hp, mem_allSequences, mem_seqSubs]
  constructor
  · intro hall q ⟨h1, h2⟩; exact hall q h2 h1
  · intro hall q h1 h2; exact hall q ⟨h2, h1⟩


/-! ### G. `Registry.match` -/

section registry
variable {ν : Type}

theorem insertDesc_perm (x : ν × Nat) (l : List (ν × Nat)) : (insertDesc x l).Perm (x :: l) := by
  induction l with
  | nil => simp [insertDesc]
  | cons y ys ih =>
    simp only [insertDesc]
    split
    · exact (List.Perm.cons y ih).trans (List.Perm.swap x y ys)
    · exact List.Perm.refl _

theorem sortDesc_perm (l : List (ν × Nat)) : (sortDesc l).Perm l := by
  induction l with
  | nil => simp [sortDesc]
  | cons x xs ih => exact (insertDesc_perm x _).trans (List.Perm.cons x ih)

theorem insertDesc_sorted (x : ν × Nat) (l : List (ν × Nat))
    (hl : l.Pairwise fun a b => a.2 ≥ b.2) : (insertDesc x l).Pairwise fun a b => a.2 ≥ b.2 := by
  induction l with
  | nil => simp [insertDesc]
  | cons y ys ih =>
    simp only [insertDesc]
    obtain ⟨hy, hys⟩ := List.pairwise_cons.mp hl
    split
    · next hgt =>
      refine List.pairwise_cons.mpr ⟨fun b hb => ?_, ih hys⟩
      rcases List.mem_cons.mp ((insertDesc_perm x ys).mem_iff.mp hb) with rfl | hb'
      · exact Nat.le_of_lt hgt
      · exact hy b hb'
    · next hle =>
      refine List.pairwise_cons.mpr ⟨fun b hb => ?_, hl⟩
      rcases List.mem_cons.mp hb with rfl | hb'
      · omega
      · have := hy b hb'; omega

theorem sortDesc_sorted (l : List (ν × Nat)) : (sortDesc l).Pairwise fun a b => a.2 ≥ b.2 := by
  induction l with
  | nil => simp [sortDesc]
  | cons x xs ih => exact insertDesc_sorted x _ ih

/-- the element `Registry.match` picks has the largest dot count of all matched items -/
theorem sortDesc_head {l : List (ν × Nat)} {a : ν × Nat} (h : (sortDesc l).head? = some a) :
    a ∈ l ∧ ∀ b ∈ l, b.2 ≤ a.2 := by
  cases hs : sortDesc l with
  | nil => simp [hs] at h
  | cons y ys =>
    simp only [hs, List.head?_cons, Option.some.injEq] at h
    subst h
    have hp := sortDesc_perm l
    have hsorted := sortDesc_sorted l
    rw [hs] at hp hsorted
    refine ⟨hp.mem_iff.mp List.mem_cons_self, fun b hb => ?_⟩
    rcases List.mem_cons.mp (hp.mem_iff.mpr hb) with rfl | hb'
    · exact Nat.le_refl _
    · exact (List.pairwise_cons.mp hsorted).1 b hb'

theorem sortDesc_head_none {l : List (ν × Nat)} : (sortDesc l).head? = none ↔ l = [] := by
  constructor
  · intro h
    have : sortDesc l = [] := by
      cases hs : sortDesc l with
      | nil => rfl
      | cons y ys => simp [hs] at h
    have hp := sortDesc_perm l
    rw [this] at hp
    exact hp.symm.eq_nil
  · rintro rfl; simp [sortDesc]

/-- the maximal dot count among the matched items is reached by the items of one vendor only -/
def UniqueBest (ms : List (ν × Nat)) : Prop :=
  ∀ a b, a ∈ ms → b ∈ ms → (∀ c ∈ ms, c.2 ≤ a.2) → (∀ c ∈ ms, c.2 ≤ b.2) → a.1 = b.1

theorem pick_perm {ms ms' : List (ν × Nat)} (hp : ms.Perm ms') (hu : UniqueBest ms) :
    (sortDesc ms).head?.map (·.1) = (sortDesc ms').head?.map (·.1) := by
  cases h : (sortDesc ms).head? with
  | none =>
    have := sortDesc_head_none.mp h
    subst this
    have : ms' = [] := hp.symm.eq_nil
    subst this
    simp [sortDesc]
  | some a =>
    cases h' : (sortDesc ms').head? with
    | none =>
      have := sortDesc_head_none.mp h'
      subst this
      have : ms = [] := hp.eq_nil
      subst this
      simp [sortDesc] at h
    | some b =>
      obtain ⟨ha, hamax⟩ := sortDesc_head h
      obtain ⟨hb, hbmax⟩ := sortDesc_head h'
      have hb' : b ∈ ms := hp.mem_iff.mpr hb
      have hbmax' : ∀ c ∈ ms, c.2 ≤ b.2 := fun c hc => hbmax c (hp.mem_iff.mp hc)
      simp [hu a b ha hb' hamax hbmax']

variable {α : Type} [DecidableEq α]

/-- the matched items when no look-up fails -/
def matchedPure (h : HwSets α) (items : List (ν × List α × Nat)) : List (ν × Nat) :=
  items.filterMap fun it => if hwMatchPath h it.2.1 = some true then some (it.1, it.2.2) else none

theorem matchedItems_eq (h : HwSets α) (items : List (ν × List α × Nat)) :
    matchedItems h items =
      if ∃ it ∈ items, hwMatchPath h it.2.1 = none then none else some (matchedPure h items) := by
  induction items with
  | nil => simp [matchedItems, matchedPure]
  | cons it rest ih =>
    obtain ⟨v, p, d⟩ := it
    simp only [matchedItems, List.mem_cons, exists_eq_or_imp, matchedPure, List.filterMap_cons]
    cases hm : hwMatchPath h p with
    | none => simp
    | some b =>
      cases b with
      | true =>
        simp only [ih, reduceCtorEq, false_or, if_true]
        split <;> simp [matchedPure]
      | false =>
        simp only [ih, reduceCtorEq, false_or]
        split <;> simp [matchedPure]

theorem matchedItems_perm (h : HwSets α) {items items' : List (ν × List α × Nat)}
    (hp : items.Perm items') :
    (matchedItems h items = none ↔ matchedItems h items' = none) ∧
    ∀ ms ms', matchedItems h items = some ms → matchedItems h items' = some ms' → ms.Perm ms' := by
  rw [matchedItems_eq, matchedItems_eq]
  have hex : (∃ it ∈ items, hwMatchPath h it.2.1 = none) ↔
      (∃ it ∈ items', hwMatchPath h it.2.1 = none) := by
    constructor
    · rintro ⟨it, hi, hn⟩; exact ⟨it, hp.mem_iff.mp hi, hn⟩
    · rintro ⟨it, hi, hn⟩; exact ⟨it, hp.mem_iff.mpr hi, hn⟩
  by_cases he : ∃ it ∈ items, hwMatchPath h it.2.1 = none
  · simp [he, hex.mp he]
  · have he' : ¬ ∃ it ∈ items', hwMatchPath h it.2.1 = none := fun h' => he (hex.mpr h')
    simp only [he, he', if_false, reduceCtorEq, Option.some.injEq, true_and]
    rintro ms ms' rfl rfl
    exact hp.filterMap _

theorem vendorItems_perm {vs vs' : List (ν × List (List α × Nat))} (hp : vs.Perm vs') :
    (vendorItems vs).Perm (vendorItems vs') := hp.flatMap_right _

/-- **Order independence of `Registry.match`.**  If the best dot count is reached by one vendor only, every
order of registration gives the same answer (the same vendor, the same default, or the same error). -/
theorem registryMatch_perm (h : HwSets α) {vs vs' : List (ν × List (List α × Nat))} (hp : vs.Perm vs')
    (hu : ∀ ms, matchedList h vs = some ms → UniqueBest ms) :
    registryMatch h vs' = registryMatch h vs := by
  unfold registryMatch
  obtain ⟨hnone, hperm⟩ := matchedItems_perm h (vendorItems_perm hp)
  unfold matchedList at hu ⊢
  cases h1 : matchedItems h (vendorItems vs) with
  | none => simp [hnone.mp h1]
  | some ms =>
    cases h2 : matchedItems h (vendorItems vs') with
    | none => rw [hnone.mpr h2] at h1; simp at h1
    | some ms' =>
      simp only [Option.map_some, Option.some.injEq]
      exact (pick_perm (hperm ms ms' h1 h2) (hu ms h1)).symm

/-- **Most specific**: the vendor returned owns a matched expression with the largest dot count. -/
theorem registryMatch_most_specific (h : HwSets α) {vs : List (ν × List (List α × Nat))} {v : ν}
    (hm : registryMatch h vs = some (some v)) :
    ∃ ms d, matchedList h vs = some ms ∧ (v, d) ∈ ms ∧ ∀ b ∈ ms, b.2 ≤ d := by
  unfold registryMatch at hm
  cases h1 : matchedList h vs with
  | none => simp [h1] at hm
  | some ms =>
    simp only [h1, Option.map_some, Option.some.injEq] at hm
    cases h2 : (sortDesc ms).head? with
    | none => simp [h2] at hm
    | some a =>
      simp only [h2, Option.map_some, Option.some.injEq] at hm
      obtain ⟨ha, hmax⟩ := sortDesc_head h2
      subst hm
      exact ⟨ms, a.2, rfl, ha, hmax⟩

/-- a matched item comes from a registered vendor's `match()` list and holds of the hardware -/
theorem mem_matchedList {h : HwSets α} {vs : List (ν × List (List α × Nat))} {ms : List (ν × Nat)}
    (hm : matchedList h vs = some ms) {v : ν} {d : Nat} :
    (v, d) ∈ ms ↔ ∃ items p, (v, items) ∈ vs ∧ (p, d) ∈ items ∧ hwMatchPath h p = some true := by
  unfold matchedList at hm
  rw [matchedItems_eq] at hm
  split at hm
  · simp at hm
  · simp only [Option.some.injEq] at hm
    subst hm
    simp only [matchedPure, List.mem_filterMap, vendorItems, List.mem_flatMap, List.mem_map]
    constructor
    · rintro ⟨it, ⟨ve, hve, it', hit', rfl⟩, hif⟩
      split at hif
      · next ht =>
        simp only [Option.some.injEq, Prod.mk.injEq] at hif
        obtain ⟨rfl, rfl⟩ := hif
        exact ⟨ve.2, it'.1, hve, hit', ht⟩
      · simp at hif
    · rintro ⟨items, p, hv, hi, ht⟩
      exact ⟨(v, p, d), ⟨(v, items), hv, (p, d), hi, rfl⟩, by simp [ht]⟩

end registry


/-! ### H. decidable checks for the regenerated tables -/

theorem filterMap_congr' {β γ : Type} {f g : β → Option γ} :
    ∀ (l : List β), (∀ x ∈ l, f x = g x) → l.filterMap f = l.filterMap g := by
  intro l
  induction l with
  | nil => intro _; rfl
  | cons x xs ih =>
    intro h
    simp only [List.filterMap_cons, h x List.mem_cons_self,
      ih (fun y hy => h y (List.mem_cons_of_mem _ hy))]

/-- no element occurs twice -/
def distinctB {β : Type} [DecidableEq β] : List β → Bool
  | [] => true
  | x :: xs => !xs.contains x && distinctB xs

theorem distinctB_inj {β γ : Type} [DecidableEq γ] (f : β → γ) :
    ∀ (l : List β), distinctB (l.map f) = true → ∀ a b, a ∈ l → b ∈ l → f a = f b → a = b := by
  intro l
  induction l with
  | nil => intro _ a b ha; simp at ha
  | cons x xs ih =>
    intro hd a b ha hb hab
    simp only [List.map_cons, distinctB, Bool.and_eq_true, Bool.not_eq_true', List.contains_eq_mem,
      List.mem_map, decide_eq_false_iff_not, not_exists, not_and] at hd
    obtain ⟨hx, hrest⟩ := hd
    rcases List.mem_cons.mp ha with rfl | ha'
    · rcases List.mem_cons.mp hb with rfl | hb'
      · rfl
      · exact absurd hab.symm (hx b hb')
    · rcases List.mem_cons.mp hb with rfl | hb'
      · exact absurd hab (hx a ha')
      · exact ih hrest a b ha' hb' hab

/-- no two entries have the same parent sequence and the same regexp (siblings have distinct regexps) -/
def sibDistinctB (P : List (List α × ρ)) : Bool := distinctB (P.map fun e => (e.1.dropLast, e.2))

theorem injPaths_of_sibDistinct {P : List (List α × ρ)} {A : List α → List (List α)}
    (hd : sibDistinctB P = true) : InjPaths P A := by
  intro s₁
  induction s₁ using snoc_induction with
  | nil =>
    intro s₂ c₁ c₂ h₁ h₂ hm
    rw [chainOf_nil] at h₁
    simp only [Option.some.injEq] at h₁
    subst h₁
    have hl := length_chainOf h₂
    have : c₂ = [] := by simpa using hm.symm
    subst this
    simp at hl
    exact (List.eq_nil_of_length_eq_zero hl.symm).symm
  | snoc s₁ a ih =>
    intro s₂ c₁ c₂ h₁ h₂ hm
    obtain ⟨c₁', r₁, hc₁', hl₁, rfl⟩ := chainOf_some_concat h₁
    rcases eq_nil_or_snoc s₂ with rfl | ⟨s₂', b, rfl⟩
    · rw [chainOf_nil] at h₂
      simp only [Option.some.injEq] at h₂
      subst h₂
      simp at hm
    · obtain ⟨c₂', r₂, hc₂', hl₂, rfl⟩ := chainOf_some_concat h₂
      simp only [List.map_append, List.map_cons, List.map_nil] at hm
      have hlen : (c₁'.map Prod.fst).length = (c₂'.map Prod.fst).length := by
        have := congrArg List.length hm
        simp at this
        simpa using this
      obtain ⟨hm₁, hm₂⟩ := List.append_inj hm hlen
      simp only [List.cons.injEq, and_true] at hm₂
      have hs : s₁ = s₂' := ih s₂' c₁' c₂' hc₁' hc₂' hm₁
      subst hs hm₂
      have := distinctB_inj (fun e : List α × ρ => (e.1.dropLast, e.2)) P hd
        (s₁ ++ [a], r₁) (s₁ ++ [b], r₁) (lookup_some hl₁) (lookup_some hl₂) (by simp)
      simpa using this

theorem parseHw_total {P : List (List α × ρ)} (hb : (buildTree P (allowed P)).isSome = true) (hne : P ≠ [])
    (m : ρ → Bool) : ∃ h, parseHw P m = .ok h := by
  unfold parseHw getDb
  have hb2 : buildTree P (tableGet (allowedTable P)) = buildTree P (allowed P) :=
    buildFrom_congr (fun s hs => tableGet_eq hs) P _
  simp only [hb2]
  cases hb' : buildTree P (allowed P) with
  | none => simp [hb'] at hb
  | some t =>
    have : P.isEmpty = false := by cases P <;> simp at hne ⊢
    simp [this, Except.map]

/-! #### the model string matches exactly the regexp chain of one sequence -/

/-- The two sets of a hardware view on which exactly the nodes of the chain of `s` are reached. -/
def ChainTrue (P : List (List α × ρ)) (s : List α) (h : HwSets α) : Prop :=
  (∀ p, p ∈ h.trueS ↔ ∃ s₁ ∈ seqSubs s, p ∈ allowed P s₁) ∧
  (∀ p, p ∈ h.falseS ↔ p ∈ allSequences P ∧ p ∉ h.trueS)

/-- `e` is a variant of a non-empty prefix of `s` -/
def trueOnChain (s e : List α) : Bool := (seqSubs s).any fun s₁ => decide (e ∈ variants s₁)

/-- every look-up on the way to `e` is counted exactly once, and `e` is not the empty path -/
def knownPathB (P : List (List α × ρ)) (e : List α) : Bool :=
  !e.isEmpty && (seqSubs e).all fun q => variantCount P q == 1

theorem hwMatchPath_chain {P : List (List α × ρ)} {s : List α} {h : HwSets α} (hc : ChainTrue P s h)
    {e : List α} (hk : knownPathB P e = true) : hwMatchPath h e = some (trueOnChain s e) := by
  simp only [knownPathB, Bool.and_eq_true, Bool.not_eq_true', List.isEmpty_eq_false_iff,
    List.all_eq_true, beq_iff_eq] at hk
  obtain ⟨hne, hcount⟩ := hk
  have hknown : ∀ q ∈ seqSubs e, Known h q := by
    intro q hq
    have hqa : q ∈ allSequences P := mem_allSequences.mpr (hcount q hq)
    by_cases ht : q ∈ h.trueS
    · exact Or.inl ht
    · exact Or.inr ((hc.2 q).mpr ⟨hqa, ht⟩)
  have hall : AllKnown h e := fun x₁ hx₁ hx₁ne => hknown x₁ (mem_seqSubs.mpr ⟨hx₁ne, hx₁⟩)
  rw [hwMatchPath_known hall]
  have he1 : variantCount P e = 1 := hcount e (mem_seqSubs.mpr ⟨hne, List.prefix_refl _⟩)
  have htrue : e ∈ h.trueS ↔ trueOnChain s e = true := by
    rw [hc.1 e]
    simp only [trueOnChain, List.any_eq_true, decide_eq_true_eq, mem_allowed]
    constructor
    · rintro ⟨s₁, hs₁, hv, _⟩; exact ⟨s₁, hs₁, hv⟩
    · rintro ⟨s₁, hs₁, hv⟩; exact ⟨s₁, hs₁, hv, by omega⟩
  unfold leafBool
  by_cases ht : e ∈ h.trueS
  · simp [ht, htrue.mp ht]
  · have hf : e ∈ h.falseS := (hc.2 e).mpr ⟨mem_allSequences.mpr he1, ht⟩
    have : trueOnChain s e = false := by
      cases hb : trueOnChain s e with
      | false => rfl
      | true => exact absurd (htrue.mpr hb) ht
    simp [ht, hf, hne, this]

/-! #### a cheaper way to evaluate the counter (kernel evaluation of the tables) -/

/-- `v ∈ variants s`, looking at the last components first -/
def memVariantsFast (v s : List α) : Bool :=
  decide (v.getLast? = s.getLast?) && decide (v ∈ variants s)

theorem memVariantsFast_eq (v s : List α) : memVariantsFast v s = decide (v ∈ variants s) := by
  unfold memVariantsFast
  by_cases hv : v ∈ variants s
  · obtain ⟨pre, mid, post, z, rfl, rfl⟩ := mem_variants.mp hv
    simp
  · simp [hv]

def variantCountFast (P : List (List α × ρ)) (v : List α) : Nat :=
  (P.filter fun e => memVariantsFast v e.1).length

theorem variantCountFast_eq (P : List (List α × ρ)) (v : List α) :
    variantCountFast P v = variantCount P v := by
  rw [variantCount_eq]
  unfold variantCountFast
  congr 1
  apply List.filter_congr
  intro e _
  exact memVariantsFast_eq v e.1

def knownPathFastB (P : List (List α × ρ)) (e : List α) : Bool :=
  !e.isEmpty && (seqSubs e).all fun q => variantCountFast P q == 1

theorem knownPathFastB_eq (P : List (List α × ρ)) (e : List α) :
    knownPathFastB P e = knownPathB P e := by
  unfold knownPathFastB knownPathB
  simp only [variantCountFast_eq]

section chainRegistry
variable {ν : Type}

/-- the `matched` list of `Registry.match` on the chain of `s`, computed without building the sets -/
def chainMatched (vs : List (ν × List (List α × Nat))) (s : List α) : List (ν × Nat) :=
  (vendorItems vs).filterMap fun it => if trueOnChain s it.2.1 then some (it.1, it.2.2) else none

/-- every `match()` expression of every vendor can be evaluated on every hardware view -/
def vendorsKnownB (P : List (List α × ρ)) (vs : List (ν × List (List α × Nat))) : Bool :=
  (vendorItems vs).all fun it => knownPathB P it.2.1

def vendorsKnownFastB (P : List (List α × ρ)) (vs : List (ν × List (List α × Nat))) : Bool :=
  (vendorItems vs).all fun it => knownPathFastB P it.2.1

theorem vendorsKnownFastB_eq (P : List (List α × ρ)) (vs : List (ν × List (List α × Nat))) :
    vendorsKnownFastB P vs = vendorsKnownB P vs := by
  unfold vendorsKnownFastB vendorsKnownB
  simp only [knownPathFastB_eq]

theorem matchedList_chain {P : List (List α × ρ)} {s : List α} {h : HwSets α} (hc : ChainTrue P s h)
    {vs : List (ν × List (List α × Nat))} (hk : vendorsKnownB P vs = true) :
    matchedList h vs = some (chainMatched vs s) := by
  unfold matchedList
  rw [matchedItems_eq]
  simp only [vendorsKnownB, List.all_eq_true] at hk
  have hno : ¬ ∃ it ∈ vendorItems vs, hwMatchPath h it.2.1 = none := by
    rintro ⟨it, hi, hn⟩
    rw [hwMatchPath_chain hc (hk it hi)] at hn
    exact absurd hn (by simp)
  simp only [hno, if_false, Option.some.injEq, matchedPure, chainMatched]
  apply filterMap_congr'
  intro it hi
  rw [hwMatchPath_chain hc (hk it hi)]
  cases trueOnChain s it.2.1 <;> simp

variable [DecidableEq ν]

def maxDots (ms : List (ν × Nat)) : Nat := ms.foldl (fun acc a => max acc a.2) 0

/-- decidable form of `UniqueBest` -/
def uniqueBestB (ms : List (ν × Nat)) : Bool :=
  ms.all fun a => ms.all fun b => a.2 != maxDots ms || b.2 != maxDots ms || a.1 == b.1

theorem foldl_max_ge (l : List (ν × Nat)) (init : Nat) :
    init ≤ l.foldl (fun acc a => max acc a.2) init ∧
    ∀ c ∈ l, c.2 ≤ l.foldl (fun acc a => max acc a.2) init := by
  induction l generalizing init with
  | nil => simp
  | cons x xs ih =>
    simp only [List.foldl_cons, List.mem_cons, forall_eq_or_imp]
    obtain ⟨h1, h2⟩ := ih (max init x.2)
    exact ⟨by omega, by omega, h2⟩

theorem uniqueBest_of_B {ms : List (ν × Nat)} (h : uniqueBestB ms = true) : UniqueBest ms := by
  intro a b ha hb hamax hbmax
  simp only [uniqueBestB, List.all_eq_true, Bool.or_eq_true, bne_iff_ne, ne_eq, beq_iff_eq] at h
  have hmx := (foldl_max_ge ms 0).2
  have hle : ∀ c ∈ ms, c.2 ≤ maxDots ms := hmx
  -- the maximum is reached by a and b
  have hreach : ∀ x ∈ ms, (∀ c ∈ ms, c.2 ≤ x.2) → x.2 = maxDots ms := by
    intro x hx hxmax
    apply Nat.le_antisymm (hle x hx)
    -- maxDots ≤ x.2 : fold of max over elements all ≤ x.2, starting from 0
    have : ∀ (l : List (ν × Nat)) (init : Nat), init ≤ x.2 → (∀ c ∈ l, c.2 ≤ x.2) →
        l.foldl (fun acc a => max acc a.2) init ≤ x.2 := by
      intro l
      induction l with
      | nil => intro init hi _; simpa using hi
      | cons y ys ih =>
        intro init hi hall
        simp only [List.foldl_cons]
        exact ih _ (by have := hall y List.mem_cons_self; omega)
          (fun c hc => hall c (List.mem_cons_of_mem _ hc))
    exact this ms 0 (Nat.zero_le _) hxmax
  rcases h a ha b hb with (h1 | h1) | h1
  · exact absurd (hreach a ha hamax) h1
  · exact absurd (hreach b hb hbmax) h1
  · exact h1

end chainRegistry


/-! ### I. the rulebook provider: its caches never change an answer -/

section provider
open Annet.Hw.Spec
variable {μ σ ν κ τ β : Type} [DecidableEq μ] [DecidableEq κ]

/-- Mako output does not depend on the software version (no shipped template reads `hw.soft`). -/
def SoftIndependent (E : Env μ σ ν κ τ β) : Prop :=
  ∀ t m s s', E.render t m s = E.render t m s'

/-- Every cache entry is what a provider without caches would compute. -/
structure Coherent (E : Env μ σ ν κ τ β) (st : Provider μ κ τ β) : Prop where
  rulebooks : ∀ m rb, assocGet m st.rulebooks = some rb → ∀ s, pureGet E m s = .ok rb
  rendered : ∀ n m t, assocGet (n, m) st.rendered = some t → ∀ s, pureRender E n m s = .ok t
  escaped : ∀ n t, assocGet n st.escaped = some t → E.readEscaped n = some t

theorem coherent_fresh (E : Env μ σ ν κ τ β) : Coherent E Provider.fresh :=
  ⟨by intro m rb h; simp [Provider.fresh, assocGet] at h,
   by intro n m t h; simp [Provider.fresh, assocGet] at h,
   by intro n t h; simp [Provider.fresh, assocGet] at h⟩

theorem assocGet_cons {γ δ : Type} [DecidableEq γ] (k k' : γ) (v : δ) (l : List (γ × δ)) :
    assocGet k ((k', v) :: l) = if k' = k then some v else assocGet k l := by
  simp [assocGet]

theorem pureRender_soft {E : Env μ σ ν κ τ β} (hs : SoftIndependent E) (n : κ) (m : μ) (s s' : σ) :
    pureRender E n m s = pureRender E n m s' := by
  unfold pureRender
  cases E.readEscaped n with
  | none => rfl
  | some esc => simp only [hs esc m s s']

theorem pureGet_soft {E : Env μ σ ν κ τ β} (hs : SoftIndependent E) (m : μ) (s s' : σ) :
    pureGet E m s = pureGet E m s' := by
  unfold pureGet
  simp only [pureRender_soft hs _ m s s']

theorem readEscapedRul_spec {E : Env μ σ ν κ τ β} {st : Provider μ κ τ β} (hc : Coherent E st) (n : κ) :
    ∃ st', readEscapedRul E st n = (st', E.readEscaped n) ∧ Coherent E st' ∧
      st'.rulebooks = st.rulebooks ∧ st'.rendered = st.rendered := by
  unfold readEscapedRul
  cases hg : assocGet n st.escaped with
  | some t => exact ⟨st, by simp [hc.escaped n t hg], hc, rfl, rfl⟩
  | none =>
    cases hr : E.readEscaped n with
    | none => exact ⟨st, rfl, hc, rfl, rfl⟩
    | some t =>
      refine ⟨{ st with escaped := (n, t) :: st.escaped }, rfl, ⟨hc.rulebooks, hc.rendered, ?_⟩, rfl, rfl⟩
      intro n' t' h
      simp only [assocGet_cons] at h
      split at h
      · next heq => subst heq; simp only [Option.some.injEq] at h; subst h; exact hr
      · exact hc.escaped n' t' h

theorem renderRul_spec {E : Env μ σ ν κ τ β} (hs : SoftIndependent E) {st : Provider μ κ τ β}
    (hc : Coherent E st) (n : κ) (m : μ) (s : σ) :
    ∃ st', renderRul E st n m s = (st', pureRender E n m s) ∧ Coherent E st' ∧
      st'.rulebooks = st.rulebooks := by
  unfold renderRul
  cases hg : assocGet (n, m) st.rendered with
  | some t => exact ⟨st, by simp [hc.rendered n m t hg s], hc, rfl⟩
  | none =>
    obtain ⟨st1, h1, hc1, hrb1, hrd1⟩ := readEscapedRul_spec hc n
    rw [h1]
    unfold pureRender
    cases hr : E.readEscaped n with
    | none => exact ⟨st1, rfl, hc1, hrb1⟩
    | some esc =>
      dsimp only
      cases hm : E.render esc m s with
      | none => exact ⟨st1, rfl, hc1, hrb1⟩
      | some t =>
        refine ⟨{ st1 with rendered := ((n, m), t) :: st1.rendered }, rfl,
          ⟨hc1.rulebooks, ?_, hc1.escaped⟩, hrb1⟩
        intro n' m' t' h s'
        simp only [assocGet_cons] at h
        split at h
        · next heq =>
          simp only [Prod.mk.injEq] at heq
          obtain ⟨rfl, rfl⟩ := heq
          simp only [Option.some.injEq] at h
          subst h
          unfold pureRender
          simp only [hr, ← hs esc m s s', hm]
        · exact hc1.rendered n' m' t' h s'

/-- one call: the answer is the cache-free answer, and the caches stay coherent -/
theorem getRulebook_spec {E : Env μ σ ν κ τ β} (hs : SoftIndependent E) {st : Provider μ κ τ β}
    (hc : Coherent E st) (m : μ) (s : σ) :
    (getRulebook E st m s).2 = pureGet E m s ∧ Coherent E (getRulebook E st m s).1 := by
  unfold getRulebook
  cases hg : assocGet m st.rulebooks with
  | some rb => exact ⟨(hc.rulebooks m rb hg s).symm, hc⟩
  | none =>
    unfold pureGet
    cases hv : (E.vendorOf m).filter E.registered with
    | none => exact ⟨rfl, hc⟩
    | some v =>
      simp only []
      obtain ⟨st1, h1, hc1, hrb1⟩ := renderRul_spec hs hc (E.fileName (E.alias v) 0) m s
      rw [h1]
      cases hp : pureRender E (E.fileName (E.alias v) 0) m s with
      | notFound => exact ⟨rfl, hc1⟩
      | failed => exact ⟨rfl, hc1⟩
      | ok ptext =>
        simp only []
        cases hcp : E.compile 0 ptext (E.alias v) with
        | none => exact ⟨rfl, hc1⟩
        | some patching =>
          simp only []
          obtain ⟨st2, h2, hc2, hrb2⟩ := renderRul_spec hs hc1 (E.fileName v 1) m s
          rw [h2]
          cases ho : pureRender E (E.fileName v 1) m s with
          | failed => exact ⟨rfl, hc2⟩
          | notFound =>
            simp only []
            cases hco : E.compile 1 (textOr E Rendered.notFound) v with
            | none => exact ⟨rfl, hc2⟩
            | some ordering =>
              simp only []
              obtain ⟨st3, h3, hc3, hrb3⟩ := renderRul_spec hs hc2 (E.fileName v 2) m s
              rw [h3]
              cases hd : pureRender E (E.fileName v 2) m s with
              | failed => exact ⟨rfl, hc3⟩
              | notFound =>
                simp only []
                cases hcd : E.compile 2 (textOr E Rendered.notFound) v with
                | none => exact ⟨rfl, hc3⟩
                | some deploying =>
                  refine ⟨rfl, ⟨?_, hc3.rendered, hc3.escaped⟩⟩
                  intro m' rb' h s'
                  simp only [assocGet_cons] at h
                  split at h
                  · next heq =>
                    subst heq
                    simp only [Option.some.injEq] at h
                    subst h
                    rw [pureGet_soft hs _ s' s]
                    unfold pureGet
                    simp only [hv, hp, hcp, ho, hco, hd, hcd]
                  · exact hc3.rulebooks m' rb' h s'
              | ok dtext =>
                simp only []
                cases hcd : E.compile 2 (textOr E (Rendered.ok dtext)) v with
                | none => exact ⟨rfl, hc3⟩
                | some deploying =>
                  refine ⟨rfl, ⟨?_, hc3.rendered, hc3.escaped⟩⟩
                  intro m' rb' h s'
                  simp only [assocGet_cons] at h
                  split at h
                  · next heq =>
                    subst heq
                    simp only [Option.some.injEq] at h
                    subst h
                    rw [pureGet_soft hs _ s' s]
                    unfold pureGet
                    simp only [hv, hp, hcp, ho, hco, hd, hcd]
                  · exact hc3.rulebooks m' rb' h s'
          | ok otext =>
            simp only []
            cases hco : E.compile 1 (textOr E (Rendered.ok otext)) v with
            | none => exact ⟨rfl, hc2⟩
            | some ordering =>
              simp only []
              obtain ⟨st3, h3, hc3, hrb3⟩ := renderRul_spec hs hc2 (E.fileName v 2) m s
              rw [h3]
              cases hd : pureRender E (E.fileName v 2) m s with
              | failed => exact ⟨rfl, hc3⟩
              | notFound =>
                simp only []
                cases hcd : E.compile 2 (textOr E Rendered.notFound) v with
                | none => exact ⟨rfl, hc3⟩
                | some deploying =>
                  refine ⟨rfl, ⟨?_, hc3.rendered, hc3.escaped⟩⟩
                  intro m' rb' h s'
                  simp only [assocGet_cons] at h
                  split at h
                  · next heq =>
                    subst heq
                    simp only [Option.some.injEq] at h
                    subst h
                    rw [pureGet_soft hs _ s' s]
                    unfold pureGet
                    simp only [hv, hp, hcp, ho, hco, hd, hcd]
                  · exact hc3.rulebooks m' rb' h s'
              | ok dtext =>
                simp only []
                cases hcd : E.compile 2 (textOr E (Rendered.ok dtext)) v with
                | none => exact ⟨rfl, hc3⟩
                | some deploying =>
                  refine ⟨rfl, ⟨?_, hc3.rendered, hc3.escaped⟩⟩
                  intro m' rb' h s'
                  simp only [assocGet_cons] at h
                  split at h
                  · next heq =>
                    subst heq
                    simp only [Option.some.injEq] at h
                    subst h
                    rw [pureGet_soft hs _ s' s]
                    unfold pureGet
                    simp only [hv, hp, hcp, ho, hco, hd, hcd]
                  · exact hc3.rulebooks m' rb' h s'

theorem runHistory_coherent {E : Env μ σ ν κ τ β} (hs : SoftIndependent E) :
    ∀ (hist : List (μ × σ)) (st : Provider μ κ τ β), Coherent E st → Coherent E (runHistory E st hist) := by
  intro hist
  induction hist with
  | nil => intro st hc; exact hc
  | cons c rest ih =>
    intro st hc
    obtain ⟨m, s⟩ := c
    exact ih _ (getRulebook_spec hs hc m s).2

end provider


/-! ### J. `_escape_mako` -/

/-- every `%` that starts a line is followed by a second `%` or by a Mako control word -/
def PercentSafe : Bool → List Char → Prop
  | _, [] => True
  | lineStart, c :: cs =>
    (lineStart = true → c = '%' → (cs.head? = some '%' ∨ makoKeyword cs = true)) ∧
    PercentSafe (decide (c = '\n')) cs

theorem isPrefixOf_escapePercent (k : List Char) (hk : '\n' ∉ k) :
    ∀ cs, k.isPrefixOf cs = true → k.isPrefixOf (escapePercent false false cs) = true := by
  induction k with
  | nil => intro cs _; simp
  | cons a k ih =>
    intro cs h
    cases cs with
    | nil => simp at h
    | cons c cs =>
      simp only [List.isPrefixOf_cons_cons, Bool.and_eq_true, beq_iff_eq] at h
      obtain ⟨hac, hrest⟩ := h
      subst hac
      have hne : a ≠ '\n' := fun h' => hk (by simp [h'])
      have hk' : '\n' ∉ k := fun h' => hk (List.mem_cons_of_mem _ h')
      simp only [escapePercent, Bool.false_and, Bool.false_eq_true, if_false, List.isPrefixOf_cons_cons,
        beq_self_eq_true, Bool.true_and, hne, decide_false]
      exact ih hk' cs hrest

theorem makoKeyword_escapePercent (cs : List Char) (h : makoKeyword cs = true) :
    makoKeyword (escapePercent false false cs) = true := by
  simp only [makoKeyword, List.any_eq_true] at h ⊢
  obtain ⟨k, hk, hp⟩ := h
  refine ⟨k, hk, isPrefixOf_escapePercent k.toList ?_ cs hp⟩
  simp only [List.mem_cons, List.not_mem_nil, or_false] at hk
  rcases hk with rfl | rfl | rfl | rfl | rfl | rfl <;> decide

/-- **What the first pass of `_escape_mako` is for.**  In its output every `%` at the start of a line is
either doubled (Mako then emits a literal `%`) or begins one of `if elif else endif for endfor`: no rule
parameter such as `%logic=…` or `%comment` in column 0 is ever handed to Mako as a control line. -/
theorem escapePercent_safe : ∀ (cs : List Char) (ls ts : Bool),
    PercentSafe ls (escapePercent ls ts cs) := by
  intro cs
  induction cs with
  | nil => intro ls ts; simp [escapePercent, PercentSafe]
  | cons c cs ih =>
    intro ls ts
    simp only [escapePercent]
    split
    · next hcond =>
      cases ts with
      | true =>
        simp only [if_true, List.cons_append, List.nil_append, PercentSafe]
        refine ⟨by intro _ h; exact absurd h (by decide), ?_, ?_, ?_⟩
        · intro _ _; exact Or.inl rfl
        · intro h; exact absurd h (by decide)
        · have := ih false false
          simpa using this
      | false =>
        simp only [Bool.false_eq_true, if_false, List.cons_append, List.nil_append, PercentSafe]
        refine ⟨by intro _ _; exact Or.inl rfl, ?_, ?_⟩
        · intro h; exact absurd h (by decide)
        · have := ih false false
          simpa using this
    · next hcond =>
      simp only [PercentSafe]
      refine ⟨?_, ih _ _⟩
      intro hls hc
      subst hc
      right
      have hk : makoKeyword cs = true := by
        simp only [hls, Bool.true_and, decide_true, Bool.not_eq_true',
          Bool.not_eq_false] at hcond
        simpa using hcond
      have : decide ('%' = '\n') = false := by decide
      rw [this]
      exact makoKeyword_escapePercent cs hk

end Annet.Hw.Lemmas
